package linedirective

type First struct{ A int }

type Second struct{ B First }

//line models.go:3:1
type Third struct{ C Second }

type Fourth []Third
