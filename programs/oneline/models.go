package oneline

// several type declarations on one line (legal, never printed by gofmt)

type Zone struct{ Name string }; type Area struct{ Zones []Zone; Owner Last }

type ( Week [7]Day; Day int )

type Last string
