package eqdepth

// Two embedded structs declare the same JSON name at the same depth. encoding/json keeps the one
// carrying a json NAME tag when exactly one does; a tag holding options only (`json:",omitempty"`)
// is no name: both fields are then ambiguous and neither key is written.

type Left struct {
	Code int `json:",omitempty"`
	L    string
}

type Right struct {
	Code int
	R    string
}

// Doc writes the keys L, R, Name: Code is ambiguous (options-only tag against no tag).
type Doc struct {
	Left
	Right
	Name string
}

type NamedLeft struct {
	Code int `json:"Code"`
	L2   string
}

// Doc2 writes Code (the tagged one wins), L2, R.
type Doc2 struct {
	NamedLeft
	Right
}

type OptLeft struct {
	Code int `json:",omitempty"`
	L3   string
}

type OptRight struct {
	Code int `json:",omitempty"`
	R3   string
}

// Doc3 writes L3, R3, Flag: two options-only tags are two untagged fields.
type Doc3 struct {
	OptLeft
	OptRight
	Flag bool
}
