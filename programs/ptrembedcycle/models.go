package ptrembedcycle

// Embedded POINTERS may lie on a cycle (by-value embedding cannot): a struct embedding
// a pointer to itself, and two structs embedding a pointer to each other.

type Node struct {
	*Node
	Value int
}

type Left struct {
	*Right
	L string
}

type Right struct {
	*Left
	R string
}

type Holder struct {
	First Node
	Pair  Left
}
