// Package time is a user package named like the standard one.
package time

import "time"

type Stamp time.Time

type BirthDate time.Time

func (s Stamp) MarshalJSON() ([]byte, error) { return time.Time(s).MarshalJSON() }

func (s *Stamp) UnmarshalJSON(b []byte) error {
	var t time.Time
	if err := t.UnmarshalJSON(b); err != nil {
		return err
	}
	*s = Stamp(t)
	return nil
}

func (s BirthDate) MarshalJSON() ([]byte, error) { return time.Time(s).MarshalJSON() }

func (s *BirthDate) UnmarshalJSON(b []byte) error {
	var t time.Time
	if err := t.UnmarshalJSON(b); err != nil {
		return err
	}
	*s = BirthDate(t)
	return nil
}
