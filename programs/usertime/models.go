package usertime

import "example.com/synth/usertime/time"

// types over time.Time declared in a USER package that is itself called time

type Event struct {
	At      time.Stamp
	Born    time.BirthDate
	History []time.Stamp
	ByDay   map[string]time.BirthDate
}
