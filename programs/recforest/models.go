package recforest

// A named container OF a self-recursive named container: the cycle (Tree) does
// not pass through the outer types (Forest, Grove).

type Tree []Tree

type Forest []Tree

type Grove map[string]Forest

type Park struct {
	Id     int64
	Direct Tree
	Plots  map[string]Forest
	Groves Grove
}
