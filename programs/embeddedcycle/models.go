package embeddedcycle

// An embedded struct that lies on a cycle and is declared BEFORE the struct
// embedding it: Outer is analysed while Inner is registered but still empty,
// the promoted field Kids is lost (with the reverse declaration order it is kept).

type Inner struct {
	Kids []Outer
}

type Outer struct {
	Inner
	N int
}
