package ids

type ID int64

type Tag string
