package keys

type Code string

type Level int
