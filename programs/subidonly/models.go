package subidonly

import (
	"example.com/synth/subidonly/ids"
	"example.com/synth/subidonly/keys"
)

// The root file uses basic-backed named types of a sub-package and no basic type of its own:
// the helpers of int / string must be reachable from the root's Dart file all the same.

type Ref struct {
	Target ids.ID
	Tags   []ids.Tag
}

type ListInt []int

type Mixed struct {
	Named ListInt
	Plain []int
}

// the package keys is only ever used for the KEYS of maps
type Index struct {
	ByCode  map[keys.Code]int
	ByLevel map[keys.Level][]string
}
