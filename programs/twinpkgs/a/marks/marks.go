// Package marks (a side): one of two packages of the tree that share their NAME.
package marks

type MarkA int

const (
	MarkAZero MarkA = iota // zero
	MarkAOne               // one
	MarkATwo               // two
)
