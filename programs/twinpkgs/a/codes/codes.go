// Package codes (a side): one of two packages of the tree that share their NAME.
package codes

type CodeA int

const (
	CodeAZero CodeA = iota // zero
	CodeAOne               // one
	CodeATwo               // two
)
