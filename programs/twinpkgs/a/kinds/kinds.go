// Package kinds (a side): one of two packages of the tree that share their NAME.
package kinds

type KindA int

const (
	KindAZero KindA = iota // zero
	KindAOne               // one
	KindATwo               // two
)
