// Package units (a side): one of two packages of the tree that share their NAME.
package units

type UnitA int

const (
	UnitAZero UnitA = iota // zero
	UnitAOne               // one
	UnitATwo               // two
)
