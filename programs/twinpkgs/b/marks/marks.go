// Package marks (b side): one of two packages of the tree that share their NAME.
package marks

type MarkB int

const (
	MarkBZero MarkB = iota // zero
	MarkBOne               // one
	MarkBTwo               // two
)
