// Package units (b side): one of two packages of the tree that share their NAME.
package units

type UnitB int

const (
	UnitBZero UnitB = iota // zero
	UnitBOne               // one
	UnitBTwo               // two
)
