// Package codes (b side): one of two packages of the tree that share their NAME.
package codes

type CodeB int

const (
	CodeBZero CodeB = iota // zero
	CodeBOne               // one
	CodeBTwo               // two
)
