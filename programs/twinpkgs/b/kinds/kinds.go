// Package kinds (b side): one of two packages of the tree that share their NAME.
package kinds

type KindB int

const (
	KindBZero KindB = iota // zero
	KindBOne               // one
	KindBTwo               // two
)
