package twinpkgs

import (
	acodes "example.com/synth/twinpkgs/a/codes"
	akinds "example.com/synth/twinpkgs/a/kinds"
	amarks "example.com/synth/twinpkgs/a/marks"
	aunits "example.com/synth/twinpkgs/a/units"
	bcodes "example.com/synth/twinpkgs/b/codes"
	bkinds "example.com/synth/twinpkgs/b/kinds"
	bmarks "example.com/synth/twinpkgs/b/marks"
	bunits "example.com/synth/twinpkgs/b/units"
)

// The tree holds four pairs of packages sharing their NAME (a/units and b/units, ...): a walk of the
// import graph that identifies packages by name visits one of each pair only, and which one depends on
// the iteration order of the import map (eight entries: every rotation of one bucket is possible).

type Holder struct {
	UnitAField aunits.UnitA
	CodeAField acodes.CodeA
	MarkAField amarks.MarkA
	KindAField akinds.KindA
	UnitBField bunits.UnitB
	CodeBField bcodes.CodeB
	MarkBField bmarks.MarkB
	KindBField bkinds.KindB
}
