package pgmodel

import (
	"fmt"
	"strings"
)

// LiteralElem is one element of an array literal / one field of a composite
// literal, before conversion to the element type.
type LiteralElem struct {
	Text   string
	Null   bool
	Quoted bool
}

func isArraySpace(c byte) bool {
	return c == ' ' || c == '\t' || c == '\n' || c == '\r' || c == '\v' || c == '\f'
}

// ParseArrayLiteral parses the text form of a one-dimensional PostgreSQL
// array: {1,2}, {t,f}, {"a b","c\"d",NULL}, {}. Malformed input gives an
// *EvalError ("malformed array literal"), multi-dimensional arrays or
// explicit bounds ("[1:2]={...}") an *UnsupportedError.
func ParseArrayLiteral(s string) ([]LiteralElem, error) {
	malformed := func(detail string) error {
		return evalErrorf("malformed array literal: %q (%s)", s, detail)
	}
	i, n := 0, len(s)
	for i < n && isArraySpace(s[i]) {
		i++
	}
	if i < n && s[i] == '[' {
		return nil, unsupportedf("array literal with explicit bounds: %q", s)
	}
	if i >= n || s[i] != '{' {
		return nil, malformed(`array value must start with "{" or dimension information`)
	}
	i++
	elems := []LiteralElem{}
	skip := func() {
		for i < n && isArraySpace(s[i]) {
			i++
		}
	}
	skip()
	if i < n && s[i] == '}' {
		i++
		skip()
		if i != n {
			return nil, malformed("junk after closing right brace")
		}
		return elems, nil
	}
	for {
		skip()
		if i >= n {
			return nil, malformed("unexpected end of input")
		}
		switch {
		case s[i] == '{':
			return nil, unsupportedf("multi-dimensional array literal: %q", s)
		case s[i] == '"':
			i++
			var sb strings.Builder
			closed := false
			for i < n {
				c := s[i]
				if c == '\\' {
					if i+1 >= n {
						return nil, malformed("unexpected end of input")
					}
					sb.WriteByte(s[i+1])
					i += 2
					continue
				}
				if c == '"' {
					i++
					closed = true
					break
				}
				sb.WriteByte(c)
				i++
			}
			if !closed {
				return nil, malformed("unexpected end of input")
			}
			elems = append(elems, LiteralElem{Text: sb.String(), Quoted: true})
		case s[i] == ',' || s[i] == '}':
			return nil, malformed(fmt.Sprintf("unexpected %q character", string(s[i])))
		default:
			var sb strings.Builder
			lastNonSpace := 0
			escaped := false
			for i < n && s[i] != ',' && s[i] != '}' {
				c := s[i]
				if c == '{' || c == '"' {
					return nil, malformed(fmt.Sprintf("unexpected %q character", string(c)))
				}
				if c == '\\' {
					if i+1 >= n {
						return nil, malformed("unexpected end of input")
					}
					sb.WriteByte(s[i+1])
					i += 2
					lastNonSpace = sb.Len()
					escaped = true
					continue
				}
				sb.WriteByte(c)
				i++
				if !isArraySpace(c) {
					lastNonSpace = sb.Len()
				}
			}
			txt := sb.String()[:lastNonSpace]
			if strings.EqualFold(txt, "null") && !escaped {
				elems = append(elems, LiteralElem{Null: true})
			} else {
				elems = append(elems, LiteralElem{Text: txt})
			}
		}
		skip()
		if i >= n {
			return nil, malformed("unexpected end of input")
		}
		if s[i] == ',' {
			i++
			continue
		}
		if s[i] == '}' {
			i++
			skip()
			if i != n {
				return nil, malformed("junk after closing right brace")
			}
			return elems, nil
		}
		return nil, malformed(fmt.Sprintf("unexpected %q character", string(s[i])))
	}
}

// QuoteArrayElem renders a text element of an array literal, always
// double-quoted, with \ and " escaped.
func QuoteArrayElem(s string) string {
	var sb strings.Builder
	sb.WriteByte('"')
	for i := 0; i < len(s); i++ {
		if s[i] == '"' || s[i] == '\\' {
			sb.WriteByte('\\')
		}
		sb.WriteByte(s[i])
	}
	sb.WriteByte('"')
	return sb.String()
}

// ParseCompositeLiteral parses the text form of a row value: (1,2,3),
// ("a b",,x) where an empty field is NULL. Malformed input gives an
// *EvalError ("malformed record literal").
func ParseCompositeLiteral(s string) ([]LiteralElem, error) {
	malformed := func(detail string) error {
		return evalErrorf("malformed record literal: %q (%s)", s, detail)
	}
	i, n := 0, len(s)
	for i < n && isArraySpace(s[i]) {
		i++
	}
	if i >= n || s[i] != '(' {
		return nil, malformed("missing left parenthesis")
	}
	i++
	var fields []LiteralElem
	for {
		// one field
		var sb strings.Builder
		quotedAny, sawAny := false, false
		inQuote := false
		for {
			if i >= n {
				return nil, malformed("unexpected end of input")
			}
			c := s[i]
			if inQuote {
				if c == '\\' {
					if i+1 >= n {
						return nil, malformed("unexpected end of input")
					}
					sb.WriteByte(s[i+1])
					i += 2
					continue
				}
				if c == '"' {
					if i+1 < n && s[i+1] == '"' {
						sb.WriteByte('"')
						i += 2
						continue
					}
					inQuote = false
					i++
					continue
				}
				sb.WriteByte(c)
				i++
				continue
			}
			if c == ',' || c == ')' {
				break
			}
			sawAny = true
			if c == '\\' {
				if i+1 >= n {
					return nil, malformed("unexpected end of input")
				}
				sb.WriteByte(s[i+1])
				i += 2
				continue
			}
			if c == '"' {
				inQuote = true
				quotedAny = true
				i++
				continue
			}
			sb.WriteByte(c)
			i++
		}
		if !sawAny {
			fields = append(fields, LiteralElem{Null: true})
		} else {
			fields = append(fields, LiteralElem{Text: sb.String(), Quoted: quotedAny})
		}
		if s[i] == ',' {
			i++
			continue
		}
		// ')'
		i++
		for i < n && isArraySpace(s[i]) {
			i++
		}
		if i != n {
			return nil, malformed("junk after right parenthesis")
		}
		return fields, nil
	}
}
