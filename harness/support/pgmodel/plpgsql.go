package pgmodel

import (
	"strings"
)

// Block is a PL/pgSQL block: DECLARE section and statements.
type Block struct {
	Decls []*VarDecl
	Stmts []Stmt
}

// VarDecl is one declared variable.
type VarDecl struct {
	Name     string // lower-cased (or exact when it was double-quoted)
	Type     string // normalised
	Init     Expr   // nil when absent
	Constant bool
	NotNull  bool
}

// Stmt is a PL/pgSQL statement.
type Stmt interface{ isStmt() }

type (
	// CondBlock is a condition with the statements it guards.
	CondBlock struct {
		Cond Expr
		Body []Stmt
	}
	// IfStmt is IF .. THEN .. [ELSIF ..] [ELSE ..] END IF.
	IfStmt struct {
		Branches []CondBlock
		Else     []Stmt
		HasElse  bool
	}
	// CaseStmt is the searched CASE statement.
	CaseStmt struct {
		Whens   []CondBlock
		Else    []Stmt
		HasElse bool
	}
	// ReturnStmt is RETURN expr.
	ReturnStmt struct{ E Expr }
	// AssignStmt is name := expr.
	AssignStmt struct {
		Name string // lower-cased
		E    Expr
	}
	// RaiseStmt is RAISE ...; only Level matters: "exception" aborts the
	// function, the other levels are ignored (arguments are never evaluated).
	RaiseStmt struct {
		Level string // lower case: debug, log, info, notice, warning, exception
		Raw   string
	}
	// NullStmt is NULL;
	NullStmt struct{}
)

func (*IfStmt) isStmt()     {}
func (*CaseStmt) isStmt()   {}
func (*ReturnStmt) isStmt() {}
func (*AssignStmt) isStmt() {}
func (*RaiseStmt) isStmt()  {}
func (*NullStmt) isStmt()   {}

var unsupportedStmtKeywords = setOf("for", "foreach", "while", "loop", "exit", "continue",
	"perform", "execute", "select", "insert", "update", "delete", "get", "assert", "open",
	"fetch", "close", "call", "begin", "declare", "with", "merge", "move", "commit", "rollback")

// ParseFunctionBody parses a PL/pgSQL function body. known lists the names
// already in scope (the function parameters, lower-cased).
func ParseFunctionBody(src string, known ...string) (*Block, error) {
	toks, err := Tokenize(src)
	if err != nil {
		return nil, err
	}
	p := &parser{toks: toks, src: src}
	scope := map[string]bool{}
	for _, k := range known {
		scope[k] = true
	}
	b, err := p.parseBlock(scope)
	if err != nil {
		return nil, err
	}
	return b, nil
}

func identKey(t Token) string {
	if t.Quoted {
		return t.Text
	}
	return t.Lower
}

func (p *parser) parseBlock(scope map[string]bool) (*Block, error) {
	b := &Block{}
	if p.peek().IsPunct("<") {
		return nil, unsupportedf("block label")
	}
	if p.acceptKw("declare") {
		for !p.peek().Is("begin") {
			if p.eof() {
				return nil, p.errNear(p.peek())
			}
			if p.peek().Is("declare") { // DECLARE may be repeated
				p.next()
				continue
			}
			d, err := p.parseDecl()
			if err != nil {
				return nil, err
			}
			for _, o := range b.Decls {
				if o.Name == d.Name {
					return nil, parseErrorf(p.peek().Pos, "duplicate declaration of %q", d.Name)
				}
			}
			b.Decls = append(b.Decls, d)
			scope[d.Name] = true
		}
	}
	if err := p.expectKw("begin"); err != nil {
		return nil, err
	}
	stmts, err := p.parseStmts(scope, "end")
	if err != nil {
		return nil, err
	}
	b.Stmts = stmts
	if p.peek().Is("exception") {
		return nil, unsupportedf("EXCEPTION section")
	}
	if err := p.expectKw("end"); err != nil {
		return nil, err
	}
	if t := p.peek(); t.Kind == TIdent && !p.peekAt(1).IsPunct("(") && !t.Is("if") && !t.Is("case") && !t.Is("loop") {
		return nil, unsupportedf("block label after END")
	}
	p.acceptPunct(";")
	if !p.eof() {
		return nil, p.errNear(p.peek())
	}
	return b, nil
}

func (p *parser) parseDecl() (*VarDecl, error) {
	name := p.next()
	if name.Kind != TIdent {
		return nil, p.errNear(name)
	}
	if !name.Quoted && reservedKeywords[name.Lower] {
		return nil, p.errNear(name)
	}
	d := &VarDecl{Name: identKey(name)}
	if p.acceptKw("constant") {
		d.Constant = true
	}
	if p.peek().Is("alias") || p.peek().Is("cursor") || p.peek().Is("record") {
		return nil, unsupportedf("declaration of kind %s", strings.ToUpper(p.peek().Lower))
	}
	ty, err := p.parseTypeName()
	if err != nil {
		return nil, err
	}
	if p.peek().IsPunct("%") {
		return nil, unsupportedf("%%TYPE / %%ROWTYPE declaration")
	}
	d.Type = ty
	if p.peek().Is("collate") {
		return nil, unsupportedf("COLLATE in declaration")
	}
	if p.acceptKw("not") {
		if err := p.expectKw("null"); err != nil {
			return nil, err
		}
		d.NotNull = true
	}
	if p.acceptPunct(":=") || p.acceptPunct("=") || p.acceptKw("default") {
		e, err := p.parseExpr()
		if err != nil {
			return nil, err
		}
		d.Init = e
	} else if d.NotNull {
		return nil, parseErrorf(name.Pos, "variable %q must have a default value, since it's declared NOT NULL", d.Name)
	} else if d.Constant {
		// allowed by PostgreSQL (constant NULL)
		_ = d
	}
	if err := p.expectPunct(";"); err != nil {
		return nil, err
	}
	return d, nil
}

func isTerminator(t Token, terms []string) bool {
	for _, k := range terms {
		if t.Is(k) {
			return true
		}
	}
	return false
}

func (p *parser) parseStmts(scope map[string]bool, terms ...string) ([]Stmt, error) {
	var out []Stmt
	for {
		t := p.peek()
		if t.Kind == tEOF {
			return nil, p.errNear(t)
		}
		if isTerminator(t, terms) {
			return out, nil
		}
		if t.Is("exception") {
			return out, nil
		}
		s, err := p.parseStmt(scope)
		if err != nil {
			return nil, err
		}
		out = append(out, s)
	}
}

func (p *parser) parseStmt(scope map[string]bool) (Stmt, error) {
	t := p.peek()
	if t.Kind != TIdent {
		if t.IsPunct("<") {
			return nil, unsupportedf("statement label")
		}
		return nil, p.errNear(t)
	}
	// assignment: ident := expr ;   (also "=")
	if n := p.peekAt(1); n.IsPunct(":=") || (n.IsPunct("=") && !t.Quoted && !reservedKeywords[t.Lower]) {
		key := identKey(t)
		if !t.Quoted && reservedKeywords[t.Lower] {
			return nil, p.errNear(t)
		}
		if !scope[key] {
			return nil, parseErrorf(t.Pos, "%q is not a known variable", t.Text)
		}
		p.next()
		p.next()
		e, err := p.parseExpr()
		if err != nil {
			return nil, err
		}
		if err := p.expectPunct(";"); err != nil {
			return nil, err
		}
		return &AssignStmt{Name: key, E: e}, nil
	}
	if t.Quoted {
		return nil, p.errNear(t)
	}
	switch t.Lower {
	case "if":
		p.next()
		st := &IfStmt{}
		for {
			cond, err := p.parseExpr()
			if err != nil {
				return nil, err
			}
			if err := p.expectKw("then"); err != nil {
				return nil, err
			}
			body, err := p.parseStmts(scope, "elsif", "elseif", "else", "end")
			if err != nil {
				return nil, err
			}
			st.Branches = append(st.Branches, CondBlock{Cond: cond, Body: body})
			if p.acceptKw("elsif") || p.acceptKw("elseif") {
				continue
			}
			break
		}
		if p.acceptKw("else") {
			st.HasElse = true
			body, err := p.parseStmts(scope, "end")
			if err != nil {
				return nil, err
			}
			st.Else = body
		}
		if err := p.expectKw("end"); err != nil {
			return nil, err
		}
		if err := p.expectKw("if"); err != nil {
			return nil, err
		}
		if err := p.expectPunct(";"); err != nil {
			return nil, err
		}
		return st, nil
	case "case":
		p.next()
		if !p.peek().Is("when") {
			return nil, unsupportedf("simple CASE statement (CASE expr WHEN ...)")
		}
		st := &CaseStmt{}
		for p.acceptKw("when") {
			cond, err := p.parseExpr()
			if err != nil {
				return nil, err
			}
			if p.peek().IsPunct(",") {
				return nil, p.errNear(p.peek())
			}
			if err := p.expectKw("then"); err != nil {
				return nil, err
			}
			body, err := p.parseStmts(scope, "when", "else", "end")
			if err != nil {
				return nil, err
			}
			st.Whens = append(st.Whens, CondBlock{Cond: cond, Body: body})
		}
		if p.acceptKw("else") {
			st.HasElse = true
			body, err := p.parseStmts(scope, "end")
			if err != nil {
				return nil, err
			}
			st.Else = body
		}
		if err := p.expectKw("end"); err != nil {
			return nil, err
		}
		if err := p.expectKw("case"); err != nil {
			return nil, err
		}
		if err := p.expectPunct(";"); err != nil {
			return nil, err
		}
		return st, nil
	case "return":
		p.next()
		if p.peek().IsPunct(";") {
			return nil, unsupportedf("RETURN without expression")
		}
		if p.peek().Is("next") || p.peek().Is("query") {
			return nil, unsupportedf("RETURN %s", strings.ToUpper(p.peek().Lower))
		}
		e, err := p.parseExpr()
		if err != nil {
			return nil, err
		}
		if err := p.expectPunct(";"); err != nil {
			return nil, err
		}
		return &ReturnStmt{E: e}, nil
	case "raise":
		start := p.next()
		level := "exception"
		if l := p.peek(); l.Kind == TIdent && !l.Quoted {
			switch l.Lower {
			case "debug", "log", "info", "notice", "warning", "exception":
				level = l.Lower
				p.next()
			}
		}
		depth := 0
		end := start.End
		for {
			x := p.peek()
			if x.Kind == tEOF {
				return nil, p.errNear(x)
			}
			if x.IsPunct("(") {
				depth++
			} else if x.IsPunct(")") {
				depth--
			} else if x.IsPunct(";") && depth <= 0 {
				p.next()
				break
			}
			end = x.End
			p.next()
		}
		return &RaiseStmt{Level: level, Raw: p.src[start.Pos:end]}, nil
	case "null":
		p.next()
		if err := p.expectPunct(";"); err != nil {
			return nil, err
		}
		return &NullStmt{}, nil
	}
	if unsupportedStmtKeywords[t.Lower] {
		return nil, unsupportedf("PL/pgSQL statement %s", strings.ToUpper(t.Lower))
	}
	return nil, p.errNear(t)
}

// blockExprs calls fn on every expression of the block, in source order.
func blockExprs(b *Block, fn func(Expr)) {
	if b == nil {
		return
	}
	for _, d := range b.Decls {
		if d.Init != nil {
			fn(d.Init)
		}
	}
	var walk func(list []Stmt)
	walk = func(list []Stmt) {
		for _, s := range list {
			switch x := s.(type) {
			case *IfStmt:
				for _, br := range x.Branches {
					fn(br.Cond)
					walk(br.Body)
				}
				walk(x.Else)
			case *CaseStmt:
				for _, br := range x.Whens {
					fn(br.Cond)
					walk(br.Body)
				}
				walk(x.Else)
			case *ReturnStmt:
				fn(x.E)
			case *AssignStmt:
				fn(x.E)
			}
		}
	}
	walk(b.Stmts)
}
