package pgmodel

import (
	"bytes"
	"encoding/json"
	"fmt"
	"io"
	"math/big"
	"sort"
	"strconv"
	"strings"
	"time"
	"unicode/utf8"
)

// Kind is the run-time type class of a Value.
type Kind int

const (
	KNull Kind = iota
	KBool
	KNum
	KText
	KJSONB
	KArray
	KComposite
	KTime
	KBytes
)

func (k Kind) String() string {
	switch k {
	case KNull:
		return "unknown"
	case KBool:
		return "boolean"
	case KNum:
		return "numeric"
	case KText:
		return "text"
	case KJSONB:
		return "jsonb"
	case KArray:
		return "array"
	case KComposite:
		return "record"
	case KTime:
		return "timestamp with time zone"
	case KBytes:
		return "bytea"
	}
	return "kind(" + strconv.Itoa(int(k)) + ")"
}

// Value is an SQL value. The zero Value is an untyped NULL.
type Value struct {
	K Kind
	// NullKind is the static type class of a NULL (KNull when untyped).
	NullKind Kind
	B        bool
	N        *big.Rat // KNum
	// Int marks a KNum of an integer type (integer, smallint, bigint) as
	// opposed to numeric; only matters for operator resolution (jsonb -> int).
	Int bool
	S   string // KText
	// Unknown marks a KText coming from an untyped string literal: it adapts
	// to the type of the other operand like PostgreSQL's "unknown" type.
	Unknown  bool
	J        any     // KJSONB: nil, bool, json.Number, string, []any, map[string]any
	Elems    []Value // KArray elements / KComposite fields
	ElemType string  // KArray: normalised element type ("integer", "text", ...)
	TypeName string  // KComposite: lower-cased type name
	T        time.Time
	Bytes    []byte
}

// Null returns an untyped SQL NULL.
func Null() Value { return Value{} }

// NullOf returns an SQL NULL carrying a static type class (used so that type
// errors are detected even when the run-time value is NULL).
func NullOf(k Kind) Value { return Value{NullKind: k} }

// Bool returns a boolean.
func Bool(b bool) Value { return Value{K: KBool, B: b} }

// NumInt returns an integer-typed number.
func NumInt(i int64) Value { return Value{K: KNum, N: new(big.Rat).SetInt64(i), Int: true} }

// NumRat returns a numeric-typed number.
func NumRat(r *big.Rat) Value { return Value{K: KNum, N: r} }

// NumFromString parses a decimal number ("12", "-1.50", "1e3"). Text without
// fraction/exponent gives an integer-typed value.
func NumFromString(s string) (Value, error) {
	r, err := parseNumeric(s)
	if err != nil {
		return Value{}, err
	}
	isInt := !strings.ContainsAny(s, ".eE")
	return Value{K: KNum, N: r, Int: isInt}, nil
}

// Text returns a (typed) text value.
func Text(s string) Value { return Value{K: KText, S: s} }

// UnknownLiteral returns an untyped string literal value.
func UnknownLiteral(s string) Value { return Value{K: KText, S: s, Unknown: true} }

// JSONB wraps a decoded JSON tree (encoding/json with UseNumber).
func JSONB(tree any) Value { return Value{K: KJSONB, J: tree} }

// Array returns a one-dimensional SQL array.
func Array(elemType string, elems []Value) Value {
	if elems == nil {
		elems = []Value{}
	}
	return Value{K: KArray, ElemType: elemType, Elems: elems}
}

// Composite returns a composite (row) value of the named type.
func Composite(typeName string, fields []Value) Value {
	return Value{K: KComposite, TypeName: FoldIdent(typeName), Elems: fields}
}

// Time returns a timestamp value.
func Time(t time.Time) Value { return Value{K: KTime, T: t} }

// Bytes returns a bytea value.
func Bytes(b []byte) Value { return Value{K: KBytes, Bytes: b} }

// IsNull reports whether v is SQL NULL.
func (v Value) IsNull() bool { return v.K == KNull }

// staticKind is the type class used for operator resolution.
func (v Value) staticKind() Kind {
	if v.K == KNull {
		return v.NullKind
	}
	return v.K
}

const maxNumericExponent = 100000

// parseNumeric parses PostgreSQL numeric input syntax (no NaN/Infinity).
func parseNumeric(s string) (*big.Rat, error) {
	t := strings.TrimSpace(s)
	if t == "" {
		return nil, fmt.Errorf("invalid input syntax for type numeric: %q", s)
	}
	body := t
	if body[0] == '+' || body[0] == '-' {
		body = body[1:]
	}
	mant, exp := body, ""
	if i := strings.IndexAny(body, "eE"); i >= 0 {
		mant, exp = body[:i], body[i+1:]
		if exp == "" {
			return nil, fmt.Errorf("invalid input syntax for type numeric: %q", s)
		}
		e := exp
		if e[0] == '+' || e[0] == '-' {
			e = e[1:]
		}
		if e == "" || strings.Trim(e, "0123456789") != "" {
			return nil, fmt.Errorf("invalid input syntax for type numeric: %q", s)
		}
		if n, err := strconv.Atoi(exp); err != nil || n > maxNumericExponent || n < -maxNumericExponent {
			return nil, fmt.Errorf("value overflows numeric format: %q", s)
		}
	}
	digits := strings.Replace(mant, ".", "", 1)
	if digits == "" || strings.Trim(digits, "0123456789") != "" {
		return nil, fmt.Errorf("invalid input syntax for type numeric: %q", s)
	}
	r, ok := new(big.Rat).SetString(t)
	if !ok {
		return nil, fmt.Errorf("invalid input syntax for type numeric: %q", s)
	}
	return r, nil
}

// numericText renders the decimal text PostgreSQL's numeric type prints for a
// number given in JSON / SQL literal syntax: the exponent is expanded and the
// display scale of the input is kept ("1.50" -> "1.50", "1e2" -> "100",
// "1.5e-3" -> "0.0015").
func numericText(lit string) (string, error) {
	if _, err := parseNumeric(lit); err != nil {
		return "", err
	}
	s := strings.TrimSpace(lit)
	neg := false
	if s[0] == '+' || s[0] == '-' {
		neg = s[0] == '-'
		s = s[1:]
	}
	exp := 0
	if i := strings.IndexAny(s, "eE"); i >= 0 {
		exp, _ = strconv.Atoi(s[i+1:])
		s = s[:i]
	}
	intPart, frac := s, ""
	if i := strings.IndexByte(s, '.'); i >= 0 {
		intPart, frac = s[:i], s[i+1:]
	}
	digits := intPart + frac
	point := len(intPart) + exp // position of the decimal point inside digits
	if point <= 0 {
		digits = strings.Repeat("0", 1-point) + digits
		point = 1
	}
	if point > len(digits) {
		digits += strings.Repeat("0", point-len(digits))
	}
	ip, fp := digits[:point], digits[point:]
	ip = strings.TrimLeft(ip, "0")
	if ip == "" {
		ip = "0"
	}
	out := ip
	if fp != "" {
		out += "." + fp
	}
	if neg && strings.Trim(out, "0.") != "" {
		out = "-" + out
	}
	return out, nil
}

// ratText renders a rational exactly when it has a finite decimal expansion
// (always the case for values built from decimal text).
func ratText(r *big.Rat) string {
	if r.IsInt() {
		return r.Num().String()
	}
	// find the smallest scale giving an exact representation, up to 1000 digits
	for prec := 1; prec <= 1000; prec++ {
		s := r.FloatString(prec)
		back, _ := new(big.Rat).SetString(s)
		if back.Cmp(r) == 0 {
			return s
		}
	}
	return r.FloatString(16)
}

// JSONBFromBytes parses JSON text the way the jsonb input function does:
// numbers are kept exactly, duplicate object keys keep the last value, a
// \u0000 escape is rejected (PostgreSQL cannot store it).
func JSONBFromBytes(b []byte) (Value, error) {
	if !utf8.Valid(b) {
		return Value{}, evalErrorf("invalid byte sequence for encoding \"UTF8\"")
	}
	dec := json.NewDecoder(bytes.NewReader(b))
	dec.UseNumber()
	var tree any
	if err := dec.Decode(&tree); err != nil {
		return Value{}, evalErrorf("invalid input syntax for type json: %v", err)
	}
	if _, err := dec.Token(); err != io.EOF {
		return Value{}, evalErrorf("invalid input syntax for type json: trailing data")
	}
	if err := checkSurrogateEscapes(b); err != nil {
		return Value{}, err
	}
	if err := checkJSONTree(tree); err != nil {
		return Value{}, err
	}
	return JSONB(tree), nil
}

// checkSurrogateEscapes rejects \uD800-\uDFFF escapes that do not form a
// valid pair: encoding/json silently replaces them, PostgreSQL raises
// "invalid input syntax for type json".
func checkSurrogateEscapes(b []byte) error {
	hex4 := func(i int) (int, bool) {
		if i+4 > len(b) {
			return 0, false
		}
		n, err := strconv.ParseUint(string(b[i:i+4]), 16, 32)
		return int(n), err == nil
	}
	for i := 0; i < len(b); i++ {
		if b[i] != '\\' {
			continue
		}
		if i+1 >= len(b) {
			break
		}
		if b[i+1] != 'u' {
			i++
			continue
		}
		r, ok := hex4(i + 2)
		if !ok {
			break
		}
		switch {
		case r >= 0xD800 && r < 0xDC00:
			lo, ok := 0, false
			if i+7 < len(b) && b[i+6] == '\\' && b[i+7] == 'u' {
				lo, ok = hex4(i + 8)
			}
			if !ok || lo < 0xDC00 || lo > 0xDFFF {
				return evalErrorf("invalid input syntax for type json: Unicode high surrogate must not follow a high surrogate / low surrogate must follow a high surrogate")
			}
			i += 11
		case r >= 0xDC00 && r <= 0xDFFF:
			return evalErrorf("invalid input syntax for type json: Unicode low surrogate must follow a high surrogate")
		default:
			i += 5
		}
	}
	return nil
}

func checkJSONTree(t any) error {
	switch x := t.(type) {
	case string:
		if strings.ContainsRune(x, 0) {
			return evalErrorf("unsupported Unicode escape sequence: \\u0000 cannot be converted to text")
		}
	case json.Number:
		if _, err := parseNumeric(string(x)); err != nil {
			return evalErrorf("%v", err)
		}
	case []any:
		for _, e := range x {
			if err := checkJSONTree(e); err != nil {
				return err
			}
		}
	case map[string]any:
		for k, e := range x {
			if strings.ContainsRune(k, 0) {
				return evalErrorf("unsupported Unicode escape sequence: \\u0000 cannot be converted to text")
			}
			if err := checkJSONTree(e); err != nil {
				return err
			}
		}
	}
	return nil
}

// normalizeJSONTree converts Go values that are not in the canonical tree
// form (float64, int...) to json.Number so that callers may build trees by
// hand.
func normalizeJSONTree(t any) (any, error) {
	switch x := t.(type) {
	case nil, bool, string, json.Number:
		return x, nil
	case float64:
		return json.Number(strconv.FormatFloat(x, 'f', -1, 64)), nil
	case int:
		return json.Number(strconv.Itoa(x)), nil
	case int64:
		return json.Number(strconv.FormatInt(x, 10)), nil
	case []any:
		out := make([]any, len(x))
		for i, e := range x {
			n, err := normalizeJSONTree(e)
			if err != nil {
				return nil, err
			}
			out[i] = n
		}
		return out, nil
	case map[string]any:
		out := make(map[string]any, len(x))
		for k, e := range x {
			n, err := normalizeJSONTree(e)
			if err != nil {
				return nil, err
			}
			out[k] = n
		}
		return out, nil
	}
	return nil, unsupportedf("value of type %T in a jsonb tree", t)
}

// JSONTypeof is jsonb_typeof on a decoded tree.
func JSONTypeof(t any) string {
	switch t.(type) {
	case nil:
		return "null"
	case bool:
		return "boolean"
	case json.Number, float64, int, int64:
		return "number"
	case string:
		return "string"
	case []any:
		return "array"
	case map[string]any:
		return "object"
	}
	return "unknown"
}

func jsonQuote(s string) string {
	// PostgreSQL escapes ", \ and control characters; everything else verbatim.
	var sb strings.Builder
	sb.WriteByte('"')
	for _, r := range s {
		switch r {
		case '"':
			sb.WriteString(`\"`)
		case '\\':
			sb.WriteString(`\\`)
		case '\b':
			sb.WriteString(`\b`)
		case '\f':
			sb.WriteString(`\f`)
		case '\n':
			sb.WriteString(`\n`)
		case '\r':
			sb.WriteString(`\r`)
		case '\t':
			sb.WriteString(`\t`)
		default:
			if r < 0x20 {
				fmt.Fprintf(&sb, `\u%04x`, r)
			} else {
				sb.WriteRune(r)
			}
		}
	}
	sb.WriteByte('"')
	return sb.String()
}

// JSONBText renders a tree in jsonb output format: `{"a": 1, "b": [1, 2]}`,
// object keys ordered by (length, bytes) as jsonb stores them.
func JSONBText(t any) string {
	var sb strings.Builder
	writeJSONBText(&sb, t)
	return sb.String()
}

func writeJSONBText(sb *strings.Builder, t any) {
	switch x := t.(type) {
	case nil:
		sb.WriteString("null")
	case bool:
		if x {
			sb.WriteString("true")
		} else {
			sb.WriteString("false")
		}
	case json.Number:
		if s, err := numericText(string(x)); err == nil {
			sb.WriteString(s)
		} else {
			sb.WriteString(string(x))
		}
	case float64:
		sb.WriteString(strconv.FormatFloat(x, 'f', -1, 64))
	case int:
		sb.WriteString(strconv.Itoa(x))
	case int64:
		sb.WriteString(strconv.FormatInt(x, 10))
	case string:
		sb.WriteString(jsonQuote(x))
	case []any:
		sb.WriteByte('[')
		for i, e := range x {
			if i > 0 {
				sb.WriteString(", ")
			}
			writeJSONBText(sb, e)
		}
		sb.WriteByte(']')
	case map[string]any:
		keys := make([]string, 0, len(x))
		for k := range x {
			keys = append(keys, k)
		}
		sort.Slice(keys, func(i, j int) bool {
			if len(keys[i]) != len(keys[j]) {
				return len(keys[i]) < len(keys[j])
			}
			return keys[i] < keys[j]
		})
		sb.WriteByte('{')
		for i, k := range keys {
			if i > 0 {
				sb.WriteString(", ")
			}
			sb.WriteString(jsonQuote(k))
			sb.WriteString(": ")
			writeJSONBText(sb, x[k])
		}
		sb.WriteByte('}')
	default:
		fmt.Fprintf(sb, "%v", x)
	}
}

func jsonNumberRat(t any) (*big.Rat, bool) {
	switch x := t.(type) {
	case json.Number:
		r, err := parseNumeric(string(x))
		return r, err == nil
	case float64:
		r := new(big.Rat)
		if r.SetFloat64(x) == nil {
			return nil, false
		}
		return r, true
	case int:
		return new(big.Rat).SetInt64(int64(x)), true
	case int64:
		return new(big.Rat).SetInt64(x), true
	}
	return nil, false
}

// JSONEqual is jsonb equality: numbers compare numerically (1.0 = 1), object
// key order is irrelevant.
func JSONEqual(a, b any) bool {
	if ra, ok := jsonNumberRat(a); ok {
		rb, ok := jsonNumberRat(b)
		return ok && ra.Cmp(rb) == 0
	}
	switch x := a.(type) {
	case nil:
		return b == nil
	case bool:
		y, ok := b.(bool)
		return ok && x == y
	case string:
		y, ok := b.(string)
		return ok && x == y
	case []any:
		y, ok := b.([]any)
		if !ok || len(x) != len(y) {
			return false
		}
		for i := range x {
			if !JSONEqual(x[i], y[i]) {
				return false
			}
		}
		return true
	case map[string]any:
		y, ok := b.(map[string]any)
		if !ok || len(x) != len(y) {
			return false
		}
		for k, v := range x {
			w, ok := y[k]
			if !ok || !JSONEqual(v, w) {
				return false
			}
		}
		return true
	}
	return false
}

// String renders v for diagnostics (not SQL syntax).
func (v Value) String() string {
	switch v.K {
	case KNull:
		return "NULL"
	case KBool:
		if v.B {
			return "true"
		}
		return "false"
	case KNum:
		return ratText(v.N)
	case KText:
		return quoteSQLString(v.S)
	case KJSONB:
		return JSONBText(v.J) + "::jsonb"
	case KArray:
		parts := make([]string, len(v.Elems))
		for i, e := range v.Elems {
			parts[i] = e.String()
		}
		return "ARRAY[" + strings.Join(parts, ",") + "]::" + v.ElemType + "[]"
	case KComposite:
		parts := make([]string, len(v.Elems))
		for i, e := range v.Elems {
			parts[i] = e.String()
		}
		return "ROW(" + strings.Join(parts, ",") + ")::" + v.TypeName
	case KTime:
		return v.T.UTC().Format(time.RFC3339Nano)
	case KBytes:
		return fmt.Sprintf("\\x%x", v.Bytes)
	}
	return "?"
}

// parseBool implements PostgreSQL's boolean input: unique prefixes of
// true/false/yes/no, on/off, 1/0, case-insensitive, surrounding white space
// ignored.
func parseBool(s string) (bool, bool) {
	t := strings.ToLower(strings.TrimSpace(s))
	if t == "" {
		return false, false
	}
	switch {
	case strings.HasPrefix("true", t), strings.HasPrefix("yes", t), t == "on", t == "1":
		return true, true
	case strings.HasPrefix("false", t), strings.HasPrefix("no", t), t == "of", t == "off", t == "0":
		return false, true
	}
	return false, false
}

// parseInt implements integer input syntax: optional white space, sign, digits.
func parseIntText(s string) (*big.Int, bool) {
	t := strings.TrimSpace(s)
	if t == "" {
		return nil, false
	}
	body := t
	if body[0] == '+' || body[0] == '-' {
		body = body[1:]
	}
	if body == "" || strings.Trim(body, "0123456789") != "" {
		return nil, false
	}
	n, ok := new(big.Int).SetString(t, 10)
	return n, ok
}

// roundRat rounds half away from zero, as numeric -> integer casts do.
func roundRat(r *big.Rat) *big.Int {
	if r.IsInt() {
		return new(big.Int).Set(r.Num())
	}
	two := big.NewInt(2)
	num := new(big.Int).Mul(r.Num(), two)
	den := new(big.Int).Mul(r.Denom(), two)
	// floor((2n + d) / 2d) for positive, symmetric for negative
	neg := r.Sign() < 0
	if neg {
		num.Neg(num)
	}
	num.Add(num, r.Denom())
	q := new(big.Int).Quo(num, den)
	if neg {
		q.Neg(q)
	}
	return q
}
