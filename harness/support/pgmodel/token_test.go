package pgmodel

import (
	"errors"
	"reflect"
	"strings"
	"testing"
)

type tk struct {
	k TokenKind
	s string
}

func kinds(toks []Token) []tk {
	out := make([]tk, len(toks))
	for i, t := range toks {
		out[i] = tk{t.Kind, t.Text}
	}
	return out
}

func TestTokenize(t *testing.T) {
	cases := []struct {
		name string
		src  string
		want []tk
	}{
		{"empty", "  \n\t", []tk{}},
		{"idents keep spelling", "Foo bar_1 _x a$b", []tk{{TIdent, "Foo"}, {TIdent, "bar_1"}, {TIdent, "_x"}, {TIdent, "a$b"}}},
		{"numbers", "1 23.5 .5 1e3 1.5E-2 7.", []tk{{TNumber, "1"}, {TNumber, "23.5"}, {TNumber, ".5"}, {TNumber, "1e3"}, {TNumber, "1.5E-2"}, {TNumber, "7."}}},
		{"string escape", "'a''b' ''", []tk{{TString, "a'b"}, {TString, ""}}},
		{"string keeps backslash", `'a\n'`, []tk{{TString, `a\n`}}},
		{"quoted ident", `"Id" "a""b"`, []tk{{TIdent, "Id"}, {TIdent, `a"b`}}},
		{"line comment", "a -- b c\n d", []tk{{TIdent, "a"}, {TIdent, "d"}}},
		{"line comment at end", "a -- b", []tk{{TIdent, "a"}}},
		{"block comment", "a /* x ; y */ b", []tk{{TIdent, "a"}, {TIdent, "b"}}},
		{"nested block comment", "a /* x /* y */ z */ b", []tk{{TIdent, "a"}, {TIdent, "b"}}},
		{"params", "$1 $23", []tk{{TParam, "$1"}, {TParam, "$23"}}},
		{"dollar body", "AS $$ a; 'b' -- c\n $$ x", []tk{{TIdent, "AS"}, {TDollarBody, " a; 'b' -- c\n "}, {TIdent, "x"}}},
		{"tagged dollar body", "$fn$ a $$ b $fn$", []tk{{TDollarBody, " a $$ b "}}},
		{"multi char ops", "a->>b->c#>>d#>e::f!=g<>h<=i>=j||k:=l",
			[]tk{{TIdent, "a"}, {TPunct, "->>"}, {TIdent, "b"}, {TPunct, "->"}, {TIdent, "c"}, {TPunct, "#>>"}, {TIdent, "d"},
				{TPunct, "#>"}, {TIdent, "e"}, {TPunct, "::"}, {TIdent, "f"}, {TPunct, "!="}, {TIdent, "g"}, {TPunct, "<>"},
				{TIdent, "h"}, {TPunct, "<="}, {TIdent, "i"}, {TPunct, ">="}, {TIdent, "j"}, {TPunct, "||"}, {TIdent, "k"},
				{TPunct, ":="}, {TIdent, "l"}}},
		{"single puncts", "( ) , ; . = < > + - * / % [ ]", []tk{{TPunct, "("}, {TPunct, ")"}, {TPunct, ","}, {TPunct, ";"}, {TPunct, "."},
			{TPunct, "="}, {TPunct, "<"}, {TPunct, ">"}, {TPunct, "+"}, {TPunct, "-"}, {TPunct, "*"}, {TPunct, "/"}, {TPunct, "%"}, {TPunct, "["}, {TPunct, "]"}}},
		{"minus is not a comment", "a - b", []tk{{TIdent, "a"}, {TPunct, "-"}, {TIdent, "b"}}},
		{"comment inside string kept", "'a -- b'", []tk{{TString, "a -- b"}}},
		{"arrow then string", "data->>'Kind'='x'", []tk{{TIdent, "data"}, {TPunct, "->>"}, {TString, "Kind"}, {TPunct, "="}, {TString, "x"}}},
		{"equals minus", "v=-1", []tk{{TIdent, "v"}, {TPunct, "="}, {TPunct, "-"}, {TNumber, "1"}}},
	}
	for _, c := range cases {
		t.Run(c.name, func(t *testing.T) {
			toks, err := Tokenize(c.src)
			if err != nil {
				t.Fatalf("unexpected error: %v", err)
			}
			got := kinds(toks)
			if len(got) == 0 && len(c.want) == 0 {
				return
			}
			if !reflect.DeepEqual(got, c.want) {
				t.Fatalf("got  %v\nwant %v", got, c.want)
			}
		})
	}
}

func TestTokenizeErrors(t *testing.T) {
	cases := []struct {
		name, src   string
		unsupported bool
	}{
		{"unterminated string", "'abc", false},
		{"unterminated quoted ident", `"abc`, false},
		{"empty quoted ident", `""`, false},
		{"unterminated comment", "a /* b", false},
		{"unterminated dollar", "$$ abc", false},
		{"lonely dollar", "a $ b", false},
		{"junk after number", "12abc", false},
		{"junk after param", "$1a", false},
		{"backquote", "`a`", false},
		{"escape string", `E'a\n'`, true},
		{"unicode string", `U&'a'`, true},
	}
	for _, c := range cases {
		t.Run(c.name, func(t *testing.T) {
			_, err := Tokenize(c.src)
			if err == nil {
				t.Fatal("expected an error")
			}
			var u *UnsupportedError
			if errors.As(err, &u) != c.unsupported {
				t.Fatalf("unsupported=%v, got %T: %v", c.unsupported, err, err)
			}
		})
	}
}

func TestTokenPositionsAndFolding(t *testing.T) {
	src := `SELECT "Id", Été FROM T -- c`
	toks, err := Tokenize(src)
	if err != nil {
		t.Fatal(err)
	}
	for _, tok := range toks {
		if tok.Kind == TIdent && !tok.Quoted && src[tok.Pos:tok.End] != tok.Text {
			t.Errorf("bad span for %q: %q", tok.Text, src[tok.Pos:tok.End])
		}
	}
	if !toks[1].Quoted || toks[1].Lower != "Id" || src[toks[1].Pos:toks[1].End] != `"Id"` {
		t.Errorf("quoted ident: %+v", toks[1])
	}
	if toks[0].Lower != "select" || toks[0].Text != "SELECT" || !toks[0].Is("select") {
		t.Errorf("keyword folding: %+v", toks[0])
	}
	// PostgreSQL folds ASCII only in UTF-8 databases
	if toks[3].Lower != "Été" || FoldIdent("ÉtÉ") != "ÉtÉ" || FoldIdent("ABC_d") != "abc_d" {
		t.Errorf("non ASCII folding: %+v", toks[3])
	}
	if p, _ := Tokenize("$12"); p[0].ParamIndex() != 12 {
		t.Errorf("ParamIndex: %d", p[0].ParamIndex())
	}
	b, _ := Tokenize("x $a$ body $a$")
	if src2 := "x $a$ body $a$"; src2[b[1].BodyPos:b[1].BodyPos+len(b[1].Text)] != " body " {
		t.Errorf("BodyPos wrong: %+v", b[1])
	}
}

func TestKeywords(t *testing.T) {
	for _, w := range []string{"order", "Order", "USER", "table", "group", "end", "limit", "default", "check", "to", "from", "desc", "all"} {
		if !IsReservedKeyword(w) || !IsColumnNameForbidden(w) {
			t.Errorf("%q should be reserved", w)
		}
	}
	for _, w := range []string{"left", "Right", "is", "like", "join", "full", "binary", "verbose"} {
		if IsReservedKeyword(w) || !IsColumnNameForbidden(w) {
			t.Errorf("%q should be a type/function-name keyword", w)
		}
	}
	for _, w := range []string{"index", "id", "value", "key", "data", "name", "type", "date", "text", "public", "flow", "level", "year", "option", "role", "comment"} {
		if IsColumnNameForbidden(w) {
			t.Errorf("%q is usable as a column name", w)
		}
	}
	if strings.ToLower("X") != "x" {
		t.Fatal()
	}
}
