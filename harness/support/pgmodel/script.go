package pgmodel

import (
	"errors"
	"fmt"
	"strings"
	"sync"
)

// Script is a parsed DDL script.
type Script struct {
	Statements []*Statement
	Tables     []*Table
	Types      []*CompositeType
	Funcs      map[string]*Func // key: lower-cased name; a later CREATE OR REPLACE wins
	FuncNames  []string         // lower-cased, definition order, no duplicates
	Alters     []*Alter         // ALTER TABLE statements, plus the constraints written inside CREATE TABLE
	// Redefined lists functions (lower-cased) defined more than once: with
	// CREATE OR REPLACE the last definition silently replaces the others.
	Redefined []string
	// Diagnostics lists what PostgreSQL would reject when running the script
	// although this parser could build a model from it: reserved words used
	// as identifiers, unknown column types, references to tables / functions
	// not (yet) defined, duplicate names.
	Diagnostics []string
}

// Statement is one top-level statement.
type Statement struct {
	Kind   string // "create_table", "create_type", "create_function", "alter_table", "other"
	Raw    string
	Tokens []Token
}

// Table is a CREATE TABLE.
type Table struct {
	Name    string // as written (double quotes kept when it was quoted)
	Columns []*Column
	Raw     string
}

// Column is a column definition.
type Column struct {
	Name       string // as written (double quotes kept when it was quoted)
	Type       string // normalised
	TypeRaw    string
	PrimaryKey bool
	NotNull    bool
	Checks     []Expr
	Raw        string
}

// CompositeType is CREATE TYPE name AS (...).
type CompositeType struct {
	Name   string // as written
	Fields []CompositeField
}

// CompositeField is one attribute of a composite type.
type CompositeField struct {
	Name string // as written
	Type string // normalised
}

// Alter is an ALTER TABLE statement (or a table/column constraint found
// inside CREATE TABLE, converted to the equivalent ALTER).
type Alter struct {
	Table          string
	Raw            string
	Tokens         []Token
	Kind           string // "add_check", "add_unique", "add_primary_key", "add_foreign_key", "set_default", "other"
	ConstraintName string
	Check          Expr
	Columns        []string
	RefTable       string
	RefColumns     []string
	OnDelete       string // upper case: "CASCADE", "SET NULL", "SET DEFAULT", "RESTRICT", "NO ACTION" or ""
	OnUpdate       string
	Column         string
	Default        Expr
	// FromCreateTable is set for constraints that were written inside CREATE TABLE.
	FromCreateTable bool
}

// FuncParam is one parameter of a function.
type FuncParam struct {
	Name string // lower-cased, "" when unnamed
	Type string // normalised
}

// Func is a CREATE FUNCTION.
type Func struct {
	Name      string // as written
	ParamName string // first parameter
	ParamType string
	Params    []FuncParam
	Returns   string
	Language  string
	Strict    bool
	Body      *Block // nil when Unsupported != nil
	Raw       string
	Calls     []string
	// Unsupported is set when the function is syntactically plausible but
	// uses constructs outside the modelled subset; calling it yields this error.
	Unsupported error

	checked sync.Map // Expr -> error (static check result, see eval.go)
}

// ResolveIdent returns the lookup key of an identifier "as written":
// double-quoted names are taken verbatim, others are folded to lower case.
func ResolveIdent(written string) string {
	if len(written) >= 2 && written[0] == '"' && written[len(written)-1] == '"' {
		return strings.ReplaceAll(written[1:len(written)-1], `""`, `"`)
	}
	return FoldIdent(written)
}

func writtenIdent(t Token) string {
	if t.Quoted {
		return `"` + strings.ReplaceAll(t.Text, `"`, `""`) + `"`
	}
	return t.Text
}

// Table looks a table up the way PostgreSQL resolves an unquoted name.
func (s *Script) Table(name string) *Table {
	key := ResolveIdent(name)
	for _, t := range s.Tables {
		if ResolveIdent(t.Name) == key {
			return t
		}
	}
	return nil
}

// Column looks a column up (unquoted-name resolution).
func (t *Table) Column(name string) *Column {
	key := ResolveIdent(name)
	for _, c := range t.Columns {
		if ResolveIdent(c.Name) == key {
			return c
		}
	}
	return nil
}

// Type looks a composite type up.
func (s *Script) Type(name string) *CompositeType {
	key := ResolveIdent(name)
	for _, t := range s.Types {
		if ResolveIdent(t.Name) == key {
			return t
		}
	}
	return nil
}

// Func looks a function up.
func (s *Script) Func(name string) *Func { return s.Funcs[ResolveIdent(name)] }

// ParseScript parses a whole script.
func ParseScript(src string) (*Script, error) {
	toks, err := Tokenize(src)
	if err != nil {
		return nil, err
	}
	s := &Script{Funcs: map[string]*Func{}}
	depth := 0
	start := 0
	flush := func(end int) error {
		if end <= start {
			start = end + 1
			return nil
		}
		stToks := toks[start:end]
		raw := src[stToks[0].Pos:stToks[len(stToks)-1].End]
		st := &Statement{Raw: raw, Tokens: stToks}
		if err := s.classify(st, src); err != nil {
			return err
		}
		s.Statements = append(s.Statements, st)
		start = end + 1
		return nil
	}
	for i, t := range toks {
		if t.Kind != TPunct {
			continue
		}
		switch t.Text {
		case "(", "[":
			depth++
		case ")", "]":
			depth--
			if depth < 0 {
				return nil, parseErrorf(t.Pos, "syntax error at or near %q", t.Text)
			}
		case ";":
			if depth == 0 {
				if err := flush(i); err != nil {
					return nil, err
				}
			}
		}
	}
	if depth != 0 {
		return nil, parseErrorf(len(src), "syntax error at end of input (unbalanced parentheses)")
	}
	if err := flush(len(toks)); err != nil {
		return nil, err
	}
	return s, nil
}

func (s *Script) diag(format string, args ...any) {
	s.Diagnostics = append(s.Diagnostics, fmt.Sprintf(format, args...))
}

func (s *Script) classify(st *Statement, src string) error {
	p := &parser{toks: st.Tokens, src: src}
	st.Kind = "other"
	t0 := p.peek()
	switch {
	case t0.Is("create"):
		p.next()
		orReplace := false
		if p.peek().Is("or") && p.peekAt(1).Is("replace") {
			p.next()
			p.next()
			orReplace = true
		}
		switch {
		case p.peek().Is("table") && !orReplace:
			p.next()
			st.Kind = "create_table"
			return s.parseCreateTable(p, st)
		case p.peek().Is("type") && !orReplace:
			p.next()
			return s.parseCreateType(p, st)
		case p.peek().Is("function"):
			p.next()
			st.Kind = "create_function"
			return s.parseCreateFunction(p, st, orReplace)
		case p.peek().Is("temp") || p.peek().Is("temporary") || p.peek().Is("unlogged"):
			if p.peekAt(1).Is("table") {
				return unsupportedf("CREATE %s TABLE", strings.ToUpper(p.peek().Lower))
			}
		}
		return nil
	case t0.Is("alter"):
		if p.peekAt(1).Is("table") {
			p.next()
			p.next()
			st.Kind = "alter_table"
			return s.parseAlterTable(p, st)
		}
	}
	return nil
}

// matchParen returns the index (in p.toks) of the parenthesis closing the one
// at index open, or -1.
func (p *parser) matchParen(open int) int {
	depth := 0
	for i := open; i < len(p.toks); i++ {
		if p.toks[i].IsPunct("(") {
			depth++
		} else if p.toks[i].IsPunct(")") {
			depth--
			if depth == 0 {
				return i
			}
		}
	}
	return -1
}

// parseParenExpr parses "( expr )" at the current position. An expression
// outside the subset becomes an *UnsupportedExpr (the parser skips to the
// closing parenthesis).
func (p *parser) parseParenExpr() (Expr, error) {
	open := p.i
	if err := p.expectPunct("("); err != nil {
		return nil, err
	}
	closeIdx := p.matchParen(open)
	if closeIdx < 0 {
		return nil, parseErrorf(p.toks[open].Pos, "unbalanced parenthesis")
	}
	e, err := p.parseExpr()
	if err == nil && p.i != closeIdx {
		err = p.errNear(p.peek())
	}
	if err != nil {
		var u *UnsupportedError
		if errors.As(err, &u) {
			raw := strings.TrimSpace(p.src[p.toks[open].End:p.toks[closeIdx].Pos])
			p.i = closeIdx + 1
			return &UnsupportedExpr{Raw: raw, Reason: u.Msg}, nil
		}
		return nil, err
	}
	p.i = closeIdx + 1
	return e, nil
}

func (p *parser) parseName(what string) (Token, error) {
	t := p.next()
	if t.Kind != TIdent {
		return t, parseErrorf(t.Pos, "expected %s, found %s", what, describe(t))
	}
	if p.peek().IsPunct(".") { // schema qualification is dropped
		p.next()
		n := p.next()
		if n.Kind != TIdent {
			return n, parseErrorf(n.Pos, "expected %s, found %s", what, describe(n))
		}
		return n, nil
	}
	return t, nil
}

func (s *Script) checkIdent(t Token, what string) {
	if !t.Quoted && IsColumnNameForbidden(t.Lower) {
		s.diag("syntax error at or near %q: reserved word used as %s", t.Text, what)
	}
}

func (p *parser) parseIdentList(s *Script, what string) ([]string, error) {
	if err := p.expectPunct("("); err != nil {
		return nil, err
	}
	var out []string
	for {
		t := p.next()
		if t.Kind != TIdent {
			return nil, parseErrorf(t.Pos, "expected a column name, found %s", describe(t))
		}
		s.checkIdent(t, what)
		out = append(out, writtenIdent(t))
		if p.acceptPunct(",") {
			continue
		}
		break
	}
	if err := p.expectPunct(")"); err != nil {
		return nil, err
	}
	return out, nil
}

func (s *Script) parseCreateTable(p *parser, st *Statement) error {
	if p.peek().Is("if") {
		p.next()
		if err := p.expectKw("not"); err != nil {
			return err
		}
		if err := p.expectKw("exists"); err != nil {
			return err
		}
	}
	nameTok, err := p.parseName("a table name")
	if err != nil {
		return err
	}
	s.checkIdent(nameTok, "table name")
	tbl := &Table{Name: writtenIdent(nameTok), Raw: st.Raw}
	if s.Table(tbl.Name) != nil {
		s.diag("relation %q already exists", ResolveIdent(tbl.Name))
	}
	open := p.i
	if !p.peek().IsPunct("(") {
		if p.peek().Is("as") || p.peek().Is("of") || p.peek().Is("partition") {
			return unsupportedf("CREATE TABLE %s %s", tbl.Name, strings.ToUpper(p.peek().Lower))
		}
		return p.errNear(p.peek())
	}
	closeIdx := p.matchParen(open)
	if closeIdx < 0 {
		return parseErrorf(p.peek().Pos, "unbalanced parenthesis in CREATE TABLE")
	}
	p.next()
	var pending []*Alter
	if p.i == closeIdx {
		// CREATE TABLE t (): legal
	}
	for p.i < closeIdx {
		elemStart := p.i
		// find the end of this element
		depth, end := 0, closeIdx
		for j := p.i; j < closeIdx; j++ {
			if p.toks[j].IsPunct("(") || p.toks[j].IsPunct("[") {
				depth++
			} else if p.toks[j].IsPunct(")") || p.toks[j].IsPunct("]") {
				depth--
			} else if p.toks[j].IsPunct(",") && depth == 0 {
				end = j
				break
			}
		}
		if end == elemStart {
			return p.errNear(p.peek())
		}
		sub := &parser{toks: p.toks[elemStart:end], src: p.src}
		raw := p.src[p.toks[elemStart].Pos:p.toks[end-1].End]
		first := sub.peek()
		switch {
		case first.Is("constraint") || first.Is("primary") || first.Is("unique") || first.Is("check") || first.Is("foreign"):
			al := &Alter{Table: tbl.Name, Raw: raw, Tokens: sub.toks, FromCreateTable: true}
			if err := s.parseTableConstraint(sub, al); err != nil {
				return err
			}
			if !sub.eof() {
				return unsupportedf("constraint attributes in CREATE TABLE %s: %s", tbl.Name, raw)
			}
			pending = append(pending, al)
		case first.Is("like") || first.Is("exclude"):
			return unsupportedf("%s clause in CREATE TABLE %s", strings.ToUpper(first.Lower), tbl.Name)
		default:
			col, extra, err := s.parseColumnDef(sub, tbl, raw)
			if err != nil {
				return err
			}
			if tbl.Column(col.Name) != nil {
				s.diag("column %q specified more than once in table %s", ResolveIdent(col.Name), tbl.Name)
			}
			tbl.Columns = append(tbl.Columns, col)
			pending = append(pending, extra...)
		}
		p.i = end
		if p.i < closeIdx {
			p.i++ // the comma
			if p.i == closeIdx {
				return p.errNear(p.toks[closeIdx])
			}
		}
	}
	p.i = closeIdx + 1
	if !p.eof() {
		return unsupportedf("CREATE TABLE %s: clause after the column list: %s", tbl.Name, describe(p.peek()))
	}
	npk := 0
	for _, c := range tbl.Columns {
		if c.PrimaryKey {
			npk++
		}
	}
	for _, al := range pending {
		if al.Kind == "add_primary_key" {
			npk++
		}
	}
	if npk > 1 {
		s.diag("multiple primary keys for table %q are not allowed", ResolveIdent(tbl.Name))
	}
	s.Tables = append(s.Tables, tbl)
	for _, al := range pending {
		s.checkAlter(al)
		s.Alters = append(s.Alters, al)
	}
	return nil
}

// parseColumnDef parses "name type constraints..." ; constraints that are
// not representable in Column are returned as Alters.
func (s *Script) parseColumnDef(p *parser, tbl *Table, raw string) (*Column, []*Alter, error) {
	nameTok := p.next()
	if nameTok.Kind != TIdent {
		return nil, nil, parseErrorf(nameTok.Pos, "expected a column name, found %s", describe(nameTok))
	}
	s.checkIdent(nameTok, "column name")
	col := &Column{Name: writtenIdent(nameTok), Raw: raw}
	if p.eof() {
		return nil, nil, parseErrorf(nameTok.End, "column %s has no type", col.Name)
	}
	typeStart := p.i
	ty, err := p.parseTypeName()
	if err != nil {
		return nil, nil, err
	}
	col.Type = ty
	col.TypeRaw = p.src[p.toks[typeStart].Pos:p.toks[p.i-1].End]
	s.checkColumnType(tbl, col)
	base := DecodeType(ty).Base
	if base == "serial" || base == "bigserial" || base == "smallserial" {
		col.NotNull = true
	}
	var extra []*Alter
	cname := ""
	for !p.eof() {
		t := p.next()
		if t.Kind != TIdent || t.Quoted {
			return nil, nil, p.errNear(t)
		}
		switch t.Lower {
		case "constraint":
			n := p.next()
			if n.Kind != TIdent {
				return nil, nil, p.errNear(n)
			}
			cname = writtenIdent(n)
			continue
		case "not":
			if err := p.expectKw("null"); err != nil {
				return nil, nil, err
			}
			col.NotNull = true
		case "null":
		case "primary":
			if err := p.expectKw("key"); err != nil {
				return nil, nil, err
			}
			col.PrimaryKey = true
			col.NotNull = true
		case "unique":
			extra = append(extra, &Alter{Table: tbl.Name, Raw: raw, Tokens: p.toks, Kind: "add_unique",
				ConstraintName: cname, Columns: []string{col.Name}, FromCreateTable: true})
		case "check":
			e, err := p.parseParenExpr()
			if err != nil {
				return nil, nil, err
			}
			if p.peek().Is("no") && p.peekAt(1).Is("inherit") {
				p.next()
				p.next()
			}
			col.Checks = append(col.Checks, e)
		case "default":
			startTok := p.i
			e, err := p.parseOther()
			if err != nil {
				var u *UnsupportedError
				if !errors.As(err, &u) {
					return nil, nil, err
				}
				return nil, nil, unsupportedf("DEFAULT expression of column %s.%s: %s", tbl.Name, col.Name, u.Msg)
			}
			_ = startTok
			extra = append(extra, &Alter{Table: tbl.Name, Raw: raw, Tokens: p.toks, Kind: "set_default",
				Column: col.Name, Default: e, FromCreateTable: true})
		case "references":
			al := &Alter{Table: tbl.Name, Raw: raw, Tokens: p.toks, Kind: "add_foreign_key",
				ConstraintName: cname, Columns: []string{col.Name}, FromCreateTable: true}
			if err := s.parseReferences(p, al); err != nil {
				return nil, nil, err
			}
			extra = append(extra, al)
		case "collate", "generated", "deferrable", "initially", "storage", "compression":
			return nil, nil, unsupportedf("column attribute %s on %s.%s", strings.ToUpper(t.Lower), tbl.Name, col.Name)
		default:
			p.i--
			return nil, nil, p.errNear(t)
		}
		cname = ""
	}
	return col, extra, nil
}

var knownBaseTypes = setOf("integer", "smallint", "bigint", "serial", "bigserial", "smallserial",
	"boolean", "real", "double precision", "numeric", "text", "character varying", "character",
	"date", "timestamp", "timestamp with time zone", "time", "time with time zone", "interval",
	"bytea", "jsonb", "json", "uuid", "money", "inet", "cidr", "macaddr", "xml", "oid", "name",
	"point", "bit", "bit varying", "tsvector")

func (s *Script) checkColumnType(tbl *Table, col *Column) {
	ti := DecodeType(col.Type)
	if knownBaseTypes[ti.Base] {
		if ti.Array && strings.HasSuffix(ti.Base, "serial") {
			s.diag("array of serial is not implemented (column %s.%s)", tbl.Name, col.Name)
		}
		return
	}
	if s.Type(ti.Base) != nil {
		return
	}
	s.diag("type %q does not exist (column %s.%s)", ti.Base, tbl.Name, col.Name)
}

func (s *Script) parseReferences(p *parser, al *Alter) error {
	// current token is after REFERENCES
	ref, err := p.parseName("a table name")
	if err != nil {
		return err
	}
	s.checkIdent(ref, "table name")
	al.RefTable = writtenIdent(ref)
	if p.peek().IsPunct("(") {
		cols, err := p.parseIdentList(s, "column name")
		if err != nil {
			return err
		}
		al.RefColumns = cols
	}
	for {
		switch {
		case p.peek().Is("on") && (p.peekAt(1).Is("delete") || p.peekAt(1).Is("update")):
			p.next()
			which := p.next().Lower
			var action string
			a := p.next()
			switch {
			case a.Is("cascade"):
				action = "CASCADE"
			case a.Is("restrict"):
				action = "RESTRICT"
			case a.Is("set"):
				b := p.next()
				if b.Is("null") {
					action = "SET NULL"
				} else if b.Is("default") {
					action = "SET DEFAULT"
				} else {
					return p.errNear(b)
				}
				if p.peek().IsPunct("(") {
					return unsupportedf("ON DELETE SET ... (columns)")
				}
			case a.Is("no"):
				if err := p.expectKw("action"); err != nil {
					return err
				}
				action = "NO ACTION"
			default:
				return p.errNear(a)
			}
			if which == "delete" {
				al.OnDelete = action
			} else {
				al.OnUpdate = action
			}
		case p.peek().Is("match"):
			return unsupportedf("MATCH clause in foreign key")
		default:
			return nil
		}
	}
}

// parseTableConstraint parses [CONSTRAINT name] CHECK|UNIQUE|PRIMARY KEY|FOREIGN KEY ...
// and fills al. Unknown forms leave al.Kind == "other".
func (s *Script) parseTableConstraint(p *parser, al *Alter) error {
	al.Kind = "other"
	if p.acceptKw("constraint") {
		n := p.next()
		if n.Kind != TIdent {
			return p.errNear(n)
		}
		al.ConstraintName = writtenIdent(n)
	}
	t := p.peek()
	switch {
	case t.Is("check"):
		p.next()
		e, err := p.parseParenExpr()
		if err != nil {
			return err
		}
		al.Kind, al.Check = "add_check", e
		if p.peek().Is("no") && p.peekAt(1).Is("inherit") {
			p.next()
			p.next()
		}
	case t.Is("unique"):
		p.next()
		if !p.peek().IsPunct("(") {
			return nil
		}
		cols, err := p.parseIdentList(s, "column name")
		if err != nil {
			return err
		}
		al.Kind, al.Columns = "add_unique", cols
	case t.Is("primary"):
		p.next()
		if err := p.expectKw("key"); err != nil {
			return err
		}
		if !p.peek().IsPunct("(") {
			return nil
		}
		cols, err := p.parseIdentList(s, "column name")
		if err != nil {
			return err
		}
		al.Kind, al.Columns = "add_primary_key", cols
	case t.Is("foreign"):
		p.next()
		if err := p.expectKw("key"); err != nil {
			return err
		}
		cols, err := p.parseIdentList(s, "column name")
		if err != nil {
			return err
		}
		if err := p.expectKw("references"); err != nil {
			return err
		}
		al.Kind, al.Columns = "add_foreign_key", cols
		if err := s.parseReferences(p, al); err != nil {
			return err
		}
	}
	return nil
}

func (s *Script) parseAlterTable(p *parser, st *Statement) error {
	al := &Alter{Raw: st.Raw, Tokens: st.Tokens, Kind: "other"}
	if p.peek().Is("if") && p.peekAt(1).Is("exists") {
		p.next()
		p.next()
	}
	p.acceptKw("only")
	nameTok, err := p.parseName("a table name")
	if err != nil {
		return err
	}
	s.checkIdent(nameTok, "table name")
	al.Table = writtenIdent(nameTok)
	defer func() {
		s.Alters = append(s.Alters, al)
	}()
	reset := func() {
		*al = Alter{Table: al.Table, Raw: al.Raw, Tokens: al.Tokens, Kind: "other"}
	}
	switch {
	case p.peek().Is("add"):
		p.next()
		if p.peek().Is("constraint") || p.peek().Is("check") || p.peek().Is("unique") || p.peek().Is("primary") || p.peek().Is("foreign") {
			if err := s.parseTableConstraint(p, al); err != nil {
				var u *UnsupportedError
				if errors.As(err, &u) {
					reset()
					return nil
				}
				return err
			}
		} else {
			return nil // ADD COLUMN ...
		}
	case p.peek().Is("alter"):
		p.next()
		p.acceptKw("column")
		c := p.next()
		if c.Kind != TIdent {
			return p.errNear(c)
		}
		s.checkIdent(c, "column name")
		if p.peek().Is("set") && p.peekAt(1).Is("default") {
			p.next()
			p.next()
			startTok := p.i
			e, err := p.parseExpr()
			if err != nil {
				var u *UnsupportedError
				if !errors.As(err, &u) {
					return err
				}
				raw := ""
				if startTok < len(p.toks) {
					raw = p.src[p.toks[startTok].Pos:p.toks[len(p.toks)-1].End]
				}
				e = &UnsupportedExpr{Raw: raw, Reason: u.Msg}
				p.i = len(p.toks)
			}
			al.Kind, al.Column, al.Default = "set_default", writtenIdent(c), e
		} else {
			return nil
		}
	default:
		return nil
	}
	if !p.eof() {
		// several actions, NOT VALID, DEFERRABLE...: do not guess
		reset()
		return nil
	}
	s.checkAlter(al)
	return nil
}

// checkAlter records what PostgreSQL would reject when running al at this
// point of the script.
func (s *Script) checkAlter(al *Alter) {
	tbl := s.Table(al.Table)
	if tbl == nil {
		s.diag("relation %q does not exist (%s)", ResolveIdent(al.Table), firstLine(al.Raw))
		return
	}
	needCols := func(t *Table, cols []string) {
		for _, c := range cols {
			if t.Column(c) == nil {
				s.diag("column %q of relation %q does not exist (%s)", ResolveIdent(c), ResolveIdent(t.Name), firstLine(al.Raw))
			}
		}
	}
	switch al.Kind {
	case "add_unique", "add_primary_key":
		needCols(tbl, al.Columns)
		if al.Kind == "add_primary_key" && !al.FromCreateTable {
			for _, c := range tbl.Columns {
				if c.PrimaryKey {
					s.diag("multiple primary keys for table %q are not allowed", ResolveIdent(tbl.Name))
				}
			}
			for _, o := range s.Alters {
				if o.Kind == "add_primary_key" && ResolveIdent(o.Table) == ResolveIdent(al.Table) {
					s.diag("multiple primary keys for table %q are not allowed", ResolveIdent(tbl.Name))
				}
			}
		}
	case "set_default":
		needCols(tbl, []string{al.Column})
		s.checkCalls(al.Default, al)
	case "add_check":
		s.checkCalls(al.Check, al)
		WalkExpr(al.Check, func(e Expr) {
			if c, ok := e.(*ColumnRef); ok && tbl.lookupRef(c) == nil {
				s.diag("column %q does not exist (%s)", c.Name, firstLine(al.Raw))
			}
		})
	case "add_foreign_key":
		needCols(tbl, al.Columns)
		ref := s.Table(al.RefTable)
		if ref == nil {
			s.diag("relation %q does not exist (%s)", ResolveIdent(al.RefTable), firstLine(al.Raw))
			return
		}
		if len(al.RefColumns) > 0 {
			needCols(ref, al.RefColumns)
			if len(al.RefColumns) != len(al.Columns) {
				s.diag("number of referencing and referenced columns for foreign key disagree (%s)", firstLine(al.Raw))
			}
		}
	}
}

func (t *Table) lookupRef(c *ColumnRef) *Column {
	for _, col := range t.Columns {
		if ResolveIdent(col.Name) == c.Lower {
			return col
		}
	}
	return nil
}

func (s *Script) checkCalls(e Expr, al *Alter) {
	for _, fn := range CalledFuncs(e) {
		if s.Funcs[fn] == nil {
			s.diag("function %s does not exist at this point of the script (%s)", fn, firstLine(al.Raw))
		}
	}
}

func firstLine(s string) string {
	s = strings.Join(strings.Fields(s), " ")
	if len(s) > 120 {
		s = s[:120] + "..."
	}
	return s
}

func (s *Script) parseCreateType(p *parser, st *Statement) error {
	nameTok, err := p.parseName("a type name")
	if err != nil {
		return err
	}
	if !p.peek().Is("as") || !p.peekAt(1).IsPunct("(") {
		return nil // enum, range, shell types: "other"
	}
	p.next()
	p.next()
	st.Kind = "create_type"
	ct := &CompositeType{Name: writtenIdent(nameTok)}
	if !nameTok.Quoted && reservedKeywords[nameTok.Lower] {
		s.diag("syntax error at or near %q: reserved word used as type name", nameTok.Text)
	}
	if s.Type(ct.Name) != nil || s.Table(ct.Name) != nil {
		s.diag("type %q already exists", ResolveIdent(ct.Name))
	}
	if p.acceptPunct(")") {
		if !p.eof() {
			return p.errNear(p.peek())
		}
		s.Types = append(s.Types, ct)
		return nil
	}
	for {
		f := p.next()
		if f.Kind != TIdent {
			return parseErrorf(f.Pos, "expected an attribute name, found %s", describe(f))
		}
		s.checkIdent(f, "attribute name")
		ty, err := p.parseTypeName()
		if err != nil {
			return err
		}
		if p.peek().Is("collate") {
			return unsupportedf("COLLATE in CREATE TYPE")
		}
		for _, o := range ct.Fields {
			if ResolveIdent(o.Name) == ResolveIdent(writtenIdent(f)) {
				s.diag("column %q specified more than once in type %s", ResolveIdent(o.Name), ct.Name)
			}
		}
		ct.Fields = append(ct.Fields, CompositeField{Name: writtenIdent(f), Type: ty})
		if ti := DecodeType(ty); !knownBaseTypes[ti.Base] && s.Type(ti.Base) == nil {
			s.diag("type %q does not exist (attribute %s.%s)", ti.Base, ct.Name, writtenIdent(f))
		}
		if p.acceptPunct(",") {
			continue
		}
		break
	}
	if err := p.expectPunct(")"); err != nil {
		return err
	}
	if !p.eof() {
		return p.errNear(p.peek())
	}
	s.Types = append(s.Types, ct)
	return nil
}

func (s *Script) parseCreateFunction(p *parser, st *Statement, orReplace bool) error {
	nameTok, err := p.parseName("a function name")
	if err != nil {
		return err
	}
	if !nameTok.Quoted && reservedKeywords[nameTok.Lower] {
		return p.errNear(nameTok)
	}
	f := &Func{Name: writtenIdent(nameTok), Raw: st.Raw}
	if err := p.expectPunct("("); err != nil {
		return err
	}
	if !p.acceptPunct(")") {
		for {
			if t := p.peek(); t.Is("out") || t.Is("inout") || t.Is("variadic") {
				f.Unsupported = unsupportedf("function %s: %s parameter", f.Name, strings.ToUpper(t.Lower))
				p.next()
			} else if t.Is("in") {
				p.next()
			}
			var prm FuncParam
			a, b := p.peek(), p.peekAt(1)
			if a.Kind != TIdent {
				return p.errNear(a)
			}
			named := b.Kind == TIdent && !(a.Is("double") && b.Is("precision")) &&
				!((a.Is("character") || a.Is("bit")) && b.Is("varying")) &&
				!((a.Is("timestamp") || a.Is("time")) && (b.Is("with") || b.Is("without"))) &&
				!b.Is("default")
			if named {
				p.next()
				prm.Name = identKey(a)
			}
			ty, err := p.parseTypeName()
			if err != nil {
				return err
			}
			prm.Type = ty
			if p.peek().Is("default") || p.peek().IsPunct("=") || p.peek().IsPunct(":=") {
				return unsupportedf("function %s: parameter default", f.Name)
			}
			f.Params = append(f.Params, prm)
			if p.acceptPunct(",") {
				continue
			}
			break
		}
		if err := p.expectPunct(")"); err != nil {
			return err
		}
	}
	if len(f.Params) > 0 {
		f.ParamName, f.ParamType = f.Params[0].Name, f.Params[0].Type
	}
	var body *Token
	for !p.eof() {
		t := p.next()
		if t.Kind != TIdent || t.Quoted {
			return p.errNear(t)
		}
		switch t.Lower {
		case "returns":
			if p.peek().Is("null") { // RETURNS NULL ON NULL INPUT
				p.next()
				for _, kw := range []string{"on", "null", "input"} {
					if err := p.expectKw(kw); err != nil {
						return err
					}
				}
				f.Strict = true
				continue
			}
			if p.peek().Is("table") || p.peek().Is("setof") {
				f.Unsupported = unsupportedf("function %s: RETURNS %s", f.Name, strings.ToUpper(p.peek().Lower))
				for !p.eof() && !p.peek().Is("as") && !p.peek().Is("language") {
					p.next()
				}
				continue
			}
			ty, err := p.parseTypeName()
			if err != nil {
				return err
			}
			f.Returns = ty
		case "as":
			b := p.next()
			if b.Kind != TDollarBody && b.Kind != TString {
				return parseErrorf(b.Pos, "expected a function body, found %s", describe(b))
			}
			if p.peek().IsPunct(",") {
				return unsupportedf("function %s: AS 'obj_file', 'link_symbol'", f.Name)
			}
			body = &b
		case "language":
			l := p.next()
			if l.Kind != TIdent && l.Kind != TString {
				return p.errNear(l)
			}
			f.Language = strings.ToLower(l.Text)
		case "immutable", "stable", "volatile", "leakproof":
		case "not":
			if err := p.expectKw("leakproof"); err != nil {
				return err
			}
		case "strict":
			f.Strict = true
		case "called":
			for _, kw := range []string{"on", "null", "input"} {
				if err := p.expectKw(kw); err != nil {
					return err
				}
			}
		case "external", "security":
			if t.Lower == "external" {
				if err := p.expectKw("security"); err != nil {
					return err
				}
			}
			if !p.acceptKw("invoker") && !p.acceptKw("definer") {
				return p.errNear(p.peek())
			}
		case "parallel":
			if !p.acceptKw("safe") && !p.acceptKw("unsafe") && !p.acceptKw("restricted") {
				return p.errNear(p.peek())
			}
		case "cost", "rows":
			if n := p.next(); n.Kind != TNumber {
				return p.errNear(n)
			}
		case "set", "window", "transform", "support":
			return unsupportedf("function %s: %s clause", f.Name, strings.ToUpper(t.Lower))
		default:
			p.i--
			return p.errNear(t)
		}
	}
	if f.Returns == "" && f.Unsupported == nil {
		return parseErrorf(nameTok.Pos, "function %s: function result type must be specified", f.Name)
	}
	if body == nil {
		return parseErrorf(nameTok.Pos, "function %s: no function body specified", f.Name)
	}
	if f.Language == "" {
		return parseErrorf(nameTok.Pos, "function %s: no language specified", f.Name)
	}
	key := ResolveIdent(f.Name)
	if f.Unsupported == nil && f.Language != "plpgsql" {
		f.Unsupported = unsupportedf("function %s: language %q", f.Name, f.Language)
	}
	if f.Unsupported == nil {
		var known []string
		seen := map[string]bool{}
		for _, prm := range f.Params {
			if prm.Name == "" {
				continue
			}
			if seen[prm.Name] {
				return parseErrorf(nameTok.Pos, "function %s: parameter name %q used more than once", f.Name, prm.Name)
			}
			seen[prm.Name] = true
			known = append(known, prm.Name)
		}
		blk, err := ParseFunctionBody(body.Text, known...)
		if err != nil {
			var u *UnsupportedError
			var pe *ParseError
			switch {
			case errors.As(err, &u):
				f.Unsupported = unsupportedf("function %s: %s", f.Name, u.Msg)
			case errors.As(err, &pe):
				off := body.BodyPos
				if body.Kind == TString {
					off = body.Pos + 1
				}
				return &ParseError{Msg: fmt.Sprintf("function %s: %s", f.Name, pe.Msg), Pos: pe.Pos + off}
			default:
				return err
			}
		} else {
			f.Body = blk
			seenCall := map[string]bool{}
			blockExprs(blk, func(e Expr) {
				for _, c := range CalledFuncs(e) {
					if !seenCall[c] {
						seenCall[c] = true
						f.Calls = append(f.Calls, c)
					}
				}
			})
		}
	}
	if old, dup := s.Funcs[key]; dup {
		if !orReplace {
			s.diag("function %q already exists with same argument types", key)
		} else if old.Returns != f.Returns {
			s.diag("cannot change return type of existing function %q", key)
		}
		found := false
		for _, r := range s.Redefined {
			if r == key {
				found = true
			}
		}
		if !found {
			s.Redefined = append(s.Redefined, key)
		}
	} else {
		s.FuncNames = append(s.FuncNames, key)
	}
	s.Funcs[key] = f
	return nil
}
