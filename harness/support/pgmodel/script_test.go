package pgmodel

import (
	"errors"
	"os"
	"reflect"
	"strings"
	"testing"
)

func loadSample(t testing.TB) *Script {
	t.Helper()
	b, err := os.ReadFile("testdata/create.sql")
	if err != nil {
		t.Fatal(err)
	}
	s, err := ParseScript(string(b))
	if err != nil {
		t.Fatalf("ParseScript: %v", err)
	}
	return s
}

func TestParseSampleScript(t *testing.T) {
	s := loadSample(t)
	var names []string
	for _, tb := range s.Tables {
		names = append(names, tb.Name)
	}
	wantTables := []string{"exercices", "exercice_questions", "links", "progressions", "progression_questions",
		"questions", "question_tags", "repass", "table1s", "with_optional_times"}
	if !reflect.DeepEqual(names, wantTables) {
		t.Fatalf("tables: %v", names)
	}
	if len(s.Types) != 1 || s.Types[0].Name != "Composite" ||
		!reflect.DeepEqual(s.Types[0].Fields, []CompositeField{{"A", "integer"}, {"B", "smallint"}, {"C", "integer"}}) {
		t.Fatalf("types: %+v", s.Types)
	}
	if s.Table("TABLE1S") == nil || s.Table("Table1s") != s.Table("table1s") || s.Table(`"Table1s"`) != nil || s.Table("nope") != nil {
		t.Fatal("Table lookup must fold unquoted names and respect quoted ones")
	}
	type colWant struct {
		name, typ   string
		pk, notNull bool
		checks      []string
	}
	tb := s.Table("table1s")
	want := []colWant{
		{"Id", "serial", true, true, nil},
		{"Ex1", "integer", false, true, nil},
		{"Ex2", "integer", false, true, nil},
		{"L", "integer", false, false, nil},
		{"Other", "integer", false, false, nil},
		{"F", "integer[]", false, true, []string{"(array_length(F, 1) = 5)"}},
		{"Strings", "text[]", false, false, nil},
		{"Cp", "composite", false, true, nil},
		{"External", "comp", false, true, nil},
		{"BoolArray", "boolean[]", false, true, []string{"(array_length(BoolArray, 1) = 3)"}},
		{"guard", "smallint", false, true, []string{"(guard IN (0, 1, 2))"}},
	}
	if len(tb.Columns) != len(want) {
		t.Fatalf("columns: %d", len(tb.Columns))
	}
	for i, w := range want {
		c := tb.Columns[i]
		var checks []string
		for _, e := range c.Checks {
			checks = append(checks, e.String())
		}
		if c.Name != w.name || c.Type != w.typ || c.PrimaryKey != w.pk || c.NotNull != w.notNull || !reflect.DeepEqual(checks, w.checks) {
			t.Errorf("column %d: got %+v checks=%v, want %+v", i, c, checks, w)
		}
	}
	if c := s.Table("with_optional_times").Column("deadine"); c == nil || c.Type != "timestamp (0) with time zone" || c.TypeRaw != "timestamp(0) with time zone" || !c.NotNull {
		t.Errorf("timestamp column: %+v", c)
	}
	if c := s.Table("with_optional_times").Column("DeadineOpt"); c == nil || c.NotNull {
		t.Errorf("nullable timestamp column: %+v", c)
	}
	if c := s.Table("repass").Columns[0]; c.Name != "Order" || c.Type != "text" {
		t.Errorf("first column of repass: %+v", c)
	}

	// alters
	type alterWant struct {
		kind, table, cname, check string
		cols                      []string
		ref                       string
		refCols                   []string
		onDelete, col, def        string
	}
	var got []alterWant
	for _, a := range s.Alters {
		w := alterWant{kind: a.Kind, table: a.Table, cname: a.ConstraintName, cols: a.Columns, ref: a.RefTable,
			refCols: a.RefColumns, onDelete: a.OnDelete, col: a.Column}
		if a.Check != nil {
			w.check = a.Check.String()
		}
		if a.Default != nil {
			w.def = a.Default.String()
		}
		got = append(got, w)
	}
	wantAlters := []alterWant{
		{kind: "add_foreign_key", table: "table1s", cols: []string{"Ex1"}, ref: "repass"},
		{kind: "add_foreign_key", table: "table1s", cols: []string{"Ex2"}, ref: "repass"},
		{kind: "add_foreign_key", table: "table1s", cols: []string{"L"}, ref: "links"},
		{kind: "add_foreign_key", table: "table1s", cols: []string{"Other"}, ref: "repass"},
		{kind: "set_default", table: "table1s", col: "guard", def: "0"},
		{kind: "add_check", table: "table1s", check: "(guard = 0)"},
		{kind: "add_check", table: "repass", check: "((V = 0) OR (V = 1))"},
		{kind: "add_foreign_key", table: "links", cols: []string{"Repas"}, ref: "repass"},
		{kind: "add_foreign_key", table: "questions", cols: []string{"NeedExercice"}, ref: "exercices"},
		{kind: "add_unique", table: "question_tags", cols: []string{"IdQuestion", "Tag"}},
		{kind: "add_foreign_key", table: "question_tags", cols: []string{"IdQuestion"}, ref: "questions", onDelete: "CASCADE"},
		{kind: "add_primary_key", table: "exercice_questions", cols: []string{"IdExercice", "INDEX"}},
		{kind: "add_foreign_key", table: "exercice_questions", cols: []string{"IdExercice"}, ref: "exercices", onDelete: "CASCADE"},
		{kind: "add_foreign_key", table: "exercice_questions", cols: []string{"IdQuestion"}, ref: "questions"},
		{kind: "add_unique", table: "progressions", cols: []string{"Id", "IdExercice"}},
		{kind: "add_unique", table: "progression_questions", cols: []string{"IdProgression", "INDEX"}},
		{kind: "add_foreign_key", table: "progression_questions", cols: []string{"IdExercice", "INDEX"}, ref: "exercice_questionss", onDelete: "CASCADE"},
		{kind: "add_foreign_key", table: "progression_questions", cols: []string{"IdProgression", "IdExercice"}, ref: "progressionss", refCols: []string{"Id", "IdExercice"}, onDelete: "CASCADE"},
		{kind: "add_foreign_key", table: "progression_questions", cols: []string{"IdProgression"}, ref: "progressions", onDelete: "CASCADE"},
		{kind: "add_foreign_key", table: "progression_questions", cols: []string{"IdExercice"}, ref: "exercices", onDelete: "CASCADE"},
		{kind: "add_check", table: "exercices", cname: "Parameters_gomacro", check: "gomacro_validate_json_map_boolean(Parameters)"},
		{kind: "add_check", table: "questions", cname: "Page_gomacro", check: "gomacro_validate_json_test_ComplexStruct(Page)"},
	}
	if len(got) != len(wantAlters) {
		t.Fatalf("alters: got %d want %d", len(got), len(wantAlters))
	}
	for i := range got {
		if !reflect.DeepEqual(got[i], wantAlters[i]) {
			t.Errorf("alter %d:\n got  %+v\n want %+v", i, got[i], wantAlters[i])
		}
	}

	// statements
	kinds := map[string]int{}
	for _, st := range s.Statements {
		kinds[st.Kind]++
		if strings.HasSuffix(strings.TrimSpace(st.Raw), ";") || st.Raw == "" || len(st.Tokens) == 0 {
			t.Errorf("bad Raw: %q", st.Raw)
		}
	}
	if kinds["create_table"] != 10 || kinds["create_type"] != 1 || kinds["create_function"] != 16 || kinds["alter_table"] != 22 || kinds["other"] != 1 {
		t.Errorf("statement kinds: %v", kinds)
	}

	// functions
	if len(s.FuncNames) != 16 || len(s.Funcs) != 16 || len(s.Redefined) != 0 {
		t.Fatalf("funcs: %d %d %v", len(s.FuncNames), len(s.Funcs), s.Redefined)
	}
	if s.FuncNames[0] != "gomacro_validate_json_array_5_array_5_boolean" || s.FuncNames[15] != "gomacro_validate_json_test_itftype" {
		t.Errorf("FuncNames order: %v", s.FuncNames)
	}
	f := s.Func("gomacro_validate_json_test_ItfType")
	if f == nil || f.Name != "gomacro_validate_json_test_ItfType" || f.ParamName != "data" || f.ParamType != "jsonb" || f.Returns != "boolean" ||
		f.Language != "plpgsql" || f.Body == nil || f.Unsupported != nil {
		t.Fatalf("func: %+v", f)
	}
	if !reflect.DeepEqual(f.Calls, []string{"gomacro_validate_json_test_concrettype1", "gomacro_validate_json_test_concrettype2"}) {
		t.Errorf("calls: %v", f.Calls)
	}
	if cs := s.Func("gomacro_validate_json_boolean").Calls; len(cs) != 0 {
		t.Errorf("calls of leaf validator: %v", cs)
	}
	if cs := s.Func("gomacro_validate_json_test_complexstruct").Calls; len(cs) != 10 || cs[0] != "gomacro_validate_json_map_number" {
		t.Errorf("calls of ComplexStruct: %v", cs)
	}
	// every called function is defined
	for name, f := range s.Funcs {
		for _, c := range f.Calls {
			if s.Funcs[c] == nil {
				t.Errorf("%s calls undefined %s", name, c)
			}
		}
	}

	// what PostgreSQL would reject in this very fixture
	wantDiag := []string{
		`reserved word used as column name`,
		`type "comp" does not exist`,
		`relation "exercice_questionss" does not exist`,
		`relation "progressionss" does not exist`,
	}
	for _, w := range wantDiag {
		found := false
		for _, d := range s.Diagnostics {
			if strings.Contains(d, w) {
				found = true
			}
		}
		if !found {
			t.Errorf("missing diagnostic %q in %q", w, s.Diagnostics)
		}
	}
	if len(s.Diagnostics) != len(wantDiag) {
		t.Errorf("diagnostics: %q", s.Diagnostics)
	}
}

func TestParseScriptForms(t *testing.T) {
	src := `
	-- header ; with semicolon
	CREATE TABLE "Foo" ( "Id" serial PRIMARY KEY, a int NOT NULL DEFAULT 3 CHECK (a > 0) CHECK (a < 10), b text UNIQUE NULL,
		c integer REFERENCES "Foo" ("Id") ON DELETE SET NULL ON UPDATE NO ACTION,
		CONSTRAINT u1 UNIQUE (a, b), CHECK (a <> 5), FOREIGN KEY (c) REFERENCES "Foo");
	/* a comment ; */
	create table if not exists public.bar (x integer primary key);
	ALTER TABLE ONLY bar ADD CONSTRAINT ck CHECK (x BETWEEN 1 AND 2);
	ALTER TABLE bar ALTER x SET DEFAULT -1;
	ALTER TABLE bar ALTER COLUMN x SET NOT NULL;
	ALTER TABLE bar ADD CHECK (x > 0) NOT VALID;
	ALTER TABLE bar ADD COLUMN y int;
	ALTER TABLE bar ADD CONSTRAINT fk FOREIGN KEY (x) REFERENCES "Foo" ON DELETE RESTRICT;
	CREATE TYPE mood AS ENUM ('a;b', 'c');
	CREATE UNIQUE INDEX i ON bar (x);
	DROP TABLE nothing;
	CREATE FUNCTION f(jsonb, v integer) RETURNS boolean LANGUAGE plpgsql STRICT AS 'BEGIN RETURN TRUE; END';
	CREATE OR REPLACE FUNCTION F(data jsonb) RETURNS boolean AS $x$ BEGIN RETURN g(data); END $x$ LANGUAGE plpgsql;
	CREATE FUNCTION loop(data jsonb) RETURNS boolean AS $$ BEGIN FOR i IN 1..2 LOOP NULL; END LOOP; RETURN TRUE; END; $$ LANGUAGE plpgsql;
	CREATE FUNCTION s(data jsonb) RETURNS boolean AS $$ SELECT true $$ LANGUAGE sql
	`
	s, err := ParseScript(src)
	if err != nil {
		t.Fatal(err)
	}
	foo := s.Table(`"Foo"`)
	if foo == nil || s.Table("foo") != nil || foo.Name != `"Foo"` {
		t.Fatalf("quoted table: %+v", s.Tables)
	}
	if len(foo.Columns) != 4 || foo.Columns[0].Name != `"Id"` || foo.Column("id") != nil || foo.Column(`"Id"`) == nil {
		t.Fatalf("columns: %+v", foo.Columns)
	}
	a := foo.Column("A")
	if !a.NotNull || len(a.Checks) != 2 || a.Checks[0].String() != "(a > 0)" || a.Checks[1].String() != "(a < 10)" {
		t.Errorf("column a: %+v", a)
	}
	var kinds []string
	for _, al := range s.Alters {
		kinds = append(kinds, al.Table+":"+al.Kind)
	}
	want := []string{`"Foo":set_default`, `"Foo":add_unique`, `"Foo":add_foreign_key`, `"Foo":add_unique`, `"Foo":add_check`, `"Foo":add_foreign_key`,
		"bar:add_check", "bar:set_default", "bar:other", "bar:other", "bar:other", "bar:add_foreign_key"}
	if !reflect.DeepEqual(kinds, want) {
		t.Fatalf("alters:\n got  %v\n want %v", kinds, want)
	}
	if fk := s.Alters[2]; fk.RefTable != `"Foo"` || !reflect.DeepEqual(fk.RefColumns, []string{`"Id"`}) || fk.OnDelete != "SET NULL" || fk.OnUpdate != "NO ACTION" || !fk.FromCreateTable {
		t.Errorf("column FK: %+v", fk)
	}
	if u := s.Alters[3]; u.ConstraintName != "u1" || !reflect.DeepEqual(u.Columns, []string{"a", "b"}) {
		t.Errorf("table unique: %+v", u)
	}
	if ck, ok := s.Alters[6].Check.(*UnsupportedExpr); !ok || ck.Raw != "x BETWEEN 1 AND 2" || s.Alters[6].ConstraintName != "ck" {
		t.Errorf("unsupported check must be kept as UnsupportedExpr: %#v", s.Alters[6].Check)
	}
	if d := s.Alters[7]; d.Column != "x" || d.Default.String() != "(-1)" {
		t.Errorf("set default: %+v", d)
	}
	if fk := s.Alters[11]; fk.OnDelete != "RESTRICT" || fk.ConstraintName != "fk" {
		t.Errorf("alter FK: %+v", fk)
	}
	if bar := s.Table("BAR"); bar == nil || !bar.Columns[0].PrimaryKey || !bar.Columns[0].NotNull {
		t.Errorf("bar: %+v", bar)
	}
	others := 0
	for _, st := range s.Statements {
		if st.Kind == "other" {
			others++
		}
	}
	if others != 3 {
		t.Errorf("others: %d", others)
	}
	if !reflect.DeepEqual(s.FuncNames, []string{"f", "loop", "s"}) || !reflect.DeepEqual(s.Redefined, []string{"f"}) {
		t.Errorf("func names: %v redefined %v", s.FuncNames, s.Redefined)
	}
	f := s.Funcs["f"]
	if f.Name != "F" || f.ParamName != "data" || len(f.Params) != 1 || f.Strict || !reflect.DeepEqual(f.Calls, []string{"g"}) {
		t.Errorf("f: %+v", f)
	}
	var u *UnsupportedError
	if l := s.Funcs["loop"]; l.Body != nil || !errors.As(l.Unsupported, &u) {
		t.Errorf("loop: %+v", l)
	}
	if l := s.Funcs["s"]; l.Body != nil || !errors.As(l.Unsupported, &u) || l.Language != "sql" {
		t.Errorf("sql function: %+v", l)
	}
	if _, err := s.Call("loop", Null()); !errors.As(err, &u) {
		t.Errorf("calling an unsupported function: %v", err)
	}
}

func TestFirstDefinitionKeptInFuncNamesAndStrict(t *testing.T) {
	s, err := ParseScript(`CREATE FUNCTION f(jsonb, v integer) RETURNS boolean LANGUAGE plpgsql RETURNS NULL ON NULL INPUT IMMUTABLE AS 'BEGIN RETURN $2 = 1; END'`)
	if err != nil {
		t.Fatal(err)
	}
	f := s.Funcs["f"]
	if !f.Strict || len(f.Params) != 2 || f.Params[0].Name != "" || f.Params[1].Name != "v" || f.ParamType != "jsonb" {
		t.Fatalf("%+v", f)
	}
	v, err := s.Call("f", JSONB(nil), NumInt(1))
	if err != nil || !v.B {
		t.Fatalf("call: %v %v", v, err)
	}
	v, err = s.Call("f", NullOf(KJSONB), NumInt(1))
	if err != nil || !v.IsNull() {
		t.Fatalf("strict call: %v %v", v, err)
	}
}

func TestParseScriptErrors(t *testing.T) {
	cases := []struct {
		name, src   string
		unsupported bool
	}{
		{"table without parens", "CREATE TABLE t", false},
		{"unbalanced", "CREATE TABLE t (a int", false},
		{"stray close", "CREATE TABLE t (a int));", false},
		{"column without type", "CREATE TABLE t (a)", false},
		{"trailing comma", "CREATE TABLE t (a int,)", false},
		{"double comma", "CREATE TABLE t (a int,, b int)", false},
		{"garbage constraint", "CREATE TABLE t (a int FOO)", false},
		{"bad check", "CREATE TABLE t (a int CHECK (a = ))", false},
		{"check without parens", "CREATE TABLE t (a int CHECK a > 0)", false},
		{"not without null", "CREATE TABLE t (a int NOT)", false},
		{"number as name", "CREATE TABLE 1 (a int)", false},
		{"function without body", "CREATE FUNCTION f(data jsonb) RETURNS boolean LANGUAGE plpgsql", false},
		{"function without language", "CREATE FUNCTION f(data jsonb) RETURNS boolean AS $$ BEGIN RETURN TRUE; END $$", false},
		{"function without returns", "CREATE FUNCTION f(data jsonb) AS $$ BEGIN RETURN TRUE; END $$ LANGUAGE plpgsql", false},
		{"function missing END IF", "CREATE FUNCTION f(data jsonb) RETURNS boolean AS $$ BEGIN IF TRUE THEN RETURN TRUE; RETURN FALSE; END; $$ LANGUAGE plpgsql", false},
		{"function missing semicolon", "CREATE FUNCTION f(data jsonb) RETURNS boolean AS $$ BEGIN RETURN TRUE END; $$ LANGUAGE plpgsql", false},
		{"function bad expression", "CREATE FUNCTION f(data jsonb) RETURNS boolean AS $$ BEGIN RETURN data = ; END; $$ LANGUAGE plpgsql", false},
		{"function unknown variable", "CREATE FUNCTION f(data jsonb) RETURNS boolean AS $$ BEGIN x := 1; RETURN TRUE; END; $$ LANGUAGE plpgsql", false},
		{"function unknown statement", "CREATE FUNCTION f(data jsonb) RETURNS boolean AS $$ BEGIN FROBNICATE; END; $$ LANGUAGE plpgsql", false},
		{"function garbage option", "CREATE FUNCTION f(data jsonb) RETURNS boolean AS $$ BEGIN RETURN TRUE; END $$ LANGUAGE plpgsql FOO", false},
		{"function duplicate declaration", "CREATE FUNCTION f(data jsonb) RETURNS boolean AS $$ DECLARE a int; a int; BEGIN RETURN TRUE; END $$ LANGUAGE plpgsql", false},
		{"alter bad check", "ALTER TABLE t ADD CHECK (a = )", false},
		{"alter fk without references", "ALTER TABLE t ADD FOREIGN KEY (a)", false},
		{"alter bad on delete", "ALTER TABLE t ADD FOREIGN KEY (a) REFERENCES b ON DELETE EXPLODE", false},
		{"create type bad field", "CREATE TYPE t AS (a)", false},
		{"unterminated body", "CREATE FUNCTION f() RETURNS boolean AS $$ BEGIN", false},
		{"table like", "CREATE TABLE t (LIKE u)", true},
		{"generated column", "CREATE TABLE t (a int GENERATED ALWAYS AS IDENTITY)", true},
		{"temp table", "CREATE TEMP TABLE t (a int)", true},
		{"partition", "CREATE TABLE t (a int) PARTITION BY RANGE (a)", true},
	}
	for _, c := range cases {
		t.Run(c.name, func(t *testing.T) {
			_, err := ParseScript(c.src)
			if err == nil {
				t.Fatal("expected an error")
			}
			var u *UnsupportedError
			if errors.As(err, &u) != c.unsupported {
				t.Fatalf("unsupported=%v got %T %v", c.unsupported, err, err)
			}
		})
	}
}

func TestFunctionBodyErrorPosition(t *testing.T) {
	src := "CREATE FUNCTION f(data jsonb) RETURNS boolean AS $$\nBEGIN\n RETURN data = ;\nEND; $$ LANGUAGE plpgsql"
	_, err := ParseScript(src)
	var pe *ParseError
	if !errors.As(err, &pe) {
		t.Fatalf("%v", err)
	}
	if src[pe.Pos] != ';' {
		t.Fatalf("position %d points at %q", pe.Pos, src[pe.Pos:])
	}
}

func TestDiagnostics(t *testing.T) {
	cases := []struct{ name, src, want string }{
		{"reserved column", "CREATE TABLE t (User text)", `"User"`},
		{"reserved table", "CREATE TABLE Order (a int)", `"Order"`},
		{"type func keyword column", "CREATE TABLE t (Left int)", `"Left"`},
		{"unknown type", "CREATE TABLE t (a whatever)", `type "whatever" does not exist`},
		{"type defined later", "CREATE TABLE t (a comp); CREATE TYPE comp AS (x int)", `type "comp" does not exist`},
		{"duplicate table", "CREATE TABLE t (a int); CREATE TABLE T (a int)", `already exists`},
		{"duplicate column", "CREATE TABLE t (a int, A text)", `specified more than once`},
		{"fk before table", "CREATE TABLE a (x int); ALTER TABLE a ADD FOREIGN KEY (x) REFERENCES b; CREATE TABLE b (id serial PRIMARY KEY)", `relation "b" does not exist`},
		{"alter unknown table", "ALTER TABLE a ADD UNIQUE (x)", `relation "a" does not exist`},
		{"unique unknown column", "CREATE TABLE a (x int); ALTER TABLE a ADD UNIQUE (y)", `column "y"`},
		{"fk unknown column", "CREATE TABLE a (x int); ALTER TABLE a ADD FOREIGN KEY (y) REFERENCES a", `column "y"`},
		{"fk unknown ref column", "CREATE TABLE a (x int); ALTER TABLE a ADD FOREIGN KEY (x) REFERENCES a (z)", `column "z"`},
		{"fk arity", "CREATE TABLE a (x int, y int); ALTER TABLE a ADD FOREIGN KEY (x) REFERENCES a (x, y)", `disagree`},
		{"check with unknown column", "CREATE TABLE a (x int); ALTER TABLE a ADD CHECK (y = 1)", `column "y" does not exist`},
		{"check function defined later", "CREATE TABLE a (x jsonb); ALTER TABLE a ADD CHECK (f(x)); CREATE FUNCTION f(d jsonb) RETURNS boolean AS $$ BEGIN RETURN TRUE; END $$ LANGUAGE plpgsql", `function f does not exist`},
		{"function twice without replace", "CREATE FUNCTION f() RETURNS boolean AS $$ BEGIN RETURN TRUE; END $$ LANGUAGE plpgsql; CREATE FUNCTION F() RETURNS boolean AS $$ BEGIN RETURN TRUE; END $$ LANGUAGE plpgsql", `already exists`},
		{"two primary keys", "CREATE TABLE a (x serial PRIMARY KEY, y int); ALTER TABLE a ADD PRIMARY KEY (y)", `multiple primary keys`},
		{"set default unknown column", "CREATE TABLE a (x int); ALTER TABLE a ALTER COLUMN y SET DEFAULT 1", `column "y"`},
	}
	for _, c := range cases {
		t.Run(c.name, func(t *testing.T) {
			s, err := ParseScript(c.src)
			if err != nil {
				t.Fatal(err)
			}
			found := false
			for _, d := range s.Diagnostics {
				if strings.Contains(d, c.want) {
					found = true
				}
			}
			if !found {
				t.Fatalf("diagnostics %q do not mention %q", s.Diagnostics, c.want)
			}
		})
	}
	clean := `CREATE TYPE comp AS (x int); CREATE TABLE b (id serial PRIMARY KEY, Index int, c comp, d jsonb);
		CREATE FUNCTION f(d jsonb) RETURNS boolean AS $$ BEGIN RETURN TRUE; END $$ LANGUAGE plpgsql;
		ALTER TABLE b ADD CHECK (f(d)); ALTER TABLE b ADD UNIQUE (index); ALTER TABLE b ADD FOREIGN KEY (index) REFERENCES b ON DELETE CASCADE`
	s, err := ParseScript(clean)
	if err != nil || len(s.Diagnostics) != 0 {
		t.Fatalf("clean script: %v %q", err, s.Diagnostics)
	}
}

func TestResolveIdent(t *testing.T) {
	for in, want := range map[string]string{"Foo": "foo", `"Foo"`: "Foo", `"a""b"`: `a"b`, "ÉA": "Éa", "": ""} {
		if got := ResolveIdent(in); got != want {
			t.Errorf("ResolveIdent(%q) = %q want %q", in, got, want)
		}
	}
}
