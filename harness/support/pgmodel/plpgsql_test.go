package pgmodel

import (
	"fmt"
	"strings"
	"testing"
)

func fn(name, body string) string {
	return fmt.Sprintf("CREATE OR REPLACE FUNCTION %s (data jsonb) RETURNS boolean AS $$ %s $$ LANGUAGE 'plpgsql' IMMUTABLE;\n", name, body)
}

type callCase struct {
	fn   string
	doc  string // JSON text, or "SQLNULL"
	want string // "true", "false", "NULL", "!eval[:sub]", "!unsupported[:sub]"
}

func runCallCases(t *testing.T, s *Script, cases []callCase) {
	t.Helper()
	for _, c := range cases {
		t.Run(c.fn+"/"+c.doc, func(t *testing.T) {
			arg := NullOf(KJSONB)
			if c.doc != "SQLNULL" {
				arg = mustJSON(t, c.doc)
			}
			v, err := s.Call(c.fn, arg)
			if strings.HasPrefix(c.want, "!") {
				kind, sub, _ := strings.Cut(c.want[1:], ":")
				if classify(err) != kind {
					t.Fatalf("want %s error, got %v / %v", kind, v, err)
				}
				if sub != "" && !strings.Contains(err.Error(), sub) {
					t.Fatalf("error %q lacks %q", err, sub)
				}
				return
			}
			if err != nil {
				t.Fatalf("unexpected error: %v", err)
			}
			if v.String() != c.want {
				t.Fatalf("got %s want %s", v, c.want)
			}
			if v.K != KBool && !(v.K == KNull && v.NullKind == KBool) {
				t.Fatalf("result is not boolean typed: %#v", v)
			}
		})
	}
}

func TestPLpgSQLSemantics(t *testing.T) {
	src := fn("if_null", `BEGIN IF jsonb_typeof(data) = 'null' THEN RETURN TRUE; END IF; RETURN FALSE; END;`) +
		fn("if_not_null", `BEGIN IF NOT (jsonb_typeof(data) = 'null') THEN RETURN TRUE; END IF; RETURN FALSE; END;`) +
		fn("elsif", `BEGIN IF jsonb_typeof(data) = 'number' THEN RETURN TRUE; ELSIF jsonb_typeof(data) = 'string' THEN RETURN FALSE; ELSEIF jsonb_typeof(data) = 'array' THEN RETURN NULL; ELSE RETURN data::boolean; END IF; END;`) +
		fn("no_return", `BEGIN IF jsonb_typeof(data) = 'number' THEN RETURN TRUE; END IF; END;`) +
		fn("case_nf", `BEGIN CASE WHEN data->>'Kind' = 'A' THEN RETURN TRUE; WHEN data->>'Kind' = 'B' THEN RETURN FALSE; END CASE; END;`) +
		fn("case_else", `BEGIN CASE WHEN data->>'Kind' = 'A' THEN RETURN TRUE; ELSE RETURN FALSE; END CASE; END;`) +
		fn("case_fall", `DECLARE r boolean; BEGIN CASE WHEN data->>'Kind' = 'A' THEN r := TRUE; ELSE r := FALSE; END CASE; RETURN r; END;`) +
		fn("raise_warn", `BEGIN RAISE WARNING '% is bad (%)', data, nosuch(data); RETURN TRUE; END;`) +
		fn("raise_exc", `BEGIN IF jsonb_typeof(data) = 'string' THEN RAISE EXCEPTION 'no strings'; END IF; RETURN TRUE; END;`) +
		fn("raise_default", `BEGIN RAISE 'oops'; RETURN TRUE; END;`) +
		fn("decl", `DECLARE is_valid boolean := jsonb_typeof(data) = 'boolean'; n integer := 3; t text; BEGIN IF t IS NULL AND n = 3 THEN RETURN is_valid; END IF; RETURN FALSE; END;`) +
		fn("decl_order", `DECLARE a boolean := TRUE; b boolean := NOT a; BEGIN RETURN b; END;`) +
		fn("decl_literal", `DECLARE a boolean := 'yes'; BEGIN RETURN a; END;`) +
		fn("decl_bad_literal", `DECLARE a boolean := 'perhaps'; BEGIN RETURN a; END;`) +
		fn("decl_notnull", `DECLARE a boolean NOT NULL := jsonb_typeof(data) = 'x'; BEGIN RETURN a; END;`) +
		fn("decl_int_round", `DECLARE n integer := 2.5; BEGIN RETURN n = 3; END;`) +
		fn("assign_param", `BEGIN data := data -> 'a'; RETURN jsonb_typeof(data) = 'number'; END;`) +
		fn("assign_eq", `DECLARE r boolean; BEGIN r = TRUE; RETURN r; END;`) +
		fn("null_stmt", `BEGIN NULL; RETURN TRUE; END;`) +
		fn("pos_param", `BEGIN RETURN jsonb_typeof($1) = 'number'; END;`) +
		fn("upper_names", `DECLARE Is_Valid BOOLEAN := TRUE; BEGIN RETURN IS_VALID AND JSONB_TYPEOF(DATA) = 'number'; END;`) +
		fn("quoted_miss", `BEGIN RETURN jsonb_typeof("Data") = 'number'; END;`) +
		fn("plan_error_unreached", `BEGIN IF jsonb_typeof(data) = 'number' THEN RETURN TRUE; END IF; RETURN jsonb_typeof(data) = 1; END;`) +
		fn("plan_error_same_expr", `BEGIN RETURN jsonb_typeof(data) = 'number' AND data#>>'{}' IN (1, 2); END;`) +
		fn("missing_fn_same_expr", `BEGIN RETURN jsonb_typeof(data) = 'object' AND nosuch(data -> 'a'); END;`) +
		fn("runtime_error_guarded", `BEGIN RETURN jsonb_typeof(data) = 'number' AND data::int IN (1, 2); END;`) +
		fn("ret_text", `BEGIN RETURN jsonb_typeof(data); END;`) +
		fn("ret_literal", `BEGIN RETURN 'true'; END;`) +
		fn("cond_text", `BEGIN IF jsonb_typeof(data) THEN RETURN TRUE; END IF; RETURN FALSE; END;`) +
		fn("rec", `BEGIN IF jsonb_typeof(data) != 'array' THEN RETURN TRUE; END IF; RETURN rec(data -> 0); END;`) +
		fn("forever", `BEGIN RETURN forever(data); END;`) +
		fn("calls_text", `BEGIN RETURN if_null(jsonb_typeof(data)); END;`) +
		fn("calls_literal", `BEGIN RETURN if_null('null') AND NOT if_null('1'); END;`) +
		fn("calls_bad_literal", `BEGIN RETURN if_null('nope'); END;`) +
		fn("calls_arity", `BEGIN RETURN if_null(data, data); END;`) +
		fn("value_clash", `DECLARE value jsonb := data; BEGIN RETURN (SELECT bool_and(jsonb_typeof(value) = 'number') FROM jsonb_array_elements(data)); END;`) +
		fn("value_noclash", `DECLARE value jsonb := data; BEGIN RETURN (SELECT bool_and(TRUE) FROM jsonb_array_elements(value)); END;`) +
		"CREATE FUNCTION key_param (key jsonb) RETURNS boolean AS $$ BEGIN RETURN (SELECT bool_and(key = 'a') FROM jsonb_each(key)); END $$ LANGUAGE plpgsql;\n" +
		"CREATE FUNCTION int_param (n integer) RETURNS boolean AS $$ BEGIN RETURN n > 1; END $$ LANGUAGE plpgsql;\n" +
		fn("calls_int", `BEGIN RETURN int_param(jsonb_array_length(data)) AND int_param('5'); END;`) +
		fn("calls_int_bad", `BEGIN RETURN int_param(data); END;`) +
		"CREATE FUNCTION const_assign (data jsonb) RETURNS boolean AS $$ DECLARE c CONSTANT boolean := TRUE; BEGIN c := FALSE; RETURN c; END $$ LANGUAGE plpgsql;\n"
	s, err := ParseScript(src)
	if err != nil {
		t.Fatal(err)
	}
	runCallCases(t, s, []callCase{
		{"if_null", "null", "true"}, {"if_null", "1", "false"}, {"if_null", "SQLNULL", "false"}, // IF NULL is not taken
		{"if_not_null", "SQLNULL", "false"}, {"if_not_null", "1", "true"}, {"if_not_null", "null", "false"},
		{"elsif", "1", "true"}, {"elsif", `"s"`, "false"}, {"elsif", "[]", "NULL"}, {"elsif", "true", "true"}, {"elsif", "{}", "!eval:cannot cast jsonb object to type boolean"}, {"elsif", "SQLNULL", "NULL"},
		{"no_return", "1", "true"}, {"no_return", `"x"`, "!eval:control reached end of function without RETURN"},
		{"case_nf", `{"Kind":"A"}`, "true"}, {"case_nf", `{"Kind":"B"}`, "false"}, {"case_nf", `{"Kind":"C"}`, "!eval:case not found"}, {"case_nf", `{}`, "!eval:case not found"}, {"case_nf", `1`, "!eval:case not found"},
		{"case_else", `{"Kind":"A"}`, "true"}, {"case_else", `{"Kind":"Z"}`, "false"}, {"case_else", `{"Kind":1}`, "false"}, {"case_else", "SQLNULL", "false"},
		{"case_fall", `{"Kind":"A"}`, "true"}, {"case_fall", `[]`, "false"},
		{"raise_warn", "1", "true"}, // RAISE arguments are not evaluated
		{"raise_exc", "1", "true"}, {"raise_exc", `"s"`, "!eval:exception"}, {"raise_default", "1", "!eval:exception"},
		{"decl", "true", "true"}, {"decl", "1", "false"}, {"decl", "SQLNULL", "NULL"},
		{"decl_order", "1", "false"}, {"decl_literal", "1", "true"}, {"decl_bad_literal", "1", "!eval:boolean"},
		{"decl_notnull", "SQLNULL", "!eval:NOT NULL"}, {"decl_notnull", "1", "false"}, {"decl_int_round", "1", "true"},
		{"assign_param", `{"a": 1}`, "true"}, {"assign_param", `{"a": "x"}`, "false"}, {"assign_param", `{}`, "NULL"}, {"assign_eq", "1", "true"}, {"null_stmt", "1", "true"},
		{"pos_param", "1", "true"}, {"upper_names", "1", "true"}, {"quoted_miss", "1", `!eval:column "Data" does not exist`},
		{"plan_error_unreached", "1", "true"}, {"plan_error_unreached", `"s"`, "!eval:text = integer"},
		{"plan_error_same_expr", `null`, "!eval:text = integer"}, {"plan_error_same_expr", `1`, "!eval:text = integer"},
		{"missing_fn_same_expr", `1`, "!eval:function nosuch(jsonb) does not exist"},
		{"runtime_error_guarded", `"x"`, "false"}, {"runtime_error_guarded", `2`, "true"}, {"runtime_error_guarded", `2.4`, "true"}, {"runtime_error_guarded", `3`, "false"}, {"runtime_error_guarded", `1e100`, "!eval:integer out of range"},
		{"ret_text", "1", "!unsupported"}, {"ret_literal", "1", "true"}, {"cond_text", "1", "!unsupported"},
		{"rec", "[[[[1]]]]", "true"}, {"rec", "[]", "!unsupported:nested"}, {"forever", "1", "!unsupported:nested function calls"},
		{"calls_text", "1", "!eval:function if_null(text) does not exist"}, {"calls_literal", "1", "true"}, {"calls_bad_literal", "1", "!eval:json"}, {"calls_arity", "1", "!eval:does not exist"},
		{"value_clash", "[1]", "!eval:ambiguous"}, {"value_noclash", "[1]", "true"}, {"key_param", `{"a": 1}`, "!eval:ambiguous"},
		{"calls_int", "[1, 2]", "true"}, {"calls_int", "[1]", "false"}, {"calls_int_bad", "1", "!eval:function int_param(jsonb) does not exist"},
		{"const_assign", "1", "!eval:CONSTANT"},
		{"nosuchfunction", "1", "!eval:function nosuchfunction(jsonb) does not exist"},
	})
	// wrong argument types at the API boundary
	if _, err := s.Call("if_null", Text("x")); classify(err) != "eval" {
		t.Errorf("text argument: %v", err)
	}
	if _, err := s.Call("if_null"); classify(err) != "eval" {
		t.Errorf("no argument: %v", err)
	}
	if v, err := s.Call("if_null", Null()); err != nil || v.String() != "false" {
		t.Errorf("untyped NULL argument: %v %v", v, err)
	}
	if v, err := s.Call("IF_NULL", UnknownLiteral("null")); err != nil || v.String() != "true" {
		t.Errorf("literal argument / name folding: %v %v", v, err)
	}
	if v, err := s.Call("int_param", NumInt(2)); err != nil || v.String() != "true" {
		t.Errorf("int_param: %v %v", v, err)
	}
	if v, err := s.Call("jsonb_typeof", mustJSON(t, "[]")); err != nil || v.String() != "'array'" {
		t.Errorf("builtin through Call: %v %v", v, err)
	}
}

// The six templates of generator/sql/json.go, as emitted for the fixture.
func TestGeneratedValidators(t *testing.T) {
	s := loadSample(t)
	const (
		boolean = "gomacro_validate_json_boolean"
		number  = "gomacro_validate_json_number"
		str     = "gomacro_validate_json_string"
		enumInt = "gomacro_validate_json_test_EnumInt"
		arrNum  = "gomacro_validate_json_array_number"
		arr5    = "gomacro_validate_json_array_5_boolean"
		arr55   = "gomacro_validate_json_array_5_array_5_boolean"
		mapBool = "gomacro_validate_json_map_boolean"
		swc     = "gomacro_validate_json_subp_StructWithComment"
		ct1     = "gomacro_validate_json_test_ConcretType1"
		itf     = "gomacro_validate_json_test_ItfType"
		arrItf  = "gomacro_validate_json_array_test_ItfType"
	)
	row5 := "[true,false,true,false,true]"
	grid := "[" + strings.Repeat(row5+",", 4) + row5 + "]"
	runCallCases(t, s, []callCase{
		// vBasic
		{boolean, "true", "true"}, {boolean, "1", "false"}, {boolean, "null", "false"}, {boolean, "SQLNULL", "NULL"},
		{number, "1.5", "true"}, {number, `"1"`, "false"}, {str, `"x"`, "true"}, {str, "[]", "false"},
		// vEnum (integer): IN (0, 1, 2, 4)
		{enumInt, "0", "true"}, {enumInt, "4", "true"}, {enumInt, "3", "false"}, {enumInt, "4.4", "true"}, {enumInt, `"4"`, "false"}, {enumInt, "null", "false"},
		{enumInt, "1e10", "!eval:integer out of range"}, {enumInt, "SQLNULL", "NULL"},
		// vArray, slice
		{arrNum, "null", "true"}, {arrNum, "[]", "true"}, {arrNum, "[1, 2.5]", "true"}, {arrNum, `[1, "a"]`, "false"}, {arrNum, `{}`, "false"}, {arrNum, `"x"`, "false"}, {arrNum, "[null]", "false"},
		{arrNum, "SQLNULL", "NULL"},
		// vArray, fixed length
		{arr5, row5, "true"}, {arr5, "[true]", "false"}, {arr5, "[1,2,3,4,5]", "false"}, {arr5, "null", "false"}, {arr5, "[]", "false"}, // NULL AND (0 = 5)
		{arr55, grid, "true"}, {arr55, "[" + row5 + "]", "false"},
		// vMap
		{mapBool, "null", "true"}, {mapBool, "{}", "NULL"}, {mapBool, `{"a": true}`, "true"}, {mapBool, `{"a": true, "b": 1}`, "false"}, {mapBool, "[]", "false"}, {mapBool, `"s"`, "false"},
		// vStruct
		{swc, `{"A": 1}`, "true"}, {swc, `{"A": "x"}`, "false"}, {swc, `{"A": 1, "B": 2}`, "false"}, {swc, `{}`, "NULL"}, {swc, `[]`, "false"}, {swc, `null`, "false"},
		{ct1, `{"List2": [1], "V": 2}`, "true"}, {ct1, `{"List2": null, "V": 2}`, "true"}, {ct1, `{"V": 2}`, "NULL"}, {ct1, `{"List2": [1], "V": "x"}`, "false"},
		// vUnion
		{itf, `{"Kind": "ConcretType1", "Data": {"List2": [], "V": 1}}`, "true"},
		{itf, `{"Kind": "ConcretType2", "Data": {"D": 1.5}}`, "true"},
		{itf, `{"Kind": "ConcretType2", "Data": {"D": "x"}}`, "false"},
		{itf, `{"Kind": "Other", "Data": {}}`, "false"},
		{itf, `{"Kind": 1, "Data": {}}`, "false"},
		{itf, `{"Kind": "ConcretType2", "Data": null}`, "false"},
		{itf, `{"Kind": "ConcretType2"}`, "NULL"}, // Data missing: -> gives SQL NULL, validator of NULL gives NULL
		{itf, `[]`, "false"}, {itf, `null`, "false"},
		{arrItf, `[{"Kind": "ConcretType2", "Data": {"D": 1}}, {"Kind": "ConcretType1", "Data": {"List2": [2], "V": 1}}]`, "true"},
		{arrItf, `[{"Kind": "ConcretType2", "Data": {"D": 1}}, 3]`, "false"},
	})
}

func TestCheckConstraintOnSampleColumns(t *testing.T) {
	s := loadSample(t)
	var pageCheck, paramCheck Expr
	for _, a := range s.Alters {
		switch a.ConstraintName {
		case "Page_gomacro":
			pageCheck = a.Check
		case "Parameters_gomacro":
			paramCheck = a.Check
		}
	}
	page := `{"with_tag": {"a": 1}, "Time": "2020-01-01T00:00:00Z", "B": "b", "Value": {"Kind": "ConcretType2", "Data": {"D": 1}},
		"L": null, "A": 3, "E": 2, "E2": 3, "Date": "2020-01-01", "F": ` + "[" + strings.Repeat("[true,false,true,false,true],", 4) + "[true,false,true,false,true]]" + `,
		"Imported": {"A": 5}, "EnumMap": {"1": true}}`
	pass, v, err := s.CheckPasses(pageCheck, Env{"page": mustJSON(t, page)})
	if err != nil || !pass || v.String() != "true" {
		t.Fatalf("valid page: %v %v %v", pass, v, err)
	}
	bad := strings.Replace(page, `"A": 3`, `"A": "3"`, 1)
	pass, v, err = s.CheckPasses(pageCheck, Env{"page": mustJSON(t, bad)})
	if err != nil || pass || v.String() != "false" {
		t.Fatalf("invalid page: %v %v %v", pass, v, err)
	}
	extra := strings.Replace(page, `"A": 3`, `"A": 3, "Zzz": 1`, 1)
	if pass, _, _ = s.CheckPasses(pageCheck, Env{"page": mustJSON(t, extra)}); pass {
		t.Fatal("extra key must be rejected")
	}
	// a missing key makes the validator return NULL and a CHECK passes on NULL
	missing := strings.Replace(page, `"A": 3,`, ``, 1)
	pass, v, err = s.CheckPasses(pageCheck, Env{"page": mustJSON(t, missing)})
	if err != nil || !pass || !v.IsNull() {
		t.Fatalf("missing key: %v %v %v", pass, v, err)
	}
	if pass, _, err = s.CheckPasses(paramCheck, Env{"parameters": mustJSON(t, `{"x": 1}`)}); pass || err != nil {
		t.Fatalf("bad map: %v %v", pass, err)
	}
	// the column is bound with a wrong type: planning fails
	if _, _, err = s.CheckPasses(paramCheck, Env{"parameters": Text(`{}`)}); classify(err) != "eval" {
		t.Fatalf("text bound to jsonb check: %v", err)
	}
	if _, _, err = s.CheckPasses(paramCheck, Env{}); classify(err) != "eval" {
		t.Fatalf("unbound column: %v", err)
	}
}

func TestParseFunctionBodyUnsupported(t *testing.T) {
	for _, body := range []string{
		"BEGIN FOR i IN 1..3 LOOP NULL; END LOOP; RETURN TRUE; END",
		"BEGIN WHILE TRUE LOOP NULL; END LOOP; END",
		"BEGIN PERFORM f(); RETURN TRUE; END",
		"BEGIN RETURN; END",
		"BEGIN CASE data WHEN 1 THEN RETURN TRUE; END CASE; END",
		"BEGIN BEGIN RETURN TRUE; END; END",
		"BEGIN RETURN TRUE; EXCEPTION WHEN others THEN RETURN FALSE; END",
		"DECLARE r record; BEGIN RETURN TRUE; END",
		"DECLARE x t%TYPE; BEGIN RETURN TRUE; END",
		"<<l>> BEGIN RETURN TRUE; END",
		"BEGIN RETURN data BETWEEN 1 AND 2; END",
		"BEGIN SELECT 1 INTO x; RETURN TRUE; END",
	} {
		_, err := ParseFunctionBody(body, "data")
		if classify(err) != "unsupported" {
			t.Errorf("%q: want unsupported, got %v", body, err)
		}
	}
	for _, body := range []string{
		"RETURN TRUE;",
		"BEGIN RETURN TRUE; END; garbage",
		"BEGIN IF TRUE RETURN TRUE; END IF; END",
		"BEGIN IF TRUE THEN RETURN TRUE; END; END",
		"BEGIN CASE WHEN TRUE THEN RETURN TRUE; END; END",
		"DECLARE x; BEGIN RETURN TRUE; END",
		"DECLARE x boolean NOT NULL; BEGIN RETURN TRUE; END",
		"BEGIN RAISE WARNING 'x' END",
		"BEGIN y := 1; RETURN TRUE; END",
		"BEGIN RETURN TRUE;",
	} {
		_, err := ParseFunctionBody(body, "data")
		if classify(err) != "parse" {
			t.Errorf("%q: want parse error, got %v", body, err)
		}
	}
	b, err := ParseFunctionBody("DECLARE a int; DECLARE b text := 'x'; BEGIN RETURN TRUE; END")
	if err != nil || len(b.Decls) != 2 || b.Decls[1].Init == nil {
		t.Errorf("repeated DECLARE: %v %+v", err, b)
	}
}
