package pgmodel

import (
	"strconv"
	"strings"
)

// Expr is a parsed SQL expression. String renders it back as (fully
// parenthesised) SQL.
type Expr interface{ String() string }

// LitKind is the kind of a Literal.
type LitKind int

const (
	LitNumber LitKind = iota
	LitString         // untyped ("unknown") string literal
	LitBool           // Text is "true" or "false"
	LitNull
)

type (
	// Literal is a constant.
	Literal struct {
		Kind LitKind
		Text string // number text, unescaped string content, "true"/"false", "NULL"
	}
	// ColumnRef is a bare identifier: a column, a PL/pgSQL variable or a parameter name.
	ColumnRef struct {
		Name   string // as written
		Lower  string // lookup key: ASCII lower case, or Name unchanged when Quoted
		Quoted bool
	}
	// ParamRef is $n.
	ParamRef struct{ N int }
	// UnaryExpr is NOT x, -x or +x.
	UnaryExpr struct {
		Op string // "NOT", "-", "+"
		X  Expr
	}
	// BinaryExpr covers AND OR = <> < <= > >= -> ->> #> #>> || + - * / %.
	// "!=" is normalised to "<>" as the PostgreSQL lexer does.
	BinaryExpr struct {
		Op   string
		L, R Expr
	}
	// CastExpr is x::type or CAST(x AS type); Type is normalised (NormalizeType).
	CastExpr struct {
		X    Expr
		Type string
	}
	// IsNullExpr is x IS [NOT] NULL.
	IsNullExpr struct {
		X   Expr
		Not bool
	}
	// InExpr is x [NOT] IN (list).
	InExpr struct {
		X    Expr
		List []Expr
		Not  bool
	}
	// AnyExpr is x op ANY (array).
	AnyExpr struct {
		X     Expr
		Op    string
		Array Expr
	}
	// CallExpr is a function call.
	CallExpr struct {
		Name  string // as written
		Lower string
		Args  []Expr
	}
	// SubqueryExpr is (SELECT bool_and(Arg) FROM Source(SourceArg)).
	SubqueryExpr struct {
		Agg       string // "bool_and"
		Arg       Expr
		Source    string // "jsonb_each" or "jsonb_array_elements"
		SourceArg Expr
	}
	// UnsupportedExpr stands for an expression of the script that is valid
	// looking but outside the modelled subset; evaluating it yields an
	// *UnsupportedError.
	UnsupportedExpr struct {
		Raw    string
		Reason string
	}
)

func quoteSQLString(s string) string { return "'" + strings.ReplaceAll(s, "'", "''") + "'" }

func (e *Literal) String() string {
	switch e.Kind {
	case LitString:
		return quoteSQLString(e.Text)
	case LitBool:
		return strings.ToUpper(e.Text)
	case LitNull:
		return "NULL"
	}
	return e.Text
}

func (e *ColumnRef) String() string {
	if e.Quoted {
		return `"` + strings.ReplaceAll(e.Name, `"`, `""`) + `"`
	}
	return e.Name
}
func (e *ParamRef) String() string { return "$" + strconv.Itoa(e.N) }
func (e *UnaryExpr) String() string {
	if e.Op == "NOT" {
		return "(NOT " + e.X.String() + ")"
	}
	return "(" + e.Op + e.X.String() + ")"
}
func (e *BinaryExpr) String() string {
	return "(" + e.L.String() + " " + e.Op + " " + e.R.String() + ")"
}
func (e *CastExpr) String() string { return "(" + e.X.String() + ")::" + e.Type }
func (e *IsNullExpr) String() string {
	if e.Not {
		return "(" + e.X.String() + " IS NOT NULL)"
	}
	return "(" + e.X.String() + " IS NULL)"
}
func exprList(l []Expr) string {
	parts := make([]string, len(l))
	for i, x := range l {
		parts[i] = x.String()
	}
	return strings.Join(parts, ", ")
}
func (e *InExpr) String() string {
	op := " IN ("
	if e.Not {
		op = " NOT IN ("
	}
	return "(" + e.X.String() + op + exprList(e.List) + "))"
}
func (e *AnyExpr) String() string {
	return "(" + e.X.String() + " " + e.Op + " ANY (" + e.Array.String() + "))"
}
func (e *CallExpr) String() string { return e.Name + "(" + exprList(e.Args) + ")" }
func (e *SubqueryExpr) String() string {
	return "(SELECT " + e.Agg + "(" + e.Arg.String() + ") FROM " + e.Source + "(" + e.SourceArg.String() + "))"
}
func (e *UnsupportedExpr) String() string { return e.Raw }

// ---------------------------------------------------------------------------
// builtin classification

var modelledBuiltins = setOf("jsonb_typeof", "jsonb_array_length", "array_length",
	"coalesce", "length", "char_length", "lower", "upper")

var pseudoBuiltins = setOf("bool_and", "jsonb_each", "jsonb_array_elements")

// functions that exist in PostgreSQL but are not modelled: calling one is
// "unsupported", not "function does not exist".
var unmodelledBuiltins = setOf(
	"json_typeof", "json_array_length", "jsonb_object_keys", "jsonb_build_object",
	"jsonb_build_array", "to_jsonb", "to_json", "jsonb_each_text", "json_each",
	"json_each_text", "jsonb_array_elements_text", "json_array_elements",
	"jsonb_extract_path", "jsonb_extract_path_text", "jsonb_strip_nulls",
	"jsonb_pretty", "jsonb_set", "jsonb_insert", "jsonb_exists", "jsonb_path_exists",
	"jsonb_path_query", "jsonb_agg", "jsonb_object_agg", "jsonb_populate_record",
	"now", "clock_timestamp", "abs", "round", "floor", "ceil", "ceiling", "trunc",
	"mod", "power", "sqrt", "trim", "btrim", "ltrim", "rtrim", "substring", "substr",
	"position", "strpos", "concat", "concat_ws", "nullif", "greatest", "least",
	"cardinality", "array_upper", "array_lower", "array_ndims", "array_position",
	"array_append", "array_cat", "array_to_string", "string_to_array", "unnest",
	"bool_or", "every", "count", "sum", "min", "max", "avg", "string_agg",
	"array_agg", "to_char", "to_number", "to_date", "to_timestamp", "date_trunc",
	"date_part", "extract", "age", "regexp_match", "regexp_matches",
	"regexp_replace", "starts_with", "left", "right", "md5", "random", "nextval",
	"currval", "setval", "octet_length", "bit_length", "initcap", "replace",
	"reverse", "repeat", "lpad", "rpad", "split_part", "format", "quote_ident",
	"quote_literal", "exists", "pg_typeof", "row_to_json", "array_to_json",
	"generate_series", "char_length", "character_length",
)

// IsBuiltin reports whether name (any case) is a PostgreSQL function known to
// this package (modelled or not), as opposed to a user-defined one.
func IsBuiltin(name string) bool {
	n := FoldIdent(name)
	return modelledBuiltins[n] || pseudoBuiltins[n] || unmodelledBuiltins[n]
}

// WalkExpr calls fn on e and all its sub-expressions (pre-order).
func WalkExpr(e Expr, fn func(Expr)) {
	if e == nil {
		return
	}
	fn(e)
	switch x := e.(type) {
	case *UnaryExpr:
		WalkExpr(x.X, fn)
	case *BinaryExpr:
		WalkExpr(x.L, fn)
		WalkExpr(x.R, fn)
	case *CastExpr:
		WalkExpr(x.X, fn)
	case *IsNullExpr:
		WalkExpr(x.X, fn)
	case *InExpr:
		WalkExpr(x.X, fn)
		for _, it := range x.List {
			WalkExpr(it, fn)
		}
	case *AnyExpr:
		WalkExpr(x.X, fn)
		WalkExpr(x.Array, fn)
	case *CallExpr:
		for _, a := range x.Args {
			WalkExpr(a, fn)
		}
	case *SubqueryExpr:
		WalkExpr(x.Arg, fn)
		WalkExpr(x.SourceArg, fn)
	}
}

// CalledFuncs returns the lower-cased names of the non-builtin functions
// called anywhere in e, without duplicates, in order of first appearance.
func CalledFuncs(e Expr) []string {
	var out []string
	seen := map[string]bool{}
	WalkExpr(e, func(x Expr) {
		if c, ok := x.(*CallExpr); ok && !IsBuiltin(c.Lower) && !seen[c.Lower] {
			seen[c.Lower] = true
			out = append(out, c.Lower)
		}
	})
	return out
}

// ---------------------------------------------------------------------------
// parser

const tEOF TokenKind = -1

type parser struct {
	toks []Token
	i    int
	src  string
}

func (p *parser) peek() Token {
	if p.i < len(p.toks) {
		return p.toks[p.i]
	}
	return Token{Kind: tEOF, Pos: len(p.src), End: len(p.src)}
}

func (p *parser) peekAt(k int) Token {
	if p.i+k < len(p.toks) {
		return p.toks[p.i+k]
	}
	return Token{Kind: tEOF, Pos: len(p.src), End: len(p.src)}
}

func (p *parser) next() Token {
	t := p.peek()
	if p.i < len(p.toks) {
		p.i++
	}
	return t
}

func (p *parser) eof() bool { return p.i >= len(p.toks) }

func (p *parser) acceptKw(kw string) bool {
	if p.peek().Is(kw) {
		p.i++
		return true
	}
	return false
}

func (p *parser) acceptPunct(s string) bool {
	if p.peek().IsPunct(s) {
		p.i++
		return true
	}
	return false
}

func describe(t Token) string {
	if t.Kind == tEOF {
		return "end of input"
	}
	if t.Kind == TString {
		return quoteSQLString(t.Text)
	}
	if t.Kind == TDollarBody {
		return "$$...$$"
	}
	return `"` + t.Text + `"`
}

func (p *parser) errNear(t Token) error {
	return parseErrorf(t.Pos, "syntax error at or near %s", describe(t))
}

func (p *parser) expectPunct(s string) error {
	if !p.acceptPunct(s) {
		t := p.peek()
		return parseErrorf(t.Pos, "expected %q, found %s", s, describe(t))
	}
	return nil
}

func (p *parser) expectKw(kw string) error {
	if !p.acceptKw(kw) {
		t := p.peek()
		return parseErrorf(t.Pos, "expected %s, found %s", strings.ToUpper(kw), describe(t))
	}
	return nil
}

// ParseExpr parses one SQL expression (the whole of src must be consumed).
// Syntax errors are *ParseError, constructs outside the subset *UnsupportedError.
func ParseExpr(src string) (Expr, error) {
	toks, err := Tokenize(src)
	if err != nil {
		return nil, err
	}
	p := &parser{toks: toks, src: src}
	e, err := p.parseExpr()
	if err != nil {
		return nil, err
	}
	if !p.eof() {
		return nil, p.errNear(p.peek())
	}
	return e, nil
}

func (p *parser) parseExpr() (Expr, error) { return p.parseOr() }

func (p *parser) parseOr() (Expr, error) {
	left, err := p.parseAnd()
	if err != nil {
		return nil, err
	}
	for p.acceptKw("or") {
		right, err := p.parseAnd()
		if err != nil {
			return nil, err
		}
		left = &BinaryExpr{Op: "OR", L: left, R: right}
	}
	return left, nil
}

func (p *parser) parseAnd() (Expr, error) {
	left, err := p.parseNot()
	if err != nil {
		return nil, err
	}
	for p.acceptKw("and") {
		right, err := p.parseNot()
		if err != nil {
			return nil, err
		}
		left = &BinaryExpr{Op: "AND", L: left, R: right}
	}
	return left, nil
}

func (p *parser) parseNot() (Expr, error) {
	if p.acceptKw("not") {
		x, err := p.parseNot()
		if err != nil {
			return nil, err
		}
		return &UnaryExpr{Op: "NOT", X: x}, nil
	}
	return p.parseIs()
}

func (p *parser) parseIs() (Expr, error) {
	left, err := p.parseCmp()
	if err != nil {
		return nil, err
	}
	for {
		switch {
		case p.peek().Is("is"):
			p.next()
			not := p.acceptKw("not")
			t := p.peek()
			switch {
			case t.Is("null"):
				p.next()
				left = &IsNullExpr{X: left, Not: not}
			case t.Is("true"), t.Is("false"), t.Is("unknown"), t.Is("distinct"), t.Is("document"),
				t.Is("normalized"), t.Is("json"), t.Is("of"):
				return nil, unsupportedf("IS %s", strings.ToUpper(t.Lower))
			default:
				return nil, p.errNear(t)
			}
		case p.peek().Is("isnull"):
			p.next()
			left = &IsNullExpr{X: left}
		case p.peek().Is("notnull"):
			p.next()
			left = &IsNullExpr{X: left, Not: true}
		default:
			return left, nil
		}
	}
}

func cmpOp(t Token) string {
	if t.Kind != TPunct {
		return ""
	}
	switch t.Text {
	case "=", "<", ">", "<=", ">=", "<>":
		return t.Text
	case "!=":
		return "<>"
	}
	return ""
}

func (p *parser) parseCmp() (Expr, error) {
	left, err := p.parseIn()
	if err != nil {
		return nil, err
	}
	op := cmpOp(p.peek())
	if op == "" {
		return left, nil
	}
	p.next()
	var out Expr
	if t := p.peek(); (t.Is("any") || t.Is("some") || t.Is("all")) && p.peekAt(1).IsPunct("(") {
		if t.Is("all") {
			return nil, unsupportedf("%s ALL (...)", op)
		}
		p.next()
		p.next()
		if p.peek().Is("select") {
			return nil, unsupportedf("%s ANY (subquery)", op)
		}
		arr, err := p.parseExpr()
		if err != nil {
			return nil, err
		}
		if err := p.expectPunct(")"); err != nil {
			return nil, err
		}
		out = &AnyExpr{X: left, Op: op, Array: arr}
	} else {
		right, err := p.parseIn()
		if err != nil {
			return nil, err
		}
		out = &BinaryExpr{Op: op, L: left, R: right}
	}
	if cmpOp(p.peek()) != "" {
		// comparison operators are non-associative in PostgreSQL
		return nil, p.errNear(p.peek())
	}
	return out, nil
}

var patternKeywords = setOf("between", "like", "ilike", "similar", "overlaps")

func (p *parser) parseIn() (Expr, error) {
	left, err := p.parseOther()
	if err != nil {
		return nil, err
	}
	for {
		t := p.peek()
		not := false
		if t.Is("not") {
			n := p.peekAt(1)
			if n.Is("in") {
				not = true
			} else if n.Kind == TIdent && !n.Quoted && patternKeywords[n.Lower] {
				return nil, unsupportedf("NOT %s", strings.ToUpper(n.Lower))
			} else {
				return left, nil
			}
		} else if t.Kind == TIdent && !t.Quoted && patternKeywords[t.Lower] {
			return nil, unsupportedf("%s", strings.ToUpper(t.Lower))
		} else if !t.Is("in") {
			return left, nil
		}
		if not {
			p.next()
		}
		p.next() // IN
		if err := p.expectPunct("("); err != nil {
			return nil, err
		}
		if p.peek().Is("select") {
			return nil, unsupportedf("IN (subquery)")
		}
		var list []Expr
		for {
			it, err := p.parseExpr()
			if err != nil {
				return nil, err
			}
			list = append(list, it)
			if p.acceptPunct(",") {
				continue
			}
			break
		}
		if err := p.expectPunct(")"); err != nil {
			return nil, err
		}
		left = &InExpr{X: left, List: list, Not: not}
	}
}

var otherOps = setOf("->", "->>", "#>", "#>>", "||")

func (p *parser) parseOther() (Expr, error) {
	left, err := p.parseAdd()
	if err != nil {
		return nil, err
	}
	for {
		t := p.peek()
		if t.Kind != TPunct {
			return left, nil
		}
		if otherOps[t.Text] {
			p.next()
			right, err := p.parseAdd()
			if err != nil {
				return nil, err
			}
			left = &BinaryExpr{Op: t.Text, L: left, R: right}
			continue
		}
		switch t.Text {
		case "@", "?", "&", "|", "~", "^", "#", "!":
			return nil, unsupportedf("operator starting with %q at offset %d", t.Text, t.Pos)
		}
		return left, nil
	}
}

func (p *parser) parseAdd() (Expr, error) {
	left, err := p.parseMul()
	if err != nil {
		return nil, err
	}
	for p.peek().IsPunct("+") || p.peek().IsPunct("-") {
		op := p.next().Text
		right, err := p.parseMul()
		if err != nil {
			return nil, err
		}
		left = &BinaryExpr{Op: op, L: left, R: right}
	}
	return left, nil
}

func (p *parser) parseMul() (Expr, error) {
	left, err := p.parseUnary()
	if err != nil {
		return nil, err
	}
	for p.peek().IsPunct("*") || p.peek().IsPunct("/") || p.peek().IsPunct("%") {
		op := p.next().Text
		right, err := p.parseUnary()
		if err != nil {
			return nil, err
		}
		left = &BinaryExpr{Op: op, L: left, R: right}
	}
	return left, nil
}

func (p *parser) parseUnary() (Expr, error) {
	if p.peek().IsPunct("-") || p.peek().IsPunct("+") {
		op := p.next().Text
		x, err := p.parseUnary()
		if err != nil {
			return nil, err
		}
		return &UnaryExpr{Op: op, X: x}, nil
	}
	return p.parsePostfix()
}

func (p *parser) parsePostfix() (Expr, error) {
	x, err := p.parsePrimary()
	if err != nil {
		return nil, err
	}
	for {
		switch {
		case p.peek().IsPunct("::"):
			p.next()
			ty, err := p.parseTypeName()
			if err != nil {
				return nil, err
			}
			x = &CastExpr{X: x, Type: ty}
		case p.peek().IsPunct("["):
			return nil, unsupportedf("array subscript at offset %d", p.peek().Pos)
		case p.peek().IsPunct("."):
			return nil, unsupportedf("field selection / qualified name at offset %d", p.peek().Pos)
		default:
			return x, nil
		}
	}
}

var unsupportedPrimaryKeywords = setOf("case", "array", "row", "exists", "select", "interval",
	"current_date", "current_time", "current_timestamp", "localtime", "localtimestamp",
	"current_user", "session_user", "user", "current_role", "current_catalog", "current_schema",
	"nullif", "greatest", "least", "extract", "position", "substring", "trim", "overlay",
	"xmlelement", "treat", "grouping", "default")

func (p *parser) parsePrimary() (Expr, error) {
	t := p.peek()
	switch t.Kind {
	case tEOF:
		return nil, p.errNear(t)
	case TNumber:
		p.next()
		return &Literal{Kind: LitNumber, Text: t.Text}, nil
	case TString:
		p.next()
		if p.peek().Kind == TString {
			// PostgreSQL only joins literals separated by a newline; reject rather than guess
			return nil, unsupportedf("adjacent string literals at offset %d", t.Pos)
		}
		return &Literal{Kind: LitString, Text: t.Text}, nil
	case TParam:
		p.next()
		n := t.ParamIndex()
		if n <= 0 {
			return nil, parseErrorf(t.Pos, "there is no parameter %s", t.Text)
		}
		return &ParamRef{N: n}, nil
	case TDollarBody:
		return nil, unsupportedf("dollar-quoted string in expression")
	case TPunct:
		if t.Text != "(" {
			if strings.Contains("@?&|~^#!", t.Text) {
				return nil, unsupportedf("prefix operator %q at offset %d", t.Text, t.Pos)
			}
			return nil, p.errNear(t)
		}
		p.next()
		if p.peek().Is("select") {
			return p.parseSubquery()
		}
		e, err := p.parseExpr()
		if err != nil {
			return nil, err
		}
		if p.peek().IsPunct(",") {
			return nil, unsupportedf("row constructor at offset %d", t.Pos)
		}
		if err := p.expectPunct(")"); err != nil {
			return nil, err
		}
		return e, nil
	}
	// identifier
	p.next()
	if t.Quoted {
		if p.peek().IsPunct("(") {
			return p.parseCall(t)
		}
		return &ColumnRef{Name: t.Text, Lower: t.Text, Quoted: true}, nil
	}
	switch t.Lower {
	case "true", "false":
		return &Literal{Kind: LitBool, Text: t.Lower}, nil
	case "null":
		return &Literal{Kind: LitNull, Text: "NULL"}, nil
	case "cast":
		if err := p.expectPunct("("); err != nil {
			return nil, err
		}
		x, err := p.parseExpr()
		if err != nil {
			return nil, err
		}
		if err := p.expectKw("as"); err != nil {
			return nil, err
		}
		ty, err := p.parseTypeName()
		if err != nil {
			return nil, err
		}
		if err := p.expectPunct(")"); err != nil {
			return nil, err
		}
		return &CastExpr{X: x, Type: ty}, nil
	}
	if unsupportedPrimaryKeywords[t.Lower] {
		return nil, unsupportedf("%s expression", strings.ToUpper(t.Lower))
	}
	if reservedKeywords[t.Lower] {
		p.i--
		return nil, p.errNear(t)
	}
	if p.peek().IsPunct("(") {
		return p.parseCall(t)
	}
	if typeFuncNameKeywords[t.Lower] {
		p.i--
		return nil, p.errNear(t)
	}
	if p.peek().Kind == TString {
		return nil, unsupportedf("typed literal %s '...'", t.Text)
	}
	return &ColumnRef{Name: t.Text, Lower: t.Lower}, nil
}

func (p *parser) parseCall(name Token) (Expr, error) {
	p.next() // (
	call := &CallExpr{Name: name.Text, Lower: name.Lower}
	if p.acceptPunct(")") {
		return p.afterCall(call)
	}
	if p.peek().IsPunct("*") || p.peek().Is("distinct") || p.peek().Is("variadic") || p.peek().Is("all") {
		return nil, unsupportedf("call syntax %s(%s ...)", name.Text, p.peek().Text)
	}
	for {
		a, err := p.parseExpr()
		if err != nil {
			return nil, err
		}
		call.Args = append(call.Args, a)
		if p.acceptPunct(",") {
			continue
		}
		break
	}
	if p.peek().Is("order") || p.peek().IsPunct(":=") || p.peek().Is("from") || p.peek().Is("for") {
		return nil, unsupportedf("call syntax in %s(...)", name.Text)
	}
	if err := p.expectPunct(")"); err != nil {
		return nil, err
	}
	return p.afterCall(call)
}

func (p *parser) afterCall(call *CallExpr) (Expr, error) {
	if p.peek().Is("filter") || p.peek().Is("over") || p.peek().Is("within") {
		return nil, unsupportedf("%s clause after %s(...)", strings.ToUpper(p.peek().Lower), call.Name)
	}
	return call, nil
}

// parseSubquery parses the scalar subquery forms; "(" was consumed and the
// current token is SELECT.
func (p *parser) parseSubquery() (Expr, error) {
	p.next() // SELECT
	agg := p.next()
	if agg.Kind != TIdent || !p.peek().IsPunct("(") {
		return nil, unsupportedf("subquery other than SELECT bool_and(...) FROM jsonb_each|jsonb_array_elements(...)")
	}
	if agg.Quoted || agg.Lower != "bool_and" {
		return nil, unsupportedf("aggregate %s in subquery", agg.Text)
	}
	p.next() // (
	arg, err := p.parseExpr()
	if err != nil {
		return nil, err
	}
	if err := p.expectPunct(")"); err != nil {
		return nil, err
	}
	if !p.peek().Is("from") {
		if p.peek().IsPunct(",") || p.peek().Is("as") || p.peek().Kind == TIdent {
			return nil, unsupportedf("subquery select list beyond a single bool_and(...)")
		}
		return nil, p.errNear(p.peek())
	}
	p.next()
	src := p.next()
	if src.Kind != TIdent || !p.peek().IsPunct("(") {
		return nil, unsupportedf("subquery FROM clause that is not jsonb_each(...) / jsonb_array_elements(...)")
	}
	if src.Quoted || (src.Lower != "jsonb_each" && src.Lower != "jsonb_array_elements") {
		return nil, unsupportedf("set-returning function %s in FROM", src.Text)
	}
	p.next() // (
	sarg, err := p.parseExpr()
	if err != nil {
		return nil, err
	}
	if err := p.expectPunct(")"); err != nil {
		return nil, err
	}
	if !p.peek().IsPunct(")") {
		if p.peek().Kind == tEOF {
			return nil, p.errNear(p.peek())
		}
		return nil, unsupportedf("subquery clause starting at %s", describe(p.peek()))
	}
	p.next()
	return &SubqueryExpr{Agg: "bool_and", Arg: arg, Source: src.Lower, SourceArg: sarg}, nil
}

// ---------------------------------------------------------------------------
// type names

// parseTypeName reads a type name and returns it normalised (see NormalizeType).
func (p *parser) parseTypeName() (string, error) {
	t := p.next()
	if t.Kind != TIdent {
		return "", parseErrorf(t.Pos, "expected a type name, found %s", describe(t))
	}
	var words []string
	if t.Quoted {
		words = append(words, `"`+t.Text+`"`)
	} else {
		if reservedKeywords[t.Lower] {
			return "", parseErrorf(t.Pos, "syntax error at or near %s", describe(t))
		}
		words = append(words, t.Lower)
		if p.peek().IsPunct(".") { // schema qualified
			p.next()
			n := p.next()
			if n.Kind != TIdent {
				return "", p.errNear(n)
			}
			words[0] += "." + n.Lower
		}
		switch t.Lower {
		case "double":
			if err := p.expectKw("precision"); err != nil {
				return "", err
			}
			words = append(words, "precision")
		case "character", "bit", "char", "nchar":
			if p.acceptKw("varying") {
				words = append(words, "varying")
			}
		case "national":
			return "", unsupportedf("NATIONAL CHARACTER type")
		case "interval":
			if p.peek().Kind == TIdent && setOf("year", "month", "day", "hour", "minute", "second")[p.peek().Lower] {
				return "", unsupportedf("interval with fields")
			}
		}
	}
	if p.peek().IsPunct("(") {
		p.next()
		var mods []string
		for {
			m := p.next()
			if m.Kind != TNumber {
				return "", parseErrorf(m.Pos, "expected a type modifier, found %s", describe(m))
			}
			mods = append(mods, m.Text)
			if p.acceptPunct(",") {
				continue
			}
			break
		}
		if err := p.expectPunct(")"); err != nil {
			return "", err
		}
		words = append(words, "("+strings.Join(mods, ",")+")")
	}
	if !t.Quoted && (t.Lower == "timestamp" || t.Lower == "time") {
		if p.peek().Is("with") || p.peek().Is("without") {
			w := p.next().Lower
			if err := p.expectKw("time"); err != nil {
				return "", err
			}
			if err := p.expectKw("zone"); err != nil {
				return "", err
			}
			words = append(words, w, "time", "zone")
		}
	}
	out := strings.Join(words, " ")
	if p.peek().Is("array") {
		return "", unsupportedf("ARRAY type suffix")
	}
	for p.peek().IsPunct("[") {
		p.next()
		if p.peek().Kind == TNumber {
			p.next() // declared sizes are ignored by PostgreSQL
		}
		if err := p.expectPunct("]"); err != nil {
			return "", err
		}
		out += "[]"
	}
	return out, nil
}

// NormalizeType normalises a type name as written in a script: lower case,
// single spaces, a space before a "(n)" modifier, no space before "[]".
// Examples: "integer", "timestamp (0) with time zone", "text[]", "composite".
func NormalizeType(raw string) (string, error) {
	toks, err := Tokenize(raw)
	if err != nil {
		return "", err
	}
	p := &parser{toks: toks, src: raw}
	ty, err := p.parseTypeName()
	if err != nil {
		return "", err
	}
	if !p.eof() {
		return "", p.errNear(p.peek())
	}
	return ty, nil
}

// TypeInfo is the decoded form of a normalised type name.
type TypeInfo struct {
	Base      string // canonical base name: aliases resolved (int4 -> integer, bool -> boolean...)
	Array     bool   // one-dimensional "x[]" (Dims > 1 for more)
	Dims      int
	Modifiers string // "(0)" style modifier text, "" if absent
}

var typeAliases = map[string]string{
	"int": "integer", "int4": "integer", "int2": "smallint", "int8": "bigint",
	"bool": "boolean", "float4": "real", "float8": "double precision", "float": "double precision",
	"decimal": "numeric", "varchar": "character varying", "char": "character",
	"timestamptz": "timestamp with time zone", "timetz": "time with time zone",
	"serial4": "serial", "serial8": "bigserial", "serial2": "smallserial",
	"timestamp without time zone": "timestamp", "time without time zone": "time",
}

// DecodeType splits a normalised type name.
func DecodeType(norm string) TypeInfo {
	var ti TypeInfo
	for strings.HasSuffix(norm, "[]") {
		norm = strings.TrimSuffix(norm, "[]")
		ti.Dims++
	}
	ti.Array = ti.Dims > 0
	if i := strings.Index(norm, "("); i >= 0 {
		j := strings.Index(norm, ")")
		if j > i {
			ti.Modifiers = norm[i : j+1]
			norm = strings.TrimSpace(norm[:i]) + norm[j+1:]
		}
	}
	norm = strings.TrimPrefix(strings.Join(strings.Fields(norm), " "), "pg_catalog.")
	if a, ok := typeAliases[norm]; ok {
		norm = a
	}
	ti.Base = norm
	return ti
}
