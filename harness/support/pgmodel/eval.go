package pgmodel

import (
	"bytes"
	"encoding/json"
	"math/big"
	"strconv"
	"strings"
	"unicode/utf8"
)

// Env binds names (lower case; "$1" style for parameters) to values.
type Env map[string]Value

// MaxCallDepth bounds nested user-function calls; beyond it evaluation stops
// with an *UnsupportedError (PostgreSQL's own limit, max_stack_depth, is far
// larger and depends on the build).
const MaxCallDepth = 200

// ---------------------------------------------------------------------------
// static types
//
// PostgreSQL resolves operators and functions when it plans an expression,
// i.e. before looking at any value: "text = integer" fails even when the
// left operand happens to be NULL or when an earlier AND operand is false.
// Every expression is therefore type-checked as a whole (check) before it is
// evaluated (eval).

type stype struct {
	k       Kind     // KNull: the "unknown" pseudo-type (string literal, NULL literal, untyped NULL)
	numeric bool     // KNum known to be of a non-integer type
	elem    string   // KArray element type (normalised), "" when not known
	name    string   // KComposite type name
	lit     *Literal // set when the expression is directly a string literal
}

func (t stype) unknown() bool { return t.k == KNull }

func (t stype) String() string {
	switch t.k {
	case KNull:
		return "unknown"
	case KNum:
		if t.numeric {
			return "numeric"
		}
		return "integer"
	case KArray:
		if t.elem != "" {
			return t.elem + "[]"
		}
		return "anyarray"
	case KComposite:
		if t.name != "" {
			return t.name
		}
	}
	return t.k.String()
}

func stypeOfValue(v Value) stype {
	if v.K == KText && v.Unknown {
		return stype{k: KNull, lit: &Literal{Kind: LitString, Text: v.S}}
	}
	t := stype{k: v.staticKind()}
	switch v.K {
	case KNum:
		t.numeric = !v.Int
	case KArray:
		t.elem = v.ElemType
	case KComposite:
		t.name = v.TypeName
	}
	return t
}

// stypeOfTypeName maps a normalised SQL type name to a static type.
func (s *Script) stypeOfTypeName(typ string) (stype, error) {
	ti := DecodeType(typ)
	if ti.Dims > 1 {
		return stype{}, unsupportedf("multi-dimensional array type %s", typ)
	}
	if ti.Array {
		return stype{k: KArray, elem: ti.Base}, nil
	}
	switch ti.Base {
	case "integer", "smallint", "bigint", "serial", "bigserial", "smallserial":
		return stype{k: KNum}, nil
	case "numeric", "real", "double precision":
		return stype{k: KNum, numeric: true}, nil
	case "text", "character varying", "character":
		return stype{k: KText}, nil
	case "boolean":
		return stype{k: KBool}, nil
	case "jsonb":
		return stype{k: KJSONB}, nil
	case "timestamp", "timestamp with time zone", "date":
		return stype{k: KTime}, nil
	case "bytea":
		return stype{k: KBytes}, nil
	}
	if s != nil && s.Type(ti.Base) != nil {
		return stype{k: KComposite, name: ti.Base}, nil
	}
	if knownBaseTypes[ti.Base] {
		return stype{}, unsupportedf("type %s", typ)
	}
	return stype{}, evalErrorf("type %q does not exist", ti.Base)
}

type checkCtx struct {
	s *Script
	// plpgsql: an identifier that is both a variable and a subquery column is
	// ambiguous (plpgsql.variable_conflict = error)
	plpgsql bool
}

func literalCoercible(lit *Literal, to stype) error {
	if lit == nil || lit.Kind != LitString {
		return nil
	}
	switch to.k {
	case KNull, KText:
		return nil
	case KBool:
		if _, ok := parseBool(lit.Text); !ok {
			return evalErrorf("invalid input syntax for type boolean: %q", lit.Text)
		}
	case KNum:
		if to.numeric {
			if _, err := parseNumeric(lit.Text); err != nil {
				return evalErrorf("invalid input syntax for type numeric: %q", lit.Text)
			}
		} else if _, ok := parseIntText(lit.Text); !ok {
			return evalErrorf("invalid input syntax for type integer: %q", lit.Text)
		}
	case KJSONB:
		if _, err := JSONBFromBytes([]byte(lit.Text)); err != nil {
			return err
		}
	case KArray:
		if _, err := ParseArrayLiteral(lit.Text); err != nil {
			return err
		}
		if to.elem != "text" {
			return unsupportedf("string literal coerced to %s", to)
		}
	default:
		return unsupportedf("string literal coerced to %s", to)
	}
	return nil
}

func checkBoolOperand(t stype, what string) error {
	if t.k == KBool {
		return nil
	}
	if t.unknown() {
		return literalCoercible(t.lit, stype{k: KBool})
	}
	return evalErrorf("argument of %s must be type boolean, not type %s", what, t)
}

func checkComparable(op string, a, b stype) error {
	switch {
	case a.unknown() && b.unknown():
		return nil // both resolve to text
	case a.unknown():
		if err := literalCoercible(a.lit, b); err != nil {
			return err
		}
		a = b
	case b.unknown():
		if err := literalCoercible(b.lit, a); err != nil {
			return err
		}
		b = a
	}
	if a.k != b.k {
		return evalErrorf("operator does not exist: %s %s %s", a, op, b)
	}
	ordering := op != "=" && op != "<>"
	switch a.k {
	case KNum, KBool, KTime, KBytes:
		return nil
	case KText:
		if ordering {
			return unsupportedf("ordering comparison of text (collation dependent)")
		}
		return nil
	case KJSONB:
		if ordering {
			return unsupportedf("ordering comparison of jsonb")
		}
		return nil
	case KArray:
		if a.elem != "" && b.elem != "" && DecodeType(a.elem).Base != DecodeType(b.elem).Base {
			return evalErrorf("operator does not exist: %s %s %s", a, op, b)
		}
		if ordering {
			return unsupportedf("ordering comparison of arrays")
		}
		return nil
	}
	return unsupportedf("comparison of %s values", a)
}

func (c *checkCtx) check(e Expr, tenv map[string]stype) (stype, error) {
	switch x := e.(type) {
	case *Literal:
		switch x.Kind {
		case LitNumber:
			if _, err := parseNumeric(x.Text); err != nil {
				return stype{}, evalErrorf("%v", err)
			}
			return stype{k: KNum, numeric: strings.ContainsAny(x.Text, ".eE")}, nil
		case LitString:
			return stype{k: KNull, lit: x}, nil
		case LitBool:
			return stype{k: KBool}, nil
		}
		return stype{k: KNull}, nil
	case *ColumnRef:
		t, ok := tenv[x.Lower]
		if !ok {
			return stype{}, evalErrorf("column %q does not exist", x.Name)
		}
		return t, nil
	case *ParamRef:
		t, ok := tenv["$"+strconv.Itoa(x.N)]
		if !ok {
			return stype{}, evalErrorf("there is no parameter $%d", x.N)
		}
		return t, nil
	case *UnsupportedExpr:
		return stype{}, unsupportedf("%s (in %s)", x.Reason, firstLine(x.Raw))
	case *UnaryExpr:
		t, err := c.check(x.X, tenv)
		if err != nil {
			return stype{}, err
		}
		if x.Op == "NOT" {
			if err := checkBoolOperand(t, "NOT"); err != nil {
				return stype{}, err
			}
			return stype{k: KBool}, nil
		}
		if t.k == KNum {
			return stype{k: KNum, numeric: t.numeric}, nil
		}
		if t.unknown() {
			return stype{}, unsupportedf("unary %s on an untyped operand", x.Op)
		}
		return stype{}, evalErrorf("operator does not exist: %s %s", x.Op, t)
	case *BinaryExpr:
		l, err := c.check(x.L, tenv)
		if err != nil {
			return stype{}, err
		}
		r, err := c.check(x.R, tenv)
		if err != nil {
			return stype{}, err
		}
		switch x.Op {
		case "AND", "OR":
			if err := checkBoolOperand(l, x.Op); err != nil {
				return stype{}, err
			}
			if err := checkBoolOperand(r, x.Op); err != nil {
				return stype{}, err
			}
			return stype{k: KBool}, nil
		case "=", "<>", "<", "<=", ">", ">=":
			if err := checkComparable(x.Op, l, r); err != nil {
				return stype{}, err
			}
			return stype{k: KBool}, nil
		case "->", "->>":
			res := stype{k: KJSONB}
			if x.Op == "->>" {
				res = stype{k: KText}
			}
			if l.unknown() && r.unknown() {
				return stype{}, evalErrorf("operator is not unique: unknown %s unknown", x.Op)
			}
			if l.unknown() {
				if err := literalCoercible(l.lit, stype{k: KJSONB}); err != nil {
					return stype{}, err
				}
				l = stype{k: KJSONB}
			}
			if l.k != KJSONB {
				return stype{}, evalErrorf("operator does not exist: %s %s %s", l, x.Op, r)
			}
			switch {
			case r.unknown(), r.k == KText:
				return res, nil
			case r.k == KNum && !r.numeric:
				return res, nil
			}
			return stype{}, evalErrorf("operator does not exist: %s %s %s", l, x.Op, r)
		case "#>", "#>>":
			res := stype{k: KJSONB}
			if x.Op == "#>>" {
				res = stype{k: KText}
			}
			if l.unknown() && r.unknown() {
				return stype{}, evalErrorf("operator is not unique: unknown %s unknown", x.Op)
			}
			if l.unknown() {
				if err := literalCoercible(l.lit, stype{k: KJSONB}); err != nil {
					return stype{}, err
				}
				l = stype{k: KJSONB}
			}
			if l.k != KJSONB {
				return stype{}, evalErrorf("operator does not exist: %s %s %s", l, x.Op, r)
			}
			if r.unknown() {
				if r.lit != nil {
					if _, err := ParseArrayLiteral(r.lit.Text); err != nil {
						return stype{}, err
					}
				}
				return res, nil
			}
			if r.k == KArray && (r.elem == "" || DecodeType(r.elem).Base == "text") {
				return res, nil
			}
			return stype{}, evalErrorf("operator does not exist: %s %s %s", l, x.Op, r)
		case "||":
			okText := func(t stype) bool { return t.unknown() || t.k == KText }
			if okText(l) && okText(r) {
				return stype{k: KText}, nil
			}
			return stype{}, unsupportedf("operator || on %s and %s", l, r)
		case "+", "-", "*", "/", "%":
			okNum := func(t stype) bool { return t.k == KNum }
			if x.Op == "/" || x.Op == "%" {
				return stype{}, unsupportedf("operator %s", x.Op)
			}
			if l.unknown() && l.lit != nil && okNum(r) {
				if err := literalCoercible(l.lit, r); err != nil {
					return stype{}, err
				}
				l = r
			}
			if r.unknown() && r.lit != nil && okNum(l) {
				if err := literalCoercible(r.lit, l); err != nil {
					return stype{}, err
				}
				r = l
			}
			if okNum(l) && okNum(r) {
				return stype{k: KNum, numeric: l.numeric || r.numeric}, nil
			}
			if l.unknown() || r.unknown() || l.k == KTime || r.k == KTime {
				return stype{}, unsupportedf("operator %s on %s and %s", x.Op, l, r)
			}
			return stype{}, evalErrorf("operator does not exist: %s %s %s", l, x.Op, r)
		}
		return stype{}, unsupportedf("operator %s", x.Op)
	case *CastExpr:
		t, err := c.check(x.X, tenv)
		if err != nil {
			return stype{}, err
		}
		return c.checkCast(t, x.Type)
	case *IsNullExpr:
		t, err := c.check(x.X, tenv)
		if err != nil {
			return stype{}, err
		}
		if t.k == KComposite {
			return stype{}, unsupportedf("IS NULL on a composite value")
		}
		return stype{k: KBool}, nil
	case *InExpr:
		l, err := c.check(x.X, tenv)
		if err != nil {
			return stype{}, err
		}
		for _, it := range x.List {
			r, err := c.check(it, tenv)
			if err != nil {
				return stype{}, err
			}
			if err := checkComparable("=", l, r); err != nil {
				return stype{}, err
			}
			if l.unknown() && !r.unknown() {
				// the left literal takes the type of the first typed item
				l = r
			}
		}
		return stype{k: KBool}, nil
	case *AnyExpr:
		l, err := c.check(x.X, tenv)
		if err != nil {
			return stype{}, err
		}
		a, err := c.check(x.Array, tenv)
		if err != nil {
			return stype{}, err
		}
		if a.unknown() {
			if a.lit != nil {
				if _, err := ParseArrayLiteral(a.lit.Text); err != nil {
					return stype{}, err
				}
				return stype{}, unsupportedf("ANY over an untyped array literal")
			}
			return stype{k: KBool}, nil
		}
		if a.k != KArray {
			return stype{}, evalErrorf("op ANY/ALL (array) requires array on right side")
		}
		if a.elem != "" {
			et, err := c.s.stypeOfTypeName(a.elem)
			if err != nil {
				return stype{}, err
			}
			if err := checkComparable(x.Op, l, et); err != nil {
				return stype{}, err
			}
		}
		return stype{k: KBool}, nil
	case *SubqueryExpr:
		src, err := c.check(x.SourceArg, tenv)
		if err != nil {
			return stype{}, err
		}
		if src.unknown() {
			if err := literalCoercible(src.lit, stype{k: KJSONB}); err != nil {
				return stype{}, err
			}
		} else if src.k != KJSONB {
			return stype{}, evalErrorf("function %s(%s) does not exist", x.Source, src)
		}
		inner := make(map[string]stype, len(tenv)+2)
		for k, v := range tenv {
			inner[k] = v
		}
		cols := []string{"value"}
		if x.Source == "jsonb_each" {
			cols = []string{"key", "value"}
		}
		if c.plpgsql {
			var amb string
			WalkExpr(x.Arg, func(e Expr) {
				if cr, ok := e.(*ColumnRef); ok {
					for _, col := range cols {
						if cr.Lower == col {
							if _, clash := tenv[col]; clash {
								amb = col
							}
						}
					}
				}
			})
			if amb != "" {
				return stype{}, evalErrorf("column reference %q is ambiguous (it could refer to either a PL/pgSQL variable or a table column)", amb)
			}
		}
		inner["value"] = stype{k: KJSONB}
		if x.Source == "jsonb_each" {
			inner["key"] = stype{k: KText}
		}
		at, err := c.check(x.Arg, inner)
		if err != nil {
			return stype{}, err
		}
		if at.unknown() {
			if err := literalCoercible(at.lit, stype{k: KBool}); err != nil {
				return stype{}, err
			}
		} else if at.k != KBool {
			return stype{}, evalErrorf("function bool_and(%s) does not exist", at)
		}
		return stype{k: KBool}, nil
	case *CallExpr:
		return c.checkCall(x, tenv)
	}
	return stype{}, unsupportedf("expression node %T", e)
}

func (c *checkCtx) checkArgs(x *CallExpr, tenv map[string]stype) ([]stype, error) {
	out := make([]stype, len(x.Args))
	for i, a := range x.Args {
		t, err := c.check(a, tenv)
		if err != nil {
			return nil, err
		}
		out[i] = t
	}
	return out, nil
}

func sigString(name string, args []stype) string {
	parts := make([]string, len(args))
	for i, a := range args {
		parts[i] = a.String()
	}
	return name + "(" + strings.Join(parts, ", ") + ")"
}

func (c *checkCtx) checkCall(x *CallExpr, tenv map[string]stype) (stype, error) {
	args, err := c.checkArgs(x, tenv)
	if err != nil {
		return stype{}, err
	}
	notExist := func() (stype, error) {
		return stype{}, evalErrorf("function %s does not exist", sigString(x.Lower, args))
	}
	// expect arg i to be of kind k (unknown literals are validated)
	want := func(i int, to stype) error {
		if args[i].unknown() {
			return literalCoercible(args[i].lit, to)
		}
		if args[i].k != to.k {
			return evalErrorf("function %s does not exist", sigString(x.Lower, args))
		}
		return nil
	}
	if f := c.s.userFunc(x.Lower); f != nil {
		if len(args) != len(f.Params) {
			return notExist()
		}
		for i, prm := range f.Params {
			pt, err := c.s.stypeOfTypeName(prm.Type)
			if err != nil {
				return stype{}, err
			}
			if args[i].unknown() {
				if err := literalCoercible(args[i].lit, pt); err != nil {
					return stype{}, err
				}
				continue
			}
			if args[i].k != pt.k {
				return notExist()
			}
			if pt.k == KNum && !pt.numeric && args[i].numeric {
				return notExist() // numeric -> integer is not an implicit cast
			}
		}
		if f.Returns == "" {
			return stype{}, unsupportedf("function %s without a scalar return type", f.Name)
		}
		return c.s.stypeOfTypeName(f.Returns)
	}
	switch x.Lower {
	case "jsonb_typeof":
		if len(args) != 1 {
			return notExist()
		}
		if err := want(0, stype{k: KJSONB}); err != nil {
			return stype{}, err
		}
		return stype{k: KText}, nil
	case "jsonb_array_length":
		if len(args) != 1 {
			return notExist()
		}
		if err := want(0, stype{k: KJSONB}); err != nil {
			return stype{}, err
		}
		return stype{k: KNum}, nil
	case "array_length":
		if len(args) != 2 {
			return notExist()
		}
		if args[0].unknown() {
			if args[0].lit != nil {
				return stype{}, evalErrorf("could not determine polymorphic type because input has type unknown")
			}
		} else if args[0].k != KArray {
			return notExist()
		}
		if args[1].unknown() {
			if err := literalCoercible(args[1].lit, stype{k: KNum}); err != nil {
				return stype{}, err
			}
		} else if args[1].k != KNum || args[1].numeric {
			return notExist()
		}
		return stype{k: KNum}, nil
	case "length", "char_length":
		if len(args) != 1 {
			return notExist()
		}
		if err := want(0, stype{k: KText}); err != nil {
			return stype{}, err
		}
		return stype{k: KNum}, nil
	case "lower", "upper":
		if len(args) != 1 {
			return notExist()
		}
		if err := want(0, stype{k: KText}); err != nil {
			return stype{}, err
		}
		return stype{k: KText}, nil
	case "coalesce":
		if len(args) == 0 {
			return stype{}, &ParseError{Msg: "syntax error at or near \")\""}
		}
		res := stype{k: KNull}
		for _, a := range args {
			if a.unknown() {
				continue
			}
			if res.unknown() {
				res = a
				continue
			}
			if res.k != a.k {
				return stype{}, evalErrorf("COALESCE types %s and %s cannot be matched", res, a)
			}
			res.numeric = res.numeric || a.numeric
		}
		if res.unknown() {
			return stype{k: KText}, nil
		}
		for _, a := range args {
			if a.unknown() {
				if err := literalCoercible(a.lit, res); err != nil {
					return stype{}, err
				}
			}
		}
		return res, nil
	}
	if pseudoBuiltins[x.Lower] {
		return stype{}, unsupportedf("%s outside the (SELECT bool_and(..) FROM jsonb_each|jsonb_array_elements(..)) form", x.Lower)
	}
	if unmodelledBuiltins[x.Lower] {
		return stype{}, unsupportedf("builtin function %s is not modelled", x.Lower)
	}
	return notExist()
}

func (s *Script) userFunc(lower string) *Func {
	if s == nil || s.Funcs == nil {
		return nil
	}
	return s.Funcs[lower]
}

type castTarget int

const (
	castInt castTarget = iota
	castNumeric
	castBool
	castText
	castJSONB
)

func classifyCastTarget(s *Script, typ string) (castTarget, TypeInfo, error) {
	ti := DecodeType(typ)
	if ti.Array {
		return 0, ti, unsupportedf("cast to array type %s", typ)
	}
	switch ti.Base {
	case "integer", "smallint", "bigint":
		return castInt, ti, nil
	case "numeric":
		if ti.Modifiers != "" {
			return 0, ti, unsupportedf("cast to %s (precision/scale)", typ)
		}
		return castNumeric, ti, nil
	case "boolean":
		return castBool, ti, nil
	case "text", "character varying":
		if ti.Modifiers != "" {
			return 0, ti, unsupportedf("cast to %s (length limit)", typ)
		}
		return castText, ti, nil
	case "jsonb":
		return castJSONB, ti, nil
	}
	if knownBaseTypes[ti.Base] || (s != nil && s.Type(ti.Base) != nil) {
		return 0, ti, unsupportedf("cast to %s", typ)
	}
	return 0, ti, evalErrorf("type %q does not exist", ti.Base)
}

func (c *checkCtx) checkCast(from stype, typ string) (stype, error) {
	target, ti, err := classifyCastTarget(c.s, typ)
	if err != nil {
		return stype{}, err
	}
	var res stype
	switch target {
	case castInt:
		res = stype{k: KNum}
	case castNumeric:
		res = stype{k: KNum, numeric: true}
	case castBool:
		res = stype{k: KBool}
	case castText:
		res = stype{k: KText}
	case castJSONB:
		res = stype{k: KJSONB}
	}
	if from.unknown() {
		if from.lit != nil {
			if _, err := castValue(c.s, UnknownLiteral(from.lit.Text), typ); err != nil {
				return stype{}, err
			}
		}
		return res, nil
	}
	cannot := func() (stype, error) {
		return stype{}, evalErrorf("cannot cast type %s to %s", from, ti.Base)
	}
	switch from.k {
	case KText:
		return res, nil // I/O conversion
	case KNum:
		switch target {
		case castInt, castNumeric:
			return res, nil
		case castText:
			if from.numeric {
				return stype{}, unsupportedf("numeric::text (display scale is not tracked)")
			}
			return res, nil
		case castBool:
			if !from.numeric && ti.Base == "integer" || !from.numeric {
				return res, nil
			}
		}
		return cannot()
	case KBool:
		switch target {
		case castBool, castText:
			return res, nil
		case castInt:
			if ti.Base == "integer" {
				return res, nil
			}
		}
		return cannot()
	case KJSONB:
		return res, nil // jsonb casts to integer types, numeric, boolean, text (I/O) and jsonb
	case KTime, KBytes, KArray, KComposite:
		if target == castText {
			return stype{}, unsupportedf("cast of %s to text", from)
		}
		return cannot()
	}
	return cannot()
}

// ---------------------------------------------------------------------------
// evaluation

type evalCtx struct {
	s     *Script
	depth int
}

func envTypes(env Env) map[string]stype {
	out := make(map[string]stype, len(env))
	for k, v := range env {
		out[k] = stypeOfValue(v)
	}
	return out
}

// Eval type-checks then evaluates e. Names are looked up in env by their
// lower-cased spelling (exact spelling for double-quoted identifiers),
// parameters as "$1", "$2"...
func (s *Script) Eval(e Expr, env Env) (Value, error) {
	if e == nil {
		return Value{}, unsupportedf("nil expression")
	}
	cc := &checkCtx{s: s}
	if _, err := cc.check(e, envTypes(env)); err != nil {
		return Value{}, err
	}
	c := &evalCtx{s: s}
	return c.eval(e, env)
}

// Call invokes a function of the script (or a modelled builtin) by name.
func (s *Script) Call(fn string, args ...Value) (Value, error) {
	call := &CallExpr{Name: fn, Lower: ResolveIdent(fn)}
	env := Env{}
	for i, a := range args {
		name := "$" + strconv.Itoa(i+1)
		env[name] = a
		call.Args = append(call.Args, &ParamRef{N: i + 1})
	}
	return s.Eval(call, env)
}

// CheckPasses evaluates a CHECK constraint expression: it is satisfied when
// the result is TRUE or NULL.
func (s *Script) CheckPasses(e Expr, env Env) (pass bool, value Value, err error) {
	v, err := s.Eval(e, env)
	if err != nil {
		return false, v, err
	}
	isTrue, isNull, err := Truth(v)
	if err != nil {
		return false, v, err
	}
	return isTrue || isNull, v, nil
}

// Truth interprets v as a boolean condition.
func Truth(v Value) (isTrue, isNull bool, err error) {
	switch {
	case v.K == KBool:
		return v.B, false, nil
	case v.K == KNull:
		if v.NullKind != KNull && v.NullKind != KBool {
			return false, false, evalErrorf("argument must be type boolean, not type %s", v.NullKind)
		}
		return false, true, nil
	case v.K == KText && v.Unknown:
		b, ok := parseBool(v.S)
		if !ok {
			return false, false, evalErrorf("invalid input syntax for type boolean: %q", v.S)
		}
		return b, false, nil
	}
	return false, false, evalErrorf("argument must be type boolean, not type %s", stypeOfValue(v))
}

func triBool(isTrue, isNull bool) Value {
	if isNull {
		return NullOf(KBool)
	}
	return Bool(isTrue)
}

func (c *evalCtx) eval(e Expr, env Env) (Value, error) {
	switch x := e.(type) {
	case *Literal:
		switch x.Kind {
		case LitNumber:
			v, err := NumFromString(x.Text)
			if err != nil {
				return Value{}, evalErrorf("%v", err)
			}
			return v, nil
		case LitString:
			return UnknownLiteral(x.Text), nil
		case LitBool:
			return Bool(x.Text == "true"), nil
		}
		return Null(), nil
	case *ColumnRef:
		v, ok := env[x.Lower]
		if !ok {
			return Value{}, evalErrorf("column %q does not exist", x.Name)
		}
		return v, nil
	case *ParamRef:
		v, ok := env["$"+strconv.Itoa(x.N)]
		if !ok {
			return Value{}, evalErrorf("there is no parameter $%d", x.N)
		}
		return v, nil
	case *UnsupportedExpr:
		return Value{}, unsupportedf("%s (in %s)", x.Reason, firstLine(x.Raw))
	case *UnaryExpr:
		v, err := c.eval(x.X, env)
		if err != nil {
			return Value{}, err
		}
		if x.Op == "NOT" {
			t, n, err := Truth(v)
			if err != nil {
				return Value{}, err
			}
			return triBool(!t, n), nil
		}
		if v.K == KNull {
			return NullOf(KNum), nil
		}
		if v.K != KNum {
			return Value{}, evalErrorf("operator does not exist: %s %s", x.Op, stypeOfValue(v))
		}
		if x.Op == "-" {
			return Value{K: KNum, N: new(big.Rat).Neg(v.N), Int: v.Int}, nil
		}
		return v, nil
	case *BinaryExpr:
		return c.evalBinary(x, env)
	case *CastExpr:
		v, err := c.eval(x.X, env)
		if err != nil {
			return Value{}, err
		}
		return castValue(c.s, v, x.Type)
	case *IsNullExpr:
		v, err := c.eval(x.X, env)
		if err != nil {
			return Value{}, err
		}
		if v.K == KComposite {
			return Value{}, unsupportedf("IS NULL on a composite value")
		}
		return Bool(v.IsNull() != x.Not), nil
	case *InExpr:
		l, err := c.eval(x.X, env)
		if err != nil {
			return Value{}, err
		}
		// all items are evaluated (PostgreSQL builds the whole array first)
		items := make([]Value, len(x.List))
		for i, it := range x.List {
			if items[i], err = c.eval(it, env); err != nil {
				return Value{}, err
			}
		}
		anyTrue, anyNull := false, false
		for _, it := range items {
			r, err := Compare("=", l, it)
			if err != nil {
				return Value{}, err
			}
			if r.IsNull() {
				anyNull = true
			} else if r.B {
				anyTrue = true
			}
		}
		res := triBool(anyTrue, !anyTrue && anyNull)
		if x.Not && !res.IsNull() {
			res.B = !res.B
		}
		return res, nil
	case *AnyExpr:
		l, err := c.eval(x.X, env)
		if err != nil {
			return Value{}, err
		}
		a, err := c.eval(x.Array, env)
		if err != nil {
			return Value{}, err
		}
		return AnyCompare(x.Op, l, a)
	case *SubqueryExpr:
		return c.evalSubquery(x, env)
	case *CallExpr:
		return c.evalCall(x, env)
	}
	return Value{}, unsupportedf("expression node %T", e)
}

// AnyCompare evaluates "l op ANY (arr)" with three-valued logic.
func AnyCompare(op string, l, arr Value) (Value, error) {
	if arr.IsNull() {
		return NullOf(KBool), nil
	}
	if arr.K != KArray {
		return Value{}, evalErrorf("op ANY/ALL (array) requires array on right side")
	}
	anyTrue, anyNull := false, false
	for _, it := range arr.Elems {
		r, err := Compare(op, l, it)
		if err != nil {
			return Value{}, err
		}
		if r.IsNull() {
			anyNull = true
		} else if r.B {
			anyTrue = true
		}
	}
	if len(arr.Elems) == 0 {
		return Bool(false), nil
	}
	return triBool(anyTrue, !anyTrue && anyNull), nil
}

func (c *evalCtx) evalBinary(x *BinaryExpr, env Env) (Value, error) {
	switch x.Op {
	case "AND", "OR":
		l, err := c.eval(x.L, env)
		if err != nil {
			return Value{}, err
		}
		lt, ln, err := Truth(l)
		if err != nil {
			return Value{}, err
		}
		if x.Op == "AND" && !lt && !ln {
			return Bool(false), nil
		}
		if x.Op == "OR" && lt {
			return Bool(true), nil
		}
		r, err := c.eval(x.R, env)
		if err != nil {
			return Value{}, err
		}
		rt, rn, err := Truth(r)
		if err != nil {
			return Value{}, err
		}
		if x.Op == "AND" {
			switch {
			case !rt && !rn:
				return Bool(false), nil
			case ln || rn:
				return NullOf(KBool), nil
			}
			return Bool(true), nil
		}
		switch {
		case rt:
			return Bool(true), nil
		case ln || rn:
			return NullOf(KBool), nil
		}
		return Bool(false), nil
	}
	l, err := c.eval(x.L, env)
	if err != nil {
		return Value{}, err
	}
	r, err := c.eval(x.R, env)
	if err != nil {
		return Value{}, err
	}
	switch x.Op {
	case "=", "<>", "<", "<=", ">", ">=":
		return Compare(x.Op, l, r)
	case "->", "->>":
		return jsonArrow(x.Op, l, r)
	case "#>", "#>>":
		return jsonPath(x.Op, l, r)
	case "||":
		if l.IsNull() || r.IsNull() {
			return NullOf(KText), nil
		}
		if l.K == KText && r.K == KText {
			return Text(l.S + r.S), nil
		}
		return Value{}, unsupportedf("operator || on %s and %s", stypeOfValue(l), stypeOfValue(r))
	case "+", "-", "*":
		var err error
		if l.K == KText && l.Unknown && r.staticKind() == KNum {
			if l, err = coerceUnknown(l, stypeOfValue(r)); err != nil {
				return Value{}, err
			}
		}
		if r.K == KText && r.Unknown && l.staticKind() == KNum {
			if r, err = coerceUnknown(r, stypeOfValue(l)); err != nil {
				return Value{}, err
			}
		}
		if l.staticKind() != KNum || r.staticKind() != KNum {
			return Value{}, unsupportedf("operator %s on %s and %s", x.Op, stypeOfValue(l), stypeOfValue(r))
		}
		if l.IsNull() || r.IsNull() {
			return NullOf(KNum), nil
		}
		out := new(big.Rat)
		switch x.Op {
		case "+":
			out.Add(l.N, r.N)
		case "-":
			out.Sub(l.N, r.N)
		case "*":
			out.Mul(l.N, r.N)
		}
		isInt := l.Int && r.Int
		if isInt {
			// integer overflow: int4 op int4 fails outside the int4 range
			if !out.IsInt() || out.Num().BitLen() > 31 {
				return Value{}, unsupportedf("integer arithmetic result outside the int4 range")
			}
		}
		return Value{K: KNum, N: out, Int: isInt}, nil
	}
	return Value{}, unsupportedf("operator %s", x.Op)
}

// coerceUnknown converts an untyped string literal to the static type to.
func coerceUnknown(v Value, to stype) (Value, error) {
	if !(v.K == KText && v.Unknown) {
		return v, nil
	}
	switch to.k {
	case KNull, KText:
		return Text(v.S), nil
	case KBool:
		b, ok := parseBool(v.S)
		if !ok {
			return Value{}, evalErrorf("invalid input syntax for type boolean: %q", v.S)
		}
		return Bool(b), nil
	case KNum:
		if to.numeric {
			r, err := parseNumeric(v.S)
			if err != nil {
				return Value{}, evalErrorf("invalid input syntax for type numeric: %q", v.S)
			}
			return Value{K: KNum, N: r}, nil
		}
		n, ok := parseIntText(v.S)
		if !ok {
			return Value{}, evalErrorf("invalid input syntax for type integer: %q", v.S)
		}
		return Value{K: KNum, N: new(big.Rat).SetInt(n), Int: true}, nil
	case KJSONB:
		return JSONBFromBytes([]byte(v.S))
	case KArray:
		if to.elem == "text" {
			elems, err := ParseArrayLiteral(v.S)
			if err != nil {
				return Value{}, err
			}
			out := make([]Value, len(elems))
			for i, e := range elems {
				if e.Null {
					out[i] = NullOf(KText)
				} else {
					out[i] = Text(e.Text)
				}
			}
			return Array("text", out), nil
		}
	}
	return Value{}, unsupportedf("string literal coerced to %s", to)
}

func cmpResult(op string, c int) bool {
	switch op {
	case "=":
		return c == 0
	case "<>":
		return c != 0
	case "<":
		return c < 0
	case "<=":
		return c <= 0
	case ">":
		return c > 0
	case ">=":
		return c >= 0
	}
	return false
}

// Compare applies a comparison operator ("=", "<>", "<", "<=", ">", ">=")
// with PostgreSQL's typing rules: untyped string literals adapt to the other
// operand, unlike types are an error ("operator does not exist"), NULL gives
// NULL.
func Compare(op string, a, b Value) (Value, error) {
	if op == "!=" {
		op = "<>"
	}
	ta, tb := stypeOfValue(a), stypeOfValue(b)
	if err := checkComparable(op, ta, tb); err != nil {
		return Value{}, err
	}
	var err error
	switch {
	case ta.unknown() && tb.unknown():
		if a, err = coerceUnknown(a, stype{k: KText}); err != nil {
			return Value{}, err
		}
		if b, err = coerceUnknown(b, stype{k: KText}); err != nil {
			return Value{}, err
		}
	case ta.unknown():
		if a, err = coerceUnknown(a, tb); err != nil {
			return Value{}, err
		}
	case tb.unknown():
		if b, err = coerceUnknown(b, ta); err != nil {
			return Value{}, err
		}
	}
	if a.IsNull() || b.IsNull() {
		return NullOf(KBool), nil
	}
	switch a.K {
	case KNum:
		return Bool(cmpResult(op, a.N.Cmp(b.N))), nil
	case KText:
		if op == "=" || op == "<>" {
			return Bool((a.S == b.S) == (op == "=")), nil
		}
	case KBool:
		ai, bi := 0, 0
		if a.B {
			ai = 1
		}
		if b.B {
			bi = 1
		}
		return Bool(cmpResult(op, ai-bi)), nil
	case KJSONB:
		if op == "=" || op == "<>" {
			return Bool(JSONEqual(a.J, b.J) == (op == "=")), nil
		}
	case KTime:
		return Bool(cmpResult(op, a.T.Compare(b.T))), nil
	case KBytes:
		return Bool(cmpResult(op, bytes.Compare(a.Bytes, b.Bytes))), nil
	case KArray:
		if op == "=" || op == "<>" {
			eq := len(a.Elems) == len(b.Elems)
			for i := 0; eq && i < len(a.Elems); i++ {
				x, y := a.Elems[i], b.Elems[i]
				if x.IsNull() || y.IsNull() {
					// array comparison treats NULL elements as comparable values
					eq = x.IsNull() && y.IsNull()
					continue
				}
				r, err := Compare("=", x, y)
				if err != nil {
					return Value{}, err
				}
				eq = r.B
			}
			return Bool(eq == (op == "=")), nil
		}
	}
	return Value{}, unsupportedf("operator %s on %s values", op, ta)
}

func jsonOperand(op string, l, r Value) (Value, error) {
	if l.K == KText && l.Unknown {
		if r.K == KText && r.Unknown {
			return Value{}, evalErrorf("operator is not unique: unknown %s unknown", op)
		}
		return JSONBFromBytes([]byte(l.S))
	}
	if l.staticKind() != KJSONB && !(l.K == KNull && l.NullKind == KNull) {
		return Value{}, evalErrorf("operator does not exist: %s %s %s", stypeOfValue(l), op, stypeOfValue(r))
	}
	return l, nil
}

func jsonResult(op string, found bool, t any) Value {
	text := op == "->>" || op == "#>>"
	if !found {
		if text {
			return NullOf(KText)
		}
		return NullOf(KJSONB)
	}
	if !text {
		return JSONB(t)
	}
	switch x := t.(type) {
	case nil:
		return NullOf(KText)
	case string:
		return Text(x)
	}
	return Text(JSONBText(t))
}

func jsonArrow(op string, l, r Value) (Value, error) {
	l, err := jsonOperand(op, l, r)
	if err != nil {
		return Value{}, err
	}
	rk := r.staticKind()
	switch {
	case rk == KText, rk == KNull:
	case rk == KNum && (r.IsNull() || r.Int):
	default:
		return Value{}, evalErrorf("operator does not exist: jsonb %s %s", op, stypeOfValue(r))
	}
	if l.IsNull() || r.IsNull() {
		return jsonResult(op, false, nil), nil
	}
	if r.K == KText {
		obj, ok := l.J.(map[string]any)
		if !ok {
			return jsonResult(op, false, nil), nil
		}
		m, ok := obj[r.S]
		return jsonResult(op, ok, m), nil
	}
	arr, ok := l.J.([]any)
	if !ok || !r.N.IsInt() || !r.N.Num().IsInt64() {
		return jsonResult(op, false, nil), nil
	}
	idx := r.N.Num().Int64()
	if idx < 0 {
		idx += int64(len(arr))
	}
	if idx < 0 || idx >= int64(len(arr)) {
		return jsonResult(op, false, nil), nil
	}
	return jsonResult(op, true, arr[idx]), nil
}

func jsonPath(op string, l, r Value) (Value, error) {
	l, err := jsonOperand(op, l, r)
	if err != nil {
		return Value{}, err
	}
	var path []Value
	switch {
	case r.K == KText && r.Unknown:
		arr, err := coerceUnknown(r, stype{k: KArray, elem: "text"})
		if err != nil {
			return Value{}, err
		}
		path = arr.Elems
	case r.K == KArray && (r.ElemType == "" || DecodeType(r.ElemType).Base == "text"):
		path = r.Elems
	case r.IsNull() && (r.NullKind == KNull || r.NullKind == KArray):
	default:
		return Value{}, evalErrorf("operator does not exist: jsonb %s %s", op, stypeOfValue(r))
	}
	if l.IsNull() || r.IsNull() {
		return jsonResult(op, false, nil), nil
	}
	cur := l.J
	for _, step := range path {
		if step.IsNull() {
			return jsonResult(op, false, nil), nil
		}
		switch node := cur.(type) {
		case map[string]any:
			m, ok := node[step.S]
			if !ok {
				return jsonResult(op, false, nil), nil
			}
			cur = m
		case []any:
			n, ok := parseIntText(step.S)
			if !ok || !n.IsInt64() || strings.TrimSpace(step.S) != step.S {
				return jsonResult(op, false, nil), nil
			}
			idx := n.Int64()
			if idx < 0 {
				idx += int64(len(node))
			}
			if idx < 0 || idx >= int64(len(node)) {
				return jsonResult(op, false, nil), nil
			}
			cur = node[idx]
		default:
			return jsonResult(op, false, nil), nil
		}
	}
	return jsonResult(op, true, cur), nil
}

var intRanges = map[string][2]int64{
	"smallint": {-32768, 32767},
	"integer":  {-2147483648, 2147483647},
	"bigint":   {-9223372036854775808, 9223372036854775807},
}

func ratToIntType(r *big.Rat, base string) (Value, error) {
	n := roundRat(r)
	rg := intRanges[base]
	if !n.IsInt64() || n.Int64() < rg[0] || n.Int64() > rg[1] {
		return Value{}, evalErrorf("%s out of range", base)
	}
	return Value{K: KNum, N: new(big.Rat).SetInt(n), Int: true}, nil
}

// castValue implements v::typ for the modelled targets.
func castValue(s *Script, v Value, typ string) (Value, error) {
	target, ti, err := classifyCastTarget(s, typ)
	if err != nil {
		return Value{}, err
	}
	resKind := map[castTarget]Kind{castInt: KNum, castNumeric: KNum, castBool: KBool, castText: KText, castJSONB: KJSONB}[target]
	from := stypeOfValue(v)
	cannot := func() (Value, error) {
		return Value{}, evalErrorf("cannot cast type %s to %s", from, ti.Base)
	}
	if v.K == KNull {
		if v.NullKind != KNull {
			cc := &checkCtx{s: s}
			if _, err := cc.checkCast(from, typ); err != nil {
				return Value{}, err
			}
		}
		return NullOf(resKind), nil
	}
	jsonKind := func() string { return JSONTypeof(v.J) }
	switch target {
	case castInt:
		switch v.K {
		case KNum:
			return ratToIntType(v.N, ti.Base)
		case KJSONB:
			r, ok := jsonNumberRat(v.J)
			if !ok {
				return Value{}, evalErrorf("cannot cast jsonb %s to type %s", jsonKind(), ti.Base)
			}
			return ratToIntType(r, ti.Base)
		case KText:
			n, ok := parseIntText(v.S)
			if !ok {
				return Value{}, evalErrorf("invalid input syntax for type %s: %q", ti.Base, v.S)
			}
			return ratToIntType(new(big.Rat).SetInt(n), ti.Base)
		case KBool:
			if ti.Base != "integer" {
				return cannot()
			}
			if v.B {
				return NumInt(1), nil
			}
			return NumInt(0), nil
		}
	case castNumeric:
		switch v.K {
		case KNum:
			return Value{K: KNum, N: v.N}, nil
		case KJSONB:
			r, ok := jsonNumberRat(v.J)
			if !ok {
				return Value{}, evalErrorf("cannot cast jsonb %s to type numeric", jsonKind())
			}
			return Value{K: KNum, N: r}, nil
		case KText:
			r, err := parseNumeric(v.S)
			if err != nil {
				return Value{}, evalErrorf("invalid input syntax for type numeric: %q", v.S)
			}
			return Value{K: KNum, N: r}, nil
		}
	case castBool:
		switch v.K {
		case KBool:
			return v, nil
		case KJSONB:
			b, ok := v.J.(bool)
			if !ok {
				return Value{}, evalErrorf("cannot cast jsonb %s to type boolean", jsonKind())
			}
			return Bool(b), nil
		case KText:
			b, ok := parseBool(v.S)
			if !ok {
				return Value{}, evalErrorf("invalid input syntax for type boolean: %q", v.S)
			}
			return Bool(b), nil
		case KNum:
			if v.Int {
				return Bool(v.N.Sign() != 0), nil
			}
		}
	case castText:
		switch v.K {
		case KText:
			return Text(v.S), nil
		case KNum:
			if !v.Int {
				return Value{}, unsupportedf("numeric::text (display scale is not tracked)")
			}
			return Text(ratText(v.N)), nil
		case KBool:
			if v.B {
				return Text("true"), nil
			}
			return Text("false"), nil
		case KJSONB:
			return Text(JSONBText(v.J)), nil
		default:
			return Value{}, unsupportedf("cast of %s to text", from)
		}
	case castJSONB:
		switch v.K {
		case KJSONB:
			return v, nil
		case KText:
			return JSONBFromBytes([]byte(v.S))
		}
	}
	return cannot()
}

func (c *evalCtx) evalSubquery(x *SubqueryExpr, env Env) (Value, error) {
	src, err := c.eval(x.SourceArg, env)
	if err != nil {
		return Value{}, err
	}
	if src.K == KText && src.Unknown {
		if src, err = JSONBFromBytes([]byte(src.S)); err != nil {
			return Value{}, err
		}
	}
	if src.IsNull() {
		return NullOf(KBool), nil // strict set-returning function: no rows
	}
	if src.K != KJSONB {
		return Value{}, evalErrorf("function %s(%s) does not exist", x.Source, stypeOfValue(src))
	}
	type row struct {
		key   string
		value any
	}
	var rows []row
	switch x.Source {
	case "jsonb_each":
		obj, ok := src.J.(map[string]any)
		if !ok {
			return Value{}, evalErrorf("cannot call jsonb_each on a non-object")
		}
		for k, v := range obj {
			rows = append(rows, row{k, v})
		}
	case "jsonb_array_elements":
		arr, ok := src.J.([]any)
		if !ok {
			if _, isObj := src.J.(map[string]any); isObj {
				return Value{}, evalErrorf("cannot extract elements from an object")
			}
			return Value{}, evalErrorf("cannot extract elements from a scalar")
		}
		for _, v := range arr {
			rows = append(rows, row{"", v})
		}
	default:
		return Value{}, unsupportedf("set-returning function %s", x.Source)
	}
	inner := make(Env, len(env)+2)
	for k, v := range env {
		inner[k] = v
	}
	sawFalse, sawTrue := false, false
	var firstErr error
	for _, r := range rows {
		inner["value"] = JSONB(r.value)
		if x.Source == "jsonb_each" {
			inner["key"] = Text(r.key)
		}
		v, err := c.eval(x.Arg, inner)
		if err != nil {
			// rows of an object come in no particular order: evaluate all of
			// them and report an error deterministically afterwards
			if firstErr == nil || err.Error() < firstErr.Error() {
				firstErr = err
			}
			continue
		}
		t, n, err := Truth(v)
		if err != nil {
			return Value{}, err
		}
		if n {
			continue
		}
		if t {
			sawTrue = true
		} else {
			sawFalse = true
		}
	}
	if firstErr != nil {
		return Value{}, firstErr
	}
	switch {
	case sawFalse:
		return Bool(false), nil
	case sawTrue:
		return Bool(true), nil
	}
	return NullOf(KBool), nil
}

func (c *evalCtx) evalCall(x *CallExpr, env Env) (Value, error) {
	if f := c.s.userFunc(x.Lower); f != nil {
		args := make([]Value, len(x.Args))
		for i, a := range x.Args {
			v, err := c.eval(a, env)
			if err != nil {
				return Value{}, err
			}
			args[i] = v
		}
		return c.callUser(f, args)
	}
	if x.Lower == "coalesce" {
		var types []stype
		var vals []Value
		// COALESCE stops at the first non-null argument
		for _, a := range x.Args {
			v, err := c.eval(a, env)
			if err != nil {
				return Value{}, err
			}
			vals = append(vals, v)
			types = append(types, stypeOfValue(v))
			if !v.IsNull() {
				break
			}
		}
		res := stype{k: KNull}
		for _, t := range types {
			if !t.unknown() {
				res = t
				break
			}
		}
		last := vals[len(vals)-1]
		if last.IsNull() {
			return NullOf(res.k), nil
		}
		if last.K == KText && last.Unknown {
			return coerceUnknown(last, res)
		}
		return last, nil
	}
	args := make([]Value, len(x.Args))
	for i, a := range x.Args {
		v, err := c.eval(a, env)
		if err != nil {
			return Value{}, err
		}
		args[i] = v
	}
	notExist := func() (Value, error) {
		ts := make([]stype, len(args))
		for i, a := range args {
			ts[i] = stypeOfValue(a)
		}
		return Value{}, evalErrorf("function %s does not exist", sigString(x.Lower, ts))
	}
	jsonArg := func(i int) (Value, error) {
		a := args[i]
		if a.K == KText && a.Unknown {
			return JSONBFromBytes([]byte(a.S))
		}
		if a.staticKind() != KJSONB && !(a.K == KNull && a.NullKind == KNull) {
			_, err := notExist()
			return Value{}, err
		}
		return a, nil
	}
	textArg := func(i int) (Value, error) {
		a := args[i]
		if a.staticKind() != KText && !(a.K == KNull && a.NullKind == KNull) {
			_, err := notExist()
			return Value{}, err
		}
		return a, nil
	}
	switch x.Lower {
	case "jsonb_typeof":
		if len(args) != 1 {
			return notExist()
		}
		a, err := jsonArg(0)
		if err != nil {
			return Value{}, err
		}
		if a.IsNull() {
			return NullOf(KText), nil
		}
		return Text(JSONTypeof(a.J)), nil
	case "jsonb_array_length":
		if len(args) != 1 {
			return notExist()
		}
		a, err := jsonArg(0)
		if err != nil {
			return Value{}, err
		}
		if a.IsNull() {
			return NullOf(KNum), nil
		}
		switch t := a.J.(type) {
		case []any:
			return NumInt(int64(len(t))), nil
		case map[string]any:
			return Value{}, evalErrorf("cannot get array length of a non-array")
		}
		return Value{}, evalErrorf("cannot get array length of a scalar")
	case "array_length":
		if len(args) != 2 {
			return notExist()
		}
		a, d := args[0], args[1]
		if a.K == KText && a.Unknown {
			return Value{}, evalErrorf("could not determine polymorphic type because input has type unknown")
		}
		if a.staticKind() != KArray && !(a.K == KNull && a.NullKind == KNull) {
			return notExist()
		}
		if d.K == KText && d.Unknown {
			var err error
			if d, err = coerceUnknown(d, stype{k: KNum}); err != nil {
				return Value{}, err
			}
		}
		if d.staticKind() != KNum && !(d.K == KNull && d.NullKind == KNull) {
			return notExist()
		}
		if d.K == KNum && !d.Int {
			return notExist()
		}
		if a.IsNull() || d.IsNull() {
			return NullOf(KNum), nil
		}
		if len(a.Elems) == 0 || d.N.Cmp(big.NewRat(1, 1)) != 0 {
			return NullOf(KNum), nil
		}
		return NumInt(int64(len(a.Elems))), nil
	case "length", "char_length":
		if len(args) != 1 {
			return notExist()
		}
		a, err := textArg(0)
		if err != nil {
			return Value{}, err
		}
		if a.IsNull() {
			return NullOf(KNum), nil
		}
		return NumInt(int64(utf8.RuneCountInString(a.S))), nil
	case "lower", "upper":
		if len(args) != 1 {
			return notExist()
		}
		a, err := textArg(0)
		if err != nil {
			return Value{}, err
		}
		if a.IsNull() {
			return NullOf(KText), nil
		}
		for i := 0; i < len(a.S); i++ {
			if a.S[i] >= 0x80 {
				return Value{}, unsupportedf("%s() of non-ASCII text (locale dependent)", x.Lower)
			}
		}
		if x.Lower == "lower" {
			return Text(strings.ToLower(a.S)), nil
		}
		return Text(strings.ToUpper(a.S)), nil
	}
	if pseudoBuiltins[x.Lower] {
		return Value{}, unsupportedf("%s outside the scalar subquery form", x.Lower)
	}
	if unmodelledBuiltins[x.Lower] {
		return Value{}, unsupportedf("builtin function %s is not modelled", x.Lower)
	}
	return notExist()
}

// ---------------------------------------------------------------------------
// PL/pgSQL interpreter

// coerceToType converts v for storage in a variable / parameter / result of
// the given declared type.
func (c *evalCtx) coerceToType(v Value, typ string, what string) (Value, error) {
	to, err := c.s.stypeOfTypeName(typ)
	if err != nil {
		return Value{}, err
	}
	if v.K == KNull {
		return NullOf(to.k), nil
	}
	if v.K == KText && v.Unknown {
		return coerceUnknown(v, to)
	}
	if v.K == to.k {
		switch to.k {
		case KNum:
			if !to.numeric {
				ti := DecodeType(typ)
				base := ti.Base
				if _, ok := intRanges[base]; !ok {
					base = "integer"
				}
				return ratToIntType(v.N, base)
			}
			return Value{K: KNum, N: v.N}, nil
		case KArray:
			if v.ElemType != "" && to.elem != "" && DecodeType(v.ElemType).Base != DecodeType(to.elem).Base {
				return Value{}, unsupportedf("%s: array element type conversion %s -> %s", what, v.ElemType, to.elem)
			}
		}
		return v, nil
	}
	return Value{}, unsupportedf("%s: implicit conversion from %s to %s", what, stypeOfValue(v), typ)
}

type frame struct {
	f     *Func
	vars  Env
	types map[string]stype
}

func (c *evalCtx) checkedEval(fr *frame, e Expr) (Value, error) {
	if cached, ok := fr.f.checked.Load(e); ok {
		if cached != nil {
			return Value{}, cached.(error)
		}
	} else {
		cc := &checkCtx{s: c.s, plpgsql: true}
		_, err := cc.check(e, fr.types)
		if err != nil {
			fr.f.checked.Store(e, err)
			return Value{}, err
		}
		fr.f.checked.Store(e, nil)
	}
	return c.eval(e, fr.vars)
}

func (c *evalCtx) callUser(f *Func, args []Value) (Value, error) {
	if f.Unsupported != nil {
		return Value{}, f.Unsupported
	}
	if c.depth >= MaxCallDepth {
		return Value{}, unsupportedf("more than %d nested function calls (in %s)", MaxCallDepth, f.Name)
	}
	if len(args) != len(f.Params) {
		return Value{}, evalErrorf("function %s called with %d arguments, expects %d", f.Name, len(args), len(f.Params))
	}
	if f.Strict {
		for _, a := range args {
			if a.IsNull() {
				rt, err := c.s.stypeOfTypeName(f.Returns)
				if err != nil {
					return Value{}, err
				}
				return NullOf(rt.k), nil
			}
		}
	}
	fr := &frame{f: f, vars: Env{}, types: map[string]stype{}}
	for i, prm := range f.Params {
		v, err := c.coerceToType(args[i], prm.Type, "argument of "+f.Name)
		if err != nil {
			return Value{}, err
		}
		pt, _ := c.s.stypeOfTypeName(prm.Type)
		pos := "$" + strconv.Itoa(i+1)
		fr.vars[pos], fr.types[pos] = v, pt
		if prm.Name != "" {
			fr.vars[prm.Name], fr.types[prm.Name] = v, pt
		}
	}
	c.depth++
	defer func() { c.depth-- }()
	for _, d := range f.Body.Decls {
		dt, err := c.s.stypeOfTypeName(d.Type)
		if err != nil {
			return Value{}, err
		}
		val := NullOf(dt.k)
		if d.Init != nil {
			// the variable itself is not visible in its own initialiser
			v, err := c.checkedEval(fr, d.Init)
			if err != nil {
				return Value{}, err
			}
			if val, err = c.coerceToType(v, d.Type, "variable "+d.Name); err != nil {
				return Value{}, err
			}
		}
		if d.NotNull && val.IsNull() {
			return Value{}, evalErrorf("null value cannot be assigned to variable %q declared NOT NULL", d.Name)
		}
		fr.vars[d.Name], fr.types[d.Name] = val, dt
	}
	ret, returned, err := c.execStmts(fr, f.Body.Stmts)
	if err != nil {
		return Value{}, err
	}
	if !returned {
		return Value{}, evalErrorf("control reached end of function without RETURN")
	}
	return c.coerceToType(ret, f.Returns, "result of "+f.Name)
}

func (c *evalCtx) evalCond(fr *frame, e Expr) (bool, error) {
	v, err := c.checkedEval(fr, e)
	if err != nil {
		return false, err
	}
	t, _, err := Truth(v)
	if err != nil {
		return false, unsupportedf("non-boolean condition in %s: %v", fr.f.Name, err)
	}
	return t, nil
}

func (c *evalCtx) execStmts(fr *frame, list []Stmt) (Value, bool, error) {
	for _, st := range list {
		switch x := st.(type) {
		case *NullStmt:
		case *RaiseStmt:
			if x.Level == "exception" {
				return Value{}, false, evalErrorf("exception raised by %s: %s", fr.f.Name, firstLine(x.Raw))
			}
		case *ReturnStmt:
			v, err := c.checkedEval(fr, x.E)
			if err != nil {
				return Value{}, false, err
			}
			return v, true, nil
		case *AssignStmt:
			v, err := c.checkedEval(fr, x.E)
			if err != nil {
				return Value{}, false, err
			}
			typ := ""
			for _, d := range fr.f.Body.Decls {
				if d.Name == x.Name {
					typ = d.Type
					if d.Constant {
						return Value{}, false, evalErrorf("variable %q is declared CONSTANT", d.Name)
					}
					if d.NotNull && v.IsNull() {
						return Value{}, false, evalErrorf("null value cannot be assigned to variable %q declared NOT NULL", d.Name)
					}
				}
			}
			if typ == "" {
				for _, prm := range fr.f.Params {
					if prm.Name == x.Name {
						typ = prm.Type
					}
				}
			}
			if typ == "" {
				return Value{}, false, evalErrorf("%q is not a known variable", x.Name)
			}
			cv, err := c.coerceToType(v, typ, "assignment to "+x.Name)
			if err != nil {
				return Value{}, false, err
			}
			fr.vars[x.Name] = cv
		case *IfStmt:
			taken := false
			for _, br := range x.Branches {
				ok, err := c.evalCond(fr, br.Cond)
				if err != nil {
					return Value{}, false, err
				}
				if ok {
					taken = true
					v, ret, err := c.execStmts(fr, br.Body)
					if err != nil || ret {
						return v, ret, err
					}
					break
				}
			}
			if !taken && x.HasElse {
				v, ret, err := c.execStmts(fr, x.Else)
				if err != nil || ret {
					return v, ret, err
				}
			}
		case *CaseStmt:
			taken := false
			for _, br := range x.Whens {
				ok, err := c.evalCond(fr, br.Cond)
				if err != nil {
					return Value{}, false, err
				}
				if ok {
					taken = true
					v, ret, err := c.execStmts(fr, br.Body)
					if err != nil || ret {
						return v, ret, err
					}
					break
				}
			}
			if !taken {
				if !x.HasElse {
					return Value{}, false, evalErrorf("case not found")
				}
				v, ret, err := c.execStmts(fr, x.Else)
				if err != nil || ret {
					return v, ret, err
				}
			}
		default:
			return Value{}, false, unsupportedf("statement %T", st)
		}
	}
	return Value{}, false, nil
}

// JSONBValueFromGo builds a jsonb Value from any Go value by marshalling it
// with encoding/json (convenience for oracles).
func JSONBValueFromGo(v any) (Value, error) {
	b, err := json.Marshal(v)
	if err != nil {
		return Value{}, err
	}
	return JSONBFromBytes(b)
}
