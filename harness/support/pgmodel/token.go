// Package pgmodel is a small, deliberately strict model of the PostgreSQL
// subset emitted by gomacro's SQL generator: a tokenizer, a parser for the
// DDL script (CREATE TABLE / TYPE / FUNCTION, ALTER TABLE), a parser for SQL
// expressions and the PL/pgSQL subset used by the JSON validators, and an
// evaluator implementing SQL three-valued logic and the jsonb operators.
//
// Two error types separate "PostgreSQL would fail here" (*EvalError,
// *ParseError) from "this model does not cover that construct"
// (*UnsupportedError); the latter must never be read as a verdict.
package pgmodel

import (
	"fmt"
	"strconv"
	"strings"
)

// TokenKind classifies a Token.
type TokenKind int

const (
	TIdent      TokenKind = iota // identifier or keyword; Quoted for "x"
	TNumber                      // numeric literal
	TString                      // 'single quoted', Text holds the unescaped content
	TPunct                       // operator or punctuation
	TParam                       // $1 (Text is "$1")
	TDollarBody                  // $$ ... $$ or $tag$ ... $tag$, Text holds the content
)

func (k TokenKind) String() string {
	switch k {
	case TIdent:
		return "Ident"
	case TNumber:
		return "Number"
	case TString:
		return "String"
	case TPunct:
		return "Punct"
	case TParam:
		return "Param"
	case TDollarBody:
		return "DollarBody"
	}
	return "TokenKind(" + strconv.Itoa(int(k)) + ")"
}

// Token is one lexical element. Pos and End are byte offsets in the source
// (End is exclusive and covers quotes / dollar tags).
type Token struct {
	Kind   TokenKind
	Text   string // idents keep their original spelling; strings are unescaped
	Lower  string // idents: ASCII-lower-cased unless Quoted; otherwise == Text
	Quoted bool   // "double quoted" identifier: not case folded
	Pos    int
	End    int
	// BodyPos is the offset of the first content byte of a TDollarBody.
	BodyPos int
}

// ParamIndex returns n for a TParam token "$n" (0 otherwise).
func (t Token) ParamIndex() int {
	if t.Kind != TParam {
		return 0
	}
	n, _ := strconv.Atoi(t.Text[1:])
	return n
}

// Is reports whether the token is the unquoted keyword kw (lower case).
func (t Token) Is(kw string) bool {
	return t.Kind == TIdent && !t.Quoted && t.Lower == kw
}

// IsPunct reports whether the token is the punctuation p.
func (t Token) IsPunct(p string) bool { return t.Kind == TPunct && t.Text == p }

// ParseError is a syntax error: PostgreSQL would reject the text.
type ParseError struct {
	Msg string
	Pos int
}

func (e *ParseError) Error() string {
	return fmt.Sprintf("pgmodel: syntax error at offset %d: %s", e.Pos, e.Msg)
}

// UnsupportedError flags a construct outside the modelled subset.
type UnsupportedError struct{ Msg string }

func (e *UnsupportedError) Error() string { return "pgmodel: unsupported: " + e.Msg }

// EvalError is an error PostgreSQL would raise when planning or running an
// expression / function (type mismatch, bad cast, case not found...).
type EvalError struct{ Msg string }

func (e *EvalError) Error() string { return "pgmodel: ERROR: " + e.Msg }

func unsupportedf(format string, args ...any) error {
	return &UnsupportedError{Msg: fmt.Sprintf(format, args...)}
}

func evalErrorf(format string, args ...any) error {
	return &EvalError{Msg: fmt.Sprintf(format, args...)}
}

func parseErrorf(pos int, format string, args ...any) error {
	return &ParseError{Msg: fmt.Sprintf(format, args...), Pos: pos}
}

// FoldIdent lower-cases the ASCII letters of s: this is what PostgreSQL does
// to unquoted identifiers in a UTF-8 database (non ASCII letters are kept).
func FoldIdent(s string) string {
	for i := 0; i < len(s); i++ {
		if c := s[i]; c >= 'A' && c <= 'Z' {
			b := []byte(s)
			for j := i; j < len(b); j++ {
				if b[j] >= 'A' && b[j] <= 'Z' {
					b[j] += 'a' - 'A'
				}
			}
			return string(b)
		}
	}
	return s
}

var multiPunct = []string{"->>", "#>>", "->", "#>", "::", "!=", "<>", "<=", ">=", "||", ":="}

func isIdentStart(c byte) bool {
	return c == '_' || (c >= 'a' && c <= 'z') || (c >= 'A' && c <= 'Z') || c >= 0x80
}

func isIdentPart(c byte) bool { return isIdentStart(c) || (c >= '0' && c <= '9') || c == '$' }

func isDigit(c byte) bool { return c >= '0' && c <= '9' }

// Tokenize splits src into tokens, skipping white space, "-- ..." comments
// and (nested) "/* ... */" comments.
func Tokenize(src string) ([]Token, error) {
	var out []Token
	i, n := 0, len(src)
	for i < n {
		c := src[i]
		switch {
		case c == ' ' || c == '\t' || c == '\n' || c == '\r' || c == '\f' || c == '\v':
			i++
		case c == '-' && i+1 < n && src[i+1] == '-':
			for i < n && src[i] != '\n' {
				i++
			}
		case c == '/' && i+1 < n && src[i+1] == '*':
			start, depth := i, 1
			i += 2
			for i < n && depth > 0 {
				switch {
				case src[i] == '/' && i+1 < n && src[i+1] == '*':
					depth++
					i += 2
				case src[i] == '*' && i+1 < n && src[i+1] == '/':
					depth--
					i += 2
				default:
					i++
				}
			}
			if depth > 0 {
				return nil, parseErrorf(start, "unterminated /* comment")
			}
		case c == '\'':
			start := i
			i++
			var sb strings.Builder
			closed := false
			for i < n {
				if src[i] == '\'' {
					if i+1 < n && src[i+1] == '\'' {
						sb.WriteByte('\'')
						i += 2
						continue
					}
					i++
					closed = true
					break
				}
				sb.WriteByte(src[i])
				i++
			}
			if !closed {
				return nil, parseErrorf(start, "unterminated quoted string")
			}
			s := sb.String()
			out = append(out, Token{Kind: TString, Text: s, Lower: s, Pos: start, End: i})
		case c == '"':
			start := i
			i++
			var sb strings.Builder
			closed := false
			for i < n {
				if src[i] == '"' {
					if i+1 < n && src[i+1] == '"' {
						sb.WriteByte('"')
						i += 2
						continue
					}
					i++
					closed = true
					break
				}
				sb.WriteByte(src[i])
				i++
			}
			if !closed {
				return nil, parseErrorf(start, "unterminated quoted identifier")
			}
			s := sb.String()
			if s == "" {
				return nil, parseErrorf(start, "zero-length delimited identifier")
			}
			out = append(out, Token{Kind: TIdent, Text: s, Lower: s, Quoted: true, Pos: start, End: i})
		case c == '$':
			start := i
			if i+1 < n && isDigit(src[i+1]) {
				j := i + 1
				for j < n && isDigit(src[j]) {
					j++
				}
				if j < n && isIdentStart(src[j]) {
					return nil, parseErrorf(start, "trailing junk after parameter")
				}
				out = append(out, Token{Kind: TParam, Text: src[i:j], Lower: src[i:j], Pos: start, End: j})
				i = j
				continue
			}
			// dollar quoting: $tag$ ... $tag$
			j := i + 1
			for j < n && isIdentPart(src[j]) && src[j] != '$' {
				j++
			}
			if j >= n || src[j] != '$' || (j > i+1 && isDigit(src[i+1])) {
				return nil, parseErrorf(start, "unexpected character '$'")
			}
			tag := src[i : j+1]
			bodyStart := j + 1
			k := strings.Index(src[bodyStart:], tag)
			if k < 0 {
				return nil, parseErrorf(start, "unterminated dollar-quoted string")
			}
			body := src[bodyStart : bodyStart+k]
			i = bodyStart + k + len(tag)
			out = append(out, Token{Kind: TDollarBody, Text: body, Lower: body, Pos: start, End: i, BodyPos: bodyStart})
		case isDigit(c) || (c == '.' && i+1 < n && isDigit(src[i+1])):
			start := i
			for i < n && isDigit(src[i]) {
				i++
			}
			if i < n && src[i] == '.' && !(i+1 < n && src[i+1] == '.') {
				i++
				for i < n && isDigit(src[i]) {
					i++
				}
			}
			if i < n && (src[i] == 'e' || src[i] == 'E') {
				j := i + 1
				if j < n && (src[j] == '+' || src[j] == '-') {
					j++
				}
				if j < n && isDigit(src[j]) {
					for j < n && isDigit(src[j]) {
						j++
					}
					i = j
				}
			}
			if i < n && isIdentStart(src[i]) {
				return nil, parseErrorf(start, "trailing junk after numeric literal")
			}
			out = append(out, Token{Kind: TNumber, Text: src[start:i], Lower: src[start:i], Pos: start, End: i})
		case isIdentStart(c):
			start := i
			for i < n && isIdentPart(src[i]) {
				i++
			}
			word := src[start:i]
			if i < n && src[i] == '\'' && len(word) == 1 && strings.ContainsAny(word, "eEbBxXnN") {
				return nil, unsupportedf("string literal with prefix %q at offset %d", word, start)
			}
			if i < n && src[i] == '&' && (word == "U" || word == "u") {
				return nil, unsupportedf("unicode escape literal at offset %d", start)
			}
			out = append(out, Token{Kind: TIdent, Text: word, Lower: FoldIdent(word), Pos: start, End: i})
		default:
			matched := false
			for _, p := range multiPunct {
				if strings.HasPrefix(src[i:], p) {
					out = append(out, Token{Kind: TPunct, Text: p, Lower: p, Pos: i, End: i + len(p)})
					i += len(p)
					matched = true
					break
				}
			}
			if matched {
				continue
			}
			if strings.IndexByte("()[],;.=<>+-*/%:@?&|~^#!", c) >= 0 {
				out = append(out, Token{Kind: TPunct, Text: string(c), Lower: string(c), Pos: i, End: i + 1})
				i++
				continue
			}
			return nil, parseErrorf(i, "unexpected character %q", string(c))
		}
	}
	return out, nil
}
