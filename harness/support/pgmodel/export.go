package pgmodel

import "math/big"

// ParseBool implements PostgreSQL's boolean input syntax (unique prefixes of
// true/false/yes/no, on/off, 1/0; case-insensitive; surrounding white space
// ignored).
func ParseBool(s string) (value, ok bool) { return parseBool(s) }

// ParseInteger implements the integer input syntax (optional white space and
// sign, decimal digits only). Range checks are left to the caller.
func ParseInteger(s string) (*big.Int, bool) { return parseIntText(s) }

// ParseNumeric implements the numeric input syntax (no NaN / Infinity).
func ParseNumeric(s string) (*big.Rat, error) { return parseNumeric(s) }

// ParseExprPrefix parses one expression at the start of toks (tokens of src)
// and returns it with the number of tokens consumed. The expression ends at
// the first token that cannot continue it (",", ")", ";", RETURNING...).
func ParseExprPrefix(toks []Token, src string) (Expr, int, error) {
	p := &parser{toks: toks, src: src}
	e, err := p.parseExpr()
	if err != nil {
		return nil, p.i, err
	}
	return e, p.i, nil
}
