package pgmodel

import (
	"encoding/json"
	"math/big"
	"reflect"
	"testing"
)

func TestNumericText(t *testing.T) {
	cases := map[string]string{
		"1": "1", "-1": "-1", "1.50": "1.50", "1e2": "100", "1E+2": "100", "1.5e-3": "0.0015", "1.50e1": "15.0", "12.345e2": "1234.5",
		"0.0": "0.0", "-0": "0", "-0.0": "0.0", "100": "100", "1e0": "1", "0.5": "0.5", "5e-1": "0.5", "123456789012345678901234567890": "123456789012345678901234567890",
		"1.234e1": "12.34", "001": "1", "+3": "3",
	}
	for in, want := range cases {
		got, err := numericText(in)
		if err != nil || got != want {
			t.Errorf("numericText(%q) = %q, %v; want %q", in, got, err, want)
		}
	}
	for _, bad := range []string{"", "abc", "1e", "1.2.3", "e5", "--1", "1e1.5", "NaN", "0x10"} {
		if _, err := numericText(bad); err == nil {
			t.Errorf("numericText(%q) should fail", bad)
		}
	}
}

func TestRoundRat(t *testing.T) {
	cases := []struct {
		num, den int64
		want     int64
	}{{5, 2, 3}, {-5, 2, -3}, {7, 2, 4}, {9, 4, 2}, {-9, 4, -2}, {1, 2, 1}, {-1, 2, -1}, {1, 3, 0}, {2, 3, 1}, {-2, 3, -1}, {4, 1, 4}, {0, 1, 0}, {49999, 10000, 5}, {24999, 10000, 2}}
	for _, c := range cases {
		if got := roundRat(big.NewRat(c.num, c.den)); got.Int64() != c.want {
			t.Errorf("round(%d/%d) = %v want %d", c.num, c.den, got, c.want)
		}
	}
}

func TestParseBool(t *testing.T) {
	trues := []string{"t", "T", "true", "TRUE", "tr", "y", "yes", "YeS", "on", "1", " true "}
	falses := []string{"f", "false", "FALSE", "fa", "n", "no", "off", "of", "0", "\tf\n"}
	bads := []string{"", "o", "2", "truee", "yess", "nope", "tru e", "10"}
	for _, s := range trues {
		if b, ok := parseBool(s); !ok || !b {
			t.Errorf("%q should be true", s)
		}
	}
	for _, s := range falses {
		if b, ok := parseBool(s); !ok || b {
			t.Errorf("%q should be false", s)
		}
	}
	for _, s := range bads {
		if _, ok := parseBool(s); ok {
			t.Errorf("%q should be invalid", s)
		}
	}
}

func TestJSONBFromBytes(t *testing.T) {
	good := map[string]string{
		`1`: "1", ` {"b":1,"a":[true,null,"x"]} `: `{"a": [true, null, "x"], "b": 1}`, `"é"`: `"é"`, `{"a":1,"a":2}`: `{"a": 2}`,
		`{"bb":1,"a":2,"c":3}`: `{"a": 2, "c": 3, "bb": 1}`, `1.0`: "1.0", `1e3`: "1000", `"😀"`: `"😀"`, `"a\nb\u0001"`: `"a\nb\u0001"`, `[]`: "[]", `{}`: "{}",
		`"\\u0000"`: `"\\u0000"`,
	}
	for in, want := range good {
		v, err := JSONBFromBytes([]byte(in))
		if err != nil {
			t.Errorf("%s: %v", in, err)
			continue
		}
		if got := JSONBText(v.J); got != want {
			t.Errorf("%s: got %s want %s", in, got, want)
		}
	}
	for _, bad := range []string{``, `{`, `1 2`, `[1] x`, `[1]]`, `'a'`, `{"a"}`, `"\u0000"`, `{"\u0000": 1}`, `"\ud800"`, `"\ude00"`, `"\ud800A"`, "\"\xff\"", `01`, `nul`, `1e999999`, `NaN`} {
		if _, err := JSONBFromBytes([]byte(bad)); classify(err) != "eval" {
			t.Errorf("%q: want EvalError, got %v", bad, err)
		}
	}
}

func TestJSONEqualAndTypeof(t *testing.T) {
	eq := [][2]string{{`1`, `1.0`}, {`100`, `1e2`}, {`{"a":1,"b":[1,2]}`, `{"b":[1.0,2],"a":1}`}, {`null`, `null`}, {`"a"`, `"a"`}, {`[]`, `[]`}}
	ne := [][2]string{{`1`, `"1"`}, {`1`, `2`}, {`[1,2]`, `[2,1]`}, {`{"a":1}`, `{"a":1,"b":2}`}, {`null`, `false`}, {`[]`, `{}`}, {`true`, `false`}, {`{"a":1}`, `{"b":1}`}}
	for _, p := range eq {
		if !JSONEqual(mustJSON(t, p[0]).J, mustJSON(t, p[1]).J) {
			t.Errorf("%s should equal %s", p[0], p[1])
		}
	}
	for _, p := range ne {
		if JSONEqual(mustJSON(t, p[0]).J, mustJSON(t, p[1]).J) || JSONEqual(mustJSON(t, p[1]).J, mustJSON(t, p[0]).J) {
			t.Errorf("%s should differ from %s", p[0], p[1])
		}
	}
	if JSONTypeof(json.Number("1")) != "number" || JSONTypeof(1.5) != "number" || JSONTypeof(nil) != "null" || JSONTypeof(map[string]any{}) != "object" {
		t.Error("JSONTypeof")
	}
	v, err := JSONBValueFromGo(map[string]any{"a": []int{1, 2}, "b": nil})
	if err != nil || JSONBText(v.J) != `{"a": [1, 2], "b": null}` {
		t.Errorf("JSONBValueFromGo: %v %v", v, err)
	}
	n, err := normalizeJSONTree(map[string]any{"a": 1.5, "b": []any{2, int64(3)}})
	if err != nil || JSONBText(n) != `{"a": 1.5, "b": [2, 3]}` {
		t.Errorf("normalizeJSONTree: %v %v", n, err)
	}
}

func TestParseArrayLiteral(t *testing.T) {
	type E = LiteralElem
	good := []struct {
		in   string
		want []E
	}{
		{`{}`, []E{}}, {` { } `, []E{}}, {`{1,2,3}`, []E{{Text: "1"}, {Text: "2"}, {Text: "3"}}}, {`{ 1 , 2 }`, []E{{Text: "1"}, {Text: "2"}}},
		{`{t,f}`, []E{{Text: "t"}, {Text: "f"}}}, {`{NULL,null,"NULL"}`, []E{{Null: true}, {Null: true}, {Text: "NULL", Quoted: true}}},
		{`{"a b","c\"d","e\\f",""}`, []E{{Text: "a b", Quoted: true}, {Text: `c"d`, Quoted: true}, {Text: `e\f`, Quoted: true}, {Text: "", Quoted: true}}},
		{`{a b, c}`, []E{{Text: "a b"}, {Text: "c"}}}, {`{a\,b}`, []E{{Text: "a,b"}}}, {`{"{",","}`, []E{{Text: "{", Quoted: true}, {Text: ",", Quoted: true}}},
		{`{-1,1.5e3}`, []E{{Text: "-1"}, {Text: "1.5e3"}}}, {`{é}`, []E{{Text: "é"}}},
	}
	for _, c := range good {
		got, err := ParseArrayLiteral(c.in)
		if err != nil || !reflect.DeepEqual(got, c.want) {
			t.Errorf("%s: got %+v, %v want %+v", c.in, got, err, c.want)
		}
	}
	for _, bad := range []string{``, `1,2`, `{1,2`, `{1,2}}`, `{1,,2}`, `{,1}`, `{1,}`, `{"a}`, `{1}x`, `{a"b"}`, `{"a"b}`, `(1,2)`, `{1\`} {
		if _, err := ParseArrayLiteral(bad); classify(err) != "eval" {
			t.Errorf("%q: want EvalError, got %v", bad, err)
		}
	}
	for _, uns := range []string{`{{1,2},{3,4}}`, `[1:2]={1,2}`, `{{}}`} {
		if _, err := ParseArrayLiteral(uns); classify(err) != "unsupported" {
			t.Errorf("%q: want UnsupportedError, got %v", uns, err)
		}
	}
	for in, want := range map[string]string{`a`: `"a"`, `a"b`: `"a\"b"`, `a\b`: `"a\\b"`, ``: `""`} {
		if got := QuoteArrayElem(in); got != want {
			t.Errorf("QuoteArrayElem(%q) = %s", in, got)
		}
		back, err := ParseArrayLiteral("{" + QuoteArrayElem(in) + "}")
		if err != nil || back[0].Text != in {
			t.Errorf("round trip of %q: %+v %v", in, back, err)
		}
	}
}

func TestParseCompositeLiteral(t *testing.T) {
	type E = LiteralElem
	good := []struct {
		in   string
		want []E
	}{
		{`(1,2,3)`, []E{{Text: "1"}, {Text: "2"}, {Text: "3"}}}, {`(1, 2)`, []E{{Text: "1"}, {Text: " 2"}}}, {`(,)`, []E{{Null: true}, {Null: true}}}, {`()`, []E{{Null: true}}},
		{`("a,b","c""d",x\,y)`, []E{{Text: "a,b", Quoted: true}, {Text: `c"d`, Quoted: true}, {Text: "x,y"}}}, {`("")`, []E{{Text: "", Quoted: true}}}, {` (1) `, []E{{Text: "1"}}},
	}
	for _, c := range good {
		got, err := ParseCompositeLiteral(c.in)
		if err != nil || !reflect.DeepEqual(got, c.want) {
			t.Errorf("%s: got %+v, %v want %+v", c.in, got, err, c.want)
		}
	}
	for _, bad := range []string{``, `1,2`, `(1,2`, `(1,2)x`, `("a)`, `{1,2}`, `(1\`} {
		if _, err := ParseCompositeLiteral(bad); classify(err) != "eval" {
			t.Errorf("%q: want EvalError, got %v", bad, err)
		}
	}
}

func TestValueConstructorsAndString(t *testing.T) {
	n, err := NumFromString("12")
	if err != nil || !n.Int || n.String() != "12" {
		t.Errorf("int: %+v %v", n, err)
	}
	n, err = NumFromString("1.25")
	if err != nil || n.Int || n.String() != "1.25" {
		t.Errorf("numeric: %+v %v", n, err)
	}
	if _, err = NumFromString("x"); err == nil {
		t.Error("NumFromString(x)")
	}
	if Null().String() != "NULL" || !NullOf(KText).IsNull() || Bool(true).String() != "true" || Text("a'b").String() != "'a''b'" {
		t.Error("String")
	}
	if Array("integer", nil).Elems == nil || Composite("Comp", []Value{NumInt(1)}).TypeName != "comp" {
		t.Error("constructors")
	}
	if Array("integer", []Value{NumInt(1), Null()}).String() != "ARRAY[1,NULL]::integer[]" || Composite("c", []Value{NumInt(1)}).String() != "ROW(1)::c" || Bytes([]byte{1, 255}).String() != `\x01ff` {
		t.Error("String of containers")
	}
	if ratText(big.NewRat(1, 3)) == "" || ratText(big.NewRat(1, 8)) != "0.125" {
		t.Error("ratText")
	}
	for k := KNull; k <= KBytes; k++ {
		if k.String() == "" {
			t.Error("Kind.String")
		}
	}
}
