package pgmodel

import (
	"errors"
	"reflect"
	"testing"
)

func TestParseExprShape(t *testing.T) {
	cases := []struct{ src, want string }{
		{"1", "1"},
		{"'a''b'", "'a''b'"},
		{"TRUE", "TRUE"},
		{"null", "NULL"},
		{"$2", "$2"},
		{"Foo", "Foo"},
		{`"Foo"`, `"Foo"`},
		{"a = 1 AND b = 2 OR c = 3", "(((a = 1) AND (b = 2)) OR (c = 3))"},
		{"a = 1 OR b = 2 AND c = 3", "((a = 1) OR ((b = 2) AND (c = 3)))"},
		{"NOT a = 1 AND b", "((NOT (a = 1)) AND b)"},
		{"NOT NOT a", "(NOT (NOT a))"},
		{"a != b", "(a <> b)"},
		{"data->>'Kind' = 'x'", "((data ->> 'Kind') = 'x')"},
		{"data->'a'->'b'->>'c'", "(((data -> 'a') -> 'b') ->> 'c')"},
		{"data#>>'{}' IN ('a', 'b')", "((data #>> '{}') IN ('a', 'b'))"},
		{"data::int IN (0, 1, 2)", "((data)::int IN (0, 1, 2))"},
		{"jsonb_typeof(data) = 'number' AND data::int IN (0, 1)", "((jsonb_typeof(data) = 'number') AND ((data)::int IN (0, 1)))"},
		{"jsonb_typeof(data->'Kind') != 'string'", "(jsonb_typeof((data -> 'Kind')) <> 'string')"},
		{"a IS NULL", "(a IS NULL)"},
		{"a IS NOT NULL", "(a IS NOT NULL)"},
		{"a ISNULL", "(a IS NULL)"},
		{"a NOTNULL", "(a IS NOT NULL)"},
		{"a = b IS NULL", "((a = b) IS NULL)"},
		{"a -> 'x' IS NULL", "((a -> 'x') IS NULL)"},
		{"x NOT IN (1,2)", "(x NOT IN (1, 2))"},
		{"a = b IN (c)", "(a = (b IN (c)))"},
		{"NOT x IN (1)", "(NOT (x IN (1)))"},
		{"-1", "(-1)"},
		{"- 1::int", "(-(1)::int)"},
		{"1 + 2 * 3", "(1 + (2 * 3))"},
		{"(1 + 2) * 3", "((1 + 2) * 3)"},
		{"a -> 'b' || 'c'", "((a -> 'b') || 'c')"},
		{"a + 1 -> 2", "((a + 1) -> 2)"},
		{"a -> 1 + 2", "(a -> (1 + 2))"},
		{"a -> 'x' = b -> 'y'", "((a -> 'x') = (b -> 'y'))"},
		{"x::timestamp (0) with time zone", "(x)::timestamp (0) with time zone"},
		{"x::double precision", "(x)::double precision"},
		{"x::text[]", "(x)::text[]"},
		{"x::int::text", "((x)::int)::text"},
		{"CAST(x AS integer)", "(x)::integer"},
		{"id = ANY($1)", "(id = ANY ($1))"},
		{"id = SOME ($1)", "(id = ANY ($1))"},
		{"f()", "f()"},
		{"f(a, 1, 'x')", "f(a, 1, 'x')"},
		{"array_length(F, 1) = 5", "(array_length(F, 1) = 5)"},
		{"(SELECT bool_and( f(value) )  FROM jsonb_array_elements(data)) AND jsonb_array_length(data) = 5",
			"((SELECT bool_and(f(value)) FROM jsonb_array_elements(data)) AND (jsonb_array_length(data) = 5))"},
		{"(SELECT bool_and(key IN ('A', 'B')) FROM jsonb_each(data))", "(SELECT bool_and((key IN ('A', 'B'))) FROM jsonb_each(data))"},
		{"((a))", "a"},
		{"V = 0 /* LocalEnum.A */ OR V = 1", "((V = 0) OR (V = 1))"},
		{"((x IS NULL AND $2 IS NULL) OR x = $2)", "(((x IS NULL) AND ($2 IS NULL)) OR (x = $2))"},
	}
	for _, c := range cases {
		t.Run(c.src, func(t *testing.T) {
			e, err := ParseExpr(c.src)
			if err != nil {
				t.Fatalf("unexpected error: %v", err)
			}
			if got := e.String(); got != c.want {
				t.Fatalf("got  %s\nwant %s", got, c.want)
			}
			// the rendering must parse back to the same tree
			e2, err := ParseExpr(e.String())
			if err != nil {
				t.Fatalf("rendering does not parse: %v", err)
			}
			if !reflect.DeepEqual(e, e2) {
				t.Fatalf("round trip differs: %s vs %s", e, e2)
			}
		})
	}
}

func TestParseExprErrors(t *testing.T) {
	cases := []struct {
		src         string
		unsupported bool
	}{
		{"", false},
		{"a =", false},
		{"a = b = c", false},
		{"a < b < c", false},
		{"(a", false},
		{"a)", false},
		{"a b", false},
		{"f(a,", false},
		{"f(a b)", false},
		{"order", false},
		{"a = order", false},
		{"then", false},
		{"left", false},
		{"a IS", false},
		{"a IS 1", false},
		{"a IN 1", false},
		{"a IN ()", false},
		{"$0", false},
		{"a::", false},
		{"a::123", false},
		{"1 +", false},
		{"(SELECT bool_and(x) jsonb_each(d))", true},
		{"a IS TRUE", true},
		{"a IS DISTINCT FROM b", true},
		{"a BETWEEN 1 AND 2", true},
		{"a LIKE 'x'", true},
		{"a NOT LIKE 'x'", true},
		{"a[1]", true},
		{"a.b", true},
		{"(a, b)", true},
		{"ARRAY[1,2]", true},
		{"ROW(1,2)", true},
		{"CASE WHEN a THEN 1 END", true},
		{"EXISTS (SELECT 1)", true},
		{"a IN (SELECT 1)", true},
		{"a = ANY (SELECT 1)", true},
		{"a = ALL (b)", true},
		{"a @> b", true},
		{"a ? 'b'", true},
		{"@ 1", true},
		{"a = @1", true},
		{"a = * 1", false},
		{"count(*)", true},
		{"count(DISTINCT a)", true},
		{"date '2020-01-01'", true},
		{"(SELECT count(x) FROM jsonb_each(d))", true},
		{"(SELECT bool_or(x) FROM jsonb_each(d))", true},
		{"(SELECT bool_and(x) FROM unnest(d))", true},
		{"(SELECT bool_and(x) FROM jsonb_each(d) WHERE y)", true},
		{"(SELECT bool_and(x), 1 FROM jsonb_each(d))", true},
		{"(SELECT 1)", true},
		{"current_timestamp", true},
		{"'a' 'b'", true},
		{"x::int ARRAY", true},
	}
	for _, c := range cases {
		t.Run(c.src, func(t *testing.T) {
			e, err := ParseExpr(c.src)
			if err == nil {
				t.Fatalf("expected an error, got %s", e)
			}
			var u *UnsupportedError
			var p *ParseError
			if c.unsupported && !errors.As(err, &u) {
				t.Fatalf("want UnsupportedError, got %T: %v", err, err)
			}
			if !c.unsupported && !errors.As(err, &p) {
				t.Fatalf("want ParseError, got %T: %v", err, err)
			}
		})
	}
}

func TestCalledFuncs(t *testing.T) {
	e, err := ParseExpr("jsonb_typeof(data) = 'object' AND Foo(data->'a') AND (SELECT bool_and(bar(value) AND foo(value)) FROM jsonb_each(baz(data))) AND coalesce(now(), x)")
	if err != nil {
		t.Fatal(err)
	}
	got := CalledFuncs(e)
	want := []string{"foo", "bar", "baz"}
	if !reflect.DeepEqual(got, want) {
		t.Fatalf("got %v want %v", got, want)
	}
	if !IsBuiltin("JSONB_TYPEOF") || !IsBuiltin("bool_and") || !IsBuiltin("now") || IsBuiltin("gomacro_validate_json_string") {
		t.Fatal("IsBuiltin")
	}
}

func TestNormalizeAndDecodeType(t *testing.T) {
	cases := []struct {
		raw, norm, base string
		array           bool
		mods            string
	}{
		{"integer", "integer", "integer", false, ""},
		{"INT", "int", "integer", false, ""},
		{"int4", "int4", "integer", false, ""},
		{"SmallInt", "smallint", "smallint", false, ""},
		{"bool", "bool", "boolean", false, ""},
		{"timestamp(0)  with time zone", "timestamp (0) with time zone", "timestamp with time zone", false, "(0)"},
		{"timestamp (0) with time zone", "timestamp (0) with time zone", "timestamp with time zone", false, "(0)"},
		{"timestamptz", "timestamptz", "timestamp with time zone", false, ""},
		{"timestamp without time zone", "timestamp without time zone", "timestamp", false, ""},
		{"integer[]", "integer[]", "integer", true, ""},
		{"integer [ ]", "integer[]", "integer", true, ""},
		{"text[3]", "text[]", "text", true, ""},
		{"Composite", "composite", "composite", false, ""},
		{`"Composite"`, `"Composite"`, `"Composite"`, false, ""},
		{"double   precision", "double precision", "double precision", false, ""},
		{"character varying(10)", "character varying (10)", "character varying", false, "(10)"},
		{"varchar(10)", "varchar (10)", "character varying", false, "(10)"},
		{"numeric(10, 2)", "numeric (10,2)", "numeric", false, "(10,2)"},
		{"pg_catalog.int4", "pg_catalog.int4", "integer", false, ""},
		{"serial", "serial", "serial", false, ""},
	}
	for _, c := range cases {
		t.Run(c.raw, func(t *testing.T) {
			n, err := NormalizeType(c.raw)
			if err != nil {
				t.Fatal(err)
			}
			if n != c.norm {
				t.Fatalf("norm: got %q want %q", n, c.norm)
			}
			ti := DecodeType(n)
			if ti.Base != c.base || ti.Array != c.array || ti.Modifiers != c.mods {
				t.Fatalf("decode: %+v", ti)
			}
		})
	}
	for _, bad := range []string{"", "1", "integer integer", "order", "double", "timestamp with", "int["} {
		if _, err := NormalizeType(bad); err == nil {
			t.Errorf("NormalizeType(%q) should fail", bad)
		}
	}
	if ti := DecodeType("integer[][]"); ti.Dims != 2 || !ti.Array {
		t.Errorf("dims: %+v", ti)
	}
}

func TestParseExprPrefix(t *testing.T) {
	src := "a = $1 AND b IS NULL RETURNING id, x"
	toks, err := Tokenize(src)
	if err != nil {
		t.Fatal(err)
	}
	e, n, err := ParseExprPrefix(toks, src)
	if err != nil || e.String() != "((a = $1) AND (b IS NULL))" || !toks[n].Is("returning") {
		t.Fatalf("%v %d %v", e, n, err)
	}
	src = "$1, 'x')"
	toks, _ = Tokenize(src)
	e, n, err = ParseExprPrefix(toks, src)
	if err != nil || e.String() != "$1" || n != 1 {
		t.Fatalf("%v %d %v", e, n, err)
	}
	if _, _, err = ParseExprPrefix(nil, ""); err == nil {
		t.Fatal("empty input must fail")
	}
	if b, ok := ParseBool("yes"); !ok || !b {
		t.Fatal("ParseBool")
	}
	if n, ok := ParseInteger(" -12 "); !ok || n.Int64() != -12 {
		t.Fatal("ParseInteger")
	}
	if _, ok := ParseInteger("1.0"); ok {
		t.Fatal("ParseInteger must reject decimals")
	}
	if r, err := ParseNumeric("1.5e1"); err != nil || r.FloatString(1) != "15.0" {
		t.Fatal("ParseNumeric")
	}
}
