package pgmodel

// PostgreSQL keyword classes (PostgreSQL 16, src/include/parser/kwlist.h).
// Only the two classes that cannot be used as a bare column / table name are
// listed: fully reserved words and "reserved (can be function or type)".

var reservedKeywords = setOf(
	"all", "analyse", "analyze", "and", "any", "array", "as", "asc", "asymmetric",
	"both", "case", "cast", "check", "collate", "column", "constraint", "create",
	"current_catalog", "current_date", "current_role", "current_time",
	"current_timestamp", "current_user", "default", "deferrable", "desc",
	"distinct", "do", "else", "end", "except", "false", "fetch", "for", "foreign",
	"from", "grant", "group", "having", "in", "initially", "intersect", "into",
	"lateral", "leading", "limit", "localtime", "localtimestamp", "not", "null",
	"offset", "on", "only", "or", "order", "placing", "primary", "references",
	"returning", "select", "session_user", "some", "symmetric", "system_user",
	"table", "then", "to", "trailing", "true", "union", "unique", "user", "using",
	"variadic", "when", "where", "window", "with",
)

var typeFuncNameKeywords = setOf(
	"authorization", "binary", "collation", "concurrently", "cross",
	"current_schema", "freeze", "full", "ilike", "inner", "is", "isnull", "join",
	"left", "like", "natural", "notnull", "outer", "overlaps", "right", "similar",
	"tablesample", "verbose",
)

func setOf(words ...string) map[string]bool {
	m := make(map[string]bool, len(words))
	for _, w := range words {
		m[w] = true
	}
	return m
}

// IsReservedKeyword reports whether the unquoted word (any case) is fully
// reserved in PostgreSQL: it can be neither a column, table, type nor
// function name unless double-quoted.
func IsReservedKeyword(word string) bool { return reservedKeywords[FoldIdent(word)] }

// IsColumnNameForbidden reports whether the unquoted word cannot be used as a
// table or column name (PostgreSQL grammar symbol ColId): reserved keywords
// and the "can be function or type" keywords such as LEFT, IS, LIKE.
func IsColumnNameForbidden(word string) bool {
	w := FoldIdent(word)
	return reservedKeywords[w] || typeFuncNameKeywords[w]
}
