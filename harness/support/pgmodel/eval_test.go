package pgmodel

import (
	"errors"
	"math/big"
	"strings"
	"testing"
	"time"
)

func mustJSON(t testing.TB, s string) Value {
	t.Helper()
	v, err := JSONBFromBytes([]byte(s))
	if err != nil {
		t.Fatalf("bad JSON %q: %v", s, err)
	}
	return v
}

// errKind: "" (no error), "eval", "unsupported", "parse"
func classify(err error) string {
	var e *EvalError
	var u *UnsupportedError
	var p *ParseError
	switch {
	case err == nil:
		return ""
	case errors.As(err, &e):
		return "eval"
	case errors.As(err, &u):
		return "unsupported"
	case errors.As(err, &p):
		return "parse"
	}
	return "other:" + err.Error()
}

type evalCase struct {
	expr string
	want string // Value.String(), or "!eval" / "!unsupported", optionally "!eval:substring"
}

func runEvalCases(t *testing.T, s *Script, env Env, cases []evalCase) {
	t.Helper()
	for _, c := range cases {
		t.Run(c.expr, func(t *testing.T) {
			e, err := ParseExpr(c.expr)
			if err != nil {
				t.Fatalf("parse: %v", err)
			}
			v, err := s.Eval(e, env)
			if strings.HasPrefix(c.want, "!") {
				kind, sub, _ := strings.Cut(c.want[1:], ":")
				if classify(err) != kind {
					t.Fatalf("want %s error, got value %v err %v", kind, v, err)
				}
				if sub != "" && !strings.Contains(err.Error(), sub) {
					t.Fatalf("error %q does not contain %q", err, sub)
				}
				return
			}
			if err != nil {
				t.Fatalf("unexpected error: %v", err)
			}
			if got := v.String(); got != c.want {
				t.Fatalf("got %s want %s", got, c.want)
			}
		})
	}
}

func TestThreeValuedLogic(t *testing.T) {
	env := Env{"t": Bool(true), "f": Bool(false), "n": NullOf(KBool), "u": Null(), "i": NumInt(1), "s": Text("x")}
	runEvalCases(t, &Script{}, env, []evalCase{
		{"t AND t", "true"}, {"t AND f", "false"}, {"t AND n", "NULL"},
		{"f AND t", "false"}, {"f AND f", "false"}, {"f AND n", "false"},
		{"n AND t", "NULL"}, {"n AND f", "false"}, {"n AND n", "NULL"},
		{"t OR t", "true"}, {"t OR f", "true"}, {"t OR n", "true"},
		{"f OR t", "true"}, {"f OR f", "false"}, {"f OR n", "NULL"},
		{"n OR t", "true"}, {"n OR f", "NULL"}, {"n OR n", "NULL"},
		{"NOT t", "false"}, {"NOT f", "true"}, {"NOT n", "NULL"}, {"NOT NULL", "NULL"},
		{"NULL AND FALSE", "false"}, {"NULL AND TRUE", "NULL"}, {"NULL OR TRUE", "true"}, {"NULL OR FALSE", "NULL"},
		{"u AND f", "false"}, {"u OR t", "true"},
		// short circuit: the right operand would raise at run time
		{"f AND jsonb_array_length('1') = 1", "false"},
		{"t OR jsonb_array_length('1') = 1", "true"},
		{"t AND jsonb_array_length('1') = 1", "!eval:scalar"},
		{"n AND jsonb_array_length('1') = 1", "!eval:scalar"},
		// but type errors are found when the expression is planned, whatever the values
		{"f AND s = 1", "!eval:operator does not exist: text = integer"},
		{"t OR nosuch(1)", "!eval:function nosuch(integer) does not exist"},
		{"t OR nosuchcolumn", "!eval:column \"nosuchcolumn\" does not exist"},
		{"i AND t", "!eval:must be type boolean"},
		{"t AND s", "!eval:must be type boolean"},
		{"NOT i", "!eval:must be type boolean"},
		{"'true' AND t", "true"}, {"'f' OR f", "false"}, {"NOT 'yes'", "false"}, {"'maybe' AND t", "!eval:boolean"},
		{"n IS NULL", "true"}, {"n IS NOT NULL", "false"}, {"t IS NULL", "false"}, {"NULL IS NULL", "true"}, {"(n AND t) IS NULL", "true"},
		{"i IS NULL", "false"}, {"i ISNULL", "false"}, {"i NOTNULL", "true"},
	})
}

func TestComparisons(t *testing.T) {
	env := Env{"i": NumInt(2), "num": NumRat(big.NewRat(5, 2)), "s": Text("abc"), "b": Bool(true), "j": mustJSON(t, `"abc"`),
		"ni": NullOf(KNum), "ns": NullOf(KText), "nb": NullOf(KBool), "nj": NullOf(KJSONB), "u": Null(),
		"t1": Time(time.Unix(10, 0)), "t2": Time(time.Unix(20, 0)), "by": Bytes([]byte("a")),
		"ai": Array("integer", []Value{NumInt(1), NullOf(KNum)}), "ai2": Array("integer", []Value{NumInt(1), NullOf(KNum)}),
		"at": Array("text", []Value{Text("1")})}
	runEvalCases(t, &Script{}, env, []evalCase{
		{"i = 2", "true"}, {"i = 3", "false"}, {"i <> 3", "true"}, {"i != 2", "false"}, {"i < 3", "true"}, {"i <= 2", "true"}, {"i > 2", "false"}, {"i >= 2", "true"},
		{"i = 2.0", "true"}, {"num = 2.5", "true"}, {"num > i", "true"}, {"1 = 1.00", "true"},
		{"i = NULL", "NULL"}, {"NULL = NULL", "NULL"}, {"ni = 2", "NULL"}, {"i = ni", "NULL"}, {"i <> NULL", "NULL"}, {"u = 1", "NULL"}, {"u = 'a'", "NULL"}, {"u = u", "NULL"},
		{"s = 'abc'", "true"}, {"s = 'ABC'", "false"}, {"s <> 'x'", "true"}, {"'a' = 'a'", "true"}, {"'a' = 'b'", "false"},
		{"s < 'b'", "!unsupported"},
		{"b = TRUE", "true"}, {"b = FALSE", "false"}, {"b > FALSE", "true"}, {"TRUE = TRUE", "true"},
		// unknown literal coercion
		{"1 = '1'", "true"}, {"'2' = i", "true"}, {"i = ' 2 '", "true"}, {"i = '2.0'", "!eval:invalid input syntax for type integer"}, {"i = 'x'", "!eval:invalid input syntax"},
		{"num = '2.5'", "true"}, {"num = 'x'", "!eval:numeric"},
		{"b = 'true'", "true"}, {"b = 't'", "true"}, {"b = 'f'", "false"}, {"b = 'false'", "false"}, {"b = 'yes'", "true"}, {"b = 'off'", "false"}, {"b = ' TRUE '", "true"}, {"b = 'maybe'", "!eval:boolean"},
		{"ni = 'x'", "!eval:invalid input syntax"},
		{"j = '\"abc\"'", "true"}, {"j = '\"x\"'", "false"}, {"j = 'abc'", "!eval:json"}, {"j = j", "true"}, {"j < j", "!unsupported"},
		// unlike types
		{"s = 1", "!eval:operator does not exist: text = integer"},
		{"s = 1.5", "!eval:operator does not exist: text = numeric"},
		{"1 = s", "!eval:operator does not exist: integer = text"},
		{"s = TRUE", "!eval:operator does not exist: text = boolean"},
		{"b = 1", "!eval:operator does not exist: boolean = integer"},
		{"j = s", "!eval:operator does not exist: jsonb = text"},
		{"j = 1", "!eval:operator does not exist: jsonb = integer"},
		{"ns = 1", "!eval:operator does not exist: text = integer"},
		{"nj = s", "!eval:operator does not exist: jsonb = text"},
		{"nb = ns", "!eval:operator does not exist: boolean = text"},
		{"t1 < t2", "true"}, {"t1 = t2", "false"}, {"t1 = 1", "!eval:operator does not exist"},
		{"by = by", "true"},
		{"ai = ai2", "true"}, {"ai <> ai2", "false"}, {"ai = at", "!eval:operator does not exist: integer[] = text[]"}, {"ai < ai2", "!unsupported"},
		// IN
		{"i IN (1, 2)", "true"}, {"i IN (1, 3)", "false"}, {"i IN (1, NULL)", "NULL"}, {"i IN (2, NULL)", "true"}, {"i NOT IN (1, 3)", "true"}, {"i NOT IN (1, NULL)", "NULL"}, {"i NOT IN (2, NULL)", "false"},
		{"ni IN (1, 2)", "NULL"}, {"NULL IN (1, 2)", "NULL"},
		{"s IN ('abc', 'd')", "true"}, {"s IN ('x')", "false"}, {"s NOT IN ('x')", "true"},
		{"s IN (1, 2)", "!eval:operator does not exist: text = integer"},
		{"s IN ('abc', 2)", "!eval:operator does not exist: text = integer"},
		{"ns IN (1, 2)", "!eval:operator does not exist: text = integer"},
		{"s IN (TRUE, FALSE)", "!eval:operator does not exist: text = boolean"},
		{"i IN ('1', '2')", "true"}, {"i IN (2, 'x')", "!eval:invalid input syntax"},
		{"i IN ('abc')", "!eval:invalid input syntax"},
		{"b IN ('t', 'f')", "true"},
		// ANY
		{"1 = ANY(ai)", "true"}, {"2 = ANY(ai)", "NULL"}, {"'1' = ANY(at)", "true"}, {"1 = ANY(at)", "!eval:operator does not exist"}, {"1 = ANY(u)", "NULL"}, {"1 = ANY(i)", "!eval:requires array"},
	})
}

func TestJSONOperators(t *testing.T) {
	env := Env{
		"o":  mustJSON(t, `{"a": 1, "b": "str", "c": null, "d": [1, "x", null, {"k": true}], "e": {"f": {"g": 1.50}}, "t": true}`),
		"a":  mustJSON(t, `[10, "s", null, [1], {"z": 0}]`),
		"s":  mustJSON(t, `"hello \"w\""`),
		"n":  mustJSON(t, `12.50`),
		"e":  mustJSON(t, `1e2`),
		"z":  mustJSON(t, `null`),
		"b":  mustJSON(t, `false`),
		"nj": NullOf(KJSONB), "u": Null(), "txt": Text("a"), "i": NumInt(0),
		"ea": mustJSON(t, `[]`), "eo": mustJSON(t, `{}`),
		"big": mustJSON(t, `3000000000`), "half": mustJSON(t, `2.5`), "nhalf": mustJSON(t, `-2.5`), "h2": mustJSON(t, `2.4999`),
	}
	runEvalCases(t, &Script{}, env, []evalCase{
		// jsonb_typeof
		{"jsonb_typeof(o)", "'object'"}, {"jsonb_typeof(a)", "'array'"}, {"jsonb_typeof(s)", "'string'"}, {"jsonb_typeof(n)", "'number'"},
		{"jsonb_typeof(z)", "'null'"}, {"jsonb_typeof(b)", "'boolean'"}, {"jsonb_typeof(nj)", "NULL"}, {"jsonb_typeof(NULL)", "NULL"}, {"jsonb_typeof(u)", "NULL"},
		{"jsonb_typeof('[1]')", "'array'"}, {"jsonb_typeof('x')", "!eval:json"}, {"jsonb_typeof(txt)", "!eval:function jsonb_typeof(text) does not exist"},
		{"jsonb_typeof(1)", "!eval:does not exist"}, {"jsonb_typeof()", "!eval:does not exist"}, {"jsonb_typeof(o, o)", "!eval:does not exist"},
		{"jsonb_typeof(o) = 'object'", "true"}, {"jsonb_typeof(o) != 'array'", "true"}, {"jsonb_typeof(nj) = 'null'", "NULL"}, {"jsonb_typeof(o) = 1", "!eval:text = integer"},
		// ->
		{"o -> 'a'", "1::jsonb"}, {"o -> 'b'", `"str"::jsonb`}, {"o -> 'c'", "null::jsonb"}, {"o -> 'missing'", "NULL"}, {"o -> 'd' -> 3 -> 'k'", "true::jsonb"},
		{"a -> 'a'", "NULL"}, {"s -> 'a'", "NULL"}, {"z -> 'a'", "NULL"}, {"nj -> 'a'", "NULL"}, {"o -> NULL", "NULL"},
		{"a -> 0", "10::jsonb"}, {"a -> 4", `{"z": 0}::jsonb`}, {"a -> 5", "NULL"}, {"a -> -1", `{"z": 0}::jsonb`}, {"a -> -5", "10::jsonb"}, {"a -> -6", "NULL"},
		{"o -> 0", "NULL"}, {"s -> 0", "NULL"}, {"a -> '0'", "NULL"}, {"a -> i", "10::jsonb"}, {"o -> txt", "1::jsonb"},
		{"a -> 1.5", "!eval:jsonb -> numeric"}, {"a -> TRUE", "!eval:operator does not exist"}, {"txt -> 'a'", "!eval:operator does not exist: text -> unknown"},
		{"'{\"a\":1}' -> 'a'", "!eval:not unique"}, {"'{\"a\":1}' -> txt", "1::jsonb"},
		{"jsonb_typeof(o -> 'missing')", "NULL"}, {"jsonb_typeof(o -> 'c')", "'null'"}, {"jsonb_typeof(o -> 'c') = 'null'", "true"}, {"jsonb_typeof(o -> 'missing') = 'null'", "NULL"},
		// ->>
		{"o ->> 'a'", "'1'"}, {"o ->> 'b'", "'str'"}, {"o ->> 'c'", "NULL"}, {"o ->> 'missing'", "NULL"}, {"o ->> 'd'", `'[1, "x", null, {"k": true}]'`},
		{"o ->> 'e'", `'{"f": {"g": 1.50}}'`}, {"o ->> 't'", "'true'"}, {"a ->> 1", "'s'"}, {"a ->> 2", "NULL"}, {"a ->> 0", "'10'"}, {"s ->> 'a'", "NULL"},
		{"o ->> 'b' = 'str'", "true"}, {"o ->> 'a' = '1'", "true"}, {"o ->> 'a' = 1", "!eval:text = integer"}, {"o ->> 'missing' = 'x'", "NULL"},
		// #>> and #>
		{"s #>> '{}'", `'hello "w"'`}, {"n #>> '{}'", "'12.50'"}, {"e #>> '{}'", "'100'"}, {"z #>> '{}'", "NULL"}, {"b #>> '{}'", "'false'"},
		{"a #>> '{}'", `'[10, "s", null, [1], {"z": 0}]'`}, {"eo #>> '{}'", "'{}'"}, {"ea #>> '{}'", "'[]'"}, {"nj #>> '{}'", "NULL"},
		{"o #>> '{e,f,g}'", "'1.50'"}, {"o #> '{e,f}'", `{"g": 1.50}::jsonb`}, {"o #>> '{d,1}'", "'x'"}, {"o #>> '{d,-1,k}'", "'true'"}, {"o #>> '{d,x}'", "NULL"},
		{"o #>> '{a,b}'", "NULL"}, {"o #>> '{nope}'", "NULL"}, {"o #>> '{d,2}'", "NULL"}, {"o #> '{d,2}'", "null::jsonb"}, {"o #>> '{e,NULL}'", "NULL"},
		{"o #>> 'notanarray'", "!eval:malformed array literal"}, {"o #>> 1", "!eval:operator does not exist"}, {"txt #>> '{}'", "!eval:operator does not exist"},
		{"s #>> '{}' IN ('hello \"w\"', 'b')", "true"}, {"n #>> '{}' IN (1, 2)", "!eval:text = integer"},
		// casts from jsonb
		{"n::int", "13"}, {"half::int", "3"}, {"nhalf::int", "-3"}, {"h2::int", "2"}, {"e::integer", "100"}, {"e::int4", "100"}, {"big::int", "!eval:integer out of range"}, {"big::bigint", "3000000000"},
		{"e::smallint", "100"}, {"big::smallint", "!eval:smallint out of range"},
		{"s::int", "!eval:cannot cast jsonb string to type integer"}, {"z::int", "!eval:cannot cast jsonb null to type integer"}, {"b::int", "!eval:cannot cast jsonb boolean"},
		{"a::int", "!eval:cannot cast jsonb array"}, {"o::int", "!eval:cannot cast jsonb object"}, {"nj::int", "NULL"}, {"NULL::int", "NULL"},
		{"n::int IN (13, 14)", "true"}, {"n::int = 13", "true"}, {"n::int = '13'", "true"}, {"n::int = s", "!eval:integer = jsonb"},
		{"n::numeric = 12.5", "true"}, {"s::numeric", "!eval:cannot cast jsonb string to type numeric"},
		{"b::boolean", "false"}, {"b::bool = FALSE", "true"}, {"n::boolean", "!eval:cannot cast jsonb number to type boolean"}, {"s::boolean", "!eval:cannot cast jsonb string"},
		{"s::text", `'"hello \"w\""'`}, {"n::text", "'12.50'"}, {"o::text = '{}'", "false"}, {"z::text", "'null'"},
		{"o::jsonb = o", "true"}, {"s::json", "!unsupported"}, {"s::nosuchtype", "!eval:type \"nosuchtype\" does not exist"}, {"s::real", "!unsupported"}, {"s::text[]", "!unsupported"},
		// jsonb_array_length
		{"jsonb_array_length(a)", "5"}, {"jsonb_array_length(ea)", "0"}, {"jsonb_array_length(o)", "!eval:cannot get array length of a non-array"},
		{"jsonb_array_length(s)", "!eval:cannot get array length of a scalar"}, {"jsonb_array_length(z)", "!eval:scalar"}, {"jsonb_array_length(nj)", "NULL"},
		{"jsonb_array_length(a) = 5", "true"}, {"jsonb_array_length(a) = '5'", "true"}, {"jsonb_array_length(txt)", "!eval:does not exist"},
		// jsonb equality
		{"e = '100'", "true"}, {"n = '12.5'", "true"}, {"o -> 'd' = '[1,\"x\",null,{\"k\":true}]'", "true"}, {"eo = '{}'", "true"}, {"eo = ea", "false"},
	})
}

func TestCastsAndMisc(t *testing.T) {
	env := Env{"s": Text("12"), "bad": Text("1x"), "i": NumInt(7), "num": NumRat(big.NewRat(5, 2)), "b": Bool(true), "ns": NullOf(KText),
		"arr": Array("integer", []Value{NumInt(1), NumInt(2), NumInt(3)}), "empty": Array("integer", nil), "narr": NullOf(KArray),
		"tarr": Array("text", []Value{Text("a")})}
	runEvalCases(t, &Script{}, env, []evalCase{
		{"s::int", "12"}, {"' 12 '::int", "12"}, {"bad::int", "!eval:invalid input syntax for type integer"}, {"'1.5'::int", "!eval:invalid input syntax"}, {"'abc'::int", "!eval:invalid input syntax"},
		{"ns::int", "NULL"}, {"'99999999999'::int", "!eval:out of range"}, {"'1.5'::numeric = 1.5", "true"},
		{"num::int", "3"}, {"(-num)::int", "-3"}, {"i::text", "'7'"}, {"num::text", "!unsupported"}, {"b::text", "'true'"}, {"b::int", "1"}, {"b::bigint", "!eval:cannot cast"}, {"b::numeric", "!eval:cannot cast"},
		{"i::boolean", "true"}, {"0::boolean", "false"}, {"num::boolean", "!eval:cannot cast"}, {"'t'::boolean", "true"}, {"'x'::boolean", "!eval:boolean"},
		{"i::jsonb", "!eval:cannot cast type integer to jsonb"}, {"'[1, 2]'::jsonb -> 1", "2::jsonb"}, {"'{'::jsonb", "!eval:json"}, {"s::jsonb", "12::jsonb"},
		{"CAST(s AS integer) + 1", "13"}, {"s::varchar(3)", "!unsupported"}, {"s::numeric(4,2)", "!unsupported"},
		{"array_length(arr, 1)", "3"}, {"array_length(arr, 1) = 3", "true"}, {"array_length(empty, 1)", "NULL"}, {"array_length(empty, 1) = 0", "NULL"},
		{"array_length(narr, 1)", "NULL"}, {"array_length(arr, 2)", "NULL"}, {"array_length(arr, 0)", "NULL"}, {"array_length(arr, NULL)", "NULL"}, {"array_length(NULL, 1)", "NULL"},
		{"array_length(tarr, 1)", "1"}, {"array_length(arr)", "!eval:does not exist"}, {"array_length(s, 1)", "!eval:does not exist"}, {"array_length(arr, 1.5)", "!eval:does not exist"},
		{"array_length('{1}', 1)", "!eval:polymorphic"}, {"array_length(arr, '1')", "3"},
		{"1 + 2 * 3", "7"}, {"i - 10", "-3"}, {"-i", "-7"}, {"+i", "7"}, {"num * 2 = 5", "true"}, {"i / 2", "!unsupported"}, {"i % 2", "!unsupported"}, {"s + 1", "!eval:operator does not exist: text + integer"},
		{"'1' + 1", "2"}, {"2147483647 + 1", "!unsupported"}, {"-s", "!eval:operator does not exist"},
		{"s || 'x'", "'12x'"}, {"s || NULL", "NULL"}, {"'a' || 'b' = 'ab'", "true"}, {"s || 1", "!unsupported"},
		{"length(s)", "2"}, {"char_length('héé')", "3"}, {"lower('ABC')", "'abc'"}, {"upper(s || 'a')", "'12A'"}, {"lower('É')", "!unsupported"}, {"length(i)", "!eval:does not exist"},
		{"coalesce(ns, 'd')", "'d'"}, {"coalesce(s, bad)", "'12'"}, {"coalesce(NULL, NULL)", "NULL"}, {"coalesce(ns, 1)", "!eval:COALESCE types"}, {"coalesce(NULL, i, 'x')", "!eval:invalid input syntax"}, {"coalesce(NULL, i, '3')", "7"},
		{"now()", "!unsupported"}, {"to_jsonb(s)", "!unsupported"}, {"bool_and(b)", "!unsupported"}, {"jsonb_each(s)", "!unsupported"},
		{"nosuch(s)", "!eval:function nosuch(text) does not exist"}, {"$1", "!eval:there is no parameter $1"}, {"zzz", "!eval:column \"zzz\" does not exist"}, {`"S"`, "!eval:column \"S\" does not exist"}, {`"s"`, "'12'"}, {"S", "'12'"},
		{"1e3", "1000"}, {"1.50", "1.5"}, {"1e200000", "!eval:overflows"},
	})
}

func TestSubqueries(t *testing.T) {
	s, err := ParseScript(`
		CREATE FUNCTION isnum(data jsonb) RETURNS boolean AS $$ BEGIN RETURN jsonb_typeof(data) = 'number'; END $$ LANGUAGE plpgsql;
		CREATE FUNCTION boom(data jsonb) RETURNS boolean AS $$ BEGIN RETURN jsonb_array_length(data) = 0; END $$ LANGUAGE plpgsql;
		CREATE FUNCTION nul(data jsonb) RETURNS boolean AS $$ BEGIN RETURN NULL; END $$ LANGUAGE plpgsql;`)
	if err != nil {
		t.Fatal(err)
	}
	env := Env{
		"nums": mustJSON(t, `[1, 2, 3]`), "mixed": mustJSON(t, `[1, "a"]`), "ea": mustJSON(t, `[]`), "eo": mustJSON(t, `{}`),
		"o": mustJSON(t, `{"A": 1, "B": 2}`), "o2": mustJSON(t, `{"A": 1, "C": "x"}`), "str": mustJSON(t, `"s"`), "z": mustJSON(t, `null`), "nj": NullOf(KJSONB),
		"arrs": mustJSON(t, `[[], 1]`), "txt": Text("x"),
	}
	runEvalCases(t, s, env, []evalCase{
		{"(SELECT bool_and(isnum(value)) FROM jsonb_array_elements(nums))", "true"},
		{"(SELECT bool_and(isnum(value)) FROM jsonb_array_elements(mixed))", "false"},
		{"(SELECT bool_and(isnum(value)) FROM jsonb_array_elements(ea))", "NULL"},
		{"(SELECT bool_and(isnum(value)) FROM jsonb_array_elements(nj))", "NULL"},
		{"(SELECT bool_and(isnum(value)) FROM jsonb_array_elements(o))", "!eval:cannot extract elements from an object"},
		{"(SELECT bool_and(isnum(value)) FROM jsonb_array_elements(str))", "!eval:cannot extract elements from a scalar"},
		{"(SELECT bool_and(isnum(value)) FROM jsonb_array_elements(z))", "!eval:cannot extract elements from a scalar"},
		{"(SELECT bool_and(isnum(value)) FROM jsonb_array_elements(txt))", "!eval:does not exist"},
		{"(SELECT bool_and(nul(value)) FROM jsonb_array_elements(nums))", "NULL"},
		{"(SELECT bool_and(nul(value) OR isnum(value)) FROM jsonb_array_elements(mixed))", "true"},
		{"(SELECT bool_and(boom(value)) FROM jsonb_array_elements(arrs))", "!eval:scalar"},
		{"(SELECT bool_and(isnum(value) AND boom(value)) FROM jsonb_array_elements(mixed))", "!eval:scalar"},
		{"(SELECT bool_and(value) FROM jsonb_array_elements(nums))", "!eval:function bool_and(jsonb) does not exist"},
		{"(SELECT bool_and(jsonb_typeof(value)) FROM jsonb_array_elements(nums))", "!eval:bool_and(text)"},
		{"(SELECT bool_and(key) FROM jsonb_array_elements(nums))", "!eval:column \"key\" does not exist"},
		{"(SELECT bool_and(key IN ('A', 'B')) FROM jsonb_each(o))", "true"},
		{"(SELECT bool_and(key IN ('A', 'B')) FROM jsonb_each(o2))", "false"},
		{"(SELECT bool_and(key IN ('A', 'B')) FROM jsonb_each(eo))", "NULL"},
		{"(SELECT bool_and(key IN (1, 2)) FROM jsonb_each(eo))", "!eval:text = integer"},
		{"(SELECT bool_and(TRUE) FROM jsonb_each(eo))", "NULL"},
		{"(SELECT bool_and(TRUE) FROM jsonb_each(o))", "true"},
		{"(SELECT bool_and('t') FROM jsonb_each(o))", "true"},
		{"(SELECT bool_and(isnum(value)) FROM jsonb_each(o))", "true"},
		{"(SELECT bool_and(isnum(value)) FROM jsonb_each(o2))", "false"},
		{"(SELECT bool_and(isnum(value)) FROM jsonb_each(nums))", "!eval:cannot call jsonb_each on a non-object"},
		{"(SELECT bool_and(isnum(value)) FROM jsonb_each(z))", "!eval:non-object"},
		{"(SELECT bool_and(isnum(value)) FROM jsonb_each(nj))", "NULL"},
		{"(SELECT bool_and(isnum(value)) FROM jsonb_each('{\"a\": 1}'))", "true"},
		// outer names stay visible inside
		{"(SELECT bool_and(jsonb_typeof(value) = jsonb_typeof(nums -> 0)) FROM jsonb_array_elements(nums))", "true"},
		// typical generated shapes
		{"jsonb_typeof(eo) = 'object' AND (SELECT bool_and(isnum(value)) FROM jsonb_each(eo))", "NULL"},
		{"jsonb_typeof(str) = 'object' AND (SELECT bool_and(isnum(value)) FROM jsonb_each(str))", "false"},
		{"(SELECT bool_and(isnum(value)) FROM jsonb_array_elements(nums)) AND jsonb_array_length(nums) = 3", "true"},
		{"(SELECT bool_and(isnum(value)) FROM jsonb_array_elements(ea)) AND jsonb_array_length(ea) = 0", "NULL"},
		{"(SELECT bool_and(isnum(value)) FROM jsonb_array_elements(ea)) AND jsonb_array_length(ea) = 5", "false"},
	})
}

func TestTruthAndCheckPasses(t *testing.T) {
	s := &Script{}
	cases := []struct {
		v            Value
		isTrue, null bool
		err          bool
	}{
		{Bool(true), true, false, false}, {Bool(false), false, false, false}, {Null(), false, true, false}, {NullOf(KBool), false, true, false},
		{NullOf(KText), false, false, true}, {Text("true"), false, false, true}, {UnknownLiteral("true"), true, false, false}, {UnknownLiteral("zz"), false, false, true},
		{NumInt(1), false, false, true}, {JSONB(true), false, false, true},
	}
	for i, c := range cases {
		tr, n, err := Truth(c.v)
		if tr != c.isTrue || n != c.null || (err != nil) != c.err {
			t.Errorf("case %d (%v): %v %v %v", i, c.v, tr, n, err)
		}
	}
	checks := []struct {
		expr string
		env  Env
		pass bool
		kind string
	}{
		{"flow IN (0, 1, 2, 4)", Env{"flow": NumInt(4)}, true, ""},
		{"flow IN (0, 1, 2, 4)", Env{"flow": NumInt(3)}, false, ""},
		{"flow IN (0, 1, 2, 4)", Env{"flow": NullOf(KNum)}, true, ""},
		{"array_length(f, 1) = 5", Env{"f": Array("integer", make([]Value, 5))}, true, ""},
		{"array_length(f, 1) = 5", Env{"f": Array("integer", make([]Value, 4))}, false, ""},
		{"array_length(f, 1) = 0", Env{"f": Array("integer", nil)}, true, ""}, // NULL: passes!
		{"array_length(f, 1) = 5", Env{"f": Array("integer", nil)}, true, ""}, // NULL: passes!
		{"guard = 0", Env{"guard": NumInt(1)}, false, ""},
		{"v IN ('a', 'b')", Env{"v": NumInt(1)}, false, "eval"},
		{"v", Env{"v": NumInt(1)}, false, "eval"},
		{"v BETWEEN 1 AND 2", Env{"v": NumInt(1)}, false, "parse-unsupported"},
	}
	for _, c := range checks {
		e, err := ParseExpr(c.expr)
		if err != nil {
			if c.kind != "parse-unsupported" || classify(err) != "unsupported" {
				t.Errorf("%s: %v", c.expr, err)
			}
			continue
		}
		pass, _, err := s.CheckPasses(e, c.env)
		if pass != c.pass || classify(err) != c.kind {
			t.Errorf("%s with %v: pass=%v err=%v", c.expr, c.env, pass, err)
		}
	}
	// an UnsupportedExpr evaluates to an UnsupportedError
	if _, _, err := s.CheckPasses(&UnsupportedExpr{Raw: "x BETWEEN 1 AND 2", Reason: "BETWEEN"}, Env{}); classify(err) != "unsupported" {
		t.Errorf("UnsupportedExpr: %v", err)
	}
	var nilScript *Script
	if v, err := nilScript.Eval(&Literal{Kind: LitNumber, Text: "1"}, nil); err != nil || v.String() != "1" {
		t.Errorf("nil script: %v %v", v, err)
	}
}
