package runlib

import (
	"crypto/sha256"
	"encoding/hex"
	"encoding/json"
	"fmt"
	"hash/fnv"
	"math/rand"
	"os"
	"reflect"
	"sort"
	"strings"
	"time"

	"verif/support/refwire"
)

type randSource = *rand.Rand

func newRand(seed int64, labels ...string) *rand.Rand {
	h := fnv.New64a()
	fmt.Fprintf(h, "%d", seed)
	for _, l := range labels {
		fmt.Fprintf(h, "|%s", l)
	}
	return rand.New(rand.NewSource(int64(h.Sum64())))
}

func hash(b []byte) string {
	s := sha256.Sum256(b)
	return hex.EncodeToString(s[:8])
}

const callBudget = 20 * time.Second

var (
	slowestCall    time.Duration
	completedCalls int
)

func init() {
	commands["rand"] = cmdRand
	commands["list-funcs"] = func(o *Out, p *Package, j Job) {
		var names []string
		for n := range p.Funcs {
			names = append(names, n)
		}
		sort.Strings(names)
		o.Emit(Event{Prog: p.ID, Kind: "funcs", Keys: names})
	}
}

// cmdRand (C15): call every generated rand<ID>() function repeatedly and check
// that the values are well formed, vary, and survive the JSON round trip.
//
// opts: funcs=a,b restrict to these functions; skip-ignored=Type.Field,... fields tagged gomacro-data:"ignore"
func cmdRand(o *Out, p *Package, j Job) {
	u := p.Universe()
	only := map[string]bool{}
	if fs := j.Opts["funcs"]; fs != "" {
		for _, n := range strings.Split(fs, ",") {
			only[n] = true
		}
	}
	var names []string
	for name, fn := range p.Funcs {
		if !strings.HasPrefix(name, "rand") {
			continue
		}
		ft := reflect.TypeOf(fn)
		if ft.Kind() != reflect.Func || ft.NumIn() != 0 || ft.NumOut() != 1 {
			continue
		}
		if len(only) > 0 && !only[name] {
			continue
		}
		names = append(names, name)
	}
	sort.Strings(names)
	rand.Seed(j.Seed) // the generated code uses the global source
	reachable := p.Reachable()
	for _, name := range names {
		fn := reflect.ValueOf(p.Funcs[name])
		rt := fn.Type().Out(0)
		calls := j.N
		if reachesEnumWithoutExportedConstant(u, rt, map[reflect.Type]bool{}) {
			// no value of such a type can be well-formed in the sense of the property
			// (an enum component must equal an exported constant): outside its domain
			o.Count("rand-functions-outside-domain:enum-without-exported-constant", 1)
			continue
		}
		canVary := varies(u, rt, map[reflect.Type]bool{})
		if canVary && smallDomain(u, rt) {
			calls = 64 // small domains: make a constant generator the only way to fail
		}
		distinct := map[string]bool{}
		o.Count("rand-functions", 1)
		for i := 0; i < calls; i++ {
			o.Begin(p.ID, "rand", name)
			var out reflect.Value
			// bounded progress: the call runs in its own goroutine; a call that has not
			// returned after a budget that is >= 200x the slowest call completed so far
			// is reported as non-terminating (the process then exits: the goroutine
			// cannot be stopped); a slower environment makes it inconclusive instead
			type callResult struct {
				out reflect.Value
				pan string
			}
			ch := make(chan callResult, 1)
			started := time.Now()
			go func() {
				var r callResult
				r.pan = Guard(func() { r.out = fn.Call(nil)[0] })
				ch <- r
			}()
			var res callResult
			select {
			case res = <-ch:
				if d := time.Since(started); d > slowestCall {
					slowestCall = d
				}
			case <-time.After(callBudget):
				if j.Opts["recursive-types"] == "1" {
					// the program has recursive types: their generators build ever growing values (wide
					// before deep when the fan-out is large); same cause as the stack exhaustion
					o.Violation(p.ID, "rand-unbounded-recursion", fmt.Sprintf("%s() has not returned after %s on a program with recursive types (call %d; slowest completed call %s)", name, callBudget, i, slowestCall))
				} else if slowestCall*200 < callBudget {
					o.Violation(p.ID, "rand-call-does-not-return", fmt.Sprintf("%s() has not returned after %s (call %d); the slowest of the %d calls completed before it in this process took %s: the function does not terminate", name, callBudget, i, completedCalls, slowestCall))
				} else {
					// undecided: the value is merely huge (maps of maps of structs, 40-49 entries per map);
					// counted, the checker turns a large share of undecided functions into an inconclusive run
					o.Count("rand-functions-undecided:slow-large-values", 1)
					o.Emit(Event{Prog: p.ID, Kind: "note", Message: fmt.Sprintf("%s() exceeded the %s budget but completed calls were slow too (slowest %s): undecided", name, callBudget, slowestCall)})
				}
				o.Emit(Event{Prog: p.ID, Kind: "bail", Cmd: "rand", What: name})
				os.Exit(0)
			}
			completedCalls++
			out = res.out
			if pan := res.pan; pan != "" {
				o.Violation(p.ID, "rand-panic:"+NormalizePanic(pan), fmt.Sprintf("%s() panicked: %s", name, pan))
				break
			}
			o.Count("rand-calls", 1)
			if msg := wellFormed(u, out, name); msg != "" {
				o.Violation(p.ID, "rand-malformed:"+classOf(msg), fmt.Sprintf("%s() returned a malformed value: %s\nvalue: %s", name, msg, goString(out)))
				break
			}
			// JSON round trip of C02: for named types whose wrappers exist (reachable
			// from the analysed file) or which need none
			fp, _ := json.Marshal(fmt.Sprintf("%#v", out.Interface()))
			distinct[hash(fp)] = true
			if hasNilUnion(u, out) {
				// only possible below a skipped (gomacro-data:"ignore" / unexported) field, wellFormed
				// has passed: the round trip of C02 is stated for member values only
				o.Count("rand-round-trips-skipped:nil-union-below-skipped-field", 1)
			} else if rt.Kind() != reflect.Interface && rt.Name() != "" && (!u.ReachesUnion(rt) || (reachable[rt] && j.Opts["no-wrappers"] != "1")) {
				if _, ok := checkJSONValue(o, p, u, rt, out, u.ReachesUnion(rt), false, nil, "rand-"); !ok {
					break
				}
				o.Count("rand-values-round-tripped", 1)
			}
		}
		// a union whose members all have large domains: N calls drawing fresh member values give
		// (almost surely) N distinct values; a generator that only ever returns one value per
		// member (a table of member values built once) shows at most len(members) of them
		if ms := u.Unions[rt]; rt.Kind() == reflect.Interface && len(ms) > 0 && calls >= 2*len(ms) && calls >= 6 && len(distinct) >= 2 && len(distinct) <= len(ms) {
			rich := true
			for _, m := range ms {
				if !varies(u, m, map[reflect.Type]bool{}) || smallDomainOrConst(u, m, 0) {
					rich = false
				}
			}
			if rich {
				o.Violation(p.ID, "rand-union-values-frozen", fmt.Sprintf("%s() returned only %d distinct values on %d calls for a union of %d members with large domains: the member values do not vary from call to call", name, len(distinct), calls, len(ms)))
			}
		}
		if canVary && len(distinct) < 2 && calls >= 8 {
			sig, why := "rand-constant", ""
			if !variesMode(u, rt, map[reflect.Type]bool{}, true) {
				// the cause is named, so that any other constant generator keeps the plain class
				sig = "rand-constant:map-saturated-by-its-enum-keys"
				why = " (its only varying parts are maps keyed by an enum whose elements do not vary: dozens of insertions over a handful of keys give the full map every time)"
			}
			o.Violation(p.ID, sig, fmt.Sprintf("%s() returned the same value on %d calls although its type %s admits more than one value%s", name, calls, rt, why))
		}
		o.Distinct(fmt.Sprintf("%s|%s|%d", p.ID, name, len(distinct)))
		if len(names) > 0 && name == names[0] {
			o.Sample(p.ID, map[string]any{"function": name, "type": rt.String(), "calls": calls, "distinct_values": len(distinct)})
		}
	}
}

// reachesEnumWithoutExportedConstant reports whether a generated value of type t
// contains (outside skipped fields) a component of an enum type that has no exported constant.
func reachesEnumWithoutExportedConstant(u *refwire.Universe, t reflect.Type, seen map[reflect.Type]bool) bool {
	if seen[t] {
		return false
	}
	seen[t] = true
	if _, ok := u.EnumAll[t]; ok {
		return len(u.EnumExported[t]) == 0
	}
	if refwire.IsTimeLike(t) {
		return false
	}
	switch t.Kind() {
	case reflect.Slice, reflect.Array, reflect.Pointer:
		return reachesEnumWithoutExportedConstant(u, t.Elem(), seen)
	case reflect.Map:
		return reachesEnumWithoutExportedConstant(u, t.Key(), seen) || reachesEnumWithoutExportedConstant(u, t.Elem(), seen)
	case reflect.Struct:
		for i := 0; i < t.NumField(); i++ {
			f := t.Field(i)
			if (!f.IsExported() && !f.Anonymous) || f.Tag.Get("gomacro-data") == "ignore" {
				continue
			}
			if reachesEnumWithoutExportedConstant(u, f.Type, seen) {
				return true
			}
		}
	case reflect.Interface:
		for _, m := range u.Unions[t] {
			if reachesEnumWithoutExportedConstant(u, m, seen) {
				return true
			}
		}
	}
	return false
}

// hasNilUnion reports whether v contains a nil component of a union type.
func hasNilUnion(u *refwire.Universe, v reflect.Value) bool {
	t := v.Type()
	if refwire.IsTimeLike(t) {
		return false
	}
	switch t.Kind() {
	case reflect.Interface:
		if _, isUnion := u.Unions[t]; !isUnion {
			return false
		}
		if v.IsNil() {
			return true
		}
		return hasNilUnion(u, v.Elem())
	case reflect.Struct:
		for i := 0; i < t.NumField(); i++ {
			if hasNilUnion(u, v.Field(i)) {
				return true
			}
		}
	case reflect.Slice, reflect.Array:
		for i := 0; i < v.Len(); i++ {
			if hasNilUnion(u, v.Index(i)) {
				return true
			}
		}
	case reflect.Map:
		it := v.MapRange()
		for it.Next() {
			if hasNilUnion(u, it.Key()) || hasNilUnion(u, it.Value()) {
				return true
			}
		}
	case reflect.Pointer:
		if !v.IsNil() {
			return hasNilUnion(u, v.Elem())
		}
	}
	return false
}

func classOf(msg string) string {
	for _, k := range []string{"enum", "union", "empty", "ignored", "unexported"} {
		if strings.Contains(msg, k) {
			return k
		}
	}
	return "other"
}

// wellFormed checks the C15 conditions on one value; "" when fine.
func wellFormed(u *refwire.Universe, v reflect.Value, path string) string {
	t := v.Type()
	if consts, ok := u.EnumAll[t]; ok {
		exp := u.EnumExported[t]
		if len(exp) == 0 {
			return "" // no exported constant: nothing can be demanded
		}
		for _, c := range exp {
			if reflect.DeepEqual(c.Interface(), v.Interface()) {
				return ""
			}
		}
		_ = consts
		return fmt.Sprintf("%s: enum %s value %v is not one of the exported constants %v", path, t.Name(), v.Interface(), valuesOf(exp))
	}
	if refwire.IsTimeLike(t) {
		return ""
	}
	switch t.Kind() {
	case reflect.Interface:
		members, isUnion := u.Unions[t]
		if !isUnion {
			return ""
		}
		if v.IsNil() {
			return fmt.Sprintf("%s: union %s component is nil", path, t.Name())
		}
		dt := v.Elem().Type()
		ok := false
		for _, m := range members {
			if m == dt {
				ok = true
			}
		}
		if !ok {
			return fmt.Sprintf("%s: union %s holds %s which is not a member", path, t.Name(), dt)
		}
		return wellFormed(u, v.Elem(), path+"("+dt.Name()+")")
	case reflect.Struct:
		for i := 0; i < t.NumField(); i++ {
			f := t.Field(i)
			fv := v.Field(i)
			if !f.IsExported() {
				if !fv.IsZero() && !f.Anonymous {
					return fmt.Sprintf("%s.%s: unexported field is not zero", path, f.Name)
				}
				continue
			}
			if f.Tag.Get("gomacro-data") == "ignore" {
				if !fv.IsZero() {
					return fmt.Sprintf("%s.%s: field tagged gomacro-data:\"ignore\" (ignored) is not zero: %v", path, f.Name, fv.Interface())
				}
				continue
			}
			if msg := wellFormed(u, fv, path+"."+f.Name); msg != "" {
				return msg
			}
		}
	case reflect.Slice, reflect.Map:
		if v.Len() == 0 {
			return fmt.Sprintf("%s: %s is empty (not populated)", path, t.Kind())
		}
		if t.Kind() == reflect.Slice {
			for i := 0; i < v.Len(); i++ {
				if msg := wellFormed(u, v.Index(i), fmt.Sprintf("%s[%d]", path, i)); msg != "" {
					return msg
				}
			}
		} else {
			it := v.MapRange()
			for it.Next() {
				if msg := wellFormed(u, it.Key(), path+"[key]"); msg != "" {
					return msg
				}
				if msg := wellFormed(u, it.Value(), fmt.Sprintf("%s[%v]", path, it.Key())); msg != "" {
					return msg
				}
			}
		}
	case reflect.Array:
		for i := 0; i < v.Len(); i++ {
			if msg := wellFormed(u, v.Index(i), fmt.Sprintf("%s[%d]", path, i)); msg != "" {
				return msg
			}
		}
	case reflect.Pointer:
		if !v.IsNil() {
			return wellFormed(u, v.Elem(), path+"*")
		}
	}
	return ""
}

func valuesOf(vs []reflect.Value) []any {
	var out []any
	for _, v := range vs {
		out = append(out, v.Interface())
	}
	return out
}

// varies reports whether the generated function for t can return more than one value.
func varies(u *refwire.Universe, t reflect.Type, seen map[reflect.Type]bool) bool {
	return variesMode(u, t, seen, false)
}

// variesMode is varies; with saturated set, a map only counts as varying through its elements, or through
// keys of a type that is not an enum or a boolean: the generated code inserts 40 to 49 random entries, which
// (almost) always yields every key of an enum, so that such a map is the same on every call when its
// elements do not vary.
func variesMode(u *refwire.Universe, t reflect.Type, seen map[reflect.Type]bool, saturated bool) bool {
	if seen[t] {
		return false
	}
	seen[t] = true
	defer delete(seen, t)
	if _, ok := u.EnumAll[t]; ok {
		exp := u.EnumExported[t]
		for i := 1; i < len(exp); i++ {
			if !reflect.DeepEqual(exp[i].Interface(), exp[0].Interface()) {
				return true
			}
		}
		return false
	}
	if refwire.IsTimeLike(t) {
		return true
	}
	switch t.Kind() {
	case reflect.Bool, reflect.Int, reflect.Int8, reflect.Int16, reflect.Int32, reflect.Int64, reflect.Uint, reflect.Uint8, reflect.Uint16, reflect.Uint32, reflect.Uint64, reflect.Float32, reflect.Float64, reflect.String:
		return true
	case reflect.Slice:
		return true // random length
	case reflect.Map:
		// dozens of insertions: the number of entries only varies with the keys (a key type with one
		// value gives the same single entry every time)
		if saturated {
			_, keyIsEnum := u.EnumAll[t.Key()]
			if keyIsEnum || t.Key().Kind() == reflect.Bool {
				return variesMode(u, t.Elem(), seen, saturated)
			}
		}
		return variesMode(u, t.Key(), seen, saturated) || variesMode(u, t.Elem(), seen, saturated)
	case reflect.Array:
		return t.Len() > 0 && variesMode(u, t.Elem(), seen, saturated)
	case reflect.Pointer:
		return variesMode(u, t.Elem(), seen, saturated)
	case reflect.Struct:
		for i := 0; i < t.NumField(); i++ {
			f := t.Field(i)
			if !f.IsExported() || f.Tag.Get("gomacro-data") == "ignore" {
				continue
			}
			if variesMode(u, f.Type, seen, saturated) {
				return true
			}
		}
		return false
	case reflect.Interface:
		ms := u.Unions[t]
		if len(ms) >= 2 {
			return true
		}
		return len(ms) == 1 && variesMode(u, ms[0], seen, saturated)
	}
	return false
}

// smallDomain: types whose number of values is tiny (bool, small enums and structs of them).
func smallDomain(u *refwire.Universe, t reflect.Type) bool { return smallDomainD(u, t, 0) }

func smallDomainD(u *refwire.Universe, t reflect.Type, depth int) bool {
	if depth > 6 {
		return false
	}
	if _, ok := u.EnumAll[t]; ok {
		return true
	}
	switch t.Kind() {
	case reflect.Bool:
		return true
	case reflect.Interface:
		for _, m := range u.Unions[t] {
			if !smallDomainOrConst(u, m, depth+1) {
				return false
			}
		}
		return true
	case reflect.Struct:
		if refwire.IsTimeLike(t) {
			return false
		}
		for i := 0; i < t.NumField(); i++ {
			f := t.Field(i)
			if !f.IsExported() || f.Tag.Get("gomacro-data") == "ignore" {
				continue
			}
			if !smallDomainOrConst(u, f.Type, depth+1) {
				return false
			}
		}
		return true
	case reflect.Array:
		return smallDomainOrConst(u, t.Elem(), depth+1)
	}
	return false
}

func smallDomainOrConst(u *refwire.Universe, t reflect.Type, depth int) bool {
	return smallDomainD(u, t, depth) || !varies(u, t, map[reflect.Type]bool{})
}
