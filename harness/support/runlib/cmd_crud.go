package runlib

import (
	"database/sql"
	"encoding/json"
	"errors"
	"fmt"
	"math"
	"math/rand"
	"os"
	"reflect"
	"sort"
	"strings"
	"time"

	"verif/support/memdb"
	"verif/support/pgmodel"
	"verif/support/refwire"
)

func init() { commands["crud"] = cmdCrud }

// ---- truth table, as written by the synthesiser (JSON in the job options) ----

type crudFK struct {
	Target   string `json:"target"`
	OnDelete string `json:"on_delete"`
	Nullable bool   `json:"nullable"`
	Exists   bool   `json:"exists"`
}

type crudColumn struct {
	Field   string  `json:"field"`
	Kind    string  `json:"kind"`
	Domain  string  `json:"domain"`
	Primary bool    `json:"primary"`
	Guard   string  `json:"guard"`
	Unique  bool    `json:"unique"`
	FK      *crudFK `json:"fk"`
	// FirstTwo: a user CHECK restricts the column to the first two exported constants
	FirstTwo bool `json:"first_two"`
}

type crudQuery struct {
	Func     string   `json:"func"`
	ArgNames []string `json:"arg_names"`
	Fields   []string `json:"fields"`
	Execable bool     `json:"execable"`
}

type crudTable struct {
	Struct     string       `json:"struct"`
	SQLName    string       `json:"sql_name"`
	Primary    string       `json:"primary"`
	Columns    []crudColumn `json:"columns"`
	Uniques    [][]string   `json:"uniques"`
	PKs        [][]string   `json:"pks"`
	SelectKeys [][]string   `json:"select_keys"`
	Queries    []crudQuery  `json:"queries"`

	typ   reflect.Type
	rows  []reflect.Value // model: live rows in insertion order (primary and link tables alike)
	nextID int64
}

type crudTruth struct {
	Tables []*crudTable `json:"tables"`
	// Excluded: table structs of the file that the history does not drive (outside the
	// driver's domain, e.g. self-referencing keys); their functions are not called
	Excluded []string `json:"excluded"`
}

// ---- the history driver ----

type crudRun struct {
	o     *Out
	p     *Package
	u     *refwire.Universe
	rng   *rand.Rand
	store *memdb.Store
	db    *sql.DB
	tabs  map[string]*crudTable
	order []*crudTable
	used  map[string]bool // generated functions exercised
	uniq  int64
	failed bool
	steps int
}

func cmdCrud(o *Out, p *Package, j Job) {
	var truth crudTruth
	if err := json.Unmarshal([]byte(j.Opts["truth"]), &truth); err != nil {
		o.Emit(Event{Prog: p.ID, Kind: "harness-error", Message: "crud: bad truth: " + err.Error()})
		return
	}
	src, err := os.ReadFile(j.Opts["script"])
	if err != nil {
		o.Emit(Event{Prog: p.ID, Kind: "harness-error", Message: "crud: " + err.Error()})
		return
	}
	script, err := pgmodel.ParseScript(string(src))
	if err != nil {
		o.Violation(p.ID, "schema-parse", "the generated SQL script does not parse: "+err.Error())
		return
	}
	store := memdb.New(script)
	store.AllowSingleColumnRowUpdate = j.Opts["allow-single-column-row-update"] == "1"
	r := &crudRun{o: o, p: p, u: p.Universe(), rng: newRand(j.Seed, p.ID, "crud"), store: store, db: store.DB(), tabs: map[string]*crudTable{}, used: map[string]bool{}}
	for _, w := range store.Warnings() {
		o.Emit(Event{Prog: p.ID, Kind: "note", Message: "memdb warning: " + w})
	}
	for _, t := range truth.Tables {
		t.typ = p.TypeByName(t.Struct)
		if t.typ == nil {
			o.Emit(Event{Prog: p.ID, Kind: "harness-error", Message: "crud: no type " + t.Struct})
			return
		}
		r.tabs[t.Struct] = t
		r.order = append(r.order, t)
	}
	// histories
	for step := 0; step < j.N && !r.failed; step++ {
		t := r.order[r.rng.Intn(len(r.order))]
		r.steps++
		if t.Primary != "" {
			r.stepPrimary(t)
		} else {
			r.stepLink(t)
		}
	}
	// coverage pass: every kind of generated function is called at least once per table
	for _, t := range r.order {
		if r.failed {
			break
		}
		r.coverage(t)
	}
	// final sweep: whole-table agreement for every table
	for _, t := range r.order {
		if !r.failed {
			r.checkSelectAll(t)
		}
	}
	// which generated functions were never exercised
	var unused, unclassified []string
	for name := range p.Funcs {
		if r.used[name] {
			continue
		}
		switch {
		case strings.HasPrefix(name, "rand"), strings.HasSuffix(name, ".MarshalJSON"), strings.HasSuffix(name, ".UnmarshalJSON"):
		case strings.HasSuffix(name, ".Scan"), strings.HasSuffix(name, ".Value"), name == "loadJSON", name == "dumpJSON":
			// Valuer/Scanner pairs are exercised through every statement touching their column
		case strings.HasPrefix(name, "scanOne"), strings.HasPrefix(name, "Scan"):
		default:
			if r.classify(name) == "" {
				ofExcluded := false
				for _, x := range truth.Excluded {
					if strings.Contains(name, x) {
						ofExcluded = true
					}
				}
				if ofExcluded {
					continue
				}
				unclassified = append(unclassified, name)
			} else {
				unused = append(unused, name)
			}
		}
	}
	sort.Strings(unused)
	sort.Strings(unclassified)
	o.Emit(Event{Prog: p.ID, Kind: "crud-summary", Data: map[string]any{"steps": r.steps, "functions_exercised": len(r.used), "not_exercised": unused, "unclassified": unclassified, "statements": len(store.Events())}})
	o.Count("crud-statements", len(store.Events()))
	o.Count("crud-steps", r.steps)
}

// classify says what a generated function is (Appendix B of DESIGN.md); "" = unknown.
func (r *crudRun) classify(name string) string {
	for _, t := range r.order {
		T := t.Struct
		switch {
		case name == T+".Insert", name == T+".Update", name == T+".Delete", name == "Select"+T, name == "Select"+T+"s", name == "SelectAll"+T+"s",
			name == "Delete"+T+"ById", name == "Delete"+T+"sByIDs", name == "InsertMany"+T+"s", name == T+"s.IDs":
			return "crud"
		case strings.HasPrefix(name, "Select"+T+"sBy"), strings.HasPrefix(name, "Delete"+T+"sBy"), strings.HasPrefix(name, "Select"+T+"By"):
			return "lookup"
		case strings.HasPrefix(name, T+"s.By"), strings.HasPrefix(name, T+"s."):
			return "map-helper"
		}
		for _, q := range t.Queries {
			if q.Func == name {
				return "custom-query"
			}
		}
	}
	switch {
	case strings.HasSuffix(name, "ArrayToPQ"), strings.HasSuffix(name, "Set.Add"), strings.HasSuffix(name, "Set.Has"), strings.HasSuffix(name, "Set.Keys"), strings.HasPrefix(name, "New") && strings.HasSuffix(name, "SetFrom"):
		return "id-helper"
	}
	return ""
}

func (r *crudRun) fn(name string) (reflect.Value, bool) {
	f, ok := r.p.Funcs[name]
	if !ok {
		return reflect.Value{}, false
	}
	r.used[name] = true
	return reflect.ValueOf(f), true
}

// call invokes a generated function; the last result is the error.
func (r *crudRun) call(name string, args ...reflect.Value) ([]reflect.Value, bool) {
	f, ok := r.fn(name)
	if !ok {
		return nil, false
	}
	r.o.Begin(r.p.ID, "crud", name)
	nEvents := len(r.store.Events())
	var out []reflect.Value
	if pan := Guard(func() { out = f.Call(args) }); pan != "" {
		r.violate("crud-panic:"+NormalizePanic(pan), "%s panicked: %s", name, pan)
		return nil, false
	}
	r.o.Count("crud-calls", 1)
	if len(out) > 0 {
		if errv := out[len(out)-1]; errv.Type().Implements(reflect.TypeOf((*error)(nil)).Elem()) && !errv.IsNil() {
			err := errv.Interface().(error)
			var unsup *memdb.UnsupportedError
			evs := r.store.Events()
			last := ""
			if len(evs) > nEvents {
				e := evs[len(evs)-1]
				last = fmt.Sprintf("\n  statement: %s\n  args: %v", strings.TrimSpace(e.SQL), e.Args)
			}
			if errors.As(err, &unsup) || strings.Contains(err.Error(), "memdb: unsupported") {
				r.o.Emit(Event{Prog: r.p.ID, Kind: "unsupported", Message: fmt.Sprintf("%s: %v%s", name, err, last)})
				r.failed = true // the model and the store may have diverged: stop this history (inconclusive)
				return out, false
			}
			r.violate("sql-error:"+kindOf(name, r)+":"+classifySQLError(err.Error()), "%s returned an error against a database implementing exactly the generated schema: %v%s", name, err, last)
			return out, false
		}
	}
	return out, true
}

func (r *crudRun) violate(sig, format string, args ...any) {
	r.o.Violation(r.p.ID, sig, fmt.Sprintf(format, args...)+r.historyTail())
	r.failed = true
}

func (r *crudRun) historyTail() string {
	evs := r.store.Events()
	var sb strings.Builder
	sb.WriteString("\n  last statements of the history:")
	start := len(evs) - 6
	if start < 0 {
		start = 0
	}
	for _, e := range evs[start:] {
		fmt.Fprintf(&sb, "\n    [%s] %s  args=%v err=%q", e.Kind, strings.Join(strings.Fields(e.SQL), " "), e.Args, e.Err)
	}
	return sb.String()
}

// kindOf generalises a function name for signatures (table names replaced).
func kindOf(name string, r *crudRun) string {
	// longest struct name first
	var names []string
	for _, t := range r.order {
		names = append(names, t.Struct)
	}
	sort.Slice(names, func(i, j int) bool { return len(names[i]) > len(names[j]) })
	for _, n := range names {
		if strings.Contains(name, n) {
			rest := strings.Replace(name, n, "T", 1)
			if i := strings.Index(rest, "By"); i >= 0 && !strings.HasSuffix(rest, "ById") && !strings.HasSuffix(rest, "ByIDs") {
				rest = rest[:i+2] + "X"
			}
			return rest
		}
	}
	return "fn"
}

func classifySQLError(s string) string {
	var sb strings.Builder
	for _, w := range strings.Fields(s) {
		if strings.ContainsAny(w, `"'$0123456789_()`) || w != strings.ToLower(w) {
			sb.WriteString("X ")
		} else {
			sb.WriteString(w + " ")
		}
	}
	out := strings.TrimSpace(sb.String())
	if len(out) > 70 {
		out = out[:70]
	}
	return out
}

// ---- row building ----

func (t *crudTable) col(field string) *crudColumn {
	for i := range t.Columns {
		if t.Columns[i].Field == field {
			return &t.Columns[i]
		}
	}
	return nil
}

func (t *crudTable) id(row reflect.Value) int64 { return row.FieldByName(t.Primary).Int() }

// newRow builds a row respecting the column domains and the constraints the
// model knows about (parents exist, unique values fresh). ok=false when a
// required parent does not exist yet.
func (r *crudRun) newRow(t *crudTable) (reflect.Value, bool) {
	v, gaveUp := r.u.Build(r.rng, t.typ, refwire.BuildOpts{MaxDepth: 3})
	if gaveUp {
		return v, false
	}
	uniqueCols := map[string]bool{}
	for _, u := range t.Uniques {
		uniqueCols[u[len(u)-1]] = true // making one column of each set fresh is enough
	}
	for _, pk := range t.PKs {
		uniqueCols[pk[len(pk)-1]] = true
	}
	for i := range t.Columns {
		c := &t.Columns[i]
		f := v.FieldByName(c.Field)
		if !f.IsValid() || !f.CanSet() {
			continue // guards are unexported
		}
		if c.Primary {
			f.SetInt(0)
			continue
		}
		if c.FK != nil {
			if !c.FK.Exists {
				return v, false
			}
			parent := r.tabs[c.FK.Target]
			if c.FK.Nullable {
				useNull := len(parent.rows) == 0 || r.rng.Intn(3) == 0
				id := parentID(parent, r.rng)
				if !useNull && (c.Unique || uniqueCols[c.Field]) {
					// a unique nullable key: a parent no live row points to, else NULL
					free := int64(0)
					for _, pr := range parent.rows {
						pid := parent.id(pr)
						taken := false
						for _, row := range t.rows {
							if k, valid := nullableID(row.FieldByName(c.Field)); valid && k == pid {
								taken = true
							}
						}
						if !taken {
							free = pid
							break
						}
					}
					if free == 0 {
						useNull = true
					} else {
						id = free
					}
				}
				setNullableID(f, useNull, id)
				continue
			}
			if len(parent.rows) == 0 {
				return v, false
			}
			f.SetInt(parentID(parent, r.rng))
			if c.Unique || uniqueCols[c.Field] {
				// a fresh parent for a unique key
				free := int64(0)
				for _, pr := range parent.rows {
					id := parent.id(pr)
					taken := false
					for _, row := range t.rows {
						if row.FieldByName(c.Field).Int() == id {
							taken = true
						}
					}
					if !taken {
						free = id
						break
					}
				}
				if free == 0 {
					return v, false
				}
				f.SetInt(free)
			}
			continue
		}
		r.fitDomain(f, c.Domain)
		if c.FirstTwo {
			if consts := r.u.EnumExported[f.Type()]; len(consts) >= 2 {
				f.Set(consts[r.rng.Intn(2)])
			}
		}
		if c.Unique || uniqueCols[c.Field] {
			r.uniq++
			_, isEnumCol := r.u.EnumAll[f.Type()]
			switch {
			case isEnumCol:
				// small domain: left as drawn
			case f.Kind() == reflect.String:
				f.SetString(fmt.Sprintf("u%d-%s", r.uniq, r.p.ID))
			}
			switch f.Kind() {
			case reflect.Int, reflect.Int8, reflect.Int16, reflect.Int32, reflect.Int64:
				if _, isEnum := r.u.EnumAll[f.Type()]; !isEnum {
					f.SetInt(1000 + r.uniq)
				}
			case reflect.Uint, reflect.Uint8, reflect.Uint16, reflect.Uint32, reflect.Uint64:
				if _, isEnum := r.u.EnumAll[f.Type()]; !isEnum {
					f.SetUint(uint64(1000+r.uniq) % 60000)
				}
			}
		}
	}
	return v, true
}

func parentID(parent *crudTable, rng *rand.Rand) int64 {
	if len(parent.rows) == 0 {
		return 0
	}
	return parent.id(parent.rows[rng.Intn(len(parent.rows))])
}

// setNullableID fills a {Valid bool; X int64-like} wrapper.
func setNullableID(f reflect.Value, null bool, id int64) {
	for i := 0; i < f.NumField(); i++ {
		sf := f.Field(i)
		if f.Type().Field(i).Name == "Valid" {
			sf.SetBool(!null)
		} else if sf.CanInt() {
			if null {
				sf.SetInt(0)
			} else {
				sf.SetInt(id)
			}
		}
	}
}

func nullableID(f reflect.Value) (id int64, valid bool) {
	for i := 0; i < f.NumField(); i++ {
		sf := f.Field(i)
		if f.Type().Field(i).Name == "Valid" {
			valid = sf.Bool()
		} else if sf.CanInt() {
			id = sf.Int()
		}
	}
	return
}

// fitDomain moves a built value inside what the emitted column type can hold.
func (r *crudRun) fitDomain(f reflect.Value, domain string) {
	switch {
	case strings.HasPrefix(domain, "array:"):
		elemDom := strings.TrimPrefix(domain, "array:")
		if f.Kind() == reflect.Slice || f.Kind() == reflect.Array {
			for i := 0; i < f.Len(); i++ {
				r.fitDomain(f.Index(i), elemDom)
			}
		}
		return
	case strings.HasPrefix(domain, "null:"):
		valid := true
		for i := 0; i < f.NumField(); i++ {
			if f.Type().Field(i).Name == "Valid" {
				valid = f.Field(i).Bool()
			}
		}
		for i := 0; i < f.NumField(); i++ {
			if f.Type().Field(i).Name == "Valid" {
				continue
			}
			if !valid {
				f.Field(i).Set(reflect.Zero(f.Field(i).Type()))
			} else {
				r.fitDomain(f.Field(i), strings.TrimPrefix(domain, "null:"))
			}
		}
		return
	case domain == "composite":
		for i := 0; i < f.NumField(); i++ {
			if _, isEnum := r.u.EnumAll[f.Field(i).Type()]; !isEnum {
				r.fitDomain(f.Field(i), "int32")
			}
		}
		return
	}
	switch f.Kind() {
	case reflect.Int, reflect.Int64, reflect.Int32:
		if domain == "enum" {
			return
		}
		x := f.Int()
		if x > math.MaxInt32 || x < math.MinInt32 {
			f.SetInt(x % 100000)
		}
	case reflect.Uint, reflect.Uint32, reflect.Uint64:
		if domain == "enum" {
			return
		}
		if f.Uint() > math.MaxInt32 {
			f.SetUint(f.Uint() % 100000)
		}
	case reflect.Uint16:
		// smallint would overflow above 32767 but uint16 maps to integer: fine
	case reflect.Float32, reflect.Float64:
		f.SetFloat(float64(float32(math.Round(f.Float()*8) / 8)))
	case reflect.String:
		f.SetString(strings.ReplaceAll(f.String(), "\x00", ""))
	}
}

// ---- comparisons ----

func (r *crudRun) sameRow(got, want reflect.Value, what string) bool {
	if d := refwire.Equal(got, want, what); d != "" {
		r.violate("model-mismatch:row:"+diffClass(d), "%s: the database row differs from the model: %s\n  got:  %s\n  want: %s", what, d, goString(got), goString(want))
		return false
	}
	return true
}

func (t *crudTable) find(id int64) (int, bool) {
	for i, row := range t.rows {
		if t.id(row) == id {
			return i, true
		}
	}
	return -1, false
}

// compareMap checks a returned map[ID]T against the expected rows.
func (r *crudRun) compareMap(t *crudTable, got reflect.Value, want []reflect.Value, what string) bool {
	if got.Kind() != reflect.Map {
		r.violate("model-mismatch:shape", "%s: result is %s, want a map", what, got.Type())
		return false
	}
	if got.Len() != len(want) {
		r.violate("model-mismatch:row-set", "%s: %d rows returned, the model has %d matching rows", what, got.Len(), len(want))
		return false
	}
	for _, w := range want {
		k := reflect.ValueOf(t.id(w)).Convert(got.Type().Key())
		g := got.MapIndex(k)
		if !g.IsValid() {
			r.violate("model-mismatch:row-set", "%s: row with id %d is missing from the result", what, t.id(w))
			return false
		}
		if !r.sameRow(g, w, what) {
			return false
		}
	}
	return true
}

func (r *crudRun) compareSlice(t *crudTable, got reflect.Value, want []reflect.Value, what string) bool {
	if got.Len() != len(want) {
		r.violate("model-mismatch:row-set", "%s: %d rows returned, the model has %d matching rows", what, got.Len(), len(want))
		return false
	}
	// multiset comparison: order is not part of the contract
	usedIdx := map[int]bool{}
	for i := 0; i < got.Len(); i++ {
		found := false
		for j, w := range want {
			if !usedIdx[j] && refwire.Equal(got.Index(i), w, "") == "" {
				usedIdx[j], found = true, true
				break
			}
		}
		if !found {
			r.violate("model-mismatch:row-set", "%s: returned row %s matches no row of the model", what, goString(got.Index(i)))
			return false
		}
	}
	return true
}

func (r *crudRun) dbArg() reflect.Value { return reflect.ValueOf(r.db) }

func (r *crudRun) checkSelectAll(t *crudTable) {
	out, ok := r.call("SelectAll"+t.Struct+"s", r.dbArg())
	if !ok {
		return
	}
	if t.Primary != "" {
		if r.compareMap(t, out[0], t.rows, "SelectAll"+t.Struct+"s") {
			r.helpers(t, out[0])
		}
	} else {
		if r.compareSlice(t, out[0], t.rows, "SelectAll"+t.Struct+"s") {
			r.helpers(t, out[0])
		}
	}
}

// helpers exercises the pure map/slice helpers on a table-wide result.
func (r *crudRun) helpers(t *crudTable, all reflect.Value) {
	if t.Primary != "" {
		if f, ok := r.fn(t.Struct + "s.IDs"); ok {
			ids := f.Call([]reflect.Value{all})[0]
			if ids.Len() != len(t.rows) {
				r.violate("model-mismatch:helper", "%ss.IDs() returned %d ids for %d rows", t.Struct, ids.Len(), len(t.rows))
			}
		}
	}
	for i := range t.Columns {
		c := &t.Columns[i]
		if c.FK == nil || c.FK.Nullable {
			continue
		}
		if f, ok := r.fn(t.Struct + "s.By" + c.Field); ok {
			m := f.Call([]reflect.Value{all})[0]
			// every row must be found under its key
			groups := map[int64]int{}
			for _, row := range t.rows {
				groups[row.FieldByName(c.Field).Int()]++
			}
			if m.Len() != len(groups) {
				r.violate("model-mismatch:helper", "%ss.By%s() has %d keys, the model has %d distinct keys", t.Struct, c.Field, m.Len(), len(groups))
				return
			}
			for k, n := range groups {
				e := m.MapIndex(reflect.ValueOf(k).Convert(m.Type().Key()))
				if !e.IsValid() {
					r.violate("model-mismatch:helper", "%ss.By%s() lacks key %d", t.Struct, c.Field, k)
					return
				}
				if (e.Kind() == reflect.Map || e.Kind() == reflect.Slice) && e.Len() != n && !c.Unique {
					r.violate("model-mismatch:helper", "%ss.By%s()[%d] holds %d rows, the model has %d", t.Struct, c.Field, k, e.Len(), n)
					return
				}
			}
		}
		if f, ok := r.fn(t.Struct + "s." + c.Field + "s"); ok {
			l := f.Call([]reflect.Value{all})[0]
			if l.Len() != len(t.rows) {
				r.violate("model-mismatch:helper", "%ss.%ss() returned %d keys for %d rows", t.Struct, c.Field, l.Len(), len(t.rows))
			}
		}
	}
}

// ---- primary tables ----

func (r *crudRun) stepPrimary(t *crudTable) {
	T := t.Struct
	op := r.rng.Intn(20)
	if len(t.rows) == 0 {
		op = 0
	}
	idArg := func(id int64) reflect.Value {
		sf, _ := t.typ.FieldByName(t.Primary)
		return reflect.ValueOf(id).Convert(sf.Type)
	}
	randRow := func() reflect.Value { return t.rows[r.rng.Intn(len(t.rows))] }
	switch {
	case op < 7: // insert
		row, ok := r.newRow(t)
		if !ok {
			return
		}
		out, ok := r.call(T+".Insert", row, r.dbArg())
		if !ok {
			return
		}
		t.nextID++
		want := reflect.New(t.typ).Elem()
		want.Set(row)
		want.FieldByName(t.Primary).SetInt(t.nextID)
		if !r.sameRow(out[0], want, T+".Insert result") {
			return
		}
		t.rows = append(t.rows, want)
		r.o.Distinct(fmt.Sprintf("%s|%s|insert|%d", r.p.ID, T, len(t.rows)))
	case op < 9: // select one
		want := randRow()
		out, ok := r.call("Select"+T, r.dbArg(), idArg(t.id(want)))
		if ok {
			r.sameRow(out[0], want, "Select"+T)
		}
	case op == 9: // select a missing id: sql.ErrNoRows expected
		f, ok := r.fn("Select" + T)
		if !ok {
			return
		}
		res := f.Call([]reflect.Value{r.dbArg(), idArg(t.nextID + 1000)})
		if err, _ := res[1].Interface().(error); err != sql.ErrNoRows {
			r.violate("model-mismatch:missing-row", "Select%s of an absent id returned error %v, want sql.ErrNoRows", T, err)
		}
	case op == 10: // select many
		var ids []reflect.Value
		var want []reflect.Value
		seen := map[int64]bool{}
		for i := 0; i < 1+r.rng.Intn(3); i++ {
			row := randRow()
			if !seen[t.id(row)] {
				seen[t.id(row)] = true
				want = append(want, row)
			}
			ids = append(ids, idArg(t.id(row)))
		}
		ids = append(ids, idArg(t.nextID+500)) // absent id
		out, ok := r.call("Select"+T+"s", append([]reflect.Value{r.dbArg()}, ids...)...)
		if ok {
			r.compareMap(t, out[0], want, "Select"+T+"s")
		}
	case op == 11:
		r.checkSelectAll(t)
	case op < 14: // update
		old := randRow()
		row, ok := r.newRow(t)
		if !ok {
			return
		}
		row.FieldByName(t.Primary).SetInt(t.id(old))
		// keep the guards (unexported) as the model has them: they are not written
		out, ok := r.call(T+".Update", row, r.dbArg())
		if !ok {
			return
		}
		if !r.sameRow(out[0], row, T+".Update result") {
			return
		}
		i, _ := t.find(t.id(old))
		t.rows[i] = row
		// a following select must see the new version
		if got, ok := r.call("Select"+T, r.dbArg(), idArg(t.id(old))); ok {
			r.sameRow(got[0], row, "Select"+T+" after Update")
		}
	case op < 16: // delete by id (only rows nothing restricts)
		row := randRow()
		if !r.deletable(t, []int64{t.id(row)}) {
			return
		}
		out, ok := r.call("Delete"+T+"ById", r.dbArg(), idArg(t.id(row)))
		if !ok {
			return
		}
		if !r.sameRow(out[0], row, "Delete"+T+"ById result") {
			return
		}
		r.modelDelete(t, []int64{t.id(row)})
	case op == 16: // delete by ids
		row := randRow()
		ids := []int64{t.id(row)}
		if !r.deletable(t, ids) {
			return
		}
		out, ok := r.call("Delete"+T+"sByIDs", r.dbArg(), idArg(ids[0]), idArg(t.nextID+77))
		if !ok {
			return
		}
		if out[0].Len() != 1 || out[0].Index(0).Int() != ids[0] {
			r.violate("model-mismatch:deleted-ids", "Delete%ssByIDs returned %v, want [%d]", T, out[0].Interface(), ids[0])
			return
		}
		r.modelDelete(t, ids)
	default:
		r.lookups(t)
	}
}

// deletable reports whether deleting the ids is allowed by the constraints
// (no child row with a restricting foreign key, recursively through cascades).
func (r *crudRun) deletable(t *crudTable, ids []int64) bool {
	idSet := map[int64]bool{}
	for _, id := range ids {
		idSet[id] = true
	}
	for _, child := range r.order {
		for i := range child.Columns {
			c := &child.Columns[i]
			if c.FK == nil || c.FK.Target != t.Struct || !c.FK.Exists {
				continue
			}
			var childIDs []int64
			hit := false
			for _, row := range child.rows {
				var ref int64
				valid := true
				if c.FK.Nullable {
					ref, valid = nullableID(row.FieldByName(c.Field))
				} else {
					ref = row.FieldByName(c.Field).Int()
				}
				if valid && idSet[ref] {
					hit = true
					if child.Primary != "" {
						childIDs = append(childIDs, child.id(row))
					}
				}
			}
			if !hit {
				continue
			}
			switch c.FK.OnDelete {
			case "CASCADE":
				if child.Primary != "" && !r.deletable(child, childIDs) {
					return false
				}
			case "SET NULL":
			default:
				return false
			}
		}
	}
	return true
}

// modelDelete removes rows from the model applying the ON DELETE actions.
func (r *crudRun) modelDelete(t *crudTable, ids []int64) {
	idSet := map[int64]bool{}
	for _, id := range ids {
		idSet[id] = true
	}
	var keep []reflect.Value
	for _, row := range t.rows {
		if !idSet[t.id(row)] {
			keep = append(keep, row)
		}
	}
	t.rows = keep
	for _, child := range r.order {
		for i := range child.Columns {
			c := &child.Columns[i]
			if c.FK == nil || c.FK.Target != t.Struct || !c.FK.Exists {
				continue
			}
			var keepC []reflect.Value
			var cascaded []int64
			for _, row := range child.rows {
				var ref int64
				valid := true
				if c.FK.Nullable {
					ref, valid = nullableID(row.FieldByName(c.Field))
				} else {
					ref = row.FieldByName(c.Field).Int()
				}
				if !valid || !idSet[ref] {
					keepC = append(keepC, row)
					continue
				}
				switch c.FK.OnDelete {
				case "CASCADE":
					if child.Primary != "" {
						cascaded = append(cascaded, child.id(row))
					}
				case "SET NULL":
					nr := reflect.New(child.typ).Elem()
					nr.Set(row)
					setNullableID(nr.FieldByName(c.Field), true, 0)
					keepC = append(keepC, nr)
				}
			}
			child.rows = keepC
			if len(cascaded) > 0 {
				// rows already removed from child.rows; propagate to grand-children
				r.modelDelete(child, cascaded)
			}
		}
	}
}

// lookups exercises by-foreign-key, by-unique and by-select-key functions.
func (r *crudRun) lookups(t *crudTable) {
	T := t.Struct
	if len(t.rows) == 0 {
		return
	}
	sample := t.rows[r.rng.Intn(len(t.rows))]
	for i := range t.Columns {
		c := &t.Columns[i]
		if c.FK == nil || !c.FK.Exists {
			continue
		}
		name := "Select" + T + "sBy" + c.Field + "s"
		f, ok := r.fn(name)
		if !ok {
			continue
		}
		var key int64
		valid := true
		if c.FK.Nullable {
			key, valid = nullableID(sample.FieldByName(c.Field))
		} else {
			key = sample.FieldByName(c.Field).Int()
		}
		if !valid {
			continue
		}
		var want []reflect.Value
		for _, row := range t.rows {
			var k int64
			v := true
			if c.FK.Nullable {
				k, v = nullableID(row.FieldByName(c.Field))
			} else {
				k = row.FieldByName(c.Field).Int()
			}
			if v && k == key {
				want = append(want, row)
			}
		}
		keyArg := reflect.ValueOf(key).Convert(f.Type().In(1).Elem())
		out, ok := r.call(name, r.dbArg(), keyArg)
		if !ok {
			return
		}
		if t.Primary != "" {
			if !r.compareMap(t, out[0], want, name) {
				return
			}
		} else if !r.compareSlice(t, out[0], want, name) {
			return
		}
		if _, exists := r.fn("Select" + T + "By" + c.Field); exists && !c.Unique && len(want) >= 2 {
			// a single-row lookup generated for a key the schema does not make unique
			// (e.g. a column that is only PART of a composite UNIQUE / PRIMARY KEY)
			r.call("Select"+T+"By"+c.Field, r.dbArg(), keyArg)
			r.violate("model-mismatch:single-row-lookup-on-non-unique-key", "Select%sBy%s returns one row but %d rows of the model (admitted by the generated schema) match key %d: it cannot return exactly the matching rows", T, c.Field, len(want), key)
			return
		}
		if c.Unique {
			if out, ok := r.call("Select"+T+"By"+c.Field, r.dbArg(), keyArg); ok {
				if !out[1].Bool() || !r.sameRow(out[0], want[0], "Select"+T+"By"+c.Field) {
					if !out[1].Bool() {
						r.violate("model-mismatch:unique-lookup", "Select%sBy%s did not find an existing row", T, c.Field)
					}
					return
				}
			}
		}
	}
	// additional unique columns (not a single foreign key)
	for _, u := range t.Uniques {
		if len(u) == 1 && t.col(u[0]) != nil && t.col(u[0]).FK != nil {
			continue
		}
		name := "Select" + T + "By" + strings.Join(u, "And")
		f, ok := r.fn(name)
		if !ok {
			continue
		}
		args := []reflect.Value{r.dbArg()}
		for k, col := range u {
			args = append(args, sample.FieldByName(col).Convert(f.Type().In(1+k)))
		}
		out, ok := r.call(name, args...)
		if !ok {
			return
		}
		if !out[1].Bool() {
			r.violate("model-mismatch:unique-lookup", "%s did not find the row it was given the key of", name)
			return
		}
		if !r.sameRow(out[0], sample, name) {
			return
		}
	}
	for _, keys := range t.SelectKeys {
		name := "Select" + T + "sBy" + strings.Join(keys, "And")
		f, ok := r.fn(name)
		if !ok {
			continue
		}
		args := []reflect.Value{r.dbArg()}
		for k, col := range keys {
			args = append(args, sample.FieldByName(col).Convert(f.Type().In(1+k)))
		}
		var want []reflect.Value
		for _, row := range t.rows {
			match := true
			for _, col := range keys {
				if refwire.Equal(row.FieldByName(col), sample.FieldByName(col), "") != "" {
					match = false
				}
			}
			if match {
				want = append(want, row)
			}
		}
		out, ok := r.call(name, args...)
		if !ok {
			return
		}
		if t.Primary != "" {
			if !r.compareMap(t, out[0], want, name) {
				return
			}
		} else if !r.compareSlice(t, out[0], want, name) {
			return
		}
	}
	// executable custom queries: run them, the statement must be accepted by the schema
	for _, q := range t.Queries {
		if !q.Execable {
			continue
		}
		// a query writing a column under a UNIQUE constraint would copy one value to several rows
		inUnique := false
		for _, set := range append(append([][]string{}, t.Uniques...), t.PKs...) {
			for _, col := range set {
				if len(q.Fields) > 0 && col == q.Fields[0] {
					inUnique = true
				}
			}
		}
		if inUnique {
			continue
		}
		f, ok := r.fn(q.Func)
		if !ok {
			continue
		}
		args := []reflect.Value{r.dbArg()}
		for k, field := range q.Fields {
			args = append(args, sample.FieldByName(field).Convert(f.Type().In(1+k)))
		}
		if _, ok := r.call(q.Func, args...); !ok {
			return
		}
		// model: UPDATE t SET <Fields[0]> = arg0 WHERE <Fields[1]> = arg1
		if len(q.Fields) == 2 {
			for i, row := range t.rows {
				if refwire.Equal(row.FieldByName(q.Fields[1]), sample.FieldByName(q.Fields[1]), "") == "" {
					nr := reflect.New(t.typ).Elem()
					nr.Set(row)
					nr.FieldByName(q.Fields[0]).Set(sample.FieldByName(q.Fields[0]))
					t.rows[i] = nr
				}
			}
		}
	}
}

// ---- link tables ----

func (r *crudRun) stepLink(t *crudTable) {
	T := t.Struct
	op := r.rng.Intn(10)
	if len(t.rows) == 0 {
		op = 0
	}
	switch {
	case op < 4: // insert
		row, ok := r.newRow(t)
		if !ok {
			return
		}
		if _, ok := r.call(T+".Insert", row, r.dbArg()); !ok {
			return
		}
		t.rows = append(t.rows, row)
		r.o.Distinct(fmt.Sprintf("%s|%s|link-insert|%d", r.p.ID, T, len(t.rows)))
	case op == 4: // insert many through COPY in a transaction
		var items []reflect.Value
		for i := 0; i < 1+r.rng.Intn(3); i++ {
			row, ok := r.newRow(t)
			if !ok {
				return
			}
			// rows of one batch must not collide on unique columns: newRow draws fresh values,
			// but unique foreign keys are looked up in the model only
			if len(t.Uniques)+len(t.PKs) > 0 && i > 0 {
				break
			}
			items = append(items, row)
		}
		f, ok := r.fn("InsertMany" + T + "s")
		if !ok {
			return
		}
		tx, err := r.db.Begin()
		if err != nil {
			r.violate("sql-error:begin", "Begin failed: %v", err)
			return
		}
		_ = f
		if _, ok := r.call("InsertMany"+T+"s", append([]reflect.Value{reflect.ValueOf(tx)}, items...)...); !ok {
			tx.Rollback()
			return
		}
		if err := tx.Commit(); err != nil {
			r.violate("sql-error:commit", "Commit after InsertMany%ss failed: %v", T, err)
			return
		}
		t.rows = append(t.rows, items...)
	case op == 5:
		r.checkSelectAll(t)
	case op < 8: // delete by the foreign keys of one item
		item := t.rows[r.rng.Intn(len(t.rows))]
		if _, ok := r.call(T+".Delete", item, r.dbArg()); !ok {
			return
		}
		var keep []reflect.Value
		for _, row := range t.rows {
			same := true
			for i := range t.Columns {
				c := &t.Columns[i]
				if c.FK == nil {
					continue
				}
				if refwire.Equal(row.FieldByName(c.Field), item.FieldByName(c.Field), "") != "" {
					same = false
				}
			}
			if !same {
				keep = append(keep, row)
			}
		}
		t.rows = keep
		r.checkSelectAll(t)
	case op == 8: // delete by one foreign key
		item := t.rows[r.rng.Intn(len(t.rows))]
		for i := range t.Columns {
			c := &t.Columns[i]
			if c.FK == nil || c.FK.Nullable || !c.FK.Exists {
				continue
			}
			name := "Delete" + T + "sBy" + c.Field + "s"
			f, ok := r.fn(name)
			if !ok {
				continue
			}
			key := item.FieldByName(c.Field).Int()
			var want, keep []reflect.Value
			for _, row := range t.rows {
				if row.FieldByName(c.Field).Int() == key {
					want = append(want, row)
				} else {
					keep = append(keep, row)
				}
			}
			out, ok := r.call(name, r.dbArg(), reflect.ValueOf(key).Convert(f.Type().In(1).Elem()))
			if !ok {
				return
			}
			if !r.compareSlice(t, out[0], want, name) {
				return
			}
			t.rows = keep
			break
		}
	default:
		r.lookups(t)
	}
}

var _ = time.Now

// coverage drives one call of every function kind of a table.
func (r *crudRun) coverage(t *crudTable) {
	T := t.Struct
	// make sure rows exist (parents first: tables are declared parents before children)
	for i := 0; i < 3 && !r.failed; i++ {
		row, ok := r.newRow(t)
		if !ok {
			break
		}
		if t.Primary != "" {
			out, ok := r.call(T+".Insert", row, r.dbArg())
			if !ok {
				return
			}
			t.nextID++
			want := reflect.New(t.typ).Elem()
			want.Set(row)
			want.FieldByName(t.Primary).SetInt(t.nextID)
			if !r.sameRow(out[0], want, T+".Insert result") {
				return
			}
			t.rows = append(t.rows, want)
		} else {
			if _, ok := r.call(T+".Insert", row, r.dbArg()); !ok {
				return
			}
			t.rows = append(t.rows, row)
		}
	}
	if len(t.rows) == 0 || r.failed {
		return
	}
	r.lookups(t)
	if r.failed {
		return
	}
	if t.Primary == "" {
		return
	}
	sf, _ := t.typ.FieldByName(t.Primary)
	idArg := func(id int64) reflect.Value { return reflect.ValueOf(id).Convert(sf.Type) }
	// update
	old := t.rows[0]
	if row, ok := r.newRow(t); ok {
		row.FieldByName(t.Primary).SetInt(t.id(old))
		out, ok := r.call(T+".Update", row, r.dbArg())
		if !ok {
			return
		}
		if !r.sameRow(out[0], row, T+".Update result") {
			return
		}
		t.rows[0] = row
	}
	// id set helpers (generate-sets)
	idName := sf.Type.Name()
	if f, ok := r.fn("New" + idName + "SetFrom"); ok {
		ids := reflect.MakeSlice(reflect.SliceOf(sf.Type), 0, 2)
		ids = reflect.Append(ids, idArg(1), idArg(2))
		set := f.Call([]reflect.Value{ids})[0]
		if has, ok := r.fn(idName + "Set.Has"); ok {
			if !has.Call([]reflect.Value{set, idArg(1)})[0].Bool() || has.Call([]reflect.Value{set, idArg(5)})[0].Bool() {
				r.violate("model-mismatch:set-helper", "%sSet.Has gives wrong answers", idName)
				return
			}
		}
		if add, ok := r.fn(idName + "Set.Add"); ok {
			add.Call([]reflect.Value{set, idArg(5)})
		}
		if keys, ok := r.fn(idName + "Set.Keys"); ok {
			if n := keys.Call([]reflect.Value{set})[0].Len(); n != 3 {
				r.violate("model-mismatch:set-helper", "%sSet.Keys returned %d keys, want 3", idName, n)
				return
			}
		}
	}
	// delete by foreign key: only when nothing restricts the victims
	for i := range t.Columns {
		c := &t.Columns[i]
		if c.FK == nil || c.FK.Nullable || !c.FK.Exists {
			continue
		}
		name := "Delete" + T + "sBy" + c.Field + "s"
		f, ok := r.p.Funcs[name]
		if !ok {
			continue
		}
		key := t.rows[len(t.rows)-1].FieldByName(c.Field).Int()
		var victims []int64
		for _, row := range t.rows {
			if row.FieldByName(c.Field).Int() == key {
				victims = append(victims, t.id(row))
			}
		}
		if !r.deletable(t, victims) {
			continue
		}
		out, ok := r.call(name, r.dbArg(), reflect.ValueOf(key).Convert(reflect.TypeOf(f).In(1).Elem()))
		if !ok {
			return
		}
		if out[0].Len() != len(victims) {
			r.violate("model-mismatch:deleted-ids", "%s returned %d ids, the model deletes %d rows", name, out[0].Len(), len(victims))
			return
		}
		r.modelDelete(t, victims)
		break
	}
}
