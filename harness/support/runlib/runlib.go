// Package runlib is the runner side of the harness: program packages register
// their types, constants and generated functions (files tagged verifrun), the
// runner main dispatches jobs and writes JSONL event logs.
package runlib

import (
	"bufio"
	"encoding/json"
	"fmt"
	"os"
	"reflect"
	"runtime/debug"
	"sort"
	"strings"
	"sync"

	"verif/support/refwire"
)

// Package is what one program registers.
type Package struct {
	ID          string
	Types       []reflect.Type      // named, non generic types of the root package
	SourceTypes []string            // names of the types declared in the analysed file, in order
	Unions      map[string][]string // union name -> member names (computed from go/types by the driver)
	EnumExported   []any
	EnumUnexported []any
	Funcs       map[string]any // generated top-level functions and method expressions
	Extra       map[string]any // family specific (tables, ...)

	once sync.Once
	uni  *refwire.Universe
	byName map[string]reflect.Type
}

var (
	mu       sync.Mutex
	registry = map[string]*Package{}
)

func Register(p *Package) {
	mu.Lock()
	defer mu.Unlock()
	if old, ok := registry[p.ID]; ok {
		// a second file of the same program adds functions
		for k, v := range p.Funcs {
			if old.Funcs == nil {
				old.Funcs = map[string]any{}
			}
			old.Funcs[k] = v
		}
		for k, v := range p.Extra {
			if old.Extra == nil {
				old.Extra = map[string]any{}
			}
			old.Extra[k] = v
		}
		if len(p.Types) > 0 {
			old.Types, old.SourceTypes, old.Unions = p.Types, p.SourceTypes, p.Unions
			old.EnumExported, old.EnumUnexported = p.EnumExported, p.EnumUnexported
		}
		return
	}
	registry[p.ID] = p
}

func Get(id string) *Package {
	mu.Lock()
	defer mu.Unlock()
	return registry[id]
}

func (p *Package) TypeByName(name string) reflect.Type {
	p.Universe()
	return p.byName[name]
}

// Universe builds the unions / enums tables by reflect type.
func (p *Package) Universe() *refwire.Universe {
	p.once.Do(func() {
		p.byName = map[string]reflect.Type{}
		for _, t := range p.Types {
			p.byName[t.Name()] = t
		}
		u := refwire.NewUniverse()
		for un, members := range p.Unions {
			ut := p.byName[un]
			if ut == nil || ut.Kind() != reflect.Interface {
				continue
			}
			var ms []reflect.Type
			for _, m := range members {
				if mt := p.byName[m]; mt != nil {
					ms = append(ms, mt)
				}
			}
			u.Unions[ut] = ms
		}
		for _, c := range p.EnumExported {
			v := reflect.ValueOf(c)
			u.EnumAll[v.Type()] = append(u.EnumAll[v.Type()], v)
			u.EnumExported[v.Type()] = append(u.EnumExported[v.Type()], v)
		}
		for _, c := range p.EnumUnexported {
			v := reflect.ValueOf(c)
			u.EnumAll[v.Type()] = append(u.EnumAll[v.Type()], v)
		}
		p.uni = u
	})
	return p.uni
}

// Reachable returns the named types of the package reachable from the types
// declared in the analysed file (through fields, elements, keys and union
// members): the types the generators produce code for.
func (p *Package) Reachable() map[reflect.Type]bool {
	u := p.Universe()
	seen := map[reflect.Type]bool{}
	var visit func(t reflect.Type)
	var visitFields func(t reflect.Type)
	visitFields = func(t reflect.Type) {
		for i := 0; i < t.NumField(); i++ {
			f := t.Field(i)
			if f.Anonymous && f.Type.Kind() == reflect.Struct && !refwire.IsTimeLike(f.Type) {
				visitFields(f.Type)
			} else if f.Tag.Get("gomacro") != "ignore" {
				visit(f.Type)
			}
		}
	}
	visit = func(t reflect.Type) {
		if seen[t] {
			return
		}
		seen[t] = true
		switch t.Kind() {
		case reflect.Struct:
			if refwire.IsTimeLike(t) {
				return
			}
			for i := 0; i < t.NumField(); i++ {
				f := t.Field(i)
				if f.Tag.Get("gomacro") == "ignore" {
					continue
				}
				if f.Anonymous && f.Type.Kind() == reflect.Struct && !refwire.IsTimeLike(f.Type) {
					// embedded structs are flattened by the analysis: their fields are reached,
					// the embedded type itself is not a node (it gets no code of its own)
					visitFields(f.Type)
					continue
				}
				visit(f.Type)
			}
		case reflect.Slice, reflect.Array, reflect.Pointer:
			visit(t.Elem())
		case reflect.Map:
			visit(t.Key())
			visit(t.Elem())
		case reflect.Interface:
			for _, m := range u.Unions[t] {
				visit(m)
			}
		}
	}
	for _, n := range p.SourceTypes {
		if t := p.byName[n]; t != nil {
			visit(t)
		}
	}
	return seen
}

// ---------------------------------------------------------------------------
// protocol

// Job is one command for one program.
type Job struct {
	Prog string            `json:"prog"`
	Cmd  string            `json:"cmd"`
	Seed int64             `json:"seed"`
	N    int               `json:"n"`
	Opts map[string]string `json:"opts,omitempty"`
}

// Event is one output line.
type Event struct {
	Prog      string `json:"prog,omitempty"`
	Kind      string `json:"kind"` // begin | violation | doc | keys | count | distinct | sample | done | runner-done
	Cmd       string `json:"cmd,omitempty"`
	What      string `json:"what,omitempty"` // begin: what is being executed
	Signature string `json:"signature,omitempty"`
	Message   string `json:"message,omitempty"`
	Type      string `json:"type,omitempty"`
	Doc       json.RawMessage `json:"doc,omitempty"`
	Keys      []string `json:"keys,omitempty"`
	Key       string `json:"key,omitempty"`
	N         int    `json:"n,omitempty"`
	Data      any    `json:"data,omitempty"`
}

// Out writes events.
type Out struct {
	mu sync.Mutex
	w  *bufio.Writer
	f  *os.File
}

func (o *Out) Emit(e Event) {
	b, err := json.Marshal(e)
	if err != nil {
		b, _ = json.Marshal(Event{Prog: e.Prog, Kind: "violation", Signature: "harness-unmarshalable-event", Message: err.Error()})
	}
	o.mu.Lock()
	o.w.Write(b)
	o.w.WriteByte('\n')
	o.w.Flush() // every line reaches the file before the next call (a fatal abort must be attributable)
	o.mu.Unlock()
}

func (o *Out) Begin(prog, cmd, what string) { o.Emit(Event{Prog: prog, Kind: "begin", Cmd: cmd, What: what}) }
func (o *Out) Violation(prog, sig, msg string) {
	if len(msg) > 4000 {
		msg = msg[:4000] + "...(truncated)"
	}
	o.Emit(Event{Prog: prog, Kind: "violation", Signature: sig, Message: msg})
}
func (o *Out) Count(key string, n int) { o.Emit(Event{Kind: "count", Key: key, N: n}) }
func (o *Out) Distinct(key string)     { o.Emit(Event{Kind: "distinct", Key: key}) }
func (o *Out) Sample(prog string, d any) { o.Emit(Event{Prog: prog, Kind: "sample", Data: d}) }

// Commands are registered by the files of this package.
var commands = map[string]func(o *Out, p *Package, j Job){}

// Main is the runner entry point: runner <jobs.json> <out.jsonl>
func Main() {
	if len(os.Args) != 3 {
		fmt.Fprintln(os.Stderr, "usage: runner <jobs.json> <out.jsonl>")
		os.Exit(2)
	}
	debug.SetMaxStack(24 << 20) // unbounded recursion aborts quickly and deterministically
	b, err := os.ReadFile(os.Args[1])
	if err != nil {
		fmt.Fprintln(os.Stderr, err)
		os.Exit(2)
	}
	var jobs []Job
	if err := json.Unmarshal(b, &jobs); err != nil {
		fmt.Fprintln(os.Stderr, err)
		os.Exit(2)
	}
	f, err := os.OpenFile(os.Args[2], os.O_CREATE|os.O_WRONLY|os.O_APPEND, 0o644)
	if err != nil {
		fmt.Fprintln(os.Stderr, err)
		os.Exit(2)
	}
	o := &Out{w: bufio.NewWriter(f), f: f}
	for _, j := range jobs {
		p := Get(j.Prog)
		if p == nil {
			o.Emit(Event{Prog: j.Prog, Kind: "missing-program", Cmd: j.Cmd})
			continue
		}
		cmd := commands[j.Cmd]
		if cmd == nil {
			o.Emit(Event{Prog: j.Prog, Kind: "unknown-command", Cmd: j.Cmd})
			continue
		}
		o.Begin(j.Prog, j.Cmd, "")
		cmd(o, p, j)
		o.Emit(Event{Prog: j.Prog, Kind: "done", Cmd: j.Cmd})
	}
	o.Emit(Event{Kind: "runner-done"})
	f.Close()
}

// Guard runs fn and returns the recovered panic value as text ("" if none).
func Guard(fn func()) (pan string) {
	defer func() {
		if r := recover(); r != nil {
			pan = fmt.Sprint(r)
			if len(pan) > 500 {
				pan = pan[:500]
			}
		}
	}()
	fn()
	return ""
}

func sortedTypeNames(ts []reflect.Type) []string {
	var out []string
	for _, t := range ts {
		out = append(out, t.Name())
	}
	sort.Strings(out)
	return out
}

// NormalizePanic strips digits so that signatures are input independent.
func NormalizePanic(s string) string {
	var sb strings.Builder
	for _, c := range s {
		if c >= '0' && c <= '9' {
			sb.WriteByte('N')
		} else {
			sb.WriteRune(c)
		}
	}
	out := sb.String()
	if len(out) > 100 {
		out = out[:100]
	}
	return out
}
