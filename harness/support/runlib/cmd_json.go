package runlib

import (
	"bytes"
	"encoding/json"
	"fmt"
	"reflect"
	"strings"

	"verif/support/refwire"
)

func init() {
	commands["json"] = cmdJSON
	commands["keys"] = cmdKeys
}

// cmdJSON: for every registered type (interfaces excluded) build N values,
// marshal with the real encoding/json (generated wrappers compiled in), check
// the wire format against the twin reference and the round trip, and log the
// documents for the offline checkers (TypeScript inhabitation, SQL validators).
//
// opts: docs=1 emit documents; types=a,b restrict to these type names;
// exported-enums=1 only exported enum constants; only-union=1 only types reaching a union
func cmdJSON(o *Out, p *Package, j Job) {
	u := p.Universe()
	only := map[string]bool{}
	if ts := j.Opts["types"]; ts != "" {
		for _, n := range strings.Split(ts, ",") {
			only[n] = true
		}
	}
	emitDocs := j.Opts["docs"] == "1"
	rng := newRand(j.Seed, p.ID, "json")
	reachable := p.Reachable()
	for _, t := range p.Types {
		if t.Kind() == reflect.Interface {
			continue
		}
		if !reachable[t] {
			o.Count("types-not-reachable-from-source-skipped", 1)
			continue // the generators only cover what the analysed file reaches
		}
		if len(only) > 0 && !only[t.Name()] {
			continue
		}
		reaches := u.ReachesUnion(t)
		if j.Opts["only-union"] == "1" && !reaches {
			continue
		}
		seenDocs := map[string]bool{}
		for i := 0; i < j.N; i++ {
			v, gaveUp := u.Build(rng, t, refwire.BuildOpts{ExportedEnumsOnly: j.Opts["exported-enums"] == "1"})
			if gaveUp {
				o.Count("builder-gave-up", 1)
				continue
			}
			what := fmt.Sprintf("%s value %d", t.Name(), i)
			o.Begin(p.ID, "json", what)
			checkJSONValue(o, p, u, t, v, reaches, emitDocs, seenDocs, "")
		}
	}
}

// checkJSONValue runs the C02 oracles on one value and optionally emits its document.
func checkJSONValue(o *Out, p *Package, u *refwire.Universe, t reflect.Type, v reflect.Value, reaches, emitDocs bool, seenDocs map[string]bool, sigPrefix string) (doc []byte, ok bool) {
	var err error
	if pan := Guard(func() { doc, err = json.Marshal(v.Interface()) }); pan != "" {
		o.Violation(p.ID, sigPrefix+"marshal-panic:"+NormalizePanic(pan), fmt.Sprintf("json.Marshal of a %s value panicked: %s\nvalue: %s", t.Name(), pan, goString(v)))
		return nil, false
	}
	if err != nil {
		o.Violation(p.ID, sigPrefix+"marshal-error", fmt.Sprintf("json.Marshal of a %s value failed: %v\nvalue: %s", t.Name(), err, goString(v)))
		return nil, false
	}
	o.Count("values-marshalled", 1)
	if reaches {
		o.Count("values-with-unions", 1)
		// wire format: reference encoder (twin) vs generated code
		var want []byte
		if pan := Guard(func() { want, err = u.Expected(v) }); pan != "" || err != nil {
			o.Emit(Event{Prog: p.ID, Kind: "harness-error", Message: fmt.Sprintf("reference encoder failed on %s: %s %v", t.Name(), pan, err)})
		} else {
			gt, e1 := refwire.DecodeTree(doc)
			wt, e2 := refwire.DecodeTree(want)
			if e1 != nil {
				o.Violation(p.ID, sigPrefix+"wire-invalid-json", fmt.Sprintf("%s: emitted document is not valid JSON: %v\n%s", t.Name(), e1, doc))
			} else if e2 == nil {
				if d := refwire.DiffTrees(gt, wt, "$"); d != "" {
					o.Violation(p.ID, sigPrefix+"wire-format:"+diffClass(d), fmt.Sprintf("%s: wire format differs from the reference (encoding/json on the twin with hand-written {Kind,Data}):\n  %s\n  got:  %s\n  want: %s", t.Name(), d, trunc(doc, 1500), trunc(want, 1500)))
				}
			}
		}
	}
	// C03 looks at every document Go produced with the generated wrappers, whether or not it
	// can be read back (the round trip is C02's business)
	if emitDocs && !seenDocs[string(doc)] && json.Valid(doc) {
		seenDocs[string(doc)] = true
		o.Emit(Event{Prog: p.ID, Kind: "doc", Type: t.Name(), Doc: json.RawMessage(doc)})
	}
	// round trip
	fresh := reflect.New(t)
	if pan := Guard(func() { err = json.Unmarshal(doc, fresh.Interface()) }); pan != "" {
		o.Violation(p.ID, sigPrefix+"unmarshal-panic:"+NormalizePanic(pan), fmt.Sprintf("json.Unmarshal into %s panicked: %s\ndocument: %s", t.Name(), pan, trunc(doc, 1500)))
		return doc, false
	}
	if err != nil {
		o.Violation(p.ID, sigPrefix+"unmarshal-error", fmt.Sprintf("json.Unmarshal into %s failed: %v\ndocument: %s", t.Name(), err, trunc(doc, 1500)))
		return doc, false
	}
	if d := refwire.Equal(v, fresh.Elem(), t.Name()); d != "" {
		o.Violation(p.ID, sigPrefix+"roundtrip:"+diffClass(d), fmt.Sprintf("%s: value changed by Marshal+Unmarshal: %s\ndocument: %s", t.Name(), d, trunc(doc, 1500)))
		return doc, false
	}
	if reaches {
		o.Distinct(p.ID + "|" + t.Name() + "|" + hash(doc))
	}
	return doc, true
}

// diffClass turns a difference message into an input independent class.
func diffClass(d string) string {
	switch {
	case strings.Contains(d, "missing"):
		return "key-missing"
	case strings.Contains(d, "unexpected key"):
		return "key-unexpected"
	case strings.Contains(d, "length"), strings.Contains(d, "size"):
		return "length"
	case strings.Contains(d, "nil-ness"):
		return "nil-ness"
	case strings.Contains(d, "dynamic types"):
		return "dynamic-type"
	case strings.Contains(d, "time"):
		return "time"
	default:
		return "value"
	}
}

// cmdKeys (C09): for every struct type marshal a value with every field
// non-empty and log the ordered key list — the ground truth for "which fields
// take part under which key" is the real encoding/json.
func cmdKeys(o *Out, p *Package, j Job) {
	u := p.Universe()
	rng := newRand(j.Seed, p.ID, "keys")
	for _, t := range p.Types {
		if t.Kind() != reflect.Struct || refwire.IsTimeLike(t) {
			continue
		}
		v := reflect.New(t).Elem()
		fillNonEmpty(u, rng, v, 3)
		var doc []byte
		var err error
		if pan := Guard(func() { doc, err = json.Marshal(v.Interface()) }); pan != "" || err != nil {
			o.Emit(Event{Prog: p.ID, Kind: "harness-error", Message: fmt.Sprintf("keys: cannot marshal %s: %s %v", t.Name(), pan, err)})
			continue
		}
		keys, err := topLevelKeys(doc)
		if err != nil {
			o.Emit(Event{Prog: p.ID, Kind: "harness-error", Message: fmt.Sprintf("keys: %s: %v", t.Name(), err)})
			continue
		}
		o.Emit(Event{Prog: p.ID, Kind: "keys", Type: t.Name(), Keys: keys, Data: map[string]any{"gomacro_ignored": gomacroIgnoredKeys(t)}})
	}
}

func topLevelKeys(doc []byte) ([]string, error) {
	dec := json.NewDecoder(bytes.NewReader(doc))
	tok, err := dec.Token()
	if err != nil {
		return nil, err
	}
	if d, ok := tok.(json.Delim); !ok || d != '{' {
		return nil, fmt.Errorf("not an object: %s", trunc(doc, 100))
	}
	keys := []string{}
	for dec.More() {
		tok, err := dec.Token()
		if err != nil {
			return nil, err
		}
		k, _ := tok.(string)
		keys = append(keys, k)
		var skip json.RawMessage
		if err := dec.Decode(&skip); err != nil {
			return nil, err
		}
	}
	return keys, nil
}

// fillNonEmpty sets every settable component to a non-empty value (so that
// omitempty never drops a key).
func fillNonEmpty(u *refwire.Universe, rng randSource, v reflect.Value, depth int) {
	t := v.Type()
	if refwire.IsTimeLike(t) {
		return // zero time is still emitted (omitempty does not apply to structs)
	}
	switch t.Kind() {
	case reflect.Bool:
		v.SetBool(true)
	case reflect.Int, reflect.Int8, reflect.Int16, reflect.Int32, reflect.Int64:
		v.SetInt(1)
	case reflect.Uint, reflect.Uint8, reflect.Uint16, reflect.Uint32, reflect.Uint64:
		v.SetUint(1)
	case reflect.Float32, reflect.Float64:
		v.SetFloat(1.5)
	case reflect.String:
		v.SetString("x")
	case reflect.Struct:
		for i := 0; i < t.NumField(); i++ {
			if t.Field(i).IsExported() {
				fillNonEmpty(u, rng, v.Field(i), depth)
			}
		}
	case reflect.Slice:
		n := 1
		if depth <= 0 {
			n = 0
		}
		s := reflect.MakeSlice(t, n, n)
		for i := 0; i < n; i++ {
			fillNonEmpty(u, rng, s.Index(i), depth-1)
		}
		v.Set(s)
	case reflect.Array:
		for i := 0; i < v.Len(); i++ {
			fillNonEmpty(u, rng, v.Index(i), depth-1)
		}
	case reflect.Map:
		m := reflect.MakeMap(t)
		if depth > 0 {
			k := reflect.New(t.Key()).Elem()
			fillNonEmpty(u, rng, k, depth-1)
			e := reflect.New(t.Elem()).Elem()
			fillNonEmpty(u, rng, e, depth-1)
			m.SetMapIndex(k, e)
		}
		v.Set(m)
	case reflect.Pointer:
		if depth > 0 {
			p := reflect.New(t.Elem())
			fillNonEmpty(u, rng, p.Elem(), depth-1)
			v.Set(p)
		}
	case reflect.Interface:
		if ms := u.Unions[t]; len(ms) > 0 && depth > -4 {
			mv := reflect.New(ms[0]).Elem()
			fillNonEmpty(u, rng, mv, depth-1)
			v.Set(mv)
		}
	}
}

func goString(v reflect.Value) string { return trunc([]byte(fmt.Sprintf("%#v", v.Interface())), 1200) }

func trunc(b []byte, n int) string {
	if len(b) <= n {
		return string(b)
	}
	return string(b[:n]) + "...(truncated)"
}

// gomacroIgnoredKeys lists the JSON keys of the (flattened) fields tagged
// gomacro:"ignore" that encoding/json still serialises: the property subtracts
// exactly those from the ground truth.
func gomacroIgnoredKeys(t reflect.Type) []string {
	out := []string{}
	for i := 0; i < t.NumField(); i++ {
		f := t.Field(i)
		tag, hasTag := f.Tag.Lookup("json")
		if f.Anonymous && f.Type.Kind() == reflect.Struct && !hasTag && !refwire.IsTimeLike(f.Type) {
			out = append(out, gomacroIgnoredKeys(f.Type)...)
			continue
		}
		if !f.IsExported() || tag == "-" || f.Tag.Get("gomacro") != "ignore" {
			continue
		}
		name, _, _ := strings.Cut(tag, ",")
		if name == "" {
			name = f.Name
		}
		out = append(out, name)
	}
	return out
}
