package memdb

import (
	"strings"

	"verif/support/pgmodel"
)

type ident struct {
	text   string // as written (without quotes)
	key    string // lookup key
	quoted bool
}

func (id ident) written() string {
	if id.quoted {
		return `"` + id.text + `"`
	}
	return id.text
}

type stmtKind int

const (
	kSelect stmtKind = iota
	kInsert
	kUpdate
	kDelete
	kCopy
)

func (k stmtKind) String() string {
	return [...]string{"select", "insert", "update", "delete", "copy"}[k]
}

type statement struct {
	kind  stmtKind
	sql   string
	table ident

	star bool    // SELECT *
	list []ident // SELECT list

	cols []ident        // INSERT / UPDATE target columns, COPY columns
	vals []pgmodel.Expr // INSERT values / UPDATE sources
	// UPDATE written as (a, b) = (x, y) [rowKeyword: = ROW(x, y)]
	tupleForm  bool
	rowKeyword bool

	where pgmodel.Expr

	hasReturning  bool
	returningStar bool
	returning     []ident

	placeholders []int    // textual order
	columns      []string // every column identifier, textual order
}

type stmtParser struct {
	toks []pgmodel.Token
	i    int
	src  string
	st   *statement
}

func (p *stmtParser) peek() pgmodel.Token {
	if p.i < len(p.toks) {
		return p.toks[p.i]
	}
	return pgmodel.Token{Kind: -1, Pos: len(p.src), End: len(p.src)}
}

func (p *stmtParser) next() pgmodel.Token {
	t := p.peek()
	if p.i < len(p.toks) {
		p.i++
	}
	return t
}

func (p *stmtParser) eof() bool { return p.i >= len(p.toks) }

func tokText(t pgmodel.Token) string {
	if t.Kind == -1 {
		return "end of input"
	}
	return `"` + t.Text + `"`
}

func (p *stmtParser) syntaxErr(t pgmodel.Token) error {
	if t.Kind == -1 {
		return codeErrorf("42601", "syntax error at end of input")
	}
	return codeErrorf("42601", "syntax error at or near %s", tokText(t))
}

func (p *stmtParser) acceptKw(kw string) bool {
	if p.peek().Is(kw) {
		p.i++
		return true
	}
	return false
}

func (p *stmtParser) expectKw(kw string) error {
	if !p.acceptKw(kw) {
		return p.syntaxErr(p.peek())
	}
	return nil
}

func (p *stmtParser) expectPunct(s string) error {
	if !p.peek().IsPunct(s) {
		return p.syntaxErr(p.peek())
	}
	p.i++
	return nil
}

// ident reads a table or column name. Unquoted reserved words are a syntax
// error, as in PostgreSQL.
func (p *stmtParser) ident(isColumn bool) (ident, error) {
	t := p.peek()
	if t.Kind != pgmodel.TIdent {
		return ident{}, p.syntaxErr(t)
	}
	if !t.Quoted && pgmodel.IsColumnNameForbidden(t.Lower) {
		return ident{}, p.syntaxErr(t)
	}
	p.i++
	if p.peek().IsPunct(".") {
		return ident{}, unsupportedf("qualified name %s.", t.Text)
	}
	id := ident{text: t.Text, key: t.Lower, quoted: t.Quoted}
	if isColumn {
		p.st.columns = append(p.st.columns, id.written())
	}
	return id, nil
}

func (p *stmtParser) identList() ([]ident, error) {
	var out []ident
	for {
		id, err := p.ident(true)
		if err != nil {
			return nil, err
		}
		out = append(out, id)
		if p.peek().IsPunct(",") {
			p.i++
			continue
		}
		return out, nil
	}
}

// selectList parses `*` or a list of plain column names.
func (p *stmtParser) selectList() (star bool, list []ident, err error) {
	if p.peek().IsPunct("*") {
		p.i++
		if p.peek().IsPunct(",") {
			return false, nil, unsupportedf("select list mixing * and columns")
		}
		return true, nil, nil
	}
	for {
		if t := p.peek(); t.Kind != pgmodel.TIdent {
			if t.Kind == pgmodel.TNumber || t.Kind == pgmodel.TString || t.Kind == pgmodel.TParam || t.IsPunct("(") {
				return false, nil, unsupportedf("expression in select list")
			}
			return false, nil, p.syntaxErr(t)
		}
		id, err := p.ident(true)
		if err != nil {
			return false, nil, err
		}
		list = append(list, id)
		switch t := p.peek(); {
		case t.IsPunct(","):
			p.i++
			continue
		case t.IsPunct("(") || t.IsPunct("::") || t.Is("as") || t.Kind == pgmodel.TIdent && !isClauseKeyword(t):
			return false, nil, unsupportedf("select list item that is not a plain column")
		case t.Kind == pgmodel.TPunct && !t.IsPunct(";"):
			return false, nil, unsupportedf("expression in select list")
		}
		return false, list, nil
	}
}

func isClauseKeyword(t pgmodel.Token) bool {
	if t.Quoted {
		return false
	}
	switch t.Lower {
	case "from", "where", "returning", "order", "group", "limit", "offset", "having", "for", "union", "set", "values", "on":
		return true
	}
	return false
}

func (p *stmtParser) expr() (pgmodel.Expr, error) {
	e, n, err := pgmodel.ParseExprPrefix(p.toks[p.i:], p.src)
	if err != nil {
		return nil, wrapModelError(err)
	}
	p.i += n
	pgmodel.WalkExpr(e, func(x pgmodel.Expr) {
		if c, ok := x.(*pgmodel.ColumnRef); ok {
			p.st.columns = append(p.st.columns, c.String())
		}
	})
	return e, nil
}

func (p *stmtParser) exprList() ([]pgmodel.Expr, error) {
	var out []pgmodel.Expr
	for {
		e, err := p.expr()
		if err != nil {
			return nil, err
		}
		out = append(out, e)
		if p.peek().IsPunct(",") {
			p.i++
			continue
		}
		return out, nil
	}
}

// isOperand reports whether e is in the operand grammar:
// ident | $n | number | 'string' | TRUE | FALSE | NULL | -number
func isOperand(e pgmodel.Expr) bool {
	switch x := e.(type) {
	case *pgmodel.ColumnRef, *pgmodel.ParamRef, *pgmodel.Literal:
		return true
	case *pgmodel.UnaryExpr:
		if l, ok := x.X.(*pgmodel.Literal); ok && (x.Op == "-" || x.Op == "+") && l.Kind == pgmodel.LitNumber {
			return true
		}
	}
	return false
}

// checkCond verifies that e stays inside the condition grammar.
func checkCond(e pgmodel.Expr) error {
	switch x := e.(type) {
	case *pgmodel.BinaryExpr:
		switch x.Op {
		case "AND", "OR":
			if err := checkCond(x.L); err != nil {
				return err
			}
			return checkCond(x.R)
		case "=", "<>", "<", "<=", ">", ">=":
			if isOperand(x.L) && isOperand(x.R) {
				return nil
			}
			return unsupportedf("comparison operand in %s", e)
		}
		return unsupportedf("operator %s in condition", x.Op)
	case *pgmodel.UnaryExpr:
		if x.Op == "NOT" {
			return checkCond(x.X)
		}
	case *pgmodel.IsNullExpr:
		if isOperand(x.X) {
			return nil
		}
	case *pgmodel.AnyExpr:
		if x.Op == "=" && isOperand(x.X) && isOperand(x.Array) {
			return nil
		}
		return unsupportedf("%s", e)
	case *pgmodel.Literal:
		if x.Kind == pgmodel.LitBool || x.Kind == pgmodel.LitNull {
			return nil
		}
	case *pgmodel.ColumnRef:
		return nil // a boolean column used as condition
	}
	return unsupportedf("condition %s", e)
}

func (p *stmtParser) whereReturning() error {
	if p.acceptKw("where") {
		if p.peek().Is("current") {
			return unsupportedf("WHERE CURRENT OF")
		}
		e, err := p.expr()
		if err != nil {
			return err
		}
		if err := checkCond(e); err != nil {
			return err
		}
		p.st.where = e
	}
	if p.st.kind != kSelect && p.acceptKw("returning") {
		p.st.hasReturning = true
		star, list, err := p.selectList()
		if err != nil {
			return err
		}
		p.st.returningStar, p.st.returning = star, list
	}
	return nil
}

func (p *stmtParser) end() error {
	if p.peek().IsPunct(";") {
		p.i++
	}
	if !p.eof() {
		t := p.peek()
		if t.Kind == pgmodel.TIdent && !t.Quoted {
			switch t.Lower {
			case "order", "group", "limit", "offset", "having", "for", "union", "join", "inner", "left", "right", "on", "using", "from", "as", "with",
				"intersect", "except", "window", "fetch", "cross", "natural", "full", "returning":
				return unsupportedf("clause %s", strings.ToUpper(t.Lower))
			}
		}
		if p.i > 0 && p.toks[p.i-1].IsPunct(";") {
			return sqlErrorf("cannot insert multiple commands into a prepared statement")
		}
		if t.IsPunct(",") {
			return unsupportedf("list continuation at %s", tokText(t))
		}
		return p.syntaxErr(t)
	}
	return nil
}

// parseStatement parses one statement of the supported grammar.
func parseStatement(src string) (*statement, []int, error) {
	toks, err := pgmodel.Tokenize(src)
	if err != nil {
		return nil, nil, wrapModelError(err)
	}
	var placeholders []int
	for _, t := range toks {
		if t.Kind == pgmodel.TParam {
			placeholders = append(placeholders, t.ParamIndex())
		}
	}
	st := &statement{sql: src, placeholders: placeholders}
	p := &stmtParser{toks: toks, src: src, st: st}
	if len(toks) == 0 {
		return nil, placeholders, unsupportedf("empty statement")
	}
	t := p.next()
	switch {
	case t.Is("select"):
		st.kind = kSelect
		err = p.parseSelect()
	case t.Is("insert"):
		st.kind = kInsert
		err = p.parseInsert()
	case t.Is("update"):
		st.kind = kUpdate
		err = p.parseUpdate()
	case t.Is("delete"):
		st.kind = kDelete
		err = p.parseDelete()
	case t.Is("copy"):
		st.kind = kCopy
		err = p.parseCopy()
	default:
		if t.Kind == pgmodel.TIdent && !t.Quoted {
			return nil, placeholders, unsupportedf("%s statement", strings.ToUpper(t.Lower))
		}
		return nil, placeholders, p.syntaxErr(t)
	}
	if err != nil {
		return st, placeholders, err
	}
	return st, placeholders, nil
}

func (p *stmtParser) parseSelect() error {
	if t := p.peek(); t.Is("distinct") || t.Is("all") {
		return unsupportedf("SELECT %s", strings.ToUpper(t.Lower))
	}
	star, list, err := p.selectList()
	if err != nil {
		return err
	}
	p.st.star, p.st.list = star, list
	if !p.peek().Is("from") {
		if p.eof() || p.peek().IsPunct(";") {
			return unsupportedf("SELECT without FROM")
		}
		return p.syntaxErr(p.peek())
	}
	p.i++
	if p.peek().Is("only") {
		return unsupportedf("FROM ONLY")
	}
	if p.peek().IsPunct("(") {
		return unsupportedf("subquery in FROM")
	}
	if p.st.table, err = p.ident(false); err != nil {
		return err
	}
	if t := p.peek(); t.IsPunct(",") || t.Is("as") || (t.Kind == pgmodel.TIdent && !isClauseKeyword(t) && !pgmodel.IsColumnNameForbidden(t.Lower)) {
		return unsupportedf("table alias or several tables in FROM")
	}
	if err := p.whereReturning(); err != nil {
		return err
	}
	return p.end()
}

func (p *stmtParser) parseInsert() error {
	if err := p.expectKw("into"); err != nil {
		return err
	}
	var err error
	if p.st.table, err = p.ident(false); err != nil {
		return err
	}
	switch t := p.peek(); {
	case t.Is("values"), t.Is("default"), t.Is("select"), t.Is("as"), t.Is("overriding"):
		return unsupportedf("INSERT without a column list / with %s", strings.ToUpper(t.Lower))
	}
	if err := p.expectPunct("("); err != nil {
		return err
	}
	if p.st.cols, err = p.identList(); err != nil {
		return err
	}
	if err := p.expectPunct(")"); err != nil {
		return err
	}
	if t := p.peek(); t.Is("select") || t.Is("overriding") || t.Is("default") {
		return unsupportedf("INSERT ... %s", strings.ToUpper(t.Lower))
	}
	if err := p.expectKw("values"); err != nil {
		return err
	}
	if err := p.expectPunct("("); err != nil {
		return err
	}
	if p.st.vals, err = p.exprList(); err != nil {
		return err
	}
	if err := p.expectPunct(")"); err != nil {
		return err
	}
	for _, v := range p.st.vals {
		if !isOperand(v) {
			return unsupportedf("INSERT value %s", v)
		}
		if _, isCol := v.(*pgmodel.ColumnRef); isCol {
			return codeErrorf("42703", "column %q does not exist", v.String())
		}
	}
	if p.peek().IsPunct(",") {
		return unsupportedf("multi-row VALUES")
	}
	if p.peek().Is("on") {
		return unsupportedf("ON CONFLICT")
	}
	if err := p.whereReturning(); err != nil {
		return err
	}
	if p.st.where != nil {
		return sqlErrorf("syntax error at or near \"WHERE\"")
	}
	return p.end()
}

func (p *stmtParser) parseUpdate() error {
	if p.peek().Is("only") {
		return unsupportedf("UPDATE ONLY")
	}
	var err error
	if p.st.table, err = p.ident(false); err != nil {
		return err
	}
	if !p.peek().Is("set") {
		if t := p.peek(); t.Is("as") || t.Kind == pgmodel.TIdent {
			return unsupportedf("table alias in UPDATE")
		}
		return p.syntaxErr(p.peek())
	}
	p.i++
	if p.peek().IsPunct("(") {
		p.i++
		p.st.tupleForm = true
		if p.st.cols, err = p.identList(); err != nil {
			return err
		}
		if err := p.expectPunct(")"); err != nil {
			return err
		}
		if err := p.expectPunct("="); err != nil {
			return err
		}
		if p.acceptKw("row") {
			p.st.rowKeyword = true
		}
		if err := p.expectPunct("("); err != nil {
			return err
		}
		if p.peek().Is("select") {
			return unsupportedf("UPDATE ... = (SELECT ...)")
		}
		if p.st.vals, err = p.exprList(); err != nil {
			return err
		}
		if err := p.expectPunct(")"); err != nil {
			return err
		}
		if p.peek().IsPunct(",") {
			return unsupportedf("several SET clauses after a column tuple")
		}
	} else {
		for {
			id, err := p.ident(true)
			if err != nil {
				return err
			}
			if err := p.expectPunct("="); err != nil {
				return err
			}
			e, err := p.expr()
			if err != nil {
				return err
			}
			p.st.cols = append(p.st.cols, id)
			p.st.vals = append(p.st.vals, e)
			if p.peek().IsPunct(",") {
				p.i++
				if p.peek().IsPunct("(") {
					return unsupportedf("mixed SET forms")
				}
				continue
			}
			break
		}
	}
	for _, v := range p.st.vals {
		if !isOperand(v) {
			return unsupportedf("UPDATE source expression %s", v)
		}
	}
	if p.peek().Is("from") {
		return unsupportedf("UPDATE ... FROM")
	}
	if err := p.whereReturning(); err != nil {
		return err
	}
	return p.end()
}

func (p *stmtParser) parseDelete() error {
	if err := p.expectKw("from"); err != nil {
		return err
	}
	if p.peek().Is("only") {
		return unsupportedf("DELETE FROM ONLY")
	}
	var err error
	if p.st.table, err = p.ident(false); err != nil {
		return err
	}
	if t := p.peek(); t.Is("using") || t.Is("as") || (t.Kind == pgmodel.TIdent && !isClauseKeyword(t)) {
		return unsupportedf("DELETE with alias / USING")
	}
	if err := p.whereReturning(); err != nil {
		return err
	}
	return p.end()
}

func (p *stmtParser) parseCopy() error {
	var err error
	if p.peek().IsPunct("(") {
		return unsupportedf("COPY (query)")
	}
	if p.st.table, err = p.ident(false); err != nil {
		return err
	}
	if !p.peek().IsPunct("(") {
		return unsupportedf("COPY without a column list")
	}
	p.i++
	if p.st.cols, err = p.identList(); err != nil {
		return err
	}
	if err := p.expectPunct(")"); err != nil {
		return err
	}
	if p.peek().Is("to") {
		return sqlErrorf("COPY TO is not supported")
	}
	if err := p.expectKw("from"); err != nil {
		return err
	}
	if !p.acceptKw("stdin") {
		return unsupportedf("COPY FROM a file or program")
	}
	if !p.eof() && !p.peek().IsPunct(";") {
		return unsupportedf("COPY options")
	}
	return p.end()
}
