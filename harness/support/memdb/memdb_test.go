package memdb

import (
	"database/sql"
	"database/sql/driver"
	"errors"
	"fmt"
	"os"
	"reflect"
	"strings"
	"testing"
	"time"

	"verif/support/pgmodel"
)

const schema = `
CREATE TYPE comp AS (a integer, b smallint, c integer);
CREATE TABLE repass (Id serial PRIMARY KEY, Title text NOT NULL, V smallint CHECK (V IN (0, 1, 2)) NOT NULL);
CREATE TABLE items (
	Id serial PRIMARY KEY,
	Name text NOT NULL,
	Score real,
	Ok boolean NOT NULL,
	Repas integer NOT NULL,
	OptRepas integer,
	Nums integer[] CHECK (array_length(Nums, 1) = 3) NOT NULL,
	Tags text[],
	Flags boolean[],
	Cp comp NOT NULL,
	Doc jsonb NOT NULL,
	Blob bytea,
	Day date,
	At timestamp (0) with time zone,
	guard smallint CHECK (guard IN (0, 1)) NOT NULL
);
CREATE TABLE links (IdItem integer NOT NULL, IdRepas integer NOT NULL, Pos integer);
CREATE OR REPLACE FUNCTION v_doc (data jsonb) RETURNS boolean AS $$
BEGIN
	IF jsonb_typeof(data) != 'object' THEN RETURN FALSE; END IF;
	RETURN (SELECT bool_and(key IN ('n')) FROM jsonb_each(data)) AND jsonb_typeof(data->'n') = 'number';
END;
$$ LANGUAGE 'plpgsql' IMMUTABLE;
-- constraints
ALTER TABLE items ADD FOREIGN KEY (Repas) REFERENCES repass;
ALTER TABLE items ADD FOREIGN KEY (OptRepas) REFERENCES repass ON DELETE SET NULL;
ALTER TABLE items ALTER COLUMN guard SET DEFAULT 1 /* Enum.B */;
ALTER TABLE items ADD CHECK (guard = 1);
ALTER TABLE items ADD UNIQUE (Name);
ALTER TABLE items ADD CONSTRAINT Doc_gomacro CHECK (v_doc(Doc));
ALTER TABLE links ADD FOREIGN KEY (IdItem) REFERENCES items ON DELETE CASCADE;
ALTER TABLE links ADD FOREIGN KEY (IdRepas) REFERENCES repass;
ALTER TABLE links ADD UNIQUE (IdItem, IdRepas);
`

func newStore(t testing.TB, src string) *Store {
	t.Helper()
	s, err := pgmodel.ParseScript(src)
	if err != nil {
		t.Fatal(err)
	}
	return New(s)
}

// int64Array mimics pq.Int64Array.Value (memdb must not depend on pq).
type int64Array []int64

func (a int64Array) Value() (driver.Value, error) {
	if a == nil {
		return nil, nil
	}
	parts := make([]string, len(a))
	for i, v := range a {
		parts[i] = fmt.Sprint(v)
	}
	return "{" + strings.Join(parts, ",") + "}", nil
}

const itemCols = "name, score, ok, repas, optrepas, nums, tags, flags, cp, doc, blob, day, at"

var (
	day  = time.Date(2024, 2, 29, 0, 0, 0, 0, time.UTC)
	at   = time.Date(2024, 2, 29, 13, 14, 15, 0, time.UTC)
	item = []any{"it1", 1.5, true, int64(1), nil, "{1,2,3}", `{"a","b c"}`, "{t,f}", "(1,2,3)", `{"n": 1}`, []byte{0, 1, 255}, day, at}
)

func insertItemSQL() string {
	return "INSERT INTO items (" + itemCols + ") VALUES ($1, $2, $3, $4, $5, $6, $7, $8, $9, $10, $11, $12, $13) RETURNING id"
}

func withArg(args []any, i int, v any) []any {
	out := append([]any(nil), args...)
	out[i] = v
	return out
}

func mustExec(t testing.TB, db interface {
	Exec(string, ...any) (sql.Result, error)
}, q string, args ...any) {
	t.Helper()
	if _, err := db.Exec(q, args...); err != nil {
		t.Fatalf("%s: %v", q, err)
	}
}

func seed(t testing.TB) (*Store, *sql.DB) {
	t.Helper()
	st := newStore(t, schema)
	if w := st.Warnings(); len(w) != 0 {
		t.Fatalf("unexpected warnings: %q", w)
	}
	db := st.DB()
	mustExec(t, db, "INSERT INTO repass (title, v) VALUES ($1, $2)", "r1", 0)
	mustExec(t, db, "INSERT INTO repass (title, v) VALUES ($1, $2)", "r2", 2)
	return st, db
}

func errCode(err error) string {
	var e *SQLError
	if errors.As(err, &e) {
		if e.Code == "" {
			return "sql"
		}
		return e.Code
	}
	var u *UnsupportedError
	if errors.As(err, &u) {
		return "unsupported"
	}
	if err == nil {
		return ""
	}
	return "other: " + err.Error()
}

func TestInsertSelectRoundTrip(t *testing.T) {
	st, db := seed(t)
	var id int64
	if err := db.QueryRow(insertItemSQL(), item...).Scan(&id); err != nil || id != 1 {
		t.Fatalf("insert: %v %v", id, err)
	}
	var (
		name           string
		score          sql.NullFloat64
		ok             bool
		repas          int64
		opt            sql.NullInt64
		nums, tags, fl []byte
		cp, doc, blob  []byte
		d              time.Time
		a              sql.NullTime
		guard, gotID   int64
	)
	err := db.QueryRow("SELECT id, "+itemCols+", guard FROM items WHERE id = $1", id).Scan(&gotID, &name, &score, &ok, &repas, &opt, &nums, &tags, &fl, &cp, &doc, &blob, &d, &a, &guard)
	if err != nil {
		t.Fatal(err)
	}
	if gotID != 1 || name != "it1" || !score.Valid || score.Float64 != 1.5 || !ok || repas != 1 || opt.Valid ||
		string(nums) != "{1,2,3}" || string(tags) != `{"a","b c"}` || string(fl) != "{t,f}" || string(cp) != "(1,2,3)" ||
		string(doc) != `{"n": 1}` || !reflect.DeepEqual(blob, []byte{0, 1, 255}) || !d.Equal(day) || !a.Valid || !a.Time.Equal(at) || guard != 1 {
		t.Fatalf("got %v %q %v %v %v %v %s %s %s %s %s %v %v %v %v", gotID, name, score, ok, repas, opt, nums, tags, fl, cp, doc, blob, d, a, guard)
	}
	if d.Location() != time.UTC || a.Time.Location() != time.UTC {
		t.Error("times must be handed out in UTC")
	}
	// raw driver values
	raw := st.Rows("ITEMS")
	want := []any{int64(1), "it1", 1.5, true, int64(1), nil, []byte("{1,2,3}"), []byte(`{"a","b c"}`), []byte("{t,f}"), []byte("(1,2,3)"),
		[]byte(`{"n": 1}`), []byte{0, 1, 255}, day, at, int64(1)}
	if len(raw) != 1 || !reflect.DeepEqual(raw[0], want) {
		t.Fatalf("Rows:\n got  %#v\n want %#v", raw, want)
	}
	if st.Rows("nosuch") != nil {
		t.Error("Rows of an unknown table")
	}
	// SELECT *
	rs, err := db.Query("SELECT * FROM repass")
	if err != nil {
		t.Fatal(err)
	}
	cols, _ := rs.Columns()
	n := 0
	for rs.Next() {
		n++
	}
	rs.Close()
	if !reflect.DeepEqual(cols, []string{"id", "title", "v"}) || n != 2 {
		t.Fatalf("select *: %v %d", cols, n)
	}
	// QueryRow on zero rows
	if err := db.QueryRow("SELECT id FROM items WHERE id = $1", 99).Scan(&id); err != sql.ErrNoRows {
		t.Fatalf("want ErrNoRows, got %v", err)
	}
	if got := st.TableNames(); !reflect.DeepEqual(got, []string{"repass", "items", "links"}) {
		t.Errorf("TableNames: %v", got)
	}
	if got := st.ColumnNames("links"); !reflect.DeepEqual(got, []string{"iditem", "idrepas", "pos"}) {
		t.Errorf("ColumnNames: %v", got)
	}
}

func TestSerialAndDefaults(t *testing.T) {
	st, db := seed(t)
	var id int64
	for want := int64(1); want <= 3; want++ {
		args := withArg(item, 0, fmt.Sprintf("n%d", want))
		if err := db.QueryRow(insertItemSQL(), args...).Scan(&id); err != nil || id != want {
			t.Fatalf("id %d: %v %v", want, id, err)
		}
	}
	// an explicit id is accepted and does not bump the sequence
	mustExec(t, db, "INSERT INTO repass (id, title, v) VALUES ($1, $2, $3)", 10, "r10", 1)
	if err := db.QueryRow("INSERT INTO repass (title, v) VALUES ('r3', 1) RETURNING id").Scan(&id); err != nil || id != 3 {
		t.Fatalf("sequence after explicit id: %v %v", id, err)
	}
	// ... so the sequence can collide with it later
	mustExec(t, db, "INSERT INTO repass (id, title, v) VALUES (4, 'x', 1)")
	if _, err := db.Exec("INSERT INTO repass (title, v) VALUES ('r4', 1)"); errCode(err) != "23505" {
		t.Fatalf("want unique violation, got %v", err)
	}
	// the failed insert consumed the value, as nextval does
	if err := db.QueryRow("INSERT INTO repass (title, v) VALUES ('r5', 1) RETURNING id").Scan(&id); err != nil || id != 5 {
		t.Fatalf("sequence after failure: %v %v", id, err)
	}
	// guard default
	var guard int64
	if err := db.QueryRow("SELECT guard FROM items WHERE id = 1").Scan(&guard); err != nil || guard != 1 {
		t.Fatalf("guard: %v %v", guard, err)
	}
	// explicit guard violating ADD CHECK (guard = 1)
	args := append(withArg(item, 0, "g"), 0)
	_, err := db.Exec("INSERT INTO items ("+itemCols+", guard) VALUES ($1,$2,$3,$4,$5,$6,$7,$8,$9,$10,$11,$12,$13,$14)", args...)
	if errCode(err) != "23514" || !strings.Contains(err.Error(), `"items_guard_check1"`) {
		t.Fatalf("guard check: %v", err)
	}
	// Reset
	st.Reset()
	if len(st.Rows("items")) != 0 || len(st.Rows("repass")) != 0 || len(st.Events()) != 0 {
		t.Fatal("Reset must clear rows and events")
	}
	if err := db.QueryRow("INSERT INTO repass (title, v) VALUES ('a', 1) RETURNING id").Scan(&id); err != nil || id != 1 {
		t.Fatalf("sequence after Reset: %v %v", id, err)
	}
}

func TestConstraintViolations(t *testing.T) {
	cases := []struct {
		name string
		args []any
		code string
		sub  string
	}{
		{"ok", item, "", ""},
		{"not null text", withArg(item, 0, nil), "23502", `"name"`},
		{"not null bool", withArg(item, 2, nil), "23502", `"ok"`},
		{"not null array", withArg(item, 5, nil), "23502", `"nums"`},
		{"not null composite", withArg(item, 8, nil), "23502", `"cp"`},
		{"not null jsonb", withArg(item, 9, nil), "23502", `"doc"`},
		{"nullable score", withArg(item, 1, nil), "", ""},
		{"nullable arrays", withArg(withArg(item, 6, nil), 7, nil), "", ""},
		{"nullable times", withArg(withArg(item, 11, nil), 12, nil), "", ""},
		{"array length check", withArg(item, 5, "{1,2}"), "23514", "items_nums_check"},
		{"empty array passes the length check (NULL)", withArg(item, 5, "{}"), "", ""},
		{"json validator: wrong kind", withArg(item, 9, `{"n": "x"}`), "23514", "doc_gomacro"},
		{"json validator: extra key", withArg(item, 9, `{"n": 1, "m": 2}`), "23514", "doc_gomacro"},
		{"json validator: not an object", withArg(item, 9, `[1]`), "23514", "doc_gomacro"},
		{"json validator: NULL result passes", withArg(item, 9, `{}`), "", ""},
		{"invalid json", withArg(item, 9, `{"n": `), "sql", "json"},
		{"json bytes", withArg(item, 9, []byte(`{"n": 2.50}`)), "", ""},
		{"fk missing", withArg(item, 3, int64(99)), "23503", "items_repas_fkey"},
		{"optional fk missing", withArg(item, 4, int64(99)), "23503", "items_optrepas_fkey"},
		{"optional fk present", withArg(item, 4, int64(2)), "", ""},
		{"integer out of range", withArg(item, 3, int64(1)<<31), "22003", "out of range"},
		{"integer from string", withArg(item, 3, "2"), "", ""},
		{"integer from bytes", withArg(item, 3, []byte(" 2 ")), "", ""},
		{"integer from bad string", withArg(item, 3, "2x"), "22P02", "integer"},
		{"integer from fractional string", withArg(item, 3, "2.0"), "22P02", "integer"},
		{"integer from integral float", withArg(item, 3, 2.0), "", ""},
		{"integer from fractional float", withArg(item, 3, 2.5), "22P02", "integer"},
		{"integer from bool", withArg(item, 3, true), "22P02", "integer"},
		{"integer from time", withArg(item, 3, at), "sql", "invalid input syntax"},
		{"real from int", withArg(item, 1, int64(3)), "", ""},
		{"real from string", withArg(item, 1, "3.25"), "", ""},
		{"real from bad string", withArg(item, 1, "abc"), "22P02", "real"},
		{"real overflow", withArg(item, 1, 1e300), "22003", "out of range"},
		{"bool from strings", withArg(item, 2, "t"), "", ""},
		{"bool from false string", withArg(item, 2, "false"), "", ""},
		{"bool from bad string", withArg(item, 2, "maybe"), "22P02", "boolean"},
		{"text from bytes", withArg(item, 0, []byte("bytes")), "", ""},
		{"text with NUL", withArg(item, 0, "a\x00b"), "sql", "0x00"},
		{"text invalid utf8", withArg(item, 0, "a\xffb"), "sql", "UTF8"},
		{"array malformed", withArg(item, 5, "1,2,3"), "sql", "malformed array literal"},
		{"array bad element", withArg(item, 5, "{1,x,3}"), "22P02", "integer"},
		{"array element out of range", withArg(item, 5, "{1,2,3000000000}"), "22003", "out of range"},
		{"array with NULL element", withArg(item, 5, "{1,NULL,3}"), "", ""},
		{"array multi dimensional", withArg(item, 5, "{{1,2,3}}"), "unsupported", ""},
		{"array from int", withArg(item, 5, int64(3)), "sql", "malformed array literal"},
		{"bool array bad element", withArg(item, 7, "{t,x}"), "22P02", "boolean"},
		{"text array unquoted", withArg(item, 6, "{a,b}"), "", ""},
		{"composite too few", withArg(item, 8, "(1,2)"), "sql", "too few"},
		{"composite too many", withArg(item, 8, "(1,2,3,4)"), "sql", "too many"},
		{"composite bad field", withArg(item, 8, "(1,x,3)"), "22P02", "smallint"},
		{"composite smallint range", withArg(item, 8, "(1,70000,3)"), "22003", "smallint"},
		{"composite malformed", withArg(item, 8, "1,2,3"), "sql", "malformed record literal"},
		{"composite null field", withArg(item, 8, "(1,,3)"), "", ""},
		{"bytea from string", withArg(item, 10, "abc"), "", ""},
		{"bytea hex string", withArg(item, 10, `\x00ff`), "", ""},
		{"bytea bad hex", withArg(item, 10, `\x0`), "sql", "hexadecimal"},
		{"date from string", withArg(item, 11, "2024-01-01"), "unsupported", ""},
		{"timestamp from int", withArg(item, 12, int64(5)), "unsupported", ""},
	}
	for _, c := range cases {
		t.Run(c.name, func(t *testing.T) {
			st, db := seed(t)
			_, err := db.Exec(insertItemSQL(), c.args...)
			if errCode(err) != c.code {
				t.Fatalf("want %q, got %q (%v)", c.code, errCode(err), err)
			}
			if c.sub != "" && !strings.Contains(err.Error(), c.sub) {
				t.Fatalf("error %q lacks %q", err, c.sub)
			}
			wantRows := 1
			if c.code != "" {
				wantRows = 0
			}
			if got := len(st.Rows("items")); got != wantRows {
				t.Fatalf("%d rows after the statement", got)
			}
		})
	}
}

func TestStoredValueNormalisation(t *testing.T) {
	st, db := seed(t)
	paris := time.FixedZone("x", 2*3600)
	args := withArg(item, 1, 0.1)                                                 // real: rounded to float32
	args = withArg(args, 11, time.Date(2024, 3, 1, 1, 30, 0, 0, paris))           // date: day as written
	args = withArg(args, 12, time.Date(2024, 3, 1, 1, 30, 0, 600_000_000, paris)) // timestamp (0): rounded
	args = withArg(args, 9, `{"n": 1.50, "n": 2.50}`)                             // duplicate key: last wins
	args = withArg(args, 6, `{"",NULL,"NULL","a\"b","c\\d", e f }`)               // text[] quoting
	args = withArg(args, 10, `a\\b\001`)                                          // bytea escape format
	mustExec(t, db, insertItemSQL(), args...)
	row := st.Rows("items")[0]
	if row[2] != 0.1 {
		t.Errorf("real: %v", row[2])
	}
	if !row[12].(time.Time).Equal(time.Date(2024, 3, 1, 0, 0, 0, 0, time.UTC)) {
		t.Errorf("date: %v", row[12])
	}
	if !row[13].(time.Time).Equal(time.Date(2024, 2, 29, 23, 30, 1, 0, time.UTC)) {
		t.Errorf("timestamp: %v", row[13])
	}
	if string(row[10].([]byte)) != `{"n": 2.50}` {
		t.Errorf("jsonb: %s", row[10])
	}
	if string(row[7].([]byte)) != `{"",NULL,"NULL","a\"b","c\\d","e f"}` {
		t.Errorf("text[]: %s", row[7])
	}
	if !reflect.DeepEqual(row[11], []byte{'a', '\\', 'b', 1}) {
		t.Errorf("bytea: %v", row[11])
	}
	// a float32-inexact double is rounded the way PostgreSQL's real does
	mustExec(t, db, "UPDATE items SET score = $1 WHERE id = 1", 16777217.0)
	if got := st.Rows("items")[0][2]; got != 16777216.0 {
		t.Errorf("real rounding: %v", got)
	}
}

func TestUniqueAndPrimaryKey(t *testing.T) {
	st, db := seed(t)
	mustExec(t, db, insertItemSQL(), item...)
	if _, err := db.Exec(insertItemSQL(), item...); errCode(err) != "23505" || !strings.Contains(err.Error(), `"items_name_key"`) {
		t.Fatalf("unique name: %v", err)
	}
	mustExec(t, db, insertItemSQL(), withArg(item, 0, "it2")...)
	mustExec(t, db, "INSERT INTO links (iditem, idrepas, pos) VALUES ($1, $2, $3)", 1, 1, 0)
	mustExec(t, db, "INSERT INTO links (iditem, idrepas, pos) VALUES ($1, $2, $3)", 1, 2, 0)
	mustExec(t, db, "INSERT INTO links (iditem, idrepas, pos) VALUES ($1, $2, $3)", 3, 1, nil) // the failed insert consumed id 2
	if _, err := db.Exec("INSERT INTO links (iditem, idrepas, pos) VALUES ($1, $2, $3)", 1, 2, 5); errCode(err) != "23505" {
		t.Fatalf("multi column unique: %v", err)
	}
	// update into a duplicate
	if _, err := db.Exec("UPDATE items SET name = $1 WHERE id = $2", "it1", 3); errCode(err) != "23505" {
		t.Fatalf("unique on update: %v", err)
	}
	// update to its own value is fine
	mustExec(t, db, "UPDATE items SET name = $1 WHERE id = $2", "it2", 3)
	// primary key on serial: explicit duplicate
	if _, err := db.Exec("INSERT INTO repass (id, title, v) VALUES (1, 'dup', 0)"); errCode(err) != "23505" || !strings.Contains(err.Error(), "repass_pkey") {
		t.Fatalf("pk: %v", err)
	}
	if _, err := db.Exec("INSERT INTO repass (id, title, v) VALUES (NULL, 'dup', 0)"); errCode(err) != "23502" {
		t.Fatalf("pk null: %v", err)
	}
	if len(st.Rows("links")) != 3 {
		t.Fatal("links rows")
	}
	// ADD PRIMARY KEY (a, b): unique + not null; NULLs never collide in a plain UNIQUE
	st2 := newStore(t, `CREATE TABLE t (a integer, b integer, c integer); ALTER TABLE t ADD PRIMARY KEY (a, b); ALTER TABLE t ADD UNIQUE (c);`)
	db2 := st2.DB()
	mustExec(t, db2, "INSERT INTO t (a, b, c) VALUES (1, 1, NULL)")
	mustExec(t, db2, "INSERT INTO t (a, b, c) VALUES (1, 2, NULL)")
	if _, err := db2.Exec("INSERT INTO t (a, b, c) VALUES (1, 2, 3)"); errCode(err) != "23505" || !strings.Contains(err.Error(), "t_pkey") {
		t.Fatalf("composite pk: %v", err)
	}
	if _, err := db2.Exec("INSERT INTO t (a, b, c) VALUES (1, NULL, 3)"); errCode(err) != "23502" {
		t.Fatalf("composite pk null: %v", err)
	}
}

func TestForeignKeysOnDelete(t *testing.T) {
	st, db := seed(t)
	mustExec(t, db, insertItemSQL(), withArg(item, 4, int64(2))...)                    // item 1 -> repas 1, optrepas 2
	mustExec(t, db, insertItemSQL(), withArg(withArg(item, 0, "it2"), 3, int64(2))...) // item 2 -> repas 2
	mustExec(t, db, "INSERT INTO links (iditem, idrepas) VALUES (1, 1)")
	mustExec(t, db, "INSERT INTO links (iditem, idrepas) VALUES (2, 1)")
	// restrict: repas 1 is referenced by items.repas and links.idrepas
	_, err := db.Exec("DELETE FROM repass WHERE id = $1", 1)
	if errCode(err) != "23503" || !strings.Contains(err.Error(), `on table "items"`) && !strings.Contains(err.Error(), `on table "links"`) {
		t.Fatalf("restrict: %v", err)
	}
	if len(st.Rows("repass")) != 2 {
		t.Fatal("a failed delete must not remove anything")
	}
	// cascade: deleting item 1 removes its links
	res, err := db.Exec("DELETE FROM items WHERE id = 1")
	if err != nil {
		t.Fatal(err)
	}
	if n, _ := res.RowsAffected(); n != 1 {
		t.Fatalf("RowsAffected counts the target table only: %d", n)
	}
	if got := st.Rows("links"); len(got) != 1 || got[0][0] != int64(2) {
		t.Fatalf("links after cascade: %v", got)
	}
	// set null: item 3 has optrepas = 1 ... create then delete repas 3
	mustExec(t, db, "INSERT INTO repass (title, v) VALUES ('r3', 1)")
	mustExec(t, db, insertItemSQL(), withArg(withArg(item, 0, "it3"), 4, int64(3))...)
	mustExec(t, db, "DELETE FROM repass WHERE id = 3")
	var opt sql.NullInt64
	if err := db.QueryRow("SELECT optrepas FROM items WHERE name = 'it3'").Scan(&opt); err != nil || opt.Valid {
		t.Fatalf("SET NULL: %v %v", opt, err)
	}
	// multi-level: repas -> (restrict) blocks even if other paths cascade
	if _, err := db.Exec("DELETE FROM repass"); errCode(err) != "23503" {
		t.Fatalf("delete all repass: %v", err)
	}
	// a NULL foreign key is not checked
	mustExec(t, db, "UPDATE items SET optrepas = NULL")
	// updating a referenced key is refused while referenced (NO ACTION)
	if _, err := db.Exec("UPDATE repass SET id = 50 WHERE id = 2"); errCode(err) != "23503" {
		t.Fatalf("update of a referenced key: %v", err)
	}
	mustExec(t, db, "UPDATE repass SET title = 'renamed' WHERE id = 2")
	// updating a foreign key column to a missing target
	if _, err := db.Exec("UPDATE items SET repas = 77 WHERE id = 2"); errCode(err) != "23503" {
		t.Fatalf("fk on update: %v", err)
	}
}

func TestCascadeChainsAndSelfReference(t *testing.T) {
	st := newStore(t, `
		CREATE TABLE a (id serial PRIMARY KEY, parent integer);
		CREATE TABLE b (id serial PRIMARY KEY, a integer NOT NULL);
		CREATE TABLE c (id serial PRIMARY KEY, b integer NOT NULL, a integer);
		ALTER TABLE a ADD FOREIGN KEY (parent) REFERENCES a ON DELETE CASCADE;
		ALTER TABLE b ADD FOREIGN KEY (a) REFERENCES a ON DELETE CASCADE;
		ALTER TABLE c ADD FOREIGN KEY (b) REFERENCES b ON DELETE CASCADE;
		ALTER TABLE c ADD FOREIGN KEY (a) REFERENCES a;`)
	db := st.DB()
	mustExec(t, db, "INSERT INTO a (parent) VALUES (NULL)")
	mustExec(t, db, "INSERT INTO a (parent) VALUES (1)")
	mustExec(t, db, "INSERT INTO a (parent) VALUES (2)")
	mustExec(t, db, "INSERT INTO a (id, parent) VALUES (9, 9)") // self reference
	mustExec(t, db, "INSERT INTO b (a) VALUES (3)")
	mustExec(t, db, "INSERT INTO c (b, a) VALUES (1, NULL)")
	mustExec(t, db, "DELETE FROM a WHERE id = 1")
	if len(st.Rows("a")) != 1 || len(st.Rows("b")) != 0 || len(st.Rows("c")) != 0 {
		t.Fatalf("chain: %v %v %v", st.Rows("a"), st.Rows("b"), st.Rows("c"))
	}
	mustExec(t, db, "DELETE FROM a WHERE id = 9")
	// NO ACTION is checked at the end of the statement: c(b=2,a=4) references a 4 both
	// through a cascading path (b) and a restricting one; the cascade removes the row first
	mustExec(t, db, "INSERT INTO a (id) VALUES (4)")
	mustExec(t, db, "INSERT INTO b (id, a) VALUES (2, 4)")
	mustExec(t, db, "INSERT INTO c (b, a) VALUES (2, 4)")
	mustExec(t, db, "DELETE FROM a WHERE id = 4")
	if len(st.Rows("c")) != 0 {
		t.Fatal("cascade + no action on the same row")
	}
}

func TestUpdateForms(t *testing.T) {
	st, db := seed(t)
	mustExec(t, db, insertItemSQL(), item...)
	mustExec(t, db, insertItemSQL(), withArg(item, 0, "it2")...)
	// tuple form with RETURNING, as generated
	var name string
	var score float64
	err := db.QueryRow("UPDATE items SET (name, score) = ($1, $2) WHERE id = $3 RETURNING name, score;", "new", 2.5, 1).Scan(&name, &score)
	if err != nil || name != "new" || score != 2.5 {
		t.Fatalf("tuple update: %q %v %v", name, score, err)
	}
	if err := db.QueryRow("UPDATE items SET (name, score) = ROW($1, $2) WHERE id = $3 RETURNING name", "new2", 3.5, 1).Scan(&name); err != nil || name != "new2" {
		t.Fatalf("ROW update: %v", err)
	}
	// update keeps the physical position
	if rows := st.Rows("items"); rows[0][1] != "new2" || rows[1][1] != "it2" {
		t.Fatalf("order: %v", rows)
	}
	// single column in parentheses: rejected by PostgreSQL >= 10 unless ROW is written
	_, err = db.Exec("UPDATE items SET (name) = ($1) WHERE id = $2", "x", 1)
	if errCode(err) != "42601" || !strings.Contains(err.Error(), "ROW()") {
		t.Fatalf("single column tuple: %v", err)
	}
	mustExec(t, db, "UPDATE items SET (name) = ROW($1) WHERE id = $2", "x", 1)
	st.AllowSingleColumnRowUpdate = true
	mustExec(t, db, "UPDATE items SET (name) = ($1) WHERE id = $2", "y", 1)
	st.AllowSingleColumnRowUpdate = false
	// several rows, no WHERE
	res, err := db.Exec("UPDATE items SET ok = FALSE, score = NULL")
	if err != nil {
		t.Fatal(err)
	}
	if n, _ := res.RowsAffected(); n != 2 {
		t.Fatalf("affected: %d", n)
	}
	// column to column
	mustExec(t, db, "UPDATE items SET optrepas = repas WHERE id = 1")
	if st.Rows("items")[0][5] != int64(1) {
		t.Fatal("column source")
	}
	// zero rows: QueryRow gives ErrNoRows, Exec 0 affected
	if err := db.QueryRow("UPDATE items SET name = $1 WHERE id = $2 RETURNING id", "zz", 99).Scan(new(int64)); err != sql.ErrNoRows {
		t.Fatalf("update of nothing: %v", err)
	}
	// violations during update leave the table unchanged
	before := st.Rows("items")
	for _, c := range []struct{ q, code string }{
		{"UPDATE items SET name = NULL", "23502"},
		{"UPDATE items SET nums = '{1}'", "23514"},
		{"UPDATE items SET doc = '[]'", "23514"},
		{"UPDATE items SET guard = 0", "23514"},
		{"UPDATE items SET name = 'same'", "23505"},
		{"UPDATE items SET ok = 1", "42804"},
		{"UPDATE items SET repas = 'x'", "22P02"},
		{"UPDATE items SET repas = 1.5", "unsupported"},
		{"UPDATE items SET nums = 3", "42804"},
		{"UPDATE items SET name = 1, name = 2", "42601"},
		{"UPDATE items SET (name, score) = ($1)", "42601"},
		{"UPDATE items SET nosuch = 1", "42703"},
		{"UPDATE items SET name = nosuch", "42703"},
		{"UPDATE items SET name = repas", "unsupported"},
		{"UPDATE items SET score = score + 1", "unsupported"},
		{"UPDATE nosuch SET a = 1", "42P01"},
	} {
		args := []any{}
		if strings.Contains(c.q, "$1") {
			args = append(args, "v")
		}
		if _, err := db.Exec(c.q, args...); errCode(err) != c.code {
			t.Errorf("%s: want %s got %v", c.q, c.code, err)
		}
		if !reflect.DeepEqual(before, st.Rows("items")) {
			t.Fatalf("%s modified the table", c.q)
		}
	}
	// literal assignments
	mustExec(t, db, "UPDATE items SET name = 5, score = -2, ok = 'yes', blob = 'xyz', tags = '{q}' WHERE id = 1")
	r := st.Rows("items")[0]
	if r[1] != "5" || r[2] != -2.0 || r[3] != true || string(r[11].([]byte)) != "xyz" || string(r[7].([]byte)) != `{"q"}` {
		t.Fatalf("literal assignment: %v", r)
	}
}

func TestWhereSemantics(t *testing.T) {
	st, db := seed(t)
	mustExec(t, db, insertItemSQL(), item...)                                                           // 1: repas 1, opt NULL, score 1.5
	mustExec(t, db, insertItemSQL(), withArg(withArg(withArg(item, 0, "it2"), 4, int64(2)), 1, nil)...) // 2: opt 2, score NULL
	mustExec(t, db, insertItemSQL(), withArg(withArg(item, 0, "it3"), 3, int64(2))...)                  // 3: repas 2
	ids := func(q string, args ...any) string {
		t.Helper()
		rs, err := db.Query("SELECT id FROM items WHERE "+q, args...)
		if err != nil {
			return "ERR:" + errCode(err)
		}
		defer rs.Close()
		var out []string
		for rs.Next() {
			var id int64
			if err := rs.Scan(&id); err != nil {
				t.Fatal(err)
			}
			out = append(out, fmt.Sprint(id))
		}
		return strings.Join(out, ",")
	}
	cases := []struct {
		q    string
		args []any
		want string
	}{
		{"id = $1", []any{2}, "2"},
		{"$1 = id", []any{2}, "2"},
		{"Id = $1", []any{2}, "2"},
		{"ID = 2", nil, "2"},
		{`"id" = 2`, nil, "2"},
		{`"Id" = 2`, nil, "ERR:42703"},
		{"id != 2", nil, "1,3"},
		{"id <> 2", nil, "1,3"},
		{"id < 3 AND id >= 2", nil, "2"},
		{"id > $1", []any{1}, "2,3"},
		{"id <= $1", []any{1}, "1"},
		{"repas = 1 OR optrepas = 2", nil, "1,2"},
		{"NOT repas = 1", nil, "3"},
		{"NOT (repas = 1 OR id = 3)", nil, ""},
		{"(repas = 1 AND id = 1) OR id = 3", nil, "1,3"},
		{"optrepas = NULL", nil, ""},
		{"optrepas = $1", []any{nil}, ""},
		{"optrepas <> 2", nil, ""}, // NULL <> 2 is NULL
		{"optrepas IS NULL", nil, "1,3"},
		{"optrepas IS NOT NULL", nil, "2"},
		{"NOT optrepas = 2", nil, ""},
		{"optrepas = 2 OR optrepas IS NULL", nil, "1,2,3"},
		{"((optrepas IS NULL AND $1 IS NULL) OR optrepas = $1)", []any{nil}, "1,3"},
		{"((optrepas IS NULL AND $1 IS NULL) OR optrepas = $1)", []any{2}, "2"},
		{"repas = $1 AND ((optrepas IS NULL AND $2 IS NULL) OR optrepas = $2)", []any{1, nil}, "1"},
		{"score = 1.5", nil, "1,3"},
		{"score IS NULL", nil, "2"},
		{"name = 'it2'", nil, "2"},
		{"name = $1", []any{"it3"}, "3"},
		{"name = $1", []any{[]byte("it3")}, "3"},
		{"ok", nil, "1,2,3"},
		{"NOT ok", nil, ""},
		{"ok = TRUE", nil, "1,2,3"},
		{"ok = 't'", nil, "1,2,3"},
		{"TRUE", nil, "1,2,3"},
		{"NULL", nil, ""},
		{"id = ANY($1)", []any{int64Array{1, 3, 7}}, "1,3"},
		{"id = ANY($1)", []any{"{2}"}, "2"},
		{"id = ANY($1)", []any{[]byte("{}")}, ""},
		{"id = ANY($1)", []any{int64Array(nil)}, ""},
		{"optrepas = ANY($1)", []any{int64Array{2}}, "2"},
		{"optrepas = ANY($1)", []any{"{2,NULL}"}, "2"},
		{"repas = ANY($1) AND id = $2", []any{int64Array{1, 2}, 3}, "3"},
		{"name = ANY($1)", []any{`{"it1","it3"}`}, "1,3"},
		{"id = ANY($1)", []any{"1,2"}, "ERR:sql"},
		{"id = ANY($1)", []any{"{a}"}, "ERR:22P02"},
		{"id = ANY($1)", []any{int64(1)}, "ERR:sql"},
		{"id = ANY(nums)", nil, "1,2,3"},
		{"$1 = ANY(nums)", []any{3}, "1,2,3"},
		{"$1 = ANY(nums)", []any{4}, ""},
		{"day = $1", []any{day}, "1,2,3"},
		{"at < $1", []any{at.Add(time.Second)}, "1,2,3"},
		{"nums = $1", []any{"{1,2,3}"}, "1,2,3"},
		{"nums = $1", []any{"{1,2,4}"}, ""},
		{"blob = $1", []any{[]byte{0, 1, 255}}, "1,2,3"},
		// errors PostgreSQL raises whatever the data
		{"name = 1", nil, "ERR:sql"},
		{"id = 'x'", nil, "ERR:sql"},
		{"id = TRUE", nil, "ERR:sql"},
		{"ok = 1", nil, "ERR:sql"},
		{"nosuch = 1", nil, "ERR:42703"},
		{"id = $1", []any{"x"}, "ERR:22P02"},
		{"id = $1", []any{int64(1) << 40}, "ERR:22003"},
		{"id = $1", []any{1, 2}, "ERR:08P01"},
		{"id = $1", nil, "ERR:08P01"},
		{"id = 1", []any{1}, "ERR:08P01"},
		{"id = $2", []any{1, 2}, "ERR:42P18"},
		{"id = $1 AND repas = $3", []any{1, 2, 3}, "ERR:42P18"},
		{"$1 IS NULL", []any{nil}, "ERR:42P18"},
		{"id = order", nil, "ERR:42601"},
		{"user = 1", nil, "ERR:unsupported"},
		{"id = 1 AND", nil, "ERR:42601"},
		// outside the grammar
		{"id IN (1, 2)", nil, "ERR:unsupported"},
		{"id + 1 = 2", nil, "ERR:unsupported"},
		{"id BETWEEN 1 AND 2", nil, "ERR:unsupported"},
		{"lower(name) = 'x'", nil, "ERR:unsupported"},
		{"doc -> 'n' = '1'", nil, "ERR:unsupported"},
		{"id = $1 AND name = $1", []any{1}, "ERR:unsupported"},
		{"$1 = $2", []any{1, 1}, "ERR:unsupported"},
		{"id = 1 ORDER BY id", nil, "ERR:unsupported"},
		{"id = 1 LIMIT 1", nil, "ERR:unsupported"},
		{"name < 'b'", nil, "ERR:unsupported"},
		{"day = '2024-01-01'", nil, "ERR:unsupported"},
	}
	for _, c := range cases {
		t.Run(c.q, func(t *testing.T) {
			if got := ids(c.q, c.args...); got != c.want {
				t.Fatalf("args %v: got %q want %q", c.args, got, c.want)
			}
		})
	}
	// type errors show on an empty table too
	st.Reset()
	if got := ids("name = 1"); got != "ERR:sql" {
		t.Fatalf("empty table: %q", got)
	}
}

func TestStatementErrors(t *testing.T) {
	_, db := seed(t)
	cases := []struct {
		q    string
		args []any
		code string
	}{
		{"SELECT id FROM nosuch", nil, "42P01"},
		{"SELECT nosuch FROM items", nil, "42703"},
		{`SELECT "Id" FROM items`, nil, "42703"},
		{`SELECT id FROM "Items"`, nil, "42P01"},
		{`SELECT "id" FROM "items"`, nil, ""},
		{"select ID from ITEMS;", nil, ""},
		{"SELECT id FROM items -- c", nil, ""},
		{"SELECT id /* c */ FROM items", nil, ""},
		{"SELECT order FROM items", nil, "42601"},
		{"SELECT id, FROM items", nil, "42601"},
		{"SELECT id FROM", nil, "42601"},
		{"SELECT id items", nil, "unsupported"},
		{"SELEC id FROM items", nil, "unsupported"},
		{"SELECT id FROM items; SELECT 1", nil, "sql"},
		{"", nil, "unsupported"},
		{"SELECT id FROM items WHERE", nil, "42601"},
		{"SELECT 1", nil, "unsupported"},
		{"SELECT id + 1 FROM items", nil, "unsupported"},
		{"SELECT count(*) FROM items", nil, "unsupported"},
		{"SELECT id AS x FROM items", nil, "unsupported"},
		{"SELECT DISTINCT id FROM items", nil, "unsupported"},
		{"SELECT id FROM items i", nil, "unsupported"},
		{"SELECT id FROM items, repass", nil, "unsupported"},
		{"SELECT id FROM items JOIN repass ON TRUE", nil, "unsupported"},
		{"SELECT id FROM public.items", nil, "unsupported"},
		{"SELECT *, id FROM items", nil, "unsupported"},
		{"INSERT INTO repass (title, v) VALUES ($1)", []any{"a"}, "42601"},
		{"INSERT INTO repass (title) VALUES ($1, $2)", []any{"a", 1}, "42601"},
		{"INSERT INTO repass (title, title) VALUES ($1, $2)", []any{"a", "b"}, "42701"},
		{"INSERT INTO repass (nosuch) VALUES ($1)", []any{"a"}, "42703"},
		{"INSERT INTO nosuch (a) VALUES ($1)", []any{"a"}, "42P01"},
		{"INSERT INTO repass (title, v) VALUES ($1, $2) RETURNING nosuch", []any{"a", 1}, "42703"},
		{"INSERT INTO repass (title, v) VALUES ($1, $3)", []any{"a", 1, 2}, "42P18"},
		{"INSERT INTO repass (title, v) VALUES ($1, $2)", []any{"a"}, "08P01"},
		{"INSERT INTO repass (title, v) VALUES ($1, $2)", []any{"a", 1, 2}, "08P01"},
		{"INSERT INTO repass (title, v) VALUES ($1, $2)", []any{"a", 3}, "23514"},
		{"INSERT INTO repass (title, v) VALUES ($1, $2)", []any{"a", 40000}, "22003"},
		{"INSERT INTO repass (title, v) VALUES ('a', 40000)", nil, "22003"},
		{"INSERT INTO repass (title, v) VALUES (title, 1)", nil, "42703"},
		{"INSERT INTO repass (title, v) VALUES ('a', TRUE)", nil, "42804"},
		{"INSERT INTO repass (title, v) VALUES ('a', 1), ('b', 1)", nil, "unsupported"},
		{"INSERT INTO repass VALUES (1, 'a', 1)", nil, "unsupported"},
		{"INSERT INTO repass (title, v) VALUES (DEFAULT, 1)", nil, "unsupported"},
		{"INSERT INTO repass (title, v) SELECT title, v FROM repass", nil, "unsupported"},
		{"INSERT INTO repass (title, v) VALUES ('a', 1) ON CONFLICT DO NOTHING", nil, "unsupported"},
		{"INSERT INTO repass (title, v) VALUES ('a', 1 + 1)", nil, "unsupported"},
		{"INSERT INTO repass (title, v) VALUES ('a', 1", nil, "42601"},
		{"INSERT repass (title, v) VALUES ('a', 1)", nil, "42601"},
		{"DELETE FROM nosuch", nil, "42P01"},
		{"DELETE FROM items WHERE nosuch = 1", nil, "42703"},
		{"DELETE FROM items RETURNING nosuch", nil, "42703"},
		{"DELETE items", nil, "42601"},
		{"DELETE FROM items USING repass", nil, "unsupported"},
		{"DELETE FROM items WHERE id = 1 RETURNING id, id + 1", nil, "unsupported"},
		{"UPDATE items SET", nil, "42601"},
		{"UPDATE items SET name", nil, "42601"},
		{"UPDATE items SET name = 'a' FROM repass", nil, "unsupported"},
		{"UPDATE items SET (name) = (SELECT 'a')", nil, "unsupported"},
		{"COPY items (name) FROM STDIN", nil, "sql"},
		{"CREATE TABLE x (a int)", nil, "unsupported"},
		{"TRUNCATE items", nil, "unsupported"},
		{"BEGIN", nil, "unsupported"},
		{"SELECT id FROM items WHERE id = 'unterminated", nil, "42601"},
		{"SELECT id FROM items WHERE id = @1", nil, "unsupported"},
	}
	for _, c := range cases {
		t.Run(c.q, func(t *testing.T) {
			_, err := db.Exec(c.q, c.args...)
			if errCode(err) != c.code {
				t.Fatalf("want %q got %q (%v)", c.code, errCode(err), err)
			}
			if c.code == "unsupported" && !strings.HasPrefix(err.Error(), "memdb: unsupported statement") {
				t.Fatalf("message: %v", err)
			}
		})
	}
}

func TestDeleteReturning(t *testing.T) {
	st, db := seed(t)
	for i := 1; i <= 4; i++ {
		mustExec(t, db, insertItemSQL(), withArg(item, 0, fmt.Sprintf("it%d", i))...)
	}
	var name string
	if err := db.QueryRow("DELETE FROM items WHERE id = $1 RETURNING name;", 2).Scan(&name); err != nil || name != "it2" {
		t.Fatalf("%q %v", name, err)
	}
	rs, err := db.Query("DELETE FROM items WHERE id = ANY($1) RETURNING id", int64Array{4, 1, 99})
	if err != nil {
		t.Fatal(err)
	}
	var got []int64
	for rs.Next() {
		var id int64
		rs.Scan(&id)
		got = append(got, id)
	}
	rs.Close()
	if !reflect.DeepEqual(got, []int64{1, 4}) { // physical order, not argument order
		t.Fatalf("deleted ids: %v", got)
	}
	if rows := st.Rows("items"); len(rows) != 1 || rows[0][0] != int64(3) {
		t.Fatalf("remaining: %v", rows)
	}
	if err := db.QueryRow("DELETE FROM items WHERE id = 77 RETURNING id").Scan(new(int64)); err != sql.ErrNoRows {
		t.Fatalf("%v", err)
	}
	res, _ := db.Exec("DELETE FROM items")
	if n, _ := res.RowsAffected(); n != 1 {
		t.Fatalf("affected %d", n)
	}
	if _, err := res.LastInsertId(); err == nil {
		t.Fatal("LastInsertId must not be available")
	}
}

func TestTransactions(t *testing.T) {
	st, db := seed(t)
	tx, err := db.Begin()
	if err != nil {
		t.Fatal(err)
	}
	mustExec(t, tx, insertItemSQL(), item...)
	mustExec(t, tx, "UPDATE repass SET title = 'changed' WHERE id = 1")
	mustExec(t, tx, "DELETE FROM repass WHERE id = 2")
	if err := tx.Rollback(); err != nil {
		t.Fatal(err)
	}
	if len(st.Rows("items")) != 0 || len(st.Rows("repass")) != 2 || st.Rows("repass")[0][1] != "r1" {
		t.Fatalf("rollback: %v %v", st.Rows("items"), st.Rows("repass"))
	}
	// sequences are not rolled back
	var id int64
	if err := db.QueryRow(insertItemSQL(), item...).Scan(&id); err != nil || id != 2 {
		t.Fatalf("id after rollback: %v %v", id, err)
	}
	// commit keeps
	tx, _ = db.Begin()
	mustExec(t, tx, "UPDATE repass SET title = 'kept' WHERE id = 1")
	if err := tx.Commit(); err != nil {
		t.Fatal(err)
	}
	if st.Rows("repass")[0][1] != "kept" {
		t.Fatal("commit")
	}
	// an error aborts the transaction: later statements fail, COMMIT rolls back
	tx, _ = db.Begin()
	mustExec(t, tx, "UPDATE repass SET title = 'lost' WHERE id = 1")
	if _, err := tx.Exec("INSERT INTO repass (title, v) VALUES ('bad', 9)"); errCode(err) != "23514" {
		t.Fatalf("%v", err)
	}
	if _, err := tx.Exec("SELECT id FROM repass"); errCode(err) != "25P02" {
		t.Fatalf("statement in a failed transaction: %v", err)
	}
	if err := tx.Commit(); errCode(err) != "25P02" {
		t.Fatalf("commit of a failed transaction: %v", err)
	}
	if st.Rows("repass")[0][1] != "kept" {
		t.Fatal("commit of a failed transaction must roll back")
	}
	// an unsupported statement makes the rest of the transaction inconclusive
	tx, _ = db.Begin()
	if _, err := tx.Exec("SELECT count(*) FROM repass"); errCode(err) != "unsupported" {
		t.Fatal(err)
	}
	if _, err := tx.Exec("SELECT id FROM repass"); errCode(err) != "unsupported" {
		t.Fatalf("after unsupported: %v", err)
	}
	if err := tx.Commit(); errCode(err) != "unsupported" {
		t.Fatalf("commit after unsupported: %v", err)
	}
	// statement level atomicity outside transactions: multi-row update failing half way
	mustExec(t, db, "INSERT INTO repass (title, v) VALUES ('r3', 1)")
	before := st.Rows("repass")
	if _, err := db.Exec("UPDATE repass SET id = 3 WHERE id <> 3"); errCode(err) != "23505" && errCode(err) != "23503" {
		t.Fatalf("%v", err)
	}
	if !reflect.DeepEqual(before, st.Rows("repass")) {
		t.Fatal("failed statement left changes behind")
	}
	var kinds []string
	for _, e := range st.Events() {
		if e.Kind == "begin" || e.Kind == "commit" || e.Kind == "rollback" {
			kinds = append(kinds, e.Kind+":"+e.Err)
		}
	}
	want := []string{"begin:", "rollback:", "begin:", "commit:", "begin:", "commit:pq: Could not complete operation in a failed transaction", "begin:",
		"commit:memdb: unsupported statement: commit after a statement outside the modelled subset"}
	if !reflect.DeepEqual(kinds, want) {
		t.Fatalf("tx events: %q", kinds)
	}
}

func TestCopyIn(t *testing.T) {
	st, db := seed(t)
	mustExec(t, db, insertItemSQL(), item...)
	const copySQL = `COPY "links" ("iditem", "idrepas", "pos") FROM STDIN`
	if _, err := db.Prepare(copySQL); errCode(err) != "sql" || !strings.Contains(err.Error(), "inside a transaction") {
		t.Fatalf("COPY outside a transaction: %v", err)
	}
	tx, _ := db.Begin()
	stmt, err := tx.Prepare(copySQL)
	if err != nil {
		t.Fatal(err)
	}
	for _, r := range [][]any{{1, 1, 0}, {1, 2, nil}} {
		if _, err := stmt.Exec(r...); err != nil {
			t.Fatal(err)
		}
	}
	if len(st.Rows("links")) != 0 {
		t.Fatal("rows must be buffered until the flush")
	}
	if _, err := tx.Exec("SELECT iditem FROM links"); errCode(err) != "sql" || !strings.Contains(err.Error(), "COPY in progress") {
		t.Fatalf("statement during COPY: %v", err)
	}
	res, err := stmt.Exec()
	if err != nil {
		t.Fatal(err)
	}
	if n, _ := res.RowsAffected(); n != 2 {
		t.Fatalf("affected %d", n)
	}
	if err := stmt.Close(); err != nil {
		t.Fatal(err)
	}
	if err := tx.Commit(); err != nil {
		t.Fatal(err)
	}
	if got := st.Rows("links"); len(got) != 2 || got[1][2] != nil || got[0][1] != int64(1) {
		t.Fatalf("links: %v", got)
	}
	// violations at flush: nothing is inserted, the transaction is aborted
	tx, _ = db.Begin()
	stmt, _ = tx.Prepare(copySQL)
	stmt.Exec(1, 1, 5) // duplicate of an existing pair
	if _, err := stmt.Exec(); errCode(err) != "23505" {
		t.Fatalf("flush: %v", err)
	}
	stmt.Close()
	if err := tx.Commit(); errCode(err) != "25P02" {
		t.Fatalf("commit: %v", err)
	}
	// duplicates inside the batch, FK and type errors
	for _, c := range []struct {
		rows [][]any
		code string
	}{
		{[][]any{{1, 7, 0}}, "23503"},
		{[][]any{{9, 1, 0}}, "23503"},
		{[][]any{{nil, 1, 0}}, "23502"},
		{[][]any{{"x", 1, 0}}, "22P02"},
		{[][]any{{1, 1, 0}, {1, 1, 1}}, "23505"},
	} {
		st.Reset()
		mustExec(t, db, "INSERT INTO repass (title, v) VALUES ('r', 1)")
		mustExec(t, db, insertItemSQL(), item...)
		tx, _ = db.Begin()
		stmt, _ = tx.Prepare(copySQL)
		for _, r := range c.rows {
			if _, err := stmt.Exec(r...); err != nil {
				t.Fatal(err)
			}
		}
		if _, err := stmt.Exec(); errCode(err) != c.code {
			t.Errorf("%v: want %s got %v", c.rows, c.code, err)
		}
		tx.Rollback()
		if len(st.Rows("links")) != 0 {
			t.Errorf("%v: rows were inserted", c.rows)
		}
	}
	// wrong number of values, unknown column / table, reserved word
	tx, _ = db.Begin()
	stmt, _ = tx.Prepare(copySQL)
	if _, err := stmt.Exec(1, 1); errCode(err) != "22P04" {
		t.Fatalf("short row: %v", err)
	}
	tx.Rollback()
	for q, code := range map[string]string{
		`COPY "links" ("nosuch") FROM STDIN`:     "42703",
		`COPY "nosuch" ("a") FROM STDIN`:         "42P01",
		`COPY "Links" ("iditem") FROM STDIN`:     "42P01",
		`COPY "links" ("IdItem") FROM STDIN`:     "42703",
		`COPY links (iditem, iditem) FROM STDIN`: "42701",
		`COPY links (IdItem) FROM STDIN`:         "",
		`COPY links FROM STDIN`:                  "unsupported",
		`COPY links (iditem) TO STDOUT`:          "sql",
		`COPY links (iditem) FROM '/tmp/x'`:      "unsupported",
	} {
		tx, _ = db.Begin()
		s, err := tx.Prepare(q)
		if errCode(err) != code {
			t.Errorf("%s: want %q got %v", q, code, err)
		}
		if s != nil {
			s.Close()
		}
		tx.Rollback()
	}
	// Close without the final Exec() flushes, like lib/pq
	st.Reset()
	mustExec(t, db, "INSERT INTO repass (title, v) VALUES ('r', 1)")
	mustExec(t, db, insertItemSQL(), item...)
	tx, _ = db.Begin()
	stmt, _ = tx.Prepare(copySQL)
	stmt.Exec(1, 1, 3)
	if err := stmt.Close(); err != nil {
		t.Fatal(err)
	}
	tx.Commit()
	if len(st.Rows("links")) != 1 {
		t.Fatal("Close must flush")
	}
	var kinds []string
	for _, e := range st.Events() {
		if strings.HasPrefix(e.Kind, "copy") {
			kinds = append(kinds, e.Kind)
		}
	}
	if !reflect.DeepEqual(kinds, []string{"copy", "copy_row", "copy_end"}) {
		t.Fatalf("copy events: %v", kinds)
	}
}

func TestPreparedStatements(t *testing.T) {
	st, db := seed(t)
	stmt, err := db.Prepare("SELECT title FROM repass WHERE id = $1")
	if err != nil {
		t.Fatal(err)
	}
	defer stmt.Close()
	var title string
	if err := stmt.QueryRow(2).Scan(&title); err != nil || title != "r2" {
		t.Fatalf("%q %v", title, err)
	}
	if err := stmt.QueryRow(1, 2).Scan(&title); errCode(err) != "08P01" {
		t.Fatalf("%v", err)
	}
	ins, err := db.Prepare("INSERT INTO repass (title, v) VALUES ($1, $2)")
	if err != nil {
		t.Fatal(err)
	}
	if _, err := ins.Exec("p", 1); err != nil {
		t.Fatal(err)
	}
	if len(st.Rows("repass")) != 3 {
		t.Fatal("prepared insert")
	}
	for q, code := range map[string]string{
		"SELECT x FROM repass":        "42703",
		"SELECT id FROM nosuch":       "42P01",
		"SELECT id FROM":              "42601",
		"SELECT count(*) FROM repass": "unsupported",
	} {
		if _, err := db.Prepare(q); errCode(err) != code {
			t.Errorf("Prepare(%s): want %s got %v", q, code, err)
		}
	}
}

func TestEvents(t *testing.T) {
	st, db := seed(t)
	st.ClearEvents()
	db.Exec("INSERT INTO items (Name, ok) VALUES ($1, $2) RETURNING Id", "n", true)
	db.QueryRow(insertItemSQL(), item...).Scan(new(int64))
	rs, _ := db.Query(`SELECT Id, "name" FROM Items WHERE Repas = $1 AND ((OptRepas IS NULL AND $2 IS NULL) OR OptRepas = $2)`, 1, nil)
	rs.Close()
	db.Exec("UPDATE items SET (name, score) = ($1, $2) WHERE Id = $3 RETURNING id, name", "z", 2.5, 2) // id 1 was consumed by the failed insert
	db.Exec("DELETE FROM items WHERE id = ANY($1) RETURNING id", int64Array{2})
	db.Exec("SELECT nothing FROM nowhere WHERE a = $2")
	db.Exec("VACUUM $1", []byte("x"))
	db.Exec("SELECT 'unterminated")
	ev := st.Events()
	if len(ev) != 8 {
		t.Fatalf("%d events", len(ev))
	}
	type view struct {
		kind, err    string
		ret, aff     int
		tables, cols []string
		ph           []int
		nargs        int
	}
	var got []view
	for _, e := range ev {
		errClass := ""
		if e.Err != "" {
			errClass = strings.SplitN(e.Err, ":", 2)[0]
		}
		got = append(got, view{e.Kind, errClass, e.RowsReturned, e.RowsAffected, e.Tables, e.Columns, e.Placeholders, len(e.Args)})
	}
	want := []view{
		{"insert", "pq", 0, 0, []string{"items"}, []string{"Name", "ok", "Id"}, []int{1, 2}, 2},
		{"insert", "", 1, 1, []string{"items"}, append(strings.Split(itemCols, ", "), "id"), []int{1, 2, 3, 4, 5, 6, 7, 8, 9, 10, 11, 12, 13}, 13},
		{"select", "", 1, 0, []string{"Items"}, []string{"Id", `"name"`, "Repas", "OptRepas", "OptRepas"}, []int{1, 2, 2}, 2},
		{"update", "", 1, 1, []string{"items"}, []string{"name", "score", "Id", "id", "name"}, []int{1, 2, 3}, 3},
		{"delete", "", 1, 1, []string{"items"}, []string{"id", "id"}, []int{1}, 1},
		{"select", "pq", 0, 0, []string{"nowhere"}, []string{"nothing", "a"}, []int{2}, 0},
		{"unknown", "memdb", 0, 0, nil, nil, []int{1}, 1},
		{"unknown", "pq", 0, 0, nil, nil, nil, 0},
	}
	for i := range want {
		if !reflect.DeepEqual(got[i], want[i]) {
			t.Errorf("event %d:\n got  %+v\n want %+v", i, got[i], want[i])
		}
	}
	if ev[1].SQL != insertItemSQL() || ev[1].Args[0] != "it1" || ev[1].Args[3] != int64(1) || ev[4].Args[0] != "{2}" {
		t.Errorf("args: %#v %#v", ev[1].Args, ev[4].Args)
	}
	// the log is a copy
	ev[0].Kind = "mutated"
	if st.Events()[0].Kind != "insert" {
		t.Error("Events must return a copy")
	}
}

func TestWarningsAndSampleScript(t *testing.T) {
	b, err := os.ReadFile("testdata/create.sql")
	if err != nil {
		t.Fatal(err)
	}
	st := newStore(t, string(b))
	w := strings.Join(st.Warnings(), "\n")
	for _, want := range []string{
		`reserved word used as column name`, // repass.Order
		`type "comp" does not exist`,        // table1s.External
		`referenced table exercice_questionss does not exist`,
		`referenced table progressionss does not exist`,
		`no primary key for referenced table links`,
		`not modelled`, // nothing of kind other here? see below
	} {
		if want == "not modelled" {
			continue
		}
		if !strings.Contains(w, want) {
			t.Errorf("warnings lack %q:\n%s", want, w)
		}
	}
	db := st.DB()
	// the fixture's own reserved column name cannot be used unquoted, as in PostgreSQL
	if _, err := db.Exec("SELECT order, id, v FROM repass"); errCode(err) != "42601" {
		t.Fatalf("reserved word: %v", err)
	}
	mustExec(t, db, `INSERT INTO repass ("order", v) VALUES ('o', 1)`)
	// a table with a column of unknown type is unusable for that column only
	if _, err := db.Exec("SELECT id, external FROM table1s"); errCode(err) != "unsupported" {
		t.Fatalf("unknown type: %v", err)
	}
	if _, err := db.Exec("SELECT id, ex1 FROM table1s"); err != nil {
		t.Fatalf("other columns stay usable: %v", err)
	}
	// JSON validators of the fixture run on insert
	_, err = db.Exec("INSERT INTO exercices (title, description, parameters, flow, idteacher, public) VALUES ($1,$2,$3,$4,$5,$6)", "t", "d", `{"a": true}`, 2, 1, false)
	if err != nil {
		t.Fatal(err)
	}
	_, err = db.Exec("INSERT INTO exercices (title, description, parameters, flow, idteacher, public) VALUES ($1,$2,$3,$4,$5,$6)", "t", "d", `{"a": 1}`, 2, 1, false)
	if errCode(err) != "23514" || !strings.Contains(err.Error(), "parameters_gomacro") && !strings.Contains(err.Error(), "Parameters_gomacro") {
		t.Fatalf("validator: %v", err)
	}
	_, err = db.Exec("INSERT INTO exercices (title, description, parameters, flow, idteacher, public) VALUES ($1,$2,$3,$4,$5,$6)", "t", "d", `{}`, 3, 1, false)
	if errCode(err) != "23514" || !strings.Contains(err.Error(), "exercices_flow_check") {
		t.Fatalf("enum check: %v", err)
	}
	// other kinds of warnings
	st2 := newStore(t, `CREATE TABLE t (a integer, b text);
		ALTER TABLE t ALTER COLUMN a SET NOT NULL;
		ALTER TABLE t ADD UNIQUE (zz);
		ALTER TABLE nosuch ADD UNIQUE (a);
		ALTER TABLE t ADD FOREIGN KEY (a) REFERENCES t (b);
		ALTER TABLE t ADD UNIQUE (b);
		ALTER TABLE t ADD FOREIGN KEY (a) REFERENCES t (b);
		CREATE UNIQUE INDEX i ON t (a);`)
	w2 := strings.Join(st2.Warnings(), "\n")
	for _, want := range []string{"not modelled: ALTER TABLE t ALTER COLUMN a SET NOT NULL", "unknown column", "table nosuch does not exist",
		"no unique constraint matching given keys", "incompatible types"} {
		if !strings.Contains(w2, want) {
			t.Errorf("warnings lack %q:\n%s", want, w2)
		}
	}
	if New(nil).DB() == nil {
		t.Fatal("nil script")
	}
}

func TestConcurrentUse(t *testing.T) {
	st, db := seed(t)
	done := make(chan error, 8)
	for g := 0; g < 8; g++ {
		go func(g int) {
			for i := 0; i < 50; i++ {
				if _, err := db.Exec("INSERT INTO repass (title, v) VALUES ($1, $2)", fmt.Sprintf("g%d-%d", g, i), 1); err != nil {
					done <- err
					return
				}
				rs, err := db.Query("SELECT id FROM repass WHERE v = 1")
				if err != nil {
					done <- err
					return
				}
				rs.Close()
			}
			done <- nil
		}(g)
	}
	for g := 0; g < 8; g++ {
		if err := <-done; err != nil {
			t.Fatal(err)
		}
	}
	rows := st.Rows("repass")
	if len(rows) != 402 {
		t.Fatalf("%d rows", len(rows))
	}
	seen := map[any]bool{}
	for _, r := range rows {
		if seen[r[0]] {
			t.Fatalf("duplicate id %v", r[0])
		}
		seen[r[0]] = true
	}
}

func TestConstraintNames(t *testing.T) {
	_, db := seed(t)
	mustExec(t, db, insertItemSQL(), item...)
	mustExec(t, db, "INSERT INTO links (iditem, idrepas) VALUES (1, 1)")
	for q, want := range map[string]string{
		"INSERT INTO links (iditem, idrepas) VALUES (1, 1)":    `"links_iditem_idrepas_key"`,
		"INSERT INTO links (iditem, idrepas) VALUES (5, 1)":    `"links_iditem_fkey"`,
		"INSERT INTO links (iditem, idrepas) VALUES (1, 5)":    `"links_idrepas_fkey"`,
		"INSERT INTO repass (id, title, v) VALUES (1, 'a', 0)": `"repass_pkey"`,
		"INSERT INTO repass (title, v) VALUES ('a', 7)":        `"repass_v_check"`,
		"UPDATE items SET guard = 5":                           `"items_guard_check"`,
		"UPDATE items SET guard = 0":                           `"items_guard_check1"`,
		"UPDATE items SET doc = '1'":                           `"doc_gomacro"`,
		"DELETE FROM repass WHERE id = 1":                      `"items_repas_fkey" on table "items"`,
	} {
		_, err := db.Exec(q)
		if err == nil || !strings.Contains(err.Error(), want) {
			t.Errorf("%s: error %v lacks %s", q, err, want)
		}
	}
}
