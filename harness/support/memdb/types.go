package memdb

import (
	"database/sql/driver"
	"encoding/hex"
	"fmt"
	"math"
	"math/big"
	"strconv"
	"strings"
	"time"
	"unicode/utf8"

	"verif/support/pgmodel"
)

// colType is the decoded type of a column (or of an array element / a
// composite field).
type colType struct {
	norm      string // normalised name as in the script
	base      string // canonical base type ("integer", "text", ... or a composite type name)
	array     bool
	precision int // -1 when absent (timestamp (0) -> 0)
	composite *pgmodel.CompositeType
	fields    []colType // composite field types
	// unsupported is non-empty when values of this type cannot be modelled
	// (unknown type name, multi-dimensional array, exotic builtin type)
	unsupported string
}

func (ct colType) String() string { return ct.norm }

// elem returns the element type of an array type.
func (ct colType) elem() colType {
	e := ct
	e.array = false
	e.norm = strings.TrimSuffix(ct.norm, "[]")
	return e
}

// arrayOf returns the array type whose elements are ct.
func (ct colType) arrayOf() colType {
	a := ct
	a.array = true
	a.norm = ct.norm + "[]"
	return a
}

// sameType reports whether two types are the same PostgreSQL type (ignoring
// modifiers such as the timestamp precision).
func (ct colType) sameType(o colType) bool {
	return ct.base == o.base && ct.array == o.array
}

func (ct colType) kind() pgmodel.Kind {
	if ct.array {
		return pgmodel.KArray
	}
	if ct.composite != nil {
		return pgmodel.KComposite
	}
	switch ct.base {
	case "integer", "smallint", "bigint", "serial", "bigserial", "smallserial", "real", "double precision", "numeric":
		return pgmodel.KNum
	case "text", "character varying", "character":
		return pgmodel.KText
	case "boolean":
		return pgmodel.KBool
	case "jsonb":
		return pgmodel.KJSONB
	case "date", "timestamp", "timestamp with time zone":
		return pgmodel.KTime
	case "bytea":
		return pgmodel.KBytes
	}
	return pgmodel.KNull
}

func (ct colType) isInt() bool {
	switch ct.base {
	case "integer", "smallint", "bigint", "serial", "bigserial", "smallserial":
		return !ct.array
	}
	return false
}

func decodeColType(script *pgmodel.Script, norm string, depth int) colType {
	ti := pgmodel.DecodeType(norm)
	ct := colType{norm: norm, base: ti.Base, array: ti.Array, precision: -1}
	if ti.Dims > 1 {
		ct.unsupported = "multi-dimensional array type " + norm
		return ct
	}
	if ti.Modifiers != "" {
		mod := strings.Trim(ti.Modifiers, "()")
		if n, err := strconv.Atoi(mod); err == nil {
			ct.precision = n
		} else {
			ct.unsupported = "type modifier " + ti.Modifiers + " of " + norm
		}
	}
	switch ti.Base {
	case "integer", "smallint", "bigint", "serial", "bigserial", "smallserial", "boolean", "text", "jsonb", "bytea", "date", "real", "double precision":
		if ct.precision >= 0 {
			ct.unsupported = "type modifier on " + norm
		}
		return ct
	case "timestamp", "timestamp with time zone":
		if ct.precision > 6 {
			ct.unsupported = "timestamp precision above 6"
		}
		return ct
	case "character varying", "character", "numeric", "json", "uuid", "time", "time with time zone", "interval":
		ct.unsupported = "column type " + norm + " is not modelled"
		return ct
	}
	if script != nil {
		if comp := script.Type(ti.Base); comp != nil && depth < 4 {
			ct.composite = comp
			ct.base = pgmodel.ResolveIdent(comp.Name)
			for _, f := range comp.Fields {
				ft := decodeColType(script, f.Type, depth+1)
				if ft.unsupported != "" && ct.unsupported == "" {
					ct.unsupported = "field " + f.Name + " of " + comp.Name + ": " + ft.unsupported
				}
				ct.fields = append(ct.fields, ft)
			}
			return ct
		}
	}
	ct.unsupported = fmt.Sprintf("type %q does not exist in the script", ti.Base)
	return ct
}

// SQLError is an error PostgreSQL (or lib/pq) would report. Code is the
// SQLSTATE when the model knows it ("" otherwise): 23502 not-null, 23503
// foreign key, 23505 unique, 23514 check, 42P01 undefined table, 42703
// undefined column, 42601 syntax, 22P02 invalid text representation, 22003
// out of range, 08P01 wrong number of bind parameters, 42P18 undetermined
// parameter type, 25P02 failed transaction.
type SQLError struct {
	Code string
	Msg  string
}

func (e *SQLError) Error() string { return "pq: " + e.Msg }

func sqlErrorf(format string, args ...any) error { return &SQLError{Msg: fmt.Sprintf(format, args...)} }

func codeErrorf(code, format string, args ...any) error {
	return &SQLError{Code: code, Msg: fmt.Sprintf(format, args...)}
}

// UnsupportedError is returned for statements or values outside the modelled
// subset; callers must treat the run as inconclusive.
type UnsupportedError struct{ Msg string }

func (e *UnsupportedError) Error() string { return "memdb: unsupported statement: " + e.Msg }

func unsupportedf(format string, args ...any) error {
	return &UnsupportedError{Msg: fmt.Sprintf(format, args...)}
}

var intBounds = map[string][2]int64{
	"smallint": {math.MinInt16, math.MaxInt16}, "smallserial": {math.MinInt16, math.MaxInt16},
	"integer": {math.MinInt32, math.MaxInt32}, "serial": {math.MinInt32, math.MaxInt32},
	"bigint": {math.MinInt64, math.MaxInt64}, "bigserial": {math.MinInt64, math.MaxInt64},
}

func intTypeName(base string) string {
	switch base {
	case "serial":
		return "integer"
	case "bigserial":
		return "bigint"
	case "smallserial":
		return "smallint"
	}
	return base
}

// argText renders a driver.Value the way lib/pq sends it (text format).
func argText(arg driver.Value) (string, bool) {
	switch v := arg.(type) {
	case int64:
		return strconv.FormatInt(v, 10), true
	case float64:
		return strconv.FormatFloat(v, 'f', -1, 64), true
	case bool:
		if v {
			return "true", true
		}
		return "false", true
	case string:
		return v, true
	case []byte:
		return string(v), true
	}
	return "", false
}

// roundTime rounds t to the given number of fractional second digits
// (half away from zero on the microsecond value, as PostgreSQL does).
func roundTime(t time.Time, precision int) time.Time {
	if precision < 0 || precision > 6 {
		precision = 6
	}
	unit := time.Second
	for i := 0; i < precision; i++ {
		unit /= 10
	}
	return t.Round(unit).UTC()
}

// coerceArg converts a statement argument to a value of type ct.
func coerceArg(arg driver.Value, ct colType) (pgmodel.Value, error) {
	if ct.unsupported != "" {
		return pgmodel.Value{}, unsupportedf("%s", ct.unsupported)
	}
	if arg == nil {
		return pgmodel.NullOf(ct.kind()), nil
	}
	if t, ok := arg.(time.Time); ok {
		if ct.array {
			return pgmodel.Value{}, sqlErrorf("malformed array literal: %q", t.Format(time.RFC3339Nano))
		}
		switch ct.base {
		case "date":
			y, m, d := t.Date() // the date as written in the value's own zone, like date_in
			return pgmodel.Time(time.Date(y, m, d, 0, 0, 0, 0, time.UTC)), nil
		case "timestamp with time zone":
			return pgmodel.Time(roundTime(t, ct.precision)), nil
		case "timestamp":
			// the zone is discarded, the wall clock is kept
			y, m, d := t.Date()
			h, mi, s := t.Clock()
			return pgmodel.Time(roundTime(time.Date(y, m, d, h, mi, s, t.Nanosecond(), time.UTC), ct.precision)), nil
		case "text":
			return pgmodel.Value{}, unsupportedf("time.Time bound to a text column")
		}
		return pgmodel.Value{}, sqlErrorf("invalid input syntax for type %s: %q", ct.norm, t.Format("2006-01-02 15:04:05.999999999Z07:00"))
	}
	if b, ok := arg.([]byte); ok && ct.base == "bytea" && !ct.array {
		return pgmodel.Bytes(append([]byte(nil), b...)), nil
	}
	txt, ok := argText(arg)
	if !ok {
		return pgmodel.Value{}, unsupportedf("argument of Go type %T", arg)
	}
	return parseText(txt, ct)
}

// parseText is the input function of type ct.
func parseText(txt string, ct colType) (pgmodel.Value, error) {
	if ct.unsupported != "" {
		return pgmodel.Value{}, unsupportedf("%s", ct.unsupported)
	}
	if ct.array {
		elems, err := pgmodel.ParseArrayLiteral(txt)
		if err != nil {
			return pgmodel.Value{}, wrapModelError(err)
		}
		et := ct.elem()
		out := make([]pgmodel.Value, len(elems))
		for i, e := range elems {
			if e.Null {
				out[i] = pgmodel.NullOf(et.kind())
				continue
			}
			v, err := parseText(e.Text, et)
			if err != nil {
				return pgmodel.Value{}, err
			}
			out[i] = v
		}
		return pgmodel.Array(et.norm, out), nil
	}
	if ct.composite != nil {
		fields, err := pgmodel.ParseCompositeLiteral(txt)
		if err != nil {
			return pgmodel.Value{}, wrapModelError(err)
		}
		if len(fields) < len(ct.fields) {
			return pgmodel.Value{}, sqlErrorf("malformed record literal: %q (too few columns)", txt)
		}
		if len(fields) > len(ct.fields) {
			return pgmodel.Value{}, sqlErrorf("malformed record literal: %q (too many columns)", txt)
		}
		out := make([]pgmodel.Value, len(fields))
		for i, f := range fields {
			if f.Null {
				out[i] = pgmodel.NullOf(ct.fields[i].kind())
				continue
			}
			v, err := parseText(f.Text, ct.fields[i])
			if err != nil {
				return pgmodel.Value{}, err
			}
			out[i] = v
		}
		return pgmodel.Composite(ct.base, out), nil
	}
	switch ct.base {
	case "integer", "smallint", "bigint", "serial", "bigserial", "smallserial":
		n, ok := pgmodel.ParseInteger(txt)
		if !ok {
			return pgmodel.Value{}, codeErrorf("22P02", "invalid input syntax for type %s: %q", intTypeName(ct.base), txt)
		}
		b := intBounds[ct.base]
		if !n.IsInt64() || n.Int64() < b[0] || n.Int64() > b[1] {
			return pgmodel.Value{}, codeErrorf("22003", "value %q is out of range for type %s", strings.TrimSpace(txt), intTypeName(ct.base))
		}
		return pgmodel.NumInt(n.Int64()), nil
	case "real", "double precision":
		t := strings.TrimSpace(txt)
		switch strings.ToLower(t) {
		case "nan", "infinity", "-infinity", "inf", "-inf", "+infinity", "+inf":
			return pgmodel.Value{}, unsupportedf("non-finite floating point value %q", t)
		}
		if _, err := pgmodel.ParseNumeric(t); err != nil {
			return pgmodel.Value{}, codeErrorf("22P02", "invalid input syntax for type %s: %q", ct.base, txt)
		}
		bits := 64
		if ct.base == "real" {
			bits = 32
		}
		f, err := strconv.ParseFloat(t, bits)
		if err != nil || math.IsInf(f, 0) {
			return pgmodel.Value{}, codeErrorf("22003", "%q is out of range for type %s", t, ct.base)
		}
		if f == 0 {
			if r, _ := pgmodel.ParseNumeric(t); r != nil && r.Sign() != 0 {
				return pgmodel.Value{}, codeErrorf("22003", "%q is out of range for type %s", t, ct.base)
			}
		}
		r := new(big.Rat)
		r.SetFloat64(f)
		return pgmodel.NumRat(r), nil
	case "text":
		if strings.ContainsRune(txt, 0) {
			return pgmodel.Value{}, sqlErrorf("invalid byte sequence for encoding \"UTF8\": 0x00")
		}
		if !validUTF8(txt) {
			return pgmodel.Value{}, sqlErrorf("invalid byte sequence for encoding \"UTF8\"")
		}
		return pgmodel.Text(txt), nil
	case "boolean":
		b, ok := pgmodel.ParseBool(txt)
		if !ok {
			return pgmodel.Value{}, codeErrorf("22P02", "invalid input syntax for type boolean: %q", txt)
		}
		return pgmodel.Bool(b), nil
	case "jsonb":
		v, err := pgmodel.JSONBFromBytes([]byte(txt))
		if err != nil {
			return pgmodel.Value{}, wrapModelError(err)
		}
		return v, nil
	case "bytea":
		b, err := parseBytea(txt)
		if err != nil {
			return pgmodel.Value{}, err
		}
		return pgmodel.Bytes(b), nil
	case "date", "timestamp", "timestamp with time zone":
		return pgmodel.Value{}, unsupportedf("text input for type %s (%q)", ct.norm, txt)
	}
	return pgmodel.Value{}, unsupportedf("input for type %s", ct.norm)
}

func validUTF8(s string) bool { return utf8.ValidString(s) }

// parseBytea implements the bytea input function (hex and escape formats).
func parseBytea(s string) ([]byte, error) {
	if strings.HasPrefix(s, `\x`) {
		h := strings.Map(func(r rune) rune {
			if r == ' ' || r == '\n' || r == '\t' || r == '\r' {
				return -1
			}
			return r
		}, s[2:])
		b, err := hex.DecodeString(h)
		if err != nil {
			return nil, sqlErrorf("invalid hexadecimal data for type bytea")
		}
		return b, nil
	}
	out := make([]byte, 0, len(s))
	for i := 0; i < len(s); i++ {
		c := s[i]
		if c != '\\' {
			if c == 0 {
				return nil, sqlErrorf("invalid input syntax for type bytea")
			}
			out = append(out, c)
			continue
		}
		if i+1 < len(s) && s[i+1] == '\\' {
			out = append(out, '\\')
			i++
			continue
		}
		if i+3 < len(s) && s[i+1] >= '0' && s[i+1] <= '3' && s[i+2] >= '0' && s[i+2] <= '7' && s[i+3] >= '0' && s[i+3] <= '7' {
			out = append(out, (s[i+1]-'0')<<6|(s[i+2]-'0')<<3|(s[i+3]-'0'))
			i += 3
			continue
		}
		return nil, sqlErrorf("invalid input syntax for type bytea")
	}
	return out, nil
}

// wrapModelError converts pgmodel errors to the driver's error types.
func wrapModelError(err error) error {
	switch e := err.(type) {
	case *pgmodel.EvalError:
		return &SQLError{Msg: e.Msg}
	case *pgmodel.ParseError:
		return &SQLError{Code: "42601", Msg: e.Msg}
	case *pgmodel.UnsupportedError:
		return &UnsupportedError{Msg: e.Msg}
	}
	return err
}

// float32Text is the shortest text that round-trips a float4 (what
// PostgreSQL >= 12 prints for a real).
func floatOut(v pgmodel.Value, ct colType) float64 {
	f, _ := v.N.Float64()
	if ct.base == "real" {
		s := strconv.FormatFloat(float64(float32(f)), 'g', -1, 32)
		g, err := strconv.ParseFloat(s, 64)
		if err == nil {
			return g
		}
	}
	return f
}

func elemText(v pgmodel.Value, ct colType) string {
	if v.IsNull() {
		return "NULL"
	}
	switch {
	case ct.isInt():
		return v.N.Num().String()
	case ct.base == "real" || ct.base == "double precision":
		bits := 64
		if ct.base == "real" {
			bits = 32
		}
		return strconv.FormatFloat(floatOut(v, ct), 'g', -1, bits)
	case ct.base == "boolean":
		if v.B {
			return "t"
		}
		return "f"
	case ct.base == "text":
		return pgmodel.QuoteArrayElem(v.S)
	case ct.base == "jsonb":
		return pgmodel.QuoteArrayElem(pgmodel.JSONBText(v.J))
	case ct.base == "bytea":
		return pgmodel.QuoteArrayElem(`\x` + hex.EncodeToString(v.Bytes))
	case ct.composite != nil:
		return pgmodel.QuoteArrayElem(compositeText(v, ct))
	}
	return pgmodel.QuoteArrayElem(v.String())
}

func compositeText(v pgmodel.Value, ct colType) string {
	var sb strings.Builder
	sb.WriteByte('(')
	for i, f := range v.Elems {
		if i > 0 {
			sb.WriteByte(',')
		}
		if f.IsNull() {
			continue
		}
		ft := ct.fields[i]
		switch {
		case ft.isInt(), ft.base == "real", ft.base == "double precision", ft.base == "boolean":
			sb.WriteString(elemText(f, ft))
		case ft.base == "text":
			if f.S == "" || strings.ContainsAny(f.S, `(),"\ `+"\t\n") {
				sb.WriteString(`"` + strings.NewReplacer(`"`, `""`, `\`, `\\`).Replace(f.S) + `"`)
			} else {
				sb.WriteString(f.S)
			}
		default:
			sb.WriteString(`"` + strings.NewReplacer(`"`, `""`, `\`, `\\`).Replace(elemText(f, ft)) + `"`)
		}
	}
	sb.WriteByte(')')
	return sb.String()
}

// toDriver converts a stored value to what the driver hands to Scan.
func toDriver(v pgmodel.Value, ct colType) driver.Value {
	if v.IsNull() {
		return nil
	}
	if ct.array {
		et := ct.elem()
		parts := make([]string, len(v.Elems))
		for i, e := range v.Elems {
			parts[i] = elemText(e, et)
		}
		return []byte("{" + strings.Join(parts, ",") + "}")
	}
	if ct.composite != nil {
		return []byte(compositeText(v, ct))
	}
	switch ct.kind() {
	case pgmodel.KNum:
		if ct.isInt() {
			return v.N.Num().Int64()
		}
		return floatOut(v, ct)
	case pgmodel.KBool:
		return v.B
	case pgmodel.KText:
		return v.S
	case pgmodel.KBytes:
		return append([]byte(nil), v.Bytes...)
	case pgmodel.KJSONB:
		return []byte(pgmodel.JSONBText(v.J))
	case pgmodel.KTime:
		return v.T.UTC()
	}
	return []byte(v.String())
}
