// Package memdb is an in-memory database/sql driver whose schema comes from a
// script parsed by pgmodel. It enforces the constraints of that script
// (types, NOT NULL, CHECK, UNIQUE, PRIMARY KEY, FOREIGN KEY, defaults) with
// PostgreSQL semantics for a small statement grammar, rejects what
// PostgreSQL would reject and reports *UnsupportedError for the rest.
package memdb

import (
	"database/sql"
	"database/sql/driver"
	"fmt"
	"strconv"
	"strings"
	"sync"

	"verif/support/pgmodel"
)

// Event describes one statement seen by the store.
type Event struct {
	SQL  string
	Args []any // driver.Value after database/sql conversion
	// Kind: select, insert, update, delete, copy (prepare of COPY), copy_row,
	// copy_end, prepare (prepare of another statement), begin, commit,
	// rollback, unknown (statement that could not be parsed)
	Kind         string
	Err          string
	RowsReturned int
	RowsAffected int
	Tables       []string // as written
	Columns      []string // every column identifier mentioned, as written, textual order
	Placeholders []int    // every $n, textual order
}

type column struct {
	name    string // lookup key (folded, or exact for a quoted definition)
	written string
	typ     colType
	notNull bool
	serial  bool
	primary bool
	checks  []pgmodel.Expr
	def     pgmodel.Expr
}

type row struct{ vals []pgmodel.Value }

type namedCheck struct {
	name string
	expr pgmodel.Expr
}

type uniqueSet struct {
	name    string
	cols    []int
	primary bool
}

type foreignKey struct {
	name     string
	from     *table
	cols     []int
	to       *table
	refCols  []int
	onDelete string // CASCADE, SET NULL, SET DEFAULT, RESTRICT, NO ACTION, ""
	onUpdate string
}

type table struct {
	name    string // lookup key
	written string
	cols    []*column
	colIdx  map[string]int
	rows    []*row
	seq     map[int]int64 // next value of each serial column
	checks  []namedCheck
	uniques []uniqueSet
	fks     []*foreignKey // outgoing
	refBy   []*foreignKey // incoming
	// colCheckNames[i][j] is the generated name of the j-th CHECK of column i
	colCheckNames [][]string
	usedNames     map[string]bool
}

// chooseName mimics PostgreSQL's ChooseConstraintName: table_cols_label,
// with a numeric suffix when the name is taken.
func (tb *table) chooseName(cols []string, label string) string {
	base := tb.name
	if len(cols) > 0 {
		base += "_" + strings.Join(cols, "_")
	}
	if tb.usedNames == nil {
		tb.usedNames = map[string]bool{}
	}
	name := base + "_" + label
	for i := 1; tb.usedNames[name]; i++ {
		name = base + "_" + label + strconv.Itoa(i)
	}
	tb.usedNames[name] = true
	return name
}

func (tb *table) claimName(explicit string) string {
	if tb.usedNames == nil {
		tb.usedNames = map[string]bool{}
	}
	tb.usedNames[explicit] = true
	return explicit
}

func (tb *table) names(cols []int) []string {
	out := make([]string, len(cols))
	for i, c := range cols {
		out[i] = tb.cols[c].name
	}
	return out
}

// Store is the database.
type Store struct {
	mu       sync.Mutex
	script   *pgmodel.Script
	tables   map[string]*table
	order    []string
	warnings []string
	events   []Event
	db       *sql.DB

	// AllowSingleColumnRowUpdate accepts "UPDATE t SET (a) = ($1)", which
	// PostgreSQL >= 10 rejects ("source for a multiple-column UPDATE item
	// must be a sub-SELECT or ROW() expression"). Default false: rejected.
	AllowSingleColumnRowUpdate bool
}

// New builds a store from a parsed script. It never fails: what cannot be
// modelled is listed by Warnings.
func New(script *pgmodel.Script) *Store {
	st := &Store{script: script, tables: map[string]*table{}}
	if script == nil {
		st.script = &pgmodel.Script{Funcs: map[string]*pgmodel.Func{}}
		return st
	}
	for _, d := range script.Diagnostics {
		st.warnf("script: %s", d)
	}
	for _, t := range script.Tables {
		key := pgmodel.ResolveIdent(t.Name)
		if _, dup := st.tables[key]; dup {
			st.warnf("table %s defined twice, first definition kept", t.Name)
			continue
		}
		tb := &table{name: key, written: t.Name, colIdx: map[string]int{}, seq: map[int]int64{}}
		for _, c := range t.Columns {
			ck := pgmodel.ResolveIdent(c.Name)
			if _, dup := tb.colIdx[ck]; dup {
				st.warnf("column %s.%s defined twice, first definition kept", t.Name, c.Name)
				continue
			}
			col := &column{name: ck, written: c.Name, typ: decodeColType(script, c.Type, 0), notNull: c.NotNull,
				primary: c.PrimaryKey, checks: c.Checks}
			switch col.typ.base {
			case "serial", "bigserial", "smallserial":
				if !col.typ.array {
					col.serial = true
					col.notNull = true
				}
			}
			if col.typ.unsupported != "" {
				st.warnf("column %s.%s: %s", t.Name, c.Name, col.typ.unsupported)
			}
			idx := len(tb.cols)
			tb.colIdx[ck] = idx
			tb.cols = append(tb.cols, col)
			if col.serial {
				tb.seq[idx] = 1
			}
			if col.primary {
				col.notNull = true
				tb.uniques = append(tb.uniques, uniqueSet{name: tb.chooseName(nil, "pkey"), cols: []int{idx}, primary: true})
			}
			var checkNames []string
			for range col.checks {
				checkNames = append(checkNames, tb.chooseName([]string{ck}, "check"))
			}
			tb.colCheckNames = append(tb.colCheckNames, checkNames)
		}
		st.tables[key] = tb
		st.order = append(st.order, key)
	}
	for _, al := range script.Alters {
		st.applyAlter(al)
	}
	return st
}

func (st *Store) warnf(format string, args ...any) {
	st.warnings = append(st.warnings, fmt.Sprintf(format, args...))
}

func oneLine(s string) string {
	s = strings.Join(strings.Fields(s), " ")
	if len(s) > 140 {
		s = s[:140] + "..."
	}
	return s
}

func (st *Store) resolveCols(tb *table, names []string) ([]int, bool) {
	out := make([]int, len(names))
	for i, n := range names {
		idx, ok := tb.colIdx[pgmodel.ResolveIdent(n)]
		if !ok {
			return nil, false
		}
		out[i] = idx
	}
	return out, true
}

func (st *Store) applyAlter(al *pgmodel.Alter) {
	tb := st.tables[pgmodel.ResolveIdent(al.Table)]
	if tb == nil {
		st.warnf("ignored (table %s does not exist): %s", al.Table, oneLine(al.Raw))
		return
	}
	switch al.Kind {
	case "add_check":
		name := pgmodel.ResolveIdent(al.ConstraintName)
		if name == "" {
			// "tab_col_check" when the expression mentions exactly one column
			var mentioned []string
			pgmodel.WalkExpr(al.Check, func(e pgmodel.Expr) {
				if c, ok := e.(*pgmodel.ColumnRef); ok {
					for _, m := range mentioned {
						if m == c.Lower {
							return
						}
					}
					mentioned = append(mentioned, c.Lower)
				}
			})
			if len(mentioned) != 1 {
				mentioned = nil
			}
			name = tb.chooseName(mentioned, "check")
		} else {
			tb.claimName(name)
		}
		tb.checks = append(tb.checks, namedCheck{name: name, expr: al.Check})
	case "add_unique", "add_primary_key":
		cols, ok := st.resolveCols(tb, al.Columns)
		if !ok {
			st.warnf("ignored (unknown column): %s", oneLine(al.Raw))
			return
		}
		u := uniqueSet{name: pgmodel.ResolveIdent(al.ConstraintName), cols: cols, primary: al.Kind == "add_primary_key"}
		nameChosen := u.name != ""
		if u.primary {
			for _, o := range tb.uniques {
				if o.primary {
					st.warnf("ignored (table %s already has a primary key): %s", tb.written, oneLine(al.Raw))
					return
				}
			}
			for _, c := range cols {
				tb.cols[c].notNull = true
			}
		}
		switch {
		case nameChosen:
			tb.claimName(u.name)
		case u.primary:
			u.name = tb.chooseName(nil, "pkey")
		default:
			u.name = tb.chooseName(tb.names(cols), "key")
		}
		tb.uniques = append(tb.uniques, u)
	case "set_default":
		idx, ok := tb.colIdx[pgmodel.ResolveIdent(al.Column)]
		if !ok {
			st.warnf("ignored (unknown column): %s", oneLine(al.Raw))
			return
		}
		tb.cols[idx].def = al.Default
	case "add_foreign_key":
		cols, ok := st.resolveCols(tb, al.Columns)
		if !ok {
			st.warnf("ignored (unknown column): %s", oneLine(al.Raw))
			return
		}
		ref := st.tables[pgmodel.ResolveIdent(al.RefTable)]
		if ref == nil {
			st.warnf("ignored (referenced table %s does not exist): %s", al.RefTable, oneLine(al.Raw))
			return
		}
		var refCols []int
		if len(al.RefColumns) > 0 {
			if refCols, ok = st.resolveCols(ref, al.RefColumns); !ok {
				st.warnf("ignored (unknown referenced column): %s", oneLine(al.Raw))
				return
			}
		} else {
			for _, u := range ref.uniques {
				if u.primary {
					refCols = u.cols
				}
			}
			if refCols == nil {
				st.warnf("ignored (there is no primary key for referenced table %s): %s", ref.written, oneLine(al.Raw))
				return
			}
		}
		if len(refCols) != len(cols) {
			st.warnf("ignored (number of referencing and referenced columns for foreign key disagree): %s", oneLine(al.Raw))
			return
		}
		matched := false
		for _, u := range ref.uniques {
			if sameIntSet(u.cols, refCols) {
				matched = true
			}
		}
		if !matched {
			st.warnf("ignored (there is no unique constraint matching given keys for referenced table %s): %s", ref.written, oneLine(al.Raw))
			return
		}
		for i := range cols {
			a, b := tb.cols[cols[i]].typ, ref.cols[refCols[i]].typ
			if a.kind() != b.kind() || a.array || b.array {
				st.warnf("ignored (foreign key columns %s and %s are of incompatible types): %s", tb.cols[cols[i]].written, ref.cols[refCols[i]].written, oneLine(al.Raw))
				return
			}
		}
		fk := &foreignKey{name: pgmodel.ResolveIdent(al.ConstraintName), from: tb, cols: cols, to: ref, refCols: refCols, onDelete: al.OnDelete, onUpdate: al.OnUpdate}
		if fk.name == "" {
			fk.name = tb.chooseName(tb.names(cols), "fkey")
		} else {
			tb.claimName(fk.name)
		}
		tb.fks = append(tb.fks, fk)
		ref.refBy = append(ref.refBy, fk)
	default:
		st.warnf("not modelled: %s", oneLine(al.Raw))
	}
}

func sameIntSet(a, b []int) bool {
	if len(a) != len(b) {
		return false
	}
	for _, x := range a {
		found := false
		for _, y := range b {
			if x == y {
				found = true
			}
		}
		if !found {
			return false
		}
	}
	return true
}

// Warnings lists what New could not model (statements of kind "other",
// foreign keys PostgreSQL would refuse, unknown types, script diagnostics).
func (st *Store) Warnings() []string {
	st.mu.Lock()
	defer st.mu.Unlock()
	return append([]string(nil), st.warnings...)
}

// Events returns a copy of the event log.
func (st *Store) Events() []Event {
	st.mu.Lock()
	defer st.mu.Unlock()
	return append([]Event(nil), st.events...)
}

// ClearEvents empties the event log (the data is kept).
func (st *Store) ClearEvents() {
	st.mu.Lock()
	defer st.mu.Unlock()
	st.events = nil
}

// Rows returns the content of a table: one []any per row, columns in schema
// order, values as handed to Scan (int64, float64, bool, string, []byte,
// time.Time, nil). nil when the table does not exist.
func (st *Store) Rows(tableName string) [][]any {
	st.mu.Lock()
	defer st.mu.Unlock()
	tb := st.tables[pgmodel.ResolveIdent(tableName)]
	if tb == nil {
		return nil
	}
	out := make([][]any, len(tb.rows))
	for i, r := range tb.rows {
		vals := make([]any, len(r.vals))
		for j, v := range r.vals {
			vals[j] = toDriver(v, tb.cols[j].typ)
		}
		out[i] = vals
	}
	return out
}

// TableNames lists the tables in script order (lookup keys, i.e. lower case
// for unquoted definitions).
func (st *Store) TableNames() []string {
	st.mu.Lock()
	defer st.mu.Unlock()
	return append([]string(nil), st.order...)
}

// ColumnNames lists the columns of a table in schema order (lookup keys).
func (st *Store) ColumnNames(tableName string) []string {
	st.mu.Lock()
	defer st.mu.Unlock()
	tb := st.tables[pgmodel.ResolveIdent(tableName)]
	if tb == nil {
		return nil
	}
	out := make([]string, len(tb.cols))
	for i, c := range tb.cols {
		out[i] = c.name
	}
	return out
}

// Reset removes all rows, restarts the sequences and clears the event log.
func (st *Store) Reset() {
	st.mu.Lock()
	defer st.mu.Unlock()
	for _, tb := range st.tables {
		tb.rows = nil
		for k := range tb.seq {
			tb.seq[k] = 1
		}
	}
	st.events = nil
}

// DB returns the database/sql handle of the store (always the same one).
func (st *Store) DB() *sql.DB {
	st.mu.Lock()
	defer st.mu.Unlock()
	if st.db == nil {
		st.db = sql.OpenDB(&connector{st: st})
	}
	return st.db
}

// snapshot captures the rows of every table (sequences are not part of it:
// PostgreSQL does not roll nextval back).
type snapshot map[string][]*row

func (st *Store) snapshot() snapshot {
	s := make(snapshot, len(st.tables))
	for k, tb := range st.tables {
		s[k] = append([]*row(nil), tb.rows...)
	}
	return s
}

func (st *Store) restore(s snapshot) {
	for k, tb := range st.tables {
		tb.rows = append([]*row(nil), s[k]...)
	}
}

var _ driver.Connector = (*connector)(nil)
