package memdb

import (
	"context"
	"database/sql/driver"
	"errors"
	"io"
)

type connector struct{ st *Store }

func (c *connector) Connect(context.Context) (driver.Conn, error) { return &conn{st: c.st}, nil }
func (c *connector) Driver() driver.Driver                        { return drv{} }

type drv struct{}

func (drv) Open(string) (driver.Conn, error) {
	return nil, errors.New("memdb: use Store.DB()")
}

type conn struct {
	st     *Store
	closed bool
	tx     *tx
	// copyActive is set while a COPY statement is open on this connection
	copyActive bool
}

type tx struct {
	c    *conn
	snap snapshot
	// failed: a statement failed, PostgreSQL ignores commands until the end
	// of the transaction block. unsupported: the failing statement was
	// outside the modelled subset, so the state is unknown.
	failed      bool
	unsupported bool
	done        bool
}

var (
	_ driver.Conn           = (*conn)(nil)
	_ driver.ConnBeginTx    = (*conn)(nil)
	_ driver.ExecerContext  = (*conn)(nil)
	_ driver.QueryerContext = (*conn)(nil)
	_ driver.Pinger         = (*conn)(nil)
	_ driver.Stmt           = (*stmt)(nil)
	_ driver.Stmt           = (*copyStmt)(nil)
)

func (c *conn) Ping(context.Context) error { return nil }

func (c *conn) Close() error {
	c.st.mu.Lock()
	defer c.st.mu.Unlock()
	if c.tx != nil && !c.tx.done {
		// closing a connection aborts its transaction
		c.st.restore(c.tx.snap)
		c.tx.done = true
		c.tx = nil
	}
	c.closed = true
	return nil
}

func (c *conn) Begin() (driver.Tx, error) { return c.BeginTx(context.Background(), driver.TxOptions{}) }

func (c *conn) BeginTx(_ context.Context, opts driver.TxOptions) (driver.Tx, error) {
	c.st.mu.Lock()
	defer c.st.mu.Unlock()
	ev := Event{SQL: "BEGIN", Kind: "begin"}
	if c.tx != nil {
		ev.Err = "pq: there is already a transaction in progress"
		c.st.events = append(c.st.events, ev)
		return nil, &SQLError{Code: "25001", Msg: "there is already a transaction in progress"}
	}
	if opts.ReadOnly {
		ev.Err = "memdb: unsupported statement: read-only transactions"
		c.st.events = append(c.st.events, ev)
		return nil, unsupportedf("read-only transactions")
	}
	c.tx = &tx{c: c, snap: c.st.snapshot()}
	c.st.events = append(c.st.events, ev)
	return c.tx, nil
}

func (t *tx) Commit() error {
	st := t.c.st
	st.mu.Lock()
	defer st.mu.Unlock()
	ev := Event{SQL: "COMMIT", Kind: "commit"}
	if t.done {
		return errors.New("memdb: transaction already finished")
	}
	t.done = true
	t.c.tx = nil
	t.c.copyActive = false
	var err error
	if t.failed {
		// COMMIT of a failed transaction is a ROLLBACK; lib/pq reports it
		st.restore(t.snap)
		if t.unsupported {
			err = unsupportedf("commit after a statement outside the modelled subset")
		} else {
			err = &SQLError{Code: "25P02", Msg: "Could not complete operation in a failed transaction"}
		}
		ev.Err = err.Error()
	}
	st.events = append(st.events, ev)
	return err
}

func (t *tx) Rollback() error {
	st := t.c.st
	st.mu.Lock()
	defer st.mu.Unlock()
	if t.done {
		return errors.New("memdb: transaction already finished")
	}
	t.done = true
	t.c.tx = nil
	t.c.copyActive = false
	st.restore(t.snap)
	st.events = append(st.events, Event{SQL: "ROLLBACK", Kind: "rollback"})
	return nil
}

func namedToValues(args []driver.NamedValue) ([]driver.Value, error) {
	out := make([]driver.Value, len(args))
	for i, a := range args {
		if a.Name != "" {
			return nil, unsupportedf("named argument %q", a.Name)
		}
		out[i] = a.Value
	}
	return out, nil
}

func eventArgs(args []driver.Value) []any {
	if len(args) == 0 {
		return nil
	}
	out := make([]any, len(args))
	for i, a := range args {
		if b, ok := a.([]byte); ok {
			a = append([]byte(nil), b...)
		}
		out[i] = a
	}
	return out
}

// gate rejects statements that PostgreSQL / lib/pq would not even look at.
func (c *conn) gate() error {
	if c.closed {
		return driver.ErrBadConn
	}
	if c.copyActive {
		return &SQLError{Msg: "COPY in progress"}
	}
	if c.tx != nil && c.tx.failed {
		if c.tx.unsupported {
			return unsupportedf("statement after an unsupported statement in the same transaction")
		}
		return &SQLError{Code: "25P02", Msg: "current transaction is aborted, commands ignored until end of transaction block"}
	}
	return nil
}

func (c *conn) noteFailure(err error) {
	if c.tx == nil || err == nil {
		return
	}
	c.tx.failed = true
	var u *UnsupportedError
	if errors.As(err, &u) {
		c.tx.unsupported = true
	}
}

func fillEvent(ev *Event, ps *statement, placeholders []int) {
	ev.Placeholders = placeholders
	if ps == nil {
		ev.Kind = "unknown"
		return
	}
	ev.Kind = ps.kind.String()
	if ps.table.text != "" {
		ev.Tables = []string{ps.table.written()}
	}
	ev.Columns = ps.columns
}

// execute runs one statement and logs it. The caller must not hold st.mu.
func (c *conn) execute(query string, args []driver.Value) (*result, error) {
	st := c.st
	st.mu.Lock()
	defer st.mu.Unlock()
	ev := Event{SQL: query, Args: eventArgs(args)}
	ps, placeholders, err := parseStatement(query)
	fillEvent(&ev, ps, placeholders)
	if err != nil {
		ev.Kind = "unknown"
		if ps != nil && ps.table.text != "" {
			ev.Kind = ps.kind.String()
		}
	}
	var res *result
	if gerr := c.gate(); gerr != nil {
		err = gerr
	} else if err == nil {
		if ps.kind == kCopy {
			err = &SQLError{Msg: "COPY must be run through Prepare (pq.CopyIn)"}
		} else {
			res, err = st.run(ps, args)
		}
		c.noteFailure(err)
	} else {
		c.noteFailure(err)
	}
	if err != nil {
		ev.Err = err.Error()
	} else {
		ev.RowsReturned = len(res.rows)
		ev.RowsAffected = res.affected
	}
	st.events = append(st.events, ev)
	return res, err
}

func (c *conn) ExecContext(_ context.Context, query string, nargs []driver.NamedValue) (driver.Result, error) {
	args, err := namedToValues(nargs)
	if err != nil {
		return nil, err
	}
	res, err := c.execute(query, args)
	if err != nil {
		return nil, err
	}
	return execResult{affected: int64(res.affected)}, nil
}

func (c *conn) QueryContext(_ context.Context, query string, nargs []driver.NamedValue) (driver.Rows, error) {
	args, err := namedToValues(nargs)
	if err != nil {
		return nil, err
	}
	res, err := c.execute(query, args)
	if err != nil {
		return nil, err
	}
	return &rows{cols: res.cols, data: res.rows}, nil
}

type execResult struct{ affected int64 }

func (execResult) LastInsertId() (int64, error) {
	return 0, errors.New("no LastInsertId available after the empty statement")
}
func (r execResult) RowsAffected() (int64, error) { return r.affected, nil }

type rows struct {
	cols []string
	data [][]driver.Value
	pos  int
}

func (r *rows) Columns() []string { return r.cols }
func (r *rows) Close() error      { return nil }
func (r *rows) Next(dest []driver.Value) error {
	if r.pos >= len(r.data) {
		return io.EOF
	}
	copy(dest, r.data[r.pos])
	r.pos++
	return nil
}

// Prepare parses the statement (errors PostgreSQL reports at parse time are
// returned here) and returns a statement; COPY ... FROM STDIN gives the
// buffering statement of pq.CopyIn.
func (c *conn) Prepare(query string) (driver.Stmt, error) {
	st := c.st
	st.mu.Lock()
	defer st.mu.Unlock()
	ev := Event{SQL: query, Kind: "prepare"}
	ps, placeholders, err := parseStatement(query)
	fillEvent(&ev, ps, placeholders)
	if ps != nil && ps.kind == kCopy {
		ev.Kind = "copy"
	} else {
		ev.Kind = "prepare"
	}
	fail := func(err error) (driver.Stmt, error) {
		ev.Err = err.Error()
		st.events = append(st.events, ev)
		c.noteFailure(err)
		return nil, err
	}
	if gerr := c.gate(); gerr != nil {
		ev.Err = gerr.Error()
		st.events = append(st.events, ev)
		return nil, gerr
	}
	if err != nil {
		return fail(err)
	}
	if ps.kind == kCopy {
		if c.tx == nil {
			return fail(&SQLError{Msg: "COPY is only allowed inside a transaction"})
		}
		if _, err := st.prepareCopy(ps); err != nil {
			return fail(err)
		}
		c.copyActive = true
		st.events = append(st.events, ev)
		return &copyStmt{c: c, ps: ps}, nil
	}
	// parse-time validation: table and columns
	tb, err := st.lookupTable(ps.table)
	if err != nil {
		return fail(err)
	}
	for _, lists := range [][]ident{ps.list, ps.cols, ps.returning} {
		for _, id := range lists {
			if _, err := lookupCol(tb, id, false); err != nil {
				return fail(err)
			}
		}
	}
	st.events = append(st.events, ev)
	return &stmt{c: c, query: query}, nil
}

func (st *Store) prepareCopy(ps *statement) (*plan, error) { return st.prepare(ps, nil) }

type stmt struct {
	c     *conn
	query string
}

func (s *stmt) Close() error  { return nil }
func (s *stmt) NumInput() int { return -1 }
func (s *stmt) Exec(args []driver.Value) (driver.Result, error) {
	res, err := s.c.execute(s.query, args)
	if err != nil {
		return nil, err
	}
	return execResult{affected: int64(res.affected)}, nil
}
func (s *stmt) Query(args []driver.Value) (driver.Rows, error) {
	res, err := s.c.execute(s.query, args)
	if err != nil {
		return nil, err
	}
	return &rows{cols: res.cols, data: res.rows}, nil
}

// copyStmt mimics lib/pq's COPY FROM STDIN statement: Exec(args...) buffers a
// row, Exec() flushes; Close flushes too if that was not done.
type copyStmt struct {
	c       *conn
	ps      *statement
	buf     [][]driver.Value
	flushed bool
	closed  bool
}

func (s *copyStmt) NumInput() int { return -1 }

func (s *copyStmt) Query([]driver.Value) (driver.Rows, error) {
	return nil, &SQLError{Msg: "COPY statements cannot be queried"}
}

func (s *copyStmt) Exec(args []driver.Value) (driver.Result, error) {
	st := s.c.st
	st.mu.Lock()
	defer st.mu.Unlock()
	if s.closed || s.flushed {
		err := &SQLError{Msg: "copyin statement has already been closed"}
		st.events = append(st.events, Event{SQL: s.ps.sql, Kind: "copy_row", Args: eventArgs(args), Err: err.Error()})
		return nil, err
	}
	if len(args) == 0 {
		return s.flushLocked()
	}
	ev := Event{SQL: s.ps.sql, Kind: "copy_row", Args: eventArgs(args), Tables: []string{s.ps.table.written()}, Columns: s.ps.columns}
	if s.c.tx == nil || s.c.tx.failed {
		err := &SQLError{Code: "25P02", Msg: "current transaction is aborted, commands ignored until end of transaction block"}
		ev.Err = err.Error()
		st.events = append(st.events, ev)
		return nil, err
	}
	if len(args) != len(s.ps.cols) {
		what := "missing data for column"
		if len(args) > len(s.ps.cols) {
			what = "extra data after last expected column"
		}
		err := codeErrorf("22P04", "%s (COPY row has %d values for %d columns)", what, len(args), len(s.ps.cols))
		ev.Err = err.Error()
		st.events = append(st.events, ev)
		s.c.noteFailure(err)
		s.c.copyActive = false
		s.flushed = true
		return nil, err
	}
	s.buf = append(s.buf, append([]driver.Value(nil), args...))
	st.events = append(st.events, ev)
	return execResult{}, nil
}

func (s *copyStmt) flushLocked() (driver.Result, error) {
	st := s.c.st
	ev := Event{SQL: s.ps.sql, Kind: "copy_end", Tables: []string{s.ps.table.written()}, Columns: s.ps.columns}
	s.flushed = true
	s.c.copyActive = false
	var n int
	var err error
	if s.c.tx == nil || s.c.tx.failed {
		err = &SQLError{Code: "25P02", Msg: "current transaction is aborted, commands ignored until end of transaction block"}
	} else {
		n, err = st.copyRows(s.ps, s.buf)
		s.c.noteFailure(err)
	}
	s.buf = nil
	if err != nil {
		ev.Err = err.Error()
		st.events = append(st.events, ev)
		return nil, err
	}
	ev.RowsAffected = n
	st.events = append(st.events, ev)
	return execResult{affected: int64(n)}, nil
}

func (s *copyStmt) Close() error {
	st := s.c.st
	st.mu.Lock()
	defer st.mu.Unlock()
	if s.closed {
		return nil
	}
	s.closed = true
	if s.flushed {
		return nil
	}
	// lib/pq sends the buffered rows and CopyDone on Close
	_, err := s.flushLocked()
	return err
}
