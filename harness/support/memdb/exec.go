package memdb

import (
	"database/sql/driver"
	"strconv"
	"strings"

	"verif/support/pgmodel"
)

type result struct {
	cols     []string
	rows     [][]driver.Value
	affected int
}

func (st *Store) lookupTable(id ident) (*table, error) {
	tb := st.tables[id.key]
	if tb == nil {
		return nil, codeErrorf("42P01", "relation %q does not exist", id.key)
	}
	return tb, nil
}

func lookupCol(tb *table, id ident, asTarget bool) (int, error) {
	idx, ok := tb.colIdx[id.key]
	if !ok {
		if asTarget {
			return 0, codeErrorf("42703", "column %q of relation %q does not exist", id.key, tb.name)
		}
		return 0, codeErrorf("42703", "column %q does not exist", id.key)
	}
	return idx, nil
}

// checkPlaceholders enforces PostgreSQL's rules on $n numbering and on the
// number of bound arguments.
func checkPlaceholders(placeholders []int, nargs int) error {
	max := 0
	used := map[int]bool{}
	for _, n := range placeholders {
		used[n] = true
		if n > max {
			max = n
		}
	}
	for k := 1; k <= max; k++ {
		if !used[k] {
			return codeErrorf("42P18", "could not determine data type of parameter $%d", k)
		}
	}
	if nargs != max {
		return codeErrorf("08P01", "bind message supplies %d parameters, but prepared statement \"\" requires %d", nargs, max)
	}
	return nil
}

// paramTypes infers the type of every placeholder from its contexts.
type paramTypes struct {
	types map[int]colType
	loose map[int]bool // seen in a context that gives no type ($1 IS NULL, $1 = $2)
	err   error
}

func (pt *paramTypes) set(n int, ct colType) {
	if pt.err != nil {
		return
	}
	if old, ok := pt.types[n]; ok {
		if !old.sameType(ct) {
			pt.err = unsupportedf("parameter $%d is used with types %s and %s", n, old, ct)
		}
		return
	}
	pt.types[n] = ct
}

func literalType(l *pgmodel.Literal) (colType, bool) {
	switch l.Kind {
	case pgmodel.LitNumber:
		if !strings.ContainsAny(l.Text, ".eE") {
			return colType{norm: "integer", base: "integer", precision: -1}, true
		}
	case pgmodel.LitString:
		return colType{norm: "text", base: "text", precision: -1}, true
	case pgmodel.LitBool:
		return colType{norm: "boolean", base: "boolean", precision: -1}, true
	}
	return colType{}, false
}

func (pt *paramTypes) operandType(tb *table, e pgmodel.Expr) (colType, bool) {
	switch x := e.(type) {
	case *pgmodel.ColumnRef:
		if idx, ok := tb.colIdx[x.Lower]; ok {
			return tb.cols[idx].typ, true
		}
	case *pgmodel.Literal:
		return literalType(x)
	case *pgmodel.UnaryExpr:
		if l, ok := x.X.(*pgmodel.Literal); ok {
			return literalType(l)
		}
	}
	return colType{}, false
}

func (pt *paramTypes) walkCond(tb *table, e pgmodel.Expr) {
	switch x := e.(type) {
	case *pgmodel.BinaryExpr:
		if x.Op == "AND" || x.Op == "OR" {
			pt.walkCond(tb, x.L)
			pt.walkCond(tb, x.R)
			return
		}
		lp, lIsParam := x.L.(*pgmodel.ParamRef)
		rp, rIsParam := x.R.(*pgmodel.ParamRef)
		switch {
		case lIsParam && rIsParam:
			pt.loose[lp.N], pt.loose[rp.N] = true, true
		case lIsParam:
			if ct, ok := pt.operandType(tb, x.R); ok {
				pt.set(lp.N, ct)
			} else {
				pt.loose[lp.N] = true
			}
		case rIsParam:
			if ct, ok := pt.operandType(tb, x.L); ok {
				pt.set(rp.N, ct)
			} else {
				pt.loose[rp.N] = true
			}
		}
	case *pgmodel.UnaryExpr:
		pt.walkCond(tb, x.X)
	case *pgmodel.IsNullExpr:
		if p, ok := x.X.(*pgmodel.ParamRef); ok {
			pt.loose[p.N] = true
		}
	case *pgmodel.AnyExpr:
		lp, lIsParam := x.X.(*pgmodel.ParamRef)
		ap, aIsParam := x.Array.(*pgmodel.ParamRef)
		switch {
		case lIsParam && aIsParam:
			pt.loose[lp.N], pt.loose[ap.N] = true, true
		case aIsParam:
			if ct, ok := pt.operandType(tb, x.X); ok && !ct.array {
				pt.set(ap.N, ct.arrayOf())
			} else {
				pt.loose[ap.N] = true
			}
		case lIsParam:
			if ct, ok := pt.operandType(tb, x.Array); ok && ct.array {
				pt.set(lp.N, ct.elem())
			} else {
				pt.loose[lp.N] = true
			}
		}
	}
}

// plan holds what is resolved before touching any row.
type plan struct {
	tb      *table
	outCols []int // SELECT list / RETURNING
	target  []int // INSERT / UPDATE / COPY target columns
	env     pgmodel.Env
}

func (st *Store) resolveList(tb *table, star bool, list []ident) ([]int, error) {
	if star {
		out := make([]int, len(tb.cols))
		for i := range out {
			out[i] = i
		}
		return out, nil
	}
	out := make([]int, len(list))
	for i, id := range list {
		idx, err := lookupCol(tb, id, false)
		if err != nil {
			return nil, err
		}
		out[i] = idx
	}
	return out, nil
}

func (st *Store) prepare(ps *statement, args []driver.Value) (*plan, error) {
	tb, err := st.lookupTable(ps.table)
	if err != nil {
		return nil, err
	}
	pl := &plan{tb: tb}
	switch ps.kind {
	case kSelect:
		if pl.outCols, err = st.resolveList(tb, ps.star, ps.list); err != nil {
			return nil, err
		}
	case kInsert, kUpdate, kCopy:
		seen := map[int]bool{}
		for _, id := range ps.cols {
			idx, err := lookupCol(tb, id, true)
			if err != nil {
				return nil, err
			}
			if seen[idx] {
				if ps.kind == kUpdate {
					return nil, codeErrorf("42601", "multiple assignments to same column %q", tb.cols[idx].name)
				}
				return nil, codeErrorf("42701", "column %q specified more than once", tb.cols[idx].name)
			}
			seen[idx] = true
			pl.target = append(pl.target, idx)
		}
	}
	if ps.kind == kInsert || ps.kind == kUpdate {
		if len(ps.vals) > len(ps.cols) {
			if ps.kind == kInsert {
				return nil, codeErrorf("42601", "INSERT has more expressions than target columns")
			}
			return nil, codeErrorf("42601", "number of columns does not match number of values")
		}
		if len(ps.vals) < len(ps.cols) {
			if ps.kind == kInsert {
				return nil, codeErrorf("42601", "INSERT has more target columns than expressions")
			}
			return nil, codeErrorf("42601", "number of columns does not match number of values")
		}
		if ps.kind == kUpdate && ps.tupleForm && !ps.rowKeyword && len(ps.cols) == 1 && !st.AllowSingleColumnRowUpdate {
			return nil, codeErrorf("42601", "source for a multiple-column UPDATE item must be a sub-SELECT or ROW() expression")
		}
	}
	if ps.hasReturning {
		if pl.outCols, err = st.resolveList(tb, ps.returningStar, ps.returning); err != nil {
			return nil, err
		}
	}
	// columns mentioned in expressions
	var colErr error
	checkRefs := func(e pgmodel.Expr) {
		pgmodel.WalkExpr(e, func(x pgmodel.Expr) {
			if c, ok := x.(*pgmodel.ColumnRef); ok && colErr == nil {
				if _, ok := tb.colIdx[c.Lower]; !ok {
					colErr = codeErrorf("42703", "column %q does not exist", c.Lower)
				}
			}
		})
	}
	for _, v := range ps.vals {
		checkRefs(v)
	}
	checkRefs(ps.where)
	if colErr != nil {
		return nil, colErr
	}
	if ps.kind == kCopy {
		return pl, nil
	}
	if err := checkPlaceholders(ps.placeholders, len(args)); err != nil {
		return nil, err
	}
	// parameter types
	pt := &paramTypes{types: map[int]colType{}, loose: map[int]bool{}}
	if ps.where != nil {
		pt.walkCond(tb, ps.where)
	}
	for i, v := range ps.vals {
		if p, ok := v.(*pgmodel.ParamRef); ok {
			pt.set(p.N, tb.cols[pl.target[i]].typ)
		}
	}
	if pt.err != nil {
		return nil, pt.err
	}
	pl.env = pgmodel.Env{}
	for n := 1; n <= len(args); n++ {
		ct, ok := pt.types[n]
		if !ok {
			if !pt.loose[n] {
				return nil, unsupportedf("cannot infer the type of parameter $%d", n)
			}
			onlyIsNull := true
			pgmodel.WalkExpr(ps.where, func(x pgmodel.Expr) {
				switch y := x.(type) {
				case *pgmodel.BinaryExpr:
					lp, l := y.L.(*pgmodel.ParamRef)
					rp, r := y.R.(*pgmodel.ParamRef)
					if (l && lp.N == n) || (r && rp.N == n) {
						onlyIsNull = false
					}
				case *pgmodel.AnyExpr:
					onlyIsNull = false
				}
			})
			if onlyIsNull {
				return nil, codeErrorf("42P18", "could not determine data type of parameter $%d", n)
			}
			return nil, unsupportedf("parameter $%d is only compared with untyped operands", n)
		}
		v, err := coerceArg(args[n-1], ct)
		if err != nil {
			return nil, err
		}
		pl.env["$"+strconv.Itoa(n)] = v
	}
	// plan the condition once against a row of typed NULLs: type errors do
	// not depend on the data (and must show up on an empty table too)
	if ps.where != nil {
		nullRow := make([]pgmodel.Value, len(tb.cols))
		for i, c := range tb.cols {
			nullRow[i] = pgmodel.NullOf(c.typ.kind())
		}
		if _, err := st.evalCond(pl, ps.where, nullRow); err != nil {
			return nil, err
		}
	}
	return pl, nil
}

func (st *Store) rowEnv(pl *plan, vals []pgmodel.Value) pgmodel.Env {
	env := make(pgmodel.Env, len(pl.env)+len(vals))
	for k, v := range pl.env {
		env[k] = v
	}
	for i, c := range pl.tb.cols {
		env[c.name] = vals[i]
	}
	return env
}

func (st *Store) evalCond(pl *plan, cond pgmodel.Expr, vals []pgmodel.Value) (bool, error) {
	for i, c := range pl.tb.cols {
		if c.typ.unsupported != "" && mentions(cond, c.name) {
			return false, unsupportedf("column %s: %s", c.written, c.typ.unsupported)
		}
		_ = i
	}
	v, err := st.script.Eval(cond, st.rowEnv(pl, vals))
	if err != nil {
		return false, wrapModelError(err)
	}
	isTrue, _, err := pgmodel.Truth(v)
	if err != nil {
		return false, codeErrorf("42804", "argument of WHERE must be type boolean")
	}
	return isTrue, nil
}

func mentions(e pgmodel.Expr, col string) bool {
	found := false
	pgmodel.WalkExpr(e, func(x pgmodel.Expr) {
		if c, ok := x.(*pgmodel.ColumnRef); ok && c.Lower == col {
			found = true
		}
	})
	return found
}

func (st *Store) matching(pl *plan, cond pgmodel.Expr) ([]int, error) {
	var out []int
	for i, r := range pl.tb.rows {
		if cond != nil {
			ok, err := st.evalCond(pl, cond, r.vals)
			if err != nil {
				return nil, err
			}
			if !ok {
				continue
			}
		}
		out = append(out, i)
	}
	return out, nil
}

func project(tb *table, cols []int, vals []pgmodel.Value) []driver.Value {
	out := make([]driver.Value, len(cols))
	for i, c := range cols {
		out[i] = toDriver(vals[c], tb.cols[c].typ)
	}
	return out
}

func colNames(tb *table, cols []int) []string {
	out := make([]string, len(cols))
	for i, c := range cols {
		out[i] = tb.cols[c].name
	}
	return out
}

// assignValue computes the value stored in column c for a source operand.
func (st *Store) assignValue(pl *plan, src pgmodel.Expr, c *column, old []pgmodel.Value) (pgmodel.Value, error) {
	ct := c.typ
	if ct.unsupported != "" {
		return pgmodel.Value{}, unsupportedf("column %s: %s", c.written, ct.unsupported)
	}
	mismatch := func(have string) error {
		return codeErrorf("42804", "column %q is of type %s but expression is of type %s", c.name, ct.norm, have)
	}
	switch x := src.(type) {
	case *pgmodel.ParamRef:
		return pl.env["$"+strconv.Itoa(x.N)], nil
	case *pgmodel.ColumnRef:
		if old == nil {
			return pgmodel.Value{}, codeErrorf("42703", "column %q does not exist", x.Lower)
		}
		idx := pl.tb.colIdx[x.Lower]
		if !pl.tb.cols[idx].typ.sameType(ct) {
			return pgmodel.Value{}, unsupportedf("assignment of column %s (%s) to column %s (%s)", x.Name, pl.tb.cols[idx].typ, c.written, ct)
		}
		return old[idx], nil
	case *pgmodel.UnaryExpr:
		l := x.X.(*pgmodel.Literal)
		txt := l.Text
		if x.Op == "-" {
			txt = "-" + txt
		}
		return st.assignNumber(txt, c, mismatch)
	case *pgmodel.Literal:
		switch x.Kind {
		case pgmodel.LitNull:
			return pgmodel.NullOf(ct.kind()), nil
		case pgmodel.LitString:
			return parseText(x.Text, ct)
		case pgmodel.LitBool:
			switch {
			case ct.base == "boolean" && !ct.array:
				return pgmodel.Bool(x.Text == "true"), nil
			case ct.base == "text" && !ct.array:
				return pgmodel.Text(x.Text), nil
			}
			return pgmodel.Value{}, mismatch("boolean")
		case pgmodel.LitNumber:
			return st.assignNumber(x.Text, c, mismatch)
		}
	}
	return pgmodel.Value{}, unsupportedf("source expression %s", src)
}

func (st *Store) assignNumber(txt string, c *column, mismatch func(string) error) (pgmodel.Value, error) {
	ct := c.typ
	isInt := !strings.ContainsAny(txt, ".eE")
	have := "numeric"
	if isInt {
		have = "integer"
	}
	switch {
	case ct.array || ct.composite != nil:
		return pgmodel.Value{}, mismatch(have)
	case ct.isInt():
		if !isInt {
			return pgmodel.Value{}, unsupportedf("non-integer literal %s assigned to %s column %s (rounding not modelled)", txt, ct.norm, c.written)
		}
		v, err := parseText(txt, ct)
		if e, ok := err.(*SQLError); ok && e.Code == "22003" {
			return pgmodel.Value{}, codeErrorf("22003", "%s out of range", intTypeName(ct.base))
		}
		return v, err
	case ct.base == "real" || ct.base == "double precision" || ct.base == "text":
		return parseText(txt, ct)
	}
	return pgmodel.Value{}, mismatch(have)
}

// defaultValue evaluates the DEFAULT expression of a column.
func (st *Store) defaultValue(pl *plan, c *column) (pgmodel.Value, error) {
	if c.def == nil {
		return pgmodel.NullOf(c.typ.kind()), nil
	}
	if !isOperand(c.def) {
		return pgmodel.Value{}, unsupportedf("DEFAULT expression %s of column %s", c.def, c.written)
	}
	if _, isCol := c.def.(*pgmodel.ColumnRef); isCol {
		return pgmodel.Value{}, unsupportedf("DEFAULT expression %s of column %s", c.def, c.written)
	}
	return st.assignValue(pl, c.def, c, nil)
}

func valuesEqual(a, b pgmodel.Value) (bool, error) {
	r, err := pgmodel.Compare("=", a, b)
	if err != nil {
		return false, wrapModelError(err)
	}
	return !r.IsNull() && r.B, nil
}

// keyMatches reports whether row r has, at cols, exactly key (no NULLs).
func keyMatches(r *row, cols []int, key []pgmodel.Value) (bool, error) {
	for i, c := range cols {
		if r.vals[c].IsNull() {
			return false, nil
		}
		eq, err := valuesEqual(r.vals[c], key[i])
		if err != nil || !eq {
			return false, err
		}
	}
	return true, nil
}

func keyOf(vals []pgmodel.Value, cols []int) (key []pgmodel.Value, hasNull bool) {
	key = make([]pgmodel.Value, len(cols))
	for i, c := range cols {
		key[i] = vals[c]
		if vals[c].IsNull() {
			hasNull = true
		}
	}
	return key, hasNull
}

func keyText(vals []pgmodel.Value) string {
	parts := make([]string, len(vals))
	for i, v := range vals {
		parts[i] = v.String()
	}
	return strings.Join(parts, ", ")
}

// checkRow validates a new or updated row (self is its current *row when it
// replaces one, nil for an insert). changed[i] tells whether column i was
// (possibly) modified; nil means all.
func (st *Store) checkRow(tb *table, vals []pgmodel.Value, self *row, changed []bool) error {
	for i, c := range tb.cols {
		if c.typ.unsupported != "" && (changed == nil || changed[i]) {
			return unsupportedf("column %s.%s: %s", tb.written, c.written, c.typ.unsupported)
		}
		if c.notNull && vals[i].IsNull() {
			return codeErrorf("23502", "null value in column %q of relation %q violates not-null constraint", c.name, tb.name)
		}
	}
	env := make(pgmodel.Env, len(vals))
	for i, c := range tb.cols {
		env[c.name] = vals[i]
	}
	runCheck := func(name string, e pgmodel.Expr) error {
		pass, _, err := st.script.CheckPasses(e, env)
		if err != nil {
			if _, isEval := err.(*pgmodel.EvalError); isEval {
				return &SQLError{Msg: err.(*pgmodel.EvalError).Msg + " (while evaluating check constraint \"" + name + "\")"}
			}
			return wrapModelError(err)
		}
		if !pass {
			return codeErrorf("23514", "new row for relation %q violates check constraint %q", tb.name, name)
		}
		return nil
	}
	for ci, c := range tb.cols {
		for j, e := range c.checks {
			if err := runCheck(tb.colCheckNames[ci][j], e); err != nil {
				return err
			}
		}
	}
	for _, ck := range tb.checks {
		if err := runCheck(ck.name, ck.expr); err != nil {
			return err
		}
	}
	for _, u := range tb.uniques {
		key, hasNull := keyOf(vals, u.cols)
		if hasNull {
			continue
		}
		for _, r := range tb.rows {
			if r == self {
				continue
			}
			m, err := keyMatches(r, u.cols, key)
			if err != nil {
				return err
			}
			if m {
				return codeErrorf("23505", "duplicate key value violates unique constraint %q: Key (%s)=(%s) already exists", u.name,
					strings.Join(colNames(tb, u.cols), ", "), keyText(key))
			}
		}
	}
	for _, fk := range tb.fks {
		if changed != nil {
			touched := false
			for _, c := range fk.cols {
				touched = touched || changed[c]
			}
			if !touched {
				continue
			}
		}
		key, hasNull := keyOf(vals, fk.cols)
		if hasNull {
			continue
		}
		found := false
		for _, r := range fk.to.rows {
			m, err := keyMatches(r, fk.refCols, key)
			if err != nil {
				return err
			}
			if m {
				found = true
				break
			}
		}
		// a row may reference itself
		if !found && fk.to == tb {
			selfRow := &row{vals: vals}
			if m, _ := keyMatches(selfRow, fk.refCols, key); m {
				found = true
			}
		}
		if !found {
			return codeErrorf("23503", "insert or update on table %q violates foreign key constraint %q: Key (%s)=(%s) is not present in table %q",
				tb.name, fk.name, strings.Join(colNames(tb, fk.cols), ", "), keyText(key), fk.to.name)
		}
	}
	return nil
}

func (st *Store) buildInsertRow(pl *plan, sources []pgmodel.Expr, direct []pgmodel.Value) ([]pgmodel.Value, error) {
	tb := pl.tb
	vals := make([]pgmodel.Value, len(tb.cols))
	given := make([]bool, len(tb.cols))
	for i, idx := range pl.target {
		given[idx] = true
		if direct != nil {
			vals[idx] = direct[i]
			continue
		}
		v, err := st.assignValue(pl, sources[i], tb.cols[idx], nil)
		if err != nil {
			return nil, err
		}
		vals[idx] = v
	}
	for i, c := range tb.cols {
		if given[i] {
			continue
		}
		switch {
		case c.serial:
			n := tb.seq[i]
			tb.seq[i] = n + 1
			b := intBounds[c.typ.base]
			if n > b[1] {
				return nil, codeErrorf("2200H", "nextval: reached maximum value of sequence")
			}
			vals[i] = pgmodel.NumInt(n)
		default:
			v, err := st.defaultValue(pl, c)
			if err != nil {
				return nil, err
			}
			vals[i] = v
		}
	}
	return vals, nil
}

func (st *Store) runInsert(ps *statement, pl *plan) (*result, error) {
	vals, err := st.buildInsertRow(pl, ps.vals, nil)
	if err != nil {
		return nil, err
	}
	if err := st.checkRow(pl.tb, vals, nil, nil); err != nil {
		return nil, err
	}
	pl.tb.rows = append(pl.tb.rows, &row{vals: vals})
	res := &result{affected: 1}
	if ps.hasReturning {
		res.cols = colNames(pl.tb, pl.outCols)
		res.rows = [][]driver.Value{project(pl.tb, pl.outCols, vals)}
	}
	return res, nil
}

func (st *Store) runSelect(ps *statement, pl *plan) (*result, error) {
	idxs, err := st.matching(pl, ps.where)
	if err != nil {
		return nil, err
	}
	for _, c := range pl.outCols {
		if u := pl.tb.cols[c].typ.unsupported; u != "" {
			return nil, unsupportedf("column %s.%s: %s", pl.tb.written, pl.tb.cols[c].written, u)
		}
	}
	res := &result{cols: colNames(pl.tb, pl.outCols)}
	for _, i := range idxs {
		res.rows = append(res.rows, project(pl.tb, pl.outCols, pl.tb.rows[i].vals))
	}
	return res, nil
}

func (st *Store) runUpdate(ps *statement, pl *plan) (*result, error) {
	tb := pl.tb
	idxs, err := st.matching(pl, ps.where)
	if err != nil {
		return nil, err
	}
	// sources are validated even when no row matches
	if len(idxs) == 0 {
		nullRow := make([]pgmodel.Value, len(tb.cols))
		for i, c := range tb.cols {
			nullRow[i] = pgmodel.NullOf(c.typ.kind())
		}
		for i, idx := range pl.target {
			if _, err := st.assignValue(pl, ps.vals[i], tb.cols[idx], nullRow); err != nil {
				return nil, err
			}
		}
	}
	changed := make([]bool, len(tb.cols))
	for _, idx := range pl.target {
		changed[idx] = true
	}
	res := &result{}
	if ps.hasReturning {
		res.cols = colNames(tb, pl.outCols)
	}
	for _, ri := range idxs {
		old := tb.rows[ri]
		vals := append([]pgmodel.Value(nil), old.vals...)
		for i, idx := range pl.target {
			v, err := st.assignValue(pl, ps.vals[i], tb.cols[idx], old.vals)
			if err != nil {
				return nil, err
			}
			vals[idx] = v
		}
		if err := st.checkRow(tb, vals, old, changed); err != nil {
			return nil, err
		}
		// referenced keys must not change under rows that point at them
		for _, fk := range tb.refBy {
			oldKey, hasNull := keyOf(old.vals, fk.refCols)
			if hasNull {
				continue
			}
			same, err := keyMatches(&row{vals: vals}, fk.refCols, oldKey)
			if err != nil {
				return nil, err
			}
			if same {
				continue
			}
			for _, cr := range fk.from.rows {
				if cr == old {
					continue
				}
				m, err := keyMatches(cr, fk.cols, oldKey)
				if err != nil {
					return nil, err
				}
				if !m {
					continue
				}
				switch fk.onUpdate {
				case "", "NO ACTION", "RESTRICT":
					return nil, codeErrorf("23503", "update or delete on table %q violates foreign key constraint %q on table %q", tb.name, fk.name, fk.from.name)
				default:
					return nil, unsupportedf("ON UPDATE %s", fk.onUpdate)
				}
			}
		}
		tb.rows[ri] = &row{vals: vals}
		res.affected++
		if ps.hasReturning {
			res.rows = append(res.rows, project(tb, pl.outCols, vals))
		}
	}
	return res, nil
}

func (st *Store) runDelete(ps *statement, pl *plan) (*result, error) {
	tb := pl.tb
	idxs, err := st.matching(pl, ps.where)
	if err != nil {
		return nil, err
	}
	res := &result{}
	if ps.hasReturning {
		res.cols = colNames(tb, pl.outCols)
		for _, c := range pl.outCols {
			if u := tb.cols[c].typ.unsupported; u != "" {
				return nil, unsupportedf("column %s.%s: %s", tb.written, tb.cols[c].written, u)
			}
		}
	}
	deleted := map[*row]*table{}
	var order []*row
	var del func(t *table, r *row) error
	del = func(t *table, r *row) error {
		if _, done := deleted[r]; done {
			return nil
		}
		deleted[r] = t
		order = append(order, r)
		for _, fk := range t.refBy {
			key, hasNull := keyOf(r.vals, fk.refCols)
			if hasNull {
				continue
			}
			for i := 0; i < len(fk.from.rows); i++ {
				cr := fk.from.rows[i]
				if _, gone := deleted[cr]; gone {
					continue
				}
				m, err := keyMatches(cr, fk.cols, key)
				if err != nil {
					return err
				}
				if !m {
					continue
				}
				switch fk.onDelete {
				case "CASCADE":
					if err := del(fk.from, cr); err != nil {
						return err
					}
				case "SET NULL":
					vals := append([]pgmodel.Value(nil), cr.vals...)
					changed := make([]bool, len(vals))
					for _, c := range fk.cols {
						vals[c] = pgmodel.NullOf(fk.from.cols[c].typ.kind())
						changed[c] = true
					}
					if err := st.checkRow(fk.from, vals, cr, changed); err != nil {
						return err
					}
					fk.from.rows[i] = &row{vals: vals}
				case "SET DEFAULT":
					return unsupportedf("ON DELETE SET DEFAULT")
				}
			}
		}
		return nil
	}
	for _, i := range idxs {
		r := tb.rows[i]
		if ps.hasReturning {
			res.rows = append(res.rows, project(tb, pl.outCols, r.vals))
		}
		if err := del(tb, r); err != nil {
			return nil, err
		}
	}
	res.affected = len(idxs)
	// physically remove
	for _, t := range st.tables {
		kept := t.rows[:0:0]
		for _, r := range t.rows {
			if _, gone := deleted[r]; !gone {
				kept = append(kept, r)
			}
		}
		t.rows = kept
	}
	// NO ACTION / RESTRICT: no remaining row may point at a deleted one
	for _, r := range order {
		t := deleted[r]
		for _, fk := range t.refBy {
			switch fk.onDelete {
			case "", "NO ACTION", "RESTRICT":
			default:
				continue
			}
			key, hasNull := keyOf(r.vals, fk.refCols)
			if hasNull {
				continue
			}
			for _, cr := range fk.from.rows {
				m, err := keyMatches(cr, fk.cols, key)
				if err != nil {
					return nil, err
				}
				if m {
					return nil, codeErrorf("23503", "update or delete on table %q violates foreign key constraint %q on table %q: Key (%s)=(%s) is still referenced from table %q",
						t.name, fk.name, fk.from.name, strings.Join(colNames(t, fk.refCols), ", "), keyText(key), fk.from.name)
				}
			}
		}
	}
	return res, nil
}

// run executes a parsed statement atomically. The caller holds st.mu.
func (st *Store) run(ps *statement, args []driver.Value) (*result, error) {
	pl, err := st.prepare(ps, args)
	if err != nil {
		return nil, err
	}
	if ps.kind == kSelect {
		return st.runSelect(ps, pl)
	}
	snap := st.snapshot()
	var res *result
	switch ps.kind {
	case kInsert:
		res, err = st.runInsert(ps, pl)
	case kUpdate:
		res, err = st.runUpdate(ps, pl)
	case kDelete:
		res, err = st.runDelete(ps, pl)
	default:
		err = unsupportedf("COPY must be prepared")
	}
	if err != nil {
		st.restore(snap)
		return nil, err
	}
	return res, nil
}

// copyRows inserts buffered COPY rows atomically.
func (st *Store) copyRows(ps *statement, rows [][]driver.Value) (int, error) {
	pl, err := st.prepare(ps, nil)
	if err != nil {
		return 0, err
	}
	snap := st.snapshot()
	for _, args := range rows {
		direct := make([]pgmodel.Value, len(pl.target))
		for i, idx := range pl.target {
			c := pl.tb.cols[idx]
			if c.typ.unsupported != "" {
				st.restore(snap)
				return 0, unsupportedf("column %s.%s: %s", pl.tb.written, c.written, c.typ.unsupported)
			}
			v, err := coerceArg(args[i], c.typ)
			if err != nil {
				st.restore(snap)
				return 0, err
			}
			direct[i] = v
		}
		vals, err := st.buildInsertRow(pl, nil, direct)
		if err == nil {
			err = st.checkRow(pl.tb, vals, nil, nil)
		}
		if err != nil {
			st.restore(snap)
			return 0, err
		}
		pl.tb.rows = append(pl.tb.rows, &row{vals: vals})
	}
	return len(rows), nil
}
