module verif/support

go 1.23.0
