// Package refwire is compiled into the scratch runner next to generated code.
// It holds the reference side of the JSON oracles: a seeded value builder over
// reflect, the twin converter that produces the expected Kind/Data wire format
// WITHOUT using generated code, JSON tree comparison and a deep-equal that
// treats nil and empty containers as equal.
package refwire

import (
	"bytes"
	"encoding/json"
	"fmt"
	"math"
	"math/rand"
	"reflect"
	"sort"
	"strings"
	"time"
	"unsafe"
)

// Universe describes the unions and enums of one program.
type Universe struct {
	// Unions maps an interface type to its member types (value types).
	Unions map[reflect.Type][]reflect.Type
	// EnumAll / EnumExported map an enum type to its constants.
	EnumAll      map[reflect.Type][]reflect.Value
	EnumExported map[reflect.Type][]reflect.Value
	reach        map[reflect.Type]bool
}

func NewUniverse() *Universe {
	return &Universe{Unions: map[reflect.Type][]reflect.Type{}, EnumAll: map[reflect.Type][]reflect.Value{}, EnumExported: map[reflect.Type][]reflect.Value{}, reach: map[reflect.Type]bool{}}
}

var timeType = reflect.TypeOf(time.Time{})

// IsTimeLike reports whether t is time.Time or a named type over it.
func IsTimeLike(t reflect.Type) bool {
	return t.Kind() == reflect.Struct && (t == timeType || t.ConvertibleTo(timeType) && t.NumField() == timeType.NumField() && t.NumField() > 0 && t.Field(0).Name == "wall")
}

// ReachesUnion reports whether values of t can contain a union-typed component.
// The type graph reachable from t is collected first, then the answer is the
// least fixpoint of "is a union or has a child that reaches one" (types may be
// recursive).
func (u *Universe) ReachesUnion(t reflect.Type) bool {
	if v, ok := u.reach[t]; ok {
		return v
	}
	children := map[reflect.Type][]reflect.Type{}
	var collect func(t reflect.Type)
	collect = func(t reflect.Type) {
		if _, ok := children[t]; ok {
			return
		}
		var cs []reflect.Type
		switch t.Kind() {
		case reflect.Interface:
			cs = append(cs, u.Unions[t]...)
		case reflect.Struct:
			if !IsTimeLike(t) {
				for i := 0; i < t.NumField(); i++ {
					cs = append(cs, t.Field(i).Type)
				}
			}
		case reflect.Slice, reflect.Array, reflect.Pointer:
			cs = append(cs, t.Elem())
		case reflect.Map:
			cs = append(cs, t.Key(), t.Elem())
		}
		children[t] = cs
		for _, c := range cs {
			collect(c)
		}
	}
	collect(t)
	reach := map[reflect.Type]bool{}
	for x := range children {
		if x.Kind() == reflect.Interface {
			if _, ok := u.Unions[x]; ok {
				reach[x] = true
			}
		}
	}
	for changed := true; changed; {
		changed = false
		for x, cs := range children {
			if reach[x] || x.Kind() == reflect.Interface {
				continue
			}
			for _, c := range cs {
				if reach[c] {
					reach[x] = true
					changed = true
					break
				}
			}
		}
	}
	for x := range children {
		u.reach[x] = reach[x]
	}
	return u.reach[t]
}

// ---------------------------------------------------------------------------
// value builder

type BuildOpts struct {
	ExportedEnumsOnly bool
	MaxDepth          int
}

var stringPool = []string{"", "a", "hello world", "quote\"back\\slash", "<tag>&amp;", "héllo wörld ✓", "日本語", "line\nbreak\ttab", "emoji 😀", "0", "null", " spaced ", "a,b;c", "'single'", "percent%20", strings.Repeat("long ", 20)}

// Build returns a random value of type t. gaveUp is set when an interface
// position could not be filled (unknown interface or depth exhausted).
func (u *Universe) Build(r *rand.Rand, t reflect.Type, opts BuildOpts) (v reflect.Value, gaveUp bool) {
	b := &builder{u: u, r: r, opts: opts}
	if b.opts.MaxDepth == 0 {
		b.opts.MaxDepth = 4
	}
	out := reflect.New(t).Elem()
	b.fill(out, b.opts.MaxDepth, false)
	return out, b.gaveUp
}

type builder struct {
	u      *Universe
	r      *rand.Rand
	opts   BuildOpts
	gaveUp bool
}

func (b *builder) fill(v reflect.Value, depth int, nonEmpty bool) {
	t := v.Type()
	if consts, ok := b.u.EnumAll[t]; ok {
		if b.opts.ExportedEnumsOnly {
			consts = b.u.EnumExported[t]
		}
		if nonEmpty {
			// omitempty field: only constants that are not the zero value keep the key present
			var nz []reflect.Value
			for _, c := range consts {
				if !c.IsZero() {
					nz = append(nz, c)
				}
			}
			if len(nz) == 0 {
				b.gaveUp = true // cannot build a non-empty value: the caller drops this case
				return
			}
			consts = nz
		}
		if len(consts) > 0 {
			v.Set(consts[b.r.Intn(len(consts))])
			return
		}
	}
	if IsTimeLike(t) {
		sec := b.r.Int63n(4102444800) // 1970..2100
		tm := time.Unix(sec, 0).UTC()
		if strings.Contains(strings.ToLower(t.Name()), "date") {
			tm = time.Date(tm.Year(), tm.Month(), tm.Day(), 0, 0, 0, 0, time.UTC)
		}
		v.Set(reflect.ValueOf(tm).Convert(t))
		return
	}
	switch t.Kind() {
	case reflect.Bool:
		v.SetBool(nonEmpty || b.r.Intn(2) == 0)
	case reflect.Int, reflect.Int8, reflect.Int16, reflect.Int32, reflect.Int64:
		bits := t.Bits()
		max := int64(1)<<(bits-1) - 1
		var x int64
		switch b.r.Intn(8) {
		case 0:
			x = 0
		case 1:
			x = 1
		case 2:
			x = -1
		case 3:
			x = max
		case 4:
			x = -max - 1
		default:
			x = b.r.Int63n(2000) - 1000
		}
		if nonEmpty && x == 0 {
			x = 7
		}
		v.SetInt(x)
	case reflect.Uint, reflect.Uint8, reflect.Uint16, reflect.Uint32, reflect.Uint64, reflect.Uintptr:
		bits := t.Bits()
		var max uint64 = math.MaxUint64
		if bits < 64 {
			max = uint64(1)<<bits - 1
		}
		var x uint64
		switch b.r.Intn(6) {
		case 0:
			x = 0
		case 1:
			x = 1
		case 2:
			x = max
		default:
			x = uint64(b.r.Int63n(200))
		}
		if nonEmpty && x == 0 {
			x = 3
		}
		v.SetUint(x)
	case reflect.Float32, reflect.Float64:
		var x float64
		switch b.r.Intn(6) {
		case 0:
			x = 0
		case 1:
			x = float64(b.r.Intn(2000) - 1000)
		case 2:
			x = float64(b.r.Intn(4000)-2000) / 8 // float32 exact
		case 3:
			x = -0.5
		default:
			x = b.r.NormFloat64() * 1000
		}
		if t.Kind() == reflect.Float32 {
			x = float64(float32(x))
		}
		if nonEmpty && x == 0 {
			x = 1.5
		}
		v.SetFloat(x)
	case reflect.String:
		s := stringPool[b.r.Intn(len(stringPool))]
		if nonEmpty && s == "" {
			s = "x"
		}
		v.SetString(s)
	case reflect.Struct:
		for i := 0; i < t.NumField(); i++ {
			f := t.Field(i)
			if !f.IsExported() {
				// encoding/json ignores it, except for an embedded struct of an unexported type whose
				// exported fields are promoted: those are filled through the address (reflect refuses Set)
				if f.Anonymous && f.Type.Kind() == reflect.Struct && v.CanAddr() {
					inner := reflect.NewAt(f.Type, unsafe.Pointer(v.Field(i).UnsafeAddr())).Elem()
					b.fill(inner, depth, false)
				}
				continue
			}
			tag := f.Tag.Get("json")
			if tag == "-" {
				continue // left zero: cannot take part in the round trip
			}
			ne := strings.Contains(tag, ",omitempty")
			b.fill(v.Field(i), depth, ne)
		}
	case reflect.Slice:
		n := 0
		switch c := b.r.Intn(6); {
		case depth <= 0 || c == 0:
			if nonEmpty && depth > -3 {
				n = 1
			} else if b.r.Intn(2) == 0 {
				return // nil
			}
		case c == 1:
			n = 0
		default:
			n = 1 + b.r.Intn(4)
		}
		if nonEmpty && n == 0 && depth > -3 {
			n = 1
		}
		s := reflect.MakeSlice(t, n, n)
		for i := 0; i < n; i++ {
			b.fill(s.Index(i), depth-1, false)
		}
		v.Set(s)
	case reflect.Array:
		for i := 0; i < v.Len(); i++ {
			b.fill(v.Index(i), depth-1, false)
		}
	case reflect.Map:
		n := 0
		switch c := b.r.Intn(6); {
		case depth <= 0 || c == 0:
			if nonEmpty && depth > -3 {
				n = 1
			} else if b.r.Intn(2) == 0 {
				return
			}
		case c == 1:
			n = 0
		default:
			n = 1 + b.r.Intn(4)
		}
		if nonEmpty && n == 0 && depth > -3 {
			n = 1
		}
		m := reflect.MakeMapWithSize(t, n)
		for i := 0; i < n; i++ {
			k := reflect.New(t.Key()).Elem()
			b.fill(k, depth-1, false)
			e := reflect.New(t.Elem()).Elem()
			b.fill(e, depth-1, false)
			m.SetMapIndex(k, e)
		}
		v.Set(m)
	case reflect.Pointer:
		if depth <= 0 || b.r.Intn(3) == 0 {
			return
		}
		p := reflect.New(t.Elem())
		b.fill(p.Elem(), depth-1, false)
		v.Set(p)
	case reflect.Interface:
		members, ok := b.u.Unions[t]
		if !ok || len(members) == 0 {
			b.gaveUp = true
			return
		}
		if depth < -6 {
			b.gaveUp = true
			return
		}
		// prefer members that do not recurse when the budget is exhausted
		mt := members[b.r.Intn(len(members))]
		if depth <= 0 {
			for _, c := range members {
				if !b.u.ReachesUnion(c) {
					mt = c
					break
				}
			}
		}
		mv := reflect.New(mt).Elem()
		b.fill(mv, depth-1, false)
		v.Set(mv)
	}
}

// ---------------------------------------------------------------------------
// twin: expected wire format without generated code

// Union is the hand-written wire format of a union value.
type Union struct {
	Kind string
	Data any
}

// ToTwin converts v into a value whose encoding/json output is the expected
// wire document: identical to v except that every union position holds
// Union{Kind: <Go name of the member type>, Data: <twin of the member>}.
// Components that cannot contain a union are kept as they are, so the real
// encoding/json decides their keys, tags and encodings.
func (u *Universe) ToTwin(v reflect.Value) any {
	t := v.Type()
	if !u.ReachesUnion(t) {
		return v.Interface()
	}
	switch t.Kind() {
	case reflect.Interface:
		if v.IsNil() {
			return nil
		}
		dyn := v.Elem()
		return Union{Kind: dyn.Type().Name(), Data: u.ToTwin(dyn)}
	case reflect.Struct:
		fields, vals := u.twinFields(v)
		st := reflect.StructOf(fields)
		out := reflect.New(st).Elem()
		for i, fv := range vals {
			if fv.IsValid() {
				out.Field(i).Set(fv)
			}
		}
		return out.Interface()
	case reflect.Slice:
		if v.IsNil() {
			return []any(nil)
		}
		out := make([]any, v.Len())
		for i := range out {
			out[i] = u.ToTwin(v.Index(i))
		}
		return out
	case reflect.Array:
		out := make([]any, v.Len())
		for i := range out {
			out[i] = u.ToTwin(v.Index(i))
		}
		return out
	case reflect.Map:
		mt := reflect.MapOf(t.Key(), reflect.TypeOf((*any)(nil)).Elem())
		if v.IsNil() {
			return reflect.Zero(mt).Interface()
		}
		out := reflect.MakeMapWithSize(mt, v.Len())
		it := v.MapRange()
		for it.Next() {
			tv := u.ToTwin(it.Value())
			if tv == nil {
				out.SetMapIndex(it.Key(), reflect.Zero(mt.Elem()))
			} else {
				out.SetMapIndex(it.Key(), reflect.ValueOf(tv))
			}
		}
		return out.Interface()
	case reflect.Pointer:
		if v.IsNil() {
			return nil
		}
		return u.ToTwin(v.Elem())
	}
	return v.Interface()
}

var anyType = reflect.TypeOf((*any)(nil)).Elem()

// twinFields lists the fields of the twin struct: same names and tags; fields
// that reach a union get static type `any` holding the converted value;
// untagged embedded structs are flattened (what encoding/json does).
func (u *Universe) twinFields(v reflect.Value) ([]reflect.StructField, []reflect.Value) {
	t := v.Type()
	var fields []reflect.StructField
	var vals []reflect.Value
	for i := 0; i < t.NumField(); i++ {
		f := t.Field(i)
		fv := v.Field(i)
		if f.Anonymous && f.Type.Kind() == reflect.Struct && f.Tag.Get("json") == "" && !IsTimeLike(f.Type) {
			fs, vs := u.twinFields(fv)
			fields = append(fields, fs...)
			vals = append(vals, vs...)
			continue
		}
		if !f.IsExported() {
			continue
		}
		nf := reflect.StructField{Name: f.Name, Tag: f.Tag, Type: f.Type}
		if f.Anonymous {
			// embedded non-struct: encoding/json uses the type name as key
			nf.Name = f.Name
		}
		if u.ReachesUnion(f.Type) {
			nf.Type = anyType
			tv := u.ToTwin(fv)
			fields = append(fields, nf)
			if tv == nil {
				vals = append(vals, reflect.Value{})
			} else {
				vals = append(vals, reflect.ValueOf(tv))
			}
			continue
		}
		fields = append(fields, nf)
		vals = append(vals, fv)
	}
	return fields, vals
}

// Expected returns the expected wire document of v.
func (u *Universe) Expected(v reflect.Value) ([]byte, error) {
	return json.Marshal(u.ToTwin(v))
}

// ---------------------------------------------------------------------------
// JSON tree comparison

func DecodeTree(b []byte) (any, error) {
	dec := json.NewDecoder(bytes.NewReader(b))
	dec.UseNumber()
	var v any
	if err := dec.Decode(&v); err != nil {
		return nil, err
	}
	return v, nil
}

// DiffTrees returns "" when equal, else the first difference with its path.
// An empty array/object where the reference has null is accepted: the
// generated code for named containers of unions emits [] / {} for nil values,
// which the statement does not forbid (nil and empty count as equal).
func DiffTrees(got, want any, path string) string {
	if want == nil {
		switch g := got.(type) {
		case []any:
			if len(g) == 0 {
				return ""
			}
		case map[string]any:
			if len(g) == 0 {
				return ""
			}
		}
	}
	switch w := want.(type) {
	case map[string]any:
		g, ok := got.(map[string]any)
		if !ok {
			return fmt.Sprintf("%s: got %s, want object", path, short(got))
		}
		var keys []string
		for k := range w {
			keys = append(keys, k)
		}
		sort.Strings(keys)
		for _, k := range keys {
			gv, ok := g[k]
			if !ok {
				return fmt.Sprintf("%s: key %q missing (got keys %v)", path, k, keysOf(g))
			}
			if d := DiffTrees(gv, w[k], path+"."+k); d != "" {
				return d
			}
		}
		for k := range g {
			if _, ok := w[k]; !ok {
				return fmt.Sprintf("%s: unexpected key %q (want keys %v)", path, k, keys)
			}
		}
		return ""
	case []any:
		g, ok := got.([]any)
		if !ok {
			return fmt.Sprintf("%s: got %s, want array", path, short(got))
		}
		if len(g) != len(w) {
			return fmt.Sprintf("%s: array length %d, want %d", path, len(g), len(w))
		}
		for i := range w {
			if d := DiffTrees(g[i], w[i], fmt.Sprintf("%s[%d]", path, i)); d != "" {
				return d
			}
		}
		return ""
	case json.Number:
		g, ok := got.(json.Number)
		if !ok || g.String() != w.String() {
			return fmt.Sprintf("%s: got %s, want number %s", path, short(got), w)
		}
		return ""
	default:
		if !reflect.DeepEqual(got, want) {
			return fmt.Sprintf("%s: got %s, want %s", path, short(got), short(want))
		}
		return ""
	}
}

func keysOf(m map[string]any) []string {
	var ks []string
	for k := range m {
		ks = append(ks, k)
	}
	sort.Strings(ks)
	return ks
}

func short(v any) string {
	b, _ := json.Marshal(v)
	if len(b) > 80 {
		return string(b[:80]) + "..."
	}
	return string(b)
}

// ---------------------------------------------------------------------------
// deep equality for round trips

// Equal compares two values: nil and empty slices/maps are equal, times are
// compared with time.Equal, unexported and json:"-" fields are ignored.
func Equal(a, b reflect.Value, path string) string {
	if a.Type() != b.Type() {
		return fmt.Sprintf("%s: types differ: %s vs %s", path, a.Type(), b.Type())
	}
	t := a.Type()
	if IsTimeLike(t) {
		ta := a.Convert(timeType).Interface().(time.Time)
		tb := b.Convert(timeType).Interface().(time.Time)
		if !ta.Equal(tb) {
			return fmt.Sprintf("%s: time %s != %s", path, ta, tb)
		}
		return ""
	}
	switch t.Kind() {
	case reflect.Struct:
		for i := 0; i < t.NumField(); i++ {
			f := t.Field(i)
			if !f.IsExported() && !f.Anonymous {
				continue
			}
			if f.Tag.Get("json") == "-" {
				continue
			}
			if !f.IsExported() && f.Anonymous && f.Type.Kind() != reflect.Struct {
				continue
			}
			if d := Equal(a.Field(i), b.Field(i), path+"."+f.Name); d != "" {
				return d
			}
		}
		return ""
	case reflect.Slice:
		if a.Len() != b.Len() {
			return fmt.Sprintf("%s: slice length %d != %d", path, a.Len(), b.Len())
		}
		for i := 0; i < a.Len(); i++ {
			if d := Equal(a.Index(i), b.Index(i), fmt.Sprintf("%s[%d]", path, i)); d != "" {
				return d
			}
		}
		return ""
	case reflect.Array:
		for i := 0; i < a.Len(); i++ {
			if d := Equal(a.Index(i), b.Index(i), fmt.Sprintf("%s[%d]", path, i)); d != "" {
				return d
			}
		}
		return ""
	case reflect.Map:
		if a.Len() != b.Len() {
			return fmt.Sprintf("%s: map size %d != %d", path, a.Len(), b.Len())
		}
		it := a.MapRange()
		for it.Next() {
			bv := b.MapIndex(it.Key())
			if !bv.IsValid() {
				return fmt.Sprintf("%s: key %v missing after round trip", path, it.Key())
			}
			if d := Equal(it.Value(), bv, fmt.Sprintf("%s[%v]", path, it.Key())); d != "" {
				return d
			}
		}
		return ""
	case reflect.Pointer:
		if a.IsNil() != b.IsNil() {
			return fmt.Sprintf("%s: nil-ness differs", path)
		}
		if a.IsNil() {
			return ""
		}
		return Equal(a.Elem(), b.Elem(), path+"*")
	case reflect.Interface:
		if a.IsNil() != b.IsNil() {
			return fmt.Sprintf("%s: interface nil-ness differs (%v vs %v)", path, a, b)
		}
		if a.IsNil() {
			return ""
		}
		if a.Elem().Type() != b.Elem().Type() {
			return fmt.Sprintf("%s: dynamic types differ: %s vs %s", path, a.Elem().Type(), b.Elem().Type())
		}
		return Equal(a.Elem(), b.Elem(), path+"("+a.Elem().Type().Name()+")")
	case reflect.Float32, reflect.Float64:
		if a.Float() != b.Float() {
			return fmt.Sprintf("%s: %v != %v", path, a.Float(), b.Float())
		}
		return ""
	default:
		if !reflect.DeepEqual(a.Interface(), b.Interface()) {
			return fmt.Sprintf("%s: %v != %v", path, a.Interface(), b.Interface())
		}
		return ""
	}
}
