package synth

import (
	"fmt"
	"math/rand"
	"strings"
)

// ---------------------------------------------------------------------------
// truth table of a model file (what the synthesiser meant to declare)

type SQLColumn struct {
	Field    string   `json:"field"`
	GoType   string   `json:"go_type"`
	Kind     string   `json:"kind"`     // column kind id (histogram)
	SQLType  string   `json:"sql_type"` // normalised expected SQL type ("serial" for the id)
	NotNull  bool     `json:"not_null"`
	Primary  bool     `json:"primary"`
	Check    string   `json:"check"` // "" | enum | array_length | json
	EnumVals []string `json:"enum_vals,omitempty"`
	ArrayLen int      `json:"array_len,omitempty"`
	Guard    string   `json:"guard,omitempty"` // expected SQL literal of the guard value
	FK       *SQLFK   `json:"fk,omitempty"`
	// Domain drives the value builder of C05
	Domain string `json:"domain"`
	Unique bool   `json:"unique,omitempty"` // single-column UNIQUE comment
	// FirstTwo: a CHECK directive restricts the column to the first two exported constants of its enum
	FirstTwo bool `json:"first_two,omitempty"`
}

type SQLFK struct {
	Target    string `json:"target"` // Go struct name
	TargetSQL string `json:"target_sql"`
	OnDelete  string `json:"on_delete"`
	Nullable  bool   `json:"nullable"`
	KeyType   string `json:"key_type"` // Go type of the key (wrapped type for nullable wrappers)
	ByTag     bool   `json:"by_tag"`
	Exists    bool   `json:"exists"` // the target table is declared in the file
}

type SQLDirective struct {
	Raw      string `json:"raw"`      // comment content after "gomacro:SQL "
	Expected string `json:"expected"` // expected statement in the constraint section ("" = must not appear)
	Kind     string `json:"kind"`
}

type SQLQuery struct {
	Raw      string   `json:"raw"`
	Func     string   `json:"func"`
	Expected string   `json:"expected"` // expected SQL text in the Go function
	ArgNames []string `json:"arg_names"`
	ArgTypes []string `json:"arg_types"`
	Fields   []string `json:"fields"` // compared fields, per argument
	Execable bool     `json:"execable"`
}

type SQLTable struct {
	Struct      string         `json:"struct"`
	SQLName     string         `json:"sql_name"`
	Primary     string         `json:"primary"` // Go field name of the id, "" for link tables
	PrimaryType string         `json:"primary_type"`
	Columns     []SQLColumn    `json:"columns"`
	Uniques     [][]string     `json:"uniques,omitempty"`     // ADD UNIQUE(...) comments
	PKs         [][]string     `json:"pks,omitempty"`         // ADD PRIMARY KEY(...) comments
	SelectKeys  [][]string     `json:"select_keys,omitempty"` // _SELECT KEY(...)
	Directives  []SQLDirective `json:"directives,omitempty"`
	Queries     []SQLQuery     `json:"queries,omitempty"`
	DeclStyle   string         `json:"decl_style"`
	CrudOK      bool           `json:"crud_ok"` // no feature known to make sqlcrud refuse
}

type SQLTruth struct {
	Tables     []SQLTable        `json:"tables"`
	Composites map[string]string `json:"composites"` // local composite name -> expected field list "a integer, b smallint"
	PkgName    string            `json:"pkg_name"`
	Excluded   []string          `json:"excluded,omitempty"` // set by C05: tables its history does not drive
}

// SnakePlural is the reference table naming convention (snake case + "s") for
// CamelCase names made of capitalised words and trailing digits.
func SnakePlural(name string) string {
	var sb strings.Builder
	for i, r := range name {
		if i > 0 && r >= 'A' && r <= 'Z' {
			sb.WriteByte('_')
		}
		sb.WriteRune(r)
	}
	return strings.ToLower(sb.String()) + "s"
}

// ---------------------------------------------------------------------------

type sqlGen struct {
	progIdx int
	r      *rand.Rand
	p      *Program
	root   *Pkg
	sub    *Pkg
	names  map[string]bool
	truth  *SQLTruth
	tables []*sqlTable

	intEnum, strEnum, smallEnum *Decl
	usedDashComma               bool
	octet *Decl
	aliasFK bool
	extInPayload                bool
	otherFileID                 *Decl
	otherFileTable              string
	extEnum                     *Decl
	extEnumVals                 []string
	intEnumVals, strEnumVals    []string
	payloads                    []*Decl
	dateType                    *Decl
	tableHint                   string
	usedAttrs                   map[int]bool
	// allNamedIDs: every primary key has a named ID type and link tables use sql.NullInt64
	// keys: no plain int64 id anywhere in the file
	allNamedIDs bool
	sharedJSON  bool
	shared      *Decl
}

func (g *sqlGen) sharedPayload() *Decl {
	if g.shared == nil {
		g.shared = g.addDecl(&Decl{Name: g.fresh("SharedProps"), Kind: DNamed, Under: Map(Basic("string"), Basic("string"))}, "models.go")
	}
	return g.shared
}

type sqlTable struct {
	accented string // name of a column holding a non-ASCII letter ("" = none)
	decl     *Decl
	truth    *SQLTable
	idT      *Decl // named ID type, nil when the id is a plain int64
}

var sqlTableStems = []string{"Item", "Order", "Client", "Invoice", "Ticket", "Parcel", "Wagon", "Garden", "Planet", "Route", "Sensor", "Ledger", "Recipe", "Module", "Harbor", "Island", "Tunnel", "Valley", "Basket", "Candle", "Account", "Project", "Booking", "Message"}

func (g *sqlGen) fresh(base string) string {
	name := base
	for i := 2; g.names[strings.ToLower(name)]; i++ {
		name = fmt.Sprintf("%s%d", base, i)
	}
	g.names[strings.ToLower(name)] = true
	return name
}

func (g *sqlGen) pr(x float64) bool { return g.r.Float64() < x }

func (g *sqlGen) addDecl(d *Decl, file string) *Decl {
	d.Pkg = g.root
	d.File = file
	g.root.Decls = append(g.root.Decls, d)
	return d
}

// NewSQLProg builds model file number idx.
func NewSQLProg(idx int, r *rand.Rand) *Program {
	id := fmt.Sprintf("s%04d", idx)
	root := &Pkg{Name: "pk" + id, Path: ModulePath + "/" + id, Dir: id}
	p := &Program{ID: id, Family: "sqlprog", Root: root, Meta: map[string]any{}}
	p.Sources = []string{id + "/models.go"}
	g := &sqlGen{progIdx: idx, r: r, p: p, root: root, names: map[string]bool{}, truth: &SQLTruth{Composites: map[string]string{}, PkgName: root.Name}, usedAttrs: map[int]bool{}}
	for _, n := range []string{"db", "scanner", "loadjson", "dumpjson"} {
		g.names[n] = true
	}
	if g.pr(0.5) {
		g.sub = &Pkg{Name: "ext", Path: ModulePath + "/" + id + "/ext", Dir: id + "/ext"}
		if g.pr(0.4) {
			g.sub.Name = root.Name // an imported package called like the analysed one (another import path)
			p.Feature("sql:sub-package-named-like-the-root-package")
		}
		p.Subs = append(p.Subs, g.sub)
	}
	g.makeSupport()
	g.allNamedIDs = g.pr(0.25)
	g.sharedJSON = g.pr(0.6)
	if g.allNamedIDs {
		p.Feature("sql:all-named-ids-with-nullable-link-keys")
	}
	nPrimary := 2 + g.r.Intn(3)
	for i := 0; i < nPrimary; i++ {
		g.makePrimaryTable(i)
	}
	nLink := 1 + g.r.Intn(2)
	for i := 0; i < nLink; i++ {
		g.makeLinkTable(i)
	}
	g.addDirectives()
	if g.pr(0.25) && len(g.tables) > 0 {
		t := g.tables[g.r.Intn(len(g.tables))]
		g.addDecl(&Decl{Name: g.fresh(t.decl.Name + "Alias"), Kind: DAlias, Under: Ref(t.decl)}, "models.go")
		p.Feature("sql:alias-of-a-table-struct")
	}
	for _, t := range g.tables {
		g.truth.Tables = append(g.truth.Tables, *t.truth)
	}
	p.Meta["sql"] = g.truth
	p.CollectStyles()
	return p
}

// ---------------------------------------------------------------------------
// support types

func (g *sqlGen) makeSupport() {
	// enums (declared in the analysed file: named non-struct types are allowed there)
	g.intEnum = g.addDecl(&Decl{Name: g.fresh("Level"), Kind: DEnum, Under: Basic(g.pick("int", "int", "uint", "int64"))}, "models.go")
	n := 2 + g.r.Intn(3)
	blk := &ConstBlock{Grouped: true}
	for i := 0; i < n; i++ {
		c := &Const{Names: []string{g.fresh(fmt.Sprintf("%s%c", g.intEnum.Name, 'A'+i))}}
		if i == 0 {
			c.Type, c.Value = true, "iota"
		}
		blk.Specs = append(blk.Specs, c)
		g.intEnumVals = append(g.intEnumVals, fmt.Sprint(i))
	}
	if g.pr(0.4) { // an unexported member: part of the CHECK tuple as well
		blk.Specs = append(blk.Specs, &Const{Names: []string{g.fresh("hidden" + g.intEnum.Name)}})
		g.intEnumVals = append(g.intEnumVals, fmt.Sprint(n))
		g.p.Feature("sql:enum-with-unexported-member")
	}
	g.intEnum.Blocks = []*ConstBlock{blk}

	g.smallEnum = g.addDecl(&Decl{Name: g.fresh("Grade"), Kind: DEnum, Under: Basic(g.pick("uint8", "int16"))}, "models.go")
	g.smallEnum.Blocks = []*ConstBlock{{Grouped: true, Specs: []*Const{
		{Names: []string{g.fresh(g.smallEnum.Name + "Low")}, Type: true, Value: "1"},
		{Names: []string{g.fresh(g.smallEnum.Name + "High")}, Type: true, Value: "3"},
	}}}

	g.strEnum = g.addDecl(&Decl{Name: g.fresh("Mode"), Kind: DEnum, Under: Basic("string")}, "models.go")
	sblk := &ConstBlock{Grouped: true}
	strVals := []string{"draft", "live", "gone"}
	if g.pr(0.7) {
		// values spelled like table structs of the file (whole words for the table name replacer)
		strVals = []string{sqlTableStems[g.r.Intn(6)], "live", sqlTableStems[6+g.r.Intn(6)]}
		g.tableHint = strVals[0] // the first table takes exactly this name
		g.p.Feature("sql:string-enum-value-like-table-name")
	}
	if g.pr(0.3) {
		// longer than the 72 characters go/constant prints in its short form
		strVals[1] = "https://example.org/scopes/" + strings.Repeat("long-segment/", 5) + "live"
		g.p.Feature("sql:string-enum-value-longer-than-72-characters")
	}
	for i, v := range strVals[:2+g.r.Intn(2)] {
		sblk.Specs = append(sblk.Specs, &Const{Names: []string{g.fresh(fmt.Sprintf("%s%c", g.strEnum.Name, 'X'+i))}, Type: true, Value: fmt.Sprintf("%q", v)})
		g.strEnumVals = append(g.strEnumVals, "'"+v+"'")
	}
	g.strEnum.Blocks = []*ConstBlock{sblk}
}

func (g *sqlGen) pick(xs ...string) string { return xs[g.r.Intn(len(xs))] }

// ---------------------------------------------------------------------------
// column kinds

type colSpec struct {
	field *Field
	col   SQLColumn
}

func basicSQL(b string) string {
	switch b {
	case "bool":
		return "boolean"
	case "int16", "uint8":
		return "smallint"
	case "float64", "float32":
		return "real"
	case "string":
		return "text"
	}
	return "integer"
}

func basicDomain(b string) string {
	switch b {
	case "bool":
		return "bool"
	case "int16":
		return "int16"
	case "uint8":
		return "uint8"
	case "int8":
		return "int8"
	case "uint16":
		return "uint16"
	case "float64", "float32":
		return "float32"
	case "string":
		return "text"
	case "uint", "uint32", "uint64":
		return "uint31"
	}
	return "int32"
}

// column returns a random column of a random kind. crudOK is false when the
// kind is known to be refused by the CRUD generator (kept for the DDL checks).
func (g *sqlGen) column(name string, tableIdx int) (cs colSpec, crudOK bool) {
	crudOK = true
	f := &Field{Name: name}
	c := SQLColumn{Field: name, NotNull: true}
	switch k := g.r.Intn(24); k {
	case 0, 1, 2:
		b := g.pick("bool", "int", "int64", "int32", "int16", "uint8", "float64", "string", "string", "int", "uint16", "float32", "uint32")
		f.Type = Basic(b)
		c.Kind, c.SQLType, c.Domain = "basic:"+b, basicSQL(b), basicDomain(b)
	case 3:
		f.Type = Std("time.Time")
		c.Kind, c.SQLType, c.Domain = "time", "timestamp (0) with time zone", "time"
	case 4: // named time, local
		d := g.addDecl(&Decl{Name: g.fresh("Stamp"), Kind: DNamed, Under: Std("time.Time"), TimeHelpers: true}, "models.go")
		f.Type = Ref(d)
		c.Kind, c.SQLType, c.Domain = "named-time", "timestamp (0) with time zone", "time"
	case 5: // named date, local (at most one per file: the generated Scan calls NewDateFrom)
		if g.dateType == nil {
			g.dateType = g.addDecl(&Decl{Name: g.fresh("BirthDate"), Kind: DNamed, Under: Std("time.Time"), TimeHelpers: true, IsDate: true, SQLHelpers: true}, "models.go")
		}
		f.Type = Ref(g.dateType)
		c.Kind, c.SQLType, c.Domain = "named-date", "date", "date"
	case 6:
		f.Type = Slice(Basic("byte"))
		c.Kind, c.SQLType, c.Domain = "bytes", "bytea", "bytes"
		switch g.r.Intn(3) {
		case 1: // the other spelling of the same type
			f.Type = Slice(Basic("uint8"))
			c.Kind = "bytes:uint8-spelling"
		case 2:
			d := g.addDecl(&Decl{Name: g.fresh("Checksum"), Kind: DNamed, Under: Slice(Basic("uint8"))}, "models.go")
			f.Type = Ref(d)
			c.Kind = "bytes:named-uint8-slice"
		}
	case 7, 8: // named slice of a basic
		b := g.pick("string", "int64", "bool", "float64", "int32", "string", "int64")
		if g.pr(0.12) {
			b = g.pick("int", "int16") // element types the pq converters do not match
			g.p.Feature("sql:named-slice-unmatched-elem:" + b)
		}
		d := g.addDecl(&Decl{Name: g.fresh(strings.Title(b) + "List"), Kind: DNamed, Under: Slice(Basic(b))}, "models.go")
		f.Type = Ref(d)
		c.Kind, c.SQLType, c.NotNull, c.Domain = "named-slice:"+b, basicSQL(b)+"[]", false, "array:"+basicDomain(b)
	case 9: // named fixed array
		b := g.pick("bool", "int32", "int64", "string", "float64")
		n := 2 + g.r.Intn(4)
		d := g.addDecl(&Decl{Name: g.fresh(strings.Title(b) + "Fixed"), Kind: DNamed, Under: Array(n, Basic(b))}, "models.go")
		f.Type = Ref(d)
		c.Kind, c.SQLType, c.Check, c.ArrayLen, c.Domain = "named-array:"+b, basicSQL(b)+"[]", "array_length", n, "array:"+basicDomain(b)
	case 10: // named slice of an integer enum
		e, vals := g.intEnum, g.intEnumVals
		_ = vals
		d := g.addDecl(&Decl{Name: g.fresh(e.Name + "s"), Kind: DNamed, Under: Slice(Ref(e))}, "models.go")
		f.Type = Ref(d)
		c.Kind, c.SQLType, c.NotNull, c.Domain = "named-slice:int-enum", basicSQL(e.Under.Basic)+"[]", false, "array:enum"
	case 11, 12: // enums
		switch g.r.Intn(3) {
		case 0:
			f.Type = Ref(g.intEnum)
			c.Kind, c.SQLType, c.EnumVals = "enum:int", basicSQL(g.intEnum.Under.Basic), g.intEnumVals
		case 1:
			f.Type = Ref(g.smallEnum)
			c.Kind, c.SQLType, c.EnumVals = "enum:small", basicSQL(g.smallEnum.Under.Basic), []string{"1", "3"}
		default:
			f.Type = Ref(g.strEnum)
			c.Kind, c.SQLType, c.EnumVals = "enum:string", "text", g.strEnumVals
		}
		c.Check, c.Domain = "enum", "enum"
	case 13: // composite: all-integer struct, local or from the sub-package
		local := g.sub == nil || g.pr(0.8)
		name := g.fresh("Coord")
		d := &Decl{Name: name, Kind: DStruct}
		fa, fb := g.pick("int", "int64", "uint8", "int16"), g.pick("int", "uint8", "int32")
		d.Fields = []*Field{{Name: "A", Type: Basic(fa)}, {Name: "B", Type: Basic(fb)}}
		fieldsSQL := fmt.Sprintf("A %s, B %s", basicSQL(fa), basicSQL(fb))
		if local && g.pr(0.5) {
			d.Fields = append(d.Fields, &Field{Name: "C", Type: Ref(g.intEnum)})
			fieldsSQL += ", C " + basicSQL(g.intEnum.Under.Basic)
		}
		nonJSON, forced := false, false
		if local {
			nonJSON = g.pr(0.3)
			forced = !nonJSON && g.progIdx%3 == 0 // every third program has one whatever the draws (which are left untouched)
		}
		if nonJSON || forced {
			// a field encoding/json does not see is still an attribute of the composite type
			if (forced && g.progIdx%2 == 0) || (!forced && g.pr(0.5)) {
				d.Fields = append(d.Fields, &Field{Name: "hidden", Type: Basic("int")})
				fieldsSQL += ", hidden integer"
			} else {
				d.Fields = append(d.Fields, &Field{Name: "Skipped", Type: Basic("int16"), Tag: `gomacro:"ignore"`})
				fieldsSQL += ", Skipped smallint"
			}
			g.p.Feature("sql:composite-with-non-json-field")
		}
		if local {
			g.addDecl(d, "other.go")
			g.truth.Composites[name] = fieldsSQL
			c.Kind = "composite:local"
		} else {
			d.Pkg, d.File = g.sub, "types.go"
			g.sub.Decls = append(g.sub.Decls, d)
			c.Kind = "composite:extern"
			crudOK = true // Valuer assumed to exist elsewhere: the generated code still compiles? (it calls Scan on it) -> refused below
		}
		f.Type = Ref(d)
		c.SQLType, c.Domain = strings.ToLower(name), "composite"
		if !local {
			crudOK = false // no Scan/Value on the foreign type: rows cannot be scanned
		}
	case 14, 15: // nullable wrappers from database/sql
		w := g.pick("sql.NullInt64", "sql.NullString", "sql.NullBool", "sql.NullFloat64", "sql.NullTime", "sql.NullInt64")
		f.Type = Std(w)
		c.NotNull = false
		switch w {
		case "sql.NullInt64":
			c.SQLType, c.Domain = "integer", "null:int32"
		case "sql.NullString":
			c.SQLType, c.Domain = "text", "null:text"
		case "sql.NullBool":
			c.SQLType, c.Domain = "boolean", "null:bool"
		case "sql.NullFloat64":
			c.SQLType, c.Domain = "real", "null:float32"
		default:
			c.SQLType, c.Domain = "timestamp (0) with time zone", "null:time"
		}
		c.Kind = "nullable:" + w
	case 21: // enum declared in the sub-package (else a basic)
		if g.sub == nil {
			f.Type = Basic("int")
			c.Kind, c.SQLType, c.Domain = "basic:int", basicSQL("int"), basicDomain("int")
			break
		}
		g.externEnum()
		f.Type = Ref(g.extEnum)
		c.Kind, c.SQLType, c.EnumVals = "enum:extern", basicSQL(g.extEnum.Under.Basic), g.extEnumVals
		c.Check, c.Domain = "enum", "enum"
		g.p.Feature("sql:enum-column-from-sub-package")
	case 20: // user-defined NullXXX-style wrapper {Valid bool; X T} over a basic or over a local named time / date
		var inner *TExpr
		var innerGo, val, fromSrc, srcT string
		stem := "Opt"
		switch g.r.Intn(4) {
		case 0:
			inner, innerGo, srcT, fromSrc, val = Basic("int64"), "int64", "int64", "v", "s.X"
			c.SQLType, c.Domain = "integer", "null:int32"
			stem = "OptInt"
		case 1:
			inner, innerGo, srcT, fromSrc, val = Basic("string"), "string", "string", "v", "s.X"
			c.SQLType, c.Domain = "text", "null:text"
			stem = "OptText"
		case 2:
			d := g.addDecl(&Decl{Name: g.fresh("Moment"), Kind: DNamed, Under: Std("time.Time"), TimeHelpers: true}, "models.go")
			inner, innerGo, srcT, fromSrc, val = Ref(d), d.Name, "time.Time", d.Name+"(v)", "time.Time(s.X)"
			c.SQLType, c.Domain = "timestamp (0) with time zone", "null:time"
			stem = "OptMoment"
		default:
			if g.dateType == nil {
				g.dateType = g.addDecl(&Decl{Name: g.fresh("BirthDate"), Kind: DNamed, Under: Std("time.Time"), TimeHelpers: true, IsDate: true, SQLHelpers: true}, "models.go")
			}
			d := g.dateType
			inner, innerGo, srcT, fromSrc, val = Ref(d), d.Name, "time.Time", d.Name+"(v)", "time.Time(s.X)"
			c.SQLType, c.Domain = "date", "null:date"
			stem = "OptDay"
		}
		_ = innerGo
		fields := []*Field{{Name: "Valid", Type: Basic("bool")}, {Name: "X", Type: inner}}
		if g.pr(0.5) {
			fields[0], fields[1] = fields[1], fields[0] // both field orders are accepted
		}
		w := g.addDecl(&Decl{Name: g.fresh(stem), Kind: DStruct, Fields: fields}, "other.go")
		imports := []string{"database/sql/driver", "fmt"}
		if srcT == "time.Time" {
			imports = append(imports, "time")
		}
		if stem != "OptInt" { // sqlcrud itself emits Scan/Value for local {Valid, int64} wrappers
			g.root.AddExtra("other.go", fmt.Sprintf("func (s *%[1]s) Scan(src any) error {\n\tif src == nil {\n\t\t*s = %[1]s{}\n\t\treturn nil\n\t}\n\tv, ok := src.(%[2]s)\n\tif !ok {\n\t\treturn fmt.Errorf(\"%[1]s: unexpected %%T\", src)\n\t}\n\t*s = %[1]s{Valid: true, X: %[3]s}\n\treturn nil\n}\n\nfunc (s %[1]s) Value() (driver.Value, error) {\n\tif !s.Valid {\n\t\treturn nil, nil\n\t}\n\treturn %[4]s, nil\n}", w.Name, srcT, fromSrc, val), imports...)
		}
		f.Type = Ref(w)
		c.NotNull = false
		c.Kind = "nullable:user:" + stem
		g.p.Feature("sql:user-defined-null-wrapper:" + stem)
	case 16, 17, 18, 19: // jsonb payloads
		d := g.payload()
		if len(g.payloads) > 0 && g.pr(0.35) {
			// the same field name with the same payload type in several tables
			d = g.payloads[0]
			if !g.usedAttrs[tableIdx] {
				g.usedAttrs[tableIdx] = true
				f.Name, c.Field = "Properties", "Properties"
				g.p.Feature("sql:same-jsonb-column-in-several-tables")
			}
		}
		f.Type = Ref(d)
		c.Kind, c.SQLType, c.Check, c.Domain = "jsonb:"+d.Tags2(), "jsonb", "json", "json"
	default:
		b := g.pick("int", "string", "bool", "int64")
		f.Type = Basic(b)
		c.Kind, c.SQLType, c.Domain = "basic:"+b, basicSQL(b), basicDomain(b)
	}
	c.GoType = f.Type.Go(g.root, map[string]bool{})
	if g.pr(0.15) && c.Check != "json" {
		f.Tag = fmt.Sprintf(`json:"%s"`, strings.ToLower(name))
	} else if g.pr(0.12) {
		// a tag of another library: columns are named after the Go field everywhere
		f.Tag = fmt.Sprintf(`sql:"%s_col" db:"%s_db"`, strings.ToLower(name), strings.ToLower(name))
		g.p.Feature("sql:field-with-foreign-sql-tag")
	}
	return colSpec{field: f, col: c}, crudOK
}

// externEnum declares (once) an enum in the sub-package.
func (g *sqlGen) externEnum() *Decl {
	if g.extEnum == nil {
		under := g.pick("int", "string")
		g.extEnum = &Decl{Name: "ExtTier", Pkg: g.sub, File: "types.go", Kind: DEnum, Under: Basic(under)}
		vals := []string{"1", "4", "6"}
		if under == "string" {
			vals = []string{`"bronze"`, `"gold"`, `"silver"`}
		}
		blk := &ConstBlock{Grouped: true}
		for i, v := range vals {
			blk.Specs = append(blk.Specs, &Const{Names: []string{fmt.Sprintf("ExtTier%c", 'A'+i)}, Type: true, Value: v})
		}
		g.extEnum.Blocks = []*ConstBlock{blk}
		g.sub.Decls = append(g.sub.Decls, g.extEnum)
		g.extEnumVals = vals
		if under == "string" {
			g.extEnumVals = []string{"'bronze'", "'gold'", "'silver'"}
		}
		g.p.Feature("sql:enum-declared-in-the-sub-package")
	}
	return g.extEnum
}

// Tags2 returns the style tags of a declaration joined (helper for kinds).
func (d *Decl) Tags2() string {
	var ts []string
	for t := range d.Tags {
		ts = append(ts, t)
	}
	if len(ts) == 0 {
		return "plain"
	}
	// deterministic
	for i := range ts {
		for j := i + 1; j < len(ts); j++ {
			if ts[j] < ts[i] {
				ts[i], ts[j] = ts[j], ts[i]
			}
		}
	}
	return strings.Join(ts, "+")
}

// payload declares a jsonb column type (other.go: helper structs must not be table structs).
func (g *sqlGen) payload() *Decl {
	if len(g.payloads) > 0 && g.pr(0.3) {
		return g.payloads[g.r.Intn(len(g.payloads))]
	}
	leaf := func() *TExpr {
		switch g.r.Intn(9) {
		case 0:
			return Basic("int")
		case 1:
			return Basic("string")
		case 2:
			return Basic("bool")
		case 3:
			return Basic("float64")
		case 4:
			return Ref(g.intEnum)
		case 5:
			return Ref(g.strEnum)
		case 6:
			if g.sub != nil && g.pr(0.5) {
				return Ref(g.externEnum()) // an enum of the imported package inside a JSON document
			}
			return Std("time.Time")
		case 7:
			return Array(2+g.r.Intn(2), Basic(g.pick("int", "bool")))
		default:
			return Slice(Basic(g.pick("string", "int")))
		}
	}
	mkStruct := func(stem string) *Decl {
		d := g.addDecl(&Decl{Name: g.fresh(stem), Kind: DStruct}, "other.go")
		d.Fields = append(d.Fields, &Field{Name: "Note", Type: Basic("string")}) // never an all-integer composite
		if g.sub != nil && g.sub.Name == g.root.Name && !g.extInPayload {
			g.extInPayload = true
			d.Fields = append(d.Fields, &Field{Name: "Tier", Type: Ref(g.externEnum())}, &Field{Name: "Tiers", Type: Slice(Ref(g.externEnum()))})
		}
		if !g.usedDashComma && g.pr(0.3) {
			g.usedDashComma = true
			d.Fields = append(d.Fields, &Field{Name: "Minus", Type: Basic("int"), Tag: `json:"-,"`}) // the key is "-"
			g.p.Feature("sql:jsonb-field-with-key-dash")
		}
		if drawn := g.pr(0.2); drawn || (g.progIdx%3 == 1 && g.octet == nil) {
			// encoding/json writes a byte slice as a base64 string (null when nil), not as an array of numbers
			el := "named" // every third program has one, whatever the draws
			if drawn {
				el = g.pick("byte", "uint8", "named")
			}
			switch el {
			case "named":
				// a slice of a NAMED uint8 is a base64 string for encoding/json too (the rule looks at the element's kind)
				if g.octet == nil {
					g.octet = g.addDecl(&Decl{Name: g.fresh("Octet"), Kind: DNamed, Under: Basic("uint8")}, "other.go")
				}
				d.Fields = append(d.Fields, &Field{Name: "Raw", Type: Slice(Ref(g.octet))})
				g.p.Feature("sql:jsonb-field-of-named-uint8-slice")
			default:
				d.Fields = append(d.Fields, &Field{Name: "Raw", Type: Slice(Basic(el))})
			}
			g.p.Feature("sql:jsonb-field-of-bytes")
		}
		for i := 0; i < 1+g.r.Intn(4); i++ {
			f := &Field{Name: fmt.Sprintf("P%d", i), Type: leaf()}
			if g.pr(0.3) {
				f.Tag = fmt.Sprintf(`json:"p_%d"`, i)
			}
			d.Fields = append(d.Fields, f)
		}
		return d
	}
	var d *Decl
	switch g.r.Intn(9) {
	case 8: // a named container defined in terms of itself (no struct on the cycle)
		d = g.addDecl(&Decl{Name: g.fresh(g.pick("Nesting", "Outline")), Kind: DNamed}, "models.go").Tag("self-recursive-container")
		switch g.r.Intn(3) {
		case 0:
			d.Under = Slice(Ref(d))
		case 1:
			d.Under = Map(Basic("string"), Ref(d))
		default: // mutual: type A []B ; type B map[string]A
			b := g.addDecl(&Decl{Name: g.fresh(d.Name + "Level"), Kind: DNamed, Under: Map(Basic("string"), Ref(d))}, "models.go")
			d.Under = Slice(Ref(b))
		}
		if g.pr(0.5) {
			// a named container OF the recursive one: the cycle does not pass through the outer type
			inner := d
			d = g.addDecl(&Decl{Name: g.fresh(inner.Name + "Forest"), Kind: DNamed, Under: Map(Basic("string"), Slice(Ref(inner)))}, "models.go").Tag("container-of-self-recursive-container")
		}
	case 0, 1:
		d = mkStruct("Payload").Tag("struct")
	case 2: // named map
		d = g.addDecl(&Decl{Name: g.fresh("Props"), Kind: DNamed, Under: Map(Basic(g.pick("string", "int")), leaf())}, "models.go").Tag("map")
	case 3: // named slice of structs
		s := mkStruct("Entry")
		d = g.addDecl(&Decl{Name: g.fresh(s.Name + "List"), Kind: DNamed, Under: Slice(Ref(s))}, "models.go").Tag("slice-of-struct")
	case 4: // named slice of unions
		u := g.union()
		d = g.addDecl(&Decl{Name: g.fresh(u.Name + "List"), Kind: DNamed, Under: Slice(Ref(u))}, "models.go").Tag("slice-of-union")
	case 5: // struct with a nested union and a nested struct
		u := g.union()
		inner := mkStruct("Inner")
		d = mkStruct("Deep").Tag("struct-with-union")
		d.Fields = append(d.Fields, &Field{Name: "Choice", Type: Ref(u)}, &Field{Name: "In", Type: Ref(inner)}, &Field{Name: "Many", Type: Slice(Ref(inner))})
	case 6: // two unions sharing a member, one nested inside a member of the other
		u1 := g.union()
		u2 := g.addDecl(&Decl{Name: g.fresh("Deco" + u1.Name), Kind: DUnion}, "other.go") // a different 2-letter prefix (known finding of C01)
		u2.Marker = "is" + u2.Name
		var shared *Decl
		for _, m := range g.root.Decls {
			if m.Kind == DStruct && len(m.Impls) == 1 && m.Impls[0].Union == u1 {
				shared = m
				break
			}
		}
		own := g.addDecl(&Decl{Name: g.fresh(u2.Name + "Own"), Kind: DStruct, Fields: []*Field{{Name: "S", Type: Basic("string")}}}, "other.go")
		own.Impls = []*Impl{{Union: u2}}
		if shared != nil {
			shared.Impls = append(shared.Impls, &Impl{Union: u2})
		}
		grp := g.addDecl(&Decl{Name: g.fresh(u1.Name + "Group"), Kind: DStruct, Fields: []*Field{{Name: "Inner", Type: Ref(u2)}, {Name: "Label", Type: Basic("string")}}}, "other.go")
		grp.Impls = []*Impl{{Union: u1}}
		d = mkStruct("Scene").Tag("nested-unions-sharing-member")
		d.Fields = append(d.Fields, &Field{Name: "Root", Type: Ref(u1)})
	default: // struct with map of structs and fixed array of enums
		inner := mkStruct("Cell")
		d = mkStruct("Grid").Tag("struct-nested")
		d.Fields = append(d.Fields, &Field{Name: "Cells", Type: Map(Basic("string"), Ref(inner))}, &Field{Name: "Marks", Type: Array(3, Ref(g.intEnum))})
	}
	g.payloads = append(g.payloads, d)
	g.p.Feature("sql:jsonb:" + d.Tags2())
	return d
}

var sqlUnions []*Decl

func (g *sqlGen) union() *Decl {
	un := g.addDecl(&Decl{Name: g.fresh(g.pick("Shape", "Event", "Action", "Figure")), Kind: DUnion}, "other.go")
	un.Marker = "is" + un.Name
	for i := 0; i < 2+g.r.Intn(2); i++ {
		m := g.addDecl(&Decl{Name: g.fresh(un.Name + fmt.Sprintf("M%d", i)), Kind: DStruct}, "other.go")
		m.Fields = []*Field{{Name: "V", Type: Basic(g.pick("int", "string", "float64"))}}
		if g.pr(0.4) {
			m.Fields = append(m.Fields, &Field{Name: "W", Type: Slice(Basic("int"))})
		}
		m.Impls = []*Impl{{Union: un}}
	}
	if g.pr(0.3) { // a non-struct member
		m := g.addDecl(&Decl{Name: g.fresh(un.Name + "Num"), Kind: DNamed, Under: Basic("int")}, "other.go")
		m.Impls = []*Impl{{Union: un}}
	}
	if g.pr(0.35) { // a named slice / map member: nil values are written as "Data": null
		under := Slice(Basic(g.pick("int", "string")))
		if g.pr(0.4) {
			under = Map(Basic("string"), Basic("bool"))
		}
		m := g.addDecl(&Decl{Name: g.fresh(un.Name + "Seq"), Kind: DNamed, Under: under}, "other.go")
		m.Impls = []*Impl{{Union: un}}
		g.p.Feature("sql:union-member-nilable")
	}
	return un
}

// ---------------------------------------------------------------------------
// tables

func (g *sqlGen) newTable(stem string, isLink bool) *sqlTable {
	name := g.fresh(stem)
	g.names[strings.ToLower(name)+"s"] = true // plural map/slice type generated by sqlcrud
	d := g.addDecl(&Decl{Name: name, Kind: DStruct}, "models.go")
	t := &sqlTable{decl: d, truth: &SQLTable{Struct: name, SQLName: SnakePlural(name), CrudOK: true, DeclStyle: "single"}}
	g.tables = append(g.tables, t)
	return t
}

func (g *sqlGen) makePrimaryTable(i int) {
	stem := sqlTableStems[g.r.Intn(len(sqlTableStems))]
	if g.pr(0.3) {
		stem += g.pick("Tag", "Entry", "Log", "Part") // multi-word names: snake case with underscore
	}
	if i == 0 && g.tableHint != "" {
		stem = g.tableHint
	}
	if lower := g.pr(0.15); i > 0 && (lower || i == 1 && g.progIdx%4 == 2) {
		stem = strings.ToLower(stem[:1]) + stem[1:] // a table struct that is not exported (every fourth program has one)
		g.p.Feature("sql:unexported-table-struct")
	}
	t := g.newTable(stem, false)
	d := t.decl
	// id field
	idName := "Id"
	if g.pr(0.2) {
		idName = "ID"
		g.p.Feature("sql:id-spelled-ID")
	}
	idType := Basic("int64")
	t.truth.PrimaryType = "int64"
	if g.pr(0.6) || g.allNamedIDs {
		n := "Id" + d.Name
		if g.pr(0.5) {
			n = d.Name + "ID"
		}
		t.idT = g.addDecl(&Decl{Name: g.fresh(n), Kind: DNamed, Under: Basic("int64")}, "models.go")
		idType = Ref(t.idT)
		t.truth.PrimaryType = t.idT.Name
	}
	var sharedKey *sqlTable
	if !g.allNamedIDs && g.pr(0.25) {
		for _, prev := range g.tables[:len(g.tables)-1] {
			if prev.truth.Primary != "" && prev.idT != nil {
				sharedKey = prev
			}
		}
	}
	if sharedKey != nil {
		// one-to-one table sharing the key of its parent: the id is also a foreign key
		if t.idT != nil {
			t.idT.Name = g.fresh("Unused" + t.idT.Name)
		}
		t.idT = nil
		idType = Ref(sharedKey.idT)
		t.truth.PrimaryType = sharedKey.idT.Name
		t.truth.CrudOK = false // rows need the id of an existing parent: DDL only
		g.p.Feature("sql:id-is-a-foreign-key")
	}
	idField := &Field{Name: idName, Type: idType}
	idCol := SQLColumn{Field: idName, GoType: idType.Go(g.root, map[string]bool{}), Kind: "id", SQLType: "serial", Primary: true, NotNull: true, Domain: "serial"}
	if sharedKey != nil {
		idCol.Kind = "id:fk"
		idCol.FK = &SQLFK{Target: sharedKey.decl.Name, TargetSQL: sharedKey.truth.SQLName, KeyType: sharedKey.idT.Name, Exists: true}
	}
	t.truth.Primary = idName
	var cols []colSpec
	n := 2 + g.r.Intn(6)
	tiny := g.pr(0.15)
	if tiny {
		n = 1 // a table with the id and a single other column
		g.p.Feature("sql:two-column-table")
	}
	for j := 0; j < n; j++ {
		cs, ok := g.column(fmt.Sprintf("%s%d", g.pick("Title", "Count", "Flag", "Data", "Stamp", "Info", "Score", "Extra"), j), i)
		if !ok {
			t.truth.CrudOK = false
		}
		cols = append(cols, cs)
		g.p.Feature("sqlcol:" + strings.SplitN(cs.col.Kind, ":", 2)[0])
	}
	// a column whose name holds a non-ASCII letter (not the first one, and lower-case: PostgreSQL
	// and gomacro fold such a name alike); only used by a select key, never by a custom query
	if !tiny && g.pr(0.2) {
		name := fmt.Sprintf("Prénom%d", n)
		f := &Field{Name: name, Type: Basic("string")}
		cols = append(cols, colSpec{field: f, col: SQLColumn{Field: name, GoType: "string", Kind: "accented:string", SQLType: "text", NotNull: true, Domain: "text"}})
		t.accented = name
		g.p.Feature("sql:column-name-with-non-ascii-letter")
	}
	// the same payload type in two columns of one table, and under the same column name in two tables
	if g.sharedJSON && i < 2 && !tiny {
		d := g.sharedPayload()
		mk := func(name string) colSpec {
			f := &Field{Name: name, Type: Ref(d)}
			return colSpec{field: f, col: SQLColumn{Field: name, GoType: d.Name, Kind: "jsonb:shared", SQLType: "jsonb", NotNull: true, Check: "json", Domain: "json"}}
		}
		cols = append(cols, mk("Attributes"))
		if i == 0 {
			cols = append(cols, mk("Extras"))
		}
		g.p.Feature("sql:same-jsonb-type-in-several-columns-and-tables")
	}
	// foreign keys to earlier primary tables
	for _, prev := range g.tables[:len(g.tables)-1] {
		if prev.truth.Primary == "" || !g.pr(0.5) || tiny {
			continue
		}
		cols = append(cols, g.fkColumn(t, prev, len(cols)))
	}
	// a self-referencing foreign key declared by tag, typed by the table's own ID type
	if t.idT != nil && !tiny && g.pr(0.3) {
		f := &Field{Name: "Parent", Type: Ref(t.idT), Tag: fmt.Sprintf(`gomacro-sql-foreign:"%s" gomacro-sql-on-delete:"CASCADE"`, d.Name)}
		cols = append(cols, colSpec{field: f, col: SQLColumn{Field: "Parent", GoType: t.idT.Name, Kind: "fk:self-by-tag", SQLType: "integer", NotNull: true, Domain: "fk-self",
			FK: &SQLFK{Target: d.Name, TargetSQL: t.truth.SQLName, OnDelete: "CASCADE", KeyType: t.idT.Name, ByTag: true, Exists: true}}})
		g.p.Feature("sql:self-referencing-fk")
		t.truth.CrudOK = false // rows would need an existing parent of the same table: not driven by the history driver
	}
	// a foreign key to a table that is not declared in this file (allowed by the tool)
	if g.pr(0.05) && !tiny {
		f := &Field{Name: "IdOutside", Type: Basic("int64"), Tag: `gomacro-sql-foreign:"Outsider"`}
		cols = append(cols, colSpec{field: f, col: SQLColumn{Field: "IdOutside", GoType: "int64", Kind: "fk:missing-target", SQLType: "integer", NotNull: true, Domain: "int32",
			FK: &SQLFK{Target: "Outsider", TargetSQL: "outsiders", KeyType: "int64", ByTag: true}}})
		g.p.Feature("sql:fk-to-undeclared-table")
		t.truth.CrudOK = false // cannot be exercised against the schema (dangling reference)
	}
	// a foreign key, by ID type, to a table struct declared in ANOTHER file of the package
	if g.pr(0.15) && !tiny {
		if g.otherFileID == nil {
			tn := g.fresh("PublishingHouse")
			g.otherFileTable = tn
			g.otherFileID = g.addDecl(&Decl{Name: g.fresh("Id" + tn), Kind: DNamed, Under: Basic("int64")}, "other.go")
			g.addDecl(&Decl{Name: tn, Kind: DStruct, Fields: []*Field{{Name: "Id", Type: Ref(g.otherFileID)}, {Name: "Label", Type: Basic("string")}}}, "other.go")
		}
		fn := g.otherFileID.Name
		f := &Field{Name: fn, Type: Ref(g.otherFileID)}
		cols = append(cols, colSpec{field: f, col: SQLColumn{Field: fn, GoType: g.otherFileID.Name, Kind: "fk:table-in-other-file", SQLType: "integer", NotNull: true, Domain: "int32",
			FK: &SQLFK{Target: g.otherFileTable, TargetSQL: SnakePlural(g.otherFileTable), KeyType: g.otherFileID.Name}}})
		g.p.Feature("sql:fk-to-table-declared-in-another-file")
		t.truth.CrudOK = false // the target table is not part of the generated schema
	}
	// guard
	if g.pr(0.4) && !tiny {
		enum, lit, member := g.intEnum, g.intEnumVals[0], g.intEnum.Blocks[0].Specs[0].Names[0]
		if g.pr(0.4) {
			enum, lit, member = g.strEnum, g.strEnumVals[0], g.strEnum.Blocks[0].Specs[0].Names[0]
		}
		f := &Field{Name: "guard", Type: Ref(enum), Tag: fmt.Sprintf(`gomacro-sql-guard:"#[%s.%s]"`, enum.Name, member)}
		c := SQLColumn{Field: "guard", GoType: enum.Name, Kind: "guard", SQLType: basicSQL(enum.Under.Basic), NotNull: true, Check: "enum", Guard: lit, Domain: "guard"}
		if enum == g.intEnum {
			c.EnumVals = g.intEnumVals
		} else {
			c.EnumVals = g.strEnumVals
		}
		if g.pr(0.5) {
			cols = append([]colSpec{{field: f, col: c}}, cols...) // guard declared before every other field (and the id)
			g.p.Feature("sql:guard-first")
		} else {
			cols = append(cols, colSpec{field: f, col: c})
		}
		g.p.Feature("sql:guard")
	}
	// position of the id: first or not
	pos := 0
	if (g.pr(0.4) || (len(cols) > 0 && cols[0].col.Guard != "" && g.pr(0.7))) && len(cols) > 0 {
		pos = 1 + g.r.Intn(len(cols))
		g.p.Feature("sql:id-not-first")
	}
	for j := 0; j <= len(cols); j++ {
		if j == pos {
			d.Fields = append(d.Fields, idField)
			t.truth.Columns = append(t.truth.Columns, idCol)
		}
		if j < len(cols) {
			d.Fields = append(d.Fields, cols[j].field)
			t.truth.Columns = append(t.truth.Columns, cols[j].col)
		}
	}
	// an unexported, untagged field is not a column
	if g.pr(0.3) {
		d.Fields = append(d.Fields, &Field{Name: "cache", Type: Basic("int")})
		g.p.Feature("sql:unexported-non-column")
	}
	if g.pr(0.25) {
		d.Fields = append([]*Field{{Name: "dirty", Type: Basic("bool")}, {Name: "origin", Type: Basic("string")}}, d.Fields...)
		g.p.Feature("sql:unexported-non-columns-before-the-id")
	}
}

// fkColumn declares a foreign key from table t to table prev.
func (g *sqlGen) fkColumn(t, prev *sqlTable, idx int) colSpec {
	name := "Id" + prev.decl.Name
	fk := &SQLFK{Target: prev.decl.Name, TargetSQL: prev.truth.SQLName, KeyType: prev.truth.PrimaryType, Exists: true}
	f := &Field{Name: name}
	c := SQLColumn{Field: name, Kind: "fk", SQLType: "integer", NotNull: true, Domain: "fk", FK: fk}
	var tags []string
	switch {
	case g.allNamedIDs && t.truth.Primary == "": // link table of an all-named-ids file: nullable key by tag
		f.Type = Std("sql.NullInt64")
		fk.Nullable, fk.ByTag, fk.KeyType = true, true, "int64"
		c.NotNull, c.Kind, c.Domain = false, "fk:null-tag", "fk-null"
		tags = append(tags, fmt.Sprintf(`gomacro-sql-foreign:"%s"`, prev.decl.Name))
	case g.allNamedIDs && prev.idT != nil: // by ID type only: no int64 key anywhere
		f.Type = Ref(prev.idT)
		c.Kind = "fk:id-type"
	case prev.idT != nil && g.pr(0.6): // by ID type
		f.Type = Ref(prev.idT)
		c.Kind = "fk:id-type"
		if g.progIdx%4 == 2 && !g.aliasFK {
			// the ID type spelled through an ALIAS (type ParentRef = IdParent): still the same type
			g.aliasFK = true
			al := g.addDecl(&Decl{Name: g.fresh(prev.decl.Name + "Ref"), Kind: DAlias, Under: Ref(prev.idT)}, "other.go")
			f.Type = Ref(al)
			g.p.Feature("sql:foreign-key-typed-by-an-alias-of-the-id-type")
		}
	case g.pr(0.35): // nullable, by tag
		f.Type = Std("sql.NullInt64")
		fk.Nullable, fk.ByTag, fk.KeyType = true, true, "int64"
		c.NotNull, c.Kind, c.Domain = false, "fk:null-tag", "fk-null"
		tags = append(tags, fmt.Sprintf(`gomacro-sql-foreign:"%s"`, prev.decl.Name))
	default: // plain int64 by tag
		f.Type = Basic("int64")
		fk.ByTag, fk.KeyType = true, "int64"
		c.Kind = "fk:int64-tag"
		tags = append(tags, fmt.Sprintf(`gomacro-sql-foreign:"%s"`, prev.decl.Name))
	}
	if g.pr(0.5) {
		fk.OnDelete = "CASCADE"
		if fk.Nullable && g.pr(0.5) {
			fk.OnDelete = "SET NULL"
		}
		tags = append(tags, fmt.Sprintf(`gomacro-sql-on-delete:"%s"`, fk.OnDelete))
	}
	if g.pr(0.3) {
		tags = append([]string{fmt.Sprintf(`json:"id_%s"`, strings.ToLower(prev.decl.Name))}, tags...)
	}
	f.Tag = strings.Join(tags, " ")
	c.GoType = f.Type.Go(g.root, map[string]bool{})
	g.p.Feature("sqlcol:" + c.Kind)
	return colSpec{field: f, col: c}
}

func (g *sqlGen) makeLinkTable(i int) {
	var prims []*sqlTable
	for _, t := range g.tables {
		if t.truth.Primary != "" {
			prims = append(prims, t)
		}
	}
	if len(prims) < 2 {
		return
	}
	g.r.Shuffle(len(prims), func(a, b int) { prims[a], prims[b] = prims[b], prims[a] })
	a, b := prims[0], prims[1]
	t := g.newTable(a.decl.Name+b.decl.Name+g.pick("Link", "Rel", ""), true)
	t.truth.CrudOK = a.truth.CrudOK && b.truth.CrudOK
	for _, prev := range []*sqlTable{a, b} {
		cs := g.fkColumn(t, prev, 0)
		t.decl.Fields = append(t.decl.Fields, cs.field)
		t.truth.Columns = append(t.truth.Columns, cs.col)
	}
	for j := 0; j < g.r.Intn(3); j++ {
		cs, ok := g.column(fmt.Sprintf("%s%d", g.pick("Weight", "Score", "Note", "Meta"), j), 100+i)
		if !ok {
			t.truth.CrudOK = false
		}
		t.decl.Fields = append(t.decl.Fields, cs.field)
		t.truth.Columns = append(t.truth.Columns, cs.col)
		g.p.Feature("sqlcol:" + strings.SplitN(cs.col.Kind, ":", 2)[0])
	}
	g.p.Feature("sql:link-table")
}

// ---------------------------------------------------------------------------
// comment directives (C16)

// simpleCols returns the columns of a table that are safe to compare in SQL
// conditions (basic, enum, foreign key, id) with their Go types.
func simpleCols(t *sqlTable) []SQLColumn {
	var out []SQLColumn
	for _, c := range t.truth.Columns {
		k := strings.SplitN(c.Kind, ":", 2)[0]
		switch {
		case k == "basic" && c.Domain != "float32" && c.Domain != "bool":
			out = append(out, c)
		case k == "enum", k == "id":
			out = append(out, c)
		case k == "fk" && c.FK.Exists && !c.FK.Nullable:
			out = append(out, c)
		}
	}
	return out
}

func (g *sqlGen) enumPlaceholder(c SQLColumn, i int) (placeholder, literal, comment string) {
	var e *Decl
	var vals []string
	switch c.Kind {
	case "enum:int":
		e, vals = g.intEnum, g.intEnumVals
	case "enum:string":
		e, vals = g.strEnum, g.strEnumVals
	default:
		return "", "", ""
	}
	i = i % len(e.Blocks[0].Specs)
	member := e.Blocks[0].Specs[i].Names[0]
	return fmt.Sprintf("#[%s.%s]", e.Name, member), vals[i], fmt.Sprintf("%s.%s", e.Name, member)
}

func (g *sqlGen) addDirectives() {
	for ti, t := range g.tables {
		tr := t.truth
		cols := simpleCols(t)
		if len(cols) == 0 {
			continue
		}
		pickCol := func() SQLColumn { return cols[g.r.Intn(len(cols))] }
		// columns usable in UNIQUE constraints: large domains only (no enums)
		var wide []SQLColumn
		for _, c := range cols {
			if !strings.HasPrefix(c.Kind, "enum") {
				wide = append(wide, c)
			}
		}
		var doc []string
		if g.pr(0.5) {
			doc = append(doc, tr.Struct+" is a table of the model.")
		}
		add := func(d SQLDirective) {
			tr.Directives = append(tr.Directives, d)
			doc = append(doc, "gomacro:SQL "+d.Raw)
			g.p.Feature("directive:" + d.Kind)
		}
		// single column UNIQUE
		if g.pr(0.5) && len(wide) > 0 {
			c := wide[g.r.Intn(len(wide))]
			if !c.Primary {
				add(SQLDirective{Kind: "unique-1", Raw: fmt.Sprintf("ADD UNIQUE(%s)", c.Field), Expected: fmt.Sprintf("ALTER TABLE %s ADD UNIQUE(%s);", tr.SQLName, c.Field)})
				tr.Uniques = append(tr.Uniques, []string{c.Field})
				for i := range tr.Columns {
					if tr.Columns[i].Field == c.Field {
						tr.Columns[i].Unique = true
					}
				}
			}
		}
		if len(wide) >= 2 && g.pr(0.6) {
			a, b := wide[0], wide[len(wide)-1]
			if a.Field != b.Field {
				sp := g.pick("", " ")
				add(SQLDirective{Kind: "unique-2", Raw: fmt.Sprintf("ADD UNIQUE%s(%s, %s)", sp, a.Field, b.Field), Expected: fmt.Sprintf("ALTER TABLE %s ADD UNIQUE%s(%s, %s);", tr.SQLName, sp, a.Field, b.Field)})
				tr.Uniques = append(tr.Uniques, []string{a.Field, b.Field})
			}
		}
		if tr.Primary == "" && len(tr.Columns) >= 2 && g.pr(0.5) && len(tr.Uniques) == 0 {
			a, b := tr.Columns[0].Field, tr.Columns[1].Field
			if !tr.Columns[0].FK.Nullable && !tr.Columns[1].FK.Nullable {
				add(SQLDirective{Kind: "primary-key-2", Raw: fmt.Sprintf("ADD PRIMARY KEY (%s, %s)", a, b), Expected: fmt.Sprintf("ALTER TABLE %s ADD PRIMARY KEY (%s, %s);", tr.SQLName, a, b)})
				tr.PKs = append(tr.PKs, []string{a, b})
			}
		}
		if g.pr(0.4) {
			k := 1 + g.r.Intn(2)
			var names []string
			seen := map[string]bool{}
			for len(names) < k && len(names) < len(cols) {
				c := pickCol()
				if !seen[c.Field] && !c.Primary {
					seen[c.Field] = true
					names = append(names, c.Field)
				} else if len(seen) >= len(cols) {
					break
				}
				seen[c.Field] = true
			}
			if len(names) > 0 {
				add(SQLDirective{Kind: fmt.Sprintf("select-key-%d", len(names)), Raw: fmt.Sprintf("_SELECT KEY(%s)", strings.Join(names, ", ")), Expected: ""})
				tr.SelectKeys = append(tr.SelectKeys, names)
			}
		}
		if t.accented != "" {
			add(SQLDirective{Kind: "select-key-1", Raw: fmt.Sprintf("_SELECT KEY(%s)", t.accented), Expected: ""})
			tr.SelectKeys = append(tr.SelectKeys, []string{t.accented})
			g.p.Feature("directive:select-key-on-non-ascii-column")
		}
		// CHECK with enum placeholders
		for _, c := range cols {
			if ph, lit, cm := g.enumPlaceholder(c, 0); ph != "" && g.pr(0.6) {
				ph2, lit2, cm2 := g.enumPlaceholder(c, 1)
				add(SQLDirective{Kind: "check-" + c.Kind, Raw: fmt.Sprintf("ADD CHECK (%s = %s OR %s = %s)", c.Field, ph, c.Field, ph2),
					Expected: fmt.Sprintf("ALTER TABLE %s ADD CHECK (%s = %s /* %s */ OR %s = %s /* %s */);", tr.SQLName, c.Field, lit, cm, c.Field, lit2, cm2)})
				for i := range tr.Columns {
					if tr.Columns[i].Field == c.Field {
						tr.Columns[i].FirstTwo = true
					}
				}
				break
			}
		}
		// redundant explicit FOREIGN KEY naming the struct after REFERENCES
		for _, c := range tr.Columns {
			if c.FK != nil && c.FK.Exists && !c.FK.Nullable && g.pr(0.3) {
				add(SQLDirective{Kind: "foreign-key-references", Raw: fmt.Sprintf("ADD FOREIGN KEY (%s) REFERENCES %s ON DELETE CASCADE", c.Field, c.FK.Target),
					Expected: fmt.Sprintf("ALTER TABLE %s ADD FOREIGN KEY (%s) REFERENCES %s ON DELETE CASCADE;", tr.SQLName, c.Field, c.FK.TargetSQL)})
				break
			}
		}
		// a placeholder whose string value is spelled like a table struct of the file: the
		// literal is not a table name and stays as it is
		if ti == 0 && g.tableHint != "" && g.pr(0.7) {
			member := g.strEnum.Blocks[0].Specs[0].Names[0]
			add(SQLDirective{Kind: "placeholder-value-spelled-like-a-table",
				Raw:      fmt.Sprintf("COMMENT ON TABLE %s IS #[%s.%s]", tr.Struct, g.strEnum.Name, member),
				Expected: fmt.Sprintf("COMMENT ON TABLE %s IS %s /* %s.%s */;", tr.SQLName, g.strEnumVals[0], g.strEnum.Name, member)})
		}
		// a custom QUERY whose enum placeholder value is spelled like a table struct
		if ti == 0 && g.tableHint != "" && len(cols) >= 1 && !cols[0].Primary && g.pr(0.7) {
			member := g.strEnum.Blocks[0].Specs[0].Names[0]
			set := cols[0]
			fn := g.fresh("Stamp" + tr.Struct)
			q := SQLQuery{Func: fn,
				Raw:      fmt.Sprintf("%s UPDATE %s SET %s = $x$ WHERE #[%s.%s] <> 'none' ;", fn, tr.Struct, set.Field, g.strEnum.Name, member),
				Expected: fmt.Sprintf("UPDATE %s SET %s = $1 WHERE %s /* %s.%s */ <> 'none' ;", tr.SQLName, set.Field, g.strEnumVals[0], g.strEnum.Name, member),
				ArgNames: []string{"x"}, ArgTypes: []string{set.GoType}, Fields: []string{set.Field}}
			tr.Queries = append(tr.Queries, q)
			doc = append(doc, "gomacro:QUERY "+q.Raw)
			g.p.Feature("directive:query-placeholder-value-spelled-like-a-table")
		}
		// unique + nullable foreign key declared by tag on a primary table
		if tr.Primary != "" {
			for i := range tr.Columns {
				c := &tr.Columns[i]
				if c.Kind == "fk:null-tag" && c.FK != nil && c.FK.Exists && !c.Unique && g.pr(0.9) {
					add(SQLDirective{Kind: "unique-1", Raw: fmt.Sprintf("ADD UNIQUE(%s)", c.Field), Expected: fmt.Sprintf("ALTER TABLE %s ADD UNIQUE(%s);", tr.SQLName, c.Field)})
					tr.Uniques = append(tr.Uniques, []string{c.Field})
					c.Unique = true
					g.p.Feature("sql:unique-nullable-foreign-key-by-tag")
					break
				}
			}
		}
		// two REFERENCES in one statement, the later one naming a table that is not declared in
		// the file: both names become SQL table names (a COMMENT statement has no effect on the schema)
		if g.pr(0.35) {
			add(SQLDirective{Kind: "two-references-one-statement",
				Raw:      fmt.Sprintf("COMMENT ON TABLE %s IS 'archived rows: REFERENCES %s then REFERENCES ArchiveBin'", tr.Struct, tr.Struct),
				Expected: fmt.Sprintf("COMMENT ON TABLE %s IS 'archived rows: REFERENCES %s then REFERENCES %s';", tr.SQLName, tr.SQLName, SnakePlural("ArchiveBin"))})
		}
		// free-standing statement: struct names as whole words are replaced, substrings are not
		if g.pr(0.35) {
			c := pickCol()
			idx := fmt.Sprintf("%sIndex_%s%d", tr.Struct, strings.ToLower(tr.Struct), ti) // contains the struct name as a substring only
			if g.pr(0.5) {
				idx = fmt.Sprintf("idx_%s_%d", tr.Struct, ti) // one word for the replacer: underscores are word characters
			}
			add(SQLDirective{Kind: "free-standing-index", Raw: fmt.Sprintf("CREATE INDEX %s ON %s (%s)", idx, tr.Struct, c.Field),
				Expected: fmt.Sprintf("CREATE INDEX %s ON %s (%s);", idx, tr.SQLName, c.Field)})
		}
		// custom queries (always one on a table struct that is not exported: its Go name is a lower-case word)
		if take := g.pr(0.5); (take || tr.Struct[0] >= 'a' && tr.Struct[0] <= 'z') && len(cols) >= 2 {
			set, where := cols[0], cols[len(cols)-1]
			if set.Primary {
				set, where = where, set
			}
			if tr.Struct[0] >= 'a' && tr.Struct[0] <= 'z' {
				// make sure the query exists and can be executed by the C05 driver: write a plain column no key mentions
				for _, c := range cols {
					inKey := c.Unique
					for _, d := range tr.Directives {
						if (strings.HasPrefix(d.Kind, "unique") || strings.HasPrefix(d.Kind, "primary-key")) && strings.Contains(d.Raw, c.Field) {
							inKey = true
						}
					}
					if !c.Primary && !inKey && c.Kind != "fk" && !strings.HasPrefix(c.Kind, "fk:") && c.Field != where.Field {
						set = c
						break
					}
				}
			}
			if !set.Primary && set.Kind != "fk" && !strings.HasPrefix(set.Kind, "fk:") {
				fn := g.fresh("Set" + tr.Struct + set.Field)
				q := SQLQuery{Func: fn,
					Raw:      fmt.Sprintf("%s UPDATE %s SET %s = $newValue$ WHERE %s = $key$;", fn, tr.Struct, set.Field, where.Field),
					Expected: fmt.Sprintf("UPDATE %s SET %s = $1 WHERE %s = $2;", tr.SQLName, set.Field, where.Field),
					ArgNames: []string{"newValue", "key"}, ArgTypes: []string{set.GoType, where.GoType}, Fields: []string{set.Field, where.Field}, Execable: true}
				tr.Queries = append(tr.Queries, q)
				doc = append(doc, "gomacro:QUERY "+q.Raw)
				g.p.Feature("directive:query-distinct-placeholders")
			}
		}
		if g.pr(0.5) && len(cols) >= 2 {
			// repeated placeholder: equal names share a number and one Go argument
			a, b := cols[0], cols[len(cols)-1]
			for i := range cols {
				for j := i + 1; j < len(cols); j++ {
					if cols[i].GoType == cols[j].GoType && a.GoType != b.GoType {
						a, b = cols[i], cols[j]
					}
				}
			}
			if a.GoType == b.GoType && a.Field != b.Field {
				fn := g.fresh("Touch" + tr.Struct)
				q := SQLQuery{Func: fn,
					Raw:      fmt.Sprintf("%s DELETE FROM %s WHERE %s = $v$ OR %s = $v$ ;", fn, tr.Struct, a.Field, b.Field),
					Expected: fmt.Sprintf("DELETE FROM %s WHERE %s = $1 OR %s = $1 ;", tr.SQLName, a.Field, b.Field),
					ArgNames: []string{"v"}, ArgTypes: []string{a.GoType}, Fields: []string{a.Field}, Execable: false}
				var third *SQLColumn
				for i := range cols {
					if cols[i].Field != a.Field && cols[i].Field != b.Field {
						third = &cols[i]
					}
				}
				if third != nil && g.pr(0.7) {
					// ... followed by a new distinct name: numbering must continue at 2
					c := *third
					q.Raw = fmt.Sprintf("%s DELETE FROM %s WHERE (%s = $v$ OR %s = $v$) AND %s = $w$ ;", fn, tr.Struct, a.Field, b.Field, c.Field)
					q.Expected = fmt.Sprintf("DELETE FROM %s WHERE (%s = $1 OR %s = $1) AND %s = $2 ;", tr.SQLName, a.Field, b.Field, c.Field)
					q.ArgNames, q.ArgTypes, q.Fields = []string{"v", "w"}, []string{a.GoType, c.GoType}, []string{a.Field, c.Field}
					g.p.Feature("directive:query-repeated-then-new-placeholder")
				}
				tr.Queries = append(tr.Queries, q)
				doc = append(doc, "gomacro:QUERY "+q.Raw)
				g.p.Feature("directive:query-repeated-placeholder")
			}
		}
		if g.pr(0.4) && len(cols) >= 2 {
			// a name coming back AFTER another one (a, b, a) and comparison operators other than "="
			a, b := cols[0], cols[len(cols)-1]
			if a.Field != b.Field && !a.Primary {
				fn := g.fresh("Sweep" + tr.Struct)
				q := SQLQuery{Func: fn,
					Raw:      fmt.Sprintf("%s DELETE FROM %s WHERE %s = $first$ AND %s <> $second$ AND (%s >= $first$ OR %s < $first$) ;", fn, tr.Struct, a.Field, b.Field, a.Field, a.Field),
					Expected: fmt.Sprintf("DELETE FROM %s WHERE %s = $1 AND %s <> $2 AND (%s >= $1 OR %s < $1) ;", tr.SQLName, a.Field, b.Field, a.Field, a.Field),
					ArgNames: []string{"first", "second"}, ArgTypes: []string{a.GoType, b.GoType}, Fields: []string{a.Field, b.Field}, Execable: false}
				tr.Queries = append(tr.Queries, q)
				doc = append(doc, "gomacro:QUERY "+q.Raw)
				g.p.Feature("directive:query-name-returns-after-another-and-other-operators")
			}
		}
		for _, c := range cols {
			idx := 1
			if g.tableHint != "" && g.pr(0.6) {
				idx = 0 // the string value spelled like the first table struct
			}
			if ph, lit, cm := g.enumPlaceholder(c, idx); ph != "" && g.pr(0.5) && len(cols) >= 2 {
				other := cols[0]
				if other.Field == c.Field {
					other = cols[len(cols)-1]
				}
				if other.Field == c.Field || other.Primary {
					break
				}
				fn := g.fresh("Mark" + tr.Struct)
				q := SQLQuery{Func: fn,
					Raw:      fmt.Sprintf("%s UPDATE %s SET %s = $x$ WHERE %s = %s ;", fn, tr.Struct, other.Field, c.Field, ph),
					Expected: fmt.Sprintf("UPDATE %s SET %s = $1 WHERE %s = %s /* %s */ ;", tr.SQLName, other.Field, c.Field, lit, cm),
					ArgNames: []string{"x"}, ArgTypes: []string{other.GoType}, Fields: []string{other.Field}}
				tr.Queries = append(tr.Queries, q)
				doc = append(doc, "gomacro:QUERY "+q.Raw)
				g.p.Feature("directive:query-enum-placeholder:" + c.Kind)
				break
			}
		}
		if len(doc) > 0 && g.pr(0.3) {
			doc = append(doc, "trailing remark after the directives")
		}
		t.decl.Doc = doc
	}
	// declaration styles: a grouped type declaration holding two tables, each with its own doc
	if len(g.tables) >= 3 && g.pr(0.35) {
		a, b := g.tables[len(g.tables)-1], g.tables[len(g.tables)-2]
		a.decl.Group, b.decl.Group = 7, 7
		a.truth.DeclStyle, b.truth.DeclStyle = "grouped", "grouped"
		// make them adjacent at the end of the declaration list
		var rest []*Decl
		for _, d := range g.root.Decls {
			if d != a.decl && d != b.decl {
				rest = append(rest, d)
			}
		}
		g.root.Decls = append(rest, b.decl, a.decl)
		g.p.Feature("sql:grouped-table-declaration")
		if g.pr(0.5) {
			// an ordinary comment on the group: the directives of the members stay their own
			b.decl.GroupDoc = []string{"Tables of the archive schema, declared together."}
			g.p.Feature("sql:grouped-table-declaration-with-leading-comment")
		}
	}
	// a struct without directive right after one with directives: comments must not leak to neighbours
	for i, t := range g.tables {
		if len(t.decl.Doc) == 0 && i > 0 && len(g.tables[i-1].decl.Doc) > 0 {
			g.p.Feature("sql:undocumented-neighbour")
		}
	}
}
