package synth

import (
	"fmt"
	"math/rand"
	"strings"
)

// TagSpellings is the json-tag alphabet of C09 ({name} is replaced by a key derived from the field).
var TagSpellings = []struct {
	ID  string
	Tag string
}{
	{"none", ""},
	{"name", `json:"{name}"`},
	{"name-omitempty", `json:"{name},omitempty"`},
	{"empty-name-omitempty", `json:",omitempty"`},
	{"dash", `json:"-"`},
	{"dash-comma", `json:"-,"`},
	{"other-before", `xml:"x_{name}" json:"{name}_j"`},
	{"other-after", `json:"{name}_k" yaml:"y"`},
	{"other-only", `xml:"only_{name}"`},
	{"gomacro-ignore", `gomacro:"ignore"`},
	{"gomacro-ignore-json-name", `json:"{name}_ig" gomacro:"ignore"`},
	{"gomacro-ignore-json-dash", `json:"-" gomacro:"ignore"`},
	{"opaque-typescript", `gomacro-opaque:"typescript"`},
	{"opaque-dart-name", `json:"{name}_op" gomacro-opaque:"dart"`},
	{"opaque-dart-untagged", `gomacro-opaque:"dart"`},
	{"opaque-dart-dash-name", `json:"{name}-op" gomacro-opaque:"dart"`},
	{"opaque-both-upper", `json:"{NAME}" gomacro-opaque:"dart,typescript"`},
	{"name-with-dash", `json:"{name}-x"`},
	{"name-upper", `json:"{NAME}"`},
	{"name-string-option", `json:"{name}_s,string"`},
	{"data-ignore", `gomacro-data:"ignore"`},
}

// NewTagProgPair builds tagprog number idx and its metamorphic twin: the twin has
// additional ignored fields (unexported, json:"-", gomacro:"ignore") of types
// declared outside the analysed file, and one retyped ignored field.
// Both packages are called "tagpkg"; their import paths differ by one letter
// (g<idx> / h<idx>) so that outputs can be compared after substituting it.
func NewTagProgPair(idx int, r *rand.Rand, coverFrom int) (*Program, *Program) {
	base := newTagProg(fmt.Sprintf("g%04d", idx), rand.New(rand.NewSource(r.Int63())), coverFrom, false)
	return base.prog, base.twin
}

type tagGen struct {
	prog, twin *Program
}

func newTagProg(id string, r *rand.Rand, coverFrom int, _ bool) *tagGen {
	twinID := "h" + id[1:]
	mk := func(pid string) (*Program, *Pkg) {
		root := &Pkg{Name: "tagpkg", Path: ModulePath + "/" + pid, Dir: pid}
		p := &Program{ID: pid, Family: "tagprog", Root: root, Meta: map[string]any{}}
		p.Sources = []string{pid + "/models.go"}
		return p, root
	}
	p, root := mk(id)
	tw, twRoot := mk(twinID)
	p.Meta["twin"] = twinID
	tw.Meta["twin_of"] = id

	type both struct{ a, b *Decl }
	add := func(name string, kind DKind, file string) both {
		da := &Decl{Name: name, Pkg: root, File: file, Kind: kind}
		db := &Decl{Name: name, Pkg: twRoot, File: file, Kind: kind}
		root.Decls = append(root.Decls, da)
		twRoot.Decls = append(twRoot.Decls, db)
		return both{da, db}
	}
	// support types (other.go)
	enum := add("Mood", DEnum, "other.go")
	for _, d := range []*Decl{enum.a, enum.b} {
		d.Under = Basic("int")
		d.Blocks = []*ConstBlock{{Grouped: true, Specs: []*Const{{Names: []string{"MoodCalm"}, Type: true, Value: "iota"}, {Names: []string{"MoodWild"}}}}}
	}
	leafS := add("Leaf", DStruct, "other.go")
	for _, d := range []*Decl{leafS.a, leafS.b} {
		d.Fields = []*Field{{Name: "Sap", Type: Basic("string")}, {Name: "Veins", Type: Basic("int"), Tag: `json:"veins"`}}
	}
	hidden := add("HiddenOnly", DStruct, "other.go") // only ever used by ignored fields of the twin
	for _, d := range []*Decl{hidden.a, hidden.b} {
		d.Fields = []*Field{{Name: "Secret", Type: Basic("string")}, {Name: "Depth", Type: Slice(Basic("int"))}}
	}
	hidden2 := add("HiddenToo", DNamed, "other.go")
	hidden2.a.Under, hidden2.b.Under = Map(Basic("string"), Basic("bool")), Map(Basic("string"), Basic("bool"))

	kinds := func(pkgDecl func(both) *Decl) []func() *TExpr {
		return []func() *TExpr{
			func() *TExpr { return Basic("int") },
			func() *TExpr { return Basic("string") },
			func() *TExpr { return Basic("bool") },
			func() *TExpr { return Basic("float64") },
			func() *TExpr { return Slice(Basic("string")) },
			func() *TExpr { return Map(Basic("string"), Basic("int")) },
			func() *TExpr { return Ref(pkgDecl(enum)) },
			func() *TExpr { return Ref(pkgDecl(leafS)) },
			func() *TExpr { return Std("time.Time") },
			func() *TExpr { return Array(2, Basic("int")) },
			func() *TExpr { return Slice(Ref(pkgDecl(leafS))) },
		}
	}
	kindsA := kinds(func(b both) *Decl { return b.a })
	kindsB := kinds(func(b both) *Decl { return b.b })

	// unexported struct types with tagged exported fields: embedded, their fields are promoted by encoding/json
	stamps := add("timestamps", DStruct, "other.go")
	metaS := add("metaInfo", DStruct, "other.go")
	for _, d := range []*Decl{stamps.a, stamps.b} {
		d.Fields = []*Field{{Name: "CreatedAt", Type: Basic("string"), Tag: `json:"created_at"`}, {Name: "UpdatedAt", Type: Basic("int")}}
	}
	audit := add("auditTrail", DStruct, "other.go")
	for _, d := range []*Decl{audit.a, audit.b} {
		d.Fields = []*Field{{Name: "AuditBy", Type: Basic("string"), Tag: `json:"audit_by"`}, {Name: "AuditAt", Type: Basic("int")}}
	}
	// one struct embedded by SEVERAL structs, with a deeper field of the same JSON name in the later embedder
	shared := add("sharedNames", DStruct, "other.go")
	deep := add("deepNames", DStruct, "other.go")
	mid := add("midNames", DStruct, "other.go")
	for i, d := range []*Decl{shared.a, shared.b} {
		_ = i
		d.Fields = []*Field{{Name: "Name", Type: Basic("string")}, {Name: "Rank", Type: Basic("int"), Tag: `json:"rank"`}}
	}
	for _, d := range []*Decl{deep.a, deep.b} {
		d.Fields = []*Field{{Name: "Name", Type: Basic("int")}, {Name: "Other", Type: Basic("bool")}}
	}
	mid.a.Fields = []*Field{{Embedded: true, Type: Ref(deep.a)}}
	mid.b.Fields = []*Field{{Embedded: true, Type: Ref(deep.b)}}
	metaS.a.Fields = []*Field{{Name: "Owner", Type: Basic("string")}, {Embedded: true, Type: Ref(audit.a)}}
	metaS.b.Fields = []*Field{{Name: "Owner", Type: Basic("string")}, {Embedded: true, Type: Ref(audit.b)}}
	// two structs embedded side by side declaring the same Go name at the same depth: encoding/json keeps
	// the field whose tag NAMES it when there is exactly one such field, and drops all of them otherwise
	// (a tag made of options only does not name the field)
	clashL := add("clashLeft", DStruct, "other.go")
	clashR := add("clashRight", DStruct, "other.go")
	clashVariant := r.Intn(4)
	for _, d := range []*Decl{clashL.a, clashL.b} {
		tag := []string{`json:",omitempty"`, `json:"Comment"`, `json:"Comment,omitempty"`, `json:""`}[clashVariant]
		d.Fields = []*Field{{Name: "Comment", Type: Basic("string"), Tag: tag}, {Name: "Author", Type: Basic("string")}}
	}
	for _, d := range []*Decl{clashR.a, clashR.b} {
		tag := []string{"", "", `json:"Comment"`, `json:",omitempty"`}[clashVariant]
		d.Fields = []*Field{{Name: "Comment", Type: Basic("string"), Tag: tag}, {Name: "Score", Type: Basic("int")}}
	}
	// an ambiguity two levels down hides a deeper field of the same name: ambPair{ambLeft; ambRight} both declare
	// Xtra (dropped: ambiguous at depth 1 of ambPair), ambTop{ambMid{ambLeaf}} declares it three levels down; a struct
	// embedding ambPair and ambTop serialises no Xtra at all
	ambL, ambR, ambPair := add("ambLeft", DStruct, "other.go"), add("ambRight", DStruct, "other.go"), add("ambPair", DStruct, "other.go")
	ambLeaf, ambMid, ambTop := add("ambLeaf", DStruct, "other.go"), add("ambMid", DStruct, "other.go"), add("ambTop", DStruct, "other.go")
	for i, pr := range [][2]*Decl{{ambL.a, ambL.b}, {ambR.a, ambR.b}, {ambLeaf.a, ambLeaf.b}} {
		for _, d := range pr {
			d.Fields = []*Field{{Name: "Xtra", Type: Basic([]string{"string", "string", "int"}[i])}, {Name: fmt.Sprintf("Only%d", i), Type: Basic("bool")}}
		}
	}
	ambPair.a.Fields = []*Field{{Embedded: true, Type: Ref(ambL.a)}, {Embedded: true, Type: Ref(ambR.a)}}
	ambPair.b.Fields = []*Field{{Embedded: true, Type: Ref(ambL.b)}, {Embedded: true, Type: Ref(ambR.b)}}
	ambMid.a.Fields = []*Field{{Embedded: true, Type: Ref(ambLeaf.a)}}
	ambMid.b.Fields = []*Field{{Embedded: true, Type: Ref(ambLeaf.b)}}
	ambTop.a.Fields = []*Field{{Embedded: true, Type: Ref(ambMid.a)}}
	ambTop.b.Fields = []*Field{{Embedded: true, Type: Ref(ambMid.b)}}
	nStructs := 5 + r.Intn(3)
	holderA := &Decl{Name: "Holder", Pkg: root, File: "models.go", Kind: DStruct, Fields: []*Field{{Name: "Id", Type: Basic("int64")}}}
	holderB := &Decl{Name: "Holder", Pkg: twRoot, File: "models.go", Kind: DStruct, Fields: []*Field{{Name: "Id", Type: Basic("int64")}}}
	cover := coverFrom
	usedDashComma := false
	var prevA, prevB *Decl
	for s := 0; s < nStructs; s++ {
		name := fmt.Sprintf("Rec%c", 'A'+s)
		st := add(name, DStruct, "other.go")
		// an anchor string field keeps the struct a jsonb column (never an all-integer composite)
		st.a.Fields = append(st.a.Fields, &Field{Name: "Anchor" + name, Type: Basic("string")})
		st.b.Fields = append(st.b.Fields, &Field{Name: "Anchor" + name, Type: Basic("string")})
		nf := 3 + r.Intn(5)
		for f := 0; f < nf; f++ {
			sp := TagSpellings[cover%len(TagSpellings)]
			k := (cover / len(TagSpellings)) % len(kindsA)
			cover++
			if sp.ID == "name-string-option" {
				k = 0 // ,string applies to numbers
			}
			if sp.ID == "dash-comma" {
				// the key is the fixed string "-": once per program, or embedded
				// structs would carry conflicting JSON names (outside the quantifier)
				if usedDashComma {
					sp = TagSpellings[1]
				}
				usedDashComma = true
			}
			fname := fmt.Sprintf("F%c%d", 'a'+s, f)
			fname = strings.ToUpper(fname[:1]) + fname[1:]
			key := strings.ToLower(fname)
			tag := strings.ReplaceAll(strings.ReplaceAll(sp.Tag, "{name}", key), "{NAME}", strings.ToUpper(key))
			unexported := r.Intn(12) == 0
			if unexported {
				fname = strings.ToLower(fname[:1]) + fname[1:]
				p.Feature("tagspelling:unexported+" + sp.ID)
			} else {
				p.Feature("tagspelling:" + sp.ID)
			}
			p.Feature(fmt.Sprintf("tagcombo:%s/kind%d", sp.ID, k))
			st.a.Fields = append(st.a.Fields, &Field{Name: fname, Type: kindsA[k](), Tag: tag})
			st.b.Fields = append(st.b.Fields, &Field{Name: fname, Type: kindsB[k](), Tag: tag})
		}
		// embedded (untagged) previous struct, nested use of it
		if prevA != nil && r.Intn(3) == 0 {
			st.a.Fields = append(st.a.Fields, &Field{Embedded: true, Type: Ref(prevA)})
			st.b.Fields = append(st.b.Fields, &Field{Embedded: true, Type: Ref(prevB)})
			p.Feature("tagprog:embedded")
		} else if prevA != nil && r.Intn(2) == 0 {
			st.a.Fields = append(st.a.Fields, &Field{Name: "Nested" + name, Type: Ref(prevA)})
			st.b.Fields = append(st.b.Fields, &Field{Name: "Nested" + name, Type: Ref(prevB)})
			p.Feature("tagprog:nested")
		}
		if s == 1 {
			st.a.Fields = append(st.a.Fields, &Field{Embedded: true, Type: Ref(stamps.a)})
			st.b.Fields = append(st.b.Fields, &Field{Embedded: true, Type: Ref(stamps.b)})
			p.Feature("tagprog:embedded-unexported-type")
			if r.Intn(2) == 0 {
				// same Go NAME as a promoted field, another JSON key: encoding/json emits both
				for _, d := range []*Decl{st.a, st.b} {
					d.Fields = append(d.Fields, &Field{Name: "UpdatedAt", Type: Basic("int"), Tag: `json:"renamed_updated_at"`})
				}
				p.Feature("tagprog:outer-field-redeclares-promoted-go-name-under-another-key")
			}
		} else if s == 0 || s == 4 {
			// sharedNames is embedded twice in the program; the second embedder also embeds midNames,
			// whose deeper Name loses against sharedNames.Name
			st.a.Fields = append(st.a.Fields, &Field{Embedded: true, Type: Ref(shared.a)})
			st.b.Fields = append(st.b.Fields, &Field{Embedded: true, Type: Ref(shared.b)})
			if s == 4 {
				st.a.Fields = append(st.a.Fields, &Field{Embedded: true, Type: Ref(mid.a)})
				st.b.Fields = append(st.b.Fields, &Field{Embedded: true, Type: Ref(mid.b)})
				p.Feature("tagprog:struct-embedded-twice-with-deeper-clash")
			}
		} else if s == 2 {
			// an unexported guard field (the intended use of guards): never serialised
			for _, d := range []*Decl{st.a, st.b} {
				d.Fields = append(d.Fields, &Field{Name: "guard" + name, Type: Ref(map[*Decl]*Decl{st.a: enum.a, st.b: enum.b}[d]), Tag: `gomacro-sql-guard:"#[Mood.MoodCalm]"`})
			}
			p.Feature("tagprog:unexported-guard-field")
			st.a.Fields = append(st.a.Fields, &Field{Embedded: true, Type: Ref(clashL.a)}, &Field{Embedded: true, Type: Ref(clashR.a)})
			st.b.Fields = append(st.b.Fields, &Field{Embedded: true, Type: Ref(clashL.b)}, &Field{Embedded: true, Type: Ref(clashR.b)})
			p.Feature(fmt.Sprintf("tagprog:same-name-at-equal-depth-from-two-embedded-structs:%s", []string{"options-only-tag-vs-none", "naming-tag-vs-none", "two-naming-tags", "empty-tag-vs-options-only"}[clashVariant]))
		} else if s == 3 {
			st.a.Fields = append(st.a.Fields, &Field{Embedded: true, Type: Ref(metaS.a)})
			st.b.Fields = append(st.b.Fields, &Field{Embedded: true, Type: Ref(metaS.b)})
			p.Feature("tagprog:embedded-unexported-type-two-levels")
			if r.Intn(2) == 0 {
				st.a.Fields = append(st.a.Fields, &Field{Embedded: true, Type: Ref(ambPair.a)}, &Field{Embedded: true, Type: Ref(ambTop.a)})
				st.b.Fields = append(st.b.Fields, &Field{Embedded: true, Type: Ref(ambPair.b)}, &Field{Embedded: true, Type: Ref(ambTop.b)})
				p.Feature("tagprog:ambiguous-name-two-levels-down-hides-a-deeper-one")
			}
			if r.Intn(2) == 0 {
				// same JSON KEY as a promoted field (two levels down): like encoding/json, the
				// shallower field hides the promoted one
				tag := `json:"audit_by"`
				if r.Intn(2) == 0 {
					tag = `json:"audit_by" gomacro:"ignore"` // ignored by gomacro, still serialised by Go: it hides the promoted field all the same
					p.Feature("tagprog:ignored-outer-field-hides-promoted-json-key")
				}
				for _, d := range []*Decl{st.a, st.b} {
					d.Fields = append(d.Fields, &Field{Name: "Headline", Type: Basic("string"), Tag: tag})
				}
				p.Feature("tagprog:outer-field-hides-promoted-json-key")
			}
		}
		// twin only: ignored fields of types declared outside the analysed file
		switch s % 4 {
		case 0:
			st.b.Fields = append(st.b.Fields, &Field{Name: "extraHidden" + name, Type: Ref(hidden.b)})
			tw.Feature("twin:added-unexported")
		case 1:
			st.b.Fields = append(st.b.Fields, &Field{Name: "ExtraDash" + name, Type: Ref(hidden.b), Tag: `json:"-"`})
			tw.Feature("twin:added-json-dash")
		case 2:
			st.b.Fields = append(st.b.Fields, &Field{Name: "ExtraIgnored" + name, Type: Ref(hidden2.b), Tag: `gomacro:"ignore"`})
			tw.Feature("twin:added-gomacro-ignore")
		default:
			// retype an ignored field present in both
			st.a.Fields = append(st.a.Fields, &Field{Name: "Retyped" + name, Type: Basic("int"), Tag: `json:"-"`})
			st.b.Fields = append(st.b.Fields, &Field{Name: "Retyped" + name, Type: Slice(Ref(hidden.b)), Tag: `json:"-"`})
			tw.Feature("twin:retyped-json-dash")
		}
		holderA.Fields = append(holderA.Fields, &Field{Name: "Col" + name, Type: Ref(st.a)})
		holderB.Fields = append(holderB.Fields, &Field{Name: "Col" + name, Type: Ref(st.b)})
		prevA, prevB = st.a, st.b
	}
	root.Decls = append(root.Decls, holderA)
	twRoot.Decls = append(twRoot.Decls, holderB)
	p.Meta["cover_next"] = cover
	return &tagGen{prog: p, twin: tw}
}
