// Package synth generates seeded Go programs (scratch module example.com/synth)
// covering the declaration forms named by the property quantifiers.
package synth

import (
	"fmt"
	"os"
	"path/filepath"
	"sort"
	"strings"
)

const ModulePath = "example.com/synth"

// ---------------------------------------------------------------------------
// type expressions

type TKind int

const (
	TBasic TKind = iota // int, string, ...
	TRef                // reference to a declared type (possibly instantiated)
	TStd                // standard library named type: time.Time, sql.NullInt64, ...
	TSlice
	TArray
	TMap
	TPointer
	TRaw // raw source text (unsupported forms)
)

type TExpr struct {
	K     TKind
	Basic string
	Ref   *Decl
	TArgs []*TExpr
	Std   string // "time.Time"
	Elem  *TExpr
	Key   *TExpr
	Len   int
	Raw   string
	// RawImports lists import paths needed by Raw
	RawImports []string
}

func Basic(name string) *TExpr            { return &TExpr{K: TBasic, Basic: name} }
func Ref(d *Decl, targs ...*TExpr) *TExpr { return &TExpr{K: TRef, Ref: d, TArgs: targs} }
func Std(name string) *TExpr              { return &TExpr{K: TStd, Std: name} }
func Slice(e *TExpr) *TExpr               { return &TExpr{K: TSlice, Elem: e} }
func Array(n int, e *TExpr) *TExpr        { return &TExpr{K: TArray, Len: n, Elem: e} }
func Map(k, v *TExpr) *TExpr              { return &TExpr{K: TMap, Key: k, Elem: v} }
func Pointer(e *TExpr) *TExpr             { return &TExpr{K: TPointer, Elem: e} }
func Raw(src string, imports ...string) *TExpr {
	return &TExpr{K: TRaw, Raw: src, RawImports: imports}
}

// Go prints the expression as seen from package `from`, recording imports.
func (t *TExpr) Go(from *Pkg, imports map[string]bool) string {
	switch t.K {
	case TBasic:
		return t.Basic
	case TRef:
		s := t.Ref.Name
		if t.Ref.Pkg != from {
			imports[t.Ref.Pkg.Path] = true
			s = t.Ref.Pkg.Name + "." + s
		}
		if len(t.TArgs) > 0 {
			var as []string
			for _, a := range t.TArgs {
				as = append(as, a.Go(from, imports))
			}
			s += "[" + strings.Join(as, ", ") + "]"
		}
		return s
	case TStd:
		pkg, _, _ := strings.Cut(t.Std, ".")
		imports[stdImportPath(pkg)] = true
		return t.Std
	case TSlice:
		return "[]" + t.Elem.Go(from, imports)
	case TArray:
		return fmt.Sprintf("[%d]%s", t.Len, t.Elem.Go(from, imports))
	case TMap:
		return "map[" + t.Key.Go(from, imports) + "]" + t.Elem.Go(from, imports)
	case TPointer:
		return "*" + t.Elem.Go(from, imports)
	case TRaw:
		for _, i := range t.RawImports {
			imports[i] = true
		}
		return t.Raw
	}
	panic("unknown TKind")
}

func stdImportPath(pkg string) string {
	switch pkg {
	case "sql":
		return "database/sql"
	case "big":
		return "math/big"
	}
	return pkg
}

// ---------------------------------------------------------------------------
// declarations

type DKind int

const (
	DStruct DKind = iota
	DNamed        // named over a non-struct expression (basic, slice, map, array, time)
	DEnum         // named basic with typed constants
	DUnion        // interface with a marker method and >=1 implementer
	DIface        // interface that is not a union (no implementer)
	DAlias
	DGeneric // generic struct declaration
)

type Field struct {
	Name     string // "" for embedded
	Type     *TExpr
	Tag      string // raw tag content without back quotes
	Embedded bool
	Comment  string
}

type Const struct {
	Names   []string // usually one
	Type    bool     // spec carries the type explicitly
	Value   string   // expression text, "" = implicit repetition
	Comment string   // trailing comment text (without //)
	ViaConv bool     // value written as T(expr) without declared type
}

type ConstBlock struct {
	Grouped bool // const ( ... )
	Specs   []*Const
	File    string // file it is written to ("" = same file as the type)
}

type Impl struct {
	Union *Decl
	Ptr   bool // pointer receiver: must NOT be a member
}

type Decl struct {
	Name    string
	Pkg     *Pkg
	File    string // base name of the file inside the package dir
	Kind    DKind
	Under   *TExpr   // DNamed, DEnum (basic), DAlias (target)
	Fields  []*Field // DStruct, DGeneric
	TParams string   // DGeneric: "[T ~int64]"
	Blocks  []*ConstBlock
	Marker  string // DUnion / DIface: marker method name
	Impls   []*Impl
	Doc     []string // doc comment lines, without leading "// "
	Group   int      // >0: member of grouped type declaration number Group (same file)
	// GroupDoc: doc comment written before the "type (" line (first member of the group only)
	GroupDoc []string
	// time helpers: for named time/date types the synthesiser writes
	// MarshalJSON/UnmarshalJSON (and SQL helpers) in the other file
	TimeHelpers bool
	IsDate      bool
	SQLHelpers  bool
	// free-form tags for feature accounting and oracles
	Tags map[string]bool
}

func (d *Decl) Tag(s string) *Decl {
	if d.Tags == nil {
		d.Tags = map[string]bool{}
	}
	d.Tags[s] = true
	return d
}

type Pkg struct {
	Name  string
	Path  string // import path
	Dir   string // directory relative to the module root
	Decls []*Decl
	// Extra raw source appended to a file: file base name -> chunks
	Extra        map[string][]string
	ExtraImports map[string]map[string]bool
}

func (p *Pkg) AddExtra(file, src string, imports ...string) {
	if p.Extra == nil {
		p.Extra = map[string][]string{}
		p.ExtraImports = map[string]map[string]bool{}
	}
	p.Extra[file] = append(p.Extra[file], src)
	if p.ExtraImports[file] == nil {
		p.ExtraImports[file] = map[string]bool{}
	}
	for _, i := range imports {
		p.ExtraImports[file][i] = true
	}
}

// Program is one synthesised package tree with the file(s) to analyse.
type Program struct {
	ID       string
	Family   string
	Root     *Pkg
	Subs     []*Pkg
	Sources  []string // files to analyse, relative to the module root
	Features map[string]int
	// Meta carries family specific truth (JSON-serialisable)
	Meta map[string]any
	// RawFiles are written verbatim (rel path from the module root -> content)
	RawFiles map[string]string
}

func (p *Program) Feature(name string) {
	if p.Features == nil {
		p.Features = map[string]int{}
	}
	p.Features[name]++
}

func (p *Program) Pkgs() []*Pkg { return append([]*Pkg{p.Root}, p.Subs...) }

// ---------------------------------------------------------------------------
// rendering

// Render returns rel path (from module root) -> content for every file of the program.
func (p *Program) Render() map[string]string {
	out := map[string]string{}
	for _, pkg := range p.Pkgs() {
		if pkg == nil {
			continue
		}
		for file, content := range pkg.render() {
			out[filepath.Join(pkg.Dir, file)] = content
		}
	}
	for rel, content := range p.RawFiles {
		out[rel] = content
	}
	return out
}

func (pkg *Pkg) render() map[string]string {
	byFile := map[string][]*Decl{}
	var files []string
	addFile := func(f string) {
		if _, ok := byFile[f]; !ok {
			byFile[f] = nil
			files = append(files, f)
		}
	}
	for _, d := range pkg.Decls {
		addFile(d.File)
		byFile[d.File] = append(byFile[d.File], d)
	}
	for f := range pkg.Extra {
		addFile(f)
	}
	// const blocks / methods placed in another file
	type chunk struct{ src string }
	extraByFile := map[string][]string{}
	imports := map[string]map[string]bool{}
	imp := func(f string) map[string]bool {
		if imports[f] == nil {
			imports[f] = map[string]bool{}
		}
		return imports[f]
	}
	out := map[string]string{}
	bodies := map[string]*strings.Builder{}
	body := func(f string) *strings.Builder {
		if bodies[f] == nil {
			bodies[f] = &strings.Builder{}
			addFile(f)
		}
		return bodies[f]
	}
	for _, f := range append([]string(nil), files...) {
		decls := byFile[f]
		sb := body(f)
		i := 0
		for i < len(decls) {
			d := decls[i]
			if d.Group > 0 {
				// collect consecutive members of the same group
				j := i
				for j < len(decls) && decls[j].Group == d.Group {
					j++
				}
				writeDoc(sb, d.GroupDoc, "") // a comment on the group itself (first member carries it)
				sb.WriteString("type (\n")
				for _, g := range decls[i:j] {
					writeDoc(sb, g.Doc, "\t")
					sb.WriteString("\t" + g.typeSpec(pkg, imp(f)) + "\n")
				}
				sb.WriteString(")\n\n")
				for _, g := range decls[i:j] {
					g.writeCompanions(pkg, body, imp)
				}
				i = j
				continue
			}
			writeDoc(sb, d.Doc, "")
			sb.WriteString("type " + d.typeSpec(pkg, imp(f)) + "\n\n")
			d.writeCompanions(pkg, body, imp)
			i++
		}
	}
	for f, chunks := range pkg.Extra {
		sb := body(f)
		for _, c := range chunks {
			sb.WriteString(c)
			sb.WriteString("\n\n")
		}
		for i := range pkg.ExtraImports[f] {
			imp(f)[i] = true
		}
	}
	_ = extraByFile
	for f, sb := range bodies {
		var hdr strings.Builder
		if strings.HasPrefix(f, "zz_verifrun") {
			hdr.WriteString("//go:build verifrun\n\n")
		}
		hdr.WriteString("package " + pkg.Name + "\n\n")
		var is []string
		for i := range imports[f] {
			is = append(is, i)
		}
		sort.Strings(is)
		if len(is) > 0 {
			hdr.WriteString("import (\n")
			for _, i := range is {
				hdr.WriteString(fmt.Sprintf("\t%q\n", i))
			}
			hdr.WriteString(")\n\n")
		}
		out[f] = hdr.String() + sb.String()
	}
	return out
}

func writeDoc(sb *strings.Builder, doc []string, indent string) {
	for _, l := range doc {
		sb.WriteString(indent + "// " + l + "\n")
	}
}

func (d *Decl) typeSpec(pkg *Pkg, imports map[string]bool) string {
	switch d.Kind {
	case DStruct, DGeneric:
		var sb strings.Builder
		sb.WriteString(d.Name + d.TParams + " struct {\n")
		for _, f := range d.Fields {
			line := "\t"
			if f.Embedded {
				line += f.Type.Go(pkg, imports)
			} else {
				line += f.Name + " " + f.Type.Go(pkg, imports)
			}
			if f.Tag != "" {
				line += " `" + f.Tag + "`"
			}
			if f.Comment != "" {
				line += " // " + f.Comment
			}
			sb.WriteString(line + "\n")
		}
		sb.WriteString("}")
		return sb.String()
	case DNamed, DEnum:
		return d.Name + " " + d.Under.Go(pkg, imports)
	case DAlias:
		return d.Name + " = " + d.Under.Go(pkg, imports)
	case DUnion, DIface:
		return d.Name + " interface {\n\t" + d.Marker + "()\n}"
	}
	panic("unknown DKind")
}

// writeCompanions writes constants, marker methods and time helpers.
func (d *Decl) writeCompanions(pkg *Pkg, body func(string) *strings.Builder, imp func(string) map[string]bool) {
	for _, b := range d.Blocks {
		f := b.File
		if f == "" {
			f = d.File
		}
		sb := body(f)
		spec := func(c *Const) string {
			s := strings.Join(c.Names, ", ")
			if c.Type {
				s += " " + d.Name
			}
			if c.Value != "" {
				v := c.Value
				if c.ViaConv {
					v = d.Name + "(" + v + ")"
				}
				s += " = " + v
			}
			if c.Comment != "" {
				s += " // " + c.Comment
			}
			return s
		}
		if b.Grouped {
			sb.WriteString("const (\n")
			for _, c := range b.Specs {
				sb.WriteString("\t" + spec(c) + "\n")
			}
			sb.WriteString(")\n\n")
		} else {
			for _, c := range b.Specs {
				sb.WriteString("const " + spec(c) + "\n\n")
			}
		}
	}
	for _, im := range d.Impls {
		f := d.File
		if d.Tags["methods-in-other"] {
			f = "other.go"
		}
		recv := d.Name
		if im.Ptr {
			recv = "*" + d.Name
		}
		body(f).WriteString(fmt.Sprintf("func (%s) %s() {}\n\n", recv, im.Union.Marker))
	}
	if d.TimeHelpers {
		f := "other.go"
		imp(f)["time"] = true
		sb := body(f)
		fmt.Fprintf(sb, "func (d %[1]s) MarshalJSON() ([]byte, error) { return time.Time(d).MarshalJSON() }\n\n", d.Name)
		fmt.Fprintf(sb, "func (d *%[1]s) UnmarshalJSON(b []byte) error {\n\tvar t time.Time\n\tif err := t.UnmarshalJSON(b); err != nil {\n\t\treturn err\n\t}\n\t*d = %[1]s(t)\n\treturn nil\n}\n\n", d.Name)
		if d.SQLHelpers && d.IsDate {
			fmt.Fprintf(sb, "func NewDateFrom(t time.Time) %[1]s { return %[1]s(t) }\n\nfunc (d %[1]s) Time() time.Time { return time.Time(d) }\n\n", d.Name)
		}
	}
}

// WriteModule writes go.mod and all programs below root. supportDir / pqDir are
// the absolute directories of the verif/support and lib/pq stand-in modules.
func WriteModule(root, supportDir, pqDir string, progs []*Program) error {
	if err := os.MkdirAll(root, 0o755); err != nil {
		return err
	}
	gomod := fmt.Sprintf(`module %s

go 1.23.0

require (
	github.com/lib/pq v0.0.0
	verif/support v0.0.0
)

replace github.com/lib/pq => %s

replace verif/support => %s
`, ModulePath, pqDir, supportDir)
	if err := os.WriteFile(filepath.Join(root, "go.mod"), []byte(gomod), 0o644); err != nil {
		return err
	}
	for _, p := range progs {
		for rel, content := range p.Render() {
			full := filepath.Join(root, rel)
			if err := os.MkdirAll(filepath.Dir(full), 0o755); err != nil {
				return err
			}
			if err := os.WriteFile(full, []byte(content), 0o644); err != nil {
				return err
			}
		}
	}
	return nil
}

// CollectStyles records the style tags of every declaration in Meta["styles"]
// (key: <import path>.<Name>), used by oracles for their coverage histograms.
func (p *Program) CollectStyles() {
	styles := map[string]string{}
	for _, pkg := range p.Pkgs() {
		for _, d := range pkg.Decls {
			var tags []string
			for t := range d.Tags {
				tags = append(tags, t)
			}
			sort.Strings(tags)
			if len(tags) > 0 {
				styles[pkg.Path+"."+d.Name] = strings.Join(tags, "+")
			}
		}
	}
	if p.Meta == nil {
		p.Meta = map[string]any{}
	}
	p.Meta["styles"] = styles
}
