package synth

import (
	"fmt"
	"math/rand"
	"strings"
)

// TypeOpts selects which declaration forms a typeprog contains.
type TypeOpts struct {
	Unions          bool
	SharedPrefix    bool // two unions sharing a 2-letter prefix and a member
	OneLetterNames  bool // one-letter type / union names
	Recursive       bool
	ExoticBasics    bool // float32, uint, uint32, uint64 (randdata refuses them)
	Bytes           bool // []byte field
	ShortPkgNames   bool // sub-package names of 1-3 letters
	MultiNameConst  bool
	Generics        bool
	GenericBasicArg bool
	Aliases         bool
	Embedded        bool
	StdTypes        bool
	NamedTimes      bool
	NumSubs         int
	NumStructs      int
	TagRich         bool
	Omitempty       bool
	// SameNameInSub: a sub-package declares an enum / struct with the same local
	// name as a root type (C10 quantifier); TypeScript cannot tell them apart
	SameNameInSub bool
	// IgnoreAlone: sibling fields tagged gomacro:"ignore" WITHOUT json:"-" (still serialised by
	// encoding/json; used by C02 only, TypeScript/Dart drop such keys by design)
	IgnoreAlone bool
	// Depth of anonymous container nesting in field types (default 2)
	Depth int
	// Pointers: recursive shapes through pointers (analysis only: C12, C18)
	Pointers bool
	// CaseTwins: two structs whose names differ by case only (Go generators only)
	CaseTwins bool
	// PtrFields: pointer typed fields and an embedded pointer (Go generators only: C15)
	PtrFields bool
	// NoRoot: place the module outside any go/src/ directory (affects the Dart linker only)
}

// RandomTypeOpts draws the options of program i.
func RandomTypeOpts(r *rand.Rand) TypeOpts {
	p := func(x float64) bool { return r.Float64() < x }
	return TypeOpts{
		Unions:          p(0.85),
		SharedPrefix:    p(0.12),
		OneLetterNames:  p(0.12),
		Recursive:       p(0.35),
		ExoticBasics:    p(0.12),
		Bytes:           p(0.10),
		ShortPkgNames:   p(0.30),
		MultiNameConst:  p(0.20),
		Generics:        p(0.40),
		GenericBasicArg: p(0.30),
		Aliases:         p(0.35),
		Embedded:        p(0.40),
		StdTypes:        p(0.40),
		NamedTimes:      p(0.50),
		NumSubs:         r.Intn(3),
		NumStructs:      3 + r.Intn(5),
		TagRich:         p(0.6),
		Omitempty:       p(0.25),
		SameNameInSub:   p(0.15),
	}
}

type gen struct {
	r     *rand.Rand
	p     *Program
	root  *Pkg
	opts  TypeOpts
	names map[string]bool
	idx   int

	enums          []*Decl // root enums
	keyables       []*Decl // named types usable as JSON map keys (ids, named strings/ints, int/string enums)
	nameds         []*Decl // every other root named non-struct, non-union type
	unions         []*Decl
	uconts         []*Decl // named slices / maps of unions
	structs        []*Decl // root structs usable as field types
	subTypes       []*Decl // sub-package types usable from the root
	generics       []*Decl
	insts          []*TExpr // generic instantiations usable as field types
	subNames       map[string]bool
	usedDashComma  bool
	foreignNoConst *TExpr // type of a sub-package that has constants only OUTSIDE its package
	hiddenSub      *Pkg   // sub-package the root does not import directly
	bridge         *Decl  // struct of the next sub-package holding a value of the hidden one
}

var typeStems = []string{"Item", "Order", "Client", "Invoice", "Ticket", "Parcel", "Wagon", "Garden", "Planet", "Route", "Sensor", "Ledger", "Recipe", "Module", "Window", "Bridge", "Castle", "Dragon", "Engine", "Forest", "Harbor", "Island", "Jungle", "Kernel", "Lantern", "Meadow", "Needle", "Orchard", "Pillar", "Quarry", "Rocket", "Saddle", "Tunnel", "Valley", "Walrus", "Yacht", "Zipper", "Anchor", "Basket", "Candle"}
var fieldStems = []string{"Name", "Count", "Owner", "Label", "Size", "Weight", "Price", "Code", "Rank", "Level", "Score", "Notes", "Title", "Total", "Start", "Stop", "Width", "Depth", "Ratio", "Flag", "Kind_", "Group", "Batch", "Slot", "Phase", "Index", "Value", "Extra", "Detail", "Origin"}
var enumStems = []string{"Color", "Status", "Mode", "Phase", "Tier", "Shade", "Grade", "Stage", "Rating", "Role", "Access", "Unit", "Climate", "Flavor", "Season"}
var memberWords = []string{"Red", "Green", "Blue", "Open", "Closed", "Pending", "Low", "High", "Mid", "First", "Second", "Third", "North", "South", "East", "West", "Alpha", "Beta", "Gamma", "Delta"}
var subEnumStems = []string{"Trend", "Gauge", "Genre", "Motif", "Caste", "Tempo"}
var subTypeStems = []string{"Crate", "Depot", "Fleet", "Grain", "Hinge", "Ingot", "Joint", "Knoll", "Latch", "Mantle", "Nozzle", "Outpost", "Pulley", "Quiver", "Rafter", "Spigot"}
var unionStems = []string{"Shape", "Shade2", "Event", "Action", "Payload", "Block", "Node", "Expr", "Message", "Command", "Figure", "Field2", "Asset", "Signal", "Token"}

func (g *gen) fresh(base string) string {
	name := base
	for i := 2; g.names[name] || g.names[strings.ToLower(name)] || reserved[name]; i++ {
		name = fmt.Sprintf("%s%d", base, i)
	}
	g.names[name] = true
	g.names[strings.ToLower(name)] = true
	return name
}

// identifiers the generators derive or that would clash with predeclared / helper names
var reserved = map[string]bool{"DB": true, "Time": true, "Date": true, "Int": true, "String": true, "Type": true, "Error": true, "Set": true, "Map": true, "List": true, "File": true, "Blob": true, "Record": true, "Array": true, "Object": true, "Duration": true, "Month": true, "Weekday": true}

func (g *gen) pick(list []string) string { return list[g.r.Intn(len(list))] }
func (g *gen) pr(x float64) bool         { return g.r.Float64() < x }

func (g *gen) add(d *Decl) *Decl {
	d.Pkg = g.root
	if d.File == "" {
		d.File = "models.go"
	}
	g.root.Decls = append(g.root.Decls, d)
	return d
}

// NewTypeProg builds typeprog number idx.
func NewTypeProg(seed int64, idx int, r *rand.Rand, opts TypeOpts) *Program {
	id := fmt.Sprintf("t%04d", idx)
	pkgName := "pk" + id
	root := &Pkg{Name: pkgName, Path: ModulePath + "/" + id, Dir: id}
	p := &Program{ID: id, Family: "typeprog", Root: root, Meta: map[string]any{}}
	g := &gen{r: r, p: p, root: root, opts: opts, names: map[string]bool{}, idx: idx}
	p.Sources = []string{id + "/models.go"}

	g.makeSubs()
	g.makeEnums()
	g.makeKeyables()
	g.makeNameds()
	if opts.Generics {
		g.makeGenerics()
	}
	if opts.Unions {
		g.makeUnions()
	}
	g.makeStructs()
	if opts.SameNameInSub && opts.Unions {
		g.makeSameNameStruct()
	}
	if g.foreignNoConst != nil && len(g.structs) > 0 {
		host := g.structs[0]
		host.Fields = append(host.Fields, &Field{Name: g.fresh("PlainForeign"), Type: g.foreignNoConst})
	}
	if g.bridge != nil && len(g.structs) > 0 {
		host := g.structs[0]
		host.Fields = append(host.Fields, &Field{Name: g.fresh("Via" + g.bridge.Name), Type: Ref(g.bridge)})
	}
	if opts.Recursive {
		g.makeRecursive()
	}
	if opts.Aliases {
		g.makeAliases()
	}
	g.makeOtherFileNoise()
	g.shuffleDecls()
	p.CollectStyles()
	return p
}

// ---------------------------------------------------------------------------
// sub packages

func (g *gen) makeSubs() {
	shortNames := []string{"ab", "x", "db", "io2", "q", "geo", "kv", "m"}
	longNames := []string{"inventory", "geometry", "shared", "catalog", "billing", "storage"}
	var prev *Pkg
	for i := 0; i < g.opts.NumSubs; i++ {
		var name string
		if g.opts.ShortPkgNames && (i == 0 || g.pr(0.5)) {
			name = shortNames[g.r.Intn(len(shortNames))]
			g.p.Feature("short-package-name")
		} else {
			name = longNames[g.r.Intn(len(longNames))]
		}
		name = g.fresh(name) // also unique among root identifiers
		dirName := name
		if i == 0 && g.pr(0.2) {
			// an imported package carrying the NAME of the analysed package (another import path)
			name = g.root.Name
			g.p.Feature("sub-package-named-like-the-root-package")
		}
		dir := g.root.Dir + "/" + dirName
		if prev != nil && g.pr(0.4) {
			dir = prev.Dir + "/" + dirName // nested sub-package
			g.p.Feature("nested-sub-package")
		}
		sub := &Pkg{Name: name, Path: ModulePath + "/" + dir, Dir: dir}
		g.p.Subs = append(g.p.Subs, sub)
		if g.subNames == nil {
			g.subNames = map[string]bool{}
		}
		sg := &gen{r: g.r, p: g.p, root: sub, opts: g.opts, names: g.subNames} // names unique across the sub-packages of a program

		// an enum, sometimes named like a root enum will be
		enumStem := subEnumStems[g.r.Intn(len(subEnumStems))]
		if g.opts.SameNameInSub && i == 0 {
			enumStem = enumStems[0] // the root's first enum takes the same name (see makeEnums)
			g.p.Feature("same-enum-name-in-sub-package")
		}
		en := sg.enumDecl(enumStem, "int", i%2 == 0)
		en.File = "types.go"
		sub.Decls = append(sub.Decls, en)
		en.Pkg = sub
		st := &Decl{Name: sg.fresh(subTypeStems[g.r.Intn(len(subTypeStems))]), Pkg: sub, File: "types.go", Kind: DStruct}
		st.Fields = []*Field{
			{Name: "Ref", Type: Basic("int")},
			{Name: "Kind", Type: Ref(en)},
			{Name: "Words", Type: Slice(Basic("string"))},
		}
		if prev != nil && g.pr(0.6) {
			// a typed constant of the previous package's enum declared HERE: it must not
			// change the members of that enum (its own package declares them)
			for _, d := range prev.Decls {
				if d.Kind == DEnum && len(d.Blocks) > 0 && len(d.Blocks[0].Specs) > 0 {
					cn := d.Blocks[0].Specs[0].Names[0]
					if cn != "_" && cn[0] >= 'A' && cn[0] <= 'Z' {
						sub.AddExtra("types.go", fmt.Sprintf("// Default%s re-exports a value of another package's enum.\nconst Default%s = %s.%s", sg.fresh(cn), cn, prev.Name, cn), prev.Path)
						g.p.Feature("enum:typed-const-declared-in-another-package")
					}
					break
				}
			}
		}
		if prev != nil && (g.pr(0.6) || g.hiddenSub == prev) {
			// use a type of the previous sub package
			for _, d := range prev.Decls {
				if d.Kind == DStruct {
					st.Fields = append(st.Fields, &Field{Name: "Prev", Type: Ref(d)})
					break
				}
			}
		}
		if g.pr(0.4) {
			st.Doc = []string{"gomacro:SQL comment in a sub package"}
		}
		ns := &Decl{Name: sg.fresh("List" + st.Name), Pkg: sub, File: "named.go", Kind: DNamed, Under: Slice(Ref(en))}
		idt := &Decl{Name: sg.fresh("Id" + st.Name), Pkg: sub, File: "types.go", Kind: DNamed, Under: Basic("int64")}
		sub.Decls = append(sub.Decls, st, ns, idt)
		if i == 0 && g.opts.NumSubs >= 2 && g.pr(0.5) {
			// the root never names this package: it is reached only through the next sub-package
			g.hiddenSub = sub
			g.p.Feature("sub-package-reached-only-through-another-package")
		} else {
			g.subTypes = append(g.subTypes, st, ns, en, idt)
		}
		if g.hiddenSub != nil && g.hiddenSub == prev {
			g.bridge = st
		}
		g.p.Feature("sub-package")
		// a union inside the sub package (never used from the root: outside the domain),
		// with an implementer; checks package walk of union detection
		if g.pr(0.5) {
			un := &Decl{Name: sg.fresh("Sub" + unionStems[g.r.Intn(len(unionStems))]), Pkg: sub, File: "types.go", Kind: DUnion, Marker: "IsSub" + name}
			sub.Decls = append(sub.Decls, un)
			st.Impls = append(st.Impls, &Impl{Union: un})
			holder := &Decl{Name: sg.fresh("Holder"), Pkg: sub, File: "types.go", Kind: DStruct, Fields: []*Field{{Name: "U", Type: Ref(un)}}}
			sub.Decls = append(sub.Decls, holder)
			g.p.Feature("union-in-sub-package")
		}
		prev = sub
	}
}

// makeSameNameStruct declares, in the first sub-package, an exported struct with
// the local name of a root union member (it is a member of nothing) and uses it
// from a root struct next to the real member.
func (g *gen) makeSameNameStruct() {
	if len(g.p.Subs) == 0 || len(g.structs) == 0 {
		return
	}
	var member *Decl
	for _, d := range g.root.Decls {
		nonPtr := false
		for _, im := range d.Impls {
			if !im.Ptr {
				nonPtr = true
			}
		}
		if d.Kind == DStruct && nonPtr && d.File == "models.go" && d.Name[0] >= 'A' && d.Name[0] <= 'Z' {
			member = d
			break
		}
	}
	if member == nil {
		return
	}
	sub := g.p.Subs[0]
	for _, d := range sub.Decls {
		if d.Name == member.Name {
			return
		}
	}
	twin := &Decl{Name: member.Name, Pkg: sub, File: "types.go", Kind: DStruct, Fields: []*Field{
		{Name: "Ref", Type: Basic("int")},
		{Name: "Note", Type: Basic("string")},
	}}
	sub.Decls = append(sub.Decls, twin)
	host := g.structs[len(g.structs)-1]
	host.Fields = append(host.Fields,
		&Field{Name: g.fresh("Legacy" + member.Name), Type: Ref(twin)},
		&Field{Name: g.fresh("Legacies" + member.Name), Type: Slice(Ref(twin))})
	g.p.Feature("same-struct-name-as-union-member-in-sub-package")
}

// ---------------------------------------------------------------------------
// enums

// enumDecl builds one enum in a random declaration style.
func (g *gen) enumDecl(stem, under string, forcePlainIota bool) *Decl {
	name := g.fresh(stem)
	d := &Decl{Name: name, Kind: DEnum, Under: Basic(under)}
	n := 2 + g.r.Intn(4)
	snakeNames := g.pr(0.1) // Color_Red naming
	numbered := g.pr(0.3)
	mk := func(i int, exported bool) string {
		w := memberWords[(i*7+g.r.Intn(3))%len(memberWords)]
		base := name + w
		if snakeNames {
			if numbered {
				w = fmt.Sprint(i + 1) // Tier_1, Tier_2
			}
			base = name + "_" + w
			g.p.Feature("enum:constant-names-with-underscore")
		} else if exported && g.pr(0.05) {
			base += "_"
			g.p.Feature("enum:constant-name-trailing-underscore")
		}
		if !exported {
			base = strings.ToLower(name[:1]) + name[1:] + w
			if g.pr(0.3) {
				base = "_" + base // legal unexported identifier, not the blank one
				g.p.Feature("enum:underscore-prefixed-constant")
			}
		}
		return g.fresh(base)
	}
	comment := func(i int) string {
		if g.pr(0.6) {
			return fmt.Sprintf("label %s %d", name, i)
		}
		return ""
	}
	style := g.r.Intn(10)
	if forcePlainIota {
		style = 0
	}
	isInt := under != "string" && under != "bool" && under != "float64"
	if !isInt {
		style = 100
	}
	blk := &ConstBlock{Grouped: true}
	switch style {
	case 0: // plain iota block
		for i := 0; i < n; i++ {
			c := &Const{Names: []string{mk(i, true)}, Comment: comment(i)}
			if i == 0 {
				c.Type, c.Value = true, "iota"
			}
			blk.Specs = append(blk.Specs, c)
		}
		d.Tag("plain-iota")
	case 1: // iota with unexported members interleaved and a blank
		for i := 0; i < n+2; i++ {
			c := &Const{Comment: comment(i)}
			switch {
			case i == n:
				c.Names = []string{"_"}
			case i%3 == 1:
				c.Names = []string{mk(i, false)}
			default:
				c.Names = []string{mk(i, true)}
			}
			if i == 0 {
				c.Type, c.Value = true, "iota"
			}
			blk.Specs = append(blk.Specs, c)
		}
		d.Tag("iota-unexported-interleaved")
	case 2: // explicit values with gaps
		v := 0
		for i := 0; i < n; i++ {
			v += 1 + g.r.Intn(3)
			blk.Specs = append(blk.Specs, &Const{Names: []string{mk(i, true)}, Type: true, Value: fmt.Sprint(v), Comment: comment(i)})
		}
		d.Tag("explicit-gaps")
	case 3: // negative start
		if strings.HasPrefix(under, "u") {
			d.Under = Basic("int")
		}
		for i := 0; i < n; i++ {
			c := &Const{Names: []string{mk(i, true)}, Comment: comment(i)}
			if i == 0 {
				c.Type, c.Value = true, "iota - 1"
			}
			blk.Specs = append(blk.Specs, c)
		}
		d.Tag("negative")
	case 4: // duplicates: 0,1,1,2
		vals := []int{0, 1, 1, 2, 3}
		for i := 0; i < 4+g.r.Intn(2); i++ {
			blk.Specs = append(blk.Specs, &Const{Names: []string{mk(i, true)}, Type: true, Value: fmt.Sprint(vals[i]), Comment: comment(i)})
		}
		d.Tag("duplicates")
	case 5: // single-line ungrouped constants, 0..n-1 in shuffled order
		blk.Grouped = false
		perm := g.r.Perm(n)
		for i := 0; i < n; i++ {
			blk.Specs = append(blk.Specs, &Const{Names: []string{mk(i, true)}, Type: true, Value: fmt.Sprint(perm[i]), Comment: comment(i)})
		}
		d.Tag("single-line-shuffled")
	case 6: // typed through a conversion, no declared type
		for i := 0; i < n; i++ {
			blk.Specs = append(blk.Specs, &Const{Names: []string{mk(i, true)}, Value: fmt.Sprint(i * 2), ViaConv: true, Comment: comment(i)})
		}
		d.Tag("via-conversion")
	case 7: // opt-out comments on some constants
		for i := 0; i < n+1; i++ {
			c := &Const{Names: []string{mk(i, true)}, Type: true, Value: fmt.Sprint(i), Comment: comment(i)}
			if i%2 == 1 {
				c.Comment = "gomacro:no-enum special value"
			}
			blk.Specs = append(blk.Specs, c)
		}
		d.Tag("opt-out-some")
	case 8: // an unexported member exactly filling a gap of the exported values: A=0, b=1, C=2, D=3
		for i := 0; i < n+1; i++ {
			c := &Const{Names: []string{mk(i, i != 1)}, Comment: comment(i)}
			if i == 0 {
				c.Type, c.Value = true, "iota"
			}
			blk.Specs = append(blk.Specs, c)
		}
		d.Tag("iota-unexported-gap-filler")
	default: // multi-name specs (when enabled) else iota with skip expression
		if g.opts.MultiNameConst {
			a, b := mk(0, true), mk(1, true)
			blk.Specs = append(blk.Specs, &Const{Names: []string{a, b}, Type: true, Value: "0, 1"})
			blk.Specs = append(blk.Specs, &Const{Names: []string{mk(2, true)}, Type: true, Value: "2", Comment: comment(2)})
			d.Tag("multi-name-spec")
		} else {
			for i := 0; i < n; i++ {
				c := &Const{Names: []string{mk(i, true)}, Comment: comment(i)}
				if i == 0 {
					c.Type, c.Value = true, "iota * 10"
				}
				blk.Specs = append(blk.Specs, c)
			}
			d.Tag("iota-scaled")
		}
	case 100:
		for i := 0; i < n; i++ {
			var v string
			switch under {
			case "string":
				v = fmt.Sprintf("%q", strings.ToLower(memberWords[(i*3)%len(memberWords)])+fmt.Sprint(i))
				if i == 0 && g.pr(0.2) {
					// characters outside the basic multilingual plane (and a few inside it)
					v = fmt.Sprintf("%q", "mood 😀 é ☀ "+fmt.Sprint(i))
					g.p.Feature("enum:string-value-with-non-bmp-characters")
				}
				if i == 2 && g.pr(0.25) {
					// longer than the 72 characters go/constant prints in its short form
					v = fmt.Sprintf("%q", "https://example.org/scopes/"+strings.Repeat("very-long-segment/", 4)+fmt.Sprint(i))
					g.p.Feature("enum:string-value-longer-than-72-characters")
				}
			case "bool":
				v = []string{"true", "false"}[i%2]
				if i >= 2 {
					continue
				}
			default:
				v = fmt.Sprintf("%d.5", i)
			}
			blk.Specs = append(blk.Specs, &Const{Names: []string{mk(i, i != 1 || under != "string")}, Type: true, Value: v, Comment: comment(i)})
		}
		d.Tag("backed-" + under)
	}
	d.Blocks = []*ConstBlock{blk}
	return d
}

func (g *gen) makeEnums() {
	n := 2 + g.r.Intn(3)
	unders := []string{"int", "uint8", "int", "uint", "int16", "string", "int", "string", "bool", "float64", "int64"}
	for i := 0; i < n; i++ {
		under := unders[g.r.Intn(len(unders))]
		if (under == "bool" || under == "float64") && !g.pr(0.3) {
			under = "int"
		}
		stem := enumStems[1+g.r.Intn(len(enumStems)-1)]
		if g.opts.SameNameInSub && i == 0 && g.opts.NumSubs > 0 {
			stem = enumStems[0]
		}
		d := g.add(g.enumDecl(stem, under, i == 0))
		for t := range d.Tags {
			g.p.Feature("enum:" + t)
		}
		if g.pr(0.2) {
			d.Blocks[0].File = "other.go" // constants declared in another file of the package
			g.p.Feature("enum:consts-in-other-file")
		} else if g.pr(0.3) && d.Tags["plain-iota"] && len(d.Blocks[0].Specs) >= 2 {
			// an unexported constant duplicating a value, declared in another file
			dup := d.Blocks[0].Specs[1].Names[0]
			d.Blocks = append(d.Blocks, &ConstBlock{File: "other.go", Specs: []*Const{{Names: []string{g.fresh("fallback" + d.Name)}, Value: dup}}})
			delete(d.Tags, "plain-iota")
			d.Tag("iota-with-unexported-duplicate-in-other-file")
			g.p.Feature("enum:unexported-duplicate-in-other-file")
		}
		g.enums = append(g.enums, d)
		under = d.Under.Basic
		if under != "bool" && under != "float64" {
			g.keyables = append(g.keyables, d)
		}
	}
	// an unsigned 64 bit enum with members above the int64 range
	if g.pr(0.1) {
		d := g.add(&Decl{Name: g.fresh("Mask" + g.pick(enumStems)), Kind: DEnum, Under: Basic("uint64")})
		d.Blocks = []*ConstBlock{{Grouped: true, Specs: []*Const{
			{Names: []string{g.fresh(d.Name + "None")}, Type: true, Value: "0"},
			{Names: []string{g.fresh(d.Name + "Low")}, Type: true, Value: "2"},
			{Names: []string{g.fresh(d.Name + "Top")}, Type: true, Value: "1 << 63"},
			{Names: []string{g.fresh(d.Name + "All")}, Type: true, Value: "1<<64 - 1"},
		}}}
		d.Tag("uint64-above-int64")
		g.p.Feature("enum:uint64-values-above-int64")
		g.enums = append(g.enums, d)
	}
	// a float enum whose values need more than 6 digits
	if g.pr(0.1) {
		d := g.add(&Decl{Name: g.fresh("Ratio" + g.pick(enumStems)), Kind: DEnum, Under: Basic("float64")})
		d.Blocks = []*ConstBlock{{Grouped: true, Specs: []*Const{
			{Names: []string{g.fresh(d.Name + "Third")}, Type: true, Value: "1.0 / 3"},
			{Names: []string{g.fresh(d.Name + "Pi")}, Type: true, Value: "3.14159265358979"},
			{Names: []string{g.fresh(d.Name + "Half")}, Type: true, Value: "0.5"},
		}}}
		d.Tag("float-many-digits")
		g.p.Feature("enum:float-values-with-many-digits")
		g.enums = append(g.enums, d)
	}
	// enums whose values only differ beyond what a SHORTENED rendering of a constant shows
	// (constant.Value.String() keeps 6 significant digits of a float and 72 characters of a string);
	// chosen by the program number, not by the PRNG, so that the other shapes keep their streams
	if g.idx%5 == 2 {
		d := g.add(&Decl{Name: g.fresh("CloseRatio"), Kind: DEnum, Under: Basic("float64")})
		d.Blocks = []*ConstBlock{{Grouped: true, Specs: []*Const{
			{Names: []string{g.fresh(d.Name + "Low")}, Type: true, Value: "0.33333333"},
			{Names: []string{g.fresh(d.Name + "High")}, Type: true, Value: "0.33333334"},
		}}}
		g.p.Feature("enum:float-values-equal-on-6-digits")
		g.enums = append(g.enums, d)
		long := strings.Repeat("long-shared-prefix-", 5) // 95 characters
		d2 := g.add(&Decl{Name: g.fresh("LongMotto"), Kind: DEnum, Under: Basic("string")})
		d2.Blocks = []*ConstBlock{{Grouped: true, Specs: []*Const{
			{Names: []string{g.fresh(d2.Name + "One")}, Type: true, Value: fmt.Sprintf("%q", long+"one")},
			{Names: []string{g.fresh(d2.Name + "Two")}, Type: true, Value: fmt.Sprintf("%q", long+"two")},
		}}}
		g.p.Feature("enum:string-values-equal-on-72-characters")
		g.enums = append(g.enums, d2)
	}
	// a constant typed through an ALIAS of an enum is a member of the enum
	if len(g.enums) > 0 && g.pr(0.15) {
		e := g.enums[0]
		if e.Under != nil && (e.Under.Basic == "int" || e.Under.Basic == "string") {
			al := g.fresh(e.Name + "Alias")
			v := "77"
			if e.Under.Basic == "string" {
				v = `"via-alias"`
			}
			g.root.AddExtra("other.go", fmt.Sprintf("type %s = %s\n\n// %s is typed through the alias.\nconst %s %s = %s", al, e.Name, g.fresh(e.Name+"ViaAlias"), e.Name+"ViaAlias", al, v))
			delete(e.Tags, "plain-iota")
			e.Tag("constant-typed-through-alias")
			g.p.Feature("enum:constant-typed-through-an-alias")
		}
	}
	// a named basic WITHOUT constants in the first sub-package, and a constant of it declared by
	// the root package: not an enum (its own package declares no constant)
	if len(g.p.Subs) > 0 && g.hiddenSub != g.p.Subs[0] && g.pr(0.2) {
		sub := g.p.Subs[0]
		tn := "NoConst" + strings.Title(sub.Name)
		sub.AddExtra("types.go", fmt.Sprintf("// %s has no constant in its own package.\ntype %s int", tn, tn))
		g.root.AddExtra("other.go", fmt.Sprintf("const Foreign%s %s.%s = 7", tn, sub.Name, tn), sub.Path)
		if len(g.structs) > 0 || true {
			g.foreignNoConst = Raw(sub.Name+"."+tn, sub.Path)
		}
		g.p.Feature("enum:foreign-constant-of-a-type-without-own-constants")
	}
	// a plain iota block with more than 64 members
	if g.pr(0.05) {
		d := g.add(&Decl{Name: g.fresh("Wide" + g.pick(enumStems)), Kind: DEnum, Under: Basic("int")})
		blk := &ConstBlock{Grouped: true}
		for i := 0; i < 70; i++ {
			c := &Const{Names: []string{g.fresh(fmt.Sprintf("%sW%02d", d.Name, (i*37)%70))}} // names not in value order
			if i == 0 {
				c.Type, c.Value = true, "iota"
			}
			blk.Specs = append(blk.Specs, c)
		}
		d.Blocks = []*ConstBlock{blk}
		d.Tag("plain-iota").Tag("wide")
		g.p.Feature("enum:plain-iota-70-members")
		g.enums = append(g.enums, d)
		g.keyables = append(g.keyables, d)
	}
	// an enum whose only constant is unexported (underscore prefixed half of the time)
	if g.pr(0.3) {
		d := g.add(&Decl{Name: g.fresh("Mode" + g.pick(enumStems)), Kind: DEnum, Under: Basic(g.pick([]string{"int", "string"}))})
		cname := "default" + d.Name
		if g.pr(0.5) {
			cname = "_" + cname
		}
		v := "1"
		if d.Under.Basic == "string" {
			v = `"dflt"`
		}
		d.Blocks = []*ConstBlock{{Specs: []*Const{{Names: []string{g.fresh(cname)}, Type: true, Value: v, Comment: "the only one"}}}}
		d.Tag("single-unexported-constant")
		g.p.Feature("enum:single-unexported-constant")
		g.enums = append(g.enums, d)
	}
	// a named type whose only constant is opted out: NOT an enum
	if g.pr(0.5) {
		d := g.add(&Decl{Name: g.fresh("Plain" + g.pick(enumStems)), Kind: DNamed, Under: Basic("string")})
		d.Blocks = []*ConstBlock{{Specs: []*Const{{Names: []string{g.fresh(d.Name + "Special")}, Type: true, Value: `"dummy"`, Comment: "gomacro:no-enum"}}}}
		d.Tag("all-opted-out")
		g.p.Feature("enum:all-opted-out")
		g.keyables = append(g.keyables, d)
	}
}

func (g *gen) makeKeyables() {
	// ID types
	for i := 0; i < 1+g.r.Intn(2); i++ {
		stem := g.pick(typeStems)
		name := "Id" + stem
		if g.pr(0.5) {
			name = stem + "ID"
		}
		d := g.add(&Decl{Name: g.fresh(name), Kind: DNamed, Under: Basic("int64")})
		d.Tag("id")
		g.keyables = append(g.keyables, d)
		g.p.Feature("id-type")
	}
	if g.pr(0.6) {
		d := g.add(&Decl{Name: g.fresh(g.pick(typeStems) + "Key"), Kind: DNamed, Under: Basic("string")})
		g.keyables = append(g.keyables, d)
	}
}

var basicKinds = []string{"int", "string", "bool", "float64", "int64", "int", "string", "uint8", "int16", "int32", "uint16", "int8", "string", "int"}
var exoticBasics = []string{"float32", "uint", "uint32", "uint64"}

// spellings of one basic type under two names (distinct objects for go/types)
var aliasBasics = []string{"byte", "rune", "uint8", "int32"}

func (g *gen) basic() *TExpr {
	if g.opts.ExoticBasics && g.pr(0.15) {
		g.p.Feature("exotic-basic")
		return Basic(g.pick(exoticBasics))
	}
	if g.pr(0.08) {
		g.p.Feature("basic:byte-or-rune-spelling")
		return Basic(g.pick(aliasBasics))
	}
	return Basic(g.pick(basicKinds))
}

func (g *gen) makeNameds() {
	// named basics
	for i := 0; i < 1+g.r.Intn(3); i++ {
		d := g.add(&Decl{Name: g.fresh(g.pick(typeStems) + "Val"), Kind: DNamed, Under: Basic(g.pick([]string{"int", "float64", "string", "bool", "uint16", "int32"}))})
		g.nameds = append(g.nameds, d)
		g.p.Feature("named-basic:" + d.Under.Basic)
	}
	if g.opts.OneLetterNames {
		d := g.add(&Decl{Name: g.fresh(string(rune('N' + g.r.Intn(3)))), Kind: DNamed, Under: Basic("int64")})
		g.nameds = append(g.nameds, d)
		g.keyables = append(g.keyables, d)
		g.p.Feature("one-letter-named-int64")
	}
	if g.opts.NamedTimes {
		name := g.fresh(g.pick(typeStems) + "Stamp")
		if g.pr(0.15) && !g.names["Time"] {
			name = "Time" // a user wrapper called exactly like the standard type
			g.names["Time"], g.names["time"] = true, true
			g.p.Feature("named-time-called-Time")
		}
		d := g.add(&Decl{Name: name, Kind: DNamed, Under: Std("time.Time"), TimeHelpers: true})
		g.nameds = append(g.nameds, d)
		g.p.Feature("named-time")
		if g.pr(0.7) {
			d := g.add(&Decl{Name: g.fresh(g.pick([]string{"BirthDate", "DueDate", "Dated", "UpDate"})), Kind: DNamed, Under: Std("time.Time"), TimeHelpers: true, IsDate: true})
			g.nameds = append(g.nameds, d)
			g.p.Feature("named-date")
		}
	}
	// named containers of non-union elements
	for i := 0; i < 1+g.r.Intn(3); i++ {
		var under *TExpr
		var tag string
		switch g.r.Intn(4) {
		case 0:
			under, tag = Slice(g.leaf(false)), "named-slice"
		case 1:
			under, tag = Map(g.keyType(), g.leaf(false)), "named-map"
		case 2:
			under, tag = Array(1+g.r.Intn(4), g.basic()), "named-array"
		default:
			under, tag = Array(2+g.r.Intn(2), Array(1+g.r.Intn(3), g.basic())), "named-array-nested"
		}
		d := g.add(&Decl{Name: g.fresh(g.pick(typeStems) + "Set"), Kind: DNamed, Under: under})
		g.nameds = append(g.nameds, d)
		g.p.Feature(tag)
	}
}

func (g *gen) keyType() *TExpr {
	if g.pr(0.2) {
		// a key type living in another package (another Dart file): sub-package enum or ID
		var cands []*Decl
		for _, d := range g.subTypes {
			if d.Kind == DEnum || (d.Kind == DNamed && d.Under.K == TBasic && d.Under.Basic == "int64") {
				cands = append(cands, d)
			}
		}
		if len(cands) > 0 {
			g.p.Feature("map-key-from-sub-package")
			return Ref(cands[g.r.Intn(len(cands))])
		}
	}
	if len(g.keyables) > 0 && g.pr(0.5) {
		return Ref(g.keyables[g.r.Intn(len(g.keyables))])
	}
	return Basic(g.pick([]string{"string", "int", "string", "int64", "uint8"}))
}

// leaf returns a non-container type; allowUnion permits a union interface.
func (g *gen) leaf(allowUnion bool) *TExpr {
	for {
		switch g.r.Intn(9) {
		case 0, 1:
			return g.basic()
		case 2:
			if len(g.enums) > 0 {
				return Ref(g.enums[g.r.Intn(len(g.enums))])
			}
		case 3:
			if len(g.keyables) > 0 {
				return Ref(g.keyables[g.r.Intn(len(g.keyables))])
			}
		case 4:
			if len(g.nameds) > 0 {
				return Ref(g.nameds[g.r.Intn(len(g.nameds))])
			}
		case 5:
			if len(g.structs) > 0 {
				return Ref(g.structs[g.r.Intn(len(g.structs))])
			}
		case 6:
			if len(g.subTypes) > 0 {
				g.p.Feature("field-of-sub-package-type")
				return Ref(g.subTypes[g.r.Intn(len(g.subTypes))])
			}
		case 7:
			if allowUnion && len(g.unions) > 0 {
				return Ref(g.unions[g.r.Intn(len(g.unions))])
			}
			if len(g.insts) > 0 {
				return g.insts[g.r.Intn(len(g.insts))]
			}
		default:
			if g.opts.StdTypes && g.pr(0.5) {
				g.p.Feature("std-type")
				return Std(g.pick([]string{"sql.NullInt64", "sql.NullString", "sql.NullBool", "sql.NullFloat64", "time.Duration", "time.Month", "time.Weekday"}))
			}
			return Std("time.Time")
		}
	}
}

// fieldType returns a random field type. Unions only appear directly (anonymous
// containers of unions are outside the supported domain).
func (g *gen) fieldType(depth int) *TExpr {
	if depth <= 0 || g.pr(0.55) {
		if len(g.uconts) > 0 && g.pr(0.15) {
			return Ref(g.uconts[g.r.Intn(len(g.uconts))])
		}
		return g.leaf(true)
	}
	switch g.r.Intn(4) {
	case 0:
		return Slice(g.elemType(depth - 1))
	case 1:
		return Map(g.keyType(), g.elemType(depth-1))
	case 2:
		// fixed arrays: elements are never slices/maps (TypeScript generator refuses those)
		e := g.leaf(false)
		if g.pr(0.3) {
			e = Array(1+g.r.Intn(3), g.leaf(false))
		}
		return Array(1+g.r.Intn(4), e)
	default:
		return Slice(Slice(g.leaf(false)))
	}
}

func (g *gen) elemType(depth int) *TExpr {
	t := g.fieldType(depth)
	for t.K == TRef && t.Ref.Kind == DUnion { // no anonymous containers of unions
		t = g.leaf(false)
	}
	return t
}

// ---------------------------------------------------------------------------
// generics (declared in other.go: a generic declaration in the analysed file is refused)

func (g *gen) makeGenerics() {
	opt := g.add(&Decl{Name: g.fresh("Opt"), Kind: DGeneric, File: "other.go", TParams: "[T ~int64]"})
	opt.Fields = []*Field{{Name: "Valid", Type: Basic("bool")}, {Name: "ID", Type: Raw("T")}}
	box := g.add(&Decl{Name: g.fresh("Box"), Kind: DGeneric, File: "other.go", TParams: "[T any]"})
	box.Fields = []*Field{{Name: "V", Type: Raw("T")}, {Name: "N", Type: Basic("int")}}
	g.generics = append(g.generics, opt, box)
	for _, k := range g.keyables {
		if k.Tags["id"] {
			g.insts = append(g.insts, Ref(opt, Ref(k)), Ref(box, Ref(k)))
			g.p.Feature("generic-inst-named-arg")
		}
	}
	if g.opts.GenericBasicArg {
		g.insts = append(g.insts, Ref(box, Basic(g.pick([]string{"int", "string", "bool"}))))
		g.p.Feature("generic-inst-basic-arg")
	}
	if len(g.structs) > 0 {
		g.insts = append(g.insts, Ref(box, Ref(g.structs[0])))
	}
}

// ---------------------------------------------------------------------------
// unions

func (g *gen) makeUnions() {
	n := 1 + g.r.Intn(3)
	var members []*Decl
	newMember := func() *Decl {
		var d *Decl
		switch g.r.Intn(6) {
		case 0, 1, 2:
			name := g.fresh(g.pick(typeStems))
			if g.pr(0.15) {
				// an unexported struct implementing the union: its Kind tag is the Go name, lower case first
				name = g.fresh(strings.ToLower(name[:1]) + name[1:] + "Impl")
				g.p.Feature("union-member:unexported-struct")
			}
			d = g.add(&Decl{Name: name, Kind: DStruct})
			nf := 1 + g.r.Intn(3)
			for i := 0; i < nf; i++ {
				d.Fields = append(d.Fields, &Field{Name: g.pick(fieldStems) + fmt.Sprint(i), Type: g.leafNoStruct()})
			}
			g.p.Feature("union-member:struct")
		case 3:
			d = g.add(&Decl{Name: g.fresh(g.pick(typeStems) + "Num"), Kind: DNamed, Under: Basic(g.pick([]string{"int", "float64", "string"}))})
			g.p.Feature("union-member:named-basic")
		case 4:
			d = g.add(&Decl{Name: g.fresh(g.pick(typeStems) + "Seq"), Kind: DNamed, Under: Slice(Basic(g.pick([]string{"int", "string"})))})
			g.p.Feature("union-member:named-slice")
		default:
			d = g.add(&Decl{Name: g.fresh(g.pick(typeStems) + "Dict"), Kind: DNamed, Under: Map(Basic("string"), Basic(g.pick([]string{"int", "bool"})))})
			g.p.Feature("union-member:named-map")
		}
		if g.pr(0.3) {
			d.Tag("methods-in-other")
		}
		return d
	}
	for i := 0; i < n; i++ {
		name := g.pick(unionStems)
		if g.opts.OneLetterNames && i == 0 {
			name = string(rune('U' + g.r.Intn(4)))
			g.p.Feature("one-letter-union-name")
		}
		if g.opts.SharedPrefix && i == 1 && len(g.unions) > 0 && len(g.unions[0].Name) >= 2 {
			name = g.unions[0].Name[:2] + "x" + g.pick([]string{"Alt", "Bis", "Ter"})
			g.p.Feature("unions-sharing-2-letter-prefix")
		}
		exported := !g.pr(0.15)
		if !exported {
			name = strings.ToLower(name[:1]) + name[1:]
			g.p.Feature("unexported-union")
		}
		un := g.add(&Decl{Name: g.fresh(name), Kind: DUnion})
		un.Marker = "Is" + strings.Title(un.Name) + "Member"
		if g.pr(0.5) {
			un.Marker = "is" + strings.Title(un.Name)
		}
		if g.pr(0.3) {
			un.File = "other.go" // reached only through fields
			g.p.Feature("union-declared-in-other-file")
		}
		k := 1 + g.r.Intn(4)
		for j := 0; j < k; j++ {
			var m *Decl
			if len(members) > 0 && (g.pr(0.3) || (g.opts.SharedPrefix && i == 1 && j == 0)) {
				m = members[g.r.Intn(len(members))] // member shared by several unions
				already := false
				for _, im := range m.Impls {
					if im.Union == un {
						already = true
					}
				}
				if already {
					continue
				}
				g.p.Feature("member-shared-by-unions")
			} else {
				m = newMember()
				members = append(members, m)
			}
			m.Impls = append(m.Impls, &Impl{Union: un})
		}
		hasMember := false
		for _, m := range members {
			for _, im := range m.Impls {
				if im.Union == un {
					hasMember = true
				}
			}
		}
		if !hasMember {
			m := newMember()
			members = append(members, m)
			m.Impls = append(m.Impls, &Impl{Union: un})
		}
		// negative cases: pointer receiver implementer, foreign implementer
		if g.pr(0.4) {
			ghost := g.add(&Decl{Name: g.fresh("Ghost" + g.pick(typeStems)), Kind: DStruct, File: "other.go", Fields: []*Field{{Name: "G", Type: Basic("int")}}})
			ghost.Impls = append(ghost.Impls, &Impl{Union: un, Ptr: true})
			g.p.Feature("pointer-receiver-non-member")
		}
		if strings.HasPrefix(un.Marker, "Is") && len(g.p.Subs) > 0 && g.pr(0.5) {
			sub := g.p.Subs[0]
			sub.AddExtra("foreign.go", fmt.Sprintf("type Foreign%s struct{ F int }\n\nfunc (Foreign%s) %s() {}", un.Name, un.Name, un.Marker))
			g.p.Feature("foreign-implementer-non-member")
			if g.opts.Embedded && g.pr(0.5) {
				// a local struct that declares no method: it is a member through the method
				// promoted from the embedded struct of the other package
				d := g.add(&Decl{Name: g.fresh("Emb" + strings.Title(un.Name)), Kind: DStruct, Fields: []*Field{
					{Embedded: true, Type: Raw(sub.Name+".Foreign"+un.Name, sub.Path)},
					{Name: "Own" + strings.Title(un.Name), Type: Basic("string")},
				}})
				d.Tag("promoted-member")
				g.p.Feature("union-member:method-promoted-from-foreign-struct")
			}
		}
		if g.pr(0.3) {
			// another interface with the same method set (it embeds the union): never a member of it
			g.root.AddExtra("other.go", fmt.Sprintf("// %sExt embeds the union.\ntype %sExt interface{ %s }", strings.Title(un.Name), strings.Title(un.Name), un.Name))
			g.p.Feature("interface-embedding-a-union")
		}
		g.unions = append(g.unions, un)
	}
	// a member implementing the union only through the method promoted from an embedded member
	if g.opts.Embedded && g.pr(0.5) {
		for _, m := range members {
			if m.Kind != DStruct || len(m.Impls) == 0 || m.Impls[0].Ptr {
				continue
			}
			d := g.add(&Decl{Name: g.fresh("Sub" + m.Name), Kind: DStruct})
			d.Fields = []*Field{{Embedded: true, Type: Ref(m)}, {Name: "OwnField" + d.Name, Type: Basic("int")}}
			d.Tag("promoted-member")
			g.p.Feature("union-member:promoted-method")
			break
		}
	}
	// an alias of a union interface, used as a field type
	if g.opts.Aliases && g.pr(0.5) {
		un := g.unions[g.r.Intn(len(g.unions))]
		al := g.add(&Decl{Name: g.fresh("Alias" + strings.Title(un.Name)), Kind: DAlias, Under: Ref(un)})
		holder := g.add(&Decl{Name: g.fresh("Via" + strings.Title(un.Name)), Kind: DStruct, Fields: []*Field{{Name: "Aliased", Type: Ref(al)}, {Name: "Plain", Type: Ref(un)}}})
		g.structs = append(g.structs, holder)
		if g.pr(0.5) {
			al.File = "other.go"
		}
		g.p.Feature("alias-of-union")
	}
	// two structs with union fields whose names differ by case only
	if g.opts.IgnoreAlone && g.pr(0.6) {
		un := g.unions[g.r.Intn(len(g.unions))]
		stem := g.fresh("Layer" + g.pick(typeStems))
		lower := strings.ToLower(stem[:1]) + stem[1:]
		g.names[lower] = true
		lo := g.add(&Decl{Name: lower, Kind: DStruct, Fields: []*Field{{Name: "Name", Type: Basic("string"), Tag: `json:"name"`}, {Name: "Content", Type: Ref(un), Tag: `json:"content"`}, {Name: "Z", Type: Basic("int"), Tag: `json:"z"`}}})
		up := g.add(&Decl{Name: stem, Kind: DStruct, Fields: []*Field{{Name: "Title", Type: Basic("string")}, {Name: "Top", Type: Ref(un)}, {Name: "Below", Type: Ref(lo)}}})
		g.structs = append(g.structs, up)
		g.p.Feature("structs-with-unions-differing-by-case-only")
	}
	// enum as a union member
	if len(g.enums) > 0 && g.pr(0.25) {
		e := g.enums[len(g.enums)-1]
		e.Impls = append(e.Impls, &Impl{Union: g.unions[0]})
		g.p.Feature("union-member:enum")
	}
	// named containers of unions
	for _, un := range g.unions {
		if g.pr(0.5) {
			d := g.add(&Decl{Name: g.fresh(strings.Title(un.Name) + "List"), Kind: DNamed, Under: Slice(Ref(un))})
			g.uconts = append(g.uconts, d)
			g.p.Feature("named-slice-of-union")
		}
		if g.pr(0.35) {
			d := g.add(&Decl{Name: g.fresh(strings.Title(un.Name) + "Dict"), Kind: DNamed, Under: Map(g.keyType(), Ref(un))})
			g.uconts = append(g.uconts, d)
			g.p.Feature("named-map-of-union")
		}
	}
	// an interface without implementer (not a union), unused, in the other file
	if g.pr(0.4) {
		g.add(&Decl{Name: g.fresh("Lonely"), Kind: DIface, File: "other.go", Marker: "isLonelyNobody"})
		g.p.Feature("interface-without-implementer")
	}
}

func (g *gen) leafNoStruct() *TExpr {
	for {
		t := g.leaf(false)
		if t.K == TRef && (t.Ref.Kind == DStruct || t.Ref.Kind == DGeneric) {
			continue
		}
		return t
	}
}

// ---------------------------------------------------------------------------
// structs

func (g *gen) tagFor(fieldName string, f *Field) {
	if !g.opts.TagRich {
		return
	}
	snake := strings.ToLower(fieldName)
	switch x := g.r.Intn(40); {
	case x < 8:
		f.Tag = fmt.Sprintf(`json:"%s"`, snake)
		g.p.Feature("tag:json-name")
	case x < 10 && g.opts.Omitempty:
		f.Tag = fmt.Sprintf(`json:"%s,omitempty"`, snake)
		g.p.Feature("tag:json-name-omitempty")
	case x < 11 && g.opts.Omitempty:
		f.Tag = `json:",omitempty"`
		g.p.Feature("tag:json-empty-name-omitempty")
	case x < 13:
		f.Tag = fmt.Sprintf(`xml:"x%s" json:"%s_j"`, snake, snake)
		g.p.Feature("tag:other-key-before-json")
	case x < 14:
		f.Tag = fmt.Sprintf(`json:"%s-dash" yaml:"y"`, snake)
		g.p.Feature("tag:json-name-with-dash")
	case x == 19:
		f.Tag = fmt.Sprintf(`json:"année-%s-écoulée"`, snake)
		g.p.Feature("tag:json-name-non-ascii")
	case x == 18 && !g.usedDashComma:
		g.usedDashComma = true // the key is the fixed string "-": once per program
		f.Tag = `json:"-,"`
		g.p.Feature("tag:json-dash-comma")
	case x < 15:
		f.Tag = `gomacro-opaque:"typescript"`
		g.p.Feature("tag:opaque-typescript")
	case x < 16:
		f.Tag = `gomacro-opaque:"dart, typescript"`
		g.p.Feature("tag:opaque-both")
	case x < 18:
		f.Tag = `gomacro-data:"ignore"`
		g.p.Feature("tag:data-ignore")
	}
}

func (g *gen) makeStructs() {
	for i := 0; i < g.opts.NumStructs; i++ {
		d := &Decl{Name: g.fresh(g.pick(typeStems)), Kind: DStruct}
		if g.opts.OneLetterNames && i == 1 {
			d.Name = g.fresh(string(rune('A' + g.r.Intn(8))))
			g.p.Feature("one-letter-struct-name")
		}
		nf := 2 + g.r.Intn(6)
		used := map[string]bool{}
		for j := 0; j < nf; j++ {
			fname := g.pick(fieldStems)
			for used[fname] {
				fname = g.pick(fieldStems) + fmt.Sprint(j)
			}
			used[fname] = true
			depth := 2
			if g.opts.Depth > 0 {
				depth = g.opts.Depth
			}
			f := &Field{Name: fname, Type: g.fieldType(depth)}
			isUnionish := f.Type.K == TRef && (f.Type.Ref.Kind == DUnion)
			switch x := g.r.Intn(30); {
			case x == 0 && !isUnionish: // unexported sibling
				f.Name = strings.ToLower(fname[:1]) + fname[1:]
				f.Type = g.leafNoStruct()
				g.p.Feature("field:unexported")
			case x == 1 && !isUnionish: // json:"-" sibling
				f.Tag = `json:"-"`
				f.Type = g.leafNoStruct()
				g.p.Feature("field:json-dash")
			case x == 2 && !isUnionish:
				f.Tag = `json:"-" gomacro:"ignore"`
				f.Type = g.leafNoStruct()
				g.p.Feature("field:gomacro-ignore")
			case (x == 3 || x == 4) && !isUnionish && g.opts.IgnoreAlone:
				f.Tag = `gomacro:"ignore"`
				if x == 4 {
					f.Tag = fmt.Sprintf(`json:"%s_kept" gomacro:"ignore"`, strings.ToLower(fname))
				}
				f.Type = Basic(g.pick([]string{"int", "string", "bool"}))
				g.p.Feature("field:gomacro-ignore-alone")
			default:
				if !isUnionish {
					g.tagFor(fname, f)
				} else if g.opts.TagRich && g.pr(0.4) {
					f.Tag = fmt.Sprintf(`json:"%s_u"`, strings.ToLower(fname))
					g.p.Feature("tag:json-name-on-union-field")
				}
			}
			if g.opts.TagRich && j == 1 && i == 2 && g.pr(0.5) {
				f.Name = "Créé" + fmt.Sprint(j) // Go identifiers may use any letter
				g.p.Feature("field:non-ascii-name")
			}
			if g.opts.Bytes && j == 0 && i == 0 {
				f.Type = Slice(Basic("byte"))
				f.Tag = ""
				g.p.Feature("field:bytes")
			}
			d.Fields = append(d.Fields, f)
		}
		// embedded struct (untagged, distinct field names by construction: prefixed)
		if g.opts.Embedded && len(g.structs) > 0 && g.pr(0.5) {
			emb := g.structs[g.r.Intn(len(g.structs))]
			clash := false
			for _, ef := range flatFieldNames(emb) {
				if used[ef] {
					clash = true
				}
			}
			if !clash && !reachesSelf(emb, d) {
				d.Fields = append(d.Fields, &Field{Embedded: true, Type: Ref(emb)})
				g.p.Feature("embedded-struct")
			}
		}
		// embedded struct of ANOTHER package: the promoted fields have types of that package
		if g.opts.Embedded && g.pr(0.35) {
			for _, sd := range g.subTypes {
				if sd.Kind != DStruct {
					continue
				}
				taken := map[string]bool{}
				for _, n := range flatFieldNames(d) {
					taken[n] = true
				}
				clash := taken[sd.Name]
				for _, n := range flatFieldNames(sd) {
					if taken[n] {
						clash = true
					}
				}
				if !clash {
					d.Fields = append(d.Fields, &Field{Embedded: true, Type: Ref(sd)})
					g.p.Feature("embedded-struct-of-another-package")
				}
				break
			}
		}
		if g.pr(0.3) {
			d.Doc = []string{"" + d.Name + " is documented.", "gomacro:SQL ADD CHECK (1 = 1)"}
		}
		if g.pr(0.2) {
			d.File = "other.go"
			g.p.Feature("struct-in-other-file")
		}
		g.add(d)
		g.structs = append(g.structs, d)
		if len(g.structs) >= 1 && g.opts.Generics && i == 0 && len(g.generics) > 0 {
			g.insts = append(g.insts, Ref(g.generics[len(g.generics)-1], Ref(d)))
		}
	}
	// a map keyed by an enum having two exported constants with the same value
	for _, e := range g.enums {
		if e.Tags["duplicates"] && len(g.structs) > 0 {
			st := g.structs[g.r.Intn(len(g.structs))]
			st.Fields = append(st.Fields, &Field{Name: "ByDup" + e.Name, Type: Map(Ref(e), Basic("int"))})
			g.p.Feature("map-keyed-by-enum-with-duplicate-values")
			break
		}
	}
	if g.opts.CaseTwins {
		stem := g.fresh("Item" + g.pick(typeStems))
		lower := strings.ToLower(stem[:1]) + stem[1:]
		g.names[lower] = true
		lo := g.add(&Decl{Name: lower, Kind: DStruct, Fields: []*Field{{Name: "V", Type: Basic("string")}, {Name: "W", Type: Slice(Basic("int"))}}})
		up := g.add(&Decl{Name: stem, Kind: DStruct, Fields: []*Field{{Name: "Cache", Type: Ref(lo)}, {Name: "N", Type: Basic("int")}}})
		g.structs = append(g.structs, up)
		g.p.Feature("structs-differing-by-case-only")
	}
	if g.pr(0.2) && len(g.structs) > 0 {
		// two serialised fields whose JSON keys differ by case only (encoding/json writes both)
		st := g.structs[len(g.structs)-1]
		has := map[string]bool{}
		for _, f := range flatFieldNames(st) {
			has[strings.ToLower(f)] = true
		}
		if !has["id"] && !has["data"] {
			st.Fields = append(st.Fields, &Field{Name: "ID", Type: Basic("int")}, &Field{Name: "Id", Type: Basic("string")},
				&Field{Name: "DataLow", Type: Basic("bool"), Tag: `json:"data"`}, &Field{Name: "DataUp", Type: Slice(Basic("int")), Tag: `json:"DATA"`})
			g.p.Feature("fields:json-keys-differing-by-case-only")
		}
	}
	if g.opts.Embedded && g.opts.Unions && g.pr(0.6) {
		// a struct EMBEDDING a union interface: a field named after the interface
		for _, un := range g.unions {
			if un.Name[0] >= 'A' && un.Name[0] <= 'Z' {
				d := g.add(&Decl{Name: g.fresh("Evt" + g.pick(typeStems)), Kind: DStruct, Fields: []*Field{{Embedded: true, Type: Ref(un)}, {Name: "At", Type: Basic("int")}}})
				g.structs = append(g.structs, d)
				g.p.Feature("recursive:struct-embedding-a-union-interface") // the promoted marker method makes the struct a member of the union it holds
				break
			}
		}
	}
	if g.opts.Unions && len(g.unions) > 0 && g.pr(0.2) {
		// a named FIXED array of a union
		un := g.unions[g.r.Intn(len(g.unions))]
		d := g.add(&Decl{Name: g.fresh(strings.Title(un.Name) + "Triple"), Kind: DNamed, Under: Array(3, Ref(un))})
		g.uconts = append(g.uconts, d)
		g.p.Feature("named-fixed-array-of-union")
	}
	if g.pr(0.15) && len(g.structs) > 0 {
		// fixed arrays of the same length over two integer types
		st := g.structs[0]
		st.Fields = append(st.Fields, &Field{Name: g.fresh("TripleA"), Type: Array(3, Basic("int"))}, &Field{Name: g.fresh("TripleB"), Type: Array(3, Basic("int64"))})
		g.p.Feature("arrays-same-length-int-and-int64")
	}
	if g.opts.IgnoreAlone && len(g.unions) > 0 {
		// a struct whose ONLY union field is tagged gomacro:"ignore" (no json:"-"): encoding/json still
		// writes the field, so the struct needs its wrapper like any other
		un := g.unions[g.r.Intn(len(g.unions))]
		d := g.add(&Decl{Name: g.fresh("Audit" + g.pick(typeStems)), Kind: DStruct, Fields: []*Field{
			{Name: "Seq", Type: Basic("int")},
			{Name: "Payload", Type: Ref(un), Tag: `gomacro:"ignore"`},
		}})
		g.structs = append(g.structs, d)
		g.p.Feature("field:only-union-field-gomacro-ignore-alone")
	}
	if g.opts.Unions && g.pr(0.3) {
		// a union declared in the other file and reached ONLY through a field encoding/json does
		// not see (unexported or json:"-"): the shadow struct of the wrappers still names it
		un := g.add(&Decl{Name: g.fresh("Layout" + g.pick(unionStems)), Kind: DUnion, File: "other.go"})
		un.Marker = "is" + un.Name
		m := g.add(&Decl{Name: g.fresh(un.Name + "Grid"), Kind: DStruct, File: "other.go", Fields: []*Field{{Name: "Cols", Type: Basic("int")}}})
		m.Impls = append(m.Impls, &Impl{Union: un})
		var other *Decl
		if len(g.unions) > 0 {
			other = g.unions[0]
		}
		hidden := &Field{Name: "layout", Type: Ref(un)}
		if g.pr(0.5) {
			hidden = &Field{Name: "Layout", Type: Ref(un), Tag: `json:"-"`}
		}
		fields := []*Field{{Name: "Title", Type: Basic("string")}, hidden}
		if other != nil {
			fields = append(fields, &Field{Name: "Body", Type: Ref(other)})
		}
		d := g.add(&Decl{Name: g.fresh("Page" + g.pick(typeStems)), Kind: DStruct, Fields: fields})
		g.structs = append(g.structs, d)
		g.p.Feature("union-reached-only-through-a-non-serialised-field")
	}
	if g.opts.Embedded && len(g.structs) > 0 && g.pr(0.3) {
		// an embedded struct whose EMBEDDING carries a tag (options only: still flattened by
		// encoding/json); its own field tags must survive the promotion
		base := g.add(&Decl{Name: g.fresh("Base" + g.pick(typeStems)), Kind: DStruct, Fields: []*Field{
			{Name: g.fresh("Loaded"), Type: Map(Basic("string"), Basic("int")), Tag: `json:"-" gomacro-data:"ignore"`},
			{Name: g.fresh("Stamped"), Type: Basic("int"), Tag: `gomacro-data:"ignore"`},
			{Name: g.fresh("Kept"), Type: Basic("string"), Tag: `json:"kept_base"`},
		}})
		d := g.add(&Decl{Name: g.fresh("Inline" + g.pick(typeStems)), Kind: DStruct, Fields: []*Field{
			{Embedded: true, Type: Ref(base), Tag: `json:",omitempty"`},
			{Name: "Own", Type: Basic("int")},
		}})
		g.structs = append(g.structs, d)
		g.p.Feature("embedded-struct-with-a-tag-on-the-embedding")
	}
	if g.opts.PtrFields && len(g.structs) > 0 {
		// pointer fields (accepted by the Go generators only): to a leaf struct, to a basic,
		// inside a slice, and a struct EMBEDDING a pointer to a struct (a plain field named
		// after the type for the analysis; never flattened)
		leaf := g.add(&Decl{Name: g.fresh("Audit"), Kind: DStruct, Fields: []*Field{{Name: "CreatedBy", Type: Basic("string")}, {Name: "Rev", Type: Basic("int")}}})
		host := g.structs[len(g.structs)-1]
		host.Fields = append(host.Fields,
			&Field{Name: g.fresh("Opt" + leaf.Name), Type: Pointer(Ref(leaf))},
			&Field{Name: g.fresh("OptNum"), Type: Pointer(Basic("int"))},
			&Field{Name: g.fresh("Opts" + leaf.Name), Type: Slice(Pointer(Ref(leaf)))})
		doc := g.add(&Decl{Name: g.fresh("Doc" + g.pick(typeStems)), Kind: DStruct, Fields: []*Field{{Embedded: true, Type: Pointer(Ref(leaf))}, {Name: "Title", Type: Basic("string")}}})
		g.structs = append(g.structs, leaf, doc)
		g.p.Feature("pointer-fields")
		g.p.Feature("embedded-pointer-to-struct")
	}
	// an embedded unexported struct type with exported fields
	if g.opts.Embedded && g.pr(0.4) {
		inner := g.add(&Decl{Name: g.fresh("innerPart"), Kind: DStruct, File: "other.go", Fields: []*Field{{Name: "PartA", Type: Basic("int")}, {Name: "PartB", Type: Basic("string"), Tag: `json:"part_b"`}}})
		outer := g.add(&Decl{Name: g.fresh("Outer" + g.pick(typeStems)), Kind: DStruct, Fields: []*Field{{Name: "Head", Type: Basic("string")}, {Embedded: true, Type: Ref(inner)}}})
		g.structs = append(g.structs, outer)
		g.p.Feature("embedded-unexported-struct-type")
	}
}

func flatFieldNames(d *Decl) []string {
	var out []string
	for _, f := range d.Fields {
		if f.Embedded && f.Type.K == TRef {
			out = append(out, flatFieldNames(f.Type.Ref)...)
			out = append(out, f.Type.Ref.Name)
		} else {
			out = append(out, f.Name)
		}
	}
	return out
}

func reachesSelf(from, target *Decl) bool { return from == target }

// ---------------------------------------------------------------------------
// recursive shapes

func (g *gen) makeRecursive() {
	if g.pr(0.3) {
		// cycles made of named types and maps / slices only (no struct on the cycle)
		ns := g.add(&Decl{Name: g.fresh("Namespace"), Kind: DNamed})
		ns.Under = Map(Basic("string"), Ref(ns))
		lv := g.add(&Decl{Name: g.fresh("Nesting"), Kind: DNamed})
		lv.Under = Slice(Ref(lv))
		holder := g.add(&Decl{Name: g.fresh("Scope"), Kind: DStruct, Fields: []*Field{{Name: "Spaces", Type: Ref(ns)}, {Name: "Levels", Type: Ref(lv)}}})
		g.structs = append(g.structs, holder)
		g.p.Feature("recursive:named-map-and-slice-only")
	}
	if len(g.unions) > 0 && g.pr(0.4) {
		// a JSON-like union: a named map of the union is itself a member
		un := g.unions[g.r.Intn(len(g.unions))]
		obj := g.add(&Decl{Name: g.fresh(strings.Title(un.Name) + "Object"), Kind: DNamed, Under: Map(Basic("string"), Ref(un))})
		obj.Impls = append(obj.Impls, &Impl{Union: un})
		g.p.Feature("recursive:union-member-is-map-of-the-union")
		if g.pr(0.5) {
			obj.File = "other.go" // reached only through the union
			g.p.Feature("recursive:container-member-declared-in-other-file")
		}
		if g.pr(0.5) {
			grp := g.add(&Decl{Name: g.fresh(strings.Title(un.Name) + "Group"), Kind: DNamed, Under: Slice(Ref(un)), File: "other.go"})
			grp.Impls = append(grp.Impls, &Impl{Union: un})
			g.p.Feature("recursive:union-member-is-slice-of-the-union-in-other-file")
		}
	}
	if g.opts.Pointers {
		// pointer shapes: linked struct, self-referencing named array of pointers, mutual named arrays
		n := g.add(&Decl{Name: g.fresh("Linked"), Kind: DStruct})
		n.Fields = []*Field{{Name: "Val", Type: Basic("int")}, {Name: "Next", Type: Pointer(Ref(n))}, {Name: "Pair", Type: Array(2, Pointer(Ref(n)))}, {Name: "ByName", Type: Map(Basic("string"), Pointer(Ref(n)))}}
		tr := g.add(&Decl{Name: g.fresh("PtrTree"), Kind: DNamed})
		tr.Under = Array(2, Pointer(Ref(tr)))
		a := g.add(&Decl{Name: g.fresh("PtrPing"), Kind: DNamed})
		b := g.add(&Decl{Name: g.fresh("PtrPong"), Kind: DNamed})
		a.Under, b.Under = Array(2, Pointer(Ref(b))), Array(3, Pointer(Ref(a)))
		sl := g.add(&Decl{Name: g.fresh("PtrList"), Kind: DNamed})
		sl.Under = Slice(Pointer(Ref(sl)))
		km := g.add(&Decl{Name: g.fresh("PtrKeyed"), Kind: DNamed})
		km.Under = Map(Pointer(Ref(km)), Basic("float64")) // the KEY leads back to the map
		g.p.Feature("recursive:pointers")
	}
	if g.pr(0.25) {
		// a cycle of 3-4 structs through slices, maps and named slices
		k := 3 + g.r.Intn(2)
		var ds []*Decl
		for i := 0; i < k; i++ {
			ds = append(ds, g.add(&Decl{Name: g.fresh(fmt.Sprintf("Ring%c", 'A'+i)), Kind: DStruct}))
		}
		for i, d := range ds {
			next := ds[(i+1)%k]
			var t *TExpr
			switch i % 3 {
			case 0:
				t = Slice(Ref(next))
			case 1:
				t = Map(Basic("string"), Ref(next))
			default:
				t = Slice(Slice(Ref(next)))
			}
			d.Fields = []*Field{{Name: "Tag" + d.Name, Type: Basic("int")}, {Name: "Next", Type: t}}
			if g.pr(0.3) {
				d.File = "other.go"
			}
			g.structs = append(g.structs, d)
		}
		g.p.Feature(fmt.Sprintf("recursive:cycle-of-%d", k))
		return
	}
	switch g.r.Intn(5) {
	case 0: // self through a slice
		d := g.add(&Decl{Name: g.fresh("Tree"), Kind: DStruct})
		d.Fields = []*Field{{Name: "Label", Type: Basic("string")}, {Name: "Children", Type: Slice(Ref(d))}}
		g.structs = append(g.structs, d)
		g.p.Feature("recursive:self-slice")
	case 1: // self through a map
		d := g.add(&Decl{Name: g.fresh("Trie"), Kind: DStruct})
		d.Fields = []*Field{{Name: "Leaf", Type: Basic("bool")}, {Name: "Next", Type: Map(Basic("string"), Ref(d))}}
		g.structs = append(g.structs, d)
		g.p.Feature("recursive:self-map")
	case 2: // mutual recursion through slices
		a := g.add(&Decl{Name: g.fresh("Folder"), Kind: DStruct})
		b := g.add(&Decl{Name: g.fresh("Entry"), Kind: DStruct})
		a.Fields = []*Field{{Name: "Entries", Type: Slice(Ref(b))}, {Name: "Depth", Type: Basic("int")}}
		b.Fields = []*Field{{Name: "Title", Type: Basic("string")}, {Name: "Sub", Type: Slice(Ref(a))}}
		g.structs = append(g.structs, a, b)
		g.p.Feature("recursive:mutual")
	case 3: // named slice of itself' struct
		d := g.add(&Decl{Name: g.fresh("Chain"), Kind: DStruct})
		l := g.add(&Decl{Name: g.fresh("Chains"), Kind: DNamed, Under: Slice(Ref(d))})
		d.Fields = []*Field{{Name: "Id", Type: Basic("int")}, {Name: "Rest", Type: Ref(l)}}
		g.structs = append(g.structs, d)
		g.nameds = append(g.nameds, l)
		g.p.Feature("recursive:named-slice")
	default: // through a union
		if len(g.unions) == 0 {
			d := g.add(&Decl{Name: g.fresh("Tree"), Kind: DStruct})
			d.Fields = []*Field{{Name: "Children", Type: Slice(Ref(d))}}
			g.structs = append(g.structs, d)
			g.p.Feature("recursive:self-slice")
			return
		}
		un := g.unions[g.r.Intn(len(g.unions))]
		list := g.add(&Decl{Name: g.fresh(strings.Title(un.Name) + "Kids"), Kind: DNamed, Under: Slice(Ref(un))})
		d := g.add(&Decl{Name: g.fresh("Group" + strings.Title(un.Name)), Kind: DStruct})
		d.Fields = []*Field{{Name: "Tag", Type: Basic("string")}, {Name: "Kids", Type: Ref(list)}}
		d.Impls = append(d.Impls, &Impl{Union: un})
		if g.pr(0.5) {
			d.File, list.File = "other.go", "other.go" // only reached as a union member
			g.p.Feature("recursive:through-union-member-in-other-file")
		}
		g.structs = append(g.structs, d)
		g.p.Feature("recursive:through-union")
	}
}

// ---------------------------------------------------------------------------
// aliases

func (g *gen) makeAliases() {
	if len(g.structs) == 0 {
		return
	}
	target := g.structs[g.r.Intn(len(g.structs))]
	al := g.add(&Decl{Name: g.fresh("Alias" + target.Name), Kind: DAlias, Under: Ref(target)})
	al.Tag("alias")
	// a struct using the alias as a field type
	user := g.add(&Decl{Name: g.fresh("User" + target.Name), Kind: DStruct, Fields: []*Field{{Name: "Via", Type: Ref(al)}, {Name: "Direct", Type: Ref(target)}}})
	g.structs = append(g.structs, user)
	g.p.Feature("alias")
	if g.pr(0.5) {
		al.File = "other.go"
		g.p.Feature("alias-in-other-file")
	}
}

// makeOtherFileNoise adds declarations that must not influence the analysis of models.go.
func (g *gen) makeOtherFileNoise() {
	g.root.AddExtra("other.go", fmt.Sprintf("// %s documents the package noise.\nvar noise%s = 42\n\nconst untypedNoise%s = 7", g.p.ID, g.p.ID, g.p.ID))
}

// shuffleDecls permutes declaration order inside files (Go does not care), keeping
// groups contiguous; aliases may end up before or after their first use.
func (g *gen) shuffleDecls() {
	decls := g.root.Decls
	g.r.Shuffle(len(decls), func(i, j int) { decls[i], decls[j] = decls[j], decls[i] })
	// a grouped type declaration with 2-3 named non-struct members of models.go
	var cand []int
	for i, d := range decls {
		if d.File == "models.go" && (d.Kind == DNamed || d.Kind == DEnum) && len(cand) < 3 {
			cand = append(cand, i)
		}
	}
	if len(cand) >= 2 && g.pr(0.6) {
		// move them next to each other at the end
		var grouped, rest []*Decl
		in := map[int]bool{}
		for _, i := range cand {
			in[i] = true
		}
		for i, d := range decls {
			if in[i] {
				d.Group = 1
				grouped = append(grouped, d)
			} else {
				rest = append(rest, d)
			}
		}
		pos := g.r.Intn(len(rest) + 1)
		decls = append(append(append([]*Decl{}, rest[:pos]...), grouped...), rest[pos:]...)
		g.p.Feature("grouped-type-declaration")
	}
	g.root.Decls = decls
}
