package synth

import (
	"fmt"
)

// UnsupForm is one unsupported (or unusual) type form.
type UnsupForm struct {
	Name       string
	Src        string
	Imports    []string
	Comparable bool // usable as a map key
	Embeddable bool // legal as an embedded field as written
	NeedsUnion bool
	// TopLevelOnly: the form names the declared type itself (type Odd *Odd)
	TopLevelOnly bool
}

var UnsupForms = []UnsupForm{
	{Name: "pointer-struct", Src: "*Item", Comparable: true, Embeddable: true},
	{Name: "pointer-basic", Src: "*int", Comparable: true},
	{Name: "pointer-pointer", Src: "**Item", Comparable: true},
	{Name: "chan", Src: "chan int", Comparable: true},
	{Name: "func", Src: "func(int) string"},
	{Name: "anon-struct", Src: "struct{ A int; B string }", Comparable: true},
	{Name: "empty-anon-struct", Src: "struct{}", Comparable: true},
	{Name: "complex128", Src: "complex128", Comparable: true},
	{Name: "complex64", Src: "complex64", Comparable: true},
	{Name: "uintptr", Src: "uintptr", Comparable: true},
	{Name: "any", Src: "any", Comparable: true},
	{Name: "empty-interface", Src: "interface{}", Comparable: true},
	{Name: "error", Src: "error", Comparable: true, Embeddable: true},
	{Name: "foreign-interface", Src: "fmt.Stringer", Imports: []string{"fmt"}, Comparable: true, Embeddable: true},
	{Name: "anon-interface", Src: "interface{ M() }", Comparable: true},
	{Name: "slice-of-union", Src: "[]Shape", NeedsUnion: true},
	{Name: "map-of-union", Src: "map[string]Shape", NeedsUnion: true},
	{Name: "array-of-union", Src: "[2]Shape", NeedsUnion: true, Comparable: true},
	{Name: "slice-of-pointer", Src: "[]*Item"},
	{Name: "unsafe-pointer", Src: "unsafe.Pointer", Imports: []string{"unsafe"}, Comparable: true},
	{Name: "stdlib-struct-with-pointers", Src: "url.URL", Imports: []string{"net/url"}, Embeddable: true},
	{Name: "big-int", Src: "big.Int", Imports: []string{"math/big"}, Embeddable: true},
	{Name: "lonely-interface", Src: "Lonely", Comparable: true, Embeddable: true},
	{Name: "self-referencing-named-pointer", Src: "*Odd", Comparable: true, TopLevelOnly: true}, // type Odd *Odd
	{Name: "self-referencing-pointer-to-slice", Src: "*[]Odd", Comparable: true, TopLevelOnly: true},
}

var UnsupPositions = []string{"top-level", "field", "slice-elem", "map-value", "map-key", "array-elem", "member-field", "embedded", "type-arg", "named-slice", "nested-field"}

// NewUnsupProg builds a program placing form f at position pos. ok=false when
// the combination is not legal Go.
func NewUnsupProg(idx int, f UnsupForm, pos string) (*Program, bool) {
	id := fmt.Sprintf("u%04d", idx)
	root := &Pkg{Name: "pk" + id, Path: ModulePath + "/" + id, Dir: id}
	p := &Program{ID: id, Family: "unsup", Root: root, Meta: map[string]any{"form": f.Name, "position": pos}}
	p.Sources = []string{id + "/models.go"}
	p.Feature("unsup-form:" + f.Name)
	p.Feature("unsup-position:" + pos)

	item := &Decl{Name: "Item", Pkg: root, File: "other.go", Kind: DStruct, Fields: []*Field{{Name: "A", Type: Basic("int")}}}
	shape := &Decl{Name: "Shape", Pkg: root, File: "other.go", Kind: DUnion, Marker: "isShape"}
	circle := &Decl{Name: "Circle", Pkg: root, File: "other.go", Kind: DStruct, Fields: []*Field{{Name: "R", Type: Basic("float64")}}, Impls: []*Impl{{Union: shape}}}
	lonely := &Decl{Name: "Lonely", Pkg: root, File: "other.go", Kind: DIface, Marker: "isLonelyNobody"}
	box := &Decl{Name: "Box", Pkg: root, File: "other.go", Kind: DGeneric, TParams: "[T any]", Fields: []*Field{{Name: "V", Type: Raw("T")}}}
	root.Decls = append(root.Decls, item, shape, circle, lonely, box)

	if f.TopLevelOnly && pos != "top-level" {
		return nil, false
	}
	form := Raw(f.Src, f.Imports...)
	holder := &Decl{Name: "Holder", Pkg: root, File: "models.go", Kind: DStruct, Fields: []*Field{{Name: "Before", Type: Basic("string")}}}
	switch pos {
	case "top-level":
		root.Decls = append(root.Decls, &Decl{Name: "Odd", Pkg: root, File: "models.go", Kind: DNamed, Under: form})
		return p, true
	case "field":
		holder.Fields = append(holder.Fields, &Field{Name: "F", Type: form})
	case "slice-elem":
		holder.Fields = append(holder.Fields, &Field{Name: "F", Type: Slice(form)})
	case "map-value":
		holder.Fields = append(holder.Fields, &Field{Name: "F", Type: Map(Basic("string"), form)})
	case "map-key":
		if !f.Comparable {
			return nil, false
		}
		holder.Fields = append(holder.Fields, &Field{Name: "F", Type: Map(form, Basic("int"))})
	case "array-elem":
		holder.Fields = append(holder.Fields, &Field{Name: "F", Type: Array(2, form)})
	case "member-field":
		// field of a struct that is a union member, reached through the union
		member := &Decl{Name: "OddMember", Pkg: root, File: "other.go", Kind: DStruct, Fields: []*Field{{Name: "F", Type: form}}, Impls: []*Impl{{Union: shape}}}
		root.Decls = append(root.Decls, member)
		holder.Fields = append(holder.Fields, &Field{Name: "S", Type: Ref(shape)})
	case "embedded":
		if !f.Embeddable {
			return nil, false
		}
		holder.Fields = append(holder.Fields, &Field{Embedded: true, Type: form})
	case "type-arg":
		holder.Fields = append(holder.Fields, &Field{Name: "F", Type: Ref(box, form)})
	case "named-slice":
		root.Decls = append(root.Decls, &Decl{Name: "OddList", Pkg: root, File: "models.go", Kind: DNamed, Under: Slice(form)})
		return p, true
	case "nested-field":
		inner := &Decl{Name: "Inner", Pkg: root, File: "other.go", Kind: DStruct, Fields: []*Field{{Name: "F", Type: form}}}
		root.Decls = append(root.Decls, inner)
		holder.Fields = append(holder.Fields, &Field{Name: "In", Type: Slice(Ref(inner))})
	default:
		return nil, false
	}
	holder.Fields = append(holder.Fields, &Field{Name: "After", Type: Basic("int")})
	root.Decls = append(root.Decls, holder)
	return p, true
}

// AllUnsupPlacements enumerates the legal (form, position) pairs.
func AllUnsupPlacements() [][2]int {
	var out [][2]int
	for i := range UnsupForms {
		for j := range UnsupPositions {
			if _, ok := NewUnsupProg(0, UnsupForms[i], UnsupPositions[j]); ok {
				out = append(out, [2]int{i, j})
			}
		}
	}
	return out
}
