package synth

import (
	"fmt"
	"math/rand"
	"strings"
)

// RouteParam is one typed query parameter or the JSON form field.
type RouteParam struct {
	Name string `json:"name"`
	Type string `json:"type"` // types.Type.String() form
	Kind string `json:"kind"` // string | int | bool (basic kind of the underlying type)
}

// RouteTruth is what one registration was meant to be.
type RouteTruth struct {
	Verb        string `json:"verb"`
	URL         string `json:"url"`
	Handler     string `json:"handler"` // "" for function literals (any Anonymous<digits> name)
	HandlerForm string `json:"handler_form"`
	PathForm    string `json:"path_form"`
	Input       string `json:"input"`  // bound type, "" if none
	Return      string `json:"return"` // returned type, "" if none
	Blob        bool   `json:"blob"`
	// a handler with two success returns of different kinds (one in a branch, one at the end): the statement
	// does not say which one is THE return, so either is accepted - but the type and the blob flag must
	// describe the same return statement
	HasAlt     bool         `json:"has_alt,omitempty"`
	AltReturn  string       `json:"alt_return,omitempty"`
	AltBlob    bool         `json:"alt_blob,omitempty"`
	Query      []RouteParam `json:"query"`
	FormValues []string     `json:"form_values"`
	FormFile   string       `json:"form_file"`
	FormJSON   *RouteParam  `json:"form_json,omitempty"`
}

type RoutesTruth struct {
	Routes  []RouteTruth `json:"routes"`
	PkgPath string       `json:"pkg_path"`
}

const echoSource = `// Package echo is a substitute for the http framework echo package.
package echo

import "mime/multipart"

type Context interface {
	Bind(interface{}) error
	JSON(int, interface{}) error
	JSONPretty(int, interface{}, string) error
	QueryParam(string) string
	Blob(code int, contentType string, b []byte) error
	FormValue(name string) string
	FormFile(name string) (*multipart.FileHeader, error)
}

type Echo struct{}

type Middleware func(func(Context) error) func(Context) error

func (Echo) GET(string, func(Context) error, ...Middleware)    {}
func (Echo) POST(string, func(Context) error, ...Middleware)   {}
func (Echo) PUT(string, func(Context) error, ...Middleware)    {}
func (Echo) DELETE(string, func(Context) error, ...Middleware) {}
`

type routeGen struct {
	r         *rand.Rand
	id        string
	pkg       string
	truth     *RoutesTruth
	body      strings.Builder // handlers and types
	inner     strings.Builder // inner package
	nh        int
	types     []routeType
	idType    string
	twinNames []string
	// noInts: no plain integer anywhere (fields, parameters) except as the KEY of a returned map
	noInts    bool
	mixedSeen bool
}

type routeType struct {
	expr string // Go expression as written in the root package
	str  string // types.Type.String()
	decl bool
}

func (g *routeGen) pr(x float64) bool        { return g.r.Float64() < x }
func (g *routeGen) pick(xs ...string) string { return xs[g.r.Intn(len(xs))] }

// NewRouteProg builds route file number idx. c14 restricts the contracts to
// the client's domain (bodies and forms on POST/PUT only).
func NewRouteProg(idx int, r *rand.Rand, c14 bool) *Program {
	id := fmt.Sprintf("r%04d", idx)
	pkgPath := ModulePath + "/" + id
	g := &routeGen{r: r, id: id, pkg: pkgPath, truth: &RoutesTruth{PkgPath: pkgPath}}
	p := &Program{ID: id, Family: "routeprog", Root: &Pkg{Name: "main", Path: pkgPath, Dir: id}, Meta: map[string]any{}, RawFiles: map[string]string{}}
	p.Sources = []string{id + "/routes.go"}

	g.noInts = c14 && idx%5 == 4
	if g.noInts {
		p.Feature("route:integers-only-as-map-keys")
	}
	// payload types
	g.idType = "Id" + g.pick("Dossier", "Item", "Client")
	var decls strings.Builder
	fmt.Fprintf(&decls, "type %s int64\n\n", g.idType)
	structs := []string{}
	withEnum := !g.noInts && g.pr(0.5)
	if withEnum {
		// an enum whose labels (trailing comments) contain percent signs
		decls.WriteString("type Discount int\n\nconst (\n\tDiscountNone Discount = iota // 0% (full price)\n\tDiscountHalf                  // 50% off\n\tDiscountAll                   // 100%d percent %s\n)\n\n")
		p.Feature("route:enum-labels-with-percent-signs")
	}
	blobNamed := g.pr(0.3)
	for i := 0; i < 2+g.r.Intn(3); i++ {
		name := fmt.Sprintf("%s%d", g.pick("Payload", "Answer", "Query", "Report"), i)
		if i == 1 && blobNamed {
			name = "Blob" // an ordinary JSON payload called like the TypeScript type of file downloads
			p.Feature("route:struct-named-Blob")
		}
		fa, fc := "int", g.pick("int", "string", g.idType)
		if g.noInts {
			fa, fc = "bool", "string"
		}
		if withEnum && i == 0 {
			fc = "Discount"
		}
		fmt.Fprintf(&decls, "type %s struct {\n\tA %s\n\tB string `json:\"b\"`\n\tC []%s\n}\n\n", name, fa, fc)
		structs = append(structs, name)
		g.types = append(g.types, routeType{expr: name, str: pkgPath + "." + name, decl: true})
	}
	// the generic declaration lives in another file of the package (a generic declaration in the analysed file is refused by the analysis)
	p.RawFiles[id+"/generic.go"] = "package main\n\ntype Page[T any] struct {\n\tItems []T\n\tTotal int\n}\n"
	g.types = append(g.types,
		routeType{expr: "Page[" + structs[0] + "]", str: pkgPath + ".Page[" + pkgPath + "." + structs[0] + "]", decl: true},
		routeType{expr: "Page[" + structs[1] + "]", str: pkgPath + ".Page[" + pkgPath + "." + structs[1] + "]", decl: true},
	)
	if g.noInts {
		g.types = g.types[:len(structs)] // no Page[T] (it has an int field)
		g.types = append(g.types,
			routeType{expr: "string", str: "string"},
			routeType{expr: "[]" + structs[0], str: "[]" + pkgPath + "." + structs[0]},
			routeType{expr: "map[int64]string", str: "map[int64]string"},
			routeType{expr: "map[int]bool", str: "map[int]bool"},
			routeType{expr: "map[int64]string", str: "map[int64]string"},
		)
	} else {
		g.types = append(g.types,
			routeType{expr: "[]int64", str: "[]int64"},
			routeType{expr: "int", str: "int"},
			routeType{expr: "string", str: "string"},
			routeType{expr: "map[string][]int", str: "map[string][]int"},
			routeType{expr: "[]" + structs[0], str: "[]" + pkgPath + "." + structs[0]},
			routeType{expr: "uint", str: "uint"},
			routeType{expr: g.idType, str: pkgPath + "." + g.idType},
		)
	}

	var reg strings.Builder  // body of the routes function
	var reg2 strings.Builder // body of a second registration function, whose local constant shadows nothing but has the same NAME as the first one's
	twoFuncs := g.pr(0.7)
	var handlers strings.Builder
	nRoutes := 6 + g.r.Intn(12)
	usedInnerMethod, usedInnerFunc := false, false
	for i := 0; i < nRoutes; i++ {
		rt := RouteTruth{}
		rt.Verb = g.pick("GET", "POST", "PUT", "DELETE", "POST", "GET")
		// path expression
		var pathExpr string
		switch g.r.Intn(8) {
		case 0:
			pathExpr, rt.URL, rt.PathForm = "pkgRoute", "/const_url_from_package/", "package-const"
		case 1:
			pathExpr, rt.URL, rt.PathForm = "localRoute", "const_local_url", "local-const"
		case 2:
			pathExpr, rt.URL, rt.PathForm = "inner.Url", "/const_url_from_inner_package/", "imported-const"
		case 3:
			s := fmt.Sprintf("endpoint%d", i)
			pathExpr, rt.URL, rt.PathForm = fmt.Sprintf("inner.Url+%q", s), "/const_url_from_inner_package/"+s, "imported-const-concat"
		case 4:
			s := fmt.Sprintf("entoher%d/", i)
			pathExpr, rt.URL, rt.PathForm = fmt.Sprintf("inner.Url+\"endpoint/\"+%q+localRoute", s), "/const_url_from_inner_package/endpoint/"+s+"const_local_url", "three-part-concat"
		case 5:
			pathExpr, rt.URL, rt.PathForm = `"host"+pkgRoute`, "host/const_url_from_package/", "literal-plus-const"
		default:
			s := fmt.Sprintf("/api/%s/route%d/:param", g.pick("v1", "admin", "public", "caf%C3%A9", "my%20file", "100%d", "%s"), i)
			pathExpr, rt.URL, rt.PathForm = fmt.Sprintf("%q", s), s, "literal"
			if g.pr(0.25) {
				s2 := g.pick("/api/v1", "/api/v1-docs/r", "/api", "/apiv1/r", "api/no-leading-slash/r") + fmt.Sprint(i)
				if g.pr(0.3) {
					s2 = g.pick("/api/v1", "/api") // the stem itself (once per value at most matters little)
				}
				pathExpr, rt.URL, rt.PathForm = fmt.Sprintf("%q", s2), s2, "literal-sharing-a-prefix-stem"
			} else if g.pr(0.2) {
				// an interpreted literal spelled with escape sequences: its VALUE is the URL
				pathExpr = fmt.Sprintf(`"/api\x2fesc\u00e9/\"q\"/route%d/:param"`, i)
				rt.URL, rt.PathForm = fmt.Sprintf(`/api/escé/"q"/route%d/:param`, i), "literal-with-escapes"
			}
		}
		inSecond := twoFuncs && i >= nRoutes-2
		if twoFuncs && i == 0 {
			pathExpr, rt.URL, rt.PathForm = `localRoute+"/shared"`, "const_local_url/shared", "local-const-same-text-as-in-other-function"
		}
		if inSecond {
			if i == nRoutes-1 {
				pathExpr, rt.URL, rt.PathForm = `localRoute+"/shared"`, "admin_local_url/shared", "local-const-same-text-as-in-other-function"
			} else {
				su := fmt.Sprintf("/api/admin/second%d", i)
				pathExpr, rt.URL, rt.PathForm = fmt.Sprintf("%q", su), su, "literal"
			}
		}
		// the URL must be unique enough for readable reports
		if rt.PathForm == "package-const" || rt.PathForm == "local-const" || rt.PathForm == "imported-const" || rt.PathForm == "literal-plus-const" {
			suffix := fmt.Sprintf("/r%d", i)
			pathExpr += fmt.Sprintf("+%q", suffix)
			rt.URL += suffix
		}
		// handler form
		var handlerExpr string
		form := g.r.Intn(10)
		switch {
		case form == 0 && !usedInnerMethod && !g.noInts:
			usedInnerMethod = true
			if c14 {
				rt.Verb = "POST" // HandleExt binds a body
			}
			handlerExpr, rt.Handler, rt.HandlerForm = "ct2.HandleExt", "HandleExt", "imported-method"
			rt.Input, rt.Return = "[]int64", "map[string][]int"
			rt.Query = []RouteParam{{Name: "query1", Type: "string", Kind: "string"}, {Name: "query2", Type: "string", Kind: "string"}}
		case form == 1 && !usedInnerFunc:
			usedInnerFunc = true
			handlerExpr, rt.Handler, rt.HandlerForm = "inner.TopLevel", "TopLevel", "imported-function"
		case form == 2:
			rt.HandlerForm = "function-literal"
			body := g.handlerBody(&rt, "ctx", c14, true)
			handlerExpr = "func(ctx echo.Context) error {\n" + indent(body, "\t\t") + "\t}"
		case form == 3:
			g.nh++
			name := fmt.Sprintf("plainHandler%d", g.nh)
			rt.Handler, rt.HandlerForm = name, "function"
			body := g.handlerBody(&rt, "c", c14, true)
			fmt.Fprintf(&handlers, "func %s(c echo.Context) error {\n%s}\n\n", name, indent(body, "\t"))
			handlerExpr = name
		case form == 4 && g.nh > 0 && !c14 && len(g.twinNames) < g.nh:
			// a method of ANOTHER controller type carrying the same name as a method of the first one
			name := fmt.Sprintf("handler%d", len(g.twinNames)+1)
			g.twinNames = append(g.twinNames, name)
			rt.Handler, rt.HandlerForm = name, "same-named-method-of-other-type"
			body := g.handlerBody(&rt, "c", c14, true)
			fmt.Fprintf(&handlers, "func (oc otherCtrl) %s(c echo.Context) error {\n%s}\n\n", name, indent(body, "\t"))
			handlerExpr = "oc." + name
		default:
			g.nh++
			name := fmt.Sprintf("handler%d", g.nh)
			rt.Handler, rt.HandlerForm = name, "method"
			body := g.handlerBody(&rt, "c", c14, false)
			fmt.Fprintf(&handlers, "func (ct controller) %s(c echo.Context) error {\n%s}\n\n", name, indent(body, "\t"))
			handlerExpr = "ct." + name
		}
		if g.pr(0.25) {
			handlerExpr += ", logMiddleware" // registrations with middlewares are registrations too
			rt.PathForm += "+middleware"
		}
		if inSecond {
			fmt.Fprintf(&reg2, "\te.%s(%s, %s)\n", rt.Verb, pathExpr, handlerExpr)
			g.truth.Routes = append(g.truth.Routes, rt)
			continue
		}
		fmt.Fprintf(&reg, "\te.%s(%s, %s)\n", rt.Verb, pathExpr, handlerExpr)
		if i == nRoutes/2 {
			reg.WriteString("\tconst localLate = \"late\"\n\t_ = localLate\n")
		}
		g.truth.Routes = append(g.truth.Routes, rt)
	}

	var src strings.Builder
	src.WriteString("package main\n\nimport (\n\t\"fmt\"\n\n")
	fmt.Fprintf(&src, "\t%q\n\t%q\n)\n\n", pkgPath+"/echo", pkgPath+"/inner")
	src.WriteString("const pkgRoute = \"/const_url_from_package/\"\n\n")
	src.WriteString(decls.String())
	src.WriteString("type controller struct{}\n\ntype otherCtrl struct{}\n\nfunc logMiddleware(next func(echo.Context) error) func(echo.Context) error { return next }\n\n")
	src.WriteString("func QueryParamInt[T ~int64](echo.Context, string) (T, error) { return 0, nil }\nfunc (controller) QueryParamInt64(echo.Context, string) int64 { return 0 }\nfunc (controller) QueryParamBool(echo.Context, string) bool   { return false }\nfunc FormValueJSON(echo.Context, string, any) error           { return nil }\n\n")
	src.WriteString(handlers.String())
	src.WriteString("func routes(e *echo.Echo, ct *controller, ct2 inner.Controller, oc otherCtrl) {\n\tconst localRoute = \"const_local_url\"\n")
	src.WriteString(reg.String())
	src.WriteString("}\n\n")
	if twoFuncs {
		src.WriteString("func adminRoutes(e *echo.Echo, ct *controller, ct2 inner.Controller, oc otherCtrl) {\n\tconst localRoute = \"admin_local_url\"\n")
		src.WriteString(reg2.String())
		src.WriteString("}\n\n")
		p.Feature("route:two-registration-functions-same-local-const-name")
	}
	if g.mixedSeen {
		p.Feature("route:two-return-kinds")
	}
	src.WriteString("func main() { fmt.Println(\"routes\") }\n")

	innerSrc := "// Package inner holds handlers declared in another package.\npackage inner\n\nimport (\n\t\"fmt\"\n\n\t\"" + pkgPath + "/echo\"\n)\n\nconst Url = \"/const_url_from_inner_package/\"\n\ntype Controller struct{}\n\nfunc (Controller) HandleExt(c echo.Context) error {\n\tvar in []int64\n\tt, v := c.QueryParam(\"query1\"), c.QueryParam(\"query2\")\n\terr := c.Bind(&in)\n\t_ = fmt.Errorf(\"%s%s%s\", t, v, err)\n\tvar out map[string][]int\n\treturn c.JSON(200, out)\n}\n\nfunc TopLevel(c echo.Context) error {\n\treturn nil\n}\n"
	p.RawFiles[id+"/routes.go"] = src.String()
	p.RawFiles[id+"/echo/echo.go"] = echoSource
	p.RawFiles[id+"/inner/inner.go"] = innerSrc
	p.Meta["routes"] = g.truth
	for _, rt := range g.truth.Routes {
		p.Feature("route:verb:" + rt.Verb)
		p.Feature("route:path:" + rt.PathForm)
		p.Feature("route:handler:" + rt.HandlerForm)
		if rt.Input != "" {
			p.Feature("route:bind")
		}
		if rt.Blob {
			p.Feature("route:blob")
		}
		if rt.FormJSON != nil {
			p.Feature("route:form-json")
		}
		if rt.FormFile != "" {
			p.Feature("route:form-file")
		}
		if len(rt.Query) > 0 {
			p.Feature("route:query-params")
		}
	}
	return p
}

func indent(s, pre string) string {
	var sb strings.Builder
	for _, l := range strings.Split(strings.TrimRight(s, "\n"), "\n") {
		sb.WriteString(pre + l + "\n")
	}
	return sb.String()
}

// handlerBody writes a handler body and fills the contract of rt.
func (g *routeGen) handlerBody(rt *RouteTruth, c string, c14, plain bool) string {
	var sb strings.Builder
	var used []string
	bodyAllowed := !c14 || rt.Verb == "POST" || rt.Verb == "PUT"
	nq := 0
	// inputs
	if bodyAllowed && g.pr(0.4) {
		t := g.types[g.r.Intn(len(g.types))]
		rt.Input = t.str
		if g.pr(0.7) {
			fmt.Fprintf(&sb, "var in %s\nif err := %s.Bind(&in); err != nil {\n\treturn err\n}\n", t.expr, c)
		} else {
			fmt.Fprintf(&sb, "var in %s\nerr := %s.Bind(&in)\nif err != nil {\n\treturn err\n}\n", t.expr, c)
		}
	} else if bodyAllowed && g.pr(0.35) {
		// form data
		if g.pr(0.6) {
			n := fmt.Sprintf("%s_%d", g.pick("value", "value", "rate%"), g.r.Intn(9))
			fmt.Fprintf(&sb, "fv := %s.FormValue(%q)\n", c, n)
			rt.FormValues = append(rt.FormValues, n)
			used = append(used, "fv")
			if g.pr(0.4) {
				n2 := n + "_bis"
				fmt.Fprintf(&sb, "fv2 := %s.FormValue(%q)\n", c, n2)
				rt.FormValues = append(rt.FormValues, n2)
				used = append(used, "fv2")
			}
		}
		if g.pr(0.5) {
			n := fmt.Sprintf("file_%d", g.r.Intn(9))
			fmt.Fprintf(&sb, "fh, _ := %s.FormFile(%q)\n", c, n)
			rt.FormFile = n
			used = append(used, "fh")
		}
		if g.pr(0.5) || (len(rt.FormValues) == 0 && rt.FormFile == "") {
			t := g.types[g.r.Intn(len(g.types))]
			n := fmt.Sprintf("json-field%s-%d", g.pick("", "", "%v"), g.r.Intn(9))
			fmt.Fprintf(&sb, "var jv %s\n_ = FormValueJSON(%s, %q, &jv)\n", t.expr, c, n)
			rt.FormJSON = &RouteParam{Name: n, Type: t.str}
		}
	}
	// query parameters
	for i := 0; i < g.r.Intn(4); i++ {
		nq++
		name := fmt.Sprintf("%s%d", g.pick("id-", "param_", "q", "my-", "pct%", "%s_"), nq)
		v := fmt.Sprintf("qp%d", nq)
		kind := g.r.Intn(4)
		if plain && (kind == 1 || kind == 2) {
			kind = 0 // the typed helpers are methods of the controller
		}
		if g.noInts && kind >= 2 {
			kind = 0
		}
		switch kind {
		case 0:
			if g.pr(0.3) && i == 0 {
				nq++
				name2 := fmt.Sprintf("second_%d", nq)
				v2 := fmt.Sprintf("qp%d", nq)
				fmt.Fprintf(&sb, "%s, %s := %s.QueryParam(%q), %s.QueryParam(%q)\n", v, v2, c, name, c, name2)
				rt.Query = append(rt.Query, RouteParam{Name: name, Type: "string", Kind: "string"}, RouteParam{Name: name2, Type: "string", Kind: "string"})
				used = append(used, v, v2)
				continue
			}
			fmt.Fprintf(&sb, "%s := %s.QueryParam(%q)\n", v, c, name)
			rt.Query = append(rt.Query, RouteParam{Name: name, Type: "string", Kind: "string"})
		case 1:
			fmt.Fprintf(&sb, "%s := ct.QueryParamBool(%s, %q)\n", v, c, name)
			rt.Query = append(rt.Query, RouteParam{Name: name, Type: "bool", Kind: "bool"})
		case 2:
			fmt.Fprintf(&sb, "%s := ct.QueryParamInt64(%s, %q)\n", v, c, name)
			rt.Query = append(rt.Query, RouteParam{Name: name, Type: "int64", Kind: "int"})
		default:
			fmt.Fprintf(&sb, "%s, err%d := QueryParamInt[%s](%s, %q)\nif err%d != nil {\n\treturn err%d\n}\n", v, nq, g.idType, c, name, nq, nq)
			rt.Query = append(rt.Query, RouteParam{Name: name, Type: g.pkg + "." + g.idType, Kind: "int"})
		}
		used = append(used, v)
	}
	if len(used) > 0 {
		fmt.Fprintf(&sb, "fmt.Println(%s)\n", strings.Join(used, ", "))
	}
	// return
	ret := g.r.Intn(6)
	if g.noInts && ret == 1 {
		ret = 3 // no []byte blob (printed with the integer alias)
	}
	// two success returns of different kinds (C13 only: the TypeScript client of C14 has one return shape)
	mixed := !c14 && !g.noInts && g.pr(0.2)
	if mixed {
		g.mixedSeen = true
	}
	switch ret {
	case 0:
		sb.WriteString("return nil\n")
	case 1:
		sb.WriteString("var output []byte\n")
		if mixed {
			t := g.types[g.r.Intn(len(g.types))]
			fmt.Fprintf(&sb, "if len(output) > 3 {\n\tvar early %s\n\treturn %s.JSON(200, early)\n}\n", t.expr, c)
			rt.HasAlt, rt.AltReturn, rt.AltBlob = true, t.str, false
		}
		fmt.Fprintf(&sb, "return %s.Blob(200, \"\", output)\n", c)
		rt.Return, rt.Blob = "[]byte", true
	case 2:
		t := g.declared()
		fmt.Fprintf(&sb, "return %s.JSON(200, %s{})\n", c, t.expr)
		rt.Return = t.str
	case 3:
		t := g.types[g.r.Intn(len(g.types))]
		fmt.Fprintf(&sb, "var out %s\nreturn %s.JSONPretty(200, out, \" \")\n", t.expr, c)
		rt.Return = t.str
	default:
		t := g.types[g.r.Intn(len(g.types))]
		fmt.Fprintf(&sb, "var out %s\n", t.expr)
		if mixed {
			fmt.Fprintf(&sb, "if fmt.Sprint(out) == \"download\" {\n\tvar file []byte\n\treturn %s.Blob(200, \"\", file)\n}\n", c)
			rt.HasAlt, rt.AltReturn, rt.AltBlob = true, "[]byte", true
		}
		fmt.Fprintf(&sb, "return %s.JSON(200, out)\n", c)
		rt.Return = t.str
	}
	return sb.String()
}

func (g *routeGen) declared() routeType {
	for {
		t := g.types[g.r.Intn(len(g.types))]
		if t.decl {
			return t
		}
	}
}
