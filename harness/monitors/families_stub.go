package monitors

import (
	"verif/core"
	"verif/synth"
)

func routeProgs(seed int64, n int) []*synth.Program {
	var out []*synth.Program
	for i := 0; i < n; i++ {
		out = append(out, synth.NewRouteProg(i, core.Rand(seed, "routeprog", i), i%2 == 0))
	}
	return out
}
