package monitors

import "verif/synth"

func routeProgs(seed int64, n int) []*synth.Program { return nil }
