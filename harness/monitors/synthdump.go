package monitors

import (
	"fmt"
	"path/filepath"
	"strconv"

	"verif/core"
	"verif/synth"
)

// SynthDump writes n programs of a family into outdir (debugging aid).
func SynthDump(args []string) int {
	if len(args) != 3 {
		fmt.Println("usage: vcheck --synth <family> <n> <outdir>")
		return 2
	}
	n, _ := strconv.Atoi(args[1])
	cfg := core.NewConfig("synth")
	var progs []*synth.Program
	switch args[0] {
	case "typeprog":
		progs = typeProgs(cfg.Seed, n)
	case "unsup":
		progs = unsupProgs(cfg.Seed, n, true)
	case "sqlprog":
		progs = sqlProgs(cfg.Seed, n)
	case "routeprog":
		progs = routeProgs(cfg.Seed, n)
	}
	err := synth.WriteModule(args[2], filepath.Join(core.HarnessDir, "support"), filepath.Join(core.HarnessDir, "pqstub"), progs)
	if err != nil {
		fmt.Println(err)
		return 1
	}
	fmt.Println("wrote", len(progs), "programs to", args[2])
	return 0
}
