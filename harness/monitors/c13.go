package monitors

import (
	"encoding/json"
	"fmt"
	"regexp"
	"strings"

	"github.com/benoitkugler/gomacro/analysis"
	"github.com/benoitkugler/gomacro/analysis/httpapi"

	"verif/core"
	"verif/drive"
	"verif/synth"
)

func init() {
	Registry["C13"] = checkC13
	inProcOracles["c13"] = oracleC13
	inProcOracles["routes-c18"] = oracleRoutesC18
}

var reAnonymous = regexp.MustCompile(`^Anonymous\d+$`)

func typeStr(t analysis.Type) string {
	if t == nil {
		return ""
	}
	s := ""
	if pan := safeCall(func() { s = t.Type().String() }); pan != "" {
		return "<panic: " + pan + ">"
	}
	return strings.ReplaceAll(s, "uint8", "byte")
}

func normType(s string) string { return strings.ReplaceAll(s, "uint8", "byte") }

func routesTruthOf(meta json.RawMessage) *synth.RoutesTruth {
	var m struct {
		Routes *synth.RoutesTruth `json:"routes"`
	}
	if json.Unmarshal(meta, &m) != nil {
		return nil
	}
	return m.Routes
}

// oracleRoutesC18 just runs the route extraction and the client generator under the classifier (C18).
func oracleRoutesC18(ctx *progCtx) {
	if ctx.L.Ref.Family != "routeprog" {
		return
	}
	eps, oc := drive.ParseRoutes(ctx.Pkg, ctx.L.Ref.Sources[0], "")
	ctx.W.Emit(drive.Record{Prog: ctx.L.Ref.ID, Kind: "stage", Stage: "parse-echo", Outcome: &oc})
	if oc.OK {
		res := drive.GenerateAxios(eps)
		o := res.Outcome
		ctx.W.Emit(drive.Record{Prog: ctx.L.Ref.ID, Kind: "stage", Stage: "gen-axios", Outcome: &o})
	}
}

func oracleC13(ctx *progCtx) {
	w, id := ctx.W, ctx.L.Ref.ID
	truth := routesTruthOf(ctx.L.Ref.Meta)
	if truth == nil {
		return
	}
	src := ctx.L.Ref.Sources[0]
	prefixes := []string{""}
	// a prefix of some URL, and one matching nothing
	if len(truth.Routes) > 0 {
		u := truth.Routes[len(truth.Routes)/2].URL
		if len(u) > 4 {
			prefixes = append(prefixes, u[:len(u)/2])
		}
		prefixes = append(prefixes, "/const_url_from_inner_package/", "no-such-prefix/")
		// filters ending with "/" next to routes that only share the stem, and the filter "/"
		prefixes = append(prefixes, "/api/v1/", "/api/", "/", "/api/v1")
	}
	for _, prefix := range prefixes {
		var want []synth.RouteTruth
		for _, rt := range truth.Routes {
			if strings.HasPrefix(rt.URL, prefix) {
				want = append(want, rt)
			}
		}
		eps, oc := drive.ParseRoutes(ctx.Pkg, src, prefix)
		w.Count("parse-calls", 1)
		if !oc.OK {
			sig := "refused:parse-echo:" + oc.Signature()
			w.Violation(id, sig, fmt.Sprintf("ParseEcho(prefix %q) did not complete on a supported route file: %s", prefix, oc.Panic), nil)
			continue
		}
		mode := "no-prefix"
		if prefix != "" {
			mode = "prefix"
		}
		if len(eps) != len(want) {
			var got []string
			for _, e := range eps {
				got = append(got, e.Method+" "+e.Url)
			}
			var wl []string
			for _, e := range want {
				wl = append(wl, e.Verb+" "+e.URL)
			}
			w.Violation(id, "route-count:"+mode, fmt.Sprintf("ParseEcho(prefix %q) returned %d endpoints %v, the file registers %d matching routes %v", prefix, len(eps), got, len(want), wl), nil)
			continue
		}
		for i, rt := range want {
			ep := eps[i]
			w.Count("endpoints-compared", 1)
			w.Distinct(fmt.Sprintf("%s|%s|%s|in=%v|ret=%v|q=%d|form=%d%v%v", rt.HandlerForm, rt.PathForm, rt.Verb, rt.Input != "", rt.Return != "", len(rt.Query), len(rt.FormValues), rt.FormFile != "", rt.FormJSON != nil))
			where := fmt.Sprintf("route %d (%s %s, %s handler, %s path)", i, rt.Verb, rt.URL, rt.HandlerForm, rt.PathForm)
			bad := func(sig, format string, args ...any) {
				w.Violation(id, sig, where+": "+fmt.Sprintf(format, args...), nil)
			}
			if ep.Method != rt.Verb {
				bad("verb-or-order", "verb %s, want %s (source order)", ep.Method, rt.Verb)
				continue
			}
			if ep.Url != rt.URL {
				bad("url:"+rt.PathForm, "URL %q, want the constant-folded %q", ep.Url, rt.URL)
			}
			c := ep.Contract
			if rt.Handler == "" {
				if !reAnonymous.MatchString(c.Name) {
					bad("handler-name:literal", "handler name %q, want Anonymous<digits>", c.Name)
				}
			} else if c.Name != rt.Handler {
				bad("handler-name:"+rt.HandlerForm, "handler name %q, want %q", c.Name, rt.Handler)
			}
			if got := typeStr(c.InputBody); got != normType(rt.Input) {
				bad("input-body", "bound input type %q, want %q", got, rt.Input)
			}
			if rt.HasAlt {
				// two success returns of different kinds: either may be reported, as one (type, flag) pair
				w.Count("two-return-kinds-compared", 1)
				got := typeStr(c.Return)
				if !(got == normType(rt.Return) && c.IsReturnBlob == rt.Blob) && !(got == normType(rt.AltReturn) && c.IsReturnBlob == rt.AltBlob) {
					bad("return-pair-inconsistent", "return type %q with IsReturnBlob=%v describes neither return statement of the handler (%q blob=%v in a branch, %q blob=%v at the end)", got, c.IsReturnBlob, rt.AltReturn, rt.AltBlob, rt.Return, rt.Blob)
				}
			} else {
				if got := typeStr(c.Return); got != normType(rt.Return) {
					bad("return-type", "return type %q, want %q", got, rt.Return)
				}
				if c.IsReturnBlob != rt.Blob {
					bad("blob-flag", "IsReturnBlob=%v, want %v", c.IsReturnBlob, rt.Blob)
				}
			}
			var gq, wq []string
			for _, q := range c.InputQueryParams {
				gq = append(gq, q.Name+":"+typeStr(q.Type))
			}
			for _, q := range rt.Query {
				wq = append(wq, q.Name+":"+normType(q.Type))
			}
			if strings.Join(gq, ",") != strings.Join(wq, ",") {
				bad("query-params", "query parameters %v, want %v", gq, wq)
			}
			if strings.Join(c.InputForm.ValueNames, ",") != strings.Join(rt.FormValues, ",") {
				bad("form-values", "form values %v, want %v", c.InputForm.ValueNames, rt.FormValues)
			}
			if c.InputForm.File != rt.FormFile {
				bad("form-file", "form file %q, want %q", c.InputForm.File, rt.FormFile)
			}
			wantJ, wantT := "", ""
			if rt.FormJSON != nil {
				wantJ, wantT = rt.FormJSON.Name, normType(rt.FormJSON.Type)
			}
			if c.InputForm.JSON.Name != wantJ {
				bad("form-json-name", "JSON form field %q, want %q", c.InputForm.JSON.Name, wantJ)
			} else if wantJ != "" {
				if got := typeStr(c.InputForm.JSON.Type); got != wantT {
					bad("form-json-type", "JSON form field %q has resolved type %q, want %q", wantJ, got, wantT)
				}
			}
		}
		if prefix == "" && len(eps) > 0 {
			e := eps[0]
			w.Sample(map[string]any{"program": id, "endpoints": len(eps), "first": map[string]any{"method": e.Method, "url": e.Url, "handler": e.Contract.Name, "input": typeStr(e.Contract.InputBody), "return": typeStr(e.Contract.Return)}})
		}
	}
	_ = httpapi.Endpoint{}
}

func checkC13(cfg *core.Config) int {
	rep := core.NewReport(cfg)
	progs := routeProgs(cfg.Seed, cfg.Pick(16, 1500))
	progs = append(progs, pinnedPrograms("C13")...)
	pl := NewPipeline(cfg, rep, progs, true)
	defer pl.Close()
	pl.Run(drive.Job{Prop: "C13", Oracles: []string{"c13"}}, func(r drive.Record) {
		if pl.StdHandler(r) {
			return
		}
		if r.Kind == "abort" {
			files := pl.ProgramFiles(r.Prog)
			files["abort-output.txt"] = r.Message
			rep.Violate(core.Violation{Signature: "fatal-abort:" + r.Stage, Case: r.Prog, Files: files, Message: fmt.Sprintf("route extraction aborted the process on %s: %s", r.Prog, core.Trunc(r.Message, 1200))})
		}
	})
	return rep.Finish(core.Evidence{
		Evaluations: rep.Counter("endpoints-compared"),
		Rule:        "routeprogs (6-17 registrations each against an Echo stand-in: handlers as methods, functions, functions and methods of an imported package, function literals; paths as literals, local / package / imported constants and 2-3 part concatenations; bodies drawing subsets and orders of Bind, QueryParam (single and paired assignment), typed query helpers (methods and a generic function), FormValue, FormFile, FormValueJSON, JSON, JSONPretty, Blob; one handler in five with two success returns of different kinds - Blob in a branch and JSON at the end or the reverse - where either return is accepted as one (type, blob flag) pair) x prefix filters {none, half of a URL, a shared constant prefix, no match, filters ending with a slash next to routes sharing only the stem, the filter of one slash}: httpapi.ParseEcho's endpoint list is compared field by field with the synthesiser's route table. Distinct = distinct (handler form, path form, verb, contract shape).",
		Assumptions: []string{"types are compared through Type().String()", "function literals may carry any Anonymous<digits> name"},
		Extra:       map[string]any{"programs": len(progs), "features": pl.FeatureSummary()},
	})
}
