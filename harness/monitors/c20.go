package monitors

import (
	"encoding/json"
	"fmt"
	"os"
	"path/filepath"
	"regexp"
	"sort"
	"strings"
	"time"

	"verif/core"
)

func init() { Registry["C20"] = checkC20 }

type c20Result struct {
	Results []struct {
		Config          string         `json:"config"`
		Rep             int            `json:"rep"`
		Requests        int            `json:"requests"`
		Probes          map[string]int `json:"probes"`
		FormatRuns      map[string]int `json:"format_runs"`
		MaxOverlap      int            `json:"max_overlap"`
		CompletionOrder string         `json:"completion_order"`
		Errors          int            `json:"errors_returned"`
	} `json:"results"`
	Violations []struct {
		Config    string `json:"config"`
		Signature string `json:"signature"`
		Message   string `json:"message"`
	} `json:"violations"`
}

var reRaceFrame = regexp.MustCompile(`(?m)^\s+(github\.com/benoitkugler/gomacro/[^\s(]+)`)

// raceReports parses GORACE log files: returns the number of reports and the
// de-duplicated signatures (set of gomacro functions appearing in the report).
func raceReports(glob string) (int, map[string]string) {
	files, _ := filepath.Glob(glob)
	n := 0
	sigs := map[string]string{}
	for _, f := range files {
		b, err := os.ReadFile(f)
		if err != nil {
			continue
		}
		blocks := strings.Split(string(b), "WARNING: DATA RACE")
		for _, blk := range blocks[1:] {
			n++
			fn := map[string]bool{}
			for _, m := range reRaceFrame.FindAllStringSubmatch(blk, -1) {
				name := m[1]
				name = strings.TrimPrefix(name, "github.com/benoitkugler/gomacro/")
				fn[name] = true
			}
			var names []string
			for k := range fn {
				names = append(names, k)
			}
			sort.Strings(names)
			sig := "race:" + strings.Join(names, "+")
			if _, ok := sigs[sig]; !ok {
				sigs[sig] = core.Trunc(blk, 3000)
			}
		}
	}
	return n, sigs
}

func checkC20(cfg *core.Config) int {
	rep := core.NewReport(cfg)
	scratch := core.Scratch("c20")
	defer os.RemoveAll(scratch)

	standin, err := core.BuildTool(scratch, "./cmd/standin", false)
	if err != nil {
		rep.Inconclusive("cannot build stand-in: %v", err)
		return rep.Finish(core.Evidence{})
	}
	fmtrace, err := core.BuildTool(scratch, "./cmd/fmtrace", true)
	if err != nil {
		rep.Inconclusive("cannot build the -race driver against the current /repo tree: %v", err)
		return rep.Finish(core.Evidence{})
	}

	// configurations: 4 tools x {present, missing, failing}
	var all []string
	for i := 0; i < 81; i++ {
		c := ""
		x := i
		for k := 0; k < 4; k++ {
			c += string("pmf"[x%3])
			x /= 3
		}
		all = append(all, c)
	}
	var chosen []string
	n, per, reps := 16, 2, 1
	if cfg.Thorough() {
		chosen = append(all, "xppp", "xmfp", "xxxx", "xfmm")
		n, per, reps = 64, 2, 3
	} else {
		// x = installed but not executable by the operating system
		chosen = []string{"pppp", "mmmm", "ffff", "xpfm"}
		rng := core.Rand(cfg.Seed, "C20")
		seen := map[string]bool{"pppp": true, "mmmm": true, "ffff": true}
		for len(chosen) < 9 {
			c := all[rng.Intn(len(all))]
			if !seen[c] {
				seen[c] = true
				chosen = append(chosen, c)
			}
		}
	}

	work := filepath.Join(scratch, "work")
	os.MkdirAll(work, 0o755)
	outPath := filepath.Join(scratch, "result.json")
	raceLog := filepath.Join(scratch, "race.log")
	env := append(os.Environ(), "GORACE=halt_on_error=0 log_path="+raceLog)
	res := core.Run(scratch, env, 30*time.Minute, fmtrace,
		"-standin", standin, "-work", work, "-configs", strings.Join(chosen, ","),
		"-n", fmt.Sprint(n), "-per", fmt.Sprint(per), "-reps", fmt.Sprint(reps),
		"-seed", fmt.Sprint(cfg.Seed), "-out", outPath)
	if res.TimedOut {
		rep.Inconclusive("fmtrace watchdog fired after %s", res.Wall)
		return rep.Finish(core.Evidence{})
	}
	var out c20Result
	b, rerr := os.ReadFile(outPath)
	if rerr != nil || json.Unmarshal(b, &out) != nil {
		// the driver died: a crash of the code under test (e.g. concurrent map
		// write throw) or a harness problem. Decide on the output.
		if strings.Contains(res.Out, "fatal error:") || strings.Contains(res.Out, "panic:") {
			rep.Violatef("driver-crash", "fmtrace", map[string]string{"output.txt": res.Out}, "the concurrent formatting driver crashed:\n%s", core.Trunc(res.Out, 3000))
		} else {
			rep.Inconclusive("fmtrace produced no result (exit %d): %s", res.ExitCode, core.Trunc(res.Out, 1000))
		}
		return rep.Finish(core.Evidence{Evaluations: 1})
	}

	// race half
	nRaces, raceSigs := raceReports(raceLog + "*")
	rep.Count("race_reports", nRaces)
	for sig, blk := range raceSigs {
		rep.Violatef(sig, "fmtrace", map[string]string{"race.txt": blk}, "race detector report:\nWARNING: DATA RACE%s", blk)
	}

	// behavioural half
	for _, v := range out.Violations {
		rep.Violatef(v.Signature, "config-"+v.Config, map[string]string{"config.txt": v.Config + " (p=present m=missing f=failing x=installed but cannot be executed; order goimports,dart,npx,pg_format)\n" + v.Message}, "config %s: %s", v.Config, v.Message)
	}
	maxOverlap := 0
	orders := map[string]bool{}
	requests := 0
	probes := 0
	runs := 0
	for _, r := range out.Results {
		requests += r.Requests
		if r.MaxOverlap > maxOverlap {
			maxOverlap = r.MaxOverlap
		}
		orders[r.CompletionOrder] = true
		rep.Distinct(r.Config + "|" + r.CompletionOrder)
		for _, c := range r.Probes {
			probes += c
		}
		for _, c := range r.FormatRuns {
			runs += c
		}
		rep.Sample(4, map[string]any{"config": r.Config, "requests": r.Requests, "probes": r.Probes, "format_runs": r.FormatRuns, "max_overlap_of_tool_processes": r.MaxOverlap, "errors_returned": r.Errors, "completion_order_prefix": core.Trunc(r.CompletionOrder, 60)})
	}
	rep.Count("requests", requests)
	rep.Count("probe_invocations", probes)
	rep.Count("format_invocations", runs)
	rep.Count("configurations_run", len(out.Results))
	if maxOverlap < 2 {
		rep.Inconclusive("stand-in tool executions never overlapped (max overlap %d): no concurrency was observed", maxOverlap)
	}

	// the real cmd binary, goroutine-per-output path (saveOutputs), under -race
	cmdRuns := c20Cmd(cfg, rep, scratch, standin)

	return rep.Finish(core.Evidence{
		Level:       "exploration",
		Evaluations: requests + cmdRuns,
		Rule:        fmt.Sprintf("%d tool configurations (4 tools x present/missing/failing, plus configurations with a tool that is installed but cannot be executed) x %d repetition(s), each followed on the same cache by one request per present tool after that tool was damaged; per run %d goroutines x %d requests released together on one shared generator.Formatters, formats cycling over go/dart/typescript/psql/none; binary built with -race from /repo's working tree; PATH = directory of recording stand-ins. Distinct = distinct (configuration, completion order) pairs observed. Plus %d runs of the real cmd binary (-race) writing >=6 outputs through saveOutputs.", len(chosen), reps, n, per, cmdRuns),
		Assumptions: []string{
			"stand-in tools (harness/cmd/standin) faithfully play present/missing/failing tools: probe = which goimports | dart format --help | npx prettier -v | pg_format -v",
			"'probed at most once' is per Formatters value; each configuration run uses a fresh one",
			"the race detector only sees races on executions produced; reports are counted from GORACE log_path files, not from exit codes",
		},
		Extra: map[string]any{
			"race_reports":                   nRaces,
			"max_overlap_of_tool_processes":  maxOverlap,
			"distinct_completion_orders":     len(orders),
			"configurations":                 chosen,
			"goroutines":                     n,
			"requests_per_goroutine":         per,
		},
	})
}
