package monitors

import (
	"fmt"
	"sort"
	"strings"

	"verif/core"
	"verif/drive"
	"verif/support/runlib"
	"verif/synth"
)

func init() {
	Registry["C01"] = checkC01
	Registry["C02"] = checkC02
	Registry["C15"] = checkC15
}

// prepared is the result of driving programs up to a compiled runner.
type prepared struct {
	pl      *Pipeline
	ready   []string            // programs with registry files written
	genOK   map[string][]string // program -> generated files compiled in
	refused map[string]map[string]string // program -> stage -> diagnostic
	rn      *Runner
	extra   map[string]map[string]any // record kind -> program -> data (oracle dumps)
}

// prepareRunner drives the programs (analysis + targets), runs the in-process
// oracles, writes clean generated Go next to the sources and builds the runner.
func prepareRunner(cfg *core.Config, rep *core.Report, progs []*synth.Program, targets []string, oracles []string, inGoSrc bool) *prepared {
	pl := NewPipeline(cfg, rep, progs, inGoSrc)
	pr := &prepared{pl: pl, genOK: map[string][]string{}, refused: map[string]map[string]string{}, extra: map[string]map[string]any{}}
	pl.Run(drive.Job{Prop: cfg.Prop, Targets: targets, Oracles: append(append([]string{}, oracles...), "runner-prep")}, func(r drive.Record) {
		if pl.StdHandler(r) {
			return
		}
		switch r.Kind {
		case "stage":
			rep.Count("stage:"+r.Stage, 1)
			if !r.Outcome.OK {
				if pr.refused[r.Prog] == nil {
					pr.refused[r.Prog] = map[string]string{}
				}
				pr.refused[r.Prog][r.Stage] = r.Outcome.Panic
				rep.Count("refused:"+r.Stage, 1)
			}
		case "runner-ready":
			pr.ready = append(pr.ready, r.Prog)
			if l, ok := r.Data.([]any); ok {
				for _, x := range l {
					pr.genOK[r.Prog] = append(pr.genOK[r.Prog], fmt.Sprint(x))
				}
			}
		case "abort":
			files := pl.ProgramFiles(r.Prog)
			files["abort-output.txt"] = r.Message
			rep.Violate(core.Violation{Signature: "fatal-abort:" + r.Stage, Case: r.Prog, Files: files,
				Message: fmt.Sprintf("program %s stage %s aborted the process:\n%s", r.Prog, r.Stage, core.Trunc(r.Message, 1500))})
		default:
			if r.Data != nil {
				if pr.extra[r.Kind] == nil {
					pr.extra[r.Kind] = map[string]any{}
				}
				pr.extra[r.Kind][r.Prog] = r.Data
			}
		}
	})
	sort.Strings(pr.ready)
	pr.rn = pl.BuildRunner(pr.ready)
	return pr
}

func (pr *prepared) hasGen(prog, target string) bool {
	for _, f := range pr.genOK[prog] {
		if f == drive.GoFileName(target) {
			return true
		}
	}
	return false
}

// runnerEventHandler routes generic runner events into the report.
func (pr *prepared) stdEvent(e runlib.Event) bool {
	rep := pr.pl.Rep
	switch e.Kind {
	case "violation":
		files := pr.pl.ProgramFiles(e.Prog)
		for _, f := range pr.genOK[e.Prog] {
			if b, err := readFile(pr.pl.ModRoot, pr.pl.ByID[e.Prog].Root.Dir, f); err == nil {
				files["generated/"+f] = b
			}
		}
		rep.Violate(core.Violation{Signature: e.Signature, Case: e.Prog, Message: e.Message, Files: files})
	case "count":
		rep.Count(e.Key, e.N)
	case "distinct":
		rep.Distinct(e.Key)
	case "sample":
		rep.Sample(8, e.Data)
	case "harness-error":
		rep.Inconclusive("runner harness error on %s: %s", e.Prog, e.Message)
	case "inconclusive":
		rep.Inconclusive("%s: %s", e.Prog, e.Message)
	case "bail":
	case "missing-program":
		rep.Inconclusive("program %s is not compiled into the runner", e.Prog)
	case "begin", "done", "runner-done":
	default:
		return false
	}
	return true
}

func checkC01(cfg *core.Config) int {
	rep := core.NewReport(cfg)
	progs := typeProgs(cfg.Seed, cfg.Pick(32, 400))
	// shapes only the Go generators accept: structs whose names differ by case only
	for i := 0; i < cfg.Pick(4, 40); i++ {
		r := core.Rand(cfg.Seed, "typeprog-c01-case-twins", i)
		opts := synth.RandomTypeOpts(r)
		opts.CaseTwins = true
		progs = append(progs, synth.NewTypeProg(cfg.Seed, 8000+i, r, opts))
	}
	progs = append(progs, sqlProgs(cfg.Seed, cfg.Pick(16, 200))...)
	progs = append(progs, pinnedPrograms("C01")...)
	pr := prepareRunner(cfg, rep, progs, []string{"gounions", "randdata", "sqlcrud", "sqlcrud-sets"}, []string{"c01"}, true)
	defer pr.pl.Close()
	// second oracle: the real compiler on the same files
	for id, out := range pr.rn.BuildErrors {
		files := pr.pl.ProgramFiles(id)
		files["compiler-output.txt"] = out
		first := strings.SplitN(out, "\n", 2)[0]
		rep.Violate(core.Violation{Signature: "go-compiler-rejects:" + normalizeCompileError(first), Case: id, Files: files,
			Message: fmt.Sprintf("go build rejects the package of %s with its generated files (they passed go/types): %s", id, core.Trunc(out, 1500))})
	}
	rep.Count("programs-compiled-by-gc", len(pr.rn.Progs))
	if pr.rn.Path == "" && len(pr.ready) > 0 {
		rep.Inconclusive("the runner could not be built")
	}
	return rep.Finish(core.Evidence{
		Evaluations: rep.Counter("go-outputs-checked") + rep.Counter("go-combinations-checked"),
		Rule:        "typeprogs and sqlprogs x {gounions, randdata, sqlcrud, sqlcrud with sets}: each accepted output goes through x/tools/imports.Process (the library behind goimports -w) and is type-checked inside its package with go/types (overlay), alone and all together; then the real compiler builds every package with its generated files. Distinct = distinct (program, generator) outputs checked.",
		Assumptions: []string{"imports.Process v0.31.0 with default options stands for the goimports binary", "a generator refusal (diagnostic) is not an accepted input", "github.com/lib/pq is replaced by a stand-in module with the same exported API surface used by the generated code"},
		Extra:       map[string]any{"programs": len(progs), "features": pr.pl.FeatureSummary()},
	})
}

func checkC02(cfg *core.Config) int {
	rep := core.NewReport(cfg)
	var progs []*synth.Program
	n := cfg.Pick(32, 400)
	for i := 0; len(progs) < n; i++ {
		r := core.Rand(cfg.Seed, "typeprog-c02", i)
		opts := synth.RandomTypeOpts(r)
		opts.Unions = true
		opts.IgnoreAlone = i%2 == 0
		if i%3 == 0 {
			opts.Embedded, opts.Recursive = true, true // embedded structs and interfaces, container members of unions
		}
		progs = append(progs, synth.NewTypeProg(cfg.Seed, i, r, opts))
	}
	progs = append(progs, pinnedPrograms("C02")...)
	pr := prepareRunner(cfg, rep, progs, []string{"gounions"}, nil, true)
	defer pr.pl.Close()
	var jobs []runlib.Job
	for _, id := range pr.ready {
		if !pr.rn.Progs[id] {
			continue
		}
		if !pr.hasGen(id, "gounions") {
			rep.Count("programs-without-usable-gounions-output", 1)
			continue
		}
		jobs = append(jobs, runlib.Job{Prog: id, Cmd: "json", Seed: cfg.Seed, N: cfg.Pick(8, 40), Opts: map[string]string{"only-union": "1"}})
	}
	pr.rn.Run(jobs, func(e runlib.Event) {
		if pr.stdEvent(e) {
			return
		}
		if e.Kind == "abort" {
			files := pr.pl.ProgramFiles(e.Prog)
			files["abort-output.txt"] = e.Message
			rep.Violate(core.Violation{Signature: "json-abort", Case: e.Prog, Files: files, Message: fmt.Sprintf("the runner died during %s (%s): %s", e.Cmd, e.What, core.Trunc(e.Message, 1500))})
		}
	})
	rep.Count("programs-run", len(jobs))
	return rep.Finish(core.Evidence{
		Evaluations: rep.Counter("values-with-unions"),
		Rule:        "typeprogs with 1-3 unions (fields, named slices and maps of unions, nesting, struct and non-struct members, shared members, tagged / json:\"-\" / unexported siblings, embedded structs, recursion through unions); for every package type that reaches a union, N seeded values (nil/empty containers, zero values, unicode, extreme numbers) are marshalled with the generated wrappers compiled in, compared as JSON trees with a reference encoder that does not use generated code (encoding/json on a twin value with hand-written {Kind,Data}), unmarshalled and compared with the original (nil == empty). Distinct = distinct (type, document) pairs.",
		Assumptions: []string{"union positions always hold member values (nil unions are outside the statement)", "fields tagged omitempty are built non-empty; json:\"-\" and unexported fields stay zero", "the twin keeps every non-union component as the original Go value, so the real encoding/json defines their keys and encodings"},
		Extra:       map[string]any{"programs": len(progs), "features": pr.pl.FeatureSummary()},
	})
}

func checkC15(cfg *core.Config) int {
	rep := core.NewReport(cfg)
	progs := typeProgs(cfg.Seed, cfg.Pick(32, 400))
	// pointer typed fields are within the domain of the two Go generators run here
	for i := 0; i < cfg.Pick(6, 60); i++ {
		r := core.Rand(cfg.Seed, "typeprog-c15-pointers", i)
		opts := synth.RandomTypeOpts(r)
		opts.PtrFields = true
		progs = append(progs, synth.NewTypeProg(cfg.Seed, 7000+i, r, opts))
	}
	progs = append(progs, pinnedPrograms("C15")...)
	pr := prepareRunner(cfg, rep, progs, []string{"gounions", "randdata"}, nil, true)
	defer pr.pl.Close()
	// list the generated functions, then one job per program (one per function
	// for programs with recursive types, whose calls may abort the process)
	var listJobs []runlib.Job
	for _, id := range pr.ready {
		if pr.rn.Progs[id] && pr.hasGen(id, "randdata") {
			listJobs = append(listJobs, runlib.Job{Prog: id, Cmd: "list-funcs"})
		} else {
			rep.Count("programs-without-usable-randdata-output", 1)
		}
	}
	funcs := map[string][]string{}
	pr.rn.Run(listJobs, func(e runlib.Event) {
		switch e.Kind {
		case "funcs":
			funcs[e.Prog] = e.Keys
		case "abort":
			// the process died while listing functions, or while initialising the packages compiled
			// into it (package-level variables of the generated code)
			files := pr.pl.ProgramFiles(e.Prog)
			files["abort-output.txt"] = e.Message
			rep.Violate(core.Violation{Signature: "rand-abort:package-initialisation", Case: e.Prog, Files: files,
				Message: fmt.Sprintf("the process compiled with the generated random-data code died during %s: %s", e.What, core.Trunc(e.Message, 1200))})
		case "harness-error", "inconclusive":
			pr.stdEvent(e)
		}
	})
	var jobs []runlib.Job
	n := cfg.Pick(8, 12)
	for _, id := range sortedKeys(funcs) {
		recursive := pr.pl.ByID[id].Meta["recursive"] == true
		for f := range pr.pl.ByID[id].Features {
			if strings.HasPrefix(f, "recursive:") {
				recursive = true
			}
		}
		opts := map[string]string{}
		if !pr.hasGen(id, "gounions") {
			// the union wrappers of this program are not compiled in (C01 finding):
			// the JSON round trip is only run on types that need none
			opts["no-wrappers"] = "1"
			rep.Count("programs-without-union-wrappers", 1)
		}
		if !recursive {
			jobs = append(jobs, runlib.Job{Prog: id, Cmd: "rand", Seed: cfg.Seed, N: n, Opts: opts})
			continue
		}
		for _, fn := range funcs[id] {
			if strings.HasPrefix(fn, "rand") {
				o := map[string]string{"funcs": fn, "recursive-types": "1"}
				for k, v := range opts {
					o[k] = v
				}
				jobs = append(jobs, runlib.Job{Prog: id, Cmd: "rand", Seed: cfg.Seed, N: n, Opts: o})
			}
		}
	}
	pr.rn.Run(jobs, func(e runlib.Event) {
		if pr.stdEvent(e) {
			return
		}
		if e.Kind == "abort" {
			files := pr.pl.ProgramFiles(e.Prog)
			files["abort-output.txt"] = e.Message
			sig := "rand-abort"
			if strings.Contains(e.Message, "stack overflow") || strings.Contains(e.Message, "goroutine stack exceeds") {
				sig = "rand-unbounded-recursion"
				isRec := pr.pl.ByID[e.Prog].Meta["recursive"] == true || pr.pl.ByID[e.Prog].Meta["pinned"] == true
				for f := range pr.pl.ByID[e.Prog].Features {
					if strings.HasPrefix(f, "recursive:") {
						isRec = true
					}
				}
				if !isRec {
					sig = "rand-unbounded-recursion-without-recursive-type" // not the recorded finding
				}
			}
			rep.Violate(core.Violation{Signature: sig, Case: e.Prog, Files: files, Message: fmt.Sprintf("calling %s() aborted the process (does not terminate): %s", e.What, core.Trunc(e.Message, 800))})
		}
	})
	if u, f := rep.Counter("rand-functions-undecided:slow-large-values"), rep.Counter("rand-functions"); f > 0 && u*20 > f {
		rep.Inconclusive("%d of %d generated functions stayed undecided (calls exceeding the budget while completed calls were slow)", u, f)
	}
	return rep.Finish(core.Evidence{
		Evaluations: rep.Counter("rand-calls"),
		Rule:        "typeprogs (incl. recursive types and types from other packages): every generated rand<ID>() is called N times (64 for small domains) under a seeded global source in the compiled package; each value is inspected by reflection (enum components among the exported constants, union components non-nil members, containers populated, gomacro-data:\"ignore\" and unexported fields zero), must vary when the type admits more than one value, and must survive the C02 JSON round trip; functions of programs with recursive types run one per process so that stack exhaustion is attributed. Distinct = distinct (function, number of distinct values).",
		Assumptions: []string{"enum and union tables come from go/types (registry written by the driver), not from gomacro", "'populated' means at least one element"},
		Extra:       map[string]any{"programs": len(progs), "features": pr.pl.FeatureSummary()},
	})
}
