package monitors

import (
	"fmt"

	"verif/core"
	"verif/drive"
	"verif/synth"
)

func init() {
	Registry["C10"] = func(cfg *core.Config) int {
		return analysisCheck(cfg, "c10", "enums-checked",
			"typeprogs (>=2 enums each, all constant declaration styles: iota blocks, explicit values, negatives, gaps, duplicates, blanks, unexported interleaved, string/bool/float backed, single-line, grouped, multi-name specs, conversions, opt-out comments, constants in another file, same name in sub-package) analysed by the real NewAnalysisFromFile; every reachable named-basic node is compared with a reference computed from go/types + go/ast (members, values, trailing comments, Kind, IsIota soundness and completeness for plain iota blocks). Distinct = distinct (declaration style, IsIota, member count).",
			[]string{"reference model in monitors/oracle_analysis.go (independent go/types + go/ast walk) is the specification", "constants of a type declared outside its package do not count (the statement says 'its package declares')", "IsIota completeness is demanded only for plain iota blocks (DESIGN section 10)"})
	}
	Registry["C11"] = func(cfg *core.Config) int {
		return analysisCheck(cfg, "c11", "union-nodes",
			"typeprogs with 1-3 unions (struct / named basic / named slice / named map / enum members, members shared by several unions, pointer-receiver and foreign implementers as negatives, unions declared in the other file, unions reached as fields / named containers / top-level only, aliases) analysed by the real NewAnalysisFromFile; every reachable Union node and every reachable Struct node instance (pointer identity) is compared with an independent types.Implements computation. Distinct = distinct (member count, member kinds) and Implements sizes.",
			[]string{"reference model in monitors/oracle_analysis.go is the specification", "generic declarations are never generated as implementers"})
	}
	Registry["C12"] = func(cfg *core.Config) int {
		return analysisCheck(cfg, "c12", "positions-checked",
			"typeprogs incl. self- and mutually recursive structs through slices, maps, named slices and unions, aliases, generic instantiations, named over named, sub-package and stdlib types; the result graph is walked position by position against go/types (presence in Types, classification, lengths, keys/elements, basic kind, Type() identity modulo time/date, struct field identity/tags with the embedded-flattening rule, Source = declarations in position order); unbounded recursion aborts the worker (violation). Distinct = distinct node kinds met + distinct graph sizes.",
			[]string{"go/types objects of packages.Load are the ground truth", "time.Time and named time types are reported as predefined Time/Date nodes by design"})
	}
}

func analysisCheck(cfg *core.Config, oracle, evalCounter, rule string, assumptions []string) int {
	rep := core.NewReport(cfg)
	progs := typeProgs(cfg.Seed, cfg.Pick(32, 2500))
	// programs where a sub-package re-uses local names of the root (an enum, a union member struct)
	for i := 0; i < cfg.Pick(6, 300); i++ {
		r := core.Rand(cfg.Seed, "typeprog-same-names", i)
		opts := synth.RandomTypeOpts(r)
		opts.SameNameInSub, opts.Unions = true, true
		if opts.NumSubs == 0 {
			opts.NumSubs = 1
		}
		progs = append(progs, synth.NewTypeProg(cfg.Seed, 6000+i, r, opts))
	}
	if oracle == "c12" {
		// deeper nesting and more recursion for the type graph property
		n := cfg.Pick(12, 800)
		for i := 0; i < n; i++ {
			r := core.Rand(cfg.Seed, "typeprog-c12-deep", i)
			opts := synth.RandomTypeOpts(r)
			opts.Recursive = true
			opts.Depth = 3 + i%3
			opts.Pointers = i%2 == 0
			p := synth.NewTypeProg(cfg.Seed, 5000+i, r, opts)
			progs = append(progs, p)
		}
	}
	progs = append(progs, pinnedPrograms(cfg.Prop)...)
	progs = append(progs, staticPrograms(cfg.Prop)...)
	pl := NewPipeline(cfg, rep, progs, true)
	defer pl.Close()
	analysed := 0
	var targets []string
	if oracle == "c10" {
		targets = []string{"ts"} // the exact values are also read back from a target
	}
	pl.Run(drive.Job{Prop: cfg.Prop, Targets: targets, Oracles: []string{oracle}}, func(r drive.Record) {
		if pl.StdHandler(r) {
			return
		}
		switch r.Kind {
		case "stage":
			if r.Stage == "analysis-0" && r.Outcome.OK {
				analysed++
			}
		case "abort":
			files := pl.ProgramFiles(r.Prog)
			files["abort-output.txt"] = r.Message
			rep.Violate(core.Violation{Signature: "fatal-abort:" + r.Stage, Case: r.Prog, Files: files,
				Message: fmt.Sprintf("program %s stage %s aborted the process (analysis does not terminate / runtime throw):\n%s", r.Prog, r.Stage, core.Trunc(r.Message, 1500))})
		}
	})
	rep.Count("programs-analysed", analysed)
	return rep.Finish(core.Evidence{
		Evaluations: rep.Counter(evalCounter),
		Rule:        rule,
		Assumptions: assumptions,
		Extra:       map[string]any{"programs": len(progs), "features": pl.FeatureSummary()},
	})
}
