package monitors

import (
	"encoding/json"
	"errors"
	"fmt"
	"math/rand"
	"os"
	"path/filepath"
	"sort"
	"strings"

	"verif/core"
	"verif/support/pgmodel"
	"verif/support/refwire"
	"verif/support/runlib"
)

func init() { Registry["C04"] = checkC04 }

// position is one place of a document where a corruption can be applied.
type c04pos struct {
	path  []any // string keys / int indexes
	shape *jshape
}

func resolveShape(sh *jshape, defs map[string]*jshape) *jshape {
	for i := 0; sh != nil && sh.K == "ref" && i < 4; i++ {
		sh = defs[sh.Ref]
	}
	return sh
}

// walkDoc lists the positions of doc following its shape.
func walkDoc(doc any, sh *jshape, defs map[string]*jshape, path []any, out *[]c04pos) {
	sh = resolveShape(sh, defs)
	if sh == nil {
		return
	}
	*out = append(*out, c04pos{path: append([]any(nil), path...), shape: sh})
	switch sh.K {
	case "struct":
		obj, ok := doc.(map[string]any)
		if !ok {
			return
		}
		for _, f := range sh.Fields {
			if v, has := obj[f.Key]; has {
				walkDoc(v, f.Shape, defs, append(path, f.Key), out)
			}
		}
	case "map":
		obj, ok := doc.(map[string]any)
		if !ok {
			return
		}
		var keys []string
		for k := range obj {
			keys = append(keys, k)
		}
		sort.Strings(keys)
		for _, k := range keys {
			walkDoc(obj[k], sh.Elem, defs, append(path, k), out)
		}
	case "slice", "array":
		arr, ok := doc.([]any)
		if !ok {
			return
		}
		for i, v := range arr {
			walkDoc(v, sh.Elem, defs, append(path, i), out)
		}
	case "union":
		obj, ok := doc.(map[string]any)
		if !ok {
			return
		}
		kind, _ := obj["Kind"].(string)
		for _, m := range sh.Members {
			if m.Kind == kind {
				walkDoc(obj["Data"], m.Shape, defs, append(path, "Data"), out)
			}
		}
	}
}

func deepCopy(v any) any {
	switch x := v.(type) {
	case map[string]any:
		o := map[string]any{}
		for k, e := range x {
			o[k] = deepCopy(e)
		}
		return o
	case []any:
		o := make([]any, len(x))
		for i, e := range x {
			o[i] = deepCopy(e)
		}
		return o
	}
	return v
}

// replaceAt returns a copy of doc with fn applied to the value at path.
func replaceAt(doc any, path []any, fn func(any) any) any {
	if len(path) == 0 {
		return fn(deepCopy(doc))
	}
	switch x := doc.(type) {
	case map[string]any:
		o := map[string]any{}
		for k, e := range x {
			o[k] = e
		}
		k := path[0].(string)
		o[k] = replaceAt(x[k], path[1:], fn)
		return o
	case []any:
		o := append([]any(nil), x...)
		i := path[0].(int)
		o[i] = replaceAt(x[i], path[1:], fn)
		return o
	}
	return doc
}

func pathString(p []any) string {
	s := "$"
	for _, e := range p {
		switch x := e.(type) {
		case string:
			s += "." + x
		case int:
			s += fmt.Sprintf("[%d]", x)
		}
	}
	return s
}

type c04corruption struct {
	class string
	pos   c04pos
	doc   any
}

// corruptions lists the single-point corruptions applicable to doc (the five classes of the statement).
func corruptions(doc any, sh *jshape, defs map[string]*jshape) []c04corruption {
	var positions []c04pos
	walkDoc(doc, sh, defs, nil, &positions)
	var out []c04corruption
	for _, p := range positions {
		val := valueAt(doc, p.path)
		add := func(class string, fn func(any) any) {
			out = append(out, c04corruption{class: class, pos: p, doc: replaceAt(doc, p.path, fn)})
		}
		switch p.shape.K {
		case "struct":
			if _, ok := val.(map[string]any); ok {
				add("unknown-key", func(v any) any { v.(map[string]any)["__verif_extra__"] = json.Number("1"); return v })
			}
			add("wrong-kind", func(any) any { return "not an object" })
		case "map":
			add("wrong-kind", func(any) any { return "not an object" })
		case "slice":
			add("wrong-kind", func(any) any { return "not an array" })
		case "array":
			add("wrong-kind", func(any) any { return "not an array" })
			if arr, ok := val.([]any); ok && len(arr) > 0 {
				add("array-length-short", func(v any) any { a := v.([]any); return a[:len(a)-1] })
				add("array-length-long", func(v any) any { a := v.([]any); return append(a, deepCopy(a[0])) })
				if len(arr) > 1 {
					add("array-length-empty", func(v any) any { return []any{} })
					add("array-length-double", func(v any) any { a := v.([]any); return append(append([]any{}, a...), deepCopy(a).([]any)...) })
				}
			}
		case "union":
			add("wrong-kind", func(any) any { return "not an object" })
			if _, ok := val.(map[string]any); ok {
				add("unknown-union-kind", func(v any) any { v.(map[string]any)["Kind"] = "__NoSuchKind__"; return v })
				add("unknown-key-in-union-object", func(v any) any { v.(map[string]any)["__verif_extra__"] = json.Number("1"); return v })
			}
		case "enum":
			isString := len(p.shape.Enum) > 0 && strings.HasPrefix(p.shape.Enum[0], `"`)
			if isString {
				add("non-member-enum", func(any) any { return "__not_a_member__" })
				add("wrong-kind", func(any) any { return json.Number("12345") })
			} else {
				add("non-member-enum", func(any) any { return json.Number("987654") })
				add("wrong-kind", func(any) any { return "not a number" })
			}
		case "number", "boolean":
			add("wrong-kind", func(any) any { return "not a " + p.shape.K })
		case "string", "time":
			add("wrong-kind", func(any) any { return json.Number("12345") })
		}
	}
	return out
}

func valueAt(doc any, path []any) any {
	for _, e := range path {
		switch x := doc.(type) {
		case map[string]any:
			doc = x[e.(string)]
		case []any:
			doc = x[e.(int)]
		default:
			return nil
		}
	}
	return doc
}

func checkC04(cfg *core.Config) int {
	rep := core.NewReport(cfg)
	progs := sqlProgs(cfg.Seed, cfg.Pick(20, 200))
	progs = append(progs, pinnedPrograms("C04")...)
	pr := prepareRunner(cfg, rep, progs, []string{"gounions", "sql"}, []string{"c04shapes"}, true)
	defer pr.pl.Close()

	type colRef struct {
		table, column string
		check         pgmodel.Expr
	}
	scripts := map[string]*pgmodel.Script{}
	colsByType := map[string]map[string][]colRef{} // prog -> Go type -> columns
	shapes := map[string]map[string]*jshape{}
	defs := map[string]map[string]*jshape{}
	sqlText := map[string]string{}
	var jobs []runlib.Job
	for _, p := range progs {
		truth := sqlTruthOf(p)
		if truth == nil {
			continue
		}
		files := pr.pl.ProgramFiles(p.ID)
		if d, ok := pr.refused[p.ID]["gen-sql"]; ok {
			rep.Violate(core.Violation{Signature: "refused:sql:" + classifyTSError(d), Case: p.ID, Files: files, Message: "the SQL generator refused model file " + p.ID + ": " + d})
			continue
		}
		b, err := os.ReadFile(filepath.Join(pr.pl.OutDir, p.ID, "sql.sql"))
		if err != nil {
			continue
		}
		sqlText[p.ID] = string(b)
		files["generated/schema.sql"] = string(b)
		sc, err := pgmodel.ParseScript(string(b))
		if err != nil {
			rep.Violate(core.Violation{Signature: "sql-parse", Case: p.ID, Files: files, Message: fmt.Sprintf("script of %s does not parse: %v", p.ID, err)})
			continue
		}
		scripts[p.ID] = sc
		// closure: every called validation function is defined in the same script
		for _, name := range sc.FuncNames {
			fn := sc.Funcs[name]
			for _, callee := range fn.Calls {
				rep.Count("function-references-checked", 1)
				if sc.Funcs[callee] == nil {
					rep.Violate(core.Violation{Signature: "dangling-function-reference", Case: p.ID, Files: files, Message: fmt.Sprintf("model file %s: function %s calls %s which is not defined in the script", p.ID, fn.Name, callee)})
				}
			}
		}
		if raw, ok := pr.extra["c04shapes"][p.ID]; ok {
			bb, _ := json.Marshal(raw)
			var d struct {
				Columns map[string]*jshape `json:"columns"`
				Defs    map[string]*jshape `json:"defs"`
			}
			json.Unmarshal(bb, &d)
			shapes[p.ID], defs[p.ID] = d.Columns, d.Defs
		}
		colsByType[p.ID] = map[string][]colRef{}
		var typeNames []string
		for _, t := range truth.Tables {
			for _, c := range t.Columns {
				if c.Check != "json" {
					continue
				}
				var check pgmodel.Expr
				for _, a := range sc.Alters {
					if a.Kind == "add_check" && strings.EqualFold(a.Table, t.SQLName) {
						if call, ok := a.Check.(*pgmodel.CallExpr); ok && len(call.Args) == 1 && colRefIs(call.Args[0], c.Field) {
							check = a.Check
							for _, callee := range pgmodel.CalledFuncs(a.Check) {
								rep.Count("function-references-checked", 1)
								if sc.Funcs[callee] == nil {
									rep.Violate(core.Violation{Signature: "dangling-function-reference", Case: p.ID, Files: files, Message: fmt.Sprintf("model file %s: CHECK of %s.%s calls %s which is not defined in the script", p.ID, t.SQLName, c.Field, callee)})
								}
							}
						}
					}
				}
				if check == nil {
					rep.Violate(core.Violation{Signature: "json-check-missing", Case: p.ID, Files: files, Message: fmt.Sprintf("model file %s: jsonb column %s.%s has no CHECK calling a validator", p.ID, t.SQLName, c.Field)})
					continue
				}
				if len(colsByType[p.ID][c.GoType]) == 0 {
					typeNames = append(typeNames, c.GoType)
				}
				colsByType[p.ID][c.GoType] = append(colsByType[p.ID][c.GoType], colRef{table: t.SQLName, column: c.Field, check: check})
			}
		}
		if len(typeNames) == 0 || !pr.rn.Progs[p.ID] {
			continue
		}
		hasUnion := false
		for f := range p.Features {
			if strings.Contains(f, "union") {
				hasUnion = true
			}
		}
		if hasUnion && !pr.hasGen(p.ID, "gounions") {
			rep.Count("programs-without-union-wrappers-skipped", 1)
			continue
		}
		jobs = append(jobs, runlib.Job{Prog: p.ID, Cmd: "json", Seed: cfg.Seed, N: cfg.Pick(8, 40), Opts: map[string]string{"docs": "1", "types": strings.Join(typeNames, ",")}})
	}

	maxCorr := cfg.Pick(6, 64)
	rng := rand.New(rand.NewSource(cfg.Seed))
	unsupported := 0
	pr.rn.Run(jobs, func(e runlib.Event) {
		if e.Kind != "doc" {
			if e.Kind == "abort" {
				rep.Inconclusive("runner died on %s", e.Prog)
			}
			return
		}
		sc := scripts[e.Prog]
		if sc == nil {
			return
		}
		tree, err := refwire.DecodeTree(e.Doc)
		if err != nil {
			return
		}
		files := func() map[string]string {
			f := pr.pl.ProgramFiles(e.Prog)
			f["generated/schema.sql"] = sqlText[e.Prog]
			f["document.json"] = string(e.Doc)
			return f
		}
		for _, col := range colsByType[e.Prog][e.Type] {
			env := pgmodel.Env{strings.ToLower(col.column): pgmodel.JSONB(tree)}
			rep.Count("documents-evaluated", 1)
			rep.Distinct(e.Prog + "|" + col.table + "." + col.column + "|" + drive_hash(e.Doc))
			val, err := sc.Eval(col.check, env)
			var unsup *pgmodel.UnsupportedError
			switch {
			case errors.As(err, &unsup):
				unsupported++
				continue
			case err != nil:
				rep.Violate(core.Violation{Signature: "valid-document-error:" + classifyTSError(err.Error()), Case: e.Prog, Files: files(),
					Message: fmt.Sprintf("model file %s: CHECK of %s.%s (Go type %s) raises an error on a document Go emits: %v\n  document: %s", e.Prog, col.table, col.column, e.Type, err, core.Trunc(string(e.Doc), 1000))})
				continue
			}
			isTrue, isNull, terr := pgmodel.Truth(val)
			if terr != nil {
				unsupported++
				continue
			}
			if !isTrue && !isNull {
				rep.Violate(core.Violation{Signature: "valid-document-rejected:" + c04why(tree, shapes[e.Prog][e.Type], defs[e.Prog]), Case: e.Prog, Files: files(),
					Message: fmt.Sprintf("model file %s: CHECK of %s.%s (Go type %s) evaluates to FALSE on a document Go emits:\n  document: %s", e.Prog, col.table, col.column, e.Type, core.Trunc(string(e.Doc), 1000))})
				continue
			}
			// negative half: single-point corruptions must make the CHECK false
			sh := shapes[e.Prog][e.Type]
			if sh == nil {
				continue
			}
			cs := corruptions(tree, sh, defs[e.Prog])
			rng.Shuffle(len(cs), func(i, j int) { cs[i], cs[j] = cs[j], cs[i] })
			// keep one of each class first, then fill up
			sort.SliceStable(cs, func(i, j int) bool { return false })
			seenClass := map[string]bool{}
			var chosen []c04corruption
			for _, c := range cs {
				if !seenClass[c.class] {
					seenClass[c.class] = true
					chosen = append(chosen, c)
				}
			}
			for _, c := range cs {
				if len(chosen) >= maxCorr {
					break
				}
				chosen = append(chosen, c)
			}
			for _, c := range chosen {
				rep.Count("corruptions-evaluated", 1)
				rep.Count("corruption:"+c.class, 1)
				cenv := pgmodel.Env{strings.ToLower(col.column): pgmodel.JSONB(c.doc)}
				v, err := sc.Eval(col.check, cenv)
				cb, _ := json.Marshal(c.doc)
				where := fmt.Sprintf("%s at %s (position shape %s)", c.class, pathString(c.pos.path), c.pos.shape.K)
				if errors.As(err, &unsup) {
					unsupported++
					continue
				}
				if err != nil {
					f := files()
					f["corrupted.json"] = string(cb)
					rep.Violate(core.Violation{Signature: "corruption-error:" + c.class + ":" + c.pos.shape.K, Case: e.Prog, Files: f,
						Message: fmt.Sprintf("model file %s: CHECK of %s.%s raises an error instead of evaluating to FALSE on a corrupted document (%s): %v\n  corrupted: %s", e.Prog, col.table, col.column, where, err, core.Trunc(string(cb), 800))})
					continue
				}
				t, n, terr := pgmodel.Truth(v)
				if terr != nil {
					unsupported++
					continue
				}
				if t || n {
					f := files()
					f["corrupted.json"] = string(cb)
					res := "TRUE"
					if n {
						res = "NULL"
					}
					rep.Violate(core.Violation{Signature: "corruption-accepted:" + c.class + ":" + c.pos.shape.K, Case: e.Prog, Files: f,
						Message: fmt.Sprintf("model file %s: CHECK of %s.%s evaluates to %s (passes) on a corrupted document (%s)\n  corrupted: %s\n  original:  %s", e.Prog, col.table, col.column, res, where, core.Trunc(string(cb), 800), core.Trunc(string(e.Doc), 800))})
				}
			}
			if rep.Counter("documents-evaluated") <= 3 {
				rep.Sample(4, map[string]any{"program": e.Prog, "column": col.table + "." + col.column, "go_type": e.Type, "document": core.Trunc(string(e.Doc), 300), "corruptions_tried": len(chosen)})
			}
		}
	})
	rep.Count("unsupported-evaluations", unsupported)
	total := rep.Counter("documents-evaluated") + rep.Counter("corruptions-evaluated")
	if total > 0 && unsupported*20 > total {
		rep.Inconclusive("%d of %d evaluations hit constructs outside the PostgreSQL model", unsupported, total)
	}
	return rep.Finish(core.Evidence{
		Evaluations: total,
		Rule:        "sqlprogs with jsonb columns (named structs, maps, slices of structs and unions, nested unions, enums, fixed arrays, time): documents marshalled by the compiled package from seeded values of the column's Go type are bound to the column and the generated CHECK (with the validation functions of the same script) is evaluated by a PL/pgSQL-subset interpreter with SQL three-valued logic: never FALSE/error on emitted documents; FALSE on type-directed single-point corruptions (unknown key in struct objects and in the {Kind, Data} objects of unions, value of a never-legal JSON kind, unknown union Kind, non-member enum value, fixed array one short / one long / empty / doubled); every called function defined in the script. Distinct = distinct (column, document).",
		Assumptions: []string{"PostgreSQL is modelled, not run: harness/support/pgmodel (strict builtins, Kleene logic, CHECK passes on TRUE/NULL, left-to-right AND with short circuit, plan-time type errors)", "missing keys are not among the five corruption classes", "extra keys are added to struct objects and to the {Kind, Data} objects of unions, not to maps (any key is legal there)"},
		Extra:       map[string]any{"programs": len(progs), "features": pr.pl.FeatureSummary()},
	})
}

// c04why names the feature of a rejected valid document (for the signature).
func c04why(doc any, sh *jshape, defs map[string]*jshape) string {
	var positions []c04pos
	walkDoc(doc, sh, defs, nil, &positions)
	for _, p := range positions {
		if p.shape.K == "union" {
			if obj, ok := valueAt(doc, p.path).(map[string]any); ok && obj["Data"] == nil {
				return "union-member-null-data"
			}
		}
	}
	return "other"
}
