package monitors

import (
	"bufio"
	"encoding/json"
	"fmt"
	"os"
	"path/filepath"
	"runtime"
	"sort"
	"strings"
	"sync"
	"time"

	"verif/core"
	"verif/drive"
	"verif/synth"
)

// Pipeline owns the scratch module with the synthesised programs and runs
// driver workers over it.
type Pipeline struct {
	Cfg     *core.Config
	Rep     *core.Report
	Scratch string
	ModRoot string
	OutDir  string
	Progs   []*synth.Program
	ByID    map[string]*synth.Program
	Refs    []drive.ProgRef
}

// NewPipeline writes the programs into a fresh scratch module. inGoSrc places
// the module below a go/src/ directory (the Dart linker treats that specially).
func NewPipeline(cfg *core.Config, rep *core.Report, progs []*synth.Program, inGoSrc bool) *Pipeline {
	scratch := core.Scratch(strings.ToLower(cfg.Prop))
	if r, err := filepath.EvalSymlinks(scratch); err == nil {
		scratch = r
	}
	modRoot := filepath.Join(scratch, "ws", "example.com", "synth")
	if inGoSrc {
		modRoot = filepath.Join(scratch, "go", "src", "example.com", "synth")
	}
	pl := &Pipeline{Cfg: cfg, Rep: rep, Scratch: scratch, ModRoot: modRoot, OutDir: filepath.Join(scratch, "out"), Progs: progs, ByID: map[string]*synth.Program{}}
	os.MkdirAll(pl.OutDir, 0o755)
	if err := synth.WriteModule(modRoot, filepath.Join(core.HarnessDir, "support"), filepath.Join(core.HarnessDir, "pqstub"), progs); err != nil {
		rep.Inconclusive("cannot write scratch module: %v", err)
	}
	for _, p := range progs {
		pl.ByID[p.ID] = p
		ref := drive.ProgRef{ID: p.ID, Family: p.Family, Dir: filepath.Join(modRoot, p.Root.Dir)}
		for _, s := range p.Sources {
			ref.Sources = append(ref.Sources, filepath.Join(modRoot, s))
		}
		if p.Meta != nil {
			ref.Meta, _ = json.Marshal(p.Meta)
		}
		pl.Refs = append(pl.Refs, ref)
		for f, n := range p.Features {
			rep.Count("feature:"+f, n)
		}
	}
	return pl
}

func (pl *Pipeline) Close() { os.RemoveAll(pl.Scratch) }

// ProgramFiles returns the sources of a program for replay directories.
func (pl *Pipeline) ProgramFiles(id string) map[string]string {
	out := map[string]string{}
	p := pl.ByID[id]
	if p == nil {
		return out
	}
	for rel, content := range p.Render() {
		out[filepath.Join("program", rel)] = content
	}
	b, _ := json.MarshalIndent(map[string]any{"id": p.ID, "family": p.Family, "features": p.Features, "sources": p.Sources}, "", " ")
	out["program/PROGRAM.json"] = string(b)
	return out
}

// WorkerEnv is the environment of driver workers: a PATH without any
// formatter (npx would block ~70 s offline), offline go flags.
func WorkerEnv() []string {
	return core.GoEnv("CGO_ENABLED=0")
}

// Run executes the job template over all programs with nW workers; every
// record is passed to handle (serialised). A worker that dies is attributed to
// its last "begin" record and restarted on the remaining programs.
func (pl *Pipeline) Run(tmpl drive.Job, handle func(drive.Record)) {
	nW := runtime.NumCPU()
	if nW > len(pl.Refs) {
		nW = len(pl.Refs)
	}
	if nW == 0 {
		return
	}
	self, _ := os.Executable()
	var mu sync.Mutex
	var wg sync.WaitGroup
	for w := 0; w < nW; w++ {
		var batch []drive.ProgRef
		for i := w; i < len(pl.Refs); i += nW {
			batch = append(batch, pl.Refs[i])
		}
		wg.Add(1)
		go func(w int, batch []drive.ProgRef) {
			defer wg.Done()
			attempt := 0
			for len(batch) > 0 && attempt < 50 {
				attempt++
				job := tmpl
				job.ModRoot = pl.ModRoot
				job.OutDir = pl.OutDir
				job.Programs = batch
				jobPath := filepath.Join(pl.Scratch, fmt.Sprintf("job-%d-%d.json", w, attempt))
				outPath := filepath.Join(pl.Scratch, fmt.Sprintf("rec-%d-%d.jsonl", w, attempt))
				jb, _ := json.Marshal(job)
				os.WriteFile(jobPath, jb, 0o644)
				res := core.Run(pl.ModRoot, WorkerEnv(), 40*time.Minute, self, "--worker", "drive", jobPath, outPath)
				done := map[string]bool{}
				var last drive.Record
				workerDone := false
				if f, err := os.Open(outPath); err == nil {
					sc := bufio.NewScanner(f)
					sc.Buffer(make([]byte, 1<<20), 1<<28)
					for sc.Scan() {
						var r drive.Record
						if json.Unmarshal(sc.Bytes(), &r) != nil {
							continue
						}
						switch r.Kind {
						case "begin":
							last = r
						case "done":
							done[r.Prog] = true
						case "worker-done":
							workerDone = true
						}
						mu.Lock()
						handle(r)
						mu.Unlock()
					}
					f.Close()
				}
				if workerDone {
					return
				}
				if res.TimedOut {
					pl.Rep.Inconclusive("driver worker %d watchdog fired during program %s stage %s", w, last.Prog, last.Stage)
					return
				}
				// the worker died: attribute to the last begin record
				mu.Lock()
				handle(drive.Record{Prog: last.Prog, Kind: "abort", Stage: last.Stage, Message: core.Trunc(res.Out, 6000)})
				mu.Unlock()
				var rest []drive.ProgRef
				for _, p := range batch {
					if !done[p.ID] && p.ID != last.Prog {
						rest = append(rest, p)
					}
				}
				if last.Prog == "" { // died while loading: cannot make progress
					pl.Rep.Inconclusive("driver worker %d died outside a program (stage %s): %s", w, last.Stage, core.Trunc(res.Out, 800))
					return
				}
				batch = rest
			}
		}(w, batch)
	}
	wg.Wait()
}

// StdHandler routes the generic record kinds into the report; returns false
// for kinds the caller should handle itself.
func (pl *Pipeline) StdHandler(r drive.Record) bool {
	switch r.Kind {
	case "violation":
		files := pl.ProgramFiles(r.Prog)
		for k, v := range r.Files {
			files[k] = v
		}
		pl.Rep.Violate(core.Violation{Signature: r.Signature, Case: r.Prog, Message: r.Message, Files: files})
	case "count":
		pl.Rep.Count(r.Key, r.N)
	case "distinct":
		pl.Rep.Distinct(r.Key)
	case "sample":
		pl.Rep.Sample(8, r.Data)
	case "harness-error":
		pl.Rep.Inconclusive("oracle crashed (harness error) on %s stage %s: %s\n%s", r.Prog, r.Stage, r.Outcome.Panic, core.Trunc(r.Outcome.Stack, 1500))
	case "begin", "done", "worker-done", "note":
	default:
		return false
	}
	return true
}

// FeatureSummary returns the sorted feature histogram of the programs.
func (pl *Pipeline) FeatureSummary() map[string]int {
	out := map[string]int{}
	for _, p := range pl.Progs {
		for f, n := range p.Features {
			out[f] += n
		}
	}
	return out
}

func sortedKeys[M ~map[string]V, V any](m M) []string {
	var ks []string
	for k := range m {
		ks = append(ks, k)
	}
	sort.Strings(ks)
	return ks
}

func readFile(parts ...string) (string, error) {
	b, err := os.ReadFile(filepath.Join(parts...))
	return string(b), err
}
