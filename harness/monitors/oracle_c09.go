package monitors

import (
	"go/types"

	"github.com/benoitkugler/gomacro/analysis"

	"verif/drive"
)

func init() { inProcOracles["c09dump"] = oracleC09Dump }

// c09Field is one field of a struct node as gomacro reports it.
type c09Field struct {
	Go       string `json:"go"`
	Exported bool   `json:"exported"`
	JSON     string `json:"json"`
}

// oracleC09Dump logs Exported()/JSONName() of every field of every reachable struct node.
func oracleC09Dump(ctx *progCtx) {
	if ctx.An == nil {
		return
	}
	out := map[string][]c09Field{}
	for _, n := range reachableNodes(ctx.An) {
		st, ok := n.(*analysis.Struct)
		if !ok {
			continue
		}
		named := st.Name
		if named.Obj().Pkg() == nil || named.Obj().Pkg() != ctx.Pkg.Types {
			continue
		}
		var fs []c09Field
		for _, f := range st.Fields {
			fs = append(fs, c09Field{Go: f.Field.Name(), Exported: f.Exported(), JSON: f.JSONName()})
		}
		out[typeName(named)] = fs
	}
	ctx.W.Emit(drive.Record{Prog: ctx.L.Ref.ID, Kind: "structs", Data: out})
}

func typeName(n *types.Named) string { return n.Obj().Name() }
