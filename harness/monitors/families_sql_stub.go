package monitors

import "verif/synth"

func sqlProgs(seed int64, n int) []*synth.Program { return nil }
