package monitors

import (
	"verif/core"
	"verif/synth"
)

func sqlProgs(seed int64, n int) []*synth.Program {
	var out []*synth.Program
	for i := 0; i < n; i++ {
		out = append(out, synth.NewSQLProg(i, core.Rand(seed, "sqlprog", i)))
	}
	return out
}
