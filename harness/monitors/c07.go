package monitors

import (
	"encoding/json"
	"fmt"
	"go/types"
	"os"
	"path/filepath"
	"sort"
	"strings"
	"time"

	"github.com/benoitkugler/gomacro/analysis"

	"verif/core"
	"verif/drive"
	"verif/synth"
)

func init() {
	Registry["C07"] = checkC07
	inProcOracles["c07"] = oracleC07
}

// oracleC07 (in the worker): K regenerations on the same loaded package and k
// fresh loads in the same process; every (target, file) must hash identically.
func oracleC07(ctx *progCtx) {
	w, id := ctx.W, ctx.L.Ref.ID
	K, k := 30, 3
	fmt.Sscan(ctx.Job.Opts["K"], &K)
	fmt.Sscan(ctx.Job.Opts["k"], &k)
	if ctx.An == nil {
		return
	}
	type snapshot map[string]string // "target/file" -> text
	targets := ctx.Job.Targets
	generateAll := func(an *analysis.Analysis, root string) snapshot {
		out := snapshot{}
		for _, t := range targets {
			switch t {
			case "dart":
				res := drive.GenerateDart(root, []*analysis.Analysis{an})
				if res.Outcome.OK {
					var names []string
					for n, txt := range res.Files {
						out["dart/"+n] = txt
						names = append(names, n)
					}
					sort.Strings(names)
					out["dart-fileset"] = strings.Join(names, ",")
				} else {
					out["dart-refused"] = res.Outcome.Panic
				}
			case "axios":
				eps, oc := drive.ParseRoutes(ctx.Pkg, ctx.L.Ref.Sources[0], "")
				if oc.OK {
					res := drive.GenerateAxios(eps)
					if res.Outcome.OK {
						out["axios"] = res.Text
					} else {
						out["axios-refused"] = res.Outcome.Panic
					}
				} else {
					out["axios-refused"] = oc.Panic
				}
			default:
				res := drive.Generate(t, an, ctx.L.Ref.Dir)
				if res.Outcome.OK {
					out[t] = res.Text
				} else {
					out[t+"-refused"] = res.Outcome.Panic
				}
			}
		}
		return out
	}
	compare := func(mode string, first, other snapshot) {
		keys := map[string]bool{}
		for k := range first {
			keys[k] = true
		}
		for k := range other {
			keys[k] = true
		}
		for key := range keys {
			a, okA := first[key]
			b, okB := other[key]
			w.Count("c07-comparisons", 1)
			if okA != okB {
				w.Violation(id, "nondeterministic-fileset:"+mode+":"+strings.SplitN(key, "/", 2)[0], fmt.Sprintf("%s: output %q exists in one generation and not in another", mode, key), nil)
				continue
			}
			if a != b {
				w.Violation(id, "nondeterministic-text:"+mode+":"+strings.SplitN(key, "/", 2)[0], fmt.Sprintf("%s: output %q differs between two generations of the same sources: %s", mode, key, firstDiff(a, b)),
					map[string]string{"generation-A/" + key: a, "generation-B/" + key: b})
			}
		}
	}

	first := generateAll(ctx.An, ctx.L.Root)
	for key, txt := range first {
		w.Emit(drive.Record{Prog: id, Kind: "c07hash", Key: key, Hash: drive.Hash(txt)})
	}
	// (a0) the SAME analysis generated a second time, after every target has run once on it
	// (a generator must not leave anything behind on the shared analysis nodes), then the
	// targets in reverse order on a fresh analysis
	compare("same-analysis-again", first, generateAll(ctx.An, ctx.L.Root))
	{
		var an *analysis.Analysis
		if oc := drive.Guard(func() { an = analysis.NewAnalysisFromFile(ctx.Pkg, ctx.L.Ref.Sources[0]) }); oc.OK {
			rev := append([]string(nil), targets...)
			for i, j := 0, len(rev)-1; i < j; i, j = i+1, j-1 {
				rev[i], rev[j] = rev[j], rev[i]
			}
			saved := targets
			targets = rev
			compare("targets-in-reverse-order", first, generateAll(an, ctx.L.Root))
			targets = saved
		}
	}
	// (a) same loaded package, fresh analysis each time
	for i := 1; i < K; i++ {
		var an *analysis.Analysis
		oc := drive.Guard(func() { an = analysis.NewAnalysisFromFile(ctx.Pkg, ctx.L.Ref.Sources[0]) })
		if !oc.OK {
			break
		}
		compare("same-package", first, generateAll(an, ctx.L.Root))
	}
	// (b) fresh loads in the same process
	for i := 0; i < k; i++ {
		pkgs, root, err := analysis.LoadSources(ctx.L.Ref.Sources[:1])
		if err != nil || len(pkgs) != 1 {
			w.Note(id, fmt.Sprintf("c07: reload failed: %v", err))
			break
		}
		var an *analysis.Analysis
		oc := drive.Guard(func() { an = analysis.NewAnalysisFromFile(pkgs[0], ctx.L.Ref.Sources[0]) })
		if !oc.OK {
			break
		}
		// the Dart linker depends on the root: use the batch root for comparability
		_ = root
		snap := snapshot{}
		saved := ctx.Pkg
		ctx.Pkg = pkgs[0]
		snap = generateAll(an, ctx.L.Root)
		ctx.Pkg = saved
		compare("fresh-load", first, snap)
	}

	// scheduler evidence: distinct map iteration orders actually observed
	cache := map[*types.Named]bool{} // same shape as the generators' cache of named types
	for t := range ctx.An.Types {
		if n, ok := t.(*types.Named); ok {
			cache[n] = true
		}
	}
	orders := map[string]bool{}
	for i := 0; i < K; i++ {
		var ks []string
		for n := range cache {
			ks = append(ks, n.Obj().Name())
		}
		orders[strings.Join(ks, ",")] = true
	}
	pkgsImported := map[string]bool{}
	for n := range cache {
		if n.Obj().Pkg() != nil {
			pkgsImported[n.Obj().Pkg().Path()] = true
		}
	}
	w.Emit(drive.Record{Prog: id, Kind: "c07orders", N: len(orders), Data: map[string]any{"named_types": len(cache), "packages": len(pkgsImported)}})
}

func checkC07(cfg *core.Config) int {
	rep := core.NewReport(cfg)
	var progs []*synth.Program
	n := cfg.Pick(16, 150)
	for i := 0; i < n; i++ {
		r := core.Rand(cfg.Seed, "typeprog-c07", i)
		opts := synth.RandomTypeOpts(r)
		opts.NumSubs = 2 // several imported packages: import lists have an order to get wrong
		opts.StdTypes = true
		opts.Unions = true
		progs = append(progs, synth.NewTypeProg(cfg.Seed, i, r, opts))
	}
	progs = append(progs, sqlProgs(cfg.Seed, cfg.Pick(6, 60))...)
	progs = append(progs, routeProgs(cfg.Seed, cfg.Pick(4, 40))...)
	progs = append(progs, pinnedPrograms("C07")...)
	progs = append(progs, staticPrograms("C07")...)
	pl := NewPipeline(cfg, rep, progs, true)
	defer pl.Close()

	K, k, procs := cfg.Pick(30, 120), cfg.Pick(12, 40), cfg.Pick(3, 8)
	targets := append(append([]string{}, allTargets...), "axios")
	// (c) p fresh processes: the same job run p times; hashes compared across runs
	hashes := map[string]map[string]map[string]bool{} // prog -> key -> set of hashes
	totalOrders, maxOrders := 0, 0
	for run := 0; run < procs; run++ {
		opts := map[string]string{"K": fmt.Sprint(K), "k": fmt.Sprint(k)}
		if run > 0 {
			opts = map[string]string{"K": "1", "k": "0"} // later processes only contribute their hashes
		}
		pl.Run(drive.Job{Prop: "C07", Targets: targets, Oracles: []string{"c07"}, Opts: opts}, func(r drive.Record) {
			if pl.StdHandler(r) {
				return
			}
			switch r.Kind {
			case "c07hash":
				if hashes[r.Prog] == nil {
					hashes[r.Prog] = map[string]map[string]bool{}
				}
				if hashes[r.Prog][r.Key] == nil {
					hashes[r.Prog][r.Key] = map[string]bool{}
				}
				hashes[r.Prog][r.Key][r.Hash] = true
				rep.Count("cross-process-hashes", 1)
			case "c07orders":
				totalOrders += r.N
				if r.N > maxOrders {
					maxOrders = r.N
				}
			case "abort":
				rep.Inconclusive("driver aborted on %s stage %s", r.Prog, r.Stage)
			}
		})
	}
	for prog, byKey := range hashes {
		for key, set := range byKey {
			rep.Distinct(prog + "|" + key)
			if len(set) > 1 {
				rep.Violate(core.Violation{Signature: "nondeterministic-text:cross-process:" + strings.SplitN(key, "/", 2)[0], Case: prog, Files: pl.ProgramFiles(prog),
					Message: fmt.Sprintf("program %s output %q has %d distinct sha256 over %d fresh processes", prog, key, len(set), procs)})
			}
		}
	}

	// the real command, config mode, all seven actions, no formatter installed
	cmdRuns := c07Cmd(cfg, rep, pl, procs)

	detect := 1.0
	for i := 0; i < K; i++ {
		detect *= 0.5
	}
	return rep.Finish(core.Evidence{
		Evaluations: rep.Counter("c07-comparisons") + rep.Counter("cross-process-hashes") + cmdRuns,
		Rule:        fmt.Sprintf("typeprogs biased to several imported packages and unions, sqlprogs, routeprogs x 8 targets: (a) K=%d regenerations (fresh analysis) on the same loaded package, (b) k=%d fresh LoadSources in the same process, (c) %d fresh driver processes (sha256 of every raw output text and the Dart file set) and %d runs of the real cmd binary in config mode without formatter (files written compared byte for byte). Go's randomised map iteration is the scheduler: the run counts the distinct iteration orders it saw on a map keyed like generator.Cache. Distinct = distinct (program, output) pairs compared.", K, k, procs, cmdRuns),
		Assumptions: []string{"raw generator text (what cmd writes when no formatter is installed) is what is hashed; formatters are not part of gomacro", "a 2-way order dependence shows in K generations with probability 1-2^-(K-1)"},
		Extra: map[string]any{"programs": len(progs), "distinct_map_orders_seen_total": totalOrders, "max_distinct_orders_on_one_program": maxOrders,
			"miss_probability_for_a_2_element_order_dependence": detect * 2, "features": pl.FeatureSummary()},
	})
}

// c07Cmd runs the real gomacro command on a few programs, `runs` times each, in fresh processes.
func c07Cmd(cfg *core.Config, rep *core.Report, pl *Pipeline, runs int) int {
	gomacro := filepath.Join(pl.Scratch, "gomacro")
	res := core.Run(core.HarnessDir, core.GoEnv("CGO_ENABLED=0"), 15*time.Minute, "go", "build", "-o", gomacro, "github.com/benoitkugler/gomacro/cmd")
	if res.Err != nil {
		rep.Inconclusive("cannot build gomacro cmd: %s", core.Trunc(res.Out, 500))
		return 0
	}
	goBin, err := lookGo()
	if err != nil {
		rep.Inconclusive("no go binary")
		return 0
	}
	bin := filepath.Join(pl.Scratch, "cmdbin")
	os.MkdirAll(bin, 0o755)
	os.WriteFile(filepath.Join(bin, "go"), []byte("#!/bin/sh\nexec "+goBin+" \"$@\"\n"), 0o755)
	total := 0
	nProgs := cfg.Pick(4, 20)
	done := 0
	for _, p := range pl.Progs {
		if done >= nProgs {
			break
		}
		if p.Family != "typeprog" && p.Family != "sqlprog" {
			continue
		}
		done++
		src := filepath.Join(pl.ModRoot, p.Sources[0])
		var firstFiles map[string]string
		for run := 0; run < runs; run++ {
			outDir := filepath.Join(pl.Scratch, "cmdout", p.ID, fmt.Sprint(run))
			os.MkdirAll(filepath.Join(outDir, "dart"), 0o755)
			actions := []map[string]string{
				{"Mode": "go/unions", "Output": filepath.Join(outDir, "unions.go")},
				{"Mode": "go/randdata", "Output": filepath.Join(outDir, "rand.go")},
				{"Mode": "sql", "Output": filepath.Join(outDir, "schema.sql")},
				{"Mode": "typescript/types", "Output": filepath.Join(outDir, "types.ts")},
				{"Mode": "dart", "Output": "unused"},
			}
			if p.Family == "sqlprog" {
				actions = append(actions, map[string]string{"Mode": "go/sqlcrud", "Output": filepath.Join(outDir, "crud.go")})
			}
			conf := map[string]any{"_dart": []map[string]string{{"Mode": "dart", "Output": filepath.Join(outDir, "dart")}}, src: actions}
			cb, _ := json.Marshal(conf)
			confPath := filepath.Join(outDir, "conf.json")
			os.WriteFile(confPath, cb, 0o644)
			env := []string{"PATH=" + bin, "HOME=" + os.Getenv("HOME"), "GOFLAGS=-mod=mod", "GOPROXY=off", "GOSUMDB=off", "GOTOOLCHAIN=local", "CGO_ENABLED=0",
				"GOCACHE=" + goEnvVar("GOCACHE"), "GOMODCACHE=" + goEnvVar("GOMODCACHE"), "GOROOT=" + goEnvVar("GOROOT")}
			r := core.Run(pl.ModRoot, env, 10*time.Minute, gomacro, "-config", confPath, "-generate-sets")
			total++
			rep.Count("cmd-runs", 1)
			if r.TimedOut {
				rep.Inconclusive("gomacro cmd watchdog fired on %s", p.ID)
				break
			}
			if r.ExitCode != 0 {
				// a refusal (diagnostic panic) of one of the seven actions: not a determinism matter,
				// but it must then refuse every time
				rep.Count("cmd-nonzero-exit", 1)
			}
			files := map[string]string{"exit": fmt.Sprint(r.ExitCode != 0)}
			filepath.Walk(outDir, func(path string, info os.FileInfo, err error) error {
				if err == nil && !info.IsDir() && filepath.Base(path) != "conf.json" {
					b, _ := os.ReadFile(path)
					rel, _ := filepath.Rel(outDir, path)
					files[rel] = string(b)
				}
				return nil
			})
			if run == 0 {
				firstFiles = files
				continue
			}
			keys := map[string]bool{}
			for k := range files {
				keys[k] = true
			}
			for k := range firstFiles {
				keys[k] = true
			}
			for k := range keys {
				rep.Count("c07-comparisons", 1)
				a, okA := firstFiles[k]
				b, okB := files[k]
				if okA != okB {
					rep.Violate(core.Violation{Signature: "nondeterministic-fileset:cmd", Case: p.ID, Files: pl.ProgramFiles(p.ID), Message: fmt.Sprintf("gomacro cmd on %s: file %s written in one run and not in another", p.ID, k)})
				} else if a != b {
					f := pl.ProgramFiles(p.ID)
					f["run-A/"+k] = a
					f["run-B/"+k] = b
					rep.Violate(core.Violation{Signature: "nondeterministic-text:cmd:" + strings.TrimSuffix(filepath.Base(k), filepath.Ext(k)), Case: p.ID, Files: f,
						Message: fmt.Sprintf("gomacro cmd on %s: file %s differs between two runs: %s", p.ID, k, firstDiff(a, b))})
				}
			}
		}
	}
	return total
}
