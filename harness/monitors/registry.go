package monitors

import "verif/core"

// Registry maps a property id to its check.
var Registry = map[string]func(*core.Config) int{}

// WorkerMain is the entry point of child worker processes (vcheck --worker <kind> ...).
var workers = map[string]func(args []string) int{}

func WorkerMain(args []string) int {
	if len(args) == 0 {
		return 2
	}
	fn, ok := workers[args[0]]
	if !ok {
		return 2
	}
	return fn(args[1:])
}
