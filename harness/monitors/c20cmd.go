package monitors

import (
	"bufio"
	"encoding/json"
	"fmt"
	"os"
	"path/filepath"
	"strings"
	"time"

	"verif/core"
)

const c20ModelsA = `package shop

import "time"

type IdItem int64

type Color int

const (
	Red Color = iota // red
	Green            // green
)

type Shape interface{ isShape() }

func (Circle) isShape() {}
func (Square) isShape() {}

type Circle struct{ R float64 }
type Square struct{ Side int }

type Item struct {
	Id      IdItem
	Name    string
	Color   Color
	Created time.Time
	Shape   Shape
	Tags    []string
}
`

const c20ModelsB = `package depot

type IdDepot int64

type Depot struct {
	Id   IdDepot
	Name string
	Cap  int
}

type Move struct {
	IdDepot IdDepot
	Qty     int
}
`

// c20Cmd runs the real gomacro command (built with -race) in config mode under
// a stand-in only PATH and checks the goroutine-per-output path of saveOutputs.
// Returns the number of runs performed.
func c20Cmd(cfg *core.Config, rep *core.Report, scratch, standin string) int {
	gomacro := filepath.Join(scratch, "gomacro-race")
	res := core.Run(core.HarnessDir, core.GoEnv("CGO_ENABLED=1"), 15*time.Minute, "go", "build", "-race", "-o", gomacro, "github.com/benoitkugler/gomacro/cmd")
	if res.Err != nil {
		rep.Inconclusive("cannot build gomacro cmd with -race: %s", core.Trunc(res.Out, 800))
		return 0
	}
	mod := filepath.Join(scratch, "go", "src", "example.com", "c20")
	os.MkdirAll(filepath.Join(mod, "shop"), 0o755)
	os.MkdirAll(filepath.Join(mod, "depot"), 0o755)
	os.WriteFile(filepath.Join(mod, "go.mod"), []byte("module example.com/c20\n\ngo 1.23.0\n"), 0o644)
	os.WriteFile(filepath.Join(mod, "shop", "models.go"), []byte(c20ModelsA), 0o644)
	os.WriteFile(filepath.Join(mod, "depot", "models.go"), []byte(c20ModelsB), 0o644)

	goBin, err := lookGo()
	if err != nil {
		rep.Inconclusive("go binary not found: %v", err)
		return 0
	}

	runs := 0
	configs := []string{"pppp", "mmmm", "fppp", "pfpp", "pppf"}
	if cfg.Thorough() {
		configs = append(configs, "ppfp", "mpmp", "pmpm", "ffff", "pppp", "pppp")
	}
	for i, c := range configs {
		runs++
		dir := filepath.Join(scratch, fmt.Sprintf("cmd-%d-%s", i, c))
		bin := filepath.Join(dir, "bin")
		outDir := filepath.Join(dir, "out")
		os.MkdirAll(bin, 0o755)
		os.MkdirAll(filepath.Join(outDir, "dart"), 0o755)
		os.Symlink(standin, filepath.Join(bin, "which"))
		os.WriteFile(filepath.Join(bin, "go"), []byte("#!/bin/sh\nexec "+goBin+" \"$@\"\n"), 0o755)
		names := []string{"goimports", "dart", "npx", "pg_format"}
		var parts []string
		state := map[string]string{}
		for k, t := range names {
			st := map[byte]string{'p': "present", 'm': "missing", 'f': "failing"}[c[k]]
			state[t] = st
			if st != "missing" {
				os.Symlink(standin, filepath.Join(bin, t))
			}
			parts = append(parts, t+"="+st)
		}
		conf := map[string]any{
			"_dart": []map[string]string{{"Mode": "dart", "Output": filepath.Join(outDir, "dart")}},
			filepath.Join(mod, "shop", "models.go"): []map[string]string{
				{"Mode": "go/unions", "Output": filepath.Join(outDir, "shop_unions.go")},
				{"Mode": "go/randdata", "Output": filepath.Join(outDir, "shop_rand.go")},
				{"Mode": "typescript/types", "Output": filepath.Join(outDir, "shop.ts")},
				{"Mode": "sql", "Output": filepath.Join(outDir, "shop.sql")},
				{"Mode": "dart", "Output": "unused"},
			},
			filepath.Join(mod, "depot", "models.go"): []map[string]string{
				{"Mode": "go/sqlcrud", "Output": filepath.Join(outDir, "depot_crud.go")},
				{"Mode": "sql", "Output": filepath.Join(outDir, "depot.sql")},
				{"Mode": "typescript/types", "Output": filepath.Join(outDir, "depot.ts")},
				{"Mode": "dart", "Output": "unused"},
			},
		}
		cb, _ := json.Marshal(conf)
		confPath := filepath.Join(dir, "conf.json")
		os.WriteFile(confPath, cb, 0o644)
		logPath := filepath.Join(dir, "tools.jsonl")
		raceLog := filepath.Join(dir, "race.log")
		env := []string{
			"PATH=" + bin, "HOME=" + os.Getenv("HOME"), "GOFLAGS=-mod=mod", "GOPROXY=off", "GOSUMDB=off", "GOTOOLCHAIN=local", "CGO_ENABLED=0",
			"GOCACHE=" + goEnvVar("GOCACHE"), "GOMODCACHE=" + goEnvVar("GOMODCACHE"), "GOROOT=" + goEnvVar("GOROOT"),
			"VERIF_TOOLLOG=" + logPath, "VERIF_TOOLCFG=" + strings.Join(parts, ";"),
			"GORACE=halt_on_error=0 log_path=" + raceLog,
		}
		r := core.Run(mod, env, 10*time.Minute, gomacro, "-config", confPath)
		caseID := "cmd-" + c
		files := map[string]string{"config.txt": c, "output.txt": r.Out}
		if r.TimedOut {
			rep.Inconclusive("gomacro cmd watchdog fired (config %s)", c)
			continue
		}
		nR, sigs := raceReports(raceLog + "*")
		rep.Count("race_reports_cmd", nR)
		for sig, blk := range sigs {
			rep.Violatef("cmd-"+sig, caseID, files, "race detector report in gomacro cmd:\nWARNING: DATA RACE%s", blk)
		}
		anyFailingUsed := false
		// which formats are requested: go (3 files), ts (2), sql (2), dart (>=3)
		for _, t := range names {
			if state[t] == "failing" {
				anyFailingUsed = true
			}
		}
		// invocation log
		probes := map[string]int{}
		formats := map[string][]string{}
		if f, err := os.Open(logPath); err == nil {
			sc := bufio.NewScanner(f)
			for sc.Scan() {
				var e struct {
					Tool, Kind, File string
				}
				if json.Unmarshal(sc.Bytes(), &e) == nil {
					if e.Kind == "probe" {
						probes[e.Tool]++
					} else if e.Kind == "format" {
						formats[e.Tool] = append(formats[e.Tool], e.File)
					}
				}
			}
			f.Close()
		}
		for t, k := range probes {
			if k > 1 {
				rep.Violatef("cmd-probed-more-than-once", caseID, files, "gomacro cmd probed %s %d times in one run", t, k)
			}
		}
		if anyFailingUsed {
			if r.ExitCode == 0 {
				rep.Violatef("cmd-failing-formatter-ignored", caseID, files, "config %s: a formatter exits 1 on every file but gomacro exited 0:\n%s", c, core.Trunc(r.Out, 1500))
			}
			rep.Distinct("cmd-" + c)
			continue
		}
		if r.ExitCode != 0 {
			if strings.Contains(r.Out, "DATA RACE") {
				continue // already reported
			}
			rep.Violatef("cmd-nonzero-exit", caseID, files, "config %s (no failing tool): gomacro exited %d:\n%s", c, r.ExitCode, core.Trunc(r.Out, 2000))
			continue
		}
		// every written file: formatted exactly once iff its tool is present
		written := 0
		filepath.Walk(outDir, func(p string, info os.FileInfo, err error) error {
			if err != nil || info.IsDir() {
				return nil
			}
			written++
			b, _ := os.ReadFile(p)
			tool := map[string]string{".go": "goimports", ".dart": "dart", ".ts": "npx", ".sql": "pg_format"}[filepath.Ext(p)]
			marks := strings.Count(string(b), "// formatted by "+tool+"\n")
			want := 0
			if state[tool] == "present" {
				want = 1
			}
			if marks != want {
				rep.Violatef("cmd-format-count", caseID, files, "config %s: output %s was formatted %d time(s) by %s (%s), want %d", c, filepath.Base(p), marks, tool, state[tool], want)
			}
			return nil
		})
		rep.Count("cmd_output_files", written)
		if written < 6 {
			rep.Inconclusive("gomacro cmd wrote only %d files (config %s):\n%s", written, c, core.Trunc(r.Out, 500))
		}
		rep.Distinct("cmd-" + c)
		rep.Sample(6, map[string]any{"cmd_config": c, "files_written": written, "probes": probes, "format_invocations": len(formats["goimports"]) + len(formats["dart"]) + len(formats["npx"]) + len(formats["pg_format"])})
	}
	rep.Count("cmd_runs", runs)
	return runs
}

func lookGo() (string, error) {
	for _, p := range []string{"/usr/local/go/bin/go", "/usr/bin/go", "/usr/lib/go/bin/go"} {
		if st, err := os.Stat(p); err == nil && !st.IsDir() {
			return p, nil
		}
	}
	return "", fmt.Errorf("no go binary")
}

var goEnvCache map[string]string

func goEnvVar(name string) string {
	if goEnvCache == nil {
		goEnvCache = map[string]string{}
		res := core.Run("", core.GoEnv(), time.Minute, "go", "env", "-json")
		json.Unmarshal([]byte(res.Out), &goEnvCache)
	}
	return goEnvCache[name]
}
