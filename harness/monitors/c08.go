package monitors

import (
	"encoding/json"
	"fmt"
	"os"
	"path/filepath"
	"strings"

	"verif/core"
	"verif/drive"
	"verif/support/pgmodel"
	"verif/synth"
)

func init() { Registry["C08"] = checkC08 }

func sqlTruthOf(p *synth.Program) *synth.SQLTruth {
	if t, ok := p.Meta["sql"].(*synth.SQLTruth); ok {
		return t
	}
	if raw, ok := p.Meta["sql"]; ok { // pinned programs carry JSON
		b, _ := json.Marshal(raw)
		var t synth.SQLTruth
		if json.Unmarshal(b, &t) == nil {
			return &t
		}
	}
	return nil
}

// litOf renders a literal expression the way the truth table writes SQL literals.
func litOf(e pgmodel.Expr) (string, bool) {
	switch l := e.(type) {
	case *pgmodel.Literal:
		if l.Kind == pgmodel.LitString {
			return "'" + l.Text + "'", true
		}
		return l.Text, true
	case *pgmodel.UnaryExpr:
		if s, ok := litOf(l.X); ok && l.Op == "-" {
			return "-" + s, true
		}
	case *pgmodel.ColumnRef:
		if l.Quoted { // "draft": a quoted identifier where a string literal was meant
			return `"` + l.Name + `"`, true
		}
	}
	return "", false
}

func colRefIs(e pgmodel.Expr, name string) bool {
	c, ok := e.(*pgmodel.ColumnRef)
	return ok && strings.EqualFold(c.Name, name)
}

func checkC08(cfg *core.Config) int {
	rep := core.NewReport(cfg)
	progs := sqlProgs(cfg.Seed, cfg.Pick(24, 1500))
	progs = append(progs, pinnedPrograms("C08")...)
	pl := NewPipeline(cfg, rep, progs, true)
	defer pl.Close()
	refused := map[string]string{}
	pl.Run(drive.Job{Prop: "C08", Targets: []string{"sql"}}, func(r drive.Record) {
		if pl.StdHandler(r) {
			return
		}
		if r.Kind == "stage" && !r.Outcome.OK {
			refused[r.Prog] = r.Stage + ": " + r.Outcome.Panic
		}
		if r.Kind == "abort" {
			refused[r.Prog] = "abort in " + r.Stage
		}
	})
	for _, p := range progs {
		truth := sqlTruthOf(p)
		if truth == nil {
			continue
		}
		files := pl.ProgramFiles(p.ID)
		if d, ok := refused[p.ID]; ok {
			rep.Violate(core.Violation{Signature: "refused:sql:" + classifyTSError(d), Case: p.ID, Files: files, Message: fmt.Sprintf("the SQL generator refused model file %s: %s", p.ID, d)})
			continue
		}
		b, err := os.ReadFile(filepath.Join(pl.OutDir, p.ID, "sql.sql"))
		if err != nil {
			continue
		}
		text := string(b)
		files["generated/schema.sql"] = text
		bad := func(sig, format string, args ...any) {
			rep.Violate(core.Violation{Signature: sig, Case: p.ID, Files: files, Message: fmt.Sprintf("model file %s: ", p.ID) + fmt.Sprintf(format, args...)})
		}
		sc, err := pgmodel.ParseScript(text)
		if err != nil {
			bad("sql-parse", "the generated script does not parse: %v", err)
			continue
		}
		rep.Count("scripts-parsed", 1)
		if len(sc.Tables) != len(truth.Tables) {
			var names []string
			for _, t := range sc.Tables {
				names = append(names, t.Name)
			}
			bad("table-count", "%d CREATE TABLE statements %v for %d structs", len(sc.Tables), names, len(truth.Tables))
		}
		// composite types
		for name, fields := range truth.Composites {
			used := false
			for _, t := range truth.Tables {
				for _, c := range t.Columns {
					if c.SQLType == strings.ToLower(name) {
						used = true
					}
				}
			}
			if !used {
				continue
			}
			ct := sc.Type(name)
			if ct == nil {
				bad("composite-missing", "no CREATE TYPE for local composite %s", name)
				continue
			}
			var got []string
			for _, f := range ct.Fields {
				got = append(got, f.Name+" "+f.Type)
			}
			if !strings.EqualFold(strings.Join(got, ", "), fields) {
				bad("composite-fields", "CREATE TYPE %s AS (%s), want (%s)", name, strings.Join(got, ", "), fields)
			}
			rep.Count("composite-types-checked", 1)
		}
		for _, ct := range sc.Types {
			if _, ok := truth.Composites[ct.Name]; !ok {
				bad("composite-unexpected", "CREATE TYPE %s for a type that is not a local composite", ct.Name)
			}
		}
		for _, tt := range truth.Tables {
			tab := sc.Table(tt.SQLName)
			if tab == nil {
				var names []string
				for _, t := range sc.Tables {
					names = append(names, t.Name)
				}
				bad("table-name", "no table %q for struct %s (tables: %v)", tt.SQLName, tt.Struct, names)
				continue
			}
			rep.Count("tables-checked", 1)
			if len(tab.Columns) != len(tt.Columns) {
				var got, want []string
				for _, c := range tab.Columns {
					got = append(got, c.Name)
				}
				for _, c := range tt.Columns {
					want = append(want, c.Field)
				}
				bad("column-set", "table %s has columns %v, want %v", tt.SQLName, got, want)
				continue
			}
			for i, tc := range tt.Columns {
				col := tab.Columns[i]
				rep.Count("columns-checked", 1)
				rep.Distinct(p.ID + "|" + tt.Struct + "|" + tc.Field)
				rep.Count("colkind:"+tc.Kind, 1)
				where := fmt.Sprintf("table %s column %d (%s %s, kind %s)", tt.SQLName, i, tc.Field, tc.GoType, tc.Kind)
				if !strings.EqualFold(col.Name, tc.Field) {
					bad("column-order-or-name", "%s: column is named %s", where, col.Name)
					continue
				}
				if tc.Primary {
					if !col.PrimaryKey || col.Type != "serial" {
						bad("primary-key", "%s: want `serial PRIMARY KEY`, got %q", where, col.Raw)
					}
					// the id may itself reference another table (a one-to-one table sharing the key of its parent)
					nFK, okTarget := 0, false
					for _, a := range sc.Alters {
						if strings.EqualFold(a.Table, tt.SQLName) && a.Kind == "add_foreign_key" && len(a.Columns) == 1 && strings.EqualFold(a.Columns[0], tc.Field) {
							nFK++
							if tc.FK != nil && strings.EqualFold(a.RefTable, tc.FK.TargetSQL) && a.OnDelete == tc.FK.OnDelete {
								okTarget = true
							}
						}
					}
					wantFK := 0
					if tc.FK != nil {
						wantFK = 1
						for _, d := range tt.Directives {
							if d.Kind == "foreign-key-references" && strings.Contains(d.Raw, "("+tc.Field+")") {
								wantFK++
							}
						}
					}
					if nFK != wantFK {
						bad("foreign-key-count", "%s: %d FOREIGN KEY constraints on the id column, want %d", where, nFK, wantFK)
					} else if tc.FK != nil && !okTarget {
						bad("foreign-key-target", "%s: the FOREIGN KEY of the id column does not reference %s", where, tc.FK.TargetSQL)
					}
					continue
				}
				if col.PrimaryKey {
					bad("primary-key", "%s: unexpected PRIMARY KEY: %q", where, col.Raw)
				}
				if col.Type != tc.SQLType {
					bad("column-type:"+strings.SplitN(tc.Kind, ":", 2)[0], "%s: SQL type %q, want %q", where, col.Type, tc.SQLType)
				}
				if col.NotNull != tc.NotNull {
					bad("not-null:"+strings.SplitN(tc.Kind, ":", 2)[0], "%s: NOT NULL is %v, want %v (%q)", where, col.NotNull, tc.NotNull, col.Raw)
				}
				// column level checks
				wantChecks := 0
				switch tc.Check {
				case "enum", "array_length":
					wantChecks = 1
				}
				if len(col.Checks) != wantChecks {
					bad("column-check-count", "%s: %d CHECK clauses, want %d (%q)", where, len(col.Checks), wantChecks, col.Raw)
				} else if tc.Check == "enum" {
					in, ok := col.Checks[0].(*pgmodel.InExpr)
					if !ok || in.Not || !colRefIs(in.X, tc.Field) {
						bad("enum-check-shape", "%s: CHECK is %s, want %s IN (...)", where, col.Checks[0], tc.Field)
					} else {
						var got []string
						for _, e := range in.List {
							s, _ := litOf(e)
							got = append(got, s)
						}
						if !sameSet(got, tc.EnumVals) {
							bad("enum-check-values", "%s: CHECK lists %v, the enum's constant values are %v", where, got, tc.EnumVals)
						}
					}
				} else if tc.Check == "array_length" {
					okShape := false
					if be, ok := col.Checks[0].(*pgmodel.BinaryExpr); ok && be.Op == "=" {
						if call, ok := be.L.(*pgmodel.CallExpr); ok && call.Lower == "array_length" && len(call.Args) == 2 && colRefIs(call.Args[0], tc.Field) {
							if n, ok := litOf(be.R); ok && n == fmt.Sprint(tc.ArrayLen) {
								if d, ok := litOf(call.Args[1]); ok && d == "1" {
									okShape = true
								}
							}
						}
					}
					if !okShape {
						bad("array-length-check", "%s: CHECK is %s, want array_length(%s, 1) = %d", where, col.Checks[0], tc.Field, tc.ArrayLen)
					}
				}
				// ALTER TABLE constraints touching the column
				var jsonChecks, fks, defaults, guardChecks []*pgmodel.Alter
				for _, a := range sc.Alters {
					if !strings.EqualFold(a.Table, tt.SQLName) {
						continue
					}
					switch a.Kind {
					case "add_check":
						if call, ok := a.Check.(*pgmodel.CallExpr); ok && len(call.Args) == 1 && colRefIs(call.Args[0], tc.Field) {
							jsonChecks = append(jsonChecks, a)
						}
						if be, ok := a.Check.(*pgmodel.BinaryExpr); ok && be.Op == "=" && colRefIs(be.L, tc.Field) && tc.Guard != "" {
							guardChecks = append(guardChecks, a)
						}
					case "add_foreign_key":
						if len(a.Columns) == 1 && strings.EqualFold(a.Columns[0], tc.Field) {
							fks = append(fks, a)
						}
					case "set_default":
						if strings.EqualFold(a.Column, tc.Field) {
							defaults = append(defaults, a)
						}
					}
				}
				if tc.Check == "json" {
					if len(jsonChecks) != 1 {
						bad("json-check-count", "%s: %d CHECK constraints calling a validator, want 1", where, len(jsonChecks))
					} else {
						fn := jsonChecks[0].Check.(*pgmodel.CallExpr).Lower
						if sc.Funcs[fn] == nil {
							bad("json-check-dangling", "%s: CHECK calls %s which is not defined in the script", where, fn)
						}
					}
				} else if len(jsonChecks) != 0 {
					bad("json-check-count", "%s: unexpected validator CHECK %q", where, jsonChecks[0].Raw)
				}
				if tc.Guard != "" {
					if len(defaults) != 1 || len(guardChecks) != 1 {
						bad("guard-constraints", "%s: %d SET DEFAULT and %d equality CHECK, want 1 and 1", where, len(defaults), len(guardChecks))
					} else {
						d, _ := litOf(defaults[0].Default)
						c, _ := litOf(guardChecks[0].Check.(*pgmodel.BinaryExpr).R)
						if d != tc.Guard || c != tc.Guard {
							bad("guard-value", "%s: DEFAULT %s / CHECK = %s, want the SQL literal %s", where, d, c, tc.Guard)
						}
					}
				} else if len(defaults) != 0 {
					bad("guard-constraints", "%s: unexpected DEFAULT", where)
				}
				wantFK := 0
				if tc.FK != nil {
					wantFK = 1
					for _, d := range tt.Directives {
						if d.Kind == "foreign-key-references" && strings.Contains(d.Raw, "("+tc.Field+")") {
							wantFK++
						}
					}
				}
				if len(fks) != wantFK {
					bad("foreign-key-count", "%s: %d FOREIGN KEY constraints, want %d", where, len(fks), wantFK)
				} else if tc.FK != nil {
					// the implicit constraint: right table and ON DELETE action
					found := false
					for _, a := range fks {
						if strings.EqualFold(a.RefTable, tc.FK.TargetSQL) && a.OnDelete == tc.FK.OnDelete {
							found = true
						}
					}
					if !found {
						bad("foreign-key-target", "%s: FOREIGN KEY is %q, want REFERENCES %s with ON DELETE %q", where, fks[0].Raw, tc.FK.TargetSQL, tc.FK.OnDelete)
					}
				}
			}
		}
		if rep.Counter("scripts-parsed") <= 2 {
			rep.Sample(4, map[string]any{"program": p.ID, "tables": len(truth.Tables), "script_head": core.Trunc(text, 500)})
		}
	}
	// every column kind must have been produced at least once
	for _, k := range []string{"id", "basic:string", "time", "named-date", "bytes", "enum:int", "enum:string", "composite:local", "guard", "fk:id-type", "fk:null-tag"} {
		if rep.Counter("colkind:"+k) == 0 && cfg.Thorough() {
			rep.Inconclusive("column kind %s was never produced", k)
		}
	}
	return rep.Finish(core.Evidence{
		Evaluations: rep.Counter("columns-checked"),
		Rule:        "sqlprogs (primary and link tables, every column kind of analysis/sql/types.go, nullable ids, named arrays, composites, jsonb payloads, dates, guards, foreign keys by ID type and by tag with ON DELETE, comment directives): sql.Generate's script is parsed (harness/pgmodel) into tables, columns, CHECKs, composite types and ALTER TABLE constraints and compared column by column with the truth table the synthesiser wrote while constructing each column from its kind (documented Go-to-SQL mapping). Distinct = distinct (program, table, column).",
		Assumptions: []string{"the Go-to-SQL mapping is the one stated in the property and DESIGN section 5/C08 (int64 -> integer)", "table names: CamelCase words -> snake case + s", "identifiers compared case-insensitively (PostgreSQL folds unquoted identifiers)"},
		Extra:       map[string]any{"programs": len(progs), "features": pl.FeatureSummary()},
	})
}
