package monitors

import (
	"fmt"
	"os"
	"path/filepath"
	"regexp"
	"strings"

	"verif/core"
	"verif/support/refwire"
	"verif/support/runlib"
	"verif/synth"
	"verif/tsmodel"
)

func init() { Registry["C03"] = checkC03 }

var reDigitsOnly = regexp.MustCompile(`\d+`)

func classifyMismatch(m *tsmodel.Mismatch) string {
	// cause = (category of the expected TypeScript type, JSON kind of the value met)
	exp := strings.TrimSpace(m.Expected)
	cat := "other"
	switch {
	case strings.Contains(exp, "[]") && !strings.HasPrefix(exp, "{") && !strings.HasPrefix(exp, "Record<") && !strings.HasPrefix(exp, "(Record<"):
		cat = "array"
	case strings.Contains(exp, "(= ") || strings.HasPrefix(exp, `"`):
		cat = "literal-union"
	case strings.HasPrefix(exp, "{"):
		cat = "object"
	case strings.HasPrefix(exp, "["):
		cat = "tuple"
	case strings.HasPrefix(exp, "Record<") || strings.HasPrefix(exp, "(Record<"):
		cat = "record"
	case strings.Contains(exp, "[]"):
		cat = "array"
	case strings.Contains(exp, "__opaque__") || exp == "number" || exp == "Int":
		cat = "number"
	case exp == "string" || exp == "Time" || exp == "Date_":
		cat = "string"
	case exp == "boolean":
		cat = "boolean"
	case strings.Contains(exp, "Kind"):
		cat = "kind-data-union"
	}
	got := "other"
	g := strings.TrimSpace(m.Got)
	switch {
	case g == "null":
		got = "null"
	case strings.HasPrefix(g, `"`):
		got = "string"
	case strings.HasPrefix(g, "["):
		got = "array"
	case strings.HasPrefix(g, "{"):
		got = "object"
	case g == "true" || g == "false":
		got = "boolean"
	case g != "":
		got = "number"
	}
	r := m.Reason
	if i := strings.Index(r, "closest:"); i >= 0 {
		r = r[i+8:]
	}
	r = regexp.MustCompile(`"[^"]*"`).ReplaceAllString(r, `"X"`)
	r = regexp.MustCompile(`'[^']*'`).ReplaceAllString(r, `'X'`)
	r = reIdentTok.ReplaceAllStringFunc(r, func(w string) string {
		if w == strings.ToLower(w) && len(w) < 14 && !strings.ContainsAny(w, "0123456789_") {
			return w
		}
		return "X"
	})
	r = reDigitsOnly.ReplaceAllString(r, "N")
	r = strings.TrimSpace(r)
	if len(r) > 50 {
		r = r[:50]
	}
	return cat + ":" + got + ":" + r
}

func classifyTSError(msg string) string {
	msg = regexp.MustCompile(`"[^"]*"`).ReplaceAllString(msg, `"X"`)
	msg = regexp.MustCompile(`'[^']*'`).ReplaceAllString(msg, `'X'`)
	msg = reIdentTok.ReplaceAllStringFunc(msg, func(w string) string {
		if w == strings.ToLower(w) && len(w) < 14 && !strings.ContainsAny(w, "0123456789_") {
			return w
		}
		return "X"
	})
	msg = reDigitsOnly.ReplaceAllString(msg, "N")
	if len(msg) > 70 {
		msg = msg[:70]
	}
	return msg
}

var reTSDuplicate = regexp.MustCompile(`^line \d+: (\w+): (\w+) \w+ is declared more than once`)

// countGoTypesNamed counts the type declarations of the program (all its packages) called name.
func countGoTypesNamed(p *synth.Program, name string) int {
	n := 0
	pkgs := append([]*synth.Pkg{p.Root}, p.Subs...)
	for _, pk := range pkgs {
		if pk == nil {
			continue
		}
		for _, d := range pk.Decls {
			if d.Name == name {
				n++
			}
		}
	}
	if n == 0 && p.Meta["pinned"] == true {
		return 2 // hand-written programs carry no declaration model: their duplicates are the pinned ones
	}
	return n
}

func c03Programs(cfg *core.Config) []*synth.Program {
	progs := typeProgs(cfg.Seed, cfg.Pick(32, 400))
	progs = append(progs, staticPrograms("C03")...)
	return append(progs, pinnedPrograms("C03")...)
}

func checkC03(cfg *core.Config) int {
	rep := core.NewReport(cfg)
	progs := c03Programs(cfg)
	pr := prepareRunner(cfg, rep, progs, []string{"gounions", "ts"}, nil, true)
	defer pr.pl.Close()

	// parse the TypeScript output of every program
	envs := map[string]*tsmodel.Env{}
	tsText := map[string]string{}
	for _, p := range progs {
		b, err := os.ReadFile(filepath.Join(pr.pl.OutDir, p.ID, "ts.ts"))
		if err != nil {
			if d, ok := pr.refused[p.ID]["gen-ts"]; ok {
				rep.Count("ts-refused", 1)
				// a supported program refused by the generator: the subject of the property disappeared
				rep.Violate(core.Violation{Signature: "refused:ts:" + classifyTSError(d), Case: p.ID, Files: pr.pl.ProgramFiles(p.ID),
					Message: fmt.Sprintf("typescript.Generate refused supported program %s: %s", p.ID, d)})
			}
			continue
		}
		text := string(b)
		tsText[p.ID] = text
		rep.Count("ts-files-parsed", 1)
		files := pr.pl.ProgramFiles(p.ID)
		files["generated/types.ts"] = text
		f, err := tsmodel.Parse(text)
		if err != nil {
			rep.Violate(core.Violation{Signature: "ts-syntax:" + classifyTSError(err.Error()), Case: p.ID, Files: files,
				Message: fmt.Sprintf("the TypeScript output of %s is not syntactically valid: %v", p.ID, err)})
			continue
		}
		env, errs := tsmodel.NewEnv(f)
		seen := map[string]bool{}
		for _, e := range errs {
			sig := "ts-decl:" + classifyTSError(e.Error())
			if m := reTSDuplicate.FindStringSubmatch(e.Error()); m != nil && countGoTypesNamed(p, m[1]) < 2 && countGoTypesNamed(p, strings.TrimSuffix(m[1], "Labels")) < 2 {
				// NOT two Go types sharing a local name (the recorded finding): another cause
				sig = "ts-decl:duplicate-not-from-two-go-types:" + m[2] + ":" + reDigitsOnly.ReplaceAllString(m[1], "N")
			}
			if seen[sig] {
				continue
			}
			seen[sig] = true
			rep.Violate(core.Violation{Signature: sig, Case: p.ID, Files: files,
				Message: fmt.Sprintf("the TypeScript output of %s is not self-contained: %v", p.ID, e)})
		}
		rep.Count("ts-declarations", len(f.Decls))
		dup := false
		for _, e := range errs {
			if strings.Contains(e.Error(), "declared more than once") {
				dup = true
			}
		}
		if dup {
			// two Go types share a local name: the type environment is ambiguous,
			// documents are not checked against it (the duplicate itself is reported)
			rep.Count("programs-with-duplicate-ts-names-docs-skipped", 1)
			continue
		}
		envs[p.ID] = env
	}

	var jobs []runlib.Job
	for _, id := range pr.ready {
		if !pr.rn.Progs[id] || envs[id] == nil {
			continue
		}
		hasUnions := pr.pl.ByID[id].Features["union-member:struct"]+pr.pl.ByID[id].Features["union-member:named-basic"]+pr.pl.ByID[id].Features["union-member:named-slice"]+pr.pl.ByID[id].Features["union-member:named-map"] > 0 || pr.pl.ByID[id].Meta["pinned"] == true
		if hasUnions && !pr.hasGen(id, "gounions") {
			rep.Count("programs-without-union-wrappers-skipped", 1)
			continue
		}
		jobs = append(jobs, runlib.Job{Prog: id, Cmd: "json", Seed: cfg.Seed, N: cfg.Pick(8, 30), Opts: map[string]string{"docs": "1"}})
	}
	perType := map[string]int{}
	pr.rn.Run(jobs, func(e runlib.Event) {
		switch e.Kind {
		case "doc":
			env := envs[e.Prog]
			if env == nil {
				return
			}
			if _, ok := env.Lookup(e.Type); !ok {
				rep.Count("docs-of-types-without-ts-declaration", 1)
				return
			}
			tree, err := refwire.DecodeTree(e.Doc)
			if err != nil {
				return
			}
			rep.Count("documents-checked", 1)
			rep.Distinct(e.Prog + "|" + e.Type + "|" + drive_hash(e.Doc))
			perType[e.Prog+"."+e.Type]++
			if m := env.Inhabits(tree, e.Type); m != nil {
				files := pr.pl.ProgramFiles(e.Prog)
				files["generated/types.ts"] = tsText[e.Prog]
				files["document.json"] = string(e.Doc)
				rep.Violate(core.Violation{Signature: "not-inhabitant:" + classifyMismatch(m), Case: e.Prog, Files: files,
					Message: fmt.Sprintf("program %s: a JSON document emitted by Go for %s does not inhabit the generated TypeScript type:\n  at %s: expected %s, got %s (%s)\n  document: %s", e.Prog, e.Type, m.Path, m.Expected, m.Got, m.Reason, core.Trunc(string(e.Doc), 1200))})
			} else if perType[e.Prog+"."+e.Type] == 1 && len(perType) <= 6 {
				rep.Sample(6, map[string]any{"program": e.Prog, "type": e.Type, "document": core.Trunc(string(e.Doc), 300)})
			}
		case "violation":
			// C02-class problems are decided by C02; here they only mean the document is not usable
			rep.Count("c02-class-problems-ignored", 1)
		case "abort":
			rep.Inconclusive("runner died during %s %s", e.Prog, e.What)
		default:
			if e.Kind != "count" && e.Kind != "distinct" {
				pr.stdEvent(e)
			}
		}
	})
	rep.Count("types-with-documents", len(perType))
	return rep.Finish(core.Evidence{
		Evaluations: rep.Counter("documents-checked"),
		Rule:        "typeprogs (pointer-free) x every package type reachable from the analysed file x N seeded values: the documents written by the real encoding/json (generated union wrappers compiled in) are checked for structural inhabitation of the declaration typescript.Generate emitted for the type, after parsing the whole output with the harness's TypeScript-subset parser (syntax) and resolving every referenced name (declared exactly once). Distinct = distinct (type, document) pairs.",
		Assumptions: []string{
			"TypeScript is modelled structurally (harness/tsmodel): no tsc in the sandbox; Record<K,V> checks key admissibility only (a partial Go map is accepted although tsc would demand every enum key)",
			"fields tagged omitempty are built non-empty (TypeScript output has no optional members; see DESIGN section 10)",
			"Int is checked as JSON number (no integrality demanded)",
		},
		Extra: map[string]any{"programs": len(progs), "features": pr.pl.FeatureSummary()},
	})
}

func drive_hash(b []byte) string {
	h := uint64(14695981039346656037)
	for _, c := range b {
		h ^= uint64(c)
		h *= 1099511628211
	}
	return fmt.Sprintf("%016x", h)
}
