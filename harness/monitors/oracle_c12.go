package monitors

import (
	"encoding/json"
	"fmt"
	"go/ast"
	"go/token"
	"go/types"
	"path/filepath"
	"reflect"
	"sort"
	"strings"

	"github.com/benoitkugler/gomacro/analysis"
)

func styleOf(meta json.RawMessage, pkgPath, name string) string {
	if len(meta) == 0 {
		return "?"
	}
	var m struct {
		Styles map[string]string `json:"styles"`
	}
	if json.Unmarshal(meta, &m) != nil {
		return "?"
	}
	if s, ok := m.Styles[pkgPath+"."+name]; ok {
		return s
	}
	return "-"
}

const timeStructString = "struct{wall uint64; ext int64; loc *time.Location}"

func isTimeLike(t types.Type) bool {
	return t.Underlying().String() == timeStructString
}

// c12walker compares gomacro's node graph with go/types, position by position.
type c12walker struct {
	ctx     *progCtx
	ref     *refModel
	seen    map[[2]any]bool
	reached map[types.Type]bool
	nViol   int
}

func (wk *c12walker) bad(sig, format string, args ...any) {
	wk.nViol++
	if wk.nViol > 20 {
		return
	}
	wk.ctx.W.Violation(wk.ctx.L.Ref.ID, sig, fmt.Sprintf(format, args...), nil)
}

// flatFields is the reference flattening rule: an embedded field whose type is
// a (non time) struct contributes its own flattened fields.
func (wk *c12walker) flatFields(st *types.Struct) (vars []*types.Var, tags []string) {
	vars, tags, depths := wk.flatFieldsDepth(st, 0)
	// Fields sharing one JSON key after flattening: the analysis keeps what encoding/json serialises
	// (C09) - the least nested one, a field NAMED by its tag winning over the others at that depth, none
	// when several remain. Fields that are not serialised (unexported, json:"-") are never grouped.
	key := func(i int) (string, bool, bool) {
		name, _, _ := strings.Cut(reflect.StructTag(tags[i]).Get("json"), ",")
		if !vars[i].Exported() || reflect.StructTag(tags[i]).Get("json") == "-" {
			return "", false, false
		}
		if name == "" {
			return vars[i].Name(), false, true
		}
		return name, true, true
	}
	groups := map[string][]int{}
	for i := range vars {
		if k, _, ok := key(i); ok {
			groups[k] = append(groups[k], i)
		}
	}
	hidden := map[int]bool{}
	for _, idx := range groups {
		if len(idx) < 2 {
			continue
		}
		min := depths[idx[0]]
		for _, i := range idx {
			if depths[i] < min {
				min = depths[i]
			}
		}
		var cands, named []int
		for _, i := range idx {
			if depths[i] == min {
				cands = append(cands, i)
				if _, isNamed, _ := key(i); isNamed {
					named = append(named, i)
				}
			}
		}
		keep := -1
		if len(cands) == 1 {
			keep = cands[0]
		} else if len(named) == 1 {
			keep = named[0]
		}
		for _, i := range idx {
			if i != keep {
				hidden[i] = true
			}
		}
	}
	if len(hidden) == 0 {
		return vars, tags
	}
	wk.ctx.W.Count("struct-fields-hidden-by-json-shadowing", len(hidden))
	var v2 []*types.Var
	var t2 []string
	for i := range vars {
		if !hidden[i] {
			v2, t2 = append(v2, vars[i]), append(t2, tags[i])
		}
	}
	return v2, t2
}

func (wk *c12walker) flatFieldsDepth(st *types.Struct, depth int) (vars []*types.Var, tags []string, depths []int) {
	for i := 0; i < st.NumFields(); i++ {
		f := st.Field(i)
		ft := types.Unalias(f.Type())
		if f.Embedded() {
			if n, ok := ft.(*types.Named); ok && !isTimeLike(n) {
				if inner, ok := n.Underlying().(*types.Struct); ok {
					if _, isEnum := wk.ref.enums[n]; !isEnum {
						v, t, d := wk.flatFieldsDepth(inner, depth+1)
						vars = append(vars, v...)
						tags = append(tags, t...)
						depths = append(depths, d...)
						continue
					}
				}
			}
		}
		vars = append(vars, f)
		tags = append(tags, st.Tag(i))
		depths = append(depths, depth)
	}
	return
}

func (wk *c12walker) walk(t types.Type, node analysis.Type, path string) {
	w := wk.ctx.W
	if node == nil {
		wk.bad("nil-node", "%s: no node for Go type %s", path, t)
		return
	}
	orig := t
	t = types.Unalias(t)
	key := [2]any{t, node}
	if wk.seen[key] {
		return
	}
	wk.seen[key] = true
	wk.reached[orig] = true
	wk.reached[t] = true
	w.Count("positions-checked", 1)

	// presence in the result map
	if wk.ctx.An.Types[orig] == nil && wk.ctx.An.Types[t] == nil {
		wk.bad("type-not-registered", "%s: Go type %s is reachable but absent from Analysis.Types", path, t)
	}

	// time special case
	if isTimeLike(t) {
		named, _ := t.(*types.Named)
		wantDate := named != nil && strings.Contains(strings.ToLower(named.Obj().Name()), "date")
		if named != nil && named.Obj().Pkg() != nil && named.Obj().Pkg().Path() == "time" {
			ti, ok := node.(*analysis.Time)
			if !ok || ti.IsDate {
				wk.bad("time-classification", "%s: time.Time reported as %T %+v", path, node, node)
			}
			return
		}
		nn, ok := node.(*analysis.Named)
		if !ok {
			wk.bad("time-classification", "%s: named time type %s reported as %T", path, t, node)
			return
		}
		ti, ok := nn.Underlying.(*analysis.Time)
		if !ok || ti.IsDate != wantDate {
			wk.bad("time-classification", "%s: named time type %s: underlying %T %+v, want Time{IsDate:%v}", path, t, nn.Underlying, nn.Underlying, wantDate)
		}
		if nn.Type() != t {
			wk.bad("type-roundtrip", "%s: node.Type() = %s, want %s", path, nn.Type(), t)
		}
		return
	}

	// Type() round trip
	func() {
		defer func() {
			if r := recover(); r != nil {
				wk.bad("type-roundtrip-panic", "%s: node.Type() panicked for %s: %v", path, t, r)
			}
		}()
		if !identicalModTime(node.Type(), t) {
			wk.bad("type-roundtrip", "%s: node.Type() = %s is not identical to %s", path, node.Type(), t)
		}
	}()

	switch tt := t.(type) {
	case *types.Named:
		w.Distinct("kind|named|" + fmt.Sprintf("%T", tt.Underlying()))
		if _, isEnum := wk.ref.enums[tt]; isEnum {
			if _, ok := node.(*analysis.Enum); !ok {
				wk.bad("classification", "%s: %s should be an enum node, got %T", path, t, node)
			}
			return
		}
		if members, isUnion := wk.ref.unions[tt]; isUnion {
			un, ok := node.(*analysis.Union)
			if !ok {
				wk.bad("classification", "%s: %s should be a union node, got %T", path, t, node)
				return
			}
			if len(un.Members) == len(members) {
				for i, mb := range members {
					wk.walk(mb, un.Members[i], path+"|"+mb.Obj().Name())
				}
			} else {
				wk.bad("union-member-links", "%s: union %s has %d member links, want %d", path, t, len(un.Members), len(members))
			}
			return
		}
		switch under := tt.Underlying().(type) {
		case *types.Struct:
			st, ok := node.(*analysis.Struct)
			if !ok {
				wk.bad("classification", "%s: %s should be a struct node, got %T", path, t, node)
				return
			}
			if st.Name != tt {
				wk.bad("struct-name", "%s: struct node names %s, want %s", path, st.Name, tt)
			}
			vars, tags := wk.flatFields(under)
			if len(vars) != len(st.Fields) {
				var got []string
				for _, f := range st.Fields {
					got = append(got, f.Field.Name())
				}
				var want []string
				for _, v := range vars {
					want = append(want, v.Name())
				}
				wk.bad("struct-fields", "%s: struct %s has fields %v, want %v", path, t, got, want)
				return
			}
			for i, v := range vars {
				f := st.Fields[i]
				if f.Field != v {
					wk.bad("struct-field-identity", "%s: struct %s field %d is %s, want %s", path, t, i, f.Field, v)
					continue
				}
				if string(f.Tag) != tags[i] {
					wk.bad("struct-field-tag", "%s: struct %s field %s tag %q, want %q", path, t, v.Name(), f.Tag, tags[i])
				}
				wk.walk(v.Type(), f.Type, path+"."+v.Name())
			}
		default:
			nn, ok := node.(*analysis.Named)
			if !ok {
				wk.bad("classification", "%s: %s should be a Named node, got %T", path, t, node)
				return
			}
			wk.walk(tt.Underlying(), nn.Underlying, path+"~")
		}
	case *types.Basic:
		w.Distinct("kind|basic|" + tt.Name())
		b, ok := node.(*analysis.Basic)
		if !ok {
			wk.bad("classification", "%s: basic %s reported as %T", path, t, node)
			return
		}
		if b.B != tt {
			wk.bad("basic-kind", "%s: basic node holds %s, want %s", path, b.B, tt)
		}
	case *types.Pointer:
		p, ok := node.(*analysis.Pointer)
		if !ok {
			wk.bad("classification", "%s: pointer %s reported as %T", path, t, node)
			return
		}
		wk.walk(tt.Elem(), p.Elem, path+"*")
	case *types.Array:
		w.Distinct(fmt.Sprintf("kind|array|%d", tt.Len()))
		a, ok := node.(*analysis.Array)
		if !ok {
			wk.bad("classification", "%s: array %s reported as %T", path, t, node)
			return
		}
		if int64(a.Len) != tt.Len() {
			wk.bad("array-len", "%s: array length %d, want %d", path, a.Len, tt.Len())
		}
		wk.walk(tt.Elem(), a.Elem, path+"[]")
	case *types.Slice:
		w.Distinct("kind|slice")
		a, ok := node.(*analysis.Array)
		if !ok {
			wk.bad("classification", "%s: slice %s reported as %T", path, t, node)
			return
		}
		if a.Len != -1 {
			wk.bad("array-len", "%s: slice reported with length %d, want -1", path, a.Len)
		}
		wk.walk(tt.Elem(), a.Elem, path+"[]")
	case *types.Map:
		w.Distinct("kind|map")
		mp, ok := node.(*analysis.Map)
		if !ok {
			wk.bad("classification", "%s: map %s reported as %T", path, t, node)
			return
		}
		wk.walk(tt.Key(), mp.Key, path+"[key]")
		wk.walk(tt.Elem(), mp.Elem, path+"[val]")
	default:
		wk.ctx.W.Note(wk.ctx.L.Ref.ID, fmt.Sprintf("C12: unexpected Go type %T at %s", t, path))
	}
}

func oracleC12(ctx *progCtx) {
	w, id := ctx.W, ctx.L.Ref.ID
	if ctx.An == nil {
		if !ctx.AnOut.OK {
			w.Violation(id, "refused:analysis:"+ctx.AnOut.Signature(), fmt.Sprintf("analysis of a supported program did not complete: %s", ctx.AnOut.Panic), nil)
		}
		return
	}
	an := ctx.An
	// source order: the file's top-level type declarations in position order
	srcAbs, _ := filepath.Abs(ctx.L.Ref.Sources[0])
	var specs []*ast.TypeSpec
	for _, f := range ctx.Pkg.Syntax {
		if ctx.Pkg.Fset.File(f.Package).Name() != srcAbs {
			continue
		}
		for _, d := range f.Decls {
			if gd, ok := d.(*ast.GenDecl); ok && gd.Tok == token.TYPE {
				for _, s := range gd.Specs {
					specs = append(specs, s.(*ast.TypeSpec))
				}
			}
		}
	}
	sort.Slice(specs, func(i, j int) bool { return specs[i].Pos() < specs[j].Pos() })
	var want []types.Type
	var wantNames []string
	for _, s := range specs {
		if obj := ctx.Pkg.TypesInfo.Defs[s.Name]; obj != nil {
			want = append(want, obj.Type())
			wantNames = append(wantNames, s.Name.Name)
		}
	}
	var gotNames []string
	for _, t := range an.Source {
		gotNames = append(gotNames, typeShortName(t))
	}
	w.Count("source-decls", len(want))
	if len(want) != len(an.Source) {
		w.Violation(id, "source-list", fmt.Sprintf("Analysis.Source has %d entries %v, the file declares %d types %v", len(an.Source), gotNames, len(want), wantNames), nil)
	} else {
		for i := range want {
			if want[i] != an.Source[i] {
				sig := "source-list"
				if sameSet(gotNames, wantNames) {
					sig = "source-order"
				}
				w.Violation(id, sig, fmt.Sprintf("Analysis.Source = %v, want source order %v", gotNames, wantNames), nil)
				break
			}
		}
	}

	wk := &c12walker{ctx: ctx, ref: buildRefModel(ctx.Pkg), seen: map[[2]any]bool{}, reached: map[types.Type]bool{}}
	for i, t := range want {
		node := an.Types[t]
		if node == nil {
			w.Violation(id, "source-type-missing", fmt.Sprintf("source declaration %s has no entry in Analysis.Types", wantNames[i]), nil)
			continue
		}
		wk.walk(t, node, wantNames[i])
	}
	// every node of the result map describes its key
	var keys []types.Type
	for k := range an.Types {
		keys = append(keys, k)
	}
	sort.Slice(keys, func(i, j int) bool { return keys[i].String() < keys[j].String() })
	for _, k := range keys {
		wk.walk(k, an.Types[k], "Types["+typeShortName(k)+"]")
	}
	w.Count("programs-walked", 1)
	w.Distinct(fmt.Sprintf("graph|positions=%d", len(wk.seen)))
	w.Sample(map[string]any{"program": id, "source": wantNames, "types_in_result": len(an.Types), "positions_checked": len(wk.seen)})
}

func typeShortName(t types.Type) string {
	return types.TypeString(t, func(p *types.Package) string { return p.Name() })
}

// identicalModTime is types.Identical except that gomacro reports time.Time as
// its predefined `Time` type (a named type without package), as the property allows.
func identicalModTime(got, want types.Type) bool {
	if wn, ok := want.(*types.Named); ok && wn.Obj().Pkg() != nil && wn.Obj().Pkg().Path() == "time" && wn.Obj().Name() == "Time" {
		gn, ok := got.(*types.Named)
		return ok && gn.Obj().Name() == "Time" && (gn.Obj().Pkg() == nil || gn.Obj().Pkg().Path() == "time")
	}
	switch w := want.(type) {
	case *types.Slice:
		g, ok := got.(*types.Slice)
		return ok && identicalModTime(g.Elem(), w.Elem())
	case *types.Array:
		g, ok := got.(*types.Array)
		return ok && g.Len() == w.Len() && identicalModTime(g.Elem(), w.Elem())
	case *types.Map:
		g, ok := got.(*types.Map)
		return ok && identicalModTime(g.Key(), w.Key()) && identicalModTime(g.Elem(), w.Elem())
	case *types.Pointer:
		g, ok := got.(*types.Pointer)
		return ok && identicalModTime(g.Elem(), w.Elem())
	}
	return types.Identical(got, want)
}
