package monitors

import (
	"fmt"

	"verif/core"
	"verif/drive"
	"verif/synth"
)

func init() { Registry["C18"] = checkC18 }

var allTargets = []string{"gounions", "randdata", "sqlcrud", "sqlcrud-sets", "sql", "ts", "dart"}

// typeProgs builds n typeprogs from the seed.
func typeProgs(seed int64, n int) []*synth.Program {
	var out []*synth.Program
	for i := 0; i < n; i++ {
		r := core.Rand(seed, "typeprog", i)
		out = append(out, synth.NewTypeProg(seed, i, r, synth.RandomTypeOpts(r)))
	}
	return out
}

func unsupProgs(seed int64, n int, all bool) []*synth.Program {
	pl := synth.AllUnsupPlacements()
	var out []*synth.Program
	if all {
		for i, fp := range pl {
			p, _ := synth.NewUnsupProg(i, synth.UnsupForms[fp[0]], synth.UnsupPositions[fp[1]])
			out = append(out, p)
		}
		return out
	}
	r := core.Rand(seed, "unsup")
	perm := r.Perm(len(pl))
	for i := 0; i < n && i < len(pl); i++ {
		fp := pl[perm[i]]
		p, _ := synth.NewUnsupProg(i, synth.UnsupForms[fp[0]], synth.UnsupPositions[fp[1]])
		out = append(out, p)
	}
	// the forms that only exist at top level (they name the declared type) are always included
	for _, fp := range pl {
		if synth.UnsupForms[fp[0]].TopLevelOnly {
			p, _ := synth.NewUnsupProg(len(out), synth.UnsupForms[fp[0]], synth.UnsupPositions[fp[1]])
			out = append(out, p)
		}
	}
	return out
}

func checkC18(cfg *core.Config) int {
	rep := core.NewReport(cfg)
	progs := typeProgs(cfg.Seed, cfg.Pick(32, 2000))
	progs = append(progs, unsupProgs(cfg.Seed, 60, cfg.Thorough())...)
	// unusual but legal spellings, every time: one-letter names, recursion through pointers and keys
	for i := 0; i < cfg.Pick(6, 120); i++ {
		r := core.Rand(cfg.Seed, "typeprog-c18-spellings", i)
		opts := synth.RandomTypeOpts(r)
		opts.OneLetterNames = true
		opts.Recursive, opts.Pointers = true, i%2 == 0
		progs = append(progs, synth.NewTypeProg(cfg.Seed, 9000+i, r, opts))
	}
	progs = append(progs, sqlProgs(cfg.Seed, cfg.Pick(16, 800))...)
	progs = append(progs, routeProgs(cfg.Seed, cfg.Pick(16, 800))...)
	progs = append(progs, pinnedPrograms("C18")...)
	progs = append(progs, staticPrograms("C18")...)
	pl := NewPipeline(cfg, rep, progs, true)
	defer pl.Close()

	calls := 0
	outcomes := map[string]int{}
	pl.Run(drive.Job{Prop: "C18", Targets: append(append([]string{}, allTargets...), "axios"), Oracles: []string{"routes-c18"}}, func(r drive.Record) {
		if pl.StdHandler(r) {
			return
		}
		switch r.Kind {
		case "stage":
			calls++
			rep.Count("calls", 1)
			oc := r.Outcome
			p := pl.ByID[r.Prog]
			fam := ""
			if p != nil {
				fam = p.Family
			}
			switch {
			case oc.OK:
				outcomes["completed"]++
				rep.Count("completed", 1)
			case oc.Runtime:
				outcomes["runtime-error"]++
				files := pl.ProgramFiles(r.Prog)
				files["stack.txt"] = oc.Stack
				rep.Violate(core.Violation{Signature: oc.Signature(), Case: r.Prog, Files: files,
					Message: fmt.Sprintf("program %s (%s) stage %s died with a Go runtime error instead of a diagnostic: %s\n%s", r.Prog, fam, r.Stage, oc.Panic, core.Trunc(oc.Stack, 1200))})
			default:
				outcomes["diagnostic"]++
				rep.Count("diagnostic-refusals", 1)
				rep.Distinct("diag|" + r.Stage + "|" + oc.Signature())
			}
			if p != nil {
				form, _ := p.Meta["form"].(string)
				pos, _ := p.Meta["position"].(string)
				kind := "completed"
				if !oc.OK {
					kind = "refused"
				}
				rep.Distinct(fmt.Sprintf("%s|%s|%s|%s|%s", fam, form, pos, r.Stage, kind))
				if fam == "unsup" && !oc.OK && !oc.Runtime {
					rep.Sample(8, map[string]any{"program": r.Prog, "form": form, "position": pos, "stage": r.Stage, "diagnostic": oc.Panic})
				}
			}
		case "abort":
			files := pl.ProgramFiles(r.Prog)
			files["abort-output.txt"] = r.Message
			sig := "fatal-abort:" + r.Stage
			rep.Violate(core.Violation{Signature: sig, Case: r.Prog, Files: files,
				Message: fmt.Sprintf("program %s stage %s aborted the process (stack exhaustion / runtime throw):\n%s", r.Prog, r.Stage, core.Trunc(r.Message, 1500))})
		}
	})
	_ = calls
	return rep.Finish(core.Evidence{
		Evaluations: rep.Counter("calls"),
		Rule:        "every synthesised program (typeprog, sqlprog, routeprog with all legal spellings; unsupported forms x positions) x analysis + seven targets, each call isolated under recover() in a worker process; a recovered value implementing runtime.Error or a process abort is a violation, a string/error diagnostic is a refusal. Distinct = distinct (family, form, position, stage, completed|refused) and distinct diagnostic signatures.",
		Assumptions: []string{"malformed comment directives and tags are outside the quantifier and not generated", "a watchdog firing is inconclusive; stack exhaustion is made deterministic with debug.SetMaxStack"},
		Extra:       map[string]any{"features": pl.FeatureSummary()},
	})
}
