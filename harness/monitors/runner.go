package monitors

import (
	"bufio"
	"encoding/json"
	"fmt"
	"os"
	"path/filepath"
	"regexp"
	"runtime"
	"sort"
	"strings"
	"sync"
	"time"

	"verif/core"
	"verif/support/runlib"
)

// Runner is the compiled scratch module (source packages + generated Go + support libs).
type Runner struct {
	pl    *Pipeline
	Path  string
	Progs map[string]bool // programs compiled in
	// BuildErrors: compiler output attributed to programs that had to be left out
	BuildErrors map[string]string

	startupReported bool // a crash before the first job was reported (once per runner)
}

var reBuildErrFile = regexp.MustCompile(`(?m)^((?:\.\./)*)([\w./-]+?)/([\w.-]+\.go):(\d+):(\d+): (.*)$`)

// BuildRunner compiles one runner binary for the given programs. Programs whose
// package does not compile are left out (reported in BuildErrors) and the build is retried.
// a frame of generated code in a crash trace: .../synth/<prog>/zz_gen_<target>.go
var reStartupFrame = regexp.MustCompile(`synth/([a-z]\w*)/(zz_gen_\w+\.go)`)

func (pl *Pipeline) BuildRunner(ready []string) *Runner {
	rn := &Runner{pl: pl, Progs: map[string]bool{}, BuildErrors: map[string]string{}}
	progs := append([]string(nil), ready...)
	sort.Strings(progs)
	for attempt := 0; attempt < 6 && len(progs) > 0; attempt++ {
		var sb strings.Builder
		sb.WriteString("//go:build verifrun\n\npackage main\n\nimport (\n\t\"verif/support/runlib\"\n\n")
		for _, id := range progs {
			p := pl.ByID[id]
			fmt.Fprintf(&sb, "\t_ %q\n", p.Root.Path)
		}
		sb.WriteString(")\n\nfunc main() { runlib.Main() }\n")
		dir := filepath.Join(pl.ModRoot, "zz_runner")
		os.MkdirAll(dir, 0o755)
		os.WriteFile(filepath.Join(dir, "main.go"), []byte(sb.String()), 0o644)
		out := filepath.Join(pl.Scratch, "runner")
		res := core.Run(pl.ModRoot, core.GoEnv("CGO_ENABLED=0"), 30*time.Minute, "go", "build", "-tags", "verifrun", "-o", out, "./zz_runner")
		if res.Err == nil {
			rn.Path = out
			for _, id := range progs {
				rn.Progs[id] = true
			}
			return rn
		}
		if res.TimedOut {
			pl.Rep.Inconclusive("runner build watchdog fired")
			return rn
		}
		// attribute errors to programs by directory
		bad := map[string]bool{}
		for _, m := range reBuildErrFile.FindAllStringSubmatch(res.Out, -1) {
			dir := m[2]
			id := strings.Split(dir, "/")[0]
			if pl.ByID[id] != nil {
				bad[id] = true
				rn.BuildErrors[id] += m[0] + "\n"
			}
		}
		if len(bad) == 0 {
			pl.Rep.Inconclusive("runner build failed and the errors cannot be attributed to a program:\n%s", core.Trunc(res.Out, 3000))
			return rn
		}
		var rest []string
		for _, id := range progs {
			if !bad[id] {
				rest = append(rest, id)
			}
		}
		progs = rest
	}
	return rn
}

// Run executes jobs over nW runner processes. Events are passed to handle
// (serialised). A process that dies is attributed to its last begin event
// (handle receives an Event of kind "abort") and the remaining jobs are resumed.
func (rn *Runner) Run(jobs []runlib.Job, handle func(runlib.Event)) {
	if rn.Path == "" || len(jobs) == 0 {
		return
	}
	nW := runtime.NumCPU()
	if nW > len(jobs) {
		nW = len(jobs)
	}
	var mu sync.Mutex
	var wg sync.WaitGroup
	for w := 0; w < nW; w++ {
		var batch []runlib.Job
		for i := w; i < len(jobs); i += nW {
			batch = append(batch, jobs[i])
		}
		wg.Add(1)
		go func(w int, batch []runlib.Job) {
			defer wg.Done()
			for attempt := 0; len(batch) > 0 && attempt < 200; attempt++ {
				jobPath := filepath.Join(rn.pl.Scratch, fmt.Sprintf("rjob-%d-%d.json", w, attempt))
				outPath := filepath.Join(rn.pl.Scratch, fmt.Sprintf("rout-%d-%d.jsonl", w, attempt))
				jb, _ := json.Marshal(batch)
				os.WriteFile(jobPath, jb, 0o644)
				res := core.Run(rn.pl.ModRoot, os.Environ(), 40*time.Minute, rn.Path, jobPath, outPath)
				doneJobs := 0
				var last runlib.Event
				finished := false
				bailed := false
				if f, err := os.Open(outPath); err == nil {
					sc := bufio.NewScanner(f)
					sc.Buffer(make([]byte, 1<<20), 1<<28)
					for sc.Scan() {
						var e runlib.Event
						if json.Unmarshal(sc.Bytes(), &e) != nil {
							continue
						}
						switch e.Kind {
						case "begin":
							last = e
						case "done", "missing-program", "unknown-command":
							doneJobs++
						case "runner-done":
							finished = true
						case "bail":
							bailed = true // the runner reported the problem itself and exited on purpose
						}
						mu.Lock()
						handle(e)
						mu.Unlock()
					}
					f.Close()
				}
				os.Remove(outPath)
				if finished {
					return
				}
				if res.TimedOut {
					rn.pl.Rep.Inconclusive("runner process %d watchdog fired during %s %s %s", w, last.Prog, last.Cmd, last.What)
					return
				}
				if last.Prog == "" && doneJobs == 0 && !bailed {
					// the process died before its first job: package initialisation of the compiled-in
					// (generated) code. Attribute it to the program whose generated file is on the stack.
					mu.Lock()
					if !rn.startupReported {
						rn.startupReported = true
						if m := reStartupFrame.FindStringSubmatch(res.Out); m != nil && rn.pl.ByID[m[1]] != nil {
							handle(runlib.Event{Prog: m[1], Kind: "abort", Cmd: batch[0].Cmd, What: "process start (package initialisation of " + m[2] + ")", Message: core.Trunc(res.Out, 5000)})
						} else {
							rn.pl.Rep.Inconclusive("runner process died at start-up and the crash cannot be attributed to a program:\n%s", core.Trunc(res.Out, 3000))
						}
					}
					mu.Unlock()
					return
				}
				if !bailed {
					mu.Lock()
					handle(runlib.Event{Prog: last.Prog, Kind: "abort", Cmd: last.Cmd, What: last.What, Message: core.Trunc(res.Out, 5000)})
					mu.Unlock()
				}
				// skip the job that died
				if doneJobs+1 <= len(batch) {
					batch = batch[doneJobs+1:]
				} else {
					batch = nil
				}
			}
		}(w, batch)
	}
	wg.Wait()
}
