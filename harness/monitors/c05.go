package monitors

import (
	"encoding/json"
	"fmt"
	"path/filepath"
	"sort"
	"strings"

	"verif/core"
	"verif/support/runlib"
)

func init() { Registry["C05"] = checkC05 }

func checkC05(cfg *core.Config) int {
	rep := core.NewReport(cfg)
	progs := sqlProgs(cfg.Seed, cfg.Pick(20, 200))
	progs = append(progs, pinnedPrograms("C05")...)
	pr := prepareRunner(cfg, rep, progs, []string{"gounions", "sql", "sqlcrud-sets"}, nil, true)
	defer pr.pl.Close()
	var jobs []runlib.Job
	for _, p := range progs {
		truth := sqlTruthOf(p)
		if truth == nil {
			continue
		}
		// tables outside the history driver's domain (extern composite, dangling or self-referencing
		// foreign key, id shared with a parent) and the tables whose rows need one of them
		excluded := map[string]bool{}
		for changed := true; changed; {
			changed = false
			for _, t := range truth.Tables {
				if excluded[t.Struct] {
					continue
				}
				out := !t.CrudOK
				for _, c := range t.Columns {
					if c.FK != nil && c.FK.Exists && excluded[c.FK.Target] {
						out = true
					}
				}
				if out {
					excluded[t.Struct] = true
					changed = true
				}
			}
		}
		files := pr.pl.ProgramFiles(p.ID)
		if len(excluded) > 0 {
			kept := *truth
			kept.Tables = nil
			for _, t := range truth.Tables {
				if !excluded[t.Struct] {
					kept.Tables = append(kept.Tables, t)
				}
			}
			rep.Count("tables-outside-crud-domain", len(excluded))
			if len(kept.Tables) == 0 {
				rep.Count("programs-outside-crud-domain", 1)
				continue
			}
			for x := range excluded {
				kept.Excluded = append(kept.Excluded, x)
			}
			sort.Strings(kept.Excluded)
			truth = &kept
		}
		if d, ok := pr.refused[p.ID]["gen-sqlcrud-sets"]; ok {
			rep.Violate(core.Violation{Signature: "refused:sqlcrud:" + classifyTSError(d), Case: p.ID, Files: files, Message: fmt.Sprintf("the CRUD generator refused model file %s: %s", p.ID, d)})
			continue
		}
		hasUnion := false
		for f := range p.Features {
			if strings.Contains(f, "union") {
				hasUnion = true
			}
		}
		if hasUnion && !pr.hasGen(p.ID, "gounions") {
			rep.Count("programs-without-union-wrappers-skipped", 1) // decided by C01
			continue
		}
		if !pr.rn.Progs[p.ID] || !pr.hasGen(p.ID, "sqlcrud-sets") {
			rep.Count("programs-whose-crud-output-does-not-compile", 1) // decided by C01
			continue
		}
		tb, _ := json.Marshal(truth)
		jobs = append(jobs, runlib.Job{Prog: p.ID, Cmd: "crud", Seed: cfg.Seed, N: cfg.Pick(80, 400), Opts: map[string]string{
			"truth": string(tb), "script": filepath.Join(pr.pl.OutDir, p.ID, "sql.sql"),
		}})
	}
	notExercised := map[string]int{}
	pr.rn.Run(jobs, func(e runlib.Event) {
		if pr.stdEvent(e) {
			return
		}
		switch e.Kind {
		case "crud-summary":
			rep.Count("histories", 1)
			if m, ok := e.Data.(map[string]any); ok {
				if l, ok := m["unclassified"].([]any); ok && len(l) > 0 {
					rep.Inconclusive("program %s: generated functions the history driver cannot classify: %v", e.Prog, l)
				}
				if l, ok := m["not_exercised"].([]any); ok {
					for _, n := range l {
						notExercised[kindOfName(fmt.Sprint(n))]++
					}
				}
				if rep.Counter("histories") <= 3 {
					rep.Sample(4, map[string]any{"program": e.Prog, "summary": m})
				}
			}
		case "unsupported":
			rep.Count("histories-stopped-on-unsupported-statement", 1)
			rep.Note("unsupported: %s", core.Trunc(e.Message, 300))
		case "note":
		case "abort":
			files := pr.pl.ProgramFiles(e.Prog)
			files["abort-output.txt"] = e.Message
			rep.Violate(core.Violation{Signature: "crud-abort", Case: e.Prog, Files: files, Message: fmt.Sprintf("the runner died during %s: %s", e.What, core.Trunc(e.Message, 1200))})
		}
	})
	if h, u := rep.Counter("histories"), rep.Counter("histories-stopped-on-unsupported-statement"); h > 0 && u*5 > h {
		rep.Inconclusive("%d of %d histories stopped on a statement outside the in-memory database's grammar", u, h)
	}
	return rep.Finish(core.Evidence{
		Evaluations: rep.Counter("crud-calls"),
		Rule:        "sqlprogs (primary and link tables, all column kinds, nullable ids, named arrays, composites, jsonb, dates, guards, unique / primary-key / select-key comments, custom queries): the generated CRUD code and union wrappers are compiled into the package; an in-memory database/sql driver loads ITS schema from the SQL script generated for the same file and enforces it (types, NOT NULL, CHECKs incl. JSON validators, UNIQUE, FOREIGN KEY with ON DELETE); seeded histories of generated calls (insert, select, select many/all, update, delete, by-foreign-key, by-unique, by-select-key, link insert / COPY insert many / delete, map helpers, custom queries) are compared online with a map model; any SQL error is a violation. Distinct = distinct (table, insert count) states reached.",
		Assumptions: []string{
			"PostgreSQL is modelled by harness/support/memdb (statement grammar of Appendix C, identifier folding, placeholder/argument agreement, text-protocol coercions); lib/pq by harness/pqstub",
			"values stay inside what the emitted column types hold (int32 range for integer, float32-exact for real, whole seconds, midnight UTC dates)",
			"operations are chosen so that constraints hold (parents before children, fresh unique values, no delete of restricted rows)",
		},
		Extra: map[string]any{"programs": len(progs), "generated_function_kinds_not_exercised": notExercised, "features": pr.pl.FeatureSummary()},
	})
}

func kindOfName(n string) string {
	switch {
	case strings.HasSuffix(n, "ArrayToPQ"):
		return "<ID>ArrayToPQ (only called indirectly)"
	case strings.HasPrefix(n, "Set") && !strings.Contains(n, "."), strings.HasPrefix(n, "Touch"), strings.HasPrefix(n, "Mark"):
		return "custom query (text checked by C16; not executed: destructive, on a unique column or with an enum literal)"
	}
	for _, pre := range []string{"Select", "Delete", "InsertMany", "New"} {
		if strings.HasPrefix(n, pre) {
			if i := strings.Index(n, "By"); i > 0 {
				return pre + "...By..."
			}
			return pre + "..."
		}
	}
	if i := strings.Index(n, "."); i > 0 {
		return "T" + n[i:]
	}
	return n
}
