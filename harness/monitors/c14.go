package monitors

import (
	"encoding/json"
	"fmt"
	"os"
	"path/filepath"
	"reflect"
	"sort"
	"strings"
	"time"

	"github.com/benoitkugler/gomacro/analysis"

	"verif/core"
	"verif/drive"
	"verif/synth"
	"verif/tsmodel"
)

func init() {
	Registry["C14"] = checkC14
	inProcOracles["c14gen"] = oracleC14Gen
}

// c14Endpoint is the contract of one extracted endpoint, as handed to GenerateAxios.
type c14Endpoint struct {
	Method     string     `json:"method"`
	URL        string     `json:"url"`
	Name       string     `json:"name"`
	HasBody    bool       `json:"has_body"`
	BodyType   string     `json:"body_type"`
	Return     string     `json:"return"` // none | blob | json
	ReturnType string     `json:"return_type"`
	Query      []c14Param `json:"query"`
	FormValues []string   `json:"form_values"`
	FormFile   string     `json:"form_file"`
	FormJSON   string     `json:"form_json"`
}

type c14Param struct {
	Name string `json:"name"`
	Kind string `json:"kind"` // string | number | bool
}

func basicKindOf(t analysis.Type) string {
	var b *analysis.Basic
	switch x := t.(type) {
	case *analysis.Basic:
		b = x
	case *analysis.Named:
		b, _ = x.Underlying.(*analysis.Basic)
	}
	if b == nil {
		return "other"
	}
	switch b.Kind() {
	case analysis.BKBool:
		return "bool"
	case analysis.BKInt, analysis.BKFloat:
		return "number"
	}
	return "string"
}

func oracleC14Gen(ctx *progCtx) {
	w, id := ctx.W, ctx.L.Ref.ID
	eps, oc := drive.ParseRoutes(ctx.Pkg, ctx.L.Ref.Sources[0], "")
	if !oc.OK {
		w.Emit(drive.Record{Prog: id, Kind: "stage", Stage: "parse-echo", Outcome: &oc})
		return
	}
	res := drive.GenerateAxios(eps)
	o := res.Outcome
	w.Emit(drive.Record{Prog: id, Kind: "stage", Stage: "gen-axios", Outcome: &o})
	if !o.OK {
		return
	}
	os.WriteFile(filepath.Join(ctx.OutDir, "axios.ts"), []byte(res.Text), 0o644)
	var out []c14Endpoint
	for _, e := range eps {
		c := e.Contract
		ce := c14Endpoint{Method: e.Method, URL: e.Url, Name: c.Name, HasBody: c.InputBody != nil, BodyType: typeStr(c.InputBody), ReturnType: typeStr(c.Return), FormValues: c.InputForm.ValueNames, FormFile: c.InputForm.File, FormJSON: c.InputForm.JSON.Name, Return: "json"}
		if c.Return == nil {
			ce.Return = "none"
		} else if c.IsReturnBlob {
			ce.Return = "blob"
		}
		for _, q := range c.InputQueryParams {
			ce.Query = append(ce.Query, c14Param{Name: q.Name, Kind: basicKindOf(q.Type)})
		}
		out = append(out, ce)
	}
	w.Emit(drive.Record{Prog: id, Kind: "c14endpoints", Data: out})
}

type c14Call struct {
	ID     string `json:"id"`
	Method string `json:"method"`
	Args   []any  `json:"args"`
}

type c14Recorded struct {
	Calls []struct {
		ID       string `json:"id"`
		Method   string `json:"method"`
		Missing  bool   `json:"missing"`
		Thrown   string `json:"thrown"`
		Returned any    `json:"returned"`
		RetUndef bool   `json:"returnedUndefined"`
		Errors   []string `json:"handleErrors"`
		Starts   int    `json:"startRequests"`
		Requests []struct {
			Verb  string `json:"verb"`
			NArgs int    `json:"nargs"`
			Args  []any  `json:"args"`
		} `json:"requests"`
	} `json:"calls"`
	Methods []string `json:"methods"`
}

func checkC14(cfg *core.Config) int {
	rep := core.NewReport(cfg)
	var progs []*synth.Program
	for i := 0; i < cfg.Pick(16, 200); i++ {
		progs = append(progs, synth.NewRouteProg(i, core.Rand(cfg.Seed, "routeprog-c14", i), true))
	}
	progs = append(progs, pinnedPrograms("C14")...)
	pl := NewPipeline(cfg, rep, progs, true)
	defer pl.Close()
	endpoints := map[string][]c14Endpoint{}
	refused := map[string]string{}
	pl.Run(drive.Job{Prop: "C14", Oracles: []string{"c14gen"}}, func(r drive.Record) {
		if pl.StdHandler(r) {
			return
		}
		switch r.Kind {
		case "stage":
			if !r.Outcome.OK {
				refused[r.Prog] = r.Stage + ": " + r.Outcome.Panic
			}
		case "c14endpoints":
			b, _ := json.Marshal(r.Data)
			var eps []c14Endpoint
			json.Unmarshal(b, &eps)
			endpoints[r.Prog] = eps
		}
	})
	nodeDriver := filepath.Join(core.VerifDir, "node", "driver.js")
	const baseURL, token, filename = "https://api.test/base", "tok-123", "Q1/Q2 my file é & co #3;v=1.bin"
	for _, p := range progs {
		id := p.ID
		files := pl.ProgramFiles(id)
		bad := func(sig, format string, args ...any) {
			rep.Violate(core.Violation{Signature: sig, Case: id, Files: files, Message: fmt.Sprintf("route file %s: ", id) + fmt.Sprintf(format, args...)})
		}
		if d, ok := refused[id]; ok {
			bad("refused:"+classifyTSError(d), "the client could not be generated for a supported route file: %s", d)
			continue
		}
		eps := endpoints[id]
		tb, err := os.ReadFile(filepath.Join(pl.OutDir, id, "axios.ts"))
		if err != nil || len(eps) == 0 {
			continue
		}
		text := string(tb)
		files["generated/client.ts"] = text
		rep.Count("clients-generated", 1)
		// 1. type level: valid TypeScript, every mentioned type declared once
		f, err := tsmodel.Parse(text)
		if err != nil {
			bad("ts-syntax:"+classifyTSError(err.Error()), "the client file is not valid TypeScript: %v", err)
			continue
		}
		_, derrs := tsmodel.NewEnv(f)
		seen := map[string]bool{}
		for _, e := range derrs {
			sig := "ts-decl:" + classifyTSError(e.Error())
			if !seen[sig] {
				seen[sig] = true
				bad(sig, "the client file is not self-contained: %v", e)
			}
		}
		if f.Class == nil {
			bad("no-class", "no class in the client file")
			continue
		}
		// one method per endpoint, named after its handler
		have := map[string]int{}
		for _, m := range f.Class.Methods {
			have[m.Name]++
		}
		for _, e := range eps {
			if have[e.Name] != 1 {
				bad("method-per-endpoint", "endpoint %s %s (handler %s) has %d methods in the class", e.Method, e.URL, e.Name, have[e.Name])
			}
		}
		// 2. strip types, syntax check by V8, execute
		st, err := tsmodel.Strip(text)
		if err != nil {
			bad("strip-failed", "types cannot be stripped: %v", err)
			continue
		}
		jsPath := filepath.Join(pl.OutDir, id, "client.js")
		os.WriteFile(jsPath, []byte(st.JS), 0o644)
		files["generated/client.stripped.js"] = st.JS
		if res := core.Run(pl.Scratch, nil, time.Minute, "node", "--check", jsPath); res.ExitCode != 0 && !res.TimedOut {
			bad("js-syntax", "node --check rejects the type-stripped client: %s", core.Trunc(res.Out, 600))
			continue
		}
		// calls
		var calls []c14Call
		type expect struct {
			ep   c14Endpoint
			args map[string]any
		}
		expects := map[string]expect{}
		for ei, e := range eps {
			for v := 0; v < 3; v++ {
				cid := fmt.Sprintf("%d-%d", ei, v)
				named := map[string]any{}
				args := []any{}
				if e.HasBody {
					body := map[string]any{"A": float64(v + 1), "b": fmt.Sprintf("body-%d", v), "C": []any{float64(v)}}
					named["body"] = body
					args = append(args, body)
				} else {
					if len(e.FormValues) > 0 {
						fp := map[string]any{}
						for k, n := range e.FormValues {
							fp[n] = fmt.Sprintf("val-%d-%d", v, k)
						}
						named["formParams"] = fp
						args = append(args, fp)
					}
					if e.FormFile != "" {
						named["file"] = fmt.Sprintf("upload-%d.txt", v)
						args = append(args, map[string]any{"__file": named["file"]})
					}
					if e.FormJSON != "" {
						fv := map[string]any{"k": float64(v), "s": "x"}
						named["formValue"] = fv
						args = append(args, fv)
					}
					if len(e.Query) > 0 {
						qp := map[string]any{}
						for k, q := range e.Query {
							switch q.Kind {
							case "number":
								qp[q.Name] = float64(10*v + k)
							case "bool":
								qp[q.Name] = (v+k)%2 == 0
							default:
								qp[q.Name] = fmt.Sprintf("q%d-%d", v, k)
							}
						}
						named["query"] = qp
						args = append(args, qp)
					}
				}
				calls = append(calls, c14Call{ID: cid, Method: e.Name, Args: args})
				expects[cid] = expect{ep: e, args: named}
			}
		}
		spec := map[string]any{"className": f.Class.Name, "baseUrl": baseURL, "token": token, "calls": calls, "responseData": map[string]any{"answer": 42.0}, "responseFilename": filename}
		sb, _ := json.Marshal(spec)
		specPath := filepath.Join(pl.OutDir, id, "calls.json")
		outPath := filepath.Join(pl.OutDir, id, "recorded.json")
		os.WriteFile(specPath, sb, 0o644)
		res := core.Run(pl.Scratch, nil, 2*time.Minute, "node", nodeDriver, jsPath, specPath, outPath)
		if res.TimedOut {
			rep.Inconclusive("node watchdog fired on %s", id)
			continue
		}
		var rec c14Recorded
		rb, err := os.ReadFile(outPath)
		if err != nil || json.Unmarshal(rb, &rec) != nil {
			bad("client-not-loadable", "the type-stripped client cannot be loaded/executed by node: %s", core.Trunc(res.Out, 800))
			continue
		}
		for _, c := range rec.Calls {
			ex := expects[c.ID]
			e := ex.ep
			rep.Count("method-calls", 1)
			rep.Distinct(fmt.Sprintf("%s|body=%v|form=%d/%v/%v|q=%d|ret=%s", e.Method, e.HasBody, len(e.FormValues), e.FormFile != "", e.FormJSON != "", len(e.Query), e.Return))
			where := fmt.Sprintf("method %s (%s %s)", e.Name, e.Method, e.URL)
			cbad := func(sig, format string, args ...any) {
				cj, _ := json.Marshal(c)
				f2 := map[string]string{}
				for k, v := range files {
					f2[k] = v
				}
				f2["recorded-call.json"] = string(cj)
				rep.Violate(core.Violation{Signature: sig, Case: id, Files: f2, Message: fmt.Sprintf("route file %s: %s: ", id, where) + fmt.Sprintf(format, args...)})
			}
			if c.Missing {
				cbad("method-missing", "no such method on the client")
				continue
			}
			if c.Thrown != "" || len(c.Errors) > 0 {
				cbad("client-error", "calling the method failed: %s %v", core.Trunc(c.Thrown, 400), c.Errors)
				continue
			}
			if len(c.Requests) != 1 {
				cbad("request-count", "%d requests issued, want 1", len(c.Requests))
				continue
			}
			rq := c.Requests[0]
			if rq.Verb != strings.ToLower(e.Method) {
				cbad("verb", "sent with Axios.%s, want %s", rq.Verb, strings.ToLower(e.Method))
			}
			if len(rq.Args) == 0 || rq.Args[0] != baseURL+e.URL {
				cbad("url", "URL %v, want %q", first(rq.Args), baseURL+e.URL)
				continue
			}
			expectBody := e.Method == "POST" || e.Method == "PUT"
			isForm := len(e.FormValues) > 0 || e.FormFile != "" || e.FormJSON != ""
			var config any
			switch {
			case e.HasBody || isForm || expectBody:
				if rq.NArgs != 3 {
					cbad("call-shape", "Axios.%s called with %d arguments, want (url, body, config)", rq.Verb, rq.NArgs)
					continue
				}
				body := rq.Args[1]
				config = rq.Args[2]
				switch {
				case e.HasBody:
					if !reflect.DeepEqual(body, ex.args["body"]) {
						cbad("body", "body %v, want the JSON input %v", body, ex.args["body"])
					}
				case isForm:
					fd, _ := body.(map[string]any)
					entries, ok := fd["__formData"].([]any)
					if !ok {
						cbad("body", "body %v, want a FormData", body)
						break
					}
					var want []map[string]any
					if e.FormFile != "" {
						want = append(want, map[string]any{"name": e.FormFile, "file": ex.args["file"], "filename": ex.args["file"]})
					}
					for _, n := range e.FormValues {
						want = append(want, map[string]any{"name": n, "value": ex.args["formParams"].(map[string]any)[n], "valueType": "string"})
					}
					if e.FormJSON != "" {
						jb, _ := json.Marshal(ex.args["formValue"])
						want = append(want, map[string]any{"name": e.FormJSON, "value": string(jb), "valueType": "string"})
					}
					if !sameFormEntries(entries, want) {
						cbad("form-data", "FormData entries %v, want exactly %v", entries, want)
					}
				default:
					if body != nil {
						cbad("body", "body %v, want null for a body-less %s", body, e.Method)
					}
				}
			default:
				if rq.NArgs != 2 {
					cbad("call-shape", "Axios.%s called with %d arguments, want (url, config)", rq.Verb, rq.NArgs)
					continue
				}
				config = rq.Args[1]
			}
			cfgObj, _ := config.(map[string]any)
			hdr, _ := cfgObj["headers"].(map[string]any)
			if hdr["Authorization"] != "Bearer "+token {
				cbad("auth-header", "headers %v, want Authorization: Bearer <token>", cfgObj["headers"])
			}
			// query parameters: exactly the declared ones, stringified
			wantParams := map[string]any{}
			if q, ok := ex.args["query"].(map[string]any); ok {
				for _, qp := range e.Query {
					switch qp.Kind {
					case "number":
						wantParams[qp.Name] = fmt.Sprint(q[qp.Name])
					case "bool":
						if q[qp.Name] == true {
							wantParams[qp.Name] = "ok"
						} else {
							wantParams[qp.Name] = ""
						}
					default:
						wantParams[qp.Name] = q[qp.Name]
					}
				}
			}
			gotParams, hasParams := cfgObj["params"].(map[string]any)
			if len(e.Query) == 0 {
				if hasParams && len(gotParams) > 0 {
					cbad("query-params", "params %v sent for an endpoint without query parameters", gotParams)
				}
			} else if e.HasBody {
				// the method has a single `params` argument holding the body: the declared
				// query parameters cannot be passed at all
				allUndefined := true
				for _, v := range gotParams {
					if v != "undefined" && v != nil && v != "" {
						allUndefined = false
					}
				}
				if allUndefined {
					cbad("query-params:body-and-query", "the endpoint binds a JSON body AND declares query parameters %v; the generated method only takes the body and sends params %v computed from it", e.Query, gotParams)
				} else {
					cbad("query-params", "params %v sent for an endpoint with body and query parameters", gotParams)
				}
			} else if !reflect.DeepEqual(gotParams, wantParams) {
				cbad("query-params", "params %v, want exactly %v (numbers and booleans converted to strings)", gotParams, wantParams)
			}
			wantRT := any(nil)
			if e.Return == "blob" {
				wantRT = "arraybuffer"
			}
			if cfgObj["responseType"] != wantRT {
				cbad("response-type", "responseType %v, want %v", cfgObj["responseType"], wantRT)
			}
			// returned value
			switch e.Return {
			case "none":
				if c.Returned != true {
					cbad("return-value", "returned %v, want true for a handler without payload", c.Returned)
				}
			case "blob":
				want := map[string]any{"blob": map[string]any{"answer": 42.0}, "filename": filename}
				if !reflect.DeepEqual(c.Returned, want) {
					cbad("return-value", "returned %v, want {blob, filename: %q}", c.Returned, filename)
				}
			default:
				if !reflect.DeepEqual(c.Returned, map[string]any{"answer": 42.0}) {
					cbad("return-value", "returned %v, want the response payload", c.Returned)
				}
			}
			if c.Starts != 1 {
				cbad("start-request", "startRequest called %d times", c.Starts)
			}
		}
		if rep.Counter("clients-generated") <= 2 {
			rep.Sample(4, map[string]any{"program": id, "endpoints": len(eps), "methods": rec.Methods, "calls": len(rec.Calls)})
		}
	}
	return rep.Finish(core.Evidence{
		Evaluations: rep.Counter("method-calls"),
		Rule:        "routeprogs in the client's domain (bodies and forms on POST/PUT, query parameters on every verb, one handler per route): the endpoints extracted by the real ParseEcho go through typescript.GenerateAxios; the file is parsed (valid TypeScript for the type positions, every name used declared once, one method per endpoint), type-stripped, checked by `node --check` and loaded in Node 20 with recording stand-ins for axios / FormData / File; a concrete subclass calls every method with 3 argument vectors and each recorded request (verb, positional arguments, body or FormData entries, config.params, headers, responseType) and returned value is compared with the endpoint contract. Distinct = distinct (verb, contract shape).",
		Assumptions: []string{"type positions are judged by harness/tsmodel, everything else by V8; no tsc available", "how real axios interprets a request is not modelled: what the generated code hands to Axios.<verb> is compared"},
		Extra:       map[string]any{"programs": len(progs), "features": pl.FeatureSummary()},
	})
}

func first(a []any) any {
	if len(a) == 0 {
		return nil
	}
	return a[0]
}

func sameFormEntries(got []any, want []map[string]any) bool {
	if len(got) != len(want) {
		return false
	}
	norm := func(m map[string]any) string {
		var ks []string
		for k := range m {
			ks = append(ks, k)
		}
		sort.Strings(ks)
		var sb strings.Builder
		for _, k := range ks {
			fmt.Fprintf(&sb, "%s=%v;", k, m[k])
		}
		return sb.String()
	}
	var g, w []string
	for _, e := range got {
		m, _ := e.(map[string]any)
		g = append(g, norm(m))
	}
	for _, e := range want {
		w = append(w, norm(e))
	}
	sort.Strings(g)
	sort.Strings(w)
	return strings.Join(g, "|") == strings.Join(w, "|")
}
