package monitors

import (
	"encoding/json"
	"fmt"
	"go/constant"
	"go/types"
	"reflect"
	"strings"

	"verif/drive"
	"verif/synth"
)

func init() { inProcOracles["c04shapes"] = oracleC04Shapes }

// jshape is the JSON shape of a Go type as encoding/json writes it, computed
// from go/types (independently of gomacro); it directs the corruptor of C04.
type jshape struct {
	K       string    `json:"k"` // struct map slice array union enum number string boolean time ref unknown
	Fields  []jfield  `json:"fields,omitempty"`
	Elem    *jshape   `json:"elem,omitempty"`
	Len     int       `json:"len,omitempty"`
	Members []jmember `json:"members,omitempty"`
	Enum    []string  `json:"enum,omitempty"` // JSON literals
	Ref     string    `json:"ref,omitempty"`  // recursive reference to a named struct
	Name    string    `json:"name,omitempty"`
}

type jfield struct {
	Key   string  `json:"key"`
	Shape *jshape `json:"shape"`
}

type jmember struct {
	Kind  string  `json:"kind"`
	Shape *jshape `json:"shape"`
}

type shaper struct {
	ref   *refModel
	stack map[*types.Named]bool
	defs  map[string]*jshape // named struct shapes, for refs
}

func (s *shaper) of(t types.Type) *jshape {
	t = types.Unalias(t)
	if isTimeLike(t) {
		return &jshape{K: "time"}
	}
	switch tt := t.(type) {
	case *types.Named:
		if e, ok := s.ref.enums[tt]; ok {
			sh := &jshape{K: "enum", Name: tt.Obj().Name()}
			for _, m := range e.Members {
				if m.Const.Val().Kind() == constant.String {
					b, _ := json.Marshal(constant.StringVal(m.Const.Val()))
					sh.Enum = append(sh.Enum, string(b))
				} else {
					sh.Enum = append(sh.Enum, m.Const.Val().ExactString())
				}
			}
			return sh
		}
		if members, ok := s.ref.unions[tt]; ok {
			sh := &jshape{K: "union", Name: tt.Obj().Name()}
			for _, m := range members {
				sh.Members = append(sh.Members, jmember{Kind: m.Obj().Name(), Shape: s.of(m)})
			}
			return sh
		}
		if st, ok := tt.Underlying().(*types.Struct); ok {
			if s.stack[tt] {
				return &jshape{K: "ref", Ref: tt.Obj().Name()}
			}
			s.stack[tt] = true
			defer delete(s.stack, tt)
			sh := &jshape{K: "struct", Name: tt.Obj().Name(), Fields: s.fields(st)}
			s.defs[tt.Obj().Name()] = sh
			return sh
		}
		// named container: may be defined in terms of itself (type Tree []Tree)
		if s.stack[tt] {
			return &jshape{K: "ref", Ref: tt.Obj().Name()}
		}
		s.stack[tt] = true
		defer delete(s.stack, tt)
		sh := s.of(tt.Underlying())
		s.defs[tt.Obj().Name()] = sh
		return sh
	case *types.Basic:
		switch {
		case tt.Info()&types.IsBoolean != 0:
			return &jshape{K: "boolean"}
		case tt.Info()&types.IsNumeric != 0:
			return &jshape{K: "number"}
		case tt.Info()&types.IsString != 0:
			return &jshape{K: "string"}
		}
	case *types.Slice:
		if b, ok := tt.Elem().Underlying().(*types.Basic); ok && b.Kind() == types.Uint8 {
			return &jshape{K: "string"} // base64
		}
		return &jshape{K: "slice", Elem: s.of(tt.Elem())}
	case *types.Array:
		return &jshape{K: "array", Len: int(tt.Len()), Elem: s.of(tt.Elem())}
	case *types.Map:
		return &jshape{K: "map", Elem: s.of(tt.Elem())}
	case *types.Struct:
		return &jshape{K: "struct", Fields: s.fields(tt)}
	}
	return &jshape{K: "unknown"}
}

func (s *shaper) fields(st *types.Struct) []jfield {
	var out []jfield
	for i := 0; i < st.NumFields(); i++ {
		f := st.Field(i)
		tag, hasTag := reflect.StructTag(st.Tag(i)).Lookup("json")
		if f.Embedded() && !hasTag {
			if n, ok := types.Unalias(f.Type()).(*types.Named); ok && !isTimeLike(n) {
				if inner, ok := n.Underlying().(*types.Struct); ok {
					out = append(out, s.fields(inner)...)
					continue
				}
			}
		}
		if !f.Exported() || tag == "-" {
			continue
		}
		name, _, _ := strings.Cut(tag, ",")
		if name == "" {
			name = f.Name()
		}
		out = append(out, jfield{Key: name, Shape: s.of(f.Type())})
	}
	return out
}

// oracleC04Shapes emits the JSON shape of every jsonb column type of the truth table.
func oracleC04Shapes(ctx *progCtx) {
	var meta struct {
		SQL *synth.SQLTruth `json:"sql"`
	}
	if json.Unmarshal(ctx.L.Ref.Meta, &meta) != nil || meta.SQL == nil {
		return
	}
	sh := &shaper{ref: buildRefModel(ctx.Pkg), stack: map[*types.Named]bool{}, defs: map[string]*jshape{}}
	out := map[string]*jshape{}
	scope := ctx.Pkg.Types.Scope()
	for _, t := range meta.SQL.Tables {
		for _, c := range t.Columns {
			if c.Check != "json" {
				continue
			}
			obj := scope.Lookup(c.GoType)
			if obj == nil {
				ctx.W.Note(ctx.L.Ref.ID, fmt.Sprintf("c04: type %s not found", c.GoType))
				continue
			}
			out[c.GoType] = sh.of(obj.Type())
		}
	}
	ctx.W.Emit(drive.Record{Prog: ctx.L.Ref.ID, Kind: "c04shapes", Data: map[string]any{"columns": out, "defs": sh.defs}})
}
