package monitors

import (
	"fmt"
	"go/ast"
	"go/constant"
	"go/token"
	"go/types"
	"sort"
	"strconv"
	"strings"

	"golang.org/x/tools/go/packages"

	"github.com/benoitkugler/gomacro/analysis"
)

// This file holds the reference model of gomacro's analysis: an independent
// walk over go/types + go/ast (never through gomacro's own helpers) giving
// the expected enums, unions and type graph. The oracles C10, C11 and C12
// compare gomacro's result with it inside the worker process.

const modulePrefix = "example.com/synth"

// userPackages returns the packages of the module reachable from root through imports.
func userPackages(root *packages.Package) []*packages.Package {
	seen := map[string]bool{}
	var out []*packages.Package
	var walk func(p *packages.Package)
	walk = func(p *packages.Package) {
		if seen[p.PkgPath] || !strings.HasPrefix(p.PkgPath, modulePrefix) {
			return
		}
		seen[p.PkgPath] = true
		out = append(out, p)
		var paths []string
		for k := range p.Imports {
			paths = append(paths, k)
		}
		sort.Strings(paths)
		for _, k := range paths {
			walk(p.Imports[k])
		}
	}
	walk(root)
	return out
}

// refEnum is the expected description of one enum.
type refEnum struct {
	Named   *types.Named
	Members []refMember // in scope (name) order
	// PlainIota: declared as one plain iota block (see DESIGN 10): must be flagged IsIota
	PlainIota bool
}

type refMember struct {
	Const   *types.Const
	Comment string
}

type refModel struct {
	pkgs   []*packages.Package
	enums  map[*types.Named]*refEnum
	unions map[*types.Named][]*types.Named
	// namedBasicSeen: every named type with basic underlying declared in user packages
	pkgOf map[*types.Package]*packages.Package
}

func buildRefModel(root *packages.Package) *refModel {
	m := &refModel{enums: map[*types.Named]*refEnum{}, unions: map[*types.Named][]*types.Named{}, pkgOf: map[*types.Package]*packages.Package{}}
	m.pkgs = userPackages(root)
	for _, p := range m.pkgs {
		m.pkgOf[p.Types] = p
		m.enumsOf(p)
		m.unionsOf(p)
	}
	return m
}

func (m *refModel) enumsOf(p *packages.Package) {
	// trailing comments and declaration blocks from the syntax
	type specInfo struct {
		comment string
		spec    *ast.ValueSpec
		decl    *ast.GenDecl
		index   int
	}
	info := map[types.Object]specInfo{}
	for _, f := range p.Syntax {
		for _, d := range f.Decls {
			gd, ok := d.(*ast.GenDecl)
			if !ok || gd.Tok != token.CONST {
				continue
			}
			for i, s := range gd.Specs {
				vs := s.(*ast.ValueSpec)
				c := ""
				if vs.Comment != nil {
					c = strings.TrimSpace(vs.Comment.Text())
				}
				for _, n := range vs.Names {
					if obj := p.TypesInfo.Defs[n]; obj != nil {
						info[obj] = specInfo{comment: c, spec: vs, decl: gd, index: i}
					}
				}
			}
		}
	}
	scope := p.Types.Scope()
	byType := map[*types.Named][]refMember{}
	for _, name := range scope.Names() {
		c, ok := scope.Lookup(name).(*types.Const)
		if !ok {
			continue
		}
		named, ok := types.Unalias(c.Type()).(*types.Named) // a constant may be typed through an alias of the enum
		if !ok {
			continue
		}
		if named.Obj().Pkg() != p.Types {
			continue // "its package declares": constants of a foreign type do not count
		}
		if _, isBasic := named.Underlying().(*types.Basic); !isBasic {
			continue
		}
		si := info[c]
		if strings.Contains(si.comment, "gomacro:no-enum") {
			continue
		}
		byType[named] = append(byType[named], refMember{Const: c, Comment: si.comment})
	}
	for named, members := range byType {
		e := &refEnum{Named: named, Members: members}
		// plain iota block: all members in ONE const group, first spec `Name T = iota`,
		// the others implicit, one name per spec, no blank, all exported, no other
		// constant of the type anywhere else (opted-out ones included)
		e.PlainIota = func() bool {
			var gd *ast.GenDecl
			for _, mb := range members {
				si := info[mb.Const]
				if gd == nil {
					gd = si.decl
				}
				if si.decl != gd || !mb.Const.Exported() || len(si.spec.Names) != 1 {
					return false
				}
			}
			if gd == nil || !gd.Lparen.IsValid() || len(gd.Specs) != len(members) {
				return false
			}
			for i, s := range gd.Specs {
				vs := s.(*ast.ValueSpec)
				if len(vs.Names) != 1 || vs.Names[0].Name == "_" {
					return false
				}
				if i == 0 {
					id, ok := vs.Type.(*ast.Ident)
					if !ok || id.Name != named.Obj().Name() || len(vs.Values) != 1 {
						return false
					}
					v, ok := vs.Values[0].(*ast.Ident)
					if !ok || v.Name != "iota" {
						return false
					}
				} else if vs.Type != nil || len(vs.Values) != 0 {
					return false
				}
			}
			// no other constant of this type in the package (e.g. opted out)
			for _, name := range scope.Names() {
				if c, ok := scope.Lookup(name).(*types.Const); ok && types.Unalias(c.Type()) == types.Type(named) {
					found := false
					for _, mb := range members {
						if mb.Const == c {
							found = true
						}
					}
					if !found {
						return false
					}
				}
			}
			return true
		}()
		m.enums[named] = e
	}
}

func (m *refModel) unionsOf(p *packages.Package) {
	scope := p.Types.Scope()
	var nameds []*types.Named
	for _, name := range scope.Names() {
		tn, ok := scope.Lookup(name).(*types.TypeName)
		if !ok || tn.IsAlias() {
			continue
		}
		if n, ok := tn.Type().(*types.Named); ok {
			nameds = append(nameds, n)
		}
	}
	for _, itfN := range nameds {
		itf, ok := itfN.Underlying().(*types.Interface)
		if !ok {
			continue
		}
		var members []*types.Named
		for _, c := range nameds {
			if _, isItf := c.Underlying().(*types.Interface); isItf {
				continue
			}
			if c.TypeParams().Len() > 0 {
				continue // generic declarations are never produced as implementers
			}
			if types.Implements(c, itf) {
				members = append(members, c)
			}
		}
		if len(members) > 0 {
			sort.Slice(members, func(i, j int) bool { return members[i].Obj().Name() < members[j].Obj().Name() })
			m.unions[itfN] = members
		}
	}
}

func isUserType(n *types.Named) bool {
	return n.Obj().Pkg() != nil && strings.HasPrefix(n.Obj().Pkg().Path(), modulePrefix)
}

// ---------------------------------------------------------------------------
// walking gomacro's result

// reachableNodes returns every node reachable from the analysis result by links.
func reachableNodes(an *analysis.Analysis) []analysis.Type {
	seen := map[analysis.Type]bool{}
	var out []analysis.Type
	var visit func(n analysis.Type)
	visit = func(n analysis.Type) {
		if n == nil || seen[n] {
			return
		}
		seen[n] = true
		out = append(out, n)
		switch n := n.(type) {
		case *analysis.Struct:
			for _, f := range n.Fields {
				visit(f.Type)
			}
		case *analysis.Array:
			visit(n.Elem)
		case *analysis.Map:
			visit(n.Key)
			visit(n.Elem)
		case *analysis.Named:
			visit(n.Underlying)
		case *analysis.Pointer:
			visit(n.Elem)
		case *analysis.Union:
			for _, mb := range n.Members {
				visit(mb)
			}
		}
	}
	// deterministic order: by type string
	var keys []types.Type
	for k := range an.Types {
		keys = append(keys, k)
	}
	sort.Slice(keys, func(i, j int) bool { return keys[i].String() < keys[j].String() })
	for _, k := range keys {
		visit(an.Types[k])
	}
	return out
}

// ---------------------------------------------------------------------------
// C10

func init() {
	inProcOracles["c10"] = oracleC10
	inProcOracles["c11"] = oracleC11
	inProcOracles["c12"] = oracleC12
}

func valStr(v constant.Value) string { return v.ExactString() }

// uniqueLocalName: no other user type of the program carries the local name of named
// (the TypeScript output names types by their local name only).
func uniqueLocalName(ref *refModel, named *types.Named) bool {
	n := 0
	for _, p := range ref.pkgs {
		if obj := p.Types.Scope().Lookup(named.Obj().Name()); obj != nil {
			if _, isType := obj.(*types.TypeName); isType {
				n++
			}
		}
	}
	return n == 1
}

// tsEnumLiteral finds `member : literal,` inside `export const <enum> = { ... } as const`.
func tsEnumLiteral(text, enum, member string) (string, bool) {
	i := strings.Index(text, "export const "+enum+" = {")
	if i < 0 {
		return "", false
	}
	block := text[i:]
	if j := strings.Index(block, "} as const"); j >= 0 {
		block = block[:j]
	}
	for _, line := range strings.Split(block, "\n") {
		line = strings.TrimSpace(line)
		if rest, ok := strings.CutPrefix(line, member+" : "); ok {
			return strings.TrimSuffix(strings.TrimSpace(rest), ","), true
		}
	}
	return "", false
}

func oracleC10(ctx *progCtx) {
	w, id := ctx.W, ctx.L.Ref.ID
	if ctx.An == nil {
		if !ctx.AnOut.OK {
			w.Violation(id, "refused:analysis:"+ctx.AnOut.Signature(), fmt.Sprintf("analysis of a supported program did not complete, enums cannot be observed: %s", ctx.AnOut.Panic), nil)
		}
		return
	}
	ref := buildRefModel(ctx.Pkg)
	nodes := reachableNodes(ctx.An)
	seenEnum := map[*types.Named]bool{}
	for _, n := range nodes {
		var named *types.Named
		switch n := n.(type) {
		case *analysis.Enum:
			named, _ = n.Type().(*types.Named)
		case *analysis.Named:
			nn, _ := n.Type().(*types.Named)
			if nn != nil {
				if _, isBasic := nn.Underlying().(*types.Basic); isBasic {
					named = nn
				}
			}
		}
		if named == nil || !isUserType(named) {
			continue
		}
		exp := ref.enums[named]
		got, isEnum := n.(*analysis.Enum)
		w.Count("named-basic-nodes", 1)
		style := declStyle(ctx, named)
		if exp == nil {
			w.Distinct("not-enum|" + style)
			if isEnum {
				w.Violation(id, "enum-false-positive", fmt.Sprintf("%s is reported as an enum (%d members) but its package declares no non-opted-out typed constant of it", named, len(got.Members)), nil)
			}
			continue
		}
		if !isEnum {
			w.Violation(id, "enum-missed", fmt.Sprintf("%s has %d typed constants but is not reported as an enum (node %T)", named, len(exp.Members), n), nil)
			continue
		}
		if seenEnum[named] {
			continue
		}
		seenEnum[named] = true
		w.Count("enums-checked", 1)
		w.Distinct(fmt.Sprintf("enum|%s|iota=%v|n=%d", style, got.IsIota, len(exp.Members)))

		// members: exactly the expected constants, each once
		gotNames := map[string]int{}
		for _, mb := range got.Members {
			gotNames[mb.Const.Name()]++
		}
		for _, mb := range exp.Members {
			if gotNames[mb.Const.Name()] != 1 {
				w.Violation(id, "enum-member-count", fmt.Sprintf("enum %s: constant %s appears %d times in Members (want 1); members reported: %v", named, mb.Const.Name(), gotNames[mb.Const.Name()], memberNames(got)), nil)
			}
		}
		if len(got.Members) != len(exp.Members) {
			w.Violation(id, "enum-member-set", fmt.Sprintf("enum %s: %d members reported %v, want %d %v", named, len(got.Members), memberNames(got), len(exp.Members), refNames(exp)), nil)
		}
		expBy := map[string]refMember{}
		for _, mb := range exp.Members {
			expBy[mb.Const.Name()] = mb
		}
		for _, mb := range got.Members {
			e, ok := expBy[mb.Const.Name()]
			if !ok {
				continue
			}
			// the exact value as a target prints it: the TypeScript enum object (integer and string enums)
			if ts, ok := ctx.Gen["ts"]; ok && ts.Outcome.OK && uniqueLocalName(ref, named) {
				if lit, found := tsEnumLiteral(ts.Text, named.Obj().Name(), mb.Const.Name()); found {
					w.Count("enum-values-compared-in-typescript", 1)
					want := e.Const.Val()
					okVal := true
					switch want.Kind() {
					case constant.Int:
						okVal = lit == want.ExactString()
					case constant.String:
						u, err := strconv.Unquote(lit)
						okVal = err == nil && u == constant.StringVal(want)
					}
					if !okVal {
						w.Violation(id, "enum-member-value-on-target:typescript", fmt.Sprintf("enum %s member %s: TypeScript prints %s, the constant is %s", named, mb.Const.Name(), lit, want.ExactString()), nil)
					}
				}
			}
			if valStr(mb.Const.Val()) != valStr(e.Const.Val()) || mb.Const != e.Const {
				w.Violation(id, "enum-member-value", fmt.Sprintf("enum %s member %s: value %s, want %s", named, mb.Const.Name(), valStr(mb.Const.Val()), valStr(e.Const.Val())), nil)
			}
			if mb.Comment != e.Comment {
				w.Violation(id, "enum-member-comment", fmt.Sprintf("enum %s member %s: comment %q, want %q", named, mb.Const.Name(), mb.Comment, e.Comment), nil)
			}
		}
		// Kind
		basic := named.Underlying().(*types.Basic)
		wantKind, ok := refBasicKind(basic)
		if ok {
			var gotKind analysis.BasicKind
			oc := safeCall(func() { gotKind = got.Kind() })
			if oc != "" {
				w.Violation(id, "enum-kind-panic", fmt.Sprintf("enum %s: Kind() panicked: %s", named, oc), nil)
			} else if gotKind != wantKind {
				w.Violation(id, "enum-kind", fmt.Sprintf("enum %s (%s): Kind()=%d, want %d", named, basic, gotKind, wantKind), nil)
			}
		}
		// IsIota soundness: integer backed and exported members in reported order are 0,1,2,...
		if got.IsIota {
			if basic.Info()&types.IsInteger == 0 {
				w.Violation(id, "isiota-non-integer", fmt.Sprintf("enum %s (%s) flagged IsIota but is not integer backed", named, basic), nil)
			}
			k := int64(0)
			var vals []string
			okSeq := true
			for _, mb := range got.Members {
				if !mb.Const.Exported() {
					continue
				}
				v, exact := constant.Int64Val(mb.Const.Val())
				vals = append(vals, valStr(mb.Const.Val()))
				if !exact || v != k {
					okSeq = false
				}
				k++
			}
			if !okSeq {
				w.Violation(id, "isiota-unsound", fmt.Sprintf("enum %s flagged IsIota but its exported members in reported order have values %v (want 0,1,2,...)", named, vals), nil)
			}
		} else if exp.PlainIota {
			w.Violation(id, "isiota-incomplete", fmt.Sprintf("enum %s is a plain iota block of %d exported constants but is not flagged IsIota", named, len(exp.Members)), nil)
		}
		if len(seenEnum) <= 2 {
			w.Sample(map[string]any{"program": id, "enum": named.String(), "style": style, "members": memberNames(got), "is_iota": got.IsIota})
		}
	}
}

func memberNames(e *analysis.Enum) []string {
	var out []string
	for _, m := range e.Members {
		out = append(out, m.Const.Name()+"="+valStr(m.Const.Val()))
	}
	return out
}

func refNames(e *refEnum) []string {
	var out []string
	for _, m := range e.Members {
		out = append(out, m.Const.Name()+"="+valStr(m.Const.Val()))
	}
	return out
}

func refBasicKind(b *types.Basic) (analysis.BasicKind, bool) {
	switch {
	case b.Info()&types.IsBoolean != 0:
		return analysis.BKBool, true
	case b.Info()&types.IsInteger != 0:
		return analysis.BKInt, true
	case b.Info()&types.IsFloat != 0:
		return analysis.BKFloat, true
	case b.Info()&types.IsString != 0:
		return analysis.BKString, true
	}
	return 0, false
}

func safeCall(fn func()) (pan string) {
	defer func() {
		if r := recover(); r != nil {
			pan = fmt.Sprint(r)
		}
	}()
	fn()
	return ""
}

// declStyle returns the synthesiser's style tag of a declaration, for the histogram.
func declStyle(ctx *progCtx, named *types.Named) string {
	return styleOf(ctx.L.Ref.Meta, named.Obj().Pkg().Path(), named.Obj().Name())
}

// ---------------------------------------------------------------------------
// C11

func oracleC11(ctx *progCtx) {
	w, id := ctx.W, ctx.L.Ref.ID
	if ctx.An == nil {
		if !ctx.AnOut.OK {
			w.Violation(id, "refused:analysis:"+ctx.AnOut.Signature(), fmt.Sprintf("analysis of a supported program did not complete, unions cannot be observed: %s", ctx.AnOut.Panic), nil)
		}
		return
	}
	ref := buildRefModel(ctx.Pkg)
	nodes := reachableNodes(ctx.An)
	// analysed unions: unions present in the result map
	analysed := map[*types.Named]bool{}
	for k, v := range ctx.An.Types {
		if _, ok := v.(*analysis.Union); ok {
			if n, ok := types.Unalias(k).(*types.Named); ok {
				analysed[n] = true
			}
		}
	}
	unionInstances := map[*types.Named]int{}
	for _, n := range nodes {
		switch n := n.(type) {
		case *analysis.Union:
			named := n.Type().(*types.Named)
			unionInstances[named]++
			exp := ref.unions[named]
			w.Count("union-nodes", 1)
			var got []string
			for _, mb := range n.Members {
				if mn, ok := mb.Type().(*types.Named); ok {
					got = append(got, mn.Obj().Name())
				} else {
					got = append(got, fmt.Sprintf("<%s>", mb.Type()))
				}
			}
			var want []string
			for _, mb := range exp {
				want = append(want, mb.Obj().Name())
			}
			w.Distinct(fmt.Sprintf("union|members=%d|kinds=%s", len(want), memberKinds(exp)))
			if len(exp) == 0 {
				w.Violation(id, "union-false-positive", fmt.Sprintf("%s is reported as a union with members %v but no named type of its package implements it", named, got), nil)
				continue
			}
			if strings.Join(got, ",") != strings.Join(want, ",") {
				sig := "union-members"
				if sameSet(got, want) {
					sig = "union-member-order"
				}
				w.Violation(id, sig, fmt.Sprintf("union %s: members %v, want %v (name order)", named, got, want), nil)
			}
			for i, mb := range n.Members {
				if i < len(exp) && mb.Type() != types.Type(exp[i]) && strings.Join(got, ",") == strings.Join(want, ",") {
					w.Violation(id, "union-member-identity", fmt.Sprintf("union %s member %d: node describes %s, want %s", named, i, mb.Type(), exp[i]), nil)
				}
			}
			if unionInstances[named] == 1 {
				w.Sample(map[string]any{"program": id, "union": named.String(), "members": got})
			}
		case *analysis.Struct:
			w.Count("struct-nodes", 1)
			var want []string
			for u, members := range ref.unions {
				if !analysed[u] {
					continue
				}
				for _, mb := range members {
					if mb == n.Name {
						want = append(want, u.String())
					}
				}
			}
			sort.Strings(want)
			var got []string
			for _, u := range n.Implements {
				got = append(got, u.Type().String())
			}
			if len(want) > 0 {
				w.Distinct(fmt.Sprintf("implements|n=%d", len(want)))
			}
			if strings.Join(got, ",") != strings.Join(want, ",") {
				sig := "struct-implements"
				if sameSet(got, want) {
					sig = "struct-implements-order"
				} else if len(got) == 0 {
					sig = "struct-implements-empty"
				}
				w.Violation(id, sig, fmt.Sprintf("struct node %s (instance %p): Implements=%v, want %v", n.Name, n, got, want), nil)
			}
		case *analysis.Named:
			// a named interface that is a union must never be reported as something else
			if nn, ok := n.Type().(*types.Named); ok {
				if _, isItf := nn.Underlying().(*types.Interface); isItf && len(ref.unions[nn]) > 0 {
					w.Violation(id, "union-missed", fmt.Sprintf("%s has implementers but is reported as %T", nn, n), nil)
				}
			}
		}
	}
}

func memberKinds(ms []*types.Named) string {
	set := map[string]bool{}
	for _, m := range ms {
		switch m.Underlying().(type) {
		case *types.Struct:
			set["struct"] = true
		case *types.Basic:
			set["basic"] = true
		case *types.Slice:
			set["slice"] = true
		case *types.Map:
			set["map"] = true
		default:
			set["other"] = true
		}
	}
	var ks []string
	for k := range set {
		ks = append(ks, k)
	}
	sort.Strings(ks)
	return strings.Join(ks, "+")
}

func sameSet(a, b []string) bool {
	if len(a) != len(b) {
		return false
	}
	x := append([]string(nil), a...)
	y := append([]string(nil), b...)
	sort.Strings(x)
	sort.Strings(y)
	return strings.Join(x, ",") == strings.Join(y, ",")
}
