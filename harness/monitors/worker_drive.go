package monitors

import (
	"encoding/json"
	"fmt"
	"os"
	"path/filepath"
	"runtime/debug"
	"sort"

	"golang.org/x/tools/go/packages"

	"github.com/benoitkugler/gomacro/analysis"

	"verif/drive"
)

func init() { workers["drive"] = workerDrive }

// progCtx is what in-process oracles see for one program.
type progCtx struct {
	W      *drive.Writer
	Job    *drive.Job
	L      *drive.Loaded
	Pkg    *packages.Package   // package of the first source file
	An     *analysis.Analysis  // nil when analysis refused / crashed
	Ans    []*analysis.Analysis // one per source file (nil entries when refused)
	AnOut  drive.Outcome
	Gen    map[string]drive.GenResult
	OutDir string
	// CleanGo is filled by the c01 oracle: Go targets whose output type-checks in the package
	CleanGo map[string]bool
}

// inProcOracles are run inside the worker, where go/types objects are at hand.
var inProcOracles = map[string]func(*progCtx){}

func workerDrive(args []string) int {
	if len(args) != 2 {
		return 2
	}
	b, err := os.ReadFile(args[0])
	if err != nil {
		return 2
	}
	var job drive.Job
	if err := json.Unmarshal(b, &job); err != nil {
		return 2
	}
	w, err := drive.NewWriter(args[1])
	if err != nil {
		return 2
	}
	defer w.Close()
	// unbounded recursion must abort quickly and deterministically (not time based)
	debug.SetMaxStack(96 << 20)
	if err := os.Chdir(job.ModRoot); err != nil {
		return 2
	}

	w.Begin("", "load")
	loaded := drive.LoadAll(job.Programs)
	for _, l := range loaded {
		ref := l.Ref
		if l.Err != nil || len(l.Pkgs) == 0 {
			// a synthesised program that does not load is a defect of the harness, never a verdict on gomacro
			w.Emit(drive.Record{Prog: ref.ID, Kind: "harness-error", Stage: "load", Outcome: &drive.Outcome{OK: false, Panic: "synthesised program does not load (type error in the generated source?): " + fmt.Sprint(l.Err)}})
			w.Emit(drive.Record{Prog: ref.ID, Kind: "done"})
			continue
		}
		ctx := &progCtx{W: w, Job: &job, L: l, Pkg: l.Pkgs[0], Gen: map[string]drive.GenResult{}, OutDir: filepath.Join(job.OutDir, ref.ID)}
		os.MkdirAll(ctx.OutDir, 0o755)

		// analysis, one per source file
		for i, src := range ref.Sources {
			w.Begin(ref.ID, fmt.Sprintf("analysis-%d", i))
			var an *analysis.Analysis
			oc := drive.Guard(func() { an = analysis.NewAnalysisFromFile(l.Pkgs[i], src) })
			if !oc.OK {
				an = nil
			}
			ctx.Ans = append(ctx.Ans, an)
			if i == 0 {
				ctx.An, ctx.AnOut = an, oc
			}
			oc2 := oc
			w.Emit(drive.Record{Prog: ref.ID, Kind: "stage", Stage: fmt.Sprintf("analysis-%d", i), Outcome: &oc2})
		}

		// generators
		for _, target := range job.Targets {
			switch target {
			case "dart":
				var ans []*analysis.Analysis
				for _, a := range ctx.Ans {
					if a != nil {
						ans = append(ans, a)
					}
				}
				if len(ans) == 0 {
					continue
				}
				var refMeta map[string]any
				if json.Unmarshal(ref.Meta, &refMeta) == nil && refMeta["dart_last_source_first"] == true && len(ans) > 1 {
					ans = append([]*analysis.Analysis{ans[len(ans)-1]}, ans[:len(ans)-1]...)
				}
				w.Begin(ref.ID, "gen-dart")
				res := drive.GenerateDart(l.Root, ans)
				ctx.Gen["dart"] = res
				oc := res.Outcome
				rec := drive.Record{Prog: ref.ID, Kind: "stage", Stage: "gen-dart", Outcome: &oc}
				if oc.OK {
					var names []string
					for n, txt := range res.Files {
						names = append(names, n)
						os.MkdirAll(filepath.Join(ctx.OutDir, "dart"), 0o755)
						os.WriteFile(filepath.Join(ctx.OutDir, "dart", n), []byte(txt), 0o644)
					}
					sort.Strings(names)
					h := ""
					for _, n := range names {
						h += n + ":" + drive.Hash(res.Files[n]) + ";"
					}
					rec.Hash = drive.Hash(h)
					rec.Data = names
				}
				w.Emit(rec)
			case "axios":
				// handled by the route oracles
			default:
				if ctx.An == nil {
					continue
				}
				w.Begin(ref.ID, "gen-"+target)
				res := drive.Generate(target, ctx.An, ref.Dir)
				ctx.Gen[target] = res
				oc := res.Outcome
				rec := drive.Record{Prog: ref.ID, Kind: "stage", Stage: "gen-" + target, Outcome: &oc}
				if oc.OK {
					rec.Hash = drive.Hash(res.Text)
					ext := map[string]string{"sql": ".sql", "ts": ".ts"}[target]
					if drive.IsGoTarget(target) {
						ext = ".go.txt"
					}
					os.WriteFile(filepath.Join(ctx.OutDir, target+ext), []byte(res.Text), 0o644)
					if drive.IsGoTarget(target) {
						if res.GoErr != "" {
							rec.Message = "imports.Process: " + res.GoErr
						} else {
							os.WriteFile(filepath.Join(ctx.OutDir, target+".fixed.go.txt"), []byte(res.GoFixed), 0o644)
						}
					}
				}
				w.Emit(rec)
			}
		}

		for _, name := range job.Oracles {
			fn := inProcOracles[name]
			if fn == nil {
				w.Note(ref.ID, "unknown oracle "+name)
				continue
			}
			w.Begin(ref.ID, "oracle-"+name)
			oc := drive.Guard(func() { fn(ctx) })
			if !oc.OK {
				// an oracle must not crash: harness error, reported as such
				w.Emit(drive.Record{Prog: ref.ID, Kind: "harness-error", Stage: "oracle-" + name, Outcome: &oc})
			}
		}
		w.Emit(drive.Record{Prog: ref.ID, Kind: "done"})
	}
	w.Emit(drive.Record{Kind: "worker-done"})
	return 0
}
