package monitors

import (
	"fmt"
	"go/ast"
	"go/parser"
	"go/token"
	"go/types"
	"os"
	"path/filepath"
	"regexp"
	"sort"
	"strings"

	"golang.org/x/tools/go/packages"

	"verif/drive"
)

func init() {
	inProcOracles["c01"] = oracleC01
	inProcOracles["runner-prep"] = oracleRunnerPrep
}

var reIdentTok = regexp.MustCompile(`[A-Za-z_][A-Za-z0-9_]*`)

// normalizeCompileError maps a type-checker message to an input independent class.
func normalizeCompileError(msg string) string {
	msg = regexp.MustCompile(`^[^:]*:\d+:\d+: `).ReplaceAllString(msg, "")
	msg = regexp.MustCompile(`\([^)]*\)`).ReplaceAllString(msg, "")
	msg = regexp.MustCompile(`invalid receiver type [A-Za-z_][A-Za-z0-9_]*`).ReplaceAllString(msg, "invalid receiver type X0") // also for lower-case type names
	out := reIdentTok.ReplaceAllStringFunc(msg, func(w string) string {
		// helpers of the CRUD code keep their role in the class: <T>ArrayToPQ, Scan<T>Array
		if strings.HasSuffix(w, "ArrayToPQ") {
			return "XArrayToPQ"
		}
		if len(w) > 4 && strings.HasSuffix(w, "Kind") { // <Member><Un>Kind constants of the union wrappers
			return "XKind"
		}
		if len(w) > 7 && strings.HasSuffix(w, "Wrapper") {
			return "XWrapper"
		}
		if strings.HasPrefix(w, "Scan") && strings.HasSuffix(w, "Array") {
			return "ScanXArray"
		}
		if w == strings.ToLower(w) && !strings.HasPrefix(w, "rand") && !strings.HasPrefix(w, "pk") && !strings.ContainsAny(w, "0123456789_") && len(w) < 14 {
			return w
		}
		return "X"
	})
	out = regexp.MustCompile(`\b[a-z_][a-z0-9_]*\.X`).ReplaceAllString(out, "P.X") // package qualifier
	out = regexp.MustCompile(`\d+`).ReplaceAllString(out, "N")
	out = regexp.MustCompile(`\s+`).ReplaceAllString(out, " ")
	if len(out) > 80 {
		out = out[:80]
	}
	return strings.TrimSpace(out)
}

// importedPackageGoimportsCannotFind reports whether ident is the NAME of a package imported by the
// analysed package that the import fixing pass cannot resolve: goimports only considers a directory as a
// candidate for `ident.X` when the last two elements of its import path contain ident (its documented
// heuristic), so a package whose name differs from its directory is never found.
func importedPackageGoimportsCannotFind(pkg *packages.Package, ident string) bool {
	if pkg == nil {
		return false
	}
	// direct and indirect imports: the type of a promoted field may come from a package the
	// analysed package does not import itself
	seen := map[string]bool{}
	var visit func(p *packages.Package) bool
	visit = func(p *packages.Package) bool {
		for path, imp := range p.Imports {
			if seen[path] {
				continue
			}
			seen[path] = true
			if imp.Name == ident {
				elems := strings.Split(path, "/")
				if len(elems) > 2 {
					elems = elems[len(elems)-2:]
				}
				lastTwo := strings.ToLower(strings.ReplaceAll(strings.Join(elems, "/"), "-", ""))
				if !strings.Contains(lastTwo, strings.ToLower(ident)) {
					return true
				}
			}
			if visit(imp) {
				return true
			}
		}
		return false
	}
	return visit(pkg)
}

// typeCheckWith loads the program's package with the given generated files
// overlaid (file name -> content) and returns the errors.
func typeCheckWith(ctx *progCtx, files map[string]string) []string {
	overlay := map[string][]byte{}
	for name, content := range files {
		overlay[filepath.Join(ctx.L.Ref.Dir, name)] = []byte(content)
	}
	cfg := &packages.Config{
		Dir:     ctx.L.Ref.Dir,
		Mode:    packages.NeedName | packages.NeedFiles | packages.NeedSyntax | packages.NeedTypes | packages.NeedImports | packages.NeedDeps | packages.NeedTypesInfo,
		Overlay: overlay,
		Env:     append(os.Environ(), "GOFLAGS=-mod=mod"),
	}
	pkgs, err := packages.Load(cfg, ".")
	if err != nil {
		return []string{"packages.Load: " + err.Error()}
	}
	var errs []string
	for _, p := range pkgs {
		for _, e := range p.Errors {
			errs = append(errs, e.Error())
		}
	}
	return errs
}

// cleanGoTargets is filled by oracleC01: targets whose output type-checks in the package.
func oracleC01(ctx *progCtx) {
	w, id := ctx.W, ctx.L.Ref.ID
	if ctx.An == nil {
		return // not accepted: outside the statement ("for every Go source file the tool accepts")
	}
	var targets []string
	for t := range ctx.Gen {
		if drive.IsGoTarget(t) {
			targets = append(targets, t)
		}
	}
	sort.Strings(targets)
	clean := map[string]bool{}
	for _, t := range targets {
		res := ctx.Gen[t]
		if !res.Outcome.OK {
			w.Count("go-output-refused:"+t, 1)
			continue // a refusal is not an accepted input
		}
		w.Count("go-outputs-checked", 1)
		w.Distinct(id + "|" + t)
		files := map[string]string{"generated/" + drive.GoFileName(t) + ".raw.txt": res.Text}
		if res.GoErr != "" {
			w.Violation(id, "go-syntax:"+t+":"+normalizeCompileError(res.GoErr), fmt.Sprintf("%s output is not parsable Go (import fixing pass failed): %s", t, res.GoErr), files)
			continue
		}
		files["generated/"+drive.GoFileName(t)] = res.GoFixed
		errs := typeCheckWith(ctx, map[string]string{drive.GoFileName(t): res.GoFixed})
		if len(errs) > 0 {
			seen := map[string]bool{}
			// names N of "field and method with the same name N": errors about
			// the selector .N resolving to the method are consequences of it
			var clash []string
			for _, e := range errs {
				if i := strings.Index(e, "field and method with the same name "); i >= 0 {
					clash = append(clash, strings.TrimSpace(e[i+len("field and method with the same name "):]))
				}
			}
			for _, e := range errs {
				if strings.Contains(e, "other declaration of") {
					continue // companion note of a "redeclared" error
				}
				consequent := false
				for _, n := range clash {
					if strings.Contains(e, "."+n+" (value of type func") {
						consequent = true
					}
				}
				if consequent {
					continue
				}
				sig := "go-typecheck:" + strings.TrimSuffix(t, "-sets") + ":" + normalizeCompileError(e)
				if i := strings.Index(e, "undefined: "); i >= 0 && importedPackageGoimportsCannotFind(ctx.Pkg, strings.TrimSpace(e[i+len("undefined: "):])) {
					// the cause is named, so that any other undefined identifier keeps its own class
					sig = "go-typecheck:" + strings.TrimSuffix(t, "-sets") + ":undefined: name of an imported package that its import path does not spell"
				}
				if seen[sig] {
					continue
				}
				seen[sig] = true
				w.Violation(id, sig, fmt.Sprintf("%s output does not type-check in its package (%d errors), e.g. %s", t, len(errs), e), files)
			}
			continue
		}
		clean[t] = true
	}
	// all outputs together (sqlcrud and sqlcrud-sets are alternatives: use the sets one)
	together := map[string]string{}
	var names []string
	for _, t := range targets {
		if clean[t] && t != "sqlcrud" {
			together[drive.GoFileName(t)] = ctx.Gen[t].GoFixed
			names = append(names, t)
		}
	}
	if len(together) >= 2 {
		w.Count("go-combinations-checked", 1)
		errs := typeCheckWith(ctx, together)
		if len(errs) > 0 {
			files := map[string]string{}
			for n, c := range together {
				files["generated/"+n] = c
			}
			w.Violation(id, "go-typecheck-together:"+normalizeCompileError(errs[0]), fmt.Sprintf("outputs %v type-check alone but not together (%d errors), e.g. %s", names, len(errs), errs[0]), files)
			// keep the largest clean subset simple: drop sqlcrud-sets, then randdata
			for _, drop := range []string{"sqlcrud-sets", "randdata"} {
				delete(together, drive.GoFileName(drop))
				clean[drop] = false
				if len(typeCheckWith(ctx, together)) == 0 {
					break
				}
			}
		}
	}
	ctx.CleanGo = clean
}

// oracleRunnerPrep writes the clean generated Go files into the package
// directory together with the verifrun registry files.
func oracleRunnerPrep(ctx *progCtx) {
	if ctx.CleanGo == nil {
		// C01 is decided by its own check: here compile problems only exclude files from the runner
		real := ctx.W
		quiet, err := drive.NewWriter(os.DevNull)
		if err == nil {
			ctx.W = quiet
			oracleC01(ctx)
			quiet.Close()
			ctx.W = real
		} else {
			oracleC01(ctx)
		}
	}
	dir := ctx.L.Ref.Dir
	id := ctx.L.Ref.ID
	var genFiles []string
	for _, t := range []string{"gounions", "randdata", "sqlcrud-sets"} {
		if ctx.CleanGo[t] {
			name := drive.GoFileName(t)
			if err := os.WriteFile(filepath.Join(dir, name), []byte(ctx.Gen[t].GoFixed), 0o644); err == nil {
				genFiles = append(genFiles, name)
			}
		}
	}
	if err := os.WriteFile(filepath.Join(dir, "zz_verifrun_reg.go"), []byte(registrySource(ctx)), 0o644); err != nil {
		ctx.W.Note(id, "cannot write registry: "+err.Error())
		return
	}
	os.WriteFile(filepath.Join(dir, "zz_verifrun_gen.go"), []byte(genFuncsSource(ctx, genFiles)), 0o644)
	ctx.W.Emit(drive.Record{Prog: id, Kind: "runner-ready", Data: genFiles})
}

// registrySource lists, from go/types, the named types, unions and enum constants of the program.
func registrySource(ctx *progCtx) string {
	pkg := ctx.Pkg
	ref := buildRefModel(pkg)
	scope := pkg.Types.Scope()
	var sb strings.Builder
	imports := map[string]string{} // path -> local name
	importName := func(p *types.Package) string {
		if p == pkg.Types {
			return ""
		}
		if n, ok := imports[p.Path()]; ok {
			return n + "."
		}
		n := fmt.Sprintf("vimp%d", len(imports))
		imports[p.Path()] = n
		return n + "."
	}
	var typeLines []string
	for _, name := range scope.Names() {
		tn, ok := scope.Lookup(name).(*types.TypeName)
		if !ok || tn.IsAlias() {
			continue
		}
		named, ok := tn.Type().(*types.Named)
		if !ok || named.TypeParams().Len() > 0 {
			continue
		}
		typeLines = append(typeLines, fmt.Sprintf("\t\t\treflect.TypeOf((*%s)(nil)).Elem(),", name))
	}
	var unionLines []string
	var unionNames []*types.Named
	for u := range ref.unions {
		if u.Obj().Pkg() == pkg.Types {
			unionNames = append(unionNames, u)
		}
	}
	sort.Slice(unionNames, func(i, j int) bool { return unionNames[i].Obj().Name() < unionNames[j].Obj().Name() })
	for _, u := range unionNames {
		var ms []string
		for _, m := range ref.unions[u] {
			ms = append(ms, fmt.Sprintf("%q", m.Obj().Name()))
		}
		unionLines = append(unionLines, fmt.Sprintf("\t\t\t%q: {%s},", u.Obj().Name(), strings.Join(ms, ", ")))
	}
	var expo, unexp []string
	var enumTypes []*types.Named
	for e := range ref.enums {
		enumTypes = append(enumTypes, e)
	}
	sort.Slice(enumTypes, func(i, j int) bool { return enumTypes[i].String() < enumTypes[j].String() })
	for _, e := range enumTypes {
		local := e.Obj().Pkg() == pkg.Types
		if !local && !e.Obj().Exported() {
			continue
		}
		for _, m := range ref.enums[e].Members {
			if m.Const.Exported() {
				expo = append(expo, "\t\t\t"+importName(m.Const.Pkg())+m.Const.Name()+",")
			} else if local {
				unexp = append(unexp, "\t\t\t"+m.Const.Name()+",")
			}
		}
	}
	// source types in order
	var srcNames []string
	if ctx.An != nil {
		for _, t := range ctx.An.Source {
			if n, ok := types.Unalias(t).(*types.Named); ok {
				srcNames = append(srcNames, fmt.Sprintf("%q", n.Obj().Name()))
			}
		}
	}
	sb.WriteString("//go:build verifrun\n\npackage " + pkg.Types.Name() + "\n\nimport (\n\t\"reflect\"\n\n\t\"verif/support/runlib\"\n")
	var paths []string
	for p := range imports {
		paths = append(paths, p)
	}
	sort.Strings(paths)
	for _, p := range paths {
		fmt.Fprintf(&sb, "\t%s %q\n", imports[p], p)
	}
	sb.WriteString(")\n\nfunc init() {\n\trunlib.Register(&runlib.Package{\n")
	fmt.Fprintf(&sb, "\t\tID: %q,\n", ctx.L.Ref.ID)
	sb.WriteString("\t\tTypes: []reflect.Type{\n" + strings.Join(typeLines, "\n") + "\n\t\t},\n")
	sb.WriteString("\t\tSourceTypes: []string{" + strings.Join(srcNames, ", ") + "},\n")
	sb.WriteString("\t\tUnions: map[string][]string{\n" + strings.Join(unionLines, "\n") + "\n\t\t},\n")
	sb.WriteString("\t\tEnumExported: []any{\n" + strings.Join(expo, "\n") + "\n\t\t},\n")
	sb.WriteString("\t\tEnumUnexported: []any{\n" + strings.Join(unexp, "\n") + "\n\t\t},\n")
	sb.WriteString("\t})\n}\n")
	return sb.String()
}

// genFuncsSource registers every top-level function and method of the
// generated files (found by parsing them), so that "every generated function
// is exercised" is measurable.
func genFuncsSource(ctx *progCtx, genFiles []string) string {
	pkg := ctx.Pkg
	var lines []string
	fset := token.NewFileSet()
	for _, name := range genFiles {
		f, err := parser.ParseFile(fset, filepath.Join(ctx.L.Ref.Dir, name), nil, 0)
		if err != nil {
			continue
		}
		for _, d := range f.Decls {
			fd, ok := d.(*ast.FuncDecl)
			if !ok || fd.Type.TypeParams != nil {
				continue
			}
			if fd.Recv == nil {
				if fd.Name.Name == "init" || fd.Name.Name == "_" {
					continue
				}
				lines = append(lines, fmt.Sprintf("\t\t\t%q: %s,", fd.Name.Name, fd.Name.Name))
				continue
			}
			if len(fd.Recv.List) != 1 {
				continue
			}
			switch rt := fd.Recv.List[0].Type.(type) {
			case *ast.Ident:
				lines = append(lines, fmt.Sprintf("\t\t\t%q: %s.%s,", rt.Name+"."+fd.Name.Name, rt.Name, fd.Name.Name))
			case *ast.StarExpr:
				if id, ok := rt.X.(*ast.Ident); ok {
					lines = append(lines, fmt.Sprintf("\t\t\t%q: (*%s).%s,", "*"+id.Name+"."+fd.Name.Name, id.Name, fd.Name.Name))
				}
			}
		}
	}
	sort.Strings(lines)
	var sb strings.Builder
	sb.WriteString("//go:build verifrun\n\npackage " + pkg.Types.Name() + "\n\nimport \"verif/support/runlib\"\n\nfunc init() {\n\trunlib.Register(&runlib.Package{\n")
	fmt.Fprintf(&sb, "\t\tID: %q,\n", ctx.L.Ref.ID)
	sb.WriteString("\t\tFuncs: map[string]any{\n" + strings.Join(lines, "\n") + "\n\t\t},\n")
	sb.WriteString("\t})\n}\n")
	return sb.String()
}
