package monitors

import (
	"encoding/json"
	"fmt"
	"os"
	"path/filepath"
	"regexp"
	"strings"

	"verif/core"
	"verif/dartmodel"
	"verif/drive"
	"verif/support/pgmodel"
	"verif/support/runlib"
	"verif/synth"
	"verif/tsmodel"
)

func init() { Registry["C09"] = checkC09 }

var (
	reKeyIn   = regexp.MustCompile(`(?s)key\s+IN\s*\(([^)]*)\)`)
	reDataKey = regexp.MustCompile(`\(data\s*->\s*'([^']*)'\)`)
)

func lowerFirstASCII(s string) string {
	if s == "" {
		return s
	}
	return strings.ToLower(s[:1]) + s[1:]
}

func checkC09(cfg *core.Config) int {
	rep := core.NewReport(cfg)
	var progs []*synth.Program
	n := cfg.Pick(12, 1200)
	cover := int(cfg.Seed) * 7
	for i := 0; i < n; i++ {
		a, b := synth.NewTagProgPair(i, core.Rand(cfg.Seed, "tagprog", i), cover)
		cover, _ = a.Meta["cover_next"].(int)
		progs = append(progs, a, b)
	}
	progs = append(progs, pinnedPrograms("C09")...)
	pr := prepareRunner(cfg, rep, progs, []string{"ts", "sql", "dart"}, []string{"c09dump"}, true)
	defer pr.pl.Close()

	// gomacro's view, logged by the worker
	gomacro := map[string]map[string][]c09Field{}
	// (records were consumed by prepareRunner's handler; re-read them from the dump files)
	// -> the dump is carried by "structs" records: collect them with a second pass over the stage outputs
	// (prepareRunner does not know the kind, so it is captured through the hook below)
	for id, data := range pr.extra["structs"] {
		b, _ := json.Marshal(data)
		var m map[string][]c09Field
		if json.Unmarshal(b, &m) == nil {
			gomacro[id] = m
		}
	}

	// ground truth from the real encoding/json in the compiled package
	var jobs []runlib.Job
	for _, id := range pr.ready {
		if pr.rn.Progs[id] {
			jobs = append(jobs, runlib.Job{Prog: id, Cmd: "keys", Seed: cfg.Seed})
		}
	}
	ground := map[string]map[string][]string{}
	pr.rn.Run(jobs, func(e runlib.Event) {
		if e.Kind == "keys" {
			ignored := map[string]bool{}
			if m, ok := e.Data.(map[string]any); ok {
				if l, ok := m["gomacro_ignored"].([]any); ok {
					for _, k := range l {
						ignored[fmt.Sprint(k)] = true
					}
				}
			}
			keys := []string{}
			for _, k := range e.Keys {
				if !ignored[k] {
					keys = append(keys, k)
				}
			}
			if ground[e.Prog] == nil {
				ground[e.Prog] = map[string][]string{}
			}
			ground[e.Prog][e.Type] = keys
			return
		}
		if e.Kind == "abort" {
			rep.Inconclusive("runner died during keys of %s", e.Prog)
			return
		}
		pr.stdEvent(e)
	})

	texts := map[string]map[string]string{} // prog -> target -> normalised text (for the metamorphic half)
	for _, p := range progs {
		id := p.ID
		files := pr.pl.ProgramFiles(id)
		gt := ground[id]
		if gt == nil {
			if _, refused := pr.refused[id]["analysis-0"]; refused {
				rep.Violate(core.Violation{Signature: "refused:analysis", Case: id, Files: files, Message: "analysis refused a tagprog: " + pr.refused[id]["analysis-0"]})
			}
			continue
		}
		out := filepath.Join(pr.pl.OutDir, id)
		tsB, _ := os.ReadFile(filepath.Join(out, "ts.ts"))
		sqlB, _ := os.ReadFile(filepath.Join(out, "sql.sql"))
		dartFiles := map[string]string{}
		if ents, err := os.ReadDir(filepath.Join(out, "dart")); err == nil {
			for _, e := range ents {
				b, _ := os.ReadFile(filepath.Join(out, "dart", e.Name()))
				dartFiles[e.Name()] = string(b)
			}
		}
		files["generated/types.ts"] = string(tsB)
		files["generated/schema.sql"] = string(sqlB)
		for n, c := range dartFiles {
			files["generated/dart/"+n] = c
		}
		for stage, d := range pr.refused[id] {
			if strings.HasPrefix(stage, "gen-") {
				rep.Violate(core.Violation{Signature: "refused:" + stage, Case: id, Files: files, Message: fmt.Sprintf("%s refused a tagprog: %s", stage, d)})
			}
		}

		// keys per output
		tsKeys := map[string][]string{}
		if f, err := tsmodel.Parse(string(tsB)); err == nil {
			for _, d := range f.Decls {
				if ot, ok := d.Type.(*tsmodel.ObjectType); ok && d.Kind == "interface" {
					ks := []string{}
					for _, m := range ot.Members {
						ks = append(ks, m.Key)
					}
					tsKeys[d.Name] = ks
				}
			}
		} else if len(tsB) > 0 {
			rep.Violate(core.Violation{Signature: "ts-syntax:" + classifyTSError(err.Error()), Case: id, Files: files, Message: fmt.Sprintf("TypeScript output of %s does not parse: %v", id, err)})
		}
		dartReads, dartWrites := map[string][]string{}, map[string][]string{}
		for name, src := range dartFiles {
			df, err := dartmodel.ParseFile(name, src)
			if err != nil || df == nil {
				continue
			}
			for _, fn := range df.Functions {
				if base, ok := strings.CutSuffix(fn.Name, "FromJson"); ok {
					_, reads := fn.JSONReads()
					ks := []string{}
					for _, r := range reads {
						ks = append(ks, r.Key)
					}
					dartReads[base] = ks
				} else if base, ok := strings.CutSuffix(fn.Name, "ToJson"); ok {
					ks := []string{}
					for _, w := range fn.JSONWrites() {
						ks = append(ks, w.Key)
					}
					dartWrites[base] = ks
				}
			}
		}
		sqlKeys, sqlChecks := map[string][]string{}, map[string][]string{}
		if sc, err := pgmodel.ParseScript(string(sqlB)); err == nil {
			for _, name := range sc.FuncNames {
				fn := sc.Funcs[name]
				if fn == nil {
					continue
				}
				if m := reKeyIn.FindStringSubmatch(fn.Raw); m != nil {
					ks := []string{}
					for _, part := range strings.Split(m[1], ",") {
						ks = append(ks, strings.Trim(strings.TrimSpace(part), "'"))
					}
					sqlKeys[strings.ToLower(fn.Name)] = ks
					cs := []string{}
					for _, c := range reDataKey.FindAllStringSubmatch(fn.Raw, -1) {
						cs = append(cs, c[1])
					}
					sqlChecks[strings.ToLower(fn.Name)] = cs
				}
			}
		}

		for st, want := range gt {
			rep.Count("structs-checked", 1)
			rep.Distinct(id + "." + st + "|" + strings.Join(want, ","))
			check := func(what string, got []string, present bool) {
				if !present {
					return
				}
				rep.Count("key-lists-compared", 1)
				if strings.Join(got, "\x00") != strings.Join(want, "\x00") {
					sig := "keys:" + what + ":" + keyDiffClass(got, want)
					rep.Violate(core.Violation{Signature: sig, Case: id, Files: files,
						Message: fmt.Sprintf("program %s struct %s: %s uses keys %q, encoding/json (minus gomacro:\"ignore\") uses %q", id, st, what, got, want)})
				}
			}
			if fs, ok := gomacro[id][st]; ok {
				got := []string{}
				for _, f := range fs {
					if f.Exported {
						got = append(got, f.JSON)
					}
				}
				check("analysis", got, true)
			}
			g, ok := tsKeys[st]
			check("typescript", g, ok)
			g, ok = dartReads[lowerFirstASCII(st)]
			check("dart-fromJson", g, ok)
			g, ok = dartWrites[lowerFirstASCII(st)]
			check("dart-toJson", g, ok)
			fnName := "gomacro_validate_json_" + strings.ToLower(firstN(p.Root.Name, 4)+"_"+st)
			g, ok = sqlKeys[fnName]
			check("sql-validator-keys", g, ok)
			g, ok = sqlChecks[fnName]
			check("sql-validator-checks", g, ok)
			if rep.Counter("structs-checked") <= 4 {
				rep.Sample(4, map[string]any{"program": id, "struct": st, "encoding_json_keys": want, "typescript": tsKeys[st], "dart_fromJson": dartReads[lowerFirstASCII(st)], "sql_validator": sqlKeys[fnName]})
			}
		}
		texts[id] = map[string]string{"typescript": string(tsB), "sql-validators": sqlValidatorSection(string(sqlB))}
		for n, c := range dartFiles {
			texts[id]["dart:"+n] = c
		}
	}

	// metamorphic half: (P, P + ignored fields) give identical outputs
	for _, p := range progs {
		twinID, _ := p.Meta["twin"].(string)
		if twinID == "" || texts[p.ID] == nil || texts[twinID] == nil {
			continue
		}
		rep.Count("metamorphic-pairs", 1)
		for target, a := range texts[p.ID] {
			bKey := strings.ReplaceAll(target, twinID, p.ID)
			b, ok := texts[twinID][strings.ReplaceAll(target, p.ID, twinID)]
			if !ok {
				b = texts[twinID][bKey]
			}
			b = strings.ReplaceAll(b, twinID, p.ID)
			rep.Count("metamorphic-texts-compared", 1)
			if a != b {
				files := pr.pl.ProgramFiles(p.ID)
				for k, v := range pr.pl.ProgramFiles(twinID) {
					files["twin/"+k] = v
				}
				files["base-output.txt"] = a
				files["twin-output.txt"] = b
				rep.Violate(core.Violation{Signature: "metamorphic:" + strings.SplitN(target, ":", 2)[0], Case: p.ID, Files: files,
					Message: fmt.Sprintf("programs %s and %s differ only by ignored fields (unexported / json:\"-\" / gomacro:\"ignore\", added or retyped) but their %s outputs differ: %s", p.ID, twinID, target, firstDiff(a, b))})
			}
		}
	}

	return rep.Finish(core.Evidence{
		Evaluations: rep.Counter("key-lists-compared") + rep.Counter("metamorphic-texts-compared"),
		Rule:        "tagprogs: struct-only programs sweeping the json-tag alphabet (21 spellings incl. options, empty name, '-', '-,', other keys before/after, gomacro ignore/opaque) x 11 field kinds x unexported / embedded / nested; ground truth = ordered key list of json.Marshal on a fully non-empty value in the compiled package (no generated code), minus gomacro:\"ignore\" fields; compared with Exported()/JSONName() of the analysis and with the keys extracted from the TypeScript interface, the Dart fromJson/toJson and the SQL struct validator. Metamorphic pairs (program, program + added/retyped ignored fields of types declared outside the analysed file) must give byte-identical TypeScript, Dart and validator texts. Distinct = distinct (struct, key list).",
		Assumptions: []string{"tagged embedded structs and conflicting promoted names are outside the quantifier", "keys are extracted with harness/tsmodel, harness/dartmodel and a pattern on the validator template (key IN (...), data->'k')"},
		Extra:       map[string]any{"programs": len(progs), "features": pr.pl.FeatureSummary()},
	})
}

func firstN(s string, n int) string {
	if len(s) > n {
		return s[:n]
	}
	return s
}

func keyDiffClass(got, want []string) string {
	gs, ws := map[string]bool{}, map[string]bool{}
	for _, k := range got {
		gs[k] = true
	}
	for _, k := range want {
		ws[k] = true
	}
	extra, missing := 0, 0
	for k := range gs {
		if !ws[k] {
			extra++
		}
	}
	for k := range ws {
		if !gs[k] {
			missing++
		}
	}
	switch {
	case extra > 0 && missing > 0:
		return "renamed-or-swapped"
	case extra > 0:
		return "extra-key"
	case missing > 0:
		return "missing-key"
	default:
		return "order-or-duplicate"
	}
}

func firstDiff(a, b string) string {
	la, lb := strings.Split(a, "\n"), strings.Split(b, "\n")
	for i := 0; i < len(la) && i < len(lb); i++ {
		if la[i] != lb[i] {
			return fmt.Sprintf("line %d: %q vs %q", i+1, core.Trunc(la[i], 200), core.Trunc(lb[i], 200))
		}
	}
	return fmt.Sprintf("%d vs %d lines", len(la), len(lb))
}

// sqlValidatorSection keeps the JSON validator functions of a script (the
// table section legitimately differs when a table struct changes).
func sqlValidatorSection(script string) string {
	var out []string
	for _, chunk := range strings.Split(script, "CREATE OR REPLACE FUNCTION") {
		if strings.Contains(chunk, "RETURNS boolean") {
			if i := strings.Index(chunk, "IMMUTABLE;"); i >= 0 {
				out = append(out, strings.TrimSpace(chunk[:i]))
			}
		}
	}
	return strings.Join(out, "\n----\n")
}

var _ = drive.Record{}
