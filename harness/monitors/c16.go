package monitors

import (
	"encoding/json"
	"fmt"
	"go/ast"
	"go/parser"
	"go/token"
	"go/types"
	"os"
	"path/filepath"
	"strconv"
	"strings"

	gosql "github.com/benoitkugler/gomacro/analysis/sql"

	"verif/core"
	"verif/drive"
	"verif/support/pgmodel"
)

func init() {
	Registry["C16"] = checkC16
	inProcOracles["c16dump"] = oracleC16Dump
}

type c16Query struct {
	Table  string   `json:"table"`
	Func   string   `json:"func"`
	Query  string   `json:"query"`
	Names  []string `json:"names"`
	Types  []string `json:"types"`
	Consts []string `json:"constraints"`
}

// oracleC16Dump logs Table.CustomQueries / CustomConstraints as analysis/sql reports them.
func oracleC16Dump(ctx *progCtx) {
	if ctx.An == nil {
		return
	}
	var out []c16Query
	oc := drive.Guard(func() {
		for _, ta := range gosql.SelectTables(ctx.An) {
			base := c16Query{Table: string(ta.TableName()), Consts: ta.CustomConstraints}
			if len(ta.CustomQueries) == 0 {
				out = append(out, base)
			}
			for _, q := range ta.CustomQueries {
				e := base
				e.Func, e.Query = q.GoFunctionName, q.Query
				for _, in := range q.Inputs {
					e.Names = append(e.Names, in.VarName)
					e.Types = append(e.Types, types.TypeString(in.Type, func(p *types.Package) string {
						if p == ctx.Pkg.Types {
							return ""
						}
						return p.Name()
					}))
				}
				out = append(out, e)
			}
		}
	})
	if !oc.OK {
		ctx.W.Emit(drive.Record{Prog: ctx.L.Ref.ID, Kind: "stage", Stage: "select-tables", Outcome: &oc})
		return
	}
	ctx.W.Emit(drive.Record{Prog: ctx.L.Ref.ID, Kind: "c16queries", Data: out})
}

// sqlTokens returns the token texts of an SQL fragment, comments dropped.
func sqlTokens(s string) ([]string, error) {
	toks, err := pgmodel.Tokenize(s)
	if err != nil {
		return nil, err
	}
	var out []string
	for _, t := range toks {
		switch t.Kind {
		case pgmodel.TString:
			out = append(out, "'"+t.Text+"'")
		default:
			if t.Quoted {
				out = append(out, `"`+t.Text+`"`)
			} else {
				out = append(out, t.Text)
			}
		}
	}
	return out, nil
}

func tokensEqual(a, b []string) bool { return strings.Join(a, "\x00") == strings.Join(b, "\x00") }

func tokenDiff(got, want []string) string {
	for i := 0; i < len(got) && i < len(want); i++ {
		if got[i] != want[i] {
			return fmt.Sprintf("token %d is %q, want %q", i, got[i], want[i])
		}
	}
	return fmt.Sprintf("%d tokens, want %d", len(got), len(want))
}

func checkC16(cfg *core.Config) int {
	rep := core.NewReport(cfg)
	progs := sqlProgs(cfg.Seed, cfg.Pick(24, 1500))
	progs = append(progs, pinnedPrograms("C16")...)
	pl := NewPipeline(cfg, rep, progs, true)
	defer pl.Close()
	refused := map[string]map[string]string{}
	dumps := map[string][]c16Query{}
	pl.Run(drive.Job{Prop: "C16", Targets: []string{"sql", "sqlcrud"}, Oracles: []string{"c16dump"}}, func(r drive.Record) {
		if pl.StdHandler(r) {
			return
		}
		switch r.Kind {
		case "stage":
			if !r.Outcome.OK {
				if refused[r.Prog] == nil {
					refused[r.Prog] = map[string]string{}
				}
				refused[r.Prog][r.Stage] = r.Outcome.Panic
			}
		case "c16queries":
			b, _ := json.Marshal(r.Data)
			var qs []c16Query
			json.Unmarshal(b, &qs)
			dumps[r.Prog] = qs
		}
	})
	for _, p := range progs {
		truth := sqlTruthOf(p)
		if truth == nil {
			continue
		}
		files := pl.ProgramFiles(p.ID)
		bad := func(sig, format string, args ...any) {
			rep.Violate(core.Violation{Signature: sig, Case: p.ID, Files: files, Message: fmt.Sprintf("model file %s: ", p.ID) + fmt.Sprintf(format, args...)})
		}
		for _, st := range []string{"analysis-0", "gen-sql", "select-tables"} {
			if d, ok := refused[p.ID][st]; ok {
				bad("refused:"+st+":"+classifyTSError(d), "%s refused a model file with well-formed directives: %s", st, d)
			}
		}
		sb, err := os.ReadFile(filepath.Join(pl.OutDir, p.ID, "sql.sql"))
		if err != nil {
			continue
		}
		text := string(sb)
		files["generated/schema.sql"] = text
		sc, err := pgmodel.ParseScript(text)
		if err != nil {
			bad("sql-parse", "the generated script does not parse: %v", err)
			continue
		}
		// the statements of the constraint section: everything that is not CREATE TABLE / TYPE / FUNCTION
		// and not one of the implicit constraints (json validator CHECK, implicit foreign keys, guards)
		type stmt struct {
			toks []string
			raw  string
			used bool
		}
		var stmts []*stmt
		for _, s := range sc.Statements {
			switch s.Kind {
			case "create_table", "create_type", "create_function":
				continue
			}
			toks, err := sqlTokens(s.Raw)
			if err != nil || len(toks) == 0 {
				continue
			}
			stmts = append(stmts, &stmt{toks: toks, raw: s.Raw})
		}
		if strings.Contains(strings.ToUpper(text), "_SELECT") {
			bad("select-key-leaked", "the internal _SELECT KEY directive reached the SQL output")
		}
		for _, tt := range truth.Tables {
			for _, d := range tt.Directives {
				rep.Count("directives-checked", 1)
				rep.Count("directive:"+d.Kind+":"+tt.DeclStyle, 1)
				rep.Distinct(p.ID + "|" + tt.Struct + "|" + d.Raw)
				if d.Expected == "" {
					continue
				}
				want, _ := sqlTokens(strings.TrimSuffix(d.Expected, ";"))
				n := 0
				var closest *stmt
				for _, s := range stmts {
					if tokensEqual(s.toks, want) {
						n++
						s.used = true
					} else if len(s.toks) > 3 && len(want) > 3 && s.toks[len(s.toks)-2] == want[len(want)-2] && s.toks[0] == want[0] {
						closest = s
					}
				}
				wantN := 1
				if d.Kind == "foreign-key-references" {
					// the implicit constraint of the same column is token-identical when it also cascades
					for _, c := range tt.Columns {
						if c.FK != nil && c.FK.OnDelete == "CASCADE" && strings.Contains(d.Raw, "("+c.Field+")") {
							wantN = 2
						}
					}
				}
				if n != wantN {
					sig := "directive-expansion:" + d.Kind
					msg := fmt.Sprintf("struct %s (%s declaration) directive %q: expected exactly one statement `%s` in the constraint section, found %d", tt.Struct, tt.DeclStyle, d.Raw, d.Expected, n)
					if n == 0 && closest != nil {
						msg += fmt.Sprintf("; closest statement: `%s` (%s)", strings.TrimSpace(closest.raw), tokenDiff(closest.toks, want))
					}
					if n == 0 && closest == nil {
						sig = "directive-missing:" + d.Kind + ":" + tt.DeclStyle
					}
					if n > 1 {
						sig = "directive-duplicated:" + d.Kind
					}
					bad(sig, "%s", msg)
				}
			}
		}
		// implicit statements; whatever remains unexplained is an alarm
		for _, s := range stmts {
			if s.used {
				continue
			}
			j := strings.ToUpper(strings.Join(s.toks, " "))
			switch {
			case strings.Contains(j, "ADD CONSTRAINT") && strings.Contains(j, "_GOMACRO CHECK"): // json validator wiring
			case strings.HasPrefix(j, "ALTER TABLE") && strings.Contains(j, "ADD FOREIGN KEY ("): // implicit foreign key
			case strings.HasPrefix(j, "ALTER TABLE") && strings.Contains(j, "SET DEFAULT"): // guard
			case strings.HasPrefix(j, "ALTER TABLE") && strings.Contains(j, "ADD CHECK ( GUARD ="): // guard
			default:
				bad("unexplained-statement", "statement `%s` of the constraint section corresponds to no directive of the file", strings.TrimSpace(s.raw))
			}
		}

		// custom queries: analysis view
		byFunc := map[string]c16Query{}
		for _, q := range dumps[p.ID] {
			if q.Func != "" {
				byFunc[q.Func] = q
			}
		}
		// CRUD text
		crudFuncs := map[string]*ast.FuncDecl{}
		if cb, err := os.ReadFile(filepath.Join(pl.OutDir, p.ID, "sqlcrud.fixed.go.txt")); err == nil {
			files["generated/crud.go"] = string(cb)
			if f, err := parser.ParseFile(token.NewFileSet(), "crud.go", cb, 0); err == nil {
				for _, d := range f.Decls {
					if fd, ok := d.(*ast.FuncDecl); ok && fd.Recv == nil {
						crudFuncs[fd.Name.Name] = fd
					}
				}
			}
		}
		for _, tt := range truth.Tables {
			for _, q := range tt.Queries {
				rep.Count("queries-checked", 1)
				rep.Distinct(p.ID + "|" + q.Func)
				got, ok := byFunc[q.Func]
				if !ok {
					bad("query-missing:"+tt.DeclStyle, "struct %s: custom query %s is not reported by the analysis (directive %q)", tt.Struct, q.Func, q.Raw)
					continue
				}
				if strings.Join(got.Names, ",") != strings.Join(q.ArgNames, ",") {
					bad("query-inputs", "query %s: inputs %v, want one per distinct placeholder in order of first occurrence %v", q.Func, got.Names, q.ArgNames)
				}
				if strings.Join(got.Types, ",") != strings.Join(q.ArgTypes, ",") {
					bad("query-input-types", "query %s: input types %v, want the types of the compared fields %v (%v)", q.Func, got.Types, q.ArgTypes, q.Fields)
				}
				// placeholder numbering, before table/enum substitution: $name$ -> $k
				if strings.Contains(got.Query, "$"+q.ArgNames[0]+"$") {
					bad("query-placeholders", "query %s still contains a named placeholder: %s", q.Func, got.Query)
				}
				fd := crudFuncs[q.Func]
				if fd == nil {
					if _, crudRefused := refused[p.ID]["gen-sqlcrud"]; !crudRefused {
						bad("query-function-missing", "query %s: no Go function generated", q.Func)
					}
					continue
				}
				rep.Count("query-functions-checked", 1)
				// signature
				var pnames, ptypes []string
				for _, f := range fd.Type.Params.List {
					for _, n := range f.Names {
						pnames = append(pnames, n.Name)
						ptypes = append(ptypes, types.ExprString(f.Type))
					}
				}
				if len(pnames) == 0 || strings.Join(pnames[1:], ",") != strings.Join(q.ArgNames, ",") || strings.Join(ptypes[1:], ",") != strings.Join(q.ArgTypes, ",") {
					bad("query-signature", "query %s: Go parameters %v %v, want (db DB, %v %v)", q.Func, pnames, ptypes, q.ArgNames, q.ArgTypes)
				}
				// the Exec call
				var sqlLit string
				var args []string
				ast.Inspect(fd.Body, func(n ast.Node) bool {
					if call, ok := n.(*ast.CallExpr); ok {
						if sel, ok := call.Fun.(*ast.SelectorExpr); ok && sel.Sel.Name == "Exec" && len(call.Args) >= 1 {
							if bl, ok := call.Args[0].(*ast.BasicLit); ok && bl.Kind == token.STRING {
								sqlLit, _ = strconv.Unquote(bl.Value)
							}
							for _, a := range call.Args[1:] {
								args = append(args, types.ExprString(a))
							}
						}
					}
					return true
				})
				if strings.Join(args, ",") != strings.Join(q.ArgNames, ",") {
					bad("query-arguments", "query %s: Exec arguments %v, want %v", q.Func, args, q.ArgNames)
				}
				gt, _ := sqlTokens(sqlLit)
				wt, _ := sqlTokens(q.Expected)
				if !tokensEqual(gt, wt) {
					bad("query-text", "query %s: SQL text %q, want %q (%s)", q.Func, sqlLit, q.Expected, tokenDiff(gt, wt))
				}
			}
		}
		if rep.Counter("directives-checked") < 12 {
			for _, tt := range truth.Tables {
				for _, d := range tt.Directives {
					rep.Sample(6, map[string]any{"program": p.ID, "struct": tt.Struct, "directive": d.Raw, "expected": d.Expected})
				}
			}
		}
	}
	return rep.Finish(core.Evidence{
		Evaluations: rep.Counter("directives-checked") + rep.Counter("queries-checked"),
		Rule:        "sqlprogs with comment directives (ADD UNIQUE / PRIMARY KEY / CHECK with int and string enum placeholders / FOREIGN KEY ... REFERENCES <Struct>, free-standing statements whose identifiers contain struct names as substrings, _SELECT KEY with 1..2 columns, QUERY with distinct, repeated and enum placeholders) on single and grouped declarations with documented and undocumented neighbours: every directive must expand to exactly one token-identical statement (comments ignored) attached to the table of the struct carrying it, nothing unexplained may appear in the constraint section, _SELECT never reaches the output; custom queries are compared with the truth table both in Table.CustomQueries and in the generated Go function (signature, Exec arguments, SQL text). Distinct = distinct directives / queries.",
		Assumptions: []string{"a doc comment on the group itself (above `type (`) has no single owner and is not generated", "malformed directives are outside the quantifier"},
		Extra:       map[string]any{"programs": len(progs), "features": pl.FeatureSummary()},
	})
}
