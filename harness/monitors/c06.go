package monitors

import (
	"encoding/json"
	"fmt"
	"go/constant"
	"go/types"
	"math/big"
	"os"
	"path/filepath"
	"sort"
	"strings"

	"github.com/benoitkugler/gomacro/analysis"

	"verif/core"
	"verif/dartmodel"
	"verif/drive"
	"verif/support/runlib"
	"verif/synth"
)

func init() {
	Registry["C06"] = checkC06
	inProcOracles["c06dump"] = oracleC06Dump
}

// c06Type describes one named Go type reachable from the analysed files,
// computed from go/types and the reference model (not from gomacro's nodes,
// except the field view which C09 validates against encoding/json).
type c06Type struct {
	Pkg      string      `json:"pkg"`
	Name     string      `json:"name"`
	Kind     string      `json:"kind"` // struct | enum | union | named
	Exported bool        `json:"exported"`
	Members  []string    `json:"members,omitempty"` // union: member local names in name order
	Consts   []c06Const  `json:"consts,omitempty"`  // enum: exported constants
	IntEnum  bool        `json:"int_enum,omitempty"`
	Fields   []c09Field  `json:"fields,omitempty"` // struct: gomacro's field view
	Unions   []c06UnionR `json:"unions,omitempty"` // struct: analysed unions listing it
}

type c06Const struct {
	Name  string `json:"name"`
	Value string `json:"value"` // exact string: integers as decimal, strings unquoted
	IsStr bool   `json:"is_str"`
}

type c06UnionR struct {
	Name     string `json:"name"`
	Exported bool   `json:"exported"`
}

func oracleC06Dump(ctx *progCtx) {
	var out []c06Type
	seen := map[*types.Named]bool{}
	// unions analysed by any of the analyses handed to dart.Generate
	analysedUnions := map[*types.Named]bool{}
	for _, an := range ctx.Ans {
		if an == nil {
			continue
		}
		for k, v := range an.Types {
			if _, ok := v.(*analysis.Union); ok {
				if n, ok := types.Unalias(k).(*types.Named); ok {
					analysedUnions[n] = true
				}
			}
		}
	}
	for i, an := range ctx.Ans {
		if an == nil {
			continue
		}
		ref := buildRefModel(ctx.L.Pkgs[i])
		for _, node := range dartReachable(an) {
			named, ok := node.Type().(*types.Named)
			if !ok || named.Obj().Pkg() == nil || seen[named] {
				continue
			}
			if _, isTime := node.(*analysis.Time); isTime {
				continue
			}
			seen[named] = true
			t := c06Type{Pkg: named.Obj().Pkg().Path(), Name: named.Obj().Name(), Exported: named.Obj().Exported(), Kind: "named"}
			if named.TypeArgs().Len() > 0 {
				continue // instantiations share a Dart name with their generic origin: not checked here
			}
			switch n := node.(type) {
			case *analysis.Struct:
				t.Kind = "struct"
				for _, f := range n.Fields {
					t.Fields = append(t.Fields, c09Field{Go: f.Field.Name(), Exported: f.Exported(), JSON: f.JSONName()})
				}
				var us []*types.Named
				for u, members := range ref.unions {
					if !analysedUnions[u] {
						continue
					}
					for _, m := range members {
						if m == named {
							us = append(us, u)
						}
					}
				}
				sort.Slice(us, func(i, j int) bool { return us[i].String() < us[j].String() })
				for _, u := range us {
					t.Unions = append(t.Unions, c06UnionR{Name: u.Obj().Name(), Exported: u.Obj().Exported()})
				}
			case *analysis.Enum:
				t.Kind = "enum"
				e := ref.enums[named]
				basic, _ := named.Underlying().(*types.Basic)
				t.IntEnum = basic != nil && basic.Info()&types.IsInteger != 0
				if e != nil {
					// exported constants, in the order gomacro reports members (the order
					// Dart enum values are declared in); values from go/types
					for _, m := range n.Members {
						if !m.Const.Exported() {
							continue
						}
						c := c06Const{Name: m.Const.Name()}
						if m.Const.Val().Kind() == constant.String {
							c.Value, c.IsStr = constant.StringVal(m.Const.Val()), true
						} else {
							c.Value = m.Const.Val().ExactString()
						}
						t.Consts = append(t.Consts, c)
					}
				}
			case *analysis.Union:
				t.Kind = "union"
				for _, m := range ref.unions[named] {
					t.Members = append(t.Members, m.Obj().Name())
				}
			}
			out = append(out, t)
		}
	}
	ctx.W.Emit(drive.Record{Prog: ctx.L.Ref.ID, Kind: "c06types", Data: out})
}

// dartReachable lists the nodes the Dart generator visits: from the source
// declarations through exported, non dart-opaque fields, elements, keys,
// underlying types and union members.
func dartReachable(an *analysis.Analysis) []analysis.Type {
	seen := map[analysis.Type]bool{}
	var out []analysis.Type
	var visit func(n analysis.Type)
	visit = func(n analysis.Type) {
		if n == nil || seen[n] {
			return
		}
		seen[n] = true
		out = append(out, n)
		switch n := n.(type) {
		case *analysis.Struct:
			for _, f := range n.Fields {
				if f.Exported() && !f.IsOpaqueFor("dart") {
					visit(f.Type)
				}
			}
		case *analysis.Array:
			visit(n.Elem)
		case *analysis.Map:
			visit(n.Key)
			visit(n.Elem)
		case *analysis.Named:
			visit(n.Underlying)
		case *analysis.Union:
			for _, mb := range n.Members {
				visit(mb)
			}
		}
	}
	for _, t := range an.Source {
		visit(an.Types[t])
	}
	return out
}

// sameNumber compares two numeric literals exactly ("5/2" == "2.5").
func sameNumber(a, b string) bool {
	ra, ok1 := new(big.Rat).SetString(a)
	rb, ok2 := new(big.Rat).SetString(b)
	if !ok1 || !ok2 {
		return false
	}
	if ra.Cmp(rb) == 0 {
		return true
	}
	// both sides of the wire hold float64 values: a decimal literal and the exact value of the
	// constant are the same number when they denote the same float64
	fa, _ := ra.Float64()
	fb, _ := rb.Float64()
	return fa == fb && ra.IsInt() == rb.IsInt()
}

func dartTitle(s string) string {
	if s == "" {
		return s
	}
	return strings.ToUpper(s[:1]) + s[1:]
}

func checkC06(cfg *core.Config) int {
	rep := core.NewReport(cfg)
	n := cfg.Pick(32, 1500)
	var all []*synth.Program
	for i := 0; i < n; i++ {
		r := core.Rand(cfg.Seed, "typeprog-c06", i)
		opts := synth.RandomTypeOpts(r)
		opts.Bytes = false
		p := synth.NewTypeProg(cfg.Seed, i, r, opts)
		// 1-3 source files, loaded in one LoadSources call as the CLI does
		switch i % 3 {
		case 1:
			p.Sources = append(p.Sources, p.Root.Dir+"/other.go")
			p.Feature("dart:two-source-files")
		case 2:
			p.Sources = append(p.Sources, p.Root.Dir+"/other.go")
			if len(p.Subs) > 0 {
				p.Sources = append(p.Sources, p.Subs[0].Dir+"/types.go")
				p.Feature("dart:three-source-files")
				if i%4 == 1 {
					// the analysis of the imported package's file is handed to dart.Generate first
					// (the command line sorts the paths: any order is possible)
					p.Meta["dart_last_source_first"] = true
					p.Feature("dart:sub-package-source-first")
				}
			}
		}
		all = append(all, p)
	}
	all = append(all, pinnedPrograms("C06")...)
	all = append(all, staticPrograms("C06")...)
	evals := 0
	for layout := 0; layout < 2; layout++ {
		var progs []*synth.Program
		for i, p := range all {
			if i%2 == layout {
				progs = append(progs, p)
			}
		}
		evals += c06Layout(cfg, rep, progs, layout == 0)
	}
	return rep.Finish(core.Evidence{
		Evaluations: rep.Counter("dart-definitions-checked"),
		Rule:        "typeprogs with 1-3 source files (root file, second file of the package, sub-package file) loaded together, under both root layouts (below a go/src/ directory or not); dart.Generate's files are tokenised and the extracted relations compared with ground truth: per struct the keys read by fromJson and written by toJson equal encoding/json's keys in field order (real json.Marshal in the compiled package) with one constructor argument each; per union the dispatch sets equal the member names under Kind/Data and member classes implement exactly their exported unions; per enum the value list is the exported constants and member<->wire value is the identity (position based only when values are 0..n-1); every used name resolves by Dart's import rules, no self import, one file per Go package. Distinct = distinct (program, Dart definition).",
		Assumptions: []string{"Dart is not executed (no SDK): only the extracted relations are decided; semantic errors outside them are out of reach", "token-level extractor harness/dartmodel, unit-tested on the repo's samples"},
		Extra:       map[string]any{"programs": len(all), "comparisons": evals},
	})
}

func c06Layout(cfg *core.Config, rep *core.Report, progs []*synth.Program, inGoSrc bool) int {
	// like the command line, Dart is generated LAST on analyses other targets have already used
	pr := prepareRunner(cfg, rep, progs, []string{"randdata", "ts", "sql", "dart"}, []string{"c06dump"}, inGoSrc)
	defer pr.pl.Close()
	layout := "ws"
	if inGoSrc {
		layout = "go-src"
	}
	// ground truth keys for root package structs
	var jobs []runlib.Job
	for _, id := range pr.ready {
		if pr.rn.Progs[id] {
			jobs = append(jobs, runlib.Job{Prog: id, Cmd: "keys", Seed: cfg.Seed})
		}
	}
	ground := map[string]map[string][]string{}
	pr.rn.Run(jobs, func(e runlib.Event) {
		if e.Kind != "keys" {
			return
		}
		ignored := map[string]bool{}
		if m, ok := e.Data.(map[string]any); ok {
			if l, ok := m["gomacro_ignored"].([]any); ok {
				for _, k := range l {
					ignored[fmt.Sprint(k)] = true
				}
			}
		}
		keys := []string{}
		for _, k := range e.Keys {
			if !ignored[k] {
				keys = append(keys, k)
			}
		}
		if ground[e.Prog] == nil {
			ground[e.Prog] = map[string][]string{}
		}
		ground[e.Prog][e.Type] = keys
	})

	comparisons := 0
	for _, p := range progs {
		id := p.ID
		files := pr.pl.ProgramFiles(id)
		if d, ok := pr.refused[id]["gen-dart"]; ok {
			rep.Violate(core.Violation{Signature: "refused:dart:" + classifyTSError(d), Case: id, Files: files, Message: fmt.Sprintf("dart.Generate refused supported program %s (%s layout): %s", id, layout, d)})
			continue
		}
		var typesDump []c06Type
		if raw, ok := pr.extra["c06types"][id]; ok {
			b, _ := json.Marshal(raw)
			json.Unmarshal(b, &typesDump)
		}
		dartDir := filepath.Join(pr.pl.OutDir, id, "dart")
		ents, err := os.ReadDir(dartDir)
		if err != nil {
			continue
		}
		srcs := map[string]string{}
		for _, e := range ents {
			b, _ := os.ReadFile(filepath.Join(dartDir, e.Name()))
			srcs[e.Name()] = string(b)
			files["generated/dart/"+e.Name()] = string(b)
		}
		rep.Count("dart-programs", 1)
		rep.Count("dart-files", len(srcs))
		prog, errs := dartmodel.NewProgram(srcs)
		bad := func(sig, format string, args ...any) {
			rep.Violate(core.Violation{Signature: sig, Case: id, Files: files, Message: fmt.Sprintf("program %s (%s layout): ", id, layout) + fmt.Sprintf(format, args...)})
		}
		for _, e := range errs {
			bad("dart-lexical", "generated Dart cannot be tokenised: %v", e)
		}
		// index definitions
		type where struct {
			file string
			cls  *dartmodel.Class
			enum *dartmodel.Enum
			td   *dartmodel.Typedef
		}
		defs := map[string][]where{}
		funcs := map[string]*dartmodel.Function{}
		exts := map[string]*dartmodel.Extension{}
		for fname, f := range prog.Files {
			for _, u := range f.Unknown {
				bad("dart-unclassifiable:"+classifyDartChunk(u), "file %s contains a top-level chunk that is not a class/typedef/enum/extension/function: %q", fname, u)
			}
			for _, c := range f.Classes {
				defs[c.Name] = append(defs[c.Name], where{file: fname, cls: c})
				for _, u := range c.Unknown {
					bad("dart-unclassifiable-member:"+classifyDartChunk(u), "class %s in %s has a member that is not a field/constructor/method: %q", c.Name, fname, u)
				}
			}
			for _, e := range f.Enums {
				defs[e.Name] = append(defs[e.Name], where{file: fname, enum: e})
			}
			for _, t := range f.Typedefs {
				defs[t.Name] = append(defs[t.Name], where{file: fname, td: t})
			}
			for _, fn := range f.Functions {
				funcs[fname+"|"+fn.Name] = fn
			}
			for _, x := range f.Extensions {
				exts[fname+"|"+x.On] = x
			}
		}
		// linking
		for _, pb := range prog.Problems() {
			bad("dart-link:"+pb.Kind, "%s", pb.String())
		}
		comparisons++

		// per type
		fileOfPkg := map[string]string{}
		pkgOfFile := map[string]string{}
		// names declared by several Go packages of this program: Dart resolution is by file, fine, but our lookup is by name
		nameCount := map[string]int{}
		for _, t := range typesDump {
			nameCount[dartTitle(t.Name)]++
		}
		for _, t := range typesDump {
			dn := dartTitle(t.Name)
			if nameCount[dn] > 1 {
				continue // same local name in two packages: looked up ambiguously here, skipped
			}
			ws := defs[dn]
			if !strings.HasPrefix(t.Pkg, modulePrefix) && t.Kind == "named" {
				// stdlib named types are emitted too; no ground truth needed beyond presence
			}
			if len(ws) == 0 {
				bad("dart-type-missing:"+t.Kind, "Go type %s.%s (%s) has no Dart definition %s", t.Pkg, t.Name, t.Kind, dn)
				continue
			}
			rep.Count("dart-definitions-checked", 1)
			rep.Distinct(id + "|" + dn)
			w := ws[0]
			// file assignment: one file per Go package
			if f, ok := fileOfPkg[t.Pkg]; ok && f != w.file {
				bad("dart-file-assignment", "types of Go package %s are spread over %s and %s (%s)", t.Pkg, f, w.file, dn)
			}
			fileOfPkg[t.Pkg] = w.file
			if pk, ok := pkgOfFile[w.file]; ok && pk != t.Pkg {
				bad("dart-file-assignment", "file %s holds types of two Go packages: %s and %s", w.file, pk, t.Pkg)
			}
			pkgOfFile[w.file] = t.Pkg
			id0 := lowerFirstASCII(dn)
			switch t.Kind {
			case "struct":
				if w.cls == nil {
					bad("dart-kind", "Go struct %s is not a Dart class", t.Name)
					continue
				}
				var want []string
				if g, ok := ground[id][t.Name]; ok && t.Pkg == p.Root.Path {
					want = g
				} else {
					for _, f := range t.Fields {
						if f.Exported {
							want = append(want, f.JSON)
						}
					}
				}
				from, to := funcs[w.file+"|"+id0+"FromJson"], funcs[w.file+"|"+id0+"ToJson"]
				if from == nil || to == nil {
					bad("dart-json-routine-missing", "class %s has no %sFromJson / %sToJson in %s", dn, id0, id0, w.file)
					continue
				}
				ctor, reads := from.JSONReads()
				var rk []string
				for _, r := range reads {
					rk = append(rk, r.Key)
				}
				var wk []string
				for _, x := range to.JSONWrites() {
					wk = append(wk, x.Key)
				}
				if strings.Join(rk, "\x00") != strings.Join(want, "\x00") {
					bad("dart-struct-keys:fromJson:"+keyDiffClass(rk, want), "%sFromJson reads keys %q, Go uses %q", id0, rk, want)
				}
				if strings.Join(wk, "\x00") != strings.Join(want, "\x00") {
					bad("dart-struct-keys:toJson:"+keyDiffClass(wk, want), "%sToJson writes keys %q, Go uses %q", id0, wk, want)
				}
				if ctor != dn && len(want) > 0 {
					bad("dart-struct-ctor", "%sFromJson builds %q, want %s", id0, ctor, dn)
				}
				if len(w.cls.CtorParams) != len(want) || len(w.cls.Fields) != len(want) {
					bad("dart-struct-arity", "class %s has %d fields and %d constructor parameters for %d exported Go fields %q", dn, len(w.cls.Fields), len(w.cls.CtorParams), len(want), want)
				}
				// implements: exactly the exported analysed unions listing the struct
				var wantImpl []string
				for _, u := range t.Unions {
					if u.Exported {
						wantImpl = append(wantImpl, u.Name)
					}
				}
				got := append([]string(nil), w.cls.Implements...)
				if !sameSet(got, wantImpl) {
					bad("dart-implements", "class %s implements %v, want the exported unions %v", dn, got, wantImpl)
				}
			case "union":
				from, to := funcs[w.file+"|"+id0+"FromJson"], funcs[w.file+"|"+id0+"ToJson"]
				if w.cls == nil || from == nil || to == nil {
					bad("dart-union-shape", "union %s: abstract class or JSON routines missing in %s", dn, w.file)
					continue
				}
				cases, keysRead, hasDefault := from.UnionCases()
				var ck []string
				for _, c := range cases {
					ck = append(ck, c.Kind)
				}
				if !sameSet(ck, t.Members) || len(ck) != len(t.Members) {
					bad("dart-union-dispatch:fromJson", "%sFromJson dispatches on %v, Go members are %v", id0, ck, t.Members)
				}
				if !containsAll(keysRead, []string{"Kind", "Data"}) {
					bad("dart-union-keys", "%sFromJson reads keys %v, want Kind and Data", id0, keysRead)
				}
				if !hasDefault {
					bad("dart-union-default", "%sFromJson has no default branch throwing on an unknown Kind", id0)
				}
				var wk []string
				for _, x := range to.UnionWrites() {
					wk = append(wk, x.Kind)
					if x.KindKey != "Kind" || x.DataKey != "Data" {
						bad("dart-union-keys", "%sToJson writes keys %q/%q, want Kind/Data", id0, x.KindKey, x.DataKey)
					}
					if x.DartType != dartTitle(x.Kind) {
						bad("dart-union-dispatch:toJson-type", "%sToJson tests `is %s` but tags it %q", id0, x.DartType, x.Kind)
					}
				}
				if !sameSet(wk, t.Members) || len(wk) != len(t.Members) {
					bad("dart-union-dispatch:toJson", "%sToJson tags %v, Go members are %v", id0, wk, t.Members)
				}
			case "enum":
				if w.enum == nil {
					bad("dart-kind", "Go enum %s is not a Dart enum", t.Name)
					continue
				}
				if len(w.enum.Values) != len(t.Consts) {
					bad("dart-enum-values", "enum %s has values %v for exported constants %v", dn, w.enum.Values, constNames(t.Consts))
					continue
				}
				ext := exts[w.file+"|"+dn]
				var table []dartmodel.Lit
				if ext != nil {
					table = ext.ConstLists["_values"]
				}
				for i, c := range t.Consts {
					// the member name only aligns positions (names are not on the wire): the full
					// constant name or what follows its first underscore, lower-cased first
					wantName := lowerFirstASCII(c.Name)
					altName := wantName
					if _, after, found := strings.Cut(wantName, "_"); found && after != "" {
						altName = lowerFirstASCII(after)
					}
					if w.enum.Values[i] != wantName && w.enum.Values[i] != altName {
						wantName = wantName + " or " + altName
						bad("dart-enum-values", "enum %s value %d is %q, want %q (constant %s)", dn, i, w.enum.Values[i], wantName, c.Name)
						continue
					}
					// wire value of position i
					wire := fmt.Sprint(i)
					if table != nil {
						if i >= len(table) {
							bad("dart-enum-wire", "enum %s: _values has %d entries for %d members", dn, len(table), len(t.Consts))
							break
						}
						wire = table[i].Text
					} else if c.IsStr || !t.IntEnum {
						bad("dart-enum-wire", "enum %s is not integer backed but has no _values table", dn)
						break
					}
					if wire != c.Value && (c.IsStr || !sameNumber(wire, c.Value)) {
						bad("dart-enum-wire", "enum %s: member %s (Go value %s) is sent as %s on the wire (position %d, table: %v)", dn, c.Name, c.Value, wire, i, table != nil)
					}
				}
			}
		}
		if rep.Counter("dart-programs") <= 3 {
			var names []string
			for f := range srcs {
				names = append(names, f)
			}
			sort.Strings(names)
			rep.Sample(6, map[string]any{"program": id, "layout": layout, "files": names, "go_types": len(typesDump)})
		}
	}
	return comparisons
}

func constNames(cs []c06Const) []string {
	var out []string
	for _, c := range cs {
		out = append(out, c.Name+"="+c.Value)
	}
	return out
}

func containsAll(have, want []string) bool {
	set := map[string]bool{}
	for _, h := range have {
		set[h] = true
	}
	for _, w := range want {
		if !set[w] {
			return false
		}
	}
	return true
}

func classifyDartChunk(u string) string {
	switch {
	case strings.Contains(u, "final") && strings.ContainsAny(u, "-,"):
		return "field-name-not-identifier"
	case strings.HasPrefix(strings.TrimSpace(u), "enum"):
		return "enum"
	case strings.HasPrefix(strings.TrimSpace(u), "const"):
		return "constructor"
	}
	return "other"
}
