package monitors

import (
	"bufio"
	"encoding/json"
	"fmt"
	"os"
	"path/filepath"
	"runtime"
	"sort"
	"strings"
	"sync"
	"time"

	"github.com/benoitkugler/gomacro/analysis"

	"verif/core"
)

func init() {
	Registry["C17"] = checkC17
	workers["c17"] = workerC17
}

// c17Case is one LoadSources call.
type c17Case struct {
	ID      string   `json:"id"`
	Kind    string   `json:"kind"` // layout family
	Cwd     string   `json:"cwd"`  // working directory of the call (relative paths are relative to it)
	Files   []string `json:"files"`
	WantErr bool     `json:"want_err"`
}

type c17Result struct {
	ID       string     `json:"id"`
	Panic    string     `json:"panic,omitempty"`
	Runtime  bool       `json:"runtime,omitempty"`
	Err      string     `json:"err,omitempty"`
	Root     string     `json:"root"`
	Pkgs     []c17PkgRe `json:"pkgs"`
	Finished bool       `json:"finished"`
}

type c17PkgRe struct {
	Nil      bool     `json:"nil"`
	PkgPath  string   `json:"pkg_path"`
	GoFiles  []string `json:"go_files"`
	NbErrors int      `json:"nb_errors"`
	HasTypes bool     `json:"has_types"`
}

// workerC17 runs the cases of a job file serially (each may chdir) and appends
// one JSON line per case; "BEGIN" lines are written before each call so that a
// fatal abort is attributable.
func workerC17(args []string) int {
	if len(args) != 2 {
		return 2
	}
	b, err := os.ReadFile(args[0])
	if err != nil {
		return 2
	}
	var cases []c17Case
	if err := json.Unmarshal(b, &cases); err != nil {
		return 2
	}
	out, err := os.OpenFile(args[1], os.O_CREATE|os.O_WRONLY|os.O_APPEND, 0o644)
	if err != nil {
		return 2
	}
	defer out.Close()
	for _, c := range cases {
		fmt.Fprintf(out, "BEGIN %s\n", c.ID)
		res := c17Result{ID: c.ID}
		func() {
			defer func() {
				if r := recover(); r != nil {
					res.Panic = fmt.Sprint(r)
					_, res.Runtime = r.(runtime.Error)
				}
			}()
			if err := os.Chdir(c.Cwd); err != nil {
				res.Panic = "harness: chdir: " + err.Error()
				return
			}
			pkgs, root, err := analysis.LoadSources(c.Files)
			res.Root = root
			if err != nil {
				res.Err = err.Error()
			}
			for _, p := range pkgs {
				if p == nil {
					res.Pkgs = append(res.Pkgs, c17PkgRe{Nil: true})
					continue
				}
				res.Pkgs = append(res.Pkgs, c17PkgRe{PkgPath: p.PkgPath, GoFiles: p.GoFiles, NbErrors: len(p.Errors), HasTypes: p.Types != nil && p.TypesInfo != nil})
			}
			res.Finished = true
		}()
		jb, _ := json.Marshal(res)
		fmt.Fprintf(out, "RESULT %s\n", jb)
	}
	return 0
}

// c17Layout writes a module with a given set of package directories and returns file paths.
type c17Module struct {
	root  string
	files map[string]string // rel path -> abs path of a valid go file
}

func c17WriteModule(root string, dirs []string) *c17Module {
	m := &c17Module{root: root, files: map[string]string{}}
	os.MkdirAll(root, 0o755)
	os.WriteFile(filepath.Join(root, "go.mod"), []byte("module example.com/lay\n\ngo 1.23.0\n"), 0o644)
	for _, d := range dirs {
		full := filepath.Join(root, d)
		os.MkdirAll(full, 0o755)
		pkg := filepath.Base(full)
		if d == "." || d == "" {
			pkg = "lay"
		}
		pkg = strings.Map(func(r rune) rune {
			if r == '-' || r == '.' || r == '+' {
				return '_'
			}
			return r
		}, pkg)
		for _, fn := range []string{"models.go", "extra.go"} {
			src := fmt.Sprintf("package %s\n\ntype T%s struct{ A int }\n", pkg, strings.Title(strings.TrimSuffix(fn, ".go")))
			p := filepath.Join(full, fn)
			os.WriteFile(p, []byte(src), 0o644)
			m.files[filepath.Join(d, fn)] = p
		}
	}
	return m
}

func g17pick(r interface{ Intn(int) int }, xs ...string) string { return xs[r.Intn(len(xs))] }

func checkC17(cfg *core.Config) int {
	rep := core.NewReport(cfg)
	scratch := core.Scratch("c17")
	defer os.RemoveAll(scratch)
	// resolve symlinks so that expected absolute paths equal what go list reports
	if r, err := filepath.EvalSymlinks(scratch); err == nil {
		scratch = r
	}
	rng := core.Rand(cfg.Seed, "C17")
	nLayouts := cfg.Pick(30, 1500)

	nameFamilies := [][]string{
		{"alpha", "alto"}, {"pkg1", "pkg10", "pkg12"}, {"models", "models2"}, {"a", "ab", "abc"},
		{"server", "service", "shared"}, {"x", "y"}, {"api", "app"}, {"data", "database"}, {"v1", "v2"}, {"gob", "gopher"},
		{"Store", "store"}, {"api", "API", "Api"}, {"shopA", "shopa"}, // differing by case only (distinct directories on this file system)
	}
	var cases []c17Case
	addCase := func(kind, cwd string, files []string, wantErr bool) {
		cases = append(cases, c17Case{ID: fmt.Sprintf("%03d-%s", len(cases), kind), Kind: kind, Cwd: cwd, Files: files, WantErr: wantErr})
	}

	for i := 0; i < nLayouts; i++ {
		root := filepath.Join(scratch, fmt.Sprintf("m%03d", i), "src")
		fam := nameFamilies[rng.Intn(len(nameFamilies))]
		var dirs []string
		shape := i % 8
		switch shape {
		case 7: // a package, a package nested in it, and a sibling spelled <name>-v2 ('-' sorts before '/')
			dirs = []string{fam[0], fam[0] + "/client", fam[0] + g17pick(rng, "-v2", ".old", "+x")}
		case 6: // a nested package listed before a sibling whose name extends the name of its parent
			parent, longer := fam[0], fam[0]+"ping"
			for _, x := range fam {
				for _, y := range fam {
					if x != y && strings.HasPrefix(y, x) {
						parent, longer = x, y
					}
				}
			}
			dirs = []string{parent + "/items", longer}
		case 0: // siblings sharing a name prefix
			dirs = append(dirs, fam...)
		case 1: // nested packages
			dirs = []string{fam[0], fam[0] + "/inner", fam[0] + "/inner/deep"}
		case 2: // siblings under a common parent + nested
			dirs = []string{"lib/" + fam[0], "lib/" + fam[1], "lib/" + fam[0] + "/sub"}
		case 3: // module root and a child
			dirs = []string{".", fam[0]}
		case 4: // prefix-sharing dirs at different depths
			dirs = []string{fam[0], fam[1] + "/" + fam[0], fam[1]}
		default: // a single package
			dirs = []string{fam[0]}
		}
		m := c17WriteModule(root, dirs)
		var rels []string
		for rel := range m.files {
			rels = append(rels, rel)
		}
		sort.Strings(rels)

		pick := func(k int) []string {
			perm := rng.Perm(len(rels))
			var out []string
			for _, j := range perm[:k] {
				out = append(out, rels[j])
			}
			return out
		}
		abs := func(rs []string) []string {
			var out []string
			for _, r := range rs {
				out = append(out, m.files[r])
			}
			return out
		}
		// one file per directory (the typical CLI use), absolute paths
		var onePerDir []string
		for _, d := range dirs {
			onePerDir = append(onePerDir, filepath.Join(d, "models.go"))
		}
		addCase(fmt.Sprintf("shape%d-one-per-dir-abs", shape), scratch, abs(onePerDir), false)
		// same, relative to the module root
		addCase(fmt.Sprintf("shape%d-one-per-dir-rel", shape), root, onePerDir, false)
		switch rng.Intn(6) {
		case 0: // single file
			addCase("single-abs", scratch, abs(pick(1)), false)
		case 1: // duplicates
			f := pick(1)
			addCase("duplicate", scratch, abs([]string{f[0], f[0]}), false)
		case 2: // two files of one package
			d := dirs[rng.Intn(len(dirs))]
			addCase("same-package", scratch, []string{m.files[filepath.Join(d, "models.go")], m.files[filepath.Join(d, "extra.go")]}, false)
		case 3: // random subset, relative to a sub directory with ../
			k := 1 + rng.Intn(len(rels))
			sub := filepath.Join(root, dirs[0])
			var fs []string
			for _, r := range pick(k) {
				rel, _ := filepath.Rel(sub, m.files[r])
				fs = append(fs, rel)
			}
			addCase("rel-dotdot", sub, fs, false)
		case 4: // random subset, mixed absolute and relative
			k := 1 + rng.Intn(len(rels))
			var fs []string
			for j, r := range pick(k) {
				if j%2 == 0 {
					fs = append(fs, m.files[r])
				} else {
					fs = append(fs, "./"+r)
				}
			}
			addCase("mixed-abs-rel", root, fs, false)
		default: // all files
			addCase("all-files", scratch, abs(rels), false)
		}
		if i%4 == 1 {
			// absolute paths that are valid but not in canonical form (built by concatenation)
			var fs []string
			for j, d := range dirs {
				full := m.files[filepath.Join(d, "models.go")]
				dir, base := filepath.Dir(full), filepath.Base(full)
				switch j % 3 {
				case 0:
					fs = append(fs, dir+"//"+base)
				case 1:
					fs = append(fs, dir+"/./"+base)
				default:
					fs = append(fs, dir+"/../"+filepath.Base(dir)+"/"+base)
				}
			}
			addCase("abs-not-canonical", scratch, fs, false)
		}
		// error cases
		switch i % 5 {
		case 0:
			addCase("err-missing-file", scratch, append(abs(pick(1)), filepath.Join(root, dirs[0], "nope.go")), true)
		case 1:
			txt := filepath.Join(root, dirs[0], "notes.txt")
			os.WriteFile(txt, []byte("hello"), 0o644)
			addCase("err-non-go-file", scratch, []string{txt}, true)
			// ... also when a Go file of the same directory is requested with it, in both orders
			sib := filepath.Join(root, dirs[0], "models.go")
			addCase("err-non-go-file-with-sibling-go-file", scratch, []string{sib, txt}, true)
			addCase("err-non-go-file-before-sibling-go-file", scratch, []string{txt, sib}, true)
		case 2:
			bad := filepath.Join(root, "broken")
			os.MkdirAll(bad, 0o755)
			os.WriteFile(filepath.Join(bad, "bad.go"), []byte("package broken\n\ntype T struct{ A undefinedType }\n"), 0o644)
			addCase("err-type-error", scratch, []string{filepath.Join(bad, "bad.go")}, true)
		case 3:
			// a type error in a package of the module reached only through an import
			bad := filepath.Join(root, "brokendep")
			front := filepath.Join(root, "frontpkg")
			os.MkdirAll(bad, 0o755)
			os.MkdirAll(front, 0o755)
			os.WriteFile(filepath.Join(bad, "dep.go"), []byte("package brokendep\n\ntype D struct{ A int }\n\nfunc (d D) Broken() string { return d.A }\n"), 0o644)
			os.WriteFile(filepath.Join(front, "front.go"), []byte("package frontpkg\n\nimport \"example.com/lay/brokendep\"\n\ntype F struct{ D brokendep.D }\n"), 0o644)
			addCase("err-type-error-in-imported-package", scratch, []string{filepath.Join(front, "front.go")}, true)
		default:
			bad := filepath.Join(root, "syntax")
			os.MkdirAll(bad, 0o755)
			os.WriteFile(filepath.Join(bad, "bad.go"), []byte("package syntax\n\ntype T struct{ A int \n"), 0o644)
			addCase("err-syntax-error", scratch, append([]string{filepath.Join(bad, "bad.go")}, abs(pick(1))...), true)
		}
	}

	addCase("err-no-file-at-all", scratch, []string{}, true)

	// run in worker processes (each serial because of chdir), 16 at a time
	self, _ := os.Executable()
	nW := runtime.NumCPU()
	if nW > len(cases) {
		nW = len(cases)
	}
	results := map[string]*c17Result{}
	lastBegin := map[int]string{}
	crashed := map[int]string{}
	var mu sync.Mutex
	var wg sync.WaitGroup
	for w := 0; w < nW; w++ {
		var batch []c17Case
		for i := w; i < len(cases); i += nW {
			batch = append(batch, cases[i])
		}
		wg.Add(1)
		go func(w int, batch []c17Case) {
			defer wg.Done()
			job := filepath.Join(scratch, fmt.Sprintf("job-%d.json", w))
			outp := filepath.Join(scratch, fmt.Sprintf("out-%d.jsonl", w))
			jb, _ := json.Marshal(batch)
			os.WriteFile(job, jb, 0o644)
			env := core.GoEnv("CGO_ENABLED=0")
			res := core.Run(scratch, env, 20*time.Minute, self, "--worker", "c17", job, outp)
			f, err := os.Open(outp)
			if err == nil {
				sc := bufio.NewScanner(f)
				sc.Buffer(make([]byte, 1<<20), 1<<26)
				for sc.Scan() {
					line := sc.Text()
					if id, ok := strings.CutPrefix(line, "BEGIN "); ok {
						mu.Lock()
						lastBegin[w] = id
						mu.Unlock()
					} else if js, ok := strings.CutPrefix(line, "RESULT "); ok {
						var r c17Result
						if json.Unmarshal([]byte(js), &r) == nil {
							mu.Lock()
							results[r.ID] = &r
							mu.Unlock()
						}
					}
				}
				f.Close()
			}
			if res.TimedOut {
				rep.Inconclusive("C17 worker %d watchdog fired", w)
			} else if res.ExitCode != 0 {
				mu.Lock()
				crashed[w] = res.Out
				mu.Unlock()
			}
		}(w, batch)
	}
	wg.Wait()
	for w, out := range crashed {
		id := lastBegin[w]
		if _, done := results[id]; !done && id != "" {
			rep.Violatef("worker-abort", id, map[string]string{"output.txt": out}, "LoadSources aborted the process on case %s:\n%s", id, core.Trunc(out, 2000))
		} else {
			rep.Inconclusive("C17 worker %d exited abnormally outside a case: %s", w, core.Trunc(out, 500))
		}
	}

	// oracle
	for _, c := range cases {
		r := results[c.ID]
		if r == nil {
			continue // attributed above (abort) or inconclusive
		}
		rep.Count("calls", 1)
		rep.Count("kind:"+strings.TrimLeft(c.Kind, "0123456789-"), 1)
		cj, _ := json.MarshalIndent(c, "", " ")
		rj, _ := json.MarshalIndent(r, "", " ")
		files := map[string]string{"case.json": string(cj), "result.json": string(rj)}
		if r.Panic != "" {
			sig := "panic-diagnostic"
			if r.Runtime {
				sig = "panic-runtime-error"
			}
			rep.Violatef(sig, c.ID, files, "LoadSources(%q) panicked: %s", c.Files, r.Panic)
			continue
		}
		if c.WantErr {
			rep.Distinct("err|" + c.Kind)
			if r.Err == "" {
				rep.Violatef("error-case-accepted:"+c.Kind, c.ID, files, "LoadSources(%q) returned no error for error case %s", c.Files, c.Kind)
			}
			continue
		}
		// distinct = distinct (kind, relative layout of the files)
		rep.Distinct(c.Kind + "|" + relLayout(c))
		if len(cases) > 0 && rep.NumDistinct() <= 8 {
			rep.Sample(8, map[string]any{"kind": c.Kind, "files": relFiles(c), "root_returned_rel": relTo(scratch, r.Root), "err": r.Err})
		}
		if r.Err != "" {
			sig := "valid-set-rejected"
			if strings.Contains(r.Err, "chdir") || strings.Contains(r.Err, "no such file or directory") {
				sig = "valid-set-rejected:root-not-a-directory"
			}
			rep.Violatef(sig, c.ID, files, "LoadSources(%q) (cwd %s) failed on a valid file set: %s", c.Files, c.Cwd, r.Err)
			continue
		}
		if len(r.Pkgs) != len(c.Files) {
			rep.Violatef("package-count", c.ID, files, "LoadSources returned %d packages for %d files", len(r.Pkgs), len(c.Files))
			continue
		}
		for i, f := range c.Files {
			abs := f
			if !filepath.IsAbs(abs) {
				abs = filepath.Join(c.Cwd, f)
			}
			abs = filepath.Clean(abs)
			p := r.Pkgs[i]
			if p.Nil {
				rep.Violatef("nil-package", c.ID, files, "package %d is nil", i)
				continue
			}
			found := false
			for _, g := range p.GoFiles {
				if g == abs {
					found = true
				}
			}
			if !found {
				rep.Violatef("package-does-not-contain-file", c.ID, files, "pkgs[%d] (%s) does not contain file %s (has %v)", i, p.PkgPath, abs, p.GoFiles)
			}
			if p.NbErrors != 0 || !p.HasTypes {
				rep.Violatef("package-not-type-checked", c.ID, files, "pkgs[%d] (%s) has %d errors / types present: %v", i, p.PkgPath, p.NbErrors, p.HasTypes)
			}
			// root is an ancestor (by path components) of the file
			rel, err := filepath.Rel(r.Root, abs)
			if err != nil || rel == ".." || strings.HasPrefix(rel, "../") || !filepath.IsAbs(r.Root) {
				rep.Violatef("root-not-ancestor", c.ID, files, "root %q is not an ancestor of %s", r.Root, abs)
			}
		}
		if st, err := os.Stat(r.Root); err != nil || !st.IsDir() {
			rep.Violatef("root-not-a-directory", c.ID, files, "root %q is not an existing directory", r.Root)
		}
	}

	return rep.Finish(core.Evidence{
		Evaluations: rep.Counter("calls"),
		Rule:        fmt.Sprintf("%d generated module layouts (siblings sharing a name prefix, nested packages, common parent, module root + child, mixed depth, single package) x file-set forms (one per directory abs/rel, single, duplicate, two files of one package, ../-relative, mixed abs/rel, all files) + error cases (missing file, non-Go file, type error, syntax error); each call runs the real analysis.LoadSources in a worker process with its own cwd. Distinct = distinct (form, relative layout of the file set).", nLayouts),
		Assumptions: []string{"go list/packages.Load of the installed toolchain is the ground truth for which package contains a file", "the empty file list is outside the quantifier"},
	})
}

func relTo(base, p string) string {
	if r, err := filepath.Rel(base, p); err == nil {
		// keep a trailing slash visible, it matters for the root
		if strings.HasSuffix(p, "/") {
			return r + "/"
		}
		return r
	}
	return p
}

func relFiles(c c17Case) []string {
	var out []string
	for _, f := range c.Files {
		if filepath.IsAbs(f) {
			// strip scratch/mNNN/src
			parts := strings.Split(f, "/src/")
			out = append(out, "<abs>/"+parts[len(parts)-1])
		} else {
			out = append(out, f)
		}
	}
	return out
}

func relLayout(c c17Case) string { return strings.Join(relFiles(c), ",") }
