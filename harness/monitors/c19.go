package monitors

import (
	"fmt"
	"math/rand"
	"runtime"
	"sort"
	"strings"
	"sync"

	"github.com/benoitkugler/gomacro/generator"

	"verif/core"
)

func init() { Registry["C19"] = checkC19 }

// referenceWrite is the specification of C19, written independently of the
// implementation: IDs having at least one priority occurrence, ascending, then
// the other IDs ascending; each distinct ID's content once, followed by "\n".
func referenceWrite(decls []generator.Declaration) string {
	content := map[string]string{}
	prio := map[string]bool{}
	for _, d := range decls {
		if _, ok := content[d.ID]; !ok {
			content[d.ID] = d.Content
		}
		if d.Priority {
			prio[d.ID] = true
		}
	}
	var p, o []string
	for id := range content {
		if prio[id] {
			p = append(p, id)
		} else {
			o = append(o, id)
		}
	}
	sort.Strings(p)
	sort.Strings(o)
	var sb strings.Builder
	for _, id := range append(p, o...) {
		sb.WriteString(content[id])
		sb.WriteByte('\n')
	}
	return sb.String()
}

// contentFor derives the content from the ID (equal IDs carry equal content);
// half of the contents contain '%' sequences and a trailing newline of their own.
func contentFor(id string) string {
	// distinct IDs may carry the SAME content: each is still written once ("a" and "A" share theirs)
	if id == "a" || id == "A" || id == "Aa" || id == "aB" {
		return "<shared content>"
	}
	// an ID that is a prefix of another one, with contents making up the difference:
	// "b"+"b<tail>" and "bb"+"<tail>" are the same text, the declarations are not the same
	if id == "b" {
		return "b<tail>"
	}
	if id == "bb" {
		return "<tail>"
	}
	if len(id)%2 == 0 {
		return "<" + id + "> 100% done %d %% %!s\n"
	}
	return "<" + id + ">"
}

func declsString(decls []generator.Declaration) string {
	var parts []string
	for _, d := range decls {
		p := "-"
		if d.Priority {
			p = "P"
		}
		parts = append(parts, fmt.Sprintf("%q%s", d.ID, p))
	}
	return "[" + strings.Join(parts, " ") + "]"
}

type c19case struct {
	decls []generator.Declaration
	label string
}

func c19run(rep *core.Report, c c19case) {
	in := append([]generator.Declaration(nil), c.decls...)
	want := referenceWrite(c.decls)
	got, pan := safeWrite(in)
	rep.Count("calls", 1)
	ids := map[string]bool{}
	mixed := false
	prioOf := map[string]bool{}
	for _, d := range c.decls {
		if was, seen := prioOf[d.ID]; seen && was != d.Priority {
			mixed = true
		}
		prioOf[d.ID] = d.Priority
		ids[d.ID] = true
	}
	if len(ids) >= 2 && (len(ids) < len(c.decls) || mixed) {
		rep.Distinct(declsString(c.decls))
	}
	if pan != "" {
		rep.Violatef("panic", c.label, map[string]string{"input.txt": declsString(c.decls)}, "WriteDeclarations panicked on %s: %s", declsString(c.decls), pan)
		return
	}
	if got != want {
		sig := "output-differs-from-reference"
		if len(c.decls) > 12 {
			sig = "output-differs-from-reference-long-list"
		}
		rep.Violatef(sig, c.label, map[string]string{
			"input.txt": declsString(c.decls), "got.txt": got, "want.txt": want,
		}, "WriteDeclarations(%s)\n got: %q\nwant: %q", declsString(c.decls), got, want)
	}
}

func safeWrite(in []generator.Declaration) (out string, pan string) {
	defer func() {
		if r := recover(); r != nil {
			pan = fmt.Sprint(r)
		}
	}()
	return generator.WriteDeclarations(in), ""
}

func checkC19(cfg *core.Config) int {
	rep := core.NewReport(cfg)

	// exhaustive part: every list up to length maxLen over alphabet x priority.
	// Since the space is closed under permutation, agreement with the
	// order-independent reference on every list is permutation invariance.
	alphabet := []string{"", "a", "A", "aa", "b", "bb"} // "a"/"A": IDs differing by case only are distinct
	maxLen := cfg.Pick(5, 7)
	symbols := len(alphabet) * 2
	total := 0
	{
		var wg sync.WaitGroup
		work := make(chan []int, 1024)
		for w := 0; w < runtime.NumCPU(); w++ {
			wg.Add(1)
			go func() {
				defer wg.Done()
				for idx := range work {
					decls := make([]generator.Declaration, len(idx))
					for i, s := range idx {
						id := alphabet[s/2]
						decls[i] = generator.Declaration{ID: id, Content: contentFor(id), Priority: s%2 == 1}
					}
					c19run(rep, c19case{decls: decls, label: "exh-" + declsString(decls)})
				}
			}()
		}
		var gen func(prefix []int, n int)
		gen = func(prefix []int, n int) {
			if len(prefix) == n {
				work <- append([]int(nil), prefix...)
				total++
				return
			}
			for s := 0; s < symbols; s++ {
				gen(append(prefix, s), n)
			}
		}
		for n := 0; n <= maxLen; n++ {
			gen(nil, n)
		}
		close(work)
		wg.Wait()
	}
	rep.Count("exhaustive_lists", total)

	// random part: long lists (the sorting routines switch algorithm above 12
	// elements, where instability becomes observable), plus permutations.
	nRandom := cfg.Pick(4000, 150000)
	rng := core.Rand(cfg.Seed, "C19")
	pool := []string{"", "a", "aa", "ab", "b", "bb", "Ar10_Int", "Ar2_Int", "Ar9_Int", "v01", "v1", "A", "Aa", "AB", "aB", "B", "Z", "_x", "__header", "aa_header", "zz_", "é", "a b", "10", "9", "A.b", "ac_constraints", "ab_T", "aaa_C"}
	perms := 0
	for i := 0; i < nRandom; i++ {
		n := 1 + rng.Intn(60)
		if i%3 == 0 {
			n = 13 + rng.Intn(80)
		}
		k := 1 + rng.Intn(len(pool))
		decls := make([]generator.Declaration, n)
		prioBias := rng.Intn(3) // 0: random per occurrence, 1: determined by ID, 2: rare priority
		for j := range decls {
			id := pool[rng.Intn(k)]
			var p bool
			switch prioBias {
			case 0:
				p = rng.Intn(2) == 0
			case 1:
				p = len(id)%2 == 0
			default:
				p = rng.Intn(8) == 0
			}
			decls[j] = generator.Declaration{ID: id, Content: contentFor(id), Priority: p}
		}
		c19run(rep, c19case{decls: decls, label: fmt.Sprintf("rand-%d", i)})
		// a few permutations of the same multiset must give the same text as well
		for p := 0; p < 3; p++ {
			sh := append([]generator.Declaration(nil), decls...)
			rand.New(rand.NewSource(rng.Int63())).Shuffle(len(sh), func(a, b int) { sh[a], sh[b] = sh[b], sh[a] })
			c19run(rep, c19case{decls: sh, label: fmt.Sprintf("rand-%d-perm-%d", i, p)})
			perms++
		}
		if i < 3 {
			rep.Sample(6, map[string]any{"input": declsString(decls), "output": referenceWrite(decls)})
		}
	}
	rep.Count("random_lists", nRandom)
	rep.Count("random_permutations", perms)
	rep.Sample(6, map[string]any{"input": `["a"- "a"P "B"-]`, "output": referenceWrite([]generator.Declaration{{ID: "a", Content: contentFor("a")}, {ID: "a", Content: contentFor("a"), Priority: true}, {ID: "B", Content: contentFor("B")}})})

	return rep.Finish(core.Evidence{
		Level:       "exploration",
		Evaluations: rep.Counter("calls"),
		Exhaustive:  true,
		Rule: fmt.Sprintf("exhaustive: every declaration list of length 0..%d over IDs %q x priority {true,false}, content determined by ID (the space is closed under permutation); random: %d lists of length 1..92 over a pool of %d IDs with 3 random permutations each. Each output is compared with an order-independent reference implementation. A case counts as distinct non-trivial when it has >=2 distinct IDs and a duplicated ID or an ID with mixed priorities.", maxLen, alphabet, nRandom, len(pool)),
		Assumptions: []string{"equal IDs carry equal content (the property's precondition); some distinct IDs share one content", "reference implementation in monitors/c19.go is the specification"},
		Extra:       map[string]any{"exhaustive_max_len": maxLen, "alphabet": alphabet},
	})
}
