package monitors

import (
	"encoding/json"
	"os"
	"path/filepath"
	"sort"
	"strings"

	"verif/core"
	"verif/synth"
)

// pinnedPrograms loads the hand-written programs under /verif/findings/pinned/
// that are registered for the property. Layout:
//
//	findings/pinned/<name>/pinned.json   {"properties":["C18"],"sources":["models.go"],"family":"typeprog"}
//	findings/pinned/<name>/**/*.go       package files (package clause must be `package <name>`)
func pinnedPrograms(prop string) []*synth.Program {
	return programsUnder(filepath.Join(core.VerifDir, "findings", "pinned"), prop, true)
}

// staticPrograms loads the hand-written programs under /verif/programs/ registered for the
// property (same layout): shapes the synthesisers cannot print (two declarations on one
// line, //line directives, a user package named like a standard one).
func staticPrograms(prop string) []*synth.Program {
	return programsUnder(filepath.Join(core.VerifDir, "programs"), prop, false)
}

func programsUnder(base, prop string, pinned bool) []*synth.Program {
	entries, err := os.ReadDir(base)
	if err != nil {
		return nil
	}
	var out []*synth.Program
	for _, e := range entries {
		if !e.IsDir() {
			continue
		}
		dir := filepath.Join(base, e.Name())
		b, err := os.ReadFile(filepath.Join(dir, "pinned.json"))
		if err != nil {
			continue
		}
		var meta struct {
			Properties []string       `json:"properties"`
			Sources    []string       `json:"sources"`
			Family     string         `json:"family"`
			Meta       map[string]any `json:"meta"`
		}
		if json.Unmarshal(b, &meta) != nil {
			continue
		}
		ok := false
		for _, p := range meta.Properties {
			if p == prop {
				ok = true
			}
		}
		if !ok {
			continue
		}
		id := e.Name()
		p := &synth.Program{ID: id, Family: meta.Family, Root: &synth.Pkg{Name: id, Path: synth.ModulePath + "/" + id, Dir: id}, RawFiles: map[string]string{}, Meta: meta.Meta}
		if p.Meta == nil {
			p.Meta = map[string]any{}
		}
		if pinned {
			p.Meta["pinned"] = true
		} else {
			p.Meta["static"] = true
		}
		filepath.Walk(dir, func(path string, info os.FileInfo, err error) error {
			if err != nil || info.IsDir() || !strings.HasSuffix(path, ".go") {
				return nil
			}
			rel, _ := filepath.Rel(dir, path)
			c, _ := os.ReadFile(path)
			p.RawFiles[filepath.Join(id, rel)] = string(c)
			return nil
		})
		for _, s := range meta.Sources {
			p.Sources = append(p.Sources, filepath.Join(id, s))
		}
		sort.Strings(p.Sources)
		if pinned {
			p.Feature("pinned-program")
		} else {
			p.Feature("static-program:" + id)
		}
		out = append(out, p)
	}
	return out
}
