package pq

import (
	"database/sql"
	"database/sql/driver"
	"reflect"
	"testing"
	"time"
)

// compile-time interface checks
var (
	_ sql.Scanner   = (*Int64Array)(nil)
	_ sql.Scanner   = (*Int32Array)(nil)
	_ sql.Scanner   = (*Float64Array)(nil)
	_ sql.Scanner   = (*BoolArray)(nil)
	_ sql.Scanner   = (*StringArray)(nil)
	_ sql.Scanner   = (*NullTime)(nil)
	_ driver.Valuer = Int64Array(nil)
	_ driver.Valuer = Int32Array(nil)
	_ driver.Valuer = Float64Array(nil)
	_ driver.Valuer = BoolArray(nil)
	_ driver.Valuer = StringArray(nil)
	_ driver.Valuer = NullTime{}
)

func TestArrayValue(t *testing.T) {
	cases := []struct {
		name string
		v    driver.Valuer
		want driver.Value
	}{
		{"int64 nil", Int64Array(nil), nil},
		{"int64 empty", Int64Array{}, "{}"},
		{"int64", Int64Array{1, -2, 9223372036854775807}, "{1,-2,9223372036854775807}"},
		{"int32 nil", Int32Array(nil), nil},
		{"int32 empty", Int32Array{}, "{}"},
		{"int32", Int32Array{1, -2147483648}, "{1,-2147483648}"},
		{"float nil", Float64Array(nil), nil},
		{"float empty", Float64Array{}, "{}"},
		{"float", Float64Array{1, 1.5, -0.25, 1e21, 1e-7}, "{1,1.5,-0.25,1000000000000000000000,0.0000001}"},
		{"bool nil", BoolArray(nil), nil},
		{"bool empty", BoolArray{}, "{}"},
		{"bool one", BoolArray{true}, "{t}"},
		{"bool", BoolArray{true, false, true}, "{t,f,t}"},
		{"string nil", StringArray(nil), nil},
		{"string empty", StringArray{}, "{}"},
		{"string", StringArray{"a", "", "a b", `c"d`, `e\f`, "NULL", "{x,y}", "é"}, `{"a","","a b","c\"d","e\\f","NULL","{x,y}","é"}`},
	}
	for _, c := range cases {
		t.Run(c.name, func(t *testing.T) {
			got, err := c.v.Value()
			if err != nil {
				t.Fatal(err)
			}
			if !reflect.DeepEqual(got, c.want) {
				t.Fatalf("got %#v want %#v", got, c.want)
			}
			if got != nil {
				if _, ok := got.(string); !ok {
					t.Fatalf("Value must be a string like lib/pq, got %T", got)
				}
			}
		})
	}
}

func TestArrayScan(t *testing.T) {
	type scanCase struct {
		name string
		src  any
		dst  sql.Scanner
		want any // expected *dst, nil => error expected
	}
	cases := []scanCase{
		{"int64 bytes", []byte("{1,2,-3}"), &Int64Array{}, Int64Array{1, 2, -3}},
		{"int64 string", "{1,2}", &Int64Array{}, Int64Array{1, 2}},
		{"int64 nil", nil, &Int64Array{5}, Int64Array(nil)},
		{"int64 empty into nil", "{}", new(Int64Array), Int64Array{}},
		{"int64 empty into non nil", "{}", &Int64Array{7, 8}, Int64Array{}},
		{"int64 quoted", `{"1","2"}`, &Int64Array{}, Int64Array{1, 2}},
		{"int64 NULL element", "{1,NULL}", &Int64Array{}, nil},
		{"int64 bad element", "{1,x}", &Int64Array{}, nil},
		{"int64 float element", "{1.5}", &Int64Array{}, nil},
		{"int64 overflow", "{9223372036854775808}", &Int64Array{}, nil},
		{"int64 multi dim", "{{1,2},{3,4}}", &Int64Array{}, nil},
		{"int64 no brace", "1,2", &Int64Array{}, nil},
		{"int64 unterminated", "{1,2", &Int64Array{}, nil},
		{"int64 trailing", "{1,2}x", &Int64Array{}, nil},
		{"int64 empty element", "{1,,2}", &Int64Array{}, nil},
		{"int64 empty string", "", &Int64Array{}, nil},
		{"int64 wrong type", int64(1), &Int64Array{}, nil},
		{"int64 wrong type slice", []int64{1}, &Int64Array{}, nil},
		{"int32", "{1,-2}", &Int32Array{}, Int32Array{1, -2}},
		{"int32 nil", nil, &Int32Array{1}, Int32Array(nil)},
		{"int32 overflow", "{2147483648}", &Int32Array{}, nil},
		{"int32 wrong type", 1.5, &Int32Array{}, nil},
		{"int32 multi dim", "{{1}}", &Int32Array{}, nil},
		{"float", "{1,1.5,-2e3}", &Float64Array{}, Float64Array{1, 1.5, -2000}},
		{"float nil", nil, &Float64Array{1}, Float64Array(nil)},
		{"float bad", "{a}", &Float64Array{}, nil},
		{"float wrong type", true, &Float64Array{}, nil},
		{"bool", "{t,f,t}", &BoolArray{}, BoolArray{true, false, true}},
		{"bool bytes", []byte("{f}"), &BoolArray{}, BoolArray{false}},
		{"bool nil", nil, &BoolArray{true}, BoolArray(nil)},
		{"bool long form", "{true}", &BoolArray{}, nil},
		{"bool bad", "{x}", &BoolArray{}, nil},
		{"bool NULL", "{NULL}", &BoolArray{}, nil},
		{"bool wrong type", 1, &BoolArray{}, nil},
		{"string", `{"a b","c\"d","e\\f",plain,""}`, &StringArray{}, StringArray{"a b", `c"d`, `e\f`, "plain", ""}},
		{"string quoted NULL is a string", `{"NULL"}`, &StringArray{}, StringArray{"NULL"}},
		{"string NULL element", `{"a",NULL}`, &StringArray{}, nil},
		{"string nil", nil, &StringArray{"x"}, StringArray(nil)},
		{"string empty", "{}", &StringArray{}, StringArray{}},
		{"string with braces and commas", `{"{x,y}","a,b"}`, &StringArray{}, StringArray{"{x,y}", "a,b"}},
		{"string unterminated quote", `{"a}`, &StringArray{}, nil},
		{"string multi dim", `{{"a"},{"b"}}`, &StringArray{}, nil},
		{"string wrong type", time.Time{}, &StringArray{}, nil},
	}
	for _, c := range cases {
		t.Run(c.name, func(t *testing.T) {
			err := c.dst.Scan(c.src)
			if c.want == nil {
				if err == nil {
					t.Fatalf("expected an error, got %v", reflect.ValueOf(c.dst).Elem().Interface())
				}
				return
			}
			if err != nil {
				t.Fatalf("unexpected error: %v", err)
			}
			got := reflect.ValueOf(c.dst).Elem().Interface()
			if !reflect.DeepEqual(got, c.want) {
				t.Fatalf("got %#v want %#v", got, c.want)
			}
		})
	}
}

func TestArrayRoundTrip(t *testing.T) {
	in := StringArray{"", "a", `"`, `\`, `\"`, "NULL", "null", " ", ",", "{", "}", "a\nb", "日本"}
	v, err := in.Value()
	if err != nil {
		t.Fatal(err)
	}
	var out StringArray
	if err := out.Scan(v); err != nil {
		t.Fatal(err)
	}
	if !reflect.DeepEqual(in, out) {
		t.Fatalf("got %#v", out)
	}
	ints := Int64Array{0, -1, 1 << 40}
	v, _ = ints.Value()
	var back Int64Array
	if err := back.Scan([]byte(v.(string))); err != nil || !reflect.DeepEqual(ints, back) {
		t.Fatalf("%v %v", back, err)
	}
	fl := Float64Array{0.1, -3, 1e100}
	v, _ = fl.Value()
	var fb Float64Array
	if err := fb.Scan(v); err != nil || !reflect.DeepEqual(fl, fb) {
		t.Fatalf("%v %v", fb, err)
	}
	bs := BoolArray{true, false}
	v, _ = bs.Value()
	var bb BoolArray
	if err := bb.Scan(v); err != nil || !reflect.DeepEqual(bs, bb) {
		t.Fatalf("%v %v", bb, err)
	}
}

func TestNullTime(t *testing.T) {
	now := time.Date(2024, 3, 4, 5, 6, 7, 0, time.UTC)
	var nt NullTime
	if err := nt.Scan(now); err != nil || !nt.Valid || !nt.Time.Equal(now) {
		t.Fatalf("%+v %v", nt, err)
	}
	v, err := nt.Value()
	if err != nil || v != now {
		t.Fatalf("%v %v", v, err)
	}
	if err := nt.Scan(nil); err != nil || nt.Valid || !nt.Time.IsZero() {
		t.Fatalf("%+v %v", nt, err)
	}
	v, err = nt.Value()
	if err != nil || v != nil {
		t.Fatalf("%v %v", v, err)
	}
	for _, bad := range []any{"2024-01-01", []byte("x"), int64(1), 1.5, true} {
		nt = NullTime{Time: now, Valid: true}
		if err := nt.Scan(bad); err == nil || nt.Valid {
			t.Errorf("Scan(%T) should fail and leave an invalid value: %+v %v", bad, nt, err)
		}
	}
	if v, _ := (NullTime{Time: now}).Value(); v != nil {
		t.Errorf("invalid NullTime must give nil, got %v", v)
	}
}

func TestCopyInAndQuoting(t *testing.T) {
	cases := []struct {
		table string
		cols  []string
		want  string
	}{
		{"links", []string{"repas", "idtable1"}, `COPY "links" ("repas", "idtable1") FROM STDIN`},
		{"t", []string{"a"}, `COPY "t" ("a") FROM STDIN`},
		{"t", nil, `COPY "t" () FROM STDIN`},
		{`we"ird`, []string{`c"1`, "Mixed Case"}, `COPY "we""ird" ("c""1", "Mixed Case") FROM STDIN`},
	}
	for _, c := range cases {
		if got := CopyIn(c.table, c.cols...); got != c.want {
			t.Errorf("got %s want %s", got, c.want)
		}
	}
	if got := CopyInSchema("s", "t", "a", "b"); got != `COPY "s"."t" ("a", "b") FROM STDIN` {
		t.Error(got)
	}
	for in, want := range map[string]string{"a": `"a"`, `a"b`: `"a""b"`, "": `""`, "a\x00b": `"a"`, "Id": `"Id"`} {
		if got := QuoteIdentifier(in); got != want {
			t.Errorf("QuoteIdentifier(%q) = %s want %s", in, got, want)
		}
	}
	for in, want := range map[string]string{"a": `'a'`, "a'b": `'a''b'`, `a\b`: ` E'a\\b'`} {
		if got := QuoteLiteral(in); got != want {
			t.Errorf("QuoteLiteral(%q) = %s want %s", in, got, want)
		}
	}
}
