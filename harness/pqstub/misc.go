package pq

import (
	"database/sql/driver"
	"fmt"
	"strings"
	"time"
)

// NullTime represents a time.Time that may be null.
type NullTime struct {
	Time  time.Time
	Valid bool // Valid is true if Time is not NULL
}

// Scan implements the Scanner interface. A time.Time or nil is accepted.
// (Real lib/pq silently turns any other source into an invalid NullTime; the
// stand-in reports it instead, which can only make a misuse visible.)
func (nt *NullTime) Scan(value interface{}) error {
	switch v := value.(type) {
	case time.Time:
		nt.Time, nt.Valid = v, true
		return nil
	case nil:
		nt.Time, nt.Valid = time.Time{}, false
		return nil
	}
	nt.Time, nt.Valid = time.Time{}, false
	return fmt.Errorf("pq: cannot convert %T to NullTime", value)
}

// Value implements the driver Valuer interface.
func (nt NullTime) Value() (driver.Value, error) {
	if !nt.Valid {
		return nil, nil
	}
	return nt.Time, nil
}

// QuoteIdentifier quotes an "identifier" (e.g. a table or a column name) to
// be used as part of an SQL statement. Any double quotes in name are
// escaped; the name is truncated at the first NUL byte.
func QuoteIdentifier(name string) string {
	end := strings.IndexRune(name, 0)
	if end > -1 {
		name = name[:end]
	}
	return `"` + strings.Replace(name, `"`, `""`, -1) + `"`
}

// QuoteLiteral quotes a 'literal' to be used as part of an SQL statement.
func QuoteLiteral(literal string) string {
	literal = strings.Replace(literal, `'`, `''`, -1)
	if strings.Contains(literal, `\`) {
		literal = strings.Replace(literal, `\`, `\\`, -1)
		literal = ` E'` + literal + `'`
	} else {
		literal = `'` + literal + `'`
	}
	return literal
}

// CopyIn creates a COPY FROM statement which can be prepared with Tx.Prepare().
func CopyIn(table string, columns ...string) string {
	var sb strings.Builder
	sb.WriteString("COPY ")
	sb.WriteString(QuoteIdentifier(table))
	sb.WriteString(" (")
	for i, c := range columns {
		if i != 0 {
			sb.WriteString(", ")
		}
		sb.WriteString(QuoteIdentifier(c))
	}
	sb.WriteString(") FROM STDIN")
	return sb.String()
}

// CopyInSchema creates a COPY FROM statement for a schema-qualified table.
func CopyInSchema(schema, table string, columns ...string) string {
	var sb strings.Builder
	sb.WriteString("COPY ")
	sb.WriteString(QuoteIdentifier(schema))
	sb.WriteString(".")
	sb.WriteString(QuoteIdentifier(table))
	sb.WriteString(" (")
	for i, c := range columns {
		if i != 0 {
			sb.WriteString(", ")
		}
		sb.WriteString(QuoteIdentifier(c))
	}
	sb.WriteString(") FROM STDIN")
	return sb.String()
}
