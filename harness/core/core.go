// Package core holds what every check shares: configuration from the
// environment, the splittable PRNG, the violation report with the
// known-findings discipline, replay directories and the evidence writer.
package core

import (
	"encoding/json"
	"fmt"
	"hash/fnv"
	"math/rand"
	"os"
	"path/filepath"
	"sort"
	"strconv"
	"strings"
	"sync"
	"time"
)

const VerifDir = "/verif"

// Config is read once from the environment.
type Config struct {
	Prop   string
	Tier   string // quick | thorough
	Seed   int64
	Replay string // --replay <dir>, optional
	Start  time.Time
}

func NewConfig(prop string) *Config {
	c := &Config{Prop: prop, Tier: "quick", Seed: 1, Start: time.Now()}
	if t := os.Getenv("VERIF_TIER"); t == "thorough" {
		c.Tier = "thorough"
	}
	if s := os.Getenv("VERIF_SEED"); s != "" {
		if v, err := strconv.ParseInt(s, 10, 64); err == nil {
			c.Seed = v
		}
	}
	return c
}

func (c *Config) Thorough() bool { return c.Tier == "thorough" }

// Pick returns q for the quick tier and t for the thorough one.
func (c *Config) Pick(q, t int) int {
	if c.Thorough() {
		return t
	}
	return q
}

// Rand returns a PRNG determined by (seed, labels...): any case can be
// regenerated from its coordinates, independent of the order of generation.
func Rand(seed int64, labels ...any) *rand.Rand {
	h := fnv.New64a()
	fmt.Fprintf(h, "%d", seed)
	for _, l := range labels {
		fmt.Fprintf(h, "|%v", l)
	}
	return rand.New(rand.NewSource(int64(h.Sum64())))
}

// ---------------------------------------------------------------------------
// known findings

type Finding struct {
	Property    string `json:"property"`
	Signature   string `json:"signature"`
	What        string `json:"what"`
	PinnedInput string `json:"pinned_input,omitempty"`
	Status      string `json:"status"` // open | fixed
	Commit      string `json:"commit,omitempty"`
}

type findingsFile struct {
	Findings []Finding `json:"findings"`
}

func LoadFindings() []Finding {
	b, err := os.ReadFile(filepath.Join(VerifDir, "findings", "known-findings.json"))
	if err != nil {
		return nil
	}
	var f findingsFile
	if err := json.Unmarshal(b, &f); err != nil {
		fmt.Fprintln(os.Stderr, "HARNESS: cannot parse known-findings.json:", err)
		os.Exit(3)
	}
	return f.Findings
}

// ---------------------------------------------------------------------------
// report

// Violation is one observed refutation of the property.
type Violation struct {
	Signature string            // cause-based, input independent
	Message   string            // human readable witness
	Case      string            // case id (program / history / ...)
	Files     map[string]string // replay artefacts: relative path -> content
}

type Report struct {
	Cfg *Config

	mu           sync.Mutex
	violations   []Violation
	inconclusive []string
	counters     map[string]int
	samples      []any
	distinct     map[string]bool
	notes        []string
}

func NewReport(cfg *Config) *Report {
	return &Report{Cfg: cfg, counters: map[string]int{}, distinct: map[string]bool{}}
}

func (r *Report) Violate(v Violation) {
	r.mu.Lock()
	defer r.mu.Unlock()
	r.violations = append(r.violations, v)
}

func (r *Report) Violatef(sig, caseID string, files map[string]string, format string, args ...any) {
	r.Violate(Violation{Signature: sig, Case: caseID, Files: files, Message: fmt.Sprintf(format, args...)})
}

// Inconclusive records something that prevents a verdict (watchdog, nothing
// observed, harness inconsistency). It is never folded into held/violated.
func (r *Report) Inconclusive(format string, args ...any) {
	r.mu.Lock()
	defer r.mu.Unlock()
	r.inconclusive = append(r.inconclusive, fmt.Sprintf(format, args...))
}

func (r *Report) Count(key string, n int) {
	r.mu.Lock()
	defer r.mu.Unlock()
	r.counters[key] += n
}

func (r *Report) Counter(key string) int {
	r.mu.Lock()
	defer r.mu.Unlock()
	return r.counters[key]
}

// Distinct records a non-trivial distinct case key; returns true when new.
func (r *Report) Distinct(key string) bool {
	r.mu.Lock()
	defer r.mu.Unlock()
	if r.distinct[key] {
		return false
	}
	r.distinct[key] = true
	return true
}

func (r *Report) NumDistinct() int {
	r.mu.Lock()
	defer r.mu.Unlock()
	return len(r.distinct)
}

// Sample keeps at most max samples for the evidence file.
func (r *Report) Sample(max int, s any) {
	r.mu.Lock()
	defer r.mu.Unlock()
	if len(r.samples) < max {
		r.samples = append(r.samples, s)
	}
}

func (r *Report) Note(format string, args ...any) {
	r.mu.Lock()
	defer r.mu.Unlock()
	r.notes = append(r.notes, fmt.Sprintf(format, args...))
}

// Evidence is what Finish writes besides the counters.
type Evidence struct {
	Level       string // exploration, ...
	Evaluations int
	Rule        string
	Assumptions []string
	Extra       map[string]any
	Exhaustive  bool
}

// Finish prints the verdict lines, writes evidence and returns the exit code.
func (r *Report) Finish(ev Evidence) int {
	cfg := r.Cfg
	known := map[string]Finding{}
	for _, f := range LoadFindings() {
		if f.Property == cfg.Prop && f.Status == "open" {
			known[f.Signature] = f
		}
	}

	// group by signature
	bySig := map[string][]Violation{}
	var sigs []string
	for _, v := range r.violations {
		if _, ok := bySig[v.Signature]; !ok {
			sigs = append(sigs, v.Signature)
		}
		bySig[v.Signature] = append(bySig[v.Signature], v)
	}
	sort.Strings(sigs)

	replayRoot := filepath.Join(VerifDir, "evidence", "replay", cfg.Prop)
	os.RemoveAll(replayRoot)

	unknown := 0
	knownSeen := 0
	var violationSummaries []any
	for _, sig := range sigs {
		vs := bySig[sig]
		if f, ok := known[sig]; ok {
			knownSeen++
			fmt.Printf("KNOWN-FINDING: property=%s %s [signature=%s; seen %d time(s) in this run, e.g. case %s]\n", cfg.Prop, f.What, sig, len(vs), vs[0].Case)
			violationSummaries = append(violationSummaries, map[string]any{"signature": sig, "known": true, "count": len(vs), "example": trunc(vs[0].Message, 400)})
			continue
		}
		unknown++
		if unknown > 5 {
			fmt.Printf("VIOLATION property=%s replay=%s (signature=%s, %d case(s); replay directory not written: more than 5 signatures)\n", cfg.Prop, replayRoot, sig, len(vs))
			continue
		}
		dir := filepath.Join(replayRoot, sanitize(sig))
		writeReplay(dir, cfg, sig, vs)
		fmt.Printf("VIOLATION property=%s replay=%s\n", cfg.Prop, dir)
		fmt.Printf("  signature=%s cases=%d first: %s\n", sig, len(vs), trunc(vs[0].Message, 1500))
		violationSummaries = append(violationSummaries, map[string]any{"signature": sig, "known": false, "count": len(vs), "example": trunc(vs[0].Message, 400)})
	}

	wall := time.Since(cfg.Start).Seconds()
	cov := map[string]any{
		"evaluations":         ev.Evaluations,
		"distinct_nontrivial": len(r.distinct),
		"rule":                ev.Rule,
		"samples":             r.samples,
		"counters":            r.counters,
	}
	if ev.Exhaustive {
		cov["exhaustive"] = true
	}
	for k, v := range ev.Extra {
		cov[k] = v
	}
	if len(r.notes) > 0 {
		cov["notes"] = r.notes
	}
	if len(r.inconclusive) > 0 {
		cov["inconclusive"] = r.inconclusive
	}
	if len(violationSummaries) > 0 {
		cov["violation_signatures"] = violationSummaries
	}
	if cov["samples"] == nil || len(r.samples) == 0 {
		cov["samples"] = []any{"(no sample recorded)"}
	}
	level := ev.Level
	if level == "" {
		level = "exploration"
	}
	out := map[string]any{
		"property_id": cfg.Prop,
		"tier":        cfg.Tier,
		"seed":        cfg.Seed,
		"level":       level,
		"coverage":    cov,
		"assumptions": ev.Assumptions,
		"wall_s":      wall,
		"violations":  unknown,
		"known_findings_seen": knownSeen,
	}
	b, _ := json.MarshalIndent(out, "", " ")
	evPath := filepath.Join(VerifDir, "evidence", cfg.Prop+".json")
	os.MkdirAll(filepath.Dir(evPath), 0o755)
	if err := os.WriteFile(evPath, append(b, '\n'), 0o644); err != nil {
		fmt.Fprintln(os.Stderr, "HARNESS: cannot write evidence:", err)
		return 3
	}

	if unknown > 0 {
		return 1
	}
	if len(r.inconclusive) > 0 {
		for _, s := range r.inconclusive {
			fmt.Printf("INCONCLUSIVE property=%s %s\n", cfg.Prop, s)
		}
		return 3
	}
	if ev.Evaluations == 0 || len(r.distinct) < 2 {
		fmt.Printf("INCONCLUSIVE property=%s the monitors observed too little (evaluations=%d distinct=%d)\n", cfg.Prop, ev.Evaluations, len(r.distinct))
		return 3
	}
	fmt.Printf("HELD property=%s tier=%s seed=%d evaluations=%d distinct=%d known_findings_seen=%d wall=%.1fs\n",
		cfg.Prop, cfg.Tier, cfg.Seed, ev.Evaluations, len(r.distinct), knownSeen, wall)
	return 0
}

func writeReplay(dir string, cfg *Config, sig string, vs []Violation) {
	os.MkdirAll(dir, 0o755)
	var sb strings.Builder
	fmt.Fprintf(&sb, "# Replay for %s\n\nsignature: `%s`\n\n", cfg.Prop, sig)
	fmt.Fprintf(&sb, "Re-run the whole check with the same coordinates:\n\n    cd /verif && VERIF_TIER=%s VERIF_SEED=%d ./check.sh %s\n\n", cfg.Tier, cfg.Seed, cfg.Prop)
	fmt.Fprintf(&sb, "Re-run only the case(s) stored here:\n\n    cd /verif && ./check.sh %s --replay %s\n\n", cfg.Prop, dir)
	for i, v := range vs {
		if i >= 3 {
			fmt.Fprintf(&sb, "\n(%d more cases with the same signature)\n", len(vs)-3)
			break
		}
		fmt.Fprintf(&sb, "## case %s\n\n```\n%s\n```\n\n", v.Case, v.Message)
		for name, content := range v.Files {
			p := filepath.Join(dir, sanitize(v.Case), name)
			os.MkdirAll(filepath.Dir(p), 0o755)
			os.WriteFile(p, []byte(content), 0o644)
		}
	}
	os.WriteFile(filepath.Join(dir, "REPLAY.md"), []byte(sb.String()), 0o644)
}

func sanitize(s string) string {
	var sb strings.Builder
	for _, c := range s {
		switch {
		case c >= 'a' && c <= 'z', c >= 'A' && c <= 'Z', c >= '0' && c <= '9', c == '-', c == '_', c == '.':
			sb.WriteRune(c)
		default:
			sb.WriteByte('_')
		}
	}
	out := sb.String()
	if len(out) > 120 {
		h := fnv.New32a()
		h.Write([]byte(s))
		out = out[:100] + fmt.Sprintf("_%08x", h.Sum32())
	}
	if out == "" {
		out = "case"
	}
	return out
}

func trunc(s string, n int) string {
	if len(s) <= n {
		return s
	}
	return s[:n] + "...(truncated)"
}

func Trunc(s string, n int) string { return trunc(s, n) }
