package core

import (
	"bytes"
	"context"
	"fmt"
	"os"
	"os/exec"
	"path/filepath"
	"strings"
	"time"
)

// HarnessDir is the root of the harness Go module.
const HarnessDir = VerifDir + "/harness"

// Scratch creates a scratch directory outside /repo and /verif. The caller removes it.
func Scratch(prefix string) string {
	dir, err := os.MkdirTemp("", "verif-"+prefix+"-")
	if err != nil {
		fmt.Fprintln(os.Stderr, "HARNESS: cannot create scratch dir:", err)
		os.Exit(3)
	}
	return dir
}

// GoEnv returns the environment for go commands (offline flags), with extra overrides.
func GoEnv(extra ...string) []string {
	env := []string{}
	skip := map[string]bool{"GOFLAGS": true, "GOPROXY": true, "GOSUMDB": true, "GOTOOLCHAIN": true}
	for _, kv := range extra {
		k, _, _ := strings.Cut(kv, "=")
		skip[k] = true
	}
	for _, kv := range os.Environ() {
		k, _, _ := strings.Cut(kv, "=")
		if !skip[k] {
			env = append(env, kv)
		}
	}
	env = append(env, "GOFLAGS=-mod=mod", "GOPROXY=off", "GOSUMDB=off", "GOTOOLCHAIN=local")
	return append(env, extra...)
}

// CmdResult is the outcome of a child process.
type CmdResult struct {
	Out      string // combined stdout+stderr
	ExitCode int
	TimedOut bool
	Err      error
	Wall     time.Duration
}

// Run executes a command with a wall-clock watchdog. A watchdog firing is
// reported through TimedOut (callers treat it as inconclusive, never as a violation).
func Run(dir string, env []string, timeout time.Duration, name string, args ...string) CmdResult {
	ctx, cancel := context.WithTimeout(context.Background(), timeout)
	defer cancel()
	cmd := exec.CommandContext(ctx, name, args...)
	cmd.Dir = dir
	if env != nil {
		cmd.Env = env
	}
	var buf bytes.Buffer
	cmd.Stdout = &buf
	cmd.Stderr = &buf
	cmd.WaitDelay = 5 * time.Second
	start := time.Now()
	err := cmd.Run()
	res := CmdResult{Out: buf.String(), Err: err, Wall: time.Since(start)}
	if ctx.Err() == context.DeadlineExceeded {
		res.TimedOut = true
	}
	if cmd.ProcessState != nil {
		res.ExitCode = cmd.ProcessState.ExitCode()
	} else if err != nil {
		res.ExitCode = -1
	}
	return res
}

// BuildTool builds a command of the harness module into dir and returns its path.
func BuildTool(outDir, pkg string, race bool) (string, error) {
	out := filepath.Join(outDir, filepath.Base(pkg))
	args := []string{"build", "-o", out}
	env := GoEnv("CGO_ENABLED=0")
	if race {
		args = append(args, "-race")
		out += "-race"
		args[2] = out
		env = GoEnv("CGO_ENABLED=1")
	}
	args = append(args, pkg)
	res := Run(HarnessDir, env, 15*time.Minute, "go", args...)
	if res.Err != nil {
		return "", fmt.Errorf("go %s: %v\n%s", strings.Join(args, " "), res.Err, res.Out)
	}
	return out, nil
}
