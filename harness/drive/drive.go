// Package drive runs the real gomacro packages (from /repo's working tree) on
// synthesised programs inside worker processes, under recover(), and records
// what happened as JSON lines.
package drive

import (
	"crypto/sha256"
	"encoding/hex"
	"encoding/json"
	"fmt"
	"os"
	"path/filepath"
	"regexp"
	"runtime"
	"runtime/debug"
	"strings"

	"golang.org/x/tools/go/packages"
	"golang.org/x/tools/imports"

	"github.com/benoitkugler/gomacro/analysis"
	"github.com/benoitkugler/gomacro/analysis/httpapi"
	"github.com/benoitkugler/gomacro/generator"
	"github.com/benoitkugler/gomacro/generator/dart"
	"github.com/benoitkugler/gomacro/generator/go/gounions"
	"github.com/benoitkugler/gomacro/generator/go/randdata"
	"github.com/benoitkugler/gomacro/generator/go/sqlcrud"
	sqlgen "github.com/benoitkugler/gomacro/generator/sql"
	"github.com/benoitkugler/gomacro/generator/typescript"
)

// ProgRef identifies one program of the scratch module.
type ProgRef struct {
	ID      string          `json:"id"`
	Family  string          `json:"family"`
	Dir     string          `json:"dir"`     // absolute package directory of the root package
	Sources []string        `json:"sources"` // absolute paths of the files to analyse
	Meta    json.RawMessage `json:"meta,omitempty"`
}

// Job is what a worker receives.
type Job struct {
	Prop     string            `json:"prop"`
	ModRoot  string            `json:"mod_root"`
	OutDir   string            `json:"out_dir"` // generated texts are written to OutDir/<prog>/<target>
	Programs []ProgRef         `json:"programs"`
	Targets  []string          `json:"targets"` // gounions randdata sqlcrud sqlcrud-sets sql ts dart axios
	Oracles  []string          `json:"oracles"` // in-process oracles to run
	Opts     map[string]string `json:"opts,omitempty"`
	// WriteGoInPlace: write post-goimports Go outputs into the package directory (for the runner build)
	WriteGoInPlace bool `json:"write_go_in_place"`
	Repeat         int  `json:"repeat,omitempty"`
}

// Record is one output line of a worker.
type Record struct {
	Prog      string            `json:"prog,omitempty"`
	Kind      string            `json:"kind"` // begin | stage | violation | count | distinct | sample | note | done
	Stage     string            `json:"stage,omitempty"`
	Outcome   *Outcome          `json:"outcome,omitempty"`
	Signature string            `json:"signature,omitempty"`
	Message   string            `json:"message,omitempty"`
	Key       string            `json:"key,omitempty"`
	N         int               `json:"n,omitempty"`
	Data      any               `json:"data,omitempty"`
	Files     map[string]string `json:"files,omitempty"`
	Hash      string            `json:"hash,omitempty"`
	Path      string            `json:"path,omitempty"`
}

// Outcome classifies one guarded call.
type Outcome struct {
	OK      bool   `json:"ok"`
	Panic   string `json:"panic,omitempty"`   // recovered value, printed
	Runtime bool   `json:"runtime,omitempty"` // recovered value implements runtime.Error
	Where   string `json:"where,omitempty"`   // innermost gomacro function on the panicking stack
	Stack   string `json:"stack,omitempty"`
}

var reFrame = regexp.MustCompile(`(?m)^(github\.com/benoitkugler/gomacro/[^\s]+)\(`)

// Guard runs fn under recover and classifies a panic.
func Guard(fn func()) (out Outcome) {
	defer func() {
		if r := recover(); r != nil {
			out.OK = false
			out.Panic = fmt.Sprint(r)
			if len(out.Panic) > 600 {
				out.Panic = out.Panic[:600] + "..."
			}
			_, out.Runtime = r.(runtime.Error)
			st := string(debug.Stack())
			// frames after the panic() call
			if i := strings.Index(st, "panic("); i >= 0 {
				st = st[i:]
			}
			if m := reFrame.FindStringSubmatch(st); m != nil {
				w := strings.TrimPrefix(m[1], "github.com/benoitkugler/gomacro/")
				out.Where = w
			}
			if len(st) > 3000 {
				st = st[:3000]
			}
			out.Stack = st
		}
	}()
	fn()
	out.OK = true
	return out
}

// Signature of a failed outcome: cause based, input independent.
func (o Outcome) Signature() string {
	kind := "diagnostic"
	if o.Runtime {
		kind = "runtime-error"
	}
	msg := normalizeMsg(o.Panic)
	return kind + ":" + o.Where + ":" + msg
}

var (
	reDigits = regexp.MustCompile(`\d+`)
	reQuoted = regexp.MustCompile(`example\.com/synth/[\w/.\[\],* ]+`)
	reIdent  = regexp.MustCompile(`\b(t|s|r|u|g)\d{4}\b`)
)

// normalizeMsg strips program-specific identifiers from a message.
func normalizeMsg(s string) string {
	s = reQuoted.ReplaceAllString(s, "<type>")
	s = reDigits.ReplaceAllString(s, "N")
	if len(s) > 90 {
		s = s[:90]
	}
	return s
}

// ---------------------------------------------------------------------------

// Writer emits records.
type Writer struct{ f *os.File }

func NewWriter(path string) (*Writer, error) {
	f, err := os.OpenFile(path, os.O_CREATE|os.O_WRONLY|os.O_APPEND, 0o644)
	if err != nil {
		return nil, err
	}
	return &Writer{f: f}, nil
}

func (w *Writer) Emit(r Record) {
	b, err := json.Marshal(r)
	if err != nil {
		b, _ = json.Marshal(Record{Prog: r.Prog, Kind: "note", Message: "unmarshalable record: " + err.Error()})
	}
	w.f.Write(append(b, '\n'))
}

func (w *Writer) Close() { w.f.Close() }

func (w *Writer) Violation(prog, sig, msg string, files map[string]string) {
	w.Emit(Record{Prog: prog, Kind: "violation", Signature: sig, Message: msg, Files: files})
}
func (w *Writer) Count(key string, n int)  { w.Emit(Record{Kind: "count", Key: key, N: n}) }
func (w *Writer) Distinct(key string)      { w.Emit(Record{Kind: "distinct", Key: key}) }
func (w *Writer) Sample(data any)          { w.Emit(Record{Kind: "sample", Data: data}) }
func (w *Writer) Note(prog, msg string)    { w.Emit(Record{Prog: prog, Kind: "note", Message: msg}) }
func (w *Writer) Begin(prog, stage string) { w.Emit(Record{Prog: prog, Kind: "begin", Stage: stage}) }

// ---------------------------------------------------------------------------
// loading

type Loaded struct {
	Ref  ProgRef
	Pkgs []*packages.Package // one per source file
	Root string
	Err  error
}

// LoadAll loads every program of the job: one LoadSources call for all files
// (what the CLI does for a config with many files); falls back to per-program
// calls when the batch fails.
func LoadAll(progs []ProgRef) []*Loaded {
	out := make([]*Loaded, len(progs))
	var all []string
	for _, p := range progs {
		all = append(all, p.Sources...)
	}
	var pkgs []*packages.Package
	var root string
	var err error
	oc := Guard(func() { pkgs, root, err = analysis.LoadSources(all) })
	if oc.OK && err == nil && len(pkgs) == len(all) {
		k := 0
		for i, p := range progs {
			out[i] = &Loaded{Ref: p, Pkgs: pkgs[k : k+len(p.Sources)], Root: root}
			k += len(p.Sources)
		}
		return out
	}
	for i, p := range progs {
		l := &Loaded{Ref: p}
		oc := Guard(func() { l.Pkgs, l.Root, l.Err = analysis.LoadSources(p.Sources) })
		if !oc.OK {
			l.Err = fmt.Errorf("LoadSources panicked: %s", oc.Panic)
		}
		out[i] = l
	}
	return out
}

// ---------------------------------------------------------------------------
// generation

// GenResult is the outcome of one generator on one program.
type GenResult struct {
	Target  string
	Outcome Outcome
	Text    string            // raw text (single-file targets)
	Files   map[string]string // dart: file name -> text
	GoFixed string            // Go targets: text after imports.Process
	GoErr   string            // imports.Process error (syntax error in generated code)
}

func Hash(s string) string {
	h := sha256.Sum256([]byte(s))
	return hex.EncodeToString(h[:])
}

// GoFileName is the file name a Go target is written to inside the package.
func GoFileName(target string) string {
	return "zz_gen_" + strings.ReplaceAll(target, "-", "_") + ".go"
}

// Generate runs one target on one analysis.
func Generate(target string, an *analysis.Analysis, pkgDir string) GenResult {
	res := GenResult{Target: target}
	res.Outcome = Guard(func() {
		switch target {
		case "gounions":
			res.Text = generator.WriteDeclarations(gounions.Generate(an))
		case "randdata":
			res.Text = generator.WriteDeclarations(randdata.Generate(an))
		case "sqlcrud":
			res.Text = generator.WriteDeclarations(sqlcrud.Generate(an, false))
		case "sqlcrud-sets":
			res.Text = generator.WriteDeclarations(sqlcrud.Generate(an, true))
		case "sql":
			res.Text = generator.WriteDeclarations(sqlgen.Generate(an))
		case "ts":
			res.Text = generator.WriteDeclarations(typescript.Generate(an))
		default:
			panic("harness: unknown target " + target)
		}
	})
	if res.Outcome.OK && IsGoTarget(target) {
		// the import-fixing pass the tool applies to Go output (goimports -w):
		// same library, default options, file name inside the package directory
		fixed, err := imports.Process(filepath.Join(pkgDir, GoFileName(target)), []byte(res.Text), nil)
		if err != nil {
			res.GoErr = err.Error()
		} else {
			res.GoFixed = string(fixed)
		}
	}
	return res
}

func IsGoTarget(t string) bool {
	return t == "gounions" || t == "randdata" || t == "sqlcrud" || t == "sqlcrud-sets"
}

// GenerateDart runs the Dart generator on several analyses.
func GenerateDart(root string, ans []*analysis.Analysis) GenResult {
	res := GenResult{Target: "dart", Files: map[string]string{}}
	res.Outcome = Guard(func() {
		for _, o := range dart.Generate(root, ans) {
			res.Files[o.Filename] = generator.WriteDeclarations(o.Content)
		}
	})
	return res
}

// GenerateAxios parses the routes of a file and generates the client.
func ParseRoutes(pkg *packages.Package, absFile, prefix string) (eps []httpapi.Endpoint, oc Outcome) {
	oc = Guard(func() { eps = httpapi.ParseEcho(pkg, absFile, prefix) })
	return
}

func GenerateAxios(eps []httpapi.Endpoint) GenResult {
	res := GenResult{Target: "axios"}
	res.Outcome = Guard(func() { res.Text = typescript.GenerateAxios(eps) })
	return res
}
