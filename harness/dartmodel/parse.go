package dartmodel

import (
	"strings"
)

// File is the model of one Dart source file.
type File struct {
	Name       string
	Imports    []string // URIs of `import 'x.dart';` directives, in order
	Classes    []*Class
	Typedefs   []*Typedef   // typedef N = T;
	Enums      []*Enum      // enum N { a, b }
	Extensions []*Extension // extension _NExt on N { ... }
	Functions  []*Function  // top-level functions, block or arrow bodied
	// Unknown lists the top-level chunks that were not understood (first 80
	// characters of the source text each). An import with a prefix or
	// combinators (`as`, `show`, `hide`, `deferred`) is recorded in Imports
	// AND here, since Program.Resolve does not model them.
	Unknown []string
	Tokens  []Token
}

// Class is a class declaration.
type Class struct {
	Name       string
	Abstract   bool     // `abstract` modifier present
	Modifiers  []string // all modifiers before `class` (abstract, sealed, base, interface, final, mixin)
	Extends    string
	With       []string
	Implements []string
	Fields     []*Field // instance fields, in order
	// Ctor is the unnamed generative constructor, nil if there is none.
	Ctor *Ctor
	// CtorParams are the parameter names of Ctor, in order (positional,
	// optional and named alike; see Ctor.Params for details such as `this.`).
	CtorParams []string
	Methods    []*Function
	// ConstLists are the `static const name = [ ... ];` members.
	ConstLists map[string][]Lit
	// Unknown lists the members not understood (named/factory constructors,
	// getters, setters, operators, static non-list fields, ...).
	Unknown []string
	Line    int
}

// Field is an instance field `[late] [final] T name [= init];`.
type Field struct {
	Type    string // source text, spaces removed; "" if omitted
	Name    string
	Final   bool
	Late    bool
	HasInit bool
	Line    int
}

// Ctor is an unnamed generative constructor.
type Ctor struct {
	Const  bool
	Params []Param
	Line   int
}

// Typedef is `typedef Name = Target;`.
type Typedef struct {
	Name   string
	Target string // type text, spaces removed, e.g. List<int>, Map<String,Foo>
	Line   int
}

// Enum is a simple enum declaration.
type Enum struct {
	Name   string
	Values []string
	Line   int
}

// Extension is `extension Name on On { ... }`.
type Extension struct {
	Name, On   string
	ConstLists map[string][]Lit // `static const _values = [ 1, 2, "a" ];` name -> literals
	Methods    []*Function
	Unknown    []string // members not understood
	Body       []Token  // tokens between the braces
	Line       int
}

// Lit is one element of a constant list literal.
type Lit struct {
	Kind string // "int", "double", "string", "bool", "other"
	// Text is the source text for numbers (including a leading minus sign), the
	// unescaped content for strings, true/false for bools and the source text
	// (tokens joined by one space) otherwise.
	Text string
	// Interp reports a string literal containing an interpolation.
	Interp bool
}

// Function is a top-level function or a method.
type Function struct {
	Name       string
	ReturnType string // "" if omitted
	Params     []Param
	Static     bool
	Arrow      bool    // `=> expr;` body
	Async      string  // "", "async", "async*", "sync*"
	Body       []Token // tokens between the outer braces, or of the => expression
	Line       int

	match      []int // bracket partners inside Body, computed lazily
	unbalanced bool
}

// Param is one formal parameter.
type Param struct {
	Type string // "" if omitted (always for this.x)
	Name string
	// This is true for initializing formals `this.name`, Super for `super.name`.
	This, Super bool
	Named       bool // declared inside { }
	Optional    bool // declared inside [ ] or { } without `required`
	Required    bool // `required` modifier
	HasDefault  bool
}

type parser struct {
	file  *File
	src   string
	toks  []Token
	match []int
}

var eof = Token{}

func (p *parser) tok(i int) Token {
	if i < 0 || i >= len(p.toks) {
		return eof
	}
	return p.toks[i]
}

// ParseFile lexes and classifies src. The error is non nil only for lexical
// problems (unterminated string or comment, unbalanced brackets); the
// returned File then only carries the tokens read so far.
func ParseFile(name, src string) (*File, error) {
	f := &File{Name: name}
	lx := &lexer{name: name, src: src, line: 1}
	err := lx.run()
	f.Tokens = lx.toks
	if err != nil {
		return f, err
	}
	match, err := matchBrackets(name, lx.toks)
	if err != nil {
		return f, err
	}
	p := &parser{file: f, src: src, toks: lx.toks, match: match}
	p.topLevel()
	return f, nil
}

// chunk returns the (truncated) source text of tokens [from, to).
func (p *parser) chunk(from, to int) string {
	if from >= to || from >= len(p.toks) {
		return ""
	}
	if to > len(p.toks) {
		to = len(p.toks)
	}
	s := p.src[p.toks[from].Pos:p.toks[to-1].End]
	r := []rune(s)
	if len(r) > 80 {
		r = r[:80]
	}
	return string(r)
}

// skipItem returns the index just after the declaration starting at i
// (bounded by hi): it ends with the first `;` outside brackets, or with a
// `{ }` block that is not followed by more expression punctuation.
func (p *parser) skipItem(i, hi int) int {
	for i < hi {
		t := p.toks[i]
		if t.Kind == KindPunct {
			switch t.Text {
			case ";":
				return i + 1
			case "(", "[":
				i = p.match[i] + 1
				continue
			case "{":
				i = p.match[i] + 1
				if i >= hi {
					return hi
				}
				n := p.toks[i]
				if n.punct(";") {
					return i + 1
				}
				if n.Kind == KindPunct && n.Text != "@" && n.Text != "}" {
					continue // `{...}.foo`, `{...} + x`, ...
				}
				if n.ident("as") || n.ident("is") {
					continue
				}
				return i
			}
		}
		i++
	}
	return hi
}

// unknownEnd returns the end of the unknown chunk starting at i: a lone
// punctuation token, a bracket group, or a whole declaration (skipItem).
func (p *parser) unknownEnd(i, hi int) int {
	if i >= hi {
		return hi
	}
	if t := p.toks[i]; t.Kind == KindPunct {
		if t.Text == "(" || t.Text == "[" || t.Text == "{" {
			return p.match[i] + 1
		}
		return i + 1
	}
	return p.skipItem(i, hi)
}

// skipAnnotations skips `@a`, `@a.b`, `@a(args)` starting at i.
func (p *parser) skipAnnotations(i, hi int) int {
	for i < hi && p.toks[i].punct("@") && p.tok(i+1).Kind == KindIdent {
		i += 2
		for i+1 < hi && p.toks[i].punct(".") && p.toks[i+1].Kind == KindIdent {
			i += 2
		}
		if i < hi && p.toks[i].punct("(") {
			i = p.match[i] + 1
		}
	}
	return i
}

var classModifiers = map[string]bool{
	"abstract": true, "sealed": true, "base": true, "interface": true, "final": true, "mixin": true,
}

func (p *parser) topLevel() {
	n := len(p.toks)
	i := 0
	for i < n {
		start := i
		i = p.skipAnnotations(i, n)
		if i >= n {
			p.file.Unknown = append(p.file.Unknown, p.chunk(start, n))
			break
		}
		next, ok := p.topItem(i)
		if ok {
			i = next
			continue
		}
		end := p.unknownEnd(i, n)
		if end <= start {
			end = start + 1
		}
		p.file.Unknown = append(p.file.Unknown, p.chunk(start, end))
		i = end
	}
}

func (p *parser) topItem(i int) (int, bool) {
	t := p.toks[i]
	if t.Kind != KindIdent {
		return 0, false
	}
	switch t.Text {
	case "import":
		return p.importDirective(i)
	case "typedef":
		return p.typedef(i)
	case "enum":
		if p.tok(i+1).Kind == KindIdent && p.tok(i+2).punct("{") {
			return p.enum(i)
		}
	case "extension":
		if p.tok(i+1).Kind == KindIdent && p.tok(i+2).ident("on") {
			return p.extension(i)
		}
	}
	// class with modifiers
	j := i
	for classModifiers[p.tok(j).Text] && p.tok(j).Kind == KindIdent && p.tok(j+1).Kind == KindIdent {
		j++
	}
	if p.tok(j).ident("class") && p.tok(j+1).Kind == KindIdent {
		return p.class(i, j)
	}
	fn, next, ok := p.function(i, len(p.toks), nil)
	if ok {
		p.file.Functions = append(p.file.Functions, fn)
		return next, true
	}
	return 0, false
}

func (p *parser) importDirective(i int) (int, bool) {
	if p.tok(i+1).Kind != KindString {
		return 0, false
	}
	uri := p.toks[i+1]
	if p.tok(i + 2).punct(";") {
		p.file.Imports = append(p.file.Imports, uri.Text)
		return i + 3, true
	}
	// prefixed / filtered imports: recorded, but also reported as unknown
	end := p.skipItem(i, len(p.toks))
	if !p.tok(end - 1).punct(";") {
		return 0, false
	}
	p.file.Imports = append(p.file.Imports, uri.Text)
	p.file.Unknown = append(p.file.Unknown, p.chunk(i, end))
	return end, true
}

func (p *parser) typedef(i int) (int, bool) {
	if p.tok(i+1).Kind != KindIdent || !p.tok(i+2).punct("=") {
		return 0, false
	}
	target, j, ok := parseType(p.toks, i+3)
	if !ok || !p.tok(j).punct(";") {
		return 0, false
	}
	p.file.Typedefs = append(p.file.Typedefs, &Typedef{Name: p.toks[i+1].Text, Target: target, Line: p.toks[i].Line})
	return j + 1, true
}

func (p *parser) enum(i int) (int, bool) {
	open := i + 2
	closeIdx := p.match[open]
	en := &Enum{Name: p.toks[i+1].Text, Line: p.toks[i].Line}
	j := open + 1
	for j < closeIdx {
		j = p.skipAnnotations(j, closeIdx)
		if j >= closeIdx {
			return 0, false // dangling annotation
		}
		if p.toks[j].Kind != KindIdent {
			return 0, false
		}
		en.Values = append(en.Values, p.toks[j].Text)
		j++
		if j == closeIdx {
			break
		}
		if !p.toks[j].punct(",") {
			return 0, false // enhanced enum (arguments, members) or garbage
		}
		j++
	}
	p.file.Enums = append(p.file.Enums, en)
	return closeIdx + 1, true
}

func (p *parser) extension(i int) (int, bool) {
	on, j, ok := parseType(p.toks, i+3)
	if !ok || !p.tok(j).punct("{") {
		return 0, false
	}
	closeIdx := p.match[j]
	ext := &Extension{Name: p.toks[i+1].Text, On: on, Line: p.toks[i].Line, Body: p.toks[j+1 : closeIdx]}
	m := p.members(j+1, closeIdx, "")
	ext.ConstLists = m.constLists
	ext.Methods = m.methods
	ext.Unknown = m.unknown
	for _, f := range m.fieldChunks {
		ext.Unknown = append(ext.Unknown, f)
	}
	p.file.Extensions = append(p.file.Extensions, ext)
	return closeIdx + 1, true
}

func (p *parser) class(start, kw int) (int, bool) {
	cl := &Class{Name: p.toks[kw+1].Text, Line: p.toks[start].Line}
	for k := start; k < kw; k++ {
		cl.Modifiers = append(cl.Modifiers, p.toks[k].Text)
		if p.toks[k].Text == "abstract" {
			cl.Abstract = true
		}
	}
	j := kw + 2
	typeList := func(j int) ([]string, int, bool) {
		var out []string
		for {
			typ, next, ok := parseType(p.toks, j)
			if !ok {
				return nil, 0, false
			}
			out = append(out, typ)
			j = next
			if p.tok(j).punct(",") {
				j++
				continue
			}
			return out, j, true
		}
	}
	if p.tok(j).ident("extends") {
		typ, next, ok := parseType(p.toks, j+1)
		if !ok {
			return 0, false
		}
		cl.Extends, j = typ, next
	}
	if p.tok(j).ident("with") {
		l, next, ok := typeList(j + 1)
		if !ok {
			return 0, false
		}
		cl.With, j = l, next
	}
	if p.tok(j).ident("implements") {
		l, next, ok := typeList(j + 1)
		if !ok {
			return 0, false
		}
		cl.Implements, j = l, next
	}
	if !p.tok(j).punct("{") {
		return 0, false
	}
	closeIdx := p.match[j]
	m := p.members(j+1, closeIdx, cl.Name)
	cl.Fields = m.fields
	cl.Ctor = m.ctor
	if m.ctor != nil {
		cl.CtorParams = []string{}
		for _, pa := range m.ctor.Params {
			cl.CtorParams = append(cl.CtorParams, pa.Name)
		}
	}
	cl.Methods = m.methods
	cl.ConstLists = m.constLists
	cl.Unknown = m.unknown
	p.file.Classes = append(p.file.Classes, cl)
	return closeIdx + 1, true
}

type members struct {
	fields      []*Field
	fieldChunks []string // source of each instance field (extensions cannot have them)
	ctor        *Ctor
	methods     []*Function
	constLists  map[string][]Lit
	unknown     []string
}

var memberModifiers = map[string]bool{
	"static": true, "final": true, "const": true, "late": true, "var": true,
	"external": true, "covariant": true, "abstract": true, "factory": true,
}

// members classifies the declarations in [lo, hi), the body of the class
// named className ("" for an extension).
func (p *parser) members(lo, hi int, className string) members {
	m := members{constLists: map[string][]Lit{}}
	i := lo
	for i < hi {
		if p.toks[i].punct(";") { // stray empty declaration
			i++
			continue
		}
		start := i
		next, ok := p.member(&m, i, hi, className)
		if ok {
			i = next
			continue
		}
		end := p.unknownEnd(p.skipAnnotations(i, hi), hi)
		if end <= start {
			end = start + 1
		}
		m.unknown = append(m.unknown, p.chunk(start, end))
		i = end
	}
	return m
}

func (p *parser) member(m *members, i, hi int, className string) (int, bool) {
	start := i
	i = p.skipAnnotations(i, hi)
	mods := map[string]bool{}
	for i < hi && p.toks[i].Kind == KindIdent && memberModifiers[p.toks[i].Text] {
		// a modifier word directly followed by ( = ; is a name, not a modifier
		if n := p.tok(i + 1); n.punct("(") || n.punct("=") || n.punct(";") {
			break
		}
		mods[p.toks[i].Text] = true
		i++
	}
	if i >= hi || mods["factory"] || mods["external"] {
		return 0, false
	}
	t := p.toks[i]
	// unnamed constructor
	if className != "" && t.ident(className) && p.tok(i+1).punct("(") {
		if m.ctor != nil || mods["static"] || mods["final"] || mods["late"] || mods["var"] {
			return 0, false
		}
		params, ok := p.params(i + 1)
		if !ok {
			return 0, false
		}
		j := p.match[i+1] + 1
		// optional initializer list, then ; or body
		for j < hi {
			tj := p.toks[j]
			if tj.punct(";") {
				j++
				break
			}
			if tj.punct("{") {
				j = p.match[j] + 1
				break
			}
			if tj.punct("(") || tj.punct("[") {
				j = p.match[j] + 1
				continue
			}
			j++
		}
		m.ctor = &Ctor{Const: mods["const"], Params: params, Line: t.Line}
		return j, true
	}
	if className != "" && t.ident(className) && p.tok(i+1).punct(".") {
		return 0, false // named constructor
	}
	// try `Type name`
	var typ, name string
	nameIdx := -1
	if ty, j, ok := parseType(p.toks, i); ok && j < hi && p.toks[j].Kind == KindIdent {
		typ, name, nameIdx = ty, p.toks[j].Text, j
	} else if t.Kind == KindIdent {
		name, nameIdx = t.Text, i
	} else {
		return 0, false
	}
	after := p.tok(nameIdx + 1)
	switch name {
	case "get", "set", "operator":
		if !after.punct("(") && !after.punct(";") && !after.punct("=") {
			return 0, false // getter, setter, operator
		}
	}
	switch {
	case after.punct("("):
		if mods["final"] || mods["const"] || mods["late"] || mods["var"] {
			return 0, false
		}
		fn, next, ok := p.function(i, hi, mods)
		if !ok {
			return 0, false
		}
		m.methods = append(m.methods, fn)
		return next, true
	case after.punct(";") || after.punct("="):
		if typ == "" && !(mods["final"] || mods["const"] || mods["var"] || mods["late"]) {
			return 0, false // `x;` or `x = 3;` is not a declaration
		}
		end := nameIdx + 2
		hasInit := after.punct("=")
		if hasInit {
			end = p.skipItem(nameIdx+1, hi)
			if !p.tok(end - 1).punct(";") {
				return 0, false
			}
		}
		if mods["static"] || mods["const"] {
			// only constant list literals are understood
			if mods["static"] && mods["const"] && hasInit {
				if lits, ok := p.listLiteral(nameIdx+2, end-1); ok {
					if _, dup := m.constLists[name]; dup {
						return 0, false
					}
					m.constLists[name] = lits
					return end, true
				}
			}
			return 0, false
		}
		m.fields = append(m.fields, &Field{
			Type: typ, Name: name, Final: mods["final"], Late: mods["late"],
			HasInit: hasInit, Line: p.toks[nameIdx].Line,
		})
		m.fieldChunks = append(m.fieldChunks, p.chunk(start, end))
		return end, true
	}
	return 0, false
}

// listLiteral parses `[const] [<T>] [ e1, e2, ... ]` spanning exactly [lo, hi).
func (p *parser) listLiteral(lo, hi int) ([]Lit, bool) {
	i := lo
	if p.tok(i).ident("const") {
		i++
	}
	if p.tok(i).punct("<") {
		_, j, ok := parseType(p.toks, i+1)
		if !ok || !p.tok(j).punct(">") {
			return nil, false
		}
		i = j + 1
	}
	if i >= hi || !p.toks[i].punct("[") || p.match[i] != hi-1 {
		return nil, false
	}
	lits := []Lit{}
	for _, seg := range splitCommas(p.toks, p.match, i+1, hi-1) {
		if seg[0] == seg[1] {
			continue // trailing comma
		}
		lits = append(lits, literal(p.toks[seg[0]:seg[1]]))
	}
	return lits, true
}

func literal(toks []Token) Lit {
	if len(toks) == 1 {
		t := toks[0]
		switch {
		case t.Kind == KindNumber:
			return Lit{Kind: numberKind(t.Text), Text: t.Text}
		case t.Kind == KindString:
			return Lit{Kind: "string", Text: t.Text, Interp: t.Interp}
		case t.ident("true") || t.ident("false"):
			return Lit{Kind: "bool", Text: t.Text}
		}
	}
	if len(toks) == 2 && toks[0].punct("-") && toks[1].Kind == KindNumber {
		return Lit{Kind: numberKind(toks[1].Text), Text: "-" + toks[1].Text}
	}
	return Lit{Kind: "other", Text: joinRaw(toks)}
}

func numberKind(s string) string {
	if strings.HasPrefix(s, "0x") || strings.HasPrefix(s, "0X") {
		return "int"
	}
	if strings.ContainsAny(s, ".eE") {
		return "double"
	}
	return "int"
}

func joinRaw(toks []Token) string {
	parts := make([]string, len(toks))
	for i, t := range toks {
		parts[i] = t.Raw
	}
	return strings.Join(parts, " ")
}

// splitCommas splits [lo, hi) at the commas outside brackets; match must be
// the bracket table of toks. Each segment is a [from, to) pair; an empty
// range yields no segment.
func splitCommas(toks []Token, match []int, lo, hi int) [][2]int {
	var out [][2]int
	if lo >= hi {
		return nil
	}
	segStart := lo
	for i := lo; i < hi; {
		t := toks[i]
		if t.Kind == KindPunct {
			switch t.Text {
			case "(", "[", "{":
				if match[i] > i { // always, except for hand-built unbalanced bodies
					i = match[i] + 1
					continue
				}
			case ",":
				out = append(out, [2]int{segStart, i})
				segStart = i + 1
			}
		}
		i++
	}
	out = append(out, [2]int{segStart, hi})
	return out
}

// function parses `[static] [R] name(params) [async] { body }` or `=> expr;`
// starting at i (modifiers already consumed when mods is not nil).
func (p *parser) function(i, hi int, mods map[string]bool) (*Function, int, bool) {
	fn := &Function{Static: mods["static"], Line: p.tok(i).Line}
	nameIdx := -1
	if ty, j, ok := parseType(p.toks, i); ok && j < hi && p.toks[j].Kind == KindIdent && p.tok(j+1).punct("(") {
		fn.ReturnType, nameIdx = ty, j
	} else if p.tok(i).Kind == KindIdent && p.tok(i+1).punct("(") {
		nameIdx = i
	} else {
		return nil, 0, false
	}
	fn.Name = p.toks[nameIdx].Text
	if reserved[fn.Name] || notReturnType[fn.ReturnType] {
		return nil, 0, false
	}
	open := nameIdx + 1
	params, ok := p.params(open)
	if !ok {
		return nil, 0, false
	}
	fn.Params = params
	j := p.match[open] + 1
	if t := p.tok(j); t.ident("async") || t.ident("sync") {
		fn.Async = t.Text
		j++
		if p.tok(j).punct("*") {
			fn.Async += "*"
			j++
		}
	}
	switch {
	case p.tok(j).punct("{") && j < hi:
		closeIdx := p.match[j]
		fn.Body = p.toks[j+1 : closeIdx]
		return fn, closeIdx + 1, true
	case p.tok(j).punct("=>") && j < hi:
		fn.Arrow = true
		k := j + 1
		for k < hi && !p.toks[k].punct(";") {
			if t := p.toks[k]; t.punct("(") || t.punct("[") || t.punct("{") {
				k = p.match[k] + 1
				continue
			}
			k++
		}
		if k >= hi || p.juxtaposed(j+1, k) {
			// no `;`, or a missing `;` made the expression swallow the
			// following declaration
			return nil, 0, false
		}
		fn.Body = p.toks[j+1 : k]
		return fn, k + 1, true
	}
	return nil, 0, false
}

// notReturnType are the words that, in front of `name(`, are not a return type.
var notReturnType = map[string]bool{
	"get": true, "set": true, "operator": true, "factory": true, "external": true, "static": true,
	"abstract": true, "covariant": true, "late": true, "required": true, "typedef": true,
}

// operatorWords are the identifiers that may stand next to an operand
// inside an expression.
var operatorWords = map[string]bool{
	"as": true, "is": true, "in": true, "await": true, "throw": true, "const": true, "new": true,
	"async": true, "sync": true, "switch": true, "when": true, "if": true, "else": true, "for": true,
}

// juxtaposed reports whether the expression tokens [lo, hi) contain, outside
// brackets, two adjacent operands (`f(x) int g`), which no Dart expression
// does: the sign of a missing `;`.
func (p *parser) juxtaposed(lo, hi int) bool {
	operandEnd := func(t Token) bool {
		switch t.Kind {
		case KindIdent:
			return !operatorWords[t.Text]
		case KindString, KindNumber:
			return true
		}
		return t.Text == ")" || t.Text == "]" || t.Text == "}"
	}
	operandStart := func(t Token) bool {
		switch t.Kind {
		case KindIdent:
			return !operatorWords[t.Text]
		case KindNumber:
			return true
		}
		return false // adjacent strings are a concatenation
	}
	for i := lo; i < hi; i++ {
		t := p.toks[i]
		if t.punct("(") || t.punct("[") || t.punct("{") {
			i = p.match[i]
			t = p.toks[i]
		}
		if i+1 < hi && operandEnd(t) && operandStart(p.toks[i+1]) {
			return true
		}
	}
	return false
}

var paramModifiers = map[string]bool{
	"required": true, "final": true, "var": true, "covariant": true, "const": true, "late": true,
}

// params parses the parameter list whose `(` is at open.
func (p *parser) params(open int) ([]Param, bool) {
	closeIdx := p.match[open]
	params := []Param{}
	group, groupClose := "", -1
	i := open + 1
	for i < closeIdx {
		t := p.toks[i]
		if t.punct(",") {
			i++
			continue
		}
		if group == "" && (t.punct("{") || t.punct("[")) {
			group, groupClose = t.Text, p.match[i]
			i++
			continue
		}
		if group != "" && i == groupClose {
			group, groupClose = "", -1
			i++
			continue
		}
		limit := closeIdx
		if group != "" {
			limit = groupClose
		}
		pa := Param{Named: group == "{"}
		i = p.skipAnnotations(i, limit)
		for i < limit && p.toks[i].Kind == KindIdent && paramModifiers[p.toks[i].Text] {
			if n := p.tok(i + 1); i+1 == limit || n.punct(",") || n.punct("=") {
				break // a parameter named like a modifier
			}
			if p.toks[i].Text == "required" {
				pa.Required = true
			}
			i++
		}
		if i >= limit {
			return nil, false
		}
		thisAt := func(k int) bool {
			return (p.tok(k).ident("this") || p.tok(k).ident("super")) && p.tok(k+1).punct(".") && p.tok(k+2).Kind == KindIdent && k+2 < limit
		}
		switch {
		case thisAt(i):
			pa.This, pa.Super = p.toks[i].Text == "this", p.toks[i].Text == "super"
			pa.Name = p.toks[i+2].Text
			i += 3
		default:
			ty, j, ok := parseType(p.toks, i)
			switch {
			case ok && j < limit && thisAt(j):
				pa.Type = ty
				pa.This, pa.Super = p.toks[j].Text == "this", p.toks[j].Text == "super"
				pa.Name = p.toks[j+2].Text
				i = j + 3
			case ok && j < limit && p.toks[j].Kind == KindIdent:
				pa.Type, pa.Name = ty, p.toks[j].Text
				i = j + 1
			case p.toks[i].Kind == KindIdent:
				pa.Name = p.toks[i].Text
				i++
			default:
				return nil, false
			}
		}
		if i < limit && (p.toks[i].punct("=") || (p.toks[i].punct(":") && group == "{")) {
			pa.HasDefault = true
			i++
			for i < limit && !p.toks[i].punct(",") {
				if t := p.toks[i]; t.punct("(") || t.punct("[") || t.punct("{") {
					i = p.match[i] + 1
					continue
				}
				i++
			}
		}
		if i < limit && !p.toks[i].punct(",") {
			return nil, false // function-typed parameter, generic default value, ...
		}
		pa.Optional = group != "" && !pa.Required
		params = append(params, pa)
	}
	return params, true
}

// parseType reads a type starting at toks[i]:
//
//	ident(.ident)* [ < type (, type)* > ] [?] ( Function (...) [?] )*
//
// and returns its text without spaces and the index of the next token.
func parseType(toks []Token, i int) (string, int, bool) {
	at := func(k int) Token {
		if k < 0 || k >= len(toks) {
			return eof
		}
		return toks[k]
	}
	if at(i).Kind != KindIdent || reserved[at(i).Text] {
		return "", 0, false
	}
	var sb strings.Builder
	// parens appends the parenthesised group opening at k
	parens := func(k int) (int, bool) {
		depth := 0
		for m := k; m < len(toks); m++ {
			sb.WriteString(toks[m].Raw)
			if toks[m].punct("(") {
				depth++
			} else if toks[m].punct(")") {
				depth--
				if depth == 0 {
					return m + 1, true
				}
			}
		}
		return 0, false
	}
	question := func() {
		if at(i).punct("?") {
			sb.WriteString("?")
			i++
		}
	}
	sb.WriteString(toks[i].Text)
	i++
	if toks[i-1].Text == "Function" && at(i).punct("(") {
		// function type without return type
		next, ok := parens(i)
		if !ok {
			return "", 0, false
		}
		i = next
		question()
	} else {
		for at(i).punct(".") && at(i+1).Kind == KindIdent {
			sb.WriteString("." + toks[i+1].Text)
			i += 2
		}
		if at(i).punct("<") {
			sb.WriteString("<")
			i++
			for {
				sub, j, ok := parseType(toks, i)
				if !ok {
					return "", 0, false
				}
				sb.WriteString(sub)
				i = j
				if at(i).punct(",") {
					sb.WriteString(",")
					i++
					continue
				}
				if at(i).punct(">") {
					sb.WriteString(">")
					i++
					break
				}
				return "", 0, false
			}
		}
		question()
	}
	for at(i).ident("Function") && at(i+1).punct("(") {
		sb.WriteString("Function")
		next, ok := parens(i + 1)
		if !ok {
			return "", 0, false
		}
		i = next
		question()
	}
	return sb.String(), i, true
}

// reserved words that can be neither a type nor a function name.
var reserved = map[string]bool{
	"assert": true, "break": true, "case": true, "catch": true, "class": true, "const": true,
	"continue": true, "default": true, "do": true, "else": true, "enum": true, "extends": true,
	"false": true, "final": true, "finally": true, "for": true, "if": true, "in": true, "is": true,
	"new": true, "null": true, "rethrow": true, "return": true, "super": true, "switch": true,
	"this": true, "throw": true, "true": true, "try": true, "var": true, "while": true, "with": true,
}
