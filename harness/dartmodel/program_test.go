package dartmodel

import (
	"path/filepath"
	"reflect"
	"strings"
	"testing"
)

func loadProgram(t *testing.T, dir string, files ...string) *Program {
	t.Helper()
	srcs := map[string]string{}
	for _, f := range files {
		srcs[f] = readSample(t, filepath.Join(dir, f))
	}
	p, errs := NewProgram(srcs)
	if len(errs) != 0 {
		t.Fatalf("NewProgram: %v", errs)
	}
	return p
}

func TestSampleProgramLinks(t *testing.T) {
	p := loadProgram(t, "/repo/generator/dart/test",
		"predefined.dart", "stdlib_math_big.dart", "stdlib_time.dart", "testsource.dart", "testsource_subpackage.dart")
	if got := p.Problems(); len(got) != 0 {
		t.Errorf("problems in the sample program: %v", got)
	}

	// spot checks of the resolution
	resolutions := []struct{ file, name, in, problem string }{
		{"testsource.dart", "ComplexStruct", "testsource.dart", ""},
		{"testsource.dart", "intFromJson", "predefined.dart", ""},
		{"testsource.dart", "NamedSlice", "testsource_subpackage.dart", ""},
		{"testsource.dart", "structWithCommentFromJson", "testsource_subpackage.dart", ""},
		{"testsource.dart", "_EnumIntExt", "testsource.dart", ""},
		{"testsource.dart", "_EnumExt", "", "undefined"}, // private to the subpackage file
		{"testsource_subpackage.dart", "intFromJson", "predefined.dart", ""},
		{"testsource_subpackage.dart", "ComplexStruct", "", "undefined"}, // not imported
		{"predefined.dart", "ComplexStruct", "", "undefined"},
		{"predefined.dart", "String", "", "undefined"}, // core names are never looked up by Problems
		{"nosuch.dart", "x", "", "unknown file"},
	}
	for _, r := range resolutions {
		in, problem := p.Resolve(r.file, r.name)
		if in != r.in || problem != r.problem {
			t.Errorf("Resolve(%s, %s) = %q, %q; want %q, %q", r.file, r.name, in, problem, r.in, r.problem)
		}
	}

	used := p.Used("testsource_subpackage.dart")
	want := []string{"Enum", "NamedSlice", "StructWithComment", "_EnumExt", "enumFromJson", "enumLabel", "enumToJson", "intFromJson",
		"intToJson", "listEnumFromJson", "listEnumToJson", "namedSliceFromJson", "namedSliceToJson", "structWithCommentFromJson", "structWithCommentToJson"}
	if !reflect.DeepEqual(used, want) {
		t.Errorf("Used(testsource_subpackage.dart) = %v", used)
	}
	if p.Used("nosuch.dart") != nil {
		t.Errorf("Used of unknown file")
	}
	for _, name := range p.Used("testsource.dart") {
		if name == "a" || name == "b" || name == "json" || name == "int" || name == "String" || name == "DateTime" {
			t.Errorf("Used(testsource.dart) contains %s", name)
		}
	}
}

func TestSampleProgramWithGenTest(t *testing.T) {
	p := loadProgram(t, "/repo/generator/dart/test",
		"gen_test.dart", "predefined.dart", "stdlib_math_big.dart", "stdlib_time.dart", "testsource.dart", "testsource_subpackage.dart")
	if got := p.Problems(); len(got) != 0 {
		t.Errorf("problems: %v", got)
	}
	if in, problem := p.Resolve("gen_test.dart", "StructWithComment"); in != "testsource_subpackage.dart" || problem != "" {
		t.Errorf("StructWithComment: %q %q", in, problem)
	}
}

func TestSampleCmdPrograms(t *testing.T) {
	p := loadProgram(t, "/repo/cmd/test", "predefined.dart", "test.dart")
	if got := p.Problems(); len(got) != 0 {
		t.Errorf("problems: %v", got)
	}
	if in, problem := p.Resolve("test.dart", "JSON"); in != "predefined.dart" || problem != "" {
		t.Errorf("JSON: %q %q", in, problem)
	}
	// out.dart is self contained
	p = loadProgram(t, "/repo/cmd/test", "out.dart")
	if got := p.Problems(); len(got) != 0 {
		t.Errorf("out.dart problems: %v", got)
	}
	// all three together: out.dart imports nothing, so nothing clashes
	p = loadProgram(t, "/repo/cmd/test", "out.dart", "predefined.dart", "test.dart")
	if got := p.Problems(); len(got) != 0 {
		t.Errorf("problems: %v", got)
	}
}

func pk(ps []Problem) []string {
	out := []string{}
	for _, p := range ps {
		out = append(out, p.File+"|"+p.Kind+"|"+p.Name)
	}
	return out
}

func TestProblems(t *testing.T) {
	tests := []struct {
		name  string
		files map[string]string
		want  []string
	}{
		{"clean", map[string]string{
			"a.dart": `import 'b.dart'; class A { final B b; const A(this.b); } A aFromJson(dynamic j) => A(bFromJson(j));`,
			"b.dart": `class B {} B bFromJson(dynamic j) => B();`,
		}, nil},
		{"missing import of a used name", map[string]string{
			"a.dart": `class A { final B b; const A(this.b); }`,
			"b.dart": `class B {}`,
		}, []string{"a.dart|undefined|B"}},
		{"imports are not transitive", map[string]string{
			"a.dart": `import 'b.dart'; class A { final B b; final C c; const A(this.b, this.c); }`,
			"b.dart": `import 'c.dart'; class B { final C c; const B(this.c); }`,
			"c.dart": `class C {}`,
		}, []string{"a.dart|undefined|C"}},
		{"ambiguous import", map[string]string{
			"a.dart": `import 'b.dart'; import 'c.dart'; int f(dynamic j) => intFromJson(j);`,
			"b.dart": `int intFromJson(dynamic json) => json as int;`,
			"c.dart": `int intFromJson(dynamic json) => json as int;`,
		}, []string{"a.dart|ambiguous|intFromJson"}},
		{"local definition shadows imports", map[string]string{
			"a.dart": `import 'b.dart'; import 'c.dart'; int intFromJson(dynamic json) => json as int; int f(dynamic j) => intFromJson(j);`,
			"b.dart": `int intFromJson(dynamic json) => json as int;`,
			"c.dart": `int intFromJson(dynamic json) => json as int;`,
		}, nil},
		{"same import twice is one candidate", map[string]string{
			"a.dart": `import 'b.dart'; import './b.dart'; int f(dynamic j) => intFromJson(j);`,
			"b.dart": `int intFromJson(dynamic json) => json as int;`,
		}, nil},
		{"duplicate definition, used or not", map[string]string{
			"a.dart": `class A {} typedef A = int; int f() => 1; int f() => 2; int g() => f();`,
		}, []string{"a.dart|duplicate|A", "a.dart|duplicate|f"}},
		{"duplicate across kinds", map[string]string{
			"a.dart": `enum E { a } extension E on int {} class K {} K K() => K();`,
		}, []string{"a.dart|duplicate|E", "a.dart|duplicate|K"}},
		{"private names are not imported", map[string]string{
			"a.dart": `import 'b.dart'; E f(dynamic j) => _EExt.fromValue(j);`,
			"b.dart": `enum E { a } extension _EExt on E { static E fromValue(int i) { return E.values[i]; } }`,
		}, []string{"a.dart|undefined|_EExt"}},
		{"same private name in two files", map[string]string{
			"a.dart": `import 'b.dart'; enum E { a } extension _EExt on E {} E f(int i) => _EExt.fromValue(i); F g(int i) => fFromJson(i);`,
			"b.dart": `enum F { a } extension _EExt on F {} F fFromJson(int i) => _EExt.fromValue(i);`,
		}, nil},
		{"self import", map[string]string{
			"a.dart": `import 'a.dart'; class A {}`,
		}, []string{"a.dart|self_import|a.dart"}},
		{"self import does not make names ambiguous", map[string]string{
			"a.dart": `import './a.dart'; import 'b.dart'; class A {} A f() => A();`,
			"b.dart": `class B {}`,
		}, []string{"a.dart|self_import|./a.dart"}},
		{"missing import file", map[string]string{
			"a.dart": `import 'nosuch.dart'; import 'dart:convert'; import 'package:x/y.dart'; class A {}`,
		}, []string{"a.dart|missing_import|nosuch.dart", "a.dart|missing_import|package:x/y.dart"}},
		{"sub directories", map[string]string{
			"lib/a.dart":       `import 'sub/b.dart'; import '../c.dart'; class A { final B b; final C c; const A(this.b, this.c); }`,
			"lib/sub/b.dart":   `import '../a.dart'; class B { final A? a; const B(this.a); }`,
			"c.dart":           `import 'lib/sub/b.dart'; B? x() => null;`,
			"./lib/sub/d.dart": `import 'b.dart'; import 'a.dart'; B? y() => null;`,
		}, []string{"lib/sub/d.dart|missing_import|a.dart"}},
		{"identifiers in strings, comments and after a dot are not uses", map[string]string{
			"a.dart": `class A { final int b; const A(this.b); String toString() { return "A($b) B ${B}"; } } // B
				/* B */ int f(x) => x.B + x?.B;`,
			"b.dart": `class B {}`,
		}, nil},
		{"tear-off and type argument uses", map[string]string{
			"a.dart": `List<B> f(dynamic json) { return (json as List<dynamic>).map(bFromJson).toList(); }`,
			"b.dart": `class B {} B bFromJson(dynamic j) => B();`,
		}, []string{"a.dart|undefined|B", "a.dart|undefined|bFromJson"}},
		{"core names defined by a generated file are checked", map[string]string{
			"a.dart": `int f(dynamic j) => j as int;`,
			"b.dart": `class int {}`,
		}, []string{"a.dart|undefined|int"}},
		{"import with prefix is still an import", map[string]string{
			"a.dart": `import 'b.dart' as b; B f() => B();`,
			"b.dart": `class B {}`,
		}, nil},
	}
	for _, tc := range tests {
		t.Run(tc.name, func(t *testing.T) {
			p, errs := NewProgram(tc.files)
			if len(errs) != 0 {
				t.Fatal(errs)
			}
			got := p.Problems()
			if len(got) == 0 && len(tc.want) == 0 {
				return
			}
			if !reflect.DeepEqual(pk(got), tc.want) {
				t.Errorf("Problems\n got %v\nwant %v", got, tc.want)
			}
			for _, pr := range got {
				if pr.Detail == "" || pr.String() == "" {
					t.Errorf("problem without detail: %+v", pr)
				}
			}
		})
	}
}

func TestResolve(t *testing.T) {
	p, errs := NewProgram(map[string]string{
		"a.dart": `import 'b.dart'; import 'c.dart'; import 'nosuch.dart'; class A {} int dup() => 1; int dup() => 2; class _P {}`,
		"b.dart": `class B {} class Both {} class _Q {} int twice() => 1; int twice() => 2;`,
		"c.dart": `import 'd.dart'; class C {} class Both {}`,
		"d.dart": `class D {}`,
	})
	if len(errs) != 0 {
		t.Fatal(errs)
	}
	tests := []struct{ file, name, in, problem string }{
		{"a.dart", "A", "a.dart", ""},
		{"./a.dart", "A", "a.dart", ""},
		{"a.dart", "_P", "a.dart", ""},
		{"a.dart", "dup", "a.dart", "duplicate definition"},
		{"a.dart", "B", "b.dart", ""},
		{"a.dart", "C", "c.dart", ""},
		{"a.dart", "D", "", "undefined"},
		{"a.dart", "Both", "", "ambiguous import"},
		{"a.dart", "_Q", "", "undefined"},
		{"a.dart", "twice", "b.dart", ""}, // the duplicate is b.dart's problem
		{"a.dart", "Nowhere", "", "undefined"},
		{"c.dart", "D", "d.dart", ""},
		{"c.dart", "A", "", "undefined"},
		{"d.dart", "D", "d.dart", ""},
		{"e.dart", "D", "", "unknown file"},
	}
	for _, tc := range tests {
		in, problem := p.Resolve(tc.file, tc.name)
		if in != tc.in || problem != tc.problem {
			t.Errorf("Resolve(%s, %s) = %q, %q; want %q, %q", tc.file, tc.name, in, problem, tc.in, tc.problem)
		}
	}
	// the duplicate in b.dart is reported for b.dart
	got := pk(p.Problems())
	want := []string{"a.dart|duplicate|dup", "a.dart|missing_import|nosuch.dart", "b.dart|duplicate|twice"}
	if !reflect.DeepEqual(got, want) {
		t.Errorf("Problems = %v, want %v", got, want)
	}
}

func TestDefined(t *testing.T) {
	f := mustParse(t, "a.dart", `
		import 'x.dart';
		class A { final int field; const A(this.field); void method() {} }
		abstract class U {}
		typedef T = List<A>;
		enum E { v1, v2 }
		extension _EExt on E { int toValue() { return index; } }
		A aFromJson(dynamic json) => A(1);
		A aFromJson(dynamic json) => A(2);
		main() {}
		const top = 1;
	`)
	want := map[string]int{"A": 1, "U": 1, "T": 1, "E": 1, "_EExt": 1, "aFromJson": 2, "main": 1}
	if got := f.Defined(); !reflect.DeepEqual(got, want) {
		t.Errorf("Defined = %v, want %v", got, want)
	}
	if !reflect.DeepEqual(f.Unknown, []string{"const top = 1;"}) {
		t.Errorf("Unknown = %q", f.Unknown)
	}
}

func TestNewProgramErrors(t *testing.T) {
	p, errs := NewProgram(map[string]string{
		"ok.dart":    `import 'bad.dart'; class A {}`,
		"bad.dart":   `class B {`,
		"./ok.dart":  `class C {}`,
		"str.dart":   "var s = 'abc",
		"sub/x.dart": ``,
	})
	if len(errs) != 3 {
		t.Fatalf("errors: %v", errs)
	}
	var msgs []string
	for _, e := range errs {
		msgs = append(msgs, e.Error())
	}
	all := strings.Join(msgs, "\n")
	for _, want := range []string{"bad.dart:1: unbalanced", "ok.dart: file given twice", "str.dart:1: unterminated string"} {
		if !strings.Contains(all, want) {
			t.Errorf("errors %q do not mention %q", all, want)
		}
	}
	if len(p.Files) != 2 || p.Files["sub/x.dart"] == nil {
		t.Errorf("files: %v", p.Files)
	}
	// exactly one of the two ok.dart was kept; the import of the broken file is missing
	if p.Files["ok.dart"] == nil {
		t.Fatalf("ok.dart dropped")
	}
}

// Linking of raw template output spread over several files, as the generator
// does for types of several packages.
func TestRawProgram(t *testing.T) {
	files := map[string]string{
		"predefined.dart": rawFile(nil, rawString, rawBoolInt("int", "int")),
		"main.dart": rawFile([]string{"predefined.dart", "sub.dart"},
			rawStruct("p.S", "S", []string{"U"}, []rawField{{"A", "int", "int", false}, {"E", "Enum", "enum", false}, {"L", "List<Enum>", "listEnum", false}}),
			rawUnion("p.U", "U", []rawUnionMember{{"S", "S", "s"}}),
			rawArray("List<Enum>", "listEnum", "enum"),
		),
		"sub.dart": rawFile([]string{"predefined.dart"},
			rawEnum("q.Enum", "Enum", []rawMember{{"A", "", "1"}, {"B", "", "3"}}, false, true),
		),
	}
	p, errs := NewProgram(files)
	if len(errs) != 0 {
		t.Fatal(errs)
	}
	for name, f := range p.Files {
		if u := allUnknown(f); len(u) != 0 {
			t.Errorf("%s: unknown %q", name, u)
		}
	}
	if got := p.Problems(); len(got) != 0 {
		t.Errorf("problems: %v", got)
	}

	// the generator forgetting the import of sub.dart is detected
	files["main.dart"] = strings.Replace(files["main.dart"], "import 'sub.dart';", "", 1)
	p, _ = NewProgram(files)
	want := []string{"main.dart|undefined|Enum", "main.dart|undefined|enumFromJson", "main.dart|undefined|enumToJson"}
	if got := pk(p.Problems()); !reflect.DeepEqual(got, want) {
		t.Errorf("problems without import: %v", got)
	}

	// listEnum emitted in both files (as the generator does for unnamed types
	// used from two packages) while one imports the other: the local one wins
	files["sub.dart"] += rawArray("List<Enum>", "listEnum", "enum")
	files["main.dart"] = strings.Replace(files["main.dart"], rawHeader+"\n", rawHeader+"\nimport 'sub.dart';", 1)
	p, _ = NewProgram(files)
	if got := p.Problems(); len(got) != 0 {
		t.Errorf("problems: %v", got)
	}
	if in, _ := p.Resolve("main.dart", "listEnumFromJson"); in != "main.dart" {
		t.Errorf("listEnumFromJson resolved in %q", in)
	}

	// ... but a third file importing both sees an ambiguous name
	files["third.dart"] = rawFile([]string{"main.dart", "sub.dart"}, rawNamed("r.Es", "Es", "List<Enum>", "listEnum", true))
	p, _ = NewProgram(files)
	want = []string{"third.dart|ambiguous|listEnumFromJson", "third.dart|ambiguous|listEnumToJson"}
	if got := pk(p.Problems()); !reflect.DeepEqual(got, want) {
		t.Errorf("problems in third.dart: %v", p.Problems())
	}
}
