package dartmodel

import (
	"fmt"
	"reflect"
	"strings"
	"testing"
)

// exercise calls every helper on every function of the file.
func exercise(f *File) {
	var fns []*Function
	fns = append(fns, f.Functions...)
	for _, c := range f.Classes {
		fns = append(fns, c.Methods...)
	}
	for _, e := range f.Extensions {
		fns = append(fns, e.Methods...)
	}
	for _, fn := range fns {
		fn.ReturnCall()
		fn.JSONReads()
		fn.JSONWrites()
		fn.UnionCases()
		fn.UnionWritesInfo()
		fn.KeyBindings()
		fn.SwitchSubject()
		fn.Callees()
		fn.Idents()
		fn.DanglingElse()
		fn.KeysRead()
	}
	f.Defined()
	p := &Program{Files: map[string]*File{f.Name: f}}
	p.Used(f.Name)
	p.Problems()
}

// Damaged inputs (one token removed, duplicated or replaced) must never make
// the parser panic or loop, and a damaged declaration must never disappear:
// every top-level token is either part of a classified item or of an
// Unknown chunk.
func TestMutatedSamplesDoNotPanic(t *testing.T) {
	replacements := []string{";", ",", "{", "}", "(", ")", "<", ">", "=>", "=", "class", "final", "static", "@", ".", "'x'", "return", "1"}
	for _, path := range sampleFiles {
		src := readSample(t, path)
		toks, err := Lex(path, src)
		if err != nil {
			t.Fatal(err)
		}
		step := 1
		if len(toks) > 600 {
			step = 3
		}
		run := func(desc, mutated string) {
			defer func() {
				if r := recover(); r != nil {
					t.Fatalf("%s: %s: panic %v\nsource:\n%s", path, desc, r, mutated)
				}
			}()
			f, err := ParseFile("m.dart", mutated)
			if err != nil {
				if f == nil {
					t.Fatalf("%s: %s: nil file with error", path, desc)
				}
				return
			}
			exercise(f)
		}
		for i := 0; i < len(toks); i += step {
			tk := toks[i]
			run(fmt.Sprintf("delete token %d %q", i, tk.Raw), src[:tk.Pos]+src[tk.End:])
			run(fmt.Sprintf("duplicate token %d %q", i, tk.Raw), src[:tk.End]+" "+tk.Raw+src[tk.End:])
			r := replacements[i%len(replacements)]
			run(fmt.Sprintf("replace token %d %q by %q", i, tk.Raw, r), src[:tk.Pos]+" "+r+" "+src[tk.End:])
			run(fmt.Sprintf("truncate before token %d", i), src[:tk.Pos])
		}
	}
}

// countItems is the number of classified top-level items plus unknown chunks.
func countItems(f *File) int {
	return len(f.Imports) + len(f.Classes) + len(f.Typedefs) + len(f.Enums) + len(f.Extensions) + len(f.Functions) + len(f.Unknown)
}

// Removing one token from a declaration must not make the file look clean
// with fewer declarations: either the model still has as many items, or
// something is reported as unknown.
func TestDamagedDeclarationsAreReported(t *testing.T) {
	for _, path := range sampleFiles {
		src := readSample(t, path)
		orig := mustParse(t, "s.dart", src)
		for i, tk := range orig.Tokens {
			mutated := src[:tk.Pos] + src[tk.End:]
			f, err := ParseFile("s.dart", mutated)
			if err != nil {
				continue
			}
			if len(allUnknown(f)) == 0 && countItems(f) < countItems(orig) {
				t.Errorf("%s: deleting token %d %q (line %d) silently loses a declaration", path, i, tk.Raw, tk.Line)
			}
		}
	}
}

func TestLexEscapesExhaustive(t *testing.T) {
	tests := []struct{ src, want string }{
		{`"\r\b\f\v"`, "\r\b\f\v"},
		{`"\x4"`, "x4"},
		{`"\xZZ"`, "xZZ"},
		{`"é"`, "é"},
		{`"\u00g9"`, "u00g9"},
		{`"\u{e9}"`, "é"},
		{`"\u{zz}"`, "u{zz}"},
		{`"\u{}"`, "u{}"},
		{`"\é"`, "é"},
		{`"\q"`, "q"},
		{`"a\` + "\n" + `b"`, "a\nb"},
		{`'${r"}"}'`, `${r"}"}`},
		{`'${ /* } */ x }'`, `${ /* } */ x }`},
		{`'${ {1: '}'} }'`, `${ {1: '}'} }`},
		{`'$_a $$ $a$b'`, `$_a $$ $a$b`},
		{`"\u{1F600"`, "u{1F600"},
	}
	for _, tc := range tests {
		toks, err := Lex("t", tc.src)
		if err != nil || len(toks) != 1 || toks[0].Text != tc.want {
			t.Errorf("Lex(%q) = %q, %v; want %q", tc.src, kt(toks), err, tc.want)
		}
	}
	if _, err := Lex("t", `"${ /* }"`); err == nil {
		t.Errorf("unterminated comment inside interpolation accepted")
	}
	if _, err := Lex("t", `"${ ' }"`); err == nil {
		t.Errorf("unterminated string inside interpolation accepted")
	}
	if toks, err := Lex("t", "#!/usr/bin/env dart\nmain() {}"); err != nil || toks[0].Text != "main" {
		t.Errorf("script tag: %v %v", kt(toks), err)
	}
}

func TestMemberEdgeCases(t *testing.T) {
	tests := []struct {
		name, src string
		want      string
	}{
		{"dangling annotation in class", `class A { final int a; @override }`,
			"class A mods=[] abstract=false extends=\"\" with=[] implements=[]\n  field int a final=true late=false init=false\n  unknown @override\n"},
		{"stray semicolons and punctuation", `class A { ; final int a;; , final int b; [1, 2] }`,
			"class A mods=[] abstract=false extends=\"\" with=[] implements=[]\n  field int a final=true late=false init=false\n  field int b final=true late=false init=false\n  unknown ,\n  unknown [1, 2]\n"},
		{"statement in class", `class A { a = 3; x; final int b; }`,
			"class A mods=[] abstract=false extends=\"\" with=[] implements=[]\n  field int b final=true late=false init=false\n  unknown a = 3;\n  unknown x;\n"},
		{"member named like a modifier", `class A { final int late; int static() => 1; }`,
			"class A mods=[] abstract=false extends=\"\" with=[] implements=[]\n  field int late final=true late=false init=false\n  method int static() => 1\n"},
		{"const list forms", `class A { static const a = [0x10, 1.0, 1e3]; static const b = <String>['x']; static const a = [1]; static final c = [1]; }`,
			"class A mods=[] abstract=false extends=\"\" with=[] implements=[]\n  const a = [int:0x10, double:1.0, double:1e3]\n  const b = [string:x]\n  unknown static const a = [1];\n  unknown static final c = [1];\n"},
		{"method without body", `abstract class A { int f(); int g() => 1; }`,
			"class A mods=[abstract] abstract=true extends=\"\" with=[] implements=[]\n  method int g() => 1\n  unknown int f();\n"},
		{"typed this param", `class A { final int a; A(int this.a, final int b, [super.c]); }`,
			"class A mods=[] abstract=false extends=\"\" with=[] implements=[]\n  field int a final=true late=false init=false\n  ctor const=false (this.a, int b, [c]) names=[a b c]\n"},
		{"static method", `class A { static A make(int x) { return A(); } }`,
			"class A mods=[] abstract=false extends=\"\" with=[] implements=[]\n  method static A make(int x) { return A ( ) ; }\n"},
	}
	for _, tc := range tests {
		t.Run(tc.name, func(t *testing.T) {
			if got := summary(mustParse(t, "a.dart", tc.src)); got != tc.want {
				t.Errorf("summary\n got: %q\nwant: %q", got, tc.want)
			}
		})
	}
}

func TestUnbalancedHandBuiltBody(t *testing.T) {
	lx := &lexer{name: "t", src: `return S(intFromJson(json['A']), { "a": [ (`, line: 1}
	if err := lx.run(); err != nil {
		t.Fatal(err)
	}
	fn := &Function{Name: "f", Body: lx.toks}
	if c, r := fn.JSONReads(); c != "" || r != nil {
		t.Errorf("JSONReads on unbalanced body: %q %v", c, r)
	}
	if fn.JSONWrites() != nil || fn.UnionWrites() != nil {
		t.Errorf("writes on unbalanced body")
	}
	if cases, keys, def := fn.UnionCases(); cases != nil || keys != nil || def {
		t.Errorf("cases on unbalanced body")
	}
	if got := fn.Callees(); !reflect.DeepEqual(got, []string{"S", "intFromJson"}) {
		t.Errorf("Callees %v", got)
	}
	if got := strings.Join(fn.KeysRead(), ","); got != "A" {
		t.Errorf("KeysRead %v", got)
	}
}
