package dartmodel

import (
	"fmt"
	"path"
	"sort"
	"strings"
)

// Program is a set of Dart files importing each other.
type Program struct {
	Files map[string]*File // cleaned name -> file
}

// Problem kinds.
const (
	ProblemDuplicate     = "duplicate"
	ProblemUndefined     = "undefined"
	ProblemAmbiguous     = "ambiguous"
	ProblemSelfImport    = "self_import"
	ProblemMissingImport = "missing_import"
)

// Problem is one linking problem.
type Problem struct {
	File   string
	Name   string // identifier, or import URI for the import problems
	Kind   string // duplicate | undefined | ambiguous | self_import | missing_import
	Detail string
}

func (p Problem) String() string {
	return fmt.Sprintf("%s: %s %s (%s)", p.File, p.Kind, p.Name, p.Detail)
}

// NewProgram parses the files (name -> source). Files with lexical errors
// are left out of the program and reported in the returned errors.
func NewProgram(files map[string]string) (*Program, []error) {
	p := &Program{Files: map[string]*File{}}
	var errs []error
	names := make([]string, 0, len(files))
	for name := range files {
		names = append(names, name)
	}
	sort.Strings(names)
	for _, name := range names {
		key := path.Clean(name)
		if _, dup := p.Files[key]; dup {
			errs = append(errs, fmt.Errorf("%s: file given twice (as %s)", key, name))
			continue
		}
		f, err := ParseFile(key, files[name])
		if err != nil {
			errs = append(errs, err)
			continue
		}
		p.Files[key] = f
	}
	return p, errs
}

// Defined returns the top-level names defined by the file (classes,
// typedefs, enums, functions, extensions under their own name) with the
// number of their definitions.
func (f *File) Defined() map[string]int {
	out := map[string]int{}
	for _, c := range f.Classes {
		out[c.Name]++
	}
	for _, t := range f.Typedefs {
		out[t.Name]++
	}
	for _, e := range f.Enums {
		out[e.Name]++
	}
	for _, e := range f.Extensions {
		out[e.Name]++
	}
	for _, fn := range f.Functions {
		out[fn.Name]++
	}
	return out
}

func isPrivate(name string) bool { return strings.HasPrefix(name, "_") }

// isExternalURI reports URIs of libraries outside the program by nature.
func isExternalURI(uri string) bool { return strings.HasPrefix(uri, "dart:") }

// ImportTarget maps the URI of an import directive of file to the name of
// the imported file in the program: relative URIs are resolved against the
// directory of the importing file, `package:` URIs are looked up verbatim.
// ok is false if the program has no such file.
func (p *Program) ImportTarget(file, uri string) (target string, ok bool) {
	if strings.Contains(uri, ":") {
		target = uri
	} else {
		target = path.Clean(path.Join(path.Dir(path.Clean(file)), uri))
	}
	_, ok = p.Files[target]
	return target, ok
}

func (p *Program) definedSomewhere() map[string]bool {
	all := map[string]bool{}
	for _, f := range p.Files {
		for name := range f.Defined() {
			all[name] = true
		}
	}
	return all
}

// Used returns, sorted, the identifiers occurring anywhere in the tokens of
// the file (outside strings and comments, not preceded by `.`) that are
// defined as a top-level name in some file of the program.
func (p *Program) Used(file string) []string {
	f := p.Files[path.Clean(file)]
	if f == nil {
		return nil
	}
	return usedIn(f, p.definedSomewhere())
}

func usedIn(f *File, all map[string]bool) []string {
	seen := map[string]bool{}
	var out []string
	for i, t := range f.Tokens {
		if t.Kind != KindIdent || !all[t.Text] || seen[t.Text] {
			continue
		}
		if i > 0 && isMemberAccess(f.Tokens[i-1]) {
			continue
		}
		seen[t.Text] = true
		out = append(out, t.Text)
	}
	sort.Strings(out)
	return out
}

// Resolve implements Dart's rule for one name used in one file. A definition
// in the file itself wins (exactly one; more is "duplicate definition").
// Otherwise the definitions in the DIRECTLY imported files are candidates
// (imports are not transitive, private names are never imported): exactly
// one gives its file, none is "undefined", several is "ambiguous import".
func (p *Program) Resolve(file, name string) (definedIn string, problem string) {
	definedIn, problem, _ = p.resolve(path.Clean(file), name)
	return definedIn, problem
}

func (p *Program) resolve(file, name string) (definedIn, problem, detail string) {
	f := p.Files[file]
	if f == nil {
		return "", "unknown file", ""
	}
	switch n := f.Defined()[name]; {
	case n == 1:
		return file, "", ""
	case n > 1:
		return file, "duplicate definition", fmt.Sprintf("%d definitions in %s", n, file)
	}
	if isPrivate(name) {
		return "", "undefined", "library-private name, not defined in " + file
	}
	var candidates []string
	seen := map[string]bool{file: true}
	for _, uri := range f.Imports {
		target, ok := p.ImportTarget(file, uri)
		if !ok || seen[target] {
			continue
		}
		seen[target] = true
		if p.Files[target].Defined()[name] > 0 {
			candidates = append(candidates, target)
		}
	}
	switch len(candidates) {
	case 1:
		return candidates[0], "", ""
	case 0:
		var elsewhere []string
		for other, of := range p.Files {
			if of.Defined()[name] > 0 {
				elsewhere = append(elsewhere, other)
			}
		}
		sort.Strings(elsewhere)
		return "", "undefined", "not imported; defined in " + strings.Join(elsewhere, ", ")
	default:
		return "", "ambiguous import", "imported from " + strings.Join(candidates, ", ")
	}
}

// Problems runs Resolve for every used name of every file and also reports
// names defined several times in one file, a file importing itself and an
// import of a file that is not part of the program (`dart:` libraries are
// never expected in the program). The result is sorted by file, kind, name.
func (p *Program) Problems() []Problem {
	var out []Problem
	all := p.definedSomewhere()
	for file, f := range p.Files {
		for _, uri := range f.Imports {
			if isExternalURI(uri) {
				continue
			}
			target, ok := p.ImportTarget(file, uri)
			switch {
			case target == file:
				out = append(out, Problem{File: file, Name: uri, Kind: ProblemSelfImport, Detail: "file imports itself"})
			case !ok:
				out = append(out, Problem{File: file, Name: uri, Kind: ProblemMissingImport, Detail: target + " is not part of the program"})
			}
		}
		for name, n := range f.Defined() {
			if n > 1 {
				out = append(out, Problem{File: file, Name: name, Kind: ProblemDuplicate, Detail: fmt.Sprintf("%d definitions in %s", n, file)})
			}
		}
		for _, name := range usedIn(f, all) {
			_, problem, detail := p.resolve(file, name)
			switch problem {
			case "undefined":
				out = append(out, Problem{File: file, Name: name, Kind: ProblemUndefined, Detail: detail})
			case "ambiguous import":
				out = append(out, Problem{File: file, Name: name, Kind: ProblemAmbiguous, Detail: detail})
			}
		}
	}
	sort.Slice(out, func(i, j int) bool {
		a, b := out[i], out[j]
		if a.File != b.File {
			return a.File < b.File
		}
		if a.Kind != b.Kind {
			return a.Kind < b.Kind
		}
		return a.Name < b.Name
	})
	return out
}
