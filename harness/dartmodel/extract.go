package dartmodel

// Pattern extraction over function bodies. Everything here is pure token
// matching, independent of layout.

// KeyUse is one read `<callee>(json['k'])` or `json['k']`.
type KeyUse struct {
	Key    string // unescaped content of the string literal
	Callee string // e.g. intFromJson, DateTime.parse; "" for a bare read
	Var    string // the indexed identifier (json in the templates)
	// Arg is the index of the argument of the `return Name(...)` call that
	// contains the read, -1 if the read is outside that call.
	Arg int
	// Exact is true when that argument consists of nothing but the read
	// (with its callee): false reveals extra tokens such as `?? 0` or `as int`.
	Exact bool
	// Interp is true if the key literal contains a string interpolation
	// (e.g. a `$` coming from a Go struct tag): the Dart key is then NOT Key.
	Interp bool
	Line   int
}

// KeyWrite is one entry of a returned map literal.
type KeyWrite struct {
	Key    string // unescaped content of the key literal; "" if the key is not a string literal
	Callee string // e.g. intToJson; "" for `item.field`
	Field  string // field in `item.field`; "" if the value has another shape
	Var    string // item in `item.field`
	Expr   string // value tokens joined by one space (whole entry if Key is not a literal)
	// Exact is true if the value is exactly `callee(item.field)` or `item.field`.
	Exact  bool
	Interp bool // see KeyUse.Interp
	Line   int
}

// UnionCase is `case "Kind": return callee(arg);`.
type UnionCase struct {
	Kind   string
	Callee string // "" if the case body has another shape
	Arg    string // identifier passed to the callee (data in the templates)
	Interp bool
	Line   int
}

// UnionWrite is `if (item is DartType) { return {'Kind': "K", 'Data': callee(item)}; }`.
type UnionWrite struct {
	DartType string
	Kind     string // value of the entry whose value is a string literal
	Callee   string // callee of the entry whose value is a call
	KindKey  string
	DataKey  string
	Var      string // subject of the `is` test
	Arg      string // identifier passed to the callee
	Entries  int    // number of entries in the returned map (2 in the templates)
	Line     int
}

// KeyBinding is `final v = json['K'] ...;`.
type KeyBinding struct{ Var, Key string }

// matches returns the bracket table of Body. ok is false for a hand-built
// Function whose Body is not balanced (ParseFile never builds one): the
// helpers relying on brackets then report nothing.
func (fn *Function) matches() (m []int, ok bool) {
	if fn.match == nil || len(fn.match) != len(fn.Body) {
		m, err := matchBrackets(fn.Name, fn.Body)
		if err != nil {
			m = make([]int, len(fn.Body))
			for i := range m {
				m[i] = -1
			}
			fn.unbalanced = true
		} else {
			fn.unbalanced = false
		}
		fn.match = m
	}
	return fn.match, !fn.unbalanced
}

func (fn *Function) at(i int) Token {
	if i < 0 || i >= len(fn.Body) {
		return eof
	}
	return fn.Body[i]
}

func isMemberAccess(t Token) bool {
	return t.Kind == KindPunct && (t.Text == "." || t.Text == ".." || t.Text == "?." || t.Text == "?..")
}

// keyRead reports whether an `ident [ 'k' ]` read starts at i.
func (fn *Function) keyRead(i int) bool {
	t := fn.at(i)
	return t.Kind == KindIdent && !reserved[t.Text] && !isMemberAccess(fn.at(i-1)) &&
		fn.at(i+1).punct("[") && fn.at(i+2).Kind == KindString && fn.at(i+3).punct("]")
}

// calleeBefore returns the dotted callee name ending just before the `(` at
// index open, and the index of its first token ("" if there is none).
func (fn *Function) calleeBefore(open int) (string, int) {
	i := open - 1
	t := fn.at(i)
	if t.Kind != KindIdent || reserved[t.Text] || controlWords[t.Text] {
		return "", -1
	}
	name := t.Text
	for fn.at(i-1).punct(".") && fn.at(i-2).Kind == KindIdent && !reserved[fn.at(i-2).Text] {
		name = fn.at(i-2).Text + "." + name
		i -= 2
	}
	if isMemberAccess(fn.at(i - 1)) {
		return "", -1 // method call on an expression: `(a as num).toDouble(`
	}
	return name, i
}

// ReturnCall finds the first `return Name(` (also `return const Name(`,
// `return new Name(`) of the body, or the call an arrow body consists of,
// and returns the name and the token ranges of its arguments as [from, to)
// indices into Body. open is the index of the `(`, -1 if there is no such call.
func (fn *Function) ReturnCall() (name string, open int, args [][2]int) {
	b := fn.Body
	m, ok := fn.matches()
	if !ok {
		return "", -1, nil
	}
	try := func(i int) bool {
		if fn.at(i).ident("const") || fn.at(i).ident("new") {
			i++
		}
		t := fn.at(i)
		if t.Kind != KindIdent || reserved[t.Text] || !fn.at(i+1).punct("(") {
			return false
		}
		name, open = t.Text, i+1
		return true
	}
	found := false
	if fn.Arrow && try(0) && m[open] == len(b)-1 {
		found = true
	}
	for i := 0; !found && i < len(b); i++ {
		if b[i].ident("return") && !isMemberAccess(fn.at(i-1)) && try(i+1) {
			found = true
		}
	}
	if !found {
		return "", -1, nil
	}
	for _, seg := range splitCommas(b, m, open+1, m[open]) {
		if seg[0] != seg[1] {
			args = append(args, seg)
		}
	}
	return name, open, args
}

// JSONReads extracts the ordered key reads of a struct FromJson routine:
// `<callee>(json['k'])` or bare `json['k']` (single or double quotes),
// together with the name used in `return Name(`.
func (fn *Function) JSONReads() (ctor string, reads []KeyUse) {
	ctor, ctorOpen, args := fn.ReturnCall()
	m, ok := fn.matches()
	if !ok {
		return "", nil
	}
	for i := range fn.Body {
		if !fn.keyRead(i) {
			continue
		}
		key := fn.Body[i+2]
		use := KeyUse{Key: key.Text, Var: fn.Body[i].Text, Arg: -1, Interp: key.Interp, Line: fn.Body[i].Line}
		from, to := i, i+4
		if open := i - 1; fn.at(open).punct("(") && open != ctorOpen && m[open] == i+4 {
			if callee, first := fn.calleeBefore(open); callee != "" {
				use.Callee = callee
				from, to = first, i+5
			}
		}
		for k, a := range args {
			if a[0] <= i && i < a[1] {
				use.Arg = k
				use.Exact = a[0] == from && a[1] == to
			}
		}
		reads = append(reads, use)
	}
	return ctor, reads
}

// returnedMap returns the index of the `{` of the first `return { ... }`
// in [lo, hi) (or of an arrow body being a map literal), -1 if none.
func (fn *Function) returnedMap(lo, hi int) int {
	if fn.Arrow && lo == 0 && fn.at(0).punct("{") {
		return 0
	}
	for i := lo; i+1 < hi; i++ {
		if fn.Body[i].ident("return") && fn.Body[i+1].punct("{") {
			return i + 1
		}
	}
	return -1
}

// mapEntry is one `key : value` entry of a map literal.
type mapEntry struct {
	key        Token // Kind "" if the key is not a single string literal
	from, to   int   // value range (whole entry if key is not a literal)
	entryStart int
}

func (fn *Function) mapEntries(open int) []mapEntry {
	m, _ := fn.matches()
	var out []mapEntry
	for _, seg := range splitCommas(fn.Body, m, open+1, m[open]) {
		if seg[0] == seg[1] {
			continue
		}
		e := mapEntry{from: seg[0], to: seg[1], entryStart: seg[0]}
		if fn.Body[seg[0]].Kind == KindString && fn.at(seg[0]+1).punct(":") && seg[0]+1 < seg[1] {
			e.key = fn.Body[seg[0]]
			e.from = seg[0] + 2
		}
		out = append(out, e)
	}
	return out
}

// JSONWrites extracts the ordered entries `"k" : callee(item.field)` or
// `"k" : item.field` of the map literal returned by a struct ToJson routine.
func (fn *Function) JSONWrites() []KeyWrite {
	m, ok := fn.matches()
	if !ok {
		return nil
	}
	open := fn.returnedMap(0, len(fn.Body))
	if open < 0 {
		return nil
	}
	var out []KeyWrite
	for _, e := range fn.mapEntries(open) {
		w := KeyWrite{Expr: joinRaw(fn.Body[e.from:e.to]), Line: fn.Body[e.entryStart].Line}
		if e.key.Kind == KindString {
			w.Key, w.Interp = e.key.Text, e.key.Interp
			n := e.to - e.from
			isAccess := func(i int) bool {
				t := fn.at(i)
				return t.Kind == KindIdent && !reserved[t.Text] && fn.at(i+1).punct(".") && fn.at(i+2).Kind == KindIdent
			}
			switch {
			case n == 3 && isAccess(e.from):
				w.Var, w.Field, w.Exact = fn.Body[e.from].Text, fn.Body[e.from+2].Text, true
			case n >= 6 && fn.Body[e.to-1].punct(")") && isAccess(e.to-4) && fn.Body[e.to-5].punct("(") && m[e.to-5] == e.to-1:
				if callee, first := fn.calleeBefore(e.to - 5); callee != "" && first == e.from {
					w.Callee = callee
					w.Var, w.Field, w.Exact = fn.Body[e.to-4].Text, fn.Body[e.to-2].Text, true
				}
			}
		}
		out = append(out, w)
	}
	return out
}

// KeysRead lists the keys of all `ident['k']` reads of the body, in order.
func (fn *Function) KeysRead() []string {
	var out []string
	for i := range fn.Body {
		if fn.keyRead(i) {
			out = append(out, fn.Body[i+2].Text)
		}
	}
	return out
}

// KeyBindings lists the `final|var|const|Type v = ident['K']` bindings, in order.
func (fn *Function) KeyBindings() []KeyBinding {
	var out []KeyBinding
	for i := range fn.Body {
		if fn.keyRead(i) && fn.at(i-1).punct("=") && fn.at(i-2).Kind == KindIdent {
			out = append(out, KeyBinding{Var: fn.Body[i-2].Text, Key: fn.Body[i+2].Text})
		}
	}
	return out
}

// SwitchSubject returns x for the first `switch (x)` of the body ("" if the
// subject is not a single identifier or there is no switch).
func (fn *Function) SwitchSubject() string {
	for i := range fn.Body {
		if fn.Body[i].ident("switch") && fn.at(i+1).punct("(") && fn.at(i+2).Kind == KindIdent && fn.at(i+3).punct(")") {
			return fn.Body[i+2].Text
		}
	}
	return ""
}

// UnionCases extracts, from a union FromJson routine, the
// `case "K": return <callee>(data);` entries in order, the keys read from
// json (['Kind'], ['Data']) and whether a default branch throws.
func (fn *Function) UnionCases() (cases []UnionCase, keysRead []string, hasDefaultThrow bool) {
	b := fn.Body
	m, ok := fn.matches()
	if !ok {
		return nil, nil, false
	}
	keysRead = fn.KeysRead()
	for i := range b {
		switch {
		case b[i].ident("case") && fn.at(i+1).Kind == KindString && fn.at(i+2).punct(":"):
			c := UnionCase{Kind: b[i+1].Text, Interp: b[i+1].Interp, Line: b[i].Line}
			// return callee ( ident ) ;
			if fn.at(i + 3).ident("return") {
				j := i + 4
				for fn.at(j).Kind == KindIdent && fn.at(j+1).punct(".") {
					j += 2
				}
				if fn.at(j).Kind == KindIdent && fn.at(j+1).punct("(") && fn.at(j+2).Kind == KindIdent &&
					fn.at(j+3).punct(")") && fn.at(j+4).punct(";") {
					if callee, first := fn.calleeBefore(j + 1); callee != "" && first == i+4 {
						c.Callee, c.Arg = callee, b[j+2].Text
					}
				}
			}
			cases = append(cases, c)
		case b[i].ident("default") && fn.at(i+1).punct(":"):
			for j := i + 2; j < len(b); j++ {
				t := b[j]
				if t.ident("case") {
					break
				}
				if t.punct("}") && m[j] < i {
					break // end of the switch
				}
				if t.ident("throw") {
					hasDefaultThrow = true
					break
				}
			}
		}
	}
	return cases, keysRead, hasDefaultThrow
}

// UnionWrites extracts the `if (item is N) { return {'Kind': "K", 'Data':
// <callee>(item)}; }` chain of a union ToJson routine.
func (fn *Function) UnionWrites() []UnionWrite {
	w, _ := fn.UnionWritesInfo()
	return w
}

// UnionWritesInfo is UnionWrites, also reporting whether the chain ends
// with an else branch that throws.
func (fn *Function) UnionWritesInfo() (writes []UnionWrite, hasElseThrow bool) {
	b := fn.Body
	m, ok := fn.matches()
	if !ok {
		return nil, false
	}
	for i := range b {
		if b[i].ident("else") && (fn.at(i+1).ident("throw") || (fn.at(i+1).punct("{") && fn.at(i+2).ident("throw"))) {
			hasElseThrow = true
		}
		if !(b[i].ident("if") && fn.at(i+1).punct("(") && fn.at(i+2).Kind == KindIdent && fn.at(i+3).ident("is")) {
			continue
		}
		closeIdx := m[i+1]
		typ, next, ok := parseType(b[:closeIdx], i+4)
		if !ok || next != closeIdx {
			continue
		}
		w := UnionWrite{DartType: typ, Var: b[i+2].Text, Line: b[i].Line}
		// the guarded statement
		lo, hi := closeIdx+1, len(b)
		if fn.at(lo).punct("{") {
			lo, hi = lo+1, m[lo]
		} else {
			for k := lo; k < len(b); k++ {
				if t := b[k]; (t.punct("(") || t.punct("[") || t.punct("{")) && m[k] > k {
					k = m[k]
					continue
				}
				if b[k].punct(";") {
					hi = k + 1
					break
				}
			}
		}
		// do not look into a nested if chain
		if open := fn.returnedMapShallow(lo, hi); open >= 0 {
			entries := fn.mapEntries(open)
			w.Entries = len(entries)
			for _, e := range entries {
				if e.key.Kind != KindString {
					continue
				}
				n := e.to - e.from
				switch {
				case n == 1 && b[e.from].Kind == KindString:
					if w.KindKey == "" {
						w.KindKey, w.Kind = e.key.Text, b[e.from].Text
					}
				case n >= 4 && b[e.to-1].punct(")") && b[e.to-2].Kind == KindIdent && b[e.to-3].punct("("):
					if callee, first := fn.calleeBefore(e.to - 3); callee != "" && first == e.from && w.DataKey == "" {
						w.DataKey, w.Callee, w.Arg = e.key.Text, callee, b[e.to-2].Text
					}
				}
			}
		}
		writes = append(writes, w)
	}
	return writes, hasElseThrow
}

// returnedMapShallow is returnedMap restricted to [lo, hi), not entering
// nested blocks.
func (fn *Function) returnedMapShallow(lo, hi int) int {
	m, _ := fn.matches()
	for i := lo; i+1 < hi; i++ {
		if fn.Body[i].ident("return") && fn.Body[i+1].punct("{") {
			return i + 1
		}
		if fn.Body[i].punct("{") && m[i] > i {
			i = m[i]
		}
	}
	return -1
}

// controlWords are identifiers that may precede `(` without being a callee.
var controlWords = map[string]bool{
	"if": true, "for": true, "while": true, "switch": true, "catch": true, "assert": true,
	"return": true, "throw": true, "await": true, "yield": true, "as": true, "is": true,
	"in": true, "case": true, "else": true, "do": true, "on": true,
}

// Callees lists every identifier used as a callee `ident(` in the body, in
// order of appearance and with repetitions. Method calls (`x.ident(`) and
// control keywords (`if (`, `switch (`, `throw (` ...) are not reported.
func (fn *Function) Callees() []string {
	var out []string
	for i, t := range fn.Body {
		if t.Kind != KindIdent || !fn.at(i+1).punct("(") {
			continue
		}
		if reserved[t.Text] || controlWords[t.Text] || isMemberAccess(fn.at(i-1)) {
			continue
		}
		out = append(out, t.Text)
	}
	return out
}

// Idents lists the distinct identifiers of the body that are not reserved
// or control words (as, is, await, ...) and not preceded by `.`, in order of first appearance. It covers the
// tear-offs `.map(intFromJson)` that Callees does not see.
func (fn *Function) Idents() []string {
	var out []string
	seen := map[string]bool{}
	for i, t := range fn.Body {
		if t.Kind != KindIdent || reserved[t.Text] || controlWords[t.Text] || isMemberAccess(fn.at(i-1)) || seen[t.Text] {
			continue
		}
		seen[t.Text] = true
		out = append(out, t.Text)
	}
	return out
}

// DanglingElse reports an `else` that does not follow a `}` or a `;`, which
// is never valid Dart. The union ToJson template produces one for a union
// without members (its body starts with `else {`).
func (fn *Function) DanglingElse() bool {
	for i, t := range fn.Body {
		if !t.ident("else") || isMemberAccess(fn.at(i-1)) {
			continue
		}
		if prev := fn.at(i - 1); !prev.punct("}") && !prev.punct(";") {
			return true
		}
	}
	return false
}
