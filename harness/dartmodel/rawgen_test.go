package dartmodel

import (
	"fmt"
	"strings"
)

// Replicas of the templates of /repo/generator/dart/{typedecls,json}.go
// (copied verbatim, tabs included), driven by plain strings so that the tests
// exercise the RAW, unformatted generator output.

type rawField struct {
	jsonName string // field.JSONName()
	dartType string // typeName(field.Type), "dynamic" when opaque
	id       string // jsonID(field.Type)
	opaque   bool
}

func rawLowerFirst(s string) string { return strings.ToLower(s[0:1]) + s[1:] }

func rawStruct(origin, name string, implements []string, fieldsIn []rawField) string {
	var fields, initFields, interpolatedFields []string
	for _, f := range fieldsIn {
		dartFieldName := rawLowerFirst(f.jsonName)
		fields = append(fields, fmt.Sprintf("final %s %s;", f.dartType, dartFieldName))
		initFields = append(initFields, fmt.Sprintf("this.%s", dartFieldName))
		interpolatedFields = append(interpolatedFields, fmt.Sprintf("$%s", dartFieldName))
	}
	var implementCode string
	if len(implements) != 0 {
		implementCode = "implements " + strings.Join(implements, ", ")
	}
	return fmt.Sprintf(`
		// %s
		class %s %s {
		%s

		const %s(%s);

		@override
		String toString() {
			return "%s(%s)";
		}
		}

		%s
	`, origin, name, implementCode,
		strings.Join(fields, "\n"), name, strings.Join(initFields, ", "),
		name, strings.Join(interpolatedFields, ", "),
		rawJSONForStruct(name, fieldsIn),
	)
}

func rawJSONForStruct(name string, fieldsIn []rawField) string {
	var fieldsFrom, fieldsTo []string
	for _, f := range fieldsIn {
		fieldTypeID := f.id
		fieldName := f.jsonName
		dartFieldName := rawLowerFirst(fieldName)
		if f.opaque {
			fieldsFrom = append(fieldsFrom, fmt.Sprintf("json['%s']", fieldName))
			fieldsTo = append(fieldsTo, fmt.Sprintf("%q :  item.%s", fieldName, dartFieldName))
		} else {
			fieldsFrom = append(fieldsFrom, fmt.Sprintf("%sFromJson(json['%s'])", fieldTypeID, fieldName))
			fieldsTo = append(fieldsTo, fmt.Sprintf("%q : %sToJson(item.%s)", fieldName, fieldTypeID, dartFieldName))
		}
	}
	id := rawLowerFirst(name)
	return fmt.Sprintf(`
	%s %sFromJson(dynamic json_) {
		final json = (json_ as Map<String, dynamic>);
		return %s(
			%s
		);
	}

	Map<String, dynamic> %sToJson(%s item) {
		return {
			%s
		};
	}

	`, name, id, name, strings.Join(fieldsFrom, ",\n"),
		id, name, strings.Join(fieldsTo, ",\n"),
	)
}

type rawMember struct{ name, comment, value string }

func rawEnum(origin, name string, members []rawMember, isIota, isInteger bool) string {
	var names, values, labels []string
	for _, v := range members {
		vName := rawLowerFirst(v.name)
		_, after, found := strings.Cut(vName, "_")
		if found {
			vName = after
		}
		names = append(names, rawLowerFirst(vName))
		values = append(values, v.value)
		labels = append(labels, fmt.Sprintf("case %s.%s: return %q;", name, rawLowerFirst(vName), v.comment))
	}
	var fromValue string
	if isIota {
		fromValue = fmt.Sprintf(`static %s fromValue(int i) {
			return %s.values[i];
		}

		int toValue() {
			return index;
		}
		`, name, name)
	} else {
		valueType := "String"
		if isInteger {
			valueType = "int"
		}
		fromValue = fmt.Sprintf(`
		static const _values = [
			%s
		];
		static %s fromValue(%s s) {
			return %s.values[_values.indexOf(s)];
		}

		%s toValue() {
			return _values[index];
		}
		`, strings.Join(values, ", "), name, valueType, name, valueType)
	}
	enumDecl := fmt.Sprintf(`enum  %s {
		%s
	}

	extension _%sExt on %s {
		%s
	}

	String %sLabel(%s v) {
		switch (v) {
			%s
		}
	}
	`, name, strings.Join(names, ", "),
		name, name, fromValue,
		rawLowerFirst(name), name, strings.Join(labels, "\n"),
	)
	content := "// " + origin + "\n" + enumDecl
	valueType := "String"
	if isInteger {
		valueType = "int"
	}
	id := rawLowerFirst(name)
	content += "\n" + fmt.Sprintf(`%s %sFromJson(dynamic json) => _%sExt.fromValue(json as %s);

	dynamic %sToJson(%s item) => item.toValue();

	`, name, id, name, valueType, id, name)
	return content
}

type rawUnionMember struct{ kindTag, dartName, id string }

func rawUnion(origin, name string, members []rawUnionMember) string {
	content := fmt.Sprintf(`
	/// %s
	abstract class %s {}
	`, origin, name)

	var casesFrom, casesTo []string
	for i, member := range members {
		casesFrom = append(casesFrom, fmt.Sprintf(`case %q:
			return %sFromJson(data);`, member.kindTag, member.id))
		caseTo := fmt.Sprintf(`if (item is %s) {
			return {'Kind': %q, 'Data': %sToJson(item)};
		}`, member.dartName, member.kindTag, member.id)
		if i != 0 {
			caseTo = "else " + caseTo
		}
		casesTo = append(casesTo, caseTo)
	}
	id := rawLowerFirst(name)
	codeFrom := fmt.Sprintf(`%s %sFromJson(dynamic json_) {
		final json = json_ as Map<String, dynamic>;
		final kind = json['Kind'] as String;
		final data = json['Data'];
		switch (kind) {
			%s
		default:
			throw ("unexpected type");
		}
	}
	`, name, id, strings.Join(casesFrom, "\n"))

	codeTo := fmt.Sprintf(`Map<String, dynamic> %sToJson(%s item) {
		%s else {
			throw ("unexpected type");
		}
	}
	`, id, name, strings.Join(casesTo, ""))

	return content + codeFrom + "\n" + codeTo
}

func rawNamed(origin, name, underlying, elemID string, withJSON bool) string {
	var js string
	if withJSON {
		id := rawLowerFirst(name)
		js = fmt.Sprintf(`%s %sFromJson(dynamic json) { return %sFromJson(json); }

	dynamic %sToJson(%s item) { return %sToJson(item); }
	`, name, id, elemID,
			id, name, elemID)
	}
	return fmt.Sprintf(`
	// %s
	typedef %s = %s;

	%s
	`, origin, name, underlying, js)
}

func rawArray(name, id, elemID string) string {
	return fmt.Sprintf(`%s %sFromJson(dynamic json) {
		if (json == null) {
			return [];
		}
		return (json as List<dynamic>).map(%sFromJson).toList();
	}

	List<dynamic> %sToJson(%s item) {
		return item.map(%sToJson).toList();
	}
	`, name, id, elemID, id, name, elemID)
}

func rawMap(name, id, keyName, keyID, elemID string) string {
	keyFromJson := "k as " + keyName
	if keyName == "int" {
		keyFromJson = "int.parse(k)"
	}
	return fmt.Sprintf(`%s %sFromJson(dynamic json) {
		if (json == null) {
			return {};
		}
		return (json as Map<String, dynamic>).map((k,v) => MapEntry(%s, %sFromJson(v)));
	}

	Map<String, dynamic> %sToJson(%s item) {
		return item.map((k,v) => MapEntry(%sToJson(k).toString(), %sToJson(v)));
	}
	`, name, id, keyFromJson, elemID, id, name, keyID, elemID)
}

const rawFloat = `double doubleFromJson(dynamic json) => (json as num).toDouble();

	double doubleToJson(double item) => item;

	`

const rawString = `String stringFromJson(dynamic json) => json == null ? "" : json as String;

		String stringToJson(String item) => item;

		`

func rawBoolInt(name, id string) string {
	return fmt.Sprintf(`%s %sFromJson(dynamic json) => json as %s;

		%s %sToJson(%s item) => item;

		`, name, id, name, name, id, name)
}

const rawTime = `DateTime dateTimeFromJson(dynamic json) => DateTime.parse(json as String);

	dynamic dateTimeToJson(DateTime dt) => dt.toIso8601String();
	`

const rawHeader = "// Code generated by gomacro/generator/dart. DO NOT EDIT\n"

// rawFile mimics generator.WriteDeclarations: header, imports, then the
// declarations, each followed by a newline.
func rawFile(imports []string, decls ...string) string {
	var sb strings.Builder
	sb.WriteString(rawHeader)
	sb.WriteByte('\n')
	var imps []string
	for _, imp := range imports {
		imps = append(imps, fmt.Sprintf("import '%s';", imp))
	}
	sb.WriteString(strings.Join(imps, "\n"))
	sb.WriteByte('\n')
	for _, d := range decls {
		sb.WriteString(d)
		sb.WriteByte('\n')
	}
	return sb.String()
}
